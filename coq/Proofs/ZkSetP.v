(* Lemmas about Model/ZkSet.v: set operations, callback isolation (erase commutes with every step),
   the invariants behind C19_converges_partial and C19_alternation_partial. *)
From Scales Require Import Model.Base Model.ZkSet.
From Coq Require Import Permutation.
Local Open Scope Z_scope.

(* ---------------------------------------------------------------------------------------------- *)
(* sets as lists                                                                                    *)
Lemma mem_In n l : mem n l = true <-> In n l.
Proof.
  unfold mem. rewrite existsb_exists. split.
  - intros (x & Hx & E). apply Z.eqb_eq in E. subst. exact Hx.
  - intros H. exists n. split; [exact H | apply Z.eqb_refl].
Qed.

Lemma mem_nil n : mem n [] = false. Proof. reflexivity. Qed.
Lemma mem_cons n x l : mem n (x :: l) = (n =? x) || mem n l. Proof. reflexivity. Qed.
Lemma mem_app n a b : mem n (a ++ b) = mem n a || mem n b.
Proof. unfold mem. apply existsb_app. Qed.

Lemma mem_filter n f l : mem n (filter f l) = mem n l && f n.
Proof.
  induction l as [|x l IH]; [reflexivity|]. cbn [filter].
  destruct (f x) eqn:Fx; rewrite ?mem_cons, IH; destruct (Z.eqb_spec n x) as [->|Hne]; cbn;
    rewrite ?Fx; try reflexivity; try (destruct (mem x l); reflexivity).
Qed.

Lemma mem_remove_z n x l : mem n (remove_z x l) = mem n l && negb (n =? x).
Proof. unfold remove_z. apply mem_filter. Qed.
Lemma mem_diff n a b : mem n (diff a b) = mem n a && negb (mem n b).
Proof. unfold diff. apply mem_filter. Qed.
Lemma mem_union n a b : mem n (union a b) = mem n a || mem n b.
Proof. unfold union. rewrite mem_app, mem_diff. destruct (mem n a), (mem n b); reflexivity. Qed.

Lemma option_eqb_Z_spec (a b : option Z) : option_eqb Z.eqb a b = true <-> a = b.
Proof.
  destruct a, b; cbn; split; intros H; try congruence; try discriminate.
  - apply Z.eqb_eq in H. congruence.
  - inversion H. apply Z.eqb_refl.
Qed.

(* ---------------------------------------------------------------------------------------------- *)
(* callback isolation                                                                              *)
Lemma erase_call_cb k n s : erase (call_cb k n s) = call_cb k n (erase s).
Proof. unfold call_cb, erase. destruct s as [? ? ? ? ? ? ? ? ? ? ? ? ? ? ? ar lg]. destruct ar; reflexivity. Qed.

Ltac erase_unfold := unfold erase; match goal with s : state |- _ => destruct s; reflexivity end.

Lemma erase_do_joins ms : forall s, erase (do_joins ms s) = do_joins ms (erase s).
Proof. induction ms as [|m r IH]; intros s; cbn [do_joins]; [reflexivity|]. rewrite IH, erase_call_cb. reflexivity. Qed.

Lemma erase_set_members v s : erase (set_members v s) = set_members v (erase s).
Proof. destruct s; reflexivity. Qed.
Lemma erase_set_nodes v s : erase (set_nodes v s) = set_nodes v (erase s).
Proof. destruct s; reflexivity. Qed.
Lemma erase_set_queue v s : erase (set_queue v s) = set_queue v (erase s).
Proof. destruct s; reflexivity. Qed.
Lemma erase_set_wk v s : erase (set_wk v s) = set_wk v (erase s).
Proof. destruct s; reflexivity. Qed.
Lemma erase_set_cw v s : erase (set_cw v s) = set_cw v (erase s).
Proof. destruct s; reflexivity. Qed.
Lemma erase_set_dw v s : erase (set_dw v s) = set_dw v (erase s).
Proof. destruct s; reflexivity. Qed.
Lemma erase_set_dver v s : erase (set_dver v s) = set_dver v (erase s).
Proof. destruct s; reflexivity. Qed.
Lemma erase_set_watching v s : erase (set_watching v s) = set_watching v (erase s).
Proof. destruct s; reflexivity. Qed.
Lemma erase_set_pending v s : erase (set_pending v s) = set_pending v (erase s).
Proof. destruct s; reflexivity. Qed.
Lemma erase_set_started v s : erase (set_started v s) = set_started v (erase s).
Proof. destruct s; reflexivity. Qed.
Lemma erase_set_parent v s : erase (set_parent v s) = set_parent v (erase s).
Proof. destruct s; reflexivity. Qed.
Lemma erase_set_pz v s : erase (set_pz v s) = set_pz v (erase s).
Proof. destruct s; reflexivity. Qed.
Lemma erase_set_zx v s : erase (set_zx v s) = set_zx v (erase s).
Proof. destruct s; reflexivity. Qed.
Lemma erase_set_kids v s : erase (set_kids v s) = set_kids v (erase s).
Proof. destruct s; reflexivity. Qed.

Lemma erase_do_leaves rem : forall s, erase (do_leaves rem s) = do_leaves rem (erase s).
Proof.
  induction rem as [|m r IH]; intros s; cbn [do_leaves]; [reflexivity|]. rewrite IH.
  replace (members (erase s)) with (members s) by (destruct s; reflexivity).
  destruct (mem m (members s)); [|reflexivity]. rewrite erase_call_cb, erase_set_members. reflexivity.
Qed.

Lemma erase_apply_batch d r s : erase (apply_batch d r s) = apply_batch d r (erase s).
Proof.
  unfold apply_batch. rewrite erase_do_joins, erase_do_leaves, erase_set_members.
  replace (members (erase s)) with (members s) by (destruct s; reflexivity). reflexivity.
Qed.

Lemma erase_continue_batch h t d r s : erase (continue_batch h t d r s) = continue_batch h t d r (erase s).
Proof.
  unfold continue_batch. destruct (pick h t) as [[nx rest]|].
  - apply erase_set_wk.
  - rewrite erase_apply_batch, erase_set_wk. reflexivity.
Qed.

Lemma wk_erase s : wk (erase s) = wk s. Proof. destruct s; reflexivity. Qed.
Lemma flt_erase s n : flt (erase s) n = flt s n. Proof. destruct s; reflexivity. Qed.

Lemma erase_drain_q h q : forall s, erase (drain_q h q s) = drain_q h q (erase s).
Proof.
  induction q as [|it q IH]; intros s; cbn [drain_q].
  - apply erase_set_queue.
  - replace (item_batch (erase s) it) with (item_batch s it) by (destruct s, it; reflexivity).
    replace (filter (flt (erase s)) (fst (item_batch s it))) with (filter (flt s) (fst (item_batch s it)))
      by (apply filter_ext; intros a; symmetry; apply flt_erase).
    rewrite <- erase_set_queue, <- erase_continue_batch, wk_erase.
    destruct (wk (continue_batch h (filter (flt s) (fst (item_batch s it))) [] (snd (item_batch s it)) (set_queue q s)));
      [reflexivity|apply IH].
Qed.

Lemma erase_worker_step h s : erase (worker_step h s) = worker_step h (erase s).
Proof.
  unfold worker_step, drain. rewrite wk_erase.
  replace (queue (erase s)) with (queue s) by (destruct s; reflexivity).
  destruct (wk s) as [w|].
  - replace (read_found (erase s) w) with (read_found s w) by (destruct s; reflexivity).
    rewrite <- erase_continue_batch, wk_erase.
    set (s1 := continue_batch h (w_todo w) _ (w_rem w) s).
    destruct (wk s1); [reflexivity|].
    replace (queue (erase s1)) with (queue s1) by (destruct s1; reflexivity). apply erase_drain_q.
  - apply erase_drain_q.
Qed.

Lemma erase_on_set_changed ch s : erase (on_set_changed ch s) = on_set_changed ch (erase s).
Proof. destruct s; reflexivity. Qed.

Lemma erase_send_all_removed s : erase (send_all_removed s) = send_all_removed (erase s).
Proof. destruct s; reflexivity. Qed.

Lemma erase_data_changed s : erase (data_changed s) = data_changed (erase s).
Proof.
  unfold data_changed. replace (parent (erase s)) with (parent s) by (destruct s; reflexivity).
  replace (watching (erase s)) with (watching s) by (destruct s; reflexivity).
  destruct (parent s).
  - destruct (watching s); [reflexivity|]. destruct s; reflexivity.
  - rewrite erase_send_all_removed, erase_set_watching. reflexivity.
Qed.

Lemma erase_data_body f s : erase (data_body f s) = data_body f (erase s).
Proof.
  unfold data_body. replace (parent (erase s)) with (parent s) by (destruct s; reflexivity).
  replace (pz (erase s)) with (pz s) by (destruct s; reflexivity).
  replace (dver (erase s)) with (dver s) by (destruct s; reflexivity).
  rewrite <- erase_set_dw, <- erase_set_dver.
  destruct (f || _); [apply erase_data_changed|reflexivity].
Qed.

Lemma erase_step s l : is_raise l = false -> erase (step s l) = step (erase s) l.
Proof.
  intros Hl. destruct l; try discriminate Hl; cbn [step].
  - replace (started (erase s)) with (started s) by (destruct s; reflexivity).
    destruct (started s); [reflexivity|]. rewrite erase_data_body, erase_set_started. reflexivity.
  - destruct s as [? ? pr ? ? ? d ? ? ? ? ? ? ? ? ? ?]. destruct pr, d; reflexivity.
  - destruct s as [? ? pr ? ? ks d ? ? ? ? ? ? ? ? ? ?]. destruct pr, d, ks; reflexivity.
  - destruct s as [? ? pr ? ? ? d ? ? ? ? ? ? ? ? ? ?]. destruct pr, d; reflexivity.
  - replace (parent (erase s)) with (parent s) by (destruct s; reflexivity).
    replace (kids (erase s)) with (kids s) by (destruct s; reflexivity).
    destruct (parent s && negb (mem n (kids s))); [|reflexivity]. destruct s; reflexivity.
  - replace (parent (erase s)) with (parent s) by (destruct s; reflexivity).
    replace (kids (erase s)) with (kids s) by (destruct s; reflexivity).
    destruct (parent s && mem n (kids s)); [|reflexivity]. destruct s; reflexivity.
  - replace (pending (erase s)) with (pending s) by (destruct s; reflexivity).
    destruct (pending s) as [|[|] r]; [reflexivity| |].
    + rewrite erase_data_body, erase_set_pending. reflexivity.
    + destruct s as [? ? pr ? ? ? ? ? ? ? ? ? ? ? ? ? ?]. destruct pr; reflexivity.
  - replace (started (erase s)) with (started s) by (destruct s; reflexivity).
    destruct (started s); [apply erase_worker_step|reflexivity].
Qed.

Lemma erase_step_raise s c : erase (step s (CallbackRaises c)) = erase s.
Proof. destruct s; reflexivity. Qed.

Lemma erase_run ls : forall s, erase (run s ls) = run (erase s) (filter (fun l => negb (is_raise l)) ls).
Proof.
  induction ls as [|l r IH]; intros s; [reflexivity|]. cbn [run fold_left filter].
  fold (run (step s l) r). rewrite IH. destruct (is_raise l) eqn:E; cbn [negb].
  - destruct l; try discriminate E. rewrite erase_step_raise. reflexivity.
  - cbn [fold_left]. rewrite erase_step by exact E. reflexivity.
Qed.

Lemma erase_idem s : erase (erase s) = erase s.
Proof.
  destruct s as [? ? ? ? ? ? ? ? ? ? ? ? ? ? ? ? lg]. unfold erase, set_log, set_armed. cbn. f_equal.
  rewrite map_map. apply map_ext. intros e. reflexivity.
Qed.

(* ---------------------------------------------------------------------------------------------- *)
(* counting pending callbacks                                                                      *)
Fixpoint count_pd (p : list pend) : nat :=
  match p with [] => 0 | PData :: r => S (count_pd r) | PChild :: r => count_pd r end.
Fixpoint count_pc (p : list pend) : nat :=
  match p with [] => 0 | PChild :: r => S (count_pc r) | PData :: r => count_pc r end.

Lemma count_pd_app a b : count_pd (a ++ b) = (count_pd a + count_pd b)%nat.
Proof. induction a as [|[|] a IH]; cbn; [reflexivity| |]; rewrite IH; reflexivity. Qed.
Lemma count_pc_app a b : count_pc (a ++ b) = (count_pc a + count_pc b)%nat.
Proof. induction a as [|[|] a IH]; cbn; [reflexivity| |]; rewrite IH; reflexivity. Qed.
Lemma count_pd_repeat k : count_pd (repeat PChild k) = 0%nat.
Proof. induction k; cbn; auto. Qed.
Lemma count_pc_repeat k : count_pc (repeat PChild k) = k.
Proof. induction k; cbn; auto. Qed.
Lemma has_pdata_count p : has_pdata p = negb (Nat.eqb (count_pd p) 0).
Proof. induction p as [|[|] p IH]; cbn; auto. Qed.

(* ---------------------------------------------------------------------------------------------- *)
(* the log                                                                                         *)
Fixpoint wf_log (lg : list event) : bool :=
  match lg with
  | [] => true
  | e :: older => wf_log older &&
                  match ev_kind e with
                  | Join => negb (mem (ev_name e) (view older))
                  | Leave => mem (ev_name e) (view older)
                  end
  end.

Lemma call_cb_log k n s : exists b, log (call_cb k n s) = Ev k n b :: log s.
Proof. unfold call_cb. destruct (armed s); eexists; reflexivity. Qed.

(* the fields the worker and the callbacks' bookkeeping never touch *)
Definition wenv (s : state) :=
  (filt s, started s, parent s, pz s, zx s, kids s, dw s, cw s, pending s, dver s, watching s, nodes s).

Lemma call_cb_frame k n s :
  wenv (call_cb k n s) = wenv s /\ members (call_cb k n s) = members s /\
  queue (call_cb k n s) = queue s /\ wk (call_cb k n s) = wk s.
Proof. unfold call_cb. destruct (armed s); repeat split. Qed.

Lemma do_joins_frame d : forall s,
  wenv (do_joins d s) = wenv s /\ members (do_joins d s) = members s /\
  queue (do_joins d s) = queue s /\ wk (do_joins d s) = wk s.
Proof.
  induction d as [|m r IH]; intros s; cbn [do_joins]; [repeat split|].
  destruct (IH (call_cb Join m s)) as (A & B & Cq & D). destruct (call_cb_frame Join m s) as (A' & B' & C' & D').
  repeat split; congruence.
Qed.

Lemma do_leaves_frame d : forall s,
  wenv (do_leaves d s) = wenv s /\ queue (do_leaves d s) = queue s /\ wk (do_leaves d s) = wk s.
Proof.
  induction d as [|m r IH]; intros s; cbn [do_leaves]; [repeat split|].
  destruct (mem m (members s)); [|apply IH].
  destruct (IH (call_cb Leave m (set_members (remove_z m (members s)) s))) as (A & Cq & D).
  destruct (call_cb_frame Leave m (set_members (remove_z m (members s)) s)) as (A' & _ & C' & D').
  change (wenv (set_members (remove_z m (members s)) s)) with (wenv s) in A'.
  change (queue (set_members (remove_z m (members s)) s)) with (queue s) in C'.
  change (wk (set_members (remove_z m (members s)) s)) with (wk s) in D'.
  repeat split; congruence.
Qed.

Lemma do_leaves_members d : forall s n,
  mem n (members (do_leaves d s)) = mem n (members s) && negb (mem n d).
Proof.
  induction d as [|m r IH]; intros s n; cbn [do_leaves].
  - rewrite mem_nil, andb_true_r. reflexivity.
  - rewrite IH, mem_cons. destruct (mem m (members s)) eqn:E.
    + destruct (call_cb_frame Leave m (set_members (remove_z m (members s)) s)) as (_ & -> & _).
      cbn [members set_members]. rewrite mem_remove_z.
      destruct (mem n (members s)), (n =? m), (mem n r); reflexivity.
    + destruct (Z.eqb_spec n m) as [->|Hne]; [rewrite E; reflexivity|].
      destruct (mem n (members s)), (mem n r); reflexivity.
Qed.

Lemma apply_batch_frame d r s :
  wenv (apply_batch d r s) = wenv s /\ queue (apply_batch d r s) = queue s /\ wk (apply_batch d r s) = wk s.
Proof.
  unfold apply_batch.
  destruct (do_joins_frame d (do_leaves r (set_members (union d (members s)) s))) as (A & _ & Cq & D).
  destruct (do_leaves_frame r (set_members (union d (members s)) s)) as (A' & C' & D').
  change (wenv (set_members (union d (members s)) s)) with (wenv s) in A'.
  change (queue (set_members (union d (members s)) s)) with (queue s) in C'.
  change (wk (set_members (union d (members s)) s)) with (wk s) in D'.
  repeat split; congruence.
Qed.

Lemma apply_batch_members d r s n :
  mem n (members (apply_batch d r s)) = (mem n d || mem n (members s)) && negb (mem n r).
Proof.
  unfold apply_batch.
  destruct (do_joins_frame d (do_leaves r (set_members (union d (members s)) s))) as (_ & -> & _).
  rewrite do_leaves_members. cbn [members set_members]. rewrite mem_union. reflexivity.
Qed.


(* ---------------------------------------------------------------------------------------------- *)
(* per-name reading of a chain of batches                                                          *)
Definition fold_b (n : name) (qs : list (option batch)) (b : bool) : bool := fold_left (bstep n) qs b.

(* each batch announces as new only names not held at that point, and never a name it also removes;
   the all-members-left item empties the set *)
Fixpoint chain_ok (n : name) (m : bool) (qs : list (option batch)) : bool :=
  match qs with
  | [] => true
  | None :: r => chain_ok n false r
  | Some bt :: r => negb (m && mem n (fst bt)) && negb (mem n (fst bt) && mem n (snd bt)) && chain_ok n (bstep n m (Some bt)) r
  end.

Lemma bstep_mono n it b b' : (b' = true -> b = true) -> bstep n b' it = true -> bstep n b it = true.
Proof.
  intros H E. destruct it as [bt|]; [|exact E]. unfold bstep in *. apply andb_true_iff in E as [E1 E2]. rewrite E2, andb_true_r.
  destruct b'; [rewrite (H eq_refl); reflexivity|]. cbn in E1. rewrite E1. apply orb_true_r.
Qed.

Lemma fold_b_mono n qs : forall b b', (b' = true -> b = true) -> fold_b n qs b' = true -> fold_b n qs b = true.
Proof.
  induction qs as [|bt r IH]; intros b b' H; cbn; [exact H|].
  apply IH. apply bstep_mono. exact H.
Qed.

Lemma chain_ok_mono n qs : forall b b', (b' = true -> b = true) -> chain_ok n b qs = true -> chain_ok n b' qs = true.
Proof.
  induction qs as [|[bt|] r IH]; intros b b' H; cbn [chain_ok]; [auto| |auto].
  intros E. apply andb_true_iff in E as [E E3]. apply andb_true_iff in E as [E1 E2].
  rewrite E2, (IH _ (bstep n b' (Some bt)) (bstep_mono n (Some bt) b b' H) E3).
  destruct b'; [rewrite (H eq_refl) in E1; rewrite E1|]; reflexivity.
Qed.

Lemma fold_b_app n qs bt m : fold_b n (qs ++ [bt]) m = bstep n (fold_b n qs m) bt.
Proof. unfold fold_b. rewrite fold_left_app. reflexivity. Qed.

Lemma chain_ok_app n it qs : forall m,
  chain_ok n m (qs ++ [it]) =
  chain_ok n m qs && match it with
                     | Some bt => negb (fold_b n qs m && mem n (fst bt)) && negb (mem n (fst bt) && mem n (snd bt))
                     | None => true
                     end.
Proof.
  induction qs as [|[b|] r IH]; intros m; cbn [chain_ok app fold_b fold_left].
  - destruct it; cbn [chain_ok]; rewrite ?andb_true_r; reflexivity.
  - rewrite IH. unfold fold_b. rewrite !andb_assoc. reflexivity.
  - rewrite IH. reflexivity.
Qed.

(* chain_ok and fold_b look at the batches only through membership *)
Lemma chain_ok_head_ext n m new new' rem qs :
  mem n new' = mem n new -> chain_ok n m (Some (new', rem) :: qs) = chain_ok n m (Some (new, rem) :: qs).
Proof. intros E. cbn [chain_ok fst snd]. unfold bstep. cbn [fst snd]. rewrite E. reflexivity. Qed.

(* ---------------------------------------------------------------------------------------------- *)
(* NoDup helpers                                                                                   *)
Lemma NoDup_app_intro {A} (a b : list A) :
  NoDup a -> NoDup b -> (forall x, In x a -> ~ In x b) -> NoDup (a ++ b).
Proof.
  induction a as [|x a IH]; intros Ha Hb H; cbn; [exact Hb|].
  inversion Ha as [|? ? Hx Ha']; subst. constructor.
  - rewrite in_app_iff. intros [I|I]; [exact (Hx I)|]. exact (H x (or_introl eq_refl) I).
  - apply IH; auto. intros y Hy. apply H. right. exact Hy.
Qed.

Lemma NoDup_app_parts {A} (a b : list A) :
  NoDup (a ++ b) -> NoDup a /\ NoDup b /\ (forall x, In x a -> ~ In x b).
Proof.
  induction a as [|x a IH]; cbn; intros H.
  - repeat split; [constructor|exact H|intros ? []].
  - inversion H as [|? ? Hx H']; subst. destruct (IH H') as (Ha & Hb & Hd). repeat split.
    + constructor; [|exact Ha]. intros I. apply Hx. apply in_or_app. left. exact I.
    + exact Hb.
    + intros y [<-|Hy] I; [apply Hx; apply in_or_app; right; exact I|exact (Hd y Hy I)].
Qed.

Lemma NoDup_remove_z n l : NoDup l -> NoDup (remove_z n l).
Proof. apply NoDup_filter. Qed.
Lemma NoDup_diff a b : NoDup a -> NoDup (diff a b).
Proof. apply NoDup_filter. Qed.
Lemma NoDup_union a b : NoDup a -> NoDup b -> NoDup (union a b).
Proof.
  intros Ha Hb. unfold union. apply NoDup_app_intro; [apply NoDup_diff; exact Ha|exact Hb|].
  intros x Hx I. apply mem_In in Hx. rewrite mem_diff in Hx. apply mem_In in I. rewrite I in Hx.
  destruct (mem x a); discriminate.
Qed.

(* ---------------------------------------------------------------------------------------------- *)
(* what applying one batch does to the log                                                         *)
Definition logQ (D : list name) (s : state) : Prop :=
  (forall n, mem n (view (log s)) = mem n (members s) && negb (mem n D)) /\
  wf_log (log s) = true /\ NoDup (members s) /\ (forall n, In n D -> mem n (members s) = true).

Lemma do_leaves_logQ D rem : forall s, (forall n, In n rem -> ~ In n D) -> logQ D s -> logQ D (do_leaves rem s).
Proof.
  induction rem as [|m r IH]; intros s Hd Q; cbn [do_leaves]; [exact Q|].
  assert (Hd' : forall n, In n r -> ~ In n D) by (intros n Hn; apply Hd; right; exact Hn).
  destruct (mem m (members s)) eqn:Em; [|apply IH; assumption].
  apply IH; [exact Hd'|]. destruct Q as (Qv & Qw & Qn & Qd).
  set (s1 := set_members (remove_z m (members s)) s).
  destruct (call_cb_log Leave m s1) as (b & Lg). destruct (call_cb_frame Leave m s1) as (_ & Mb & _).
  assert (HmD : mem m D = false).
  { destruct (mem m D) eqn:E; [|reflexivity]. apply mem_In in E. exfalso. exact (Hd m (or_introl eq_refl) E). }
  unfold logQ. rewrite Lg, Mb. subst s1. cbn [log set_members members view ev_kind ev_name wf_log]. repeat split.
  - intros n. rewrite !mem_remove_z, Qv. destruct (mem n (members s)), (mem n D), (n =? m); reflexivity.
  - rewrite Qw, Qv, Em, HmD. reflexivity.
  - apply NoDup_remove_z. exact Qn.
  - intros n Hn. rewrite mem_remove_z, (Qd n Hn). destruct (Z.eqb_spec n m) as [->|]; [|reflexivity].
    apply mem_In in Hn. rewrite Hn in HmD. discriminate.
Qed.

Lemma do_joins_logQ D : forall s, NoDup D -> logQ D s -> logQ [] (do_joins D s).
Proof.
  induction D as [|m r IH]; intros s Hn Q; cbn [do_joins]; [exact Q|].
  inversion Hn as [|? ? Hm Hr]; subst. apply IH; [exact Hr|].
  destruct Q as (Qv & Qw & Qn & Qd).
  destruct (call_cb_log Join m s) as (b & Lg). destruct (call_cb_frame Join m s) as (_ & Mb & _).
  assert (Hmr : mem m r = false).
  { destruct (mem m r) eqn:E; [|reflexivity]. apply mem_In in E. contradiction. }
  unfold logQ. rewrite Lg, Mb. cbn [view ev_kind ev_name wf_log]. repeat split.
  - intros n. rewrite mem_cons, Qv, mem_cons. destruct (Z.eqb_spec n m) as [->|Hne].
    + rewrite (Qd m (or_introl eq_refl)), Hmr. reflexivity.
    + reflexivity.
  - rewrite Qw, Qv, mem_cons, Z.eqb_refl. cbn. rewrite andb_false_r. reflexivity.
  - exact Qn.
  - intros n Hn'. apply Qd. right. exact Hn'.
Qed.

Lemma apply_batch_log d r s :
  (forall n, mem n (view (log s)) = mem n (members s)) -> wf_log (log s) = true -> NoDup (members s) ->
  NoDup d -> (forall n, In n d -> mem n (members s) = false /\ mem n r = false) ->
  (forall n, mem n (view (log (apply_batch d r s))) = mem n (members (apply_batch d r s))) /\
  wf_log (log (apply_batch d r s)) = true /\ NoDup (members (apply_batch d r s)).
Proof.
  intros Hv Hw Hn Hd Hdis. unfold apply_batch.
  assert (Q0 : logQ d (set_members (union d (members s)) s)).
  { unfold logQ. cbn [log set_members members]. repeat split.
    - intros n. rewrite Hv, mem_union. destruct (mem n d) eqn:E; [|destruct (mem n (members s)); reflexivity].
      apply mem_In in E. destruct (Hdis n E) as [-> _]. reflexivity.
    - exact Hw.
    - apply NoDup_union; assumption.
    - intros n Hn'. rewrite mem_union. apply mem_In in Hn'. rewrite Hn'. reflexivity. }
  assert (Q1 := do_leaves_logQ d r _ (fun n Hr Hd' => eq_ind (mem n r) (fun b => b = false -> False)
                  (fun H => ltac:(apply mem_In in Hr; congruence)) _ eq_refl (proj2 (Hdis n Hd'))) Q0).
  destruct (do_joins_logQ d _ Hd Q1) as (Qv & Qw & Qn & _).
  repeat split; [|exact Qw|exact Qn]. intros n. rewrite Qv, mem_nil, andb_true_r. reflexivity.
Qed.


(* ---------------------------------------------------------------------------------------------- *)
(* the notification worker                                                                         *)
Definition qpart (s : state) : list (option batch) :=
  map (option_map (fun b => (filter (flt s) (fst b), snd b))) (queue s).

Lemma qpart_ext s s' : filt s' = filt s -> queue s' = queue s -> qpart s' = qpart s.
Proof. intros F Q. unfold qpart, flt. rewrite F, Q. reflexivity. Qed.

Lemma wenv_filt s s' : wenv s' = wenv s -> filt s' = filt s.
Proof. unfold wenv. intros H. congruence. Qed.

Record WI (s : state) : Prop := {
  wi_chain : forall n, chain_ok n (mem n (members s)) (outstanding s) = true;
  wi_qnd : forall b, In (Some b) (queue s) -> NoDup (fst b);
  wi_wnd : forall w, wk s = Some w -> NoDup (w_cur w :: w_todo w ++ w_done w);
  wi_view : forall n, mem n (view (log s)) = mem n (members s);
  wi_mnd : NoDup (members s);
  wi_wf : wf_log (log s) = true }.

Lemma pick_spec h todo :
  match pick h todo with
  | Some (nx, rest) => mem nx todo = true /\ (forall n, mem n (nx :: rest) = mem n todo) /\
                       (NoDup todo -> NoDup (nx :: rest))
  | None => todo = []
  end.
Proof.
  destruct todo as [|t r]; [reflexivity|]. unfold pick.
  assert (Dflt : mem t (t :: r) = true /\ (forall n, mem n (t :: r) = mem n (t :: r)) /\ (NoDup (t :: r) -> NoDup (t :: r))).
  { repeat split; auto. rewrite mem_cons, Z.eqb_refl. reflexivity. }
  destruct h as [hh|]; [|exact Dflt]. destruct (mem hh (t :: r)) eqn:E; [|exact Dflt].
  split; [exact E|]. split.
  - intros n. rewrite mem_cons, mem_remove_z. destruct (Z.eqb_spec n hh) as [->|]; [rewrite E; reflexivity|].
    rewrite andb_true_r. reflexivity.
  - intros Hn. constructor; [|apply NoDup_remove_z; exact Hn].
    intros I. apply mem_In in I. rewrite mem_remove_z, Z.eqb_refl, andb_false_r in I. discriminate.
Qed.

Lemma chain_ok_head_weaken n m new new' rem qs :
  (mem n new' = true -> mem n new = true) ->
  chain_ok n m (Some (new, rem) :: qs) = true -> chain_ok n m (Some (new', rem) :: qs) = true.
Proof.
  intros H E. cbn [chain_ok fst snd] in *. apply andb_true_iff in E as [E E3]. apply andb_true_iff in E as [E1 E2].
  assert (M : bstep n m (Some (new', rem)) = true -> bstep n m (Some (new, rem)) = true).
  { unfold bstep. cbn [fst snd]. destruct (mem n new'); [rewrite (H eq_refl); auto|].
    destruct m; cbn; auto. intros X. destruct (mem n new); cbn; [|discriminate]. destruct (mem n rem); auto. }
  apply andb_true_iff. split; [|exact (chain_ok_mono n qs _ _ M E3)].
  destruct (mem n new'); [rewrite (H eq_refl) in *; rewrite E1, E2; reflexivity|].
  rewrite andb_false_r. reflexivity.
Qed.

Lemma continue_batch_WI h todo done rem s :
  (forall n, chain_ok n (mem n (members s)) (Some (todo ++ done, rem) :: qpart s) = true) ->
  NoDup (todo ++ done) -> (forall b, In (Some b) (queue s) -> NoDup (fst b)) ->
  (forall n, mem n (view (log s)) = mem n (members s)) -> NoDup (members s) -> wf_log (log s) = true ->
  WI (continue_batch h todo done rem s) /\ wenv (continue_batch h todo done rem s) = wenv s /\
  queue (continue_batch h todo done rem s) = queue s /\
  (forall n, expects (continue_batch h todo done rem s) n =
             fold_b n (qpart s) (bstep n (mem n (members s)) (Some (todo ++ done, rem)))).
Proof.
  intros Hc Hnd Hq Hv Hm Hw. unfold continue_batch. pose proof (pick_spec h todo) as P.
  destruct (pick h todo) as [[nx rest]|].
  - destruct P as (Pm & Pe & Pn).
    assert (Me : forall n, mem n (nx :: rest ++ done) = mem n (todo ++ done)).
    { intros n. change (nx :: rest ++ done) with ((nx :: rest) ++ done). rewrite !mem_app, Pe. reflexivity. }
    repeat split.
    + intros n. unfold outstanding. cbn [wk set_wk w_cur w_todo w_done w_rem app].
      change (map _ (queue (set_wk _ s))) with (qpart s).
      rewrite (chain_ok_head_ext n _ _ _ rem (qpart s) (Me n)). apply Hc.
    + exact Hq.
    + intros w Hw'. cbn [wk set_wk] in Hw'. inversion Hw'; subst w. cbn [w_cur w_todo w_done].
      apply NoDup_app_parts in Hnd as (N1 & N2 & N3).
      change (NoDup ((nx :: rest) ++ done)). apply NoDup_app_intro; [apply Pn; exact N1|exact N2|].
      intros x Hx. apply N3. apply mem_In. rewrite <- Pe. apply mem_In. exact Hx.
    + exact Hv.
    + exact Hm.
    + exact Hw.
    + intros n. unfold expects, outstanding. cbn [wk set_wk w_cur w_todo w_done w_rem app members fold_left].
      change (map _ (queue (set_wk _ s))) with (qpart s). unfold fold_b. f_equal.
      unfold bstep. cbn [fst snd]. rewrite Me. reflexivity.
  - subst todo. cbn [app] in *. set (s0 := set_wk None s).
    destruct (apply_batch_frame done rem s0) as (Fe & Fq & Fw).
    change (wenv s0) with (wenv s) in Fe. change (queue s0) with (queue s) in Fq. change (wk s0) with (@None worker) in Fw.
    assert (Qp : qpart (apply_batch done rem s0) = qpart s) by (apply qpart_ext; [apply wenv_filt; exact Fe|exact Fq]).
    assert (Dis : forall n, In n done -> mem n (members s0) = false /\ mem n rem = false).
    { intros n Hn. apply mem_In in Hn. specialize (Hc n). cbn [chain_ok fst snd] in Hc.
      apply andb_true_iff in Hc as [Hc _]. apply andb_true_iff in Hc as [H1 H2]. rewrite Hn in H1, H2.
      change (members s0) with (members s). destruct (mem n (members s)), (mem n rem); cbn in *; auto; discriminate. }
    destruct (apply_batch_log done rem s0 Hv Hw Hm Hnd Dis) as (Lv & Lw & Ln).
    repeat split.
    + intros n. unfold outstanding. rewrite Fw. cbn [app]. change (map _ (queue ?x)) with (qpart x). rewrite Qp.
      rewrite apply_batch_members. change (members s0) with (members s).
      specialize (Hc n). cbn [chain_ok fst snd] in Hc. apply andb_true_iff in Hc as [_ Hc].
      unfold bstep in Hc. cbn [fst snd] in Hc. rewrite orb_comm. exact Hc.
    + rewrite Fq. exact Hq.
    + intros w Hw'. rewrite Fw in Hw'. discriminate.
    + exact Lv.
    + exact Ln.
    + exact Lw.
    + exact Fe.
    + exact Fq.
    + intros n. unfold expects, outstanding. rewrite Fw. cbn [app]. change (map _ (queue ?x)) with (qpart x). rewrite Qp.
      rewrite apply_batch_members. change (members s0) with (members s). unfold fold_b. f_equal.
      unfold bstep. cbn [fst snd]. rewrite orb_comm. reflexivity.
Qed.

Lemma item_head s it n r :
  let m := mem n (members s) in
  let hd := Some (filter (flt s) (fst (item_batch s it)) ++ [], snd (item_batch s it)) in
  let it' := option_map (fun b : batch => (filter (flt s) (fst b), snd b)) it in
  bstep n m hd = bstep n m it' /\ (chain_ok n m (it' :: r) = true -> chain_ok n m (hd :: r) = true).
Proof.
  destruct it as [[new rem]|]; cbn [item_batch option_map fst snd].
  - rewrite app_nil_r. split; auto.
  - cbn [filter app]. split.
    + unfold bstep. cbn [fst snd]. rewrite mem_nil. destruct (mem n (members s)); reflexivity.
    + cbn [chain_ok fst snd]. unfold bstep. cbn [fst snd]. rewrite !mem_nil.
      destruct (mem n (members s)); cbn [andb negb orb]; auto.
Qed.

Lemma drain_q_WI h q : forall s, queue s = q -> wk s = None -> WI s ->
  WI (drain_q h q s) /\ wenv (drain_q h q s) = wenv s /\ (forall n, expects (drain_q h q s) n = expects s n).
Proof.
  induction q as [|it q IH]; intros s Hq Hk I; cbn [drain_q].
  - assert (E : set_queue [] s = s) by (rewrite <- Hq; destruct s; reflexivity). rewrite E. auto.
  - set (s0 := set_queue q s). set (bt := item_batch s it).
    set (it' := option_map (fun b : batch => (filter (flt s) (fst b), snd b)) it).
    assert (O : outstanding s = it' :: qpart s0).
    { unfold outstanding. rewrite Hk. cbn [app]. rewrite Hq. reflexivity. }
    destruct I as [Ic Iq Iw Iv Im If].
    destruct (continue_batch_WI h (filter (flt s) (fst bt)) [] (snd bt) s0) as (W1 & E1 & Q1 & X1).
    + intros n. specialize (Ic n). rewrite O in Ic. exact (proj2 (item_head s it n (qpart s0)) Ic).
    + rewrite app_nil_r. apply NoDup_filter. subst bt. destruct it as [b|]; cbn [item_batch fst]; [|constructor].
      apply (Iq b). rewrite Hq. left. reflexivity.
    + intros b Hb. apply Iq. rewrite Hq. right. exact Hb.
    + exact Iv.
    + exact Im.
    + exact If.
    + change (wenv s0) with (wenv s) in E1.
      set (s1 := continue_batch h (filter (flt s) (fst bt)) [] (snd bt) s0) in *.
      assert (X : forall n, expects s1 n = expects s n).
      { intros n. rewrite X1. unfold expects. rewrite O. cbn [fold_left]. unfold fold_b. f_equal.
        exact (proj1 (item_head s it n [])). }
      destruct (wk s1) eqn:K1.
      * split; [exact W1|split; [exact E1|exact X]].
      * destruct (IH s1 Q1 K1 W1) as (W2 & E2 & X2). split; [exact W2|split; [congruence|]].
        intros n. rewrite X2. apply X.
Qed.

Lemma worker_step_WI h s : WI s ->
  WI (worker_step h s) /\ wenv (worker_step h s) = wenv s /\
  (forall n, expects (worker_step h s) n = expects s n \/
             (expects (worker_step h s) n = false /\ parent s && mem n (kids s) = false)).
Proof.
  intros I. unfold worker_step, drain. destruct (wk s) as [w|] eqn:K.
  - destruct I as [Ic Iq Iw Iv Im If]. specialize (Iw w K).
    assert (O : outstanding s = Some (w_cur w :: w_todo w ++ w_done w, w_rem w) :: qpart s).
    { unfold outstanding. rewrite K. reflexivity. }
    set (done' := if read_found s w then w_done w ++ [w_cur w] else w_done w).
    assert (Sub : forall n, mem n (w_todo w ++ done') = true -> mem n (w_cur w :: w_todo w ++ w_done w) = true).
    { intros n. subst done'. rewrite mem_cons, !mem_app. destruct (read_found s w).
      - rewrite mem_app, mem_cons, mem_nil. destruct (n =? w_cur w), (mem n (w_todo w)), (mem n (w_done w)); auto.
      - destruct (n =? w_cur w), (mem n (w_todo w)), (mem n (w_done w)); auto. }
    destruct (continue_batch_WI h (w_todo w) done' (w_rem w) s) as (W1 & E1 & Q1 & X1).
    + intros n. apply (chain_ok_head_weaken n _ _ _ _ _ (Sub n)). specialize (Ic n). rewrite O in Ic. exact Ic.
    + subst done'. inversion Iw as [|? ? Hc Hr]; subst. destruct (read_found s w); [|exact Hr].
      rewrite app_assoc. apply (Permutation_NoDup (Permutation_cons_append _ _)). exact Iw.
    + exact Iq.
    + exact Iv.
    + exact Im.
    + exact If.
    + set (s1 := continue_batch h (w_todo w) done' (w_rem w) s) in *.
      assert (X : forall n, expects s1 n = expects s n \/ (expects s1 n = false /\ parent s && mem n (kids s) = false)).
      { intros n. rewrite X1. unfold expects at 1. rewrite O. cbn [fold_left]. fold (fold_b n (qpart s)).
        set (b' := bstep n (mem n (members s)) (Some (w_todo w ++ done', w_rem w))).
        set (b := bstep n (mem n (members s)) (Some (w_cur w :: w_todo w ++ w_done w, w_rem w))).
        assert (Mono : b' = true -> b = true).
        { subst b b'. unfold bstep. cbn [fst snd]. specialize (Sub n).
          destruct (mem n (w_todo w ++ done')); [rewrite (Sub eq_refl); auto|].
          destruct (mem n (members s)); cbn; auto. discriminate. }
        destruct (fold_b n (qpart s) b') eqn:F'; [left; symmetry; apply (fold_b_mono n _ b b' Mono F')|].
        destruct (fold_b n (qpart s) b) eqn:F; [|left; unfold fold_b in *; congruence]. right. split; [reflexivity|].
        (* the two differ, so the read of n failed *)
        destruct (Bool.bool_dec b' b) as [Eb|Nb]; [rewrite Eb in F'; congruence|].
        subst b b' done'. unfold bstep in Nb. cbn [fst snd] in Nb. unfold read_found in *.
        destruct (parent s && mem (w_cur w) (kids s)) eqn:RF.
        - exfalso. apply Nb. rewrite mem_cons, !mem_app, mem_cons, mem_nil.
          destruct (n =? w_cur w), (mem n (w_todo w)), (mem n (w_done w)), (mem n (members s)), (mem n (w_rem w)); reflexivity.
        - destruct (Z.eqb_spec n (w_cur w)) as [->|Hne]; [exact RF|]. exfalso. apply Nb.
          rewrite mem_cons. apply Z.eqb_neq in Hne. rewrite Hne. reflexivity. }
      destruct (wk s1) eqn:K1; [split; [exact W1|split; [exact E1|exact X]]|].
      destruct (drain_q_WI h (queue s1) s1 eq_refl K1 W1) as (W2 & E2 & X2).
      split; [exact W2|split; [congruence|]]. intros n. rewrite X2. apply X.
  - destruct (drain_q_WI h (queue s) s eq_refl K I) as (W2 & E2 & X2).
    split; [exact W2|split; [exact E2|]]. intros n. left. apply X2.
Qed.


(* ---------------------------------------------------------------------------------------------- *)
(* transport along steps that do not touch the worker's data                                       *)
Lemma outstanding_ext s s' :
  queue s' = queue s -> wk s' = wk s -> filt s' = filt s -> outstanding s' = outstanding s.
Proof. intros Q K F. unfold outstanding, flt. rewrite Q, K, F. reflexivity. Qed.

Lemma expects_ext s s' :
  members s' = members s -> queue s' = queue s -> wk s' = wk s -> filt s' = filt s ->
  forall n, expects s' n = expects s n.
Proof. intros M Q K F n. unfold expects. rewrite (outstanding_ext s s' Q K F), M. reflexivity. Qed.

Lemma WI_ext s s' :
  members s' = members s -> queue s' = queue s -> wk s' = wk s -> filt s' = filt s -> log s' = log s ->
  WI s -> WI s'.
Proof.
  intros M Q K F L [Ic Iq Iw Iv Im If]. split.
  - intros n. rewrite (outstanding_ext s s' Q K F), M. apply Ic.
  - rewrite Q. exact Iq.
  - rewrite K. exact Iw.
  - rewrite L, M. exact Iv.
  - rewrite M. exact Im.
  - rewrite L. exact If.
Qed.

(* ---------------------------------------------------------------------------------------------- *)
(* _on_set_changed                                                                                 *)
Lemma osc_outstanding ch t :
  outstanding (on_set_changed ch t) =
  outstanding t ++ [Some (filter (flt t) (diff (filter (flt t) ch) (nodes t)), diff (nodes t) (filter (flt t) ch))].
Proof.
  unfold outstanding, on_set_changed. cbn [wk queue set_queue set_nodes]. rewrite map_app, app_assoc. reflexivity.
Qed.

Lemma osc_expects ch t n :
  expects (on_set_changed ch t) n =
  (expects t n || (mem n ch && flt t n && negb (mem n (nodes t)))) &&
  negb (mem n (nodes t) && negb (mem n ch && flt t n)).
Proof.
  unfold expects. rewrite osc_outstanding, fold_left_app. cbn [fold_left members on_set_changed set_queue set_nodes].
  unfold bstep. cbn [fst snd]. rewrite mem_filter, !mem_diff, mem_filter.
  destruct (fold_left _ _ _), (mem n ch), (flt t n), (mem n (nodes t)); reflexivity.
Qed.

Lemma osc_WI ch t :
  WI t -> (forall n, expects t n = true -> mem n (nodes t) = true) -> NoDup ch ->
  WI (on_set_changed ch t) /\
  (forall n, expects (on_set_changed ch t) n = true -> mem n (nodes (on_set_changed ch t)) = true).
Proof.
  intros [Ic Iq Iw Iv Im If] E1 Hch. split; [split|].
  - intros n. rewrite osc_outstanding, chain_ok_app. cbn [members on_set_changed set_queue set_nodes].
    rewrite Ic. cbn [fst snd andb]. rewrite mem_filter, !mem_diff, mem_filter.
    change (fold_b n (outstanding t) (mem n (members t))) with (expects t n).
    specialize (E1 n). destruct (expects t n); [rewrite (E1 eq_refl)|];
      destruct (mem n ch), (flt t n), (mem n (nodes t)); reflexivity.
  - intros b Hb. cbn [queue on_set_changed set_queue set_nodes] in Hb. apply in_app_or in Hb as [Hb|[Hb|[]]]; [apply Iq; exact Hb|].
    inversion Hb; subst b.
    cbn [fst]. apply NoDup_diff. apply NoDup_filter. exact Hch.
  - exact Iw.
  - exact Iv.
  - exact Im.
  - exact If.
  - intros n. rewrite osc_expects. cbn [nodes on_set_changed set_queue set_nodes]. rewrite mem_filter.
    specialize (E1 n). destruct (expects t n); [rewrite (E1 eq_refl)|];
      destruct (mem n ch), (flt t n), (mem n (nodes t)); cbn; auto.
Qed.

Lemma osc_e2 t :
  parent t = true ->
  (forall n, mem n (nodes t) = true -> expects t n = false -> parent t && mem n (kids t) = false) ->
  forall n, mem n (nodes (on_set_changed (kids t) t)) = true -> expects (on_set_changed (kids t) t) n = false ->
            parent t && mem n (kids t) = false.
Proof.
  intros P E2 n. rewrite osc_expects. cbn [nodes on_set_changed set_queue set_nodes]. rewrite mem_filter.
  specialize (E2 n). rewrite P in *. cbn [andb] in *.
  destruct (mem n (kids t)), (flt t n), (mem n (nodes t)), (expects t n); cbn; auto; try discriminate.
Qed.

(* ---------------------------------------------------------------------------------------------- *)
(* _send_all_removed                                                                               *)
Lemma sar_outstanding t : outstanding (send_all_removed t) = outstanding t ++ [None].
Proof.
  unfold outstanding, send_all_removed. cbn [wk queue set_queue set_nodes]. rewrite map_app, app_assoc. reflexivity.
Qed.

Lemma sar_expects t n : expects (send_all_removed t) n = false.
Proof. unfold expects. rewrite sar_outstanding, fold_left_app. reflexivity. Qed.

Lemma sar_WI t : WI t -> WI (send_all_removed t).
Proof.
  intros [Ic Iq Iw Iv Im If]. split.
  - intros n. rewrite sar_outstanding, chain_ok_app. change (members (send_all_removed t)) with (members t).
    rewrite Ic. reflexivity.
  - intros b Hb. cbn [queue send_all_removed set_queue set_nodes] in Hb.
    apply in_app_or in Hb as [Hb|[Hb|[]]]; [apply Iq; exact Hb|discriminate].
  - exact Iw.
  - exact Iv.
  - exact Im.
  - exact If.
Qed.

(* ---------------------------------------------------------------------------------------------- *)
(* invariants                                                                                      *)
Definition cur_ver (s : state) : option Z := if parent s then Some (pz s) else None.

(* InvA: holds along every history *)
Record InvA (s : state) : Prop := {
  ia_pre : started s = false ->
           dw s = false /\ cw s = 0%nat /\ pending s = [] /\ queue s = [] /\ wk s = None /\
           members s = [] /\ nodes s = [] /\ log s = [] /\ dver s = None /\ watching s = false;
  ia_absent : parent s = false -> kids s = [] /\ cw s = 0%nat;
  ia_kids : NoDup (kids s);
  ia_dw : started s = true -> ((if dw s then 1 else 0) + count_pd (pending s) = 1)%nat;
  ia_ver : dw s = true -> dver s = cur_ver s;
  ia_watching : watching s = match dver s with Some _ => true | None => false end;
  ia_fresh : (1 <= cw s)%nat -> forall n, mem n (nodes s) = mem n (filter (flt s) (kids s));
  ia_wi : WI s;
  ia_e1 : forall n, expects s n = true -> mem n (nodes s) = true }.

Ltac sp := cbn [filt started parent pz zx kids dw cw pending dver watching nodes members queue wk armed log
                set_started set_parent set_pz set_zx set_kids set_dw set_cw set_pending set_dver set_watching
                set_nodes set_members set_queue set_wk set_armed set_log] in *.

Lemma invA_init f : InvA (init f).
Proof.
  split.
  - intros _. repeat split.
  - intros _. split; reflexivity.
  - constructor.
  - cbn. discriminate.
  - cbn. discriminate.
  - reflexivity.
  - cbn. lia.
  - split; cbn; try discriminate; auto; [intros b []|constructor].
  - intros n. unfold expects. cbn. discriminate.
Qed.

(* steps that only touch the tree and the watches *)
Lemma invA_env s s' :
  InvA s ->
  filt s' = filt s -> started s' = started s -> dver s' = dver s -> watching s' = watching s ->
  nodes s' = nodes s -> members s' = members s -> queue s' = queue s -> wk s' = wk s -> log s' = log s ->
  (started s = false -> dw s' = false /\ cw s' = 0%nat /\ pending s' = []) ->
  (parent s' = false -> kids s' = [] /\ cw s' = 0%nat) ->
  NoDup (kids s') ->
  (started s = true -> ((if dw s' then 1 else 0) + count_pd (pending s') = 1)%nat) ->
  (dw s' = true -> dver s = cur_ver s') ->
  ((1 <= cw s')%nat -> forall n, mem n (nodes s) = mem n (filter (flt s) (kids s'))) ->
  InvA s'.
Proof.
  intros [Ipre Iabs Ikids Idw Iver Iwat Ifresh Iwi Ie1] F S D W N M Q K L O1 O2 O3 O4 O5 O6. split.
  - rewrite S. intros H. destruct (Ipre H) as (_ & _ & _ & a & b & c & d & e & f & g). destruct (O1 H) as (x & y & z).
    rewrite Q, K, M, N, L, D, W. repeat split; assumption.
  - exact O2.
  - exact O3.
  - rewrite S. exact O4.
  - rewrite D. exact O5.
  - rewrite W, D. exact Iwat.
  - intros H n. rewrite N. unfold flt. rewrite F. apply (O6 H).
  - apply (WI_ext s s'); assumption.
  - intros n. rewrite (expects_ext s s' M Q K F), N. apply Ie1.
Qed.

Ltac env_fin Ipre Idw :=
  first
  [ solve [let H := fresh in let X1 := fresh in let X2 := fresh in let X3 := fresh in
           intros H; destruct (Ipre H) as (X1 & X2 & X3 & _); try rewrite X2; try rewrite X3;
           repeat split; auto; try discriminate; try congruence]
  | solve [let H := fresh in intros H; specialize (Idw H);
           repeat match goal with E : dw _ = _ |- _ => rewrite E in * end;
           rewrite ?count_pd_app, ?count_pd_repeat in *; cbn in *; lia]
  | solve [repeat match goal with E : dw _ = _ |- _ => rewrite E in * end;
           repeat match goal with E : parent _ = _ |- _ => rewrite E in * end; discriminate]
  | solve [lia]
  | idtac ].

Lemma count_pd_fire p k : count_pd (p ++ repeat PChild k) = count_pd p.
Proof. rewrite count_pd_app, count_pd_repeat. lia. Qed.

Lemma invA_create_parent s : InvA s -> InvA (step s CreateParent).
Proof.
  intros I. cbn [step]. destruct (parent s) eqn:P; [exact I|].
  pose proof I as [Ipre Iabs Ikids Idw Iver Iwat Ifresh Iwi Ie1]. destruct (Iabs P) as (Kd & Cw).
  unfold fire_data. sp. destruct (dw s) eqn:Edw.
  - apply (invA_env s); try reflexivity; sp; auto; try discriminate.
    + intros H. destruct (Ipre H) as (X & _). discriminate.
    + intros H. specialize (Idw H). rewrite count_pd_app. cbn. lia.
  - apply (invA_env s); try reflexivity; sp; auto; try discriminate.
    + intros H. destruct (Ipre H) as (_ & X & Y & _). auto.
    + rewrite Edw. exact Idw.
    + rewrite Edw. discriminate.
Qed.

Lemma invA_touch_parent s : InvA s -> InvA (step s TouchParent).
Proof.
  intros I. cbn [step]. destruct (parent s) eqn:P; [|exact I].
  pose proof I as [Ipre Iabs Ikids Idw Iver Iwat Ifresh Iwi Ie1].
  unfold fire_data. sp. destruct (dw s) eqn:Edw.
  - apply (invA_env s); try reflexivity; sp; auto; try discriminate; env_fin Ipre Idw.
  - apply (invA_env s); try reflexivity; sp; auto; try discriminate; env_fin Ipre Idw.
Qed.

Lemma invA_create n s : InvA s -> InvA (step s (Create n)).
Proof.
  intros I. cbn [step]. destruct (parent s && negb (mem n (kids s))) eqn:C; [|exact I].
  apply andb_true_iff in C as [P C]. apply negb_true_iff in C.
  pose proof I as [Ipre Iabs Ikids Idw Iver Iwat Ifresh Iwi Ie1].
  unfold fire_children. sp. apply (invA_env s); try reflexivity; sp; auto; try discriminate; env_fin Ipre Idw.
  all: try (constructor; [|exact Ikids]; intros H; apply mem_In in H; congruence).
  all: try (intros H; rewrite count_pd_fire; apply Idw; exact H).
Qed.

Lemma invA_delete n s : InvA s -> InvA (step s (Delete n)).
Proof.
  intros I. cbn [step]. destruct (parent s && mem n (kids s)) eqn:C; [|exact I].
  apply andb_true_iff in C as [P C].
  pose proof I as [Ipre Iabs Ikids Idw Iver Iwat Ifresh Iwi Ie1].
  unfold fire_children. sp. apply (invA_env s); try reflexivity; sp; auto; try discriminate; env_fin Ipre Idw.
  all: try (apply NoDup_remove_z; exact Ikids).
  all: try (intros H; rewrite count_pd_fire; apply Idw; exact H).
Qed.

Lemma invA_raise s c : InvA s -> InvA (step s (CallbackRaises c)).
Proof.
  intros I. pose proof I as [Ipre Iabs Ikids Idw Iver Iwat Ifresh Iwi Ie1]. cbn [step].
  apply (invA_env s); try reflexivity; sp; auto; env_fin Ipre Idw.
Qed.

Lemma invA_delete_parent s : InvA s -> InvA (step s DeleteParent).
Proof.
  intros I. cbn [step]. destruct (parent s) eqn:P; [|exact I].
  pose proof I as [Ipre Iabs Ikids Idw Iver Iwat Ifresh Iwi Ie1].
  assert (Pre : started s = false -> dw s = false /\ cw s = 0%nat /\ pending s = []).
  { intros HH. destruct (Ipre HH) as (X & Y & Z & _). auto. }
  set (s1 := match kids s with [] => s | _ :: _ => fire_children s end).
  assert (S1 : filt s1 = filt s /\ started s1 = started s /\ dver s1 = dver s /\ watching s1 = watching s /\
               nodes s1 = nodes s /\ members s1 = members s /\ queue s1 = queue s /\ wk s1 = wk s /\ log s1 = log s /\
               dw s1 = dw s /\ count_pd (pending s1) = count_pd (pending s) /\
               (started s = false -> pending s1 = [] /\ cw s1 = 0%nat)).
  { subst s1. destruct (kids s).
    - repeat split; auto; destruct (Pre ltac:(assumption)) as (_ & X & Y); auto.
    - unfold fire_children. sp. repeat split; auto; try apply count_pd_fire;
        destruct (Pre ltac:(assumption)) as (_ & X & Y); rewrite ?X, ?Y; reflexivity. }
  destruct S1 as (a1 & a2 & a3 & a4 & a5 & a6 & a7 & a8 & a9 & a10 & a11 & a12).
  unfold fire_data, fire_children. sp. rewrite a10. destruct (dw s) eqn:Edw; sp.
  - apply (invA_env s); sp; auto; try discriminate.
    all: try (intros HH; destruct (Pre HH) as (X & _); congruence).
    all: try constructor.
    all: try (intros HH; specialize (Idw HH); rewrite count_pd_fire, count_pd_app, a11; cbn in *; lia).
    all: try lia.
  - apply (invA_env s); sp; auto; try discriminate.
    all: try (intros HH; destruct (a12 HH) as (X & Y); rewrite X, Y; auto).
    all: try constructor.
    all: try (intros HH; specialize (Idw HH); rewrite ?Edw, count_pd_fire, a11; exact Idw).
    all: try lia.
    all: try (rewrite a10; discriminate).
    intros HH. specialize (Idw HH). rewrite a10, count_pd_fire, a11. exact Idw.
Qed.

Lemma invA_worker h s : InvA s -> InvA (step s (WorkerStep h)).
Proof.
  intros I. cbn [step]. destruct (started s) eqn:St; [|exact I].
  pose proof I as [Ipre Iabs Ikids Idw Iver Iwat Ifresh Iwi Ie1].
  destruct (worker_step_WI h s Iwi) as (W & E & X). unfold wenv in E.
  injection E as E1 E2 E3 E4 E5 E6 E7 E8 E9 E10 E11 E12. split.
  - rewrite E2, St. discriminate.
  - rewrite E3, E6, E8. exact Iabs.
  - rewrite E6. exact Ikids.
  - rewrite E2, E7, E9. exact Idw.
  - unfold cur_ver. rewrite E7, E10, E3, E4. exact Iver.
  - rewrite E11, E10. exact Iwat.
  - rewrite E8, E12, E6. unfold flt. rewrite E1. exact Ifresh.
  - exact W.
  - intros n Hn. rewrite E12. apply Ie1. destruct (X n) as [Eq|[Ef _]]; congruence.
Qed.

(* what data_body needs of the state it runs in (the state right after the watch callback was taken
   from the pending list, or right after construction) *)
Record PreA (t : state) : Prop := {
  pa_started : started t = true;
  pa_pd : count_pd (pending t) = 0%nat;
  pa_absent : parent t = false -> kids t = [] /\ cw t = 0%nat;
  pa_kids : NoDup (kids t);
  pa_watching : watching t = match dver t with Some _ => true | None => false end;
  pa_fresh : (1 <= cw t)%nat -> forall n, mem n (nodes t) = mem n (filter (flt t) (kids t));
  pa_wi : WI t;
  pa_e1 : forall n, expects t n = true -> mem n (nodes t) = true }.

Lemma data_body_unfold f t :
  data_body f t =
  let t1 := set_dver (cur_ver t) (set_dw true t) in
  if f || negb (option_eqb Z.eqb (cur_ver t) (dver t)) then
    (if parent t then (if watching t then t1
                       else on_set_changed (kids t) (set_cw (S (cw t)) (set_watching true t1)))
     else send_all_removed (set_watching false t1))
  else t1.
Proof. reflexivity. Qed.

Lemma data_body_invA f t : PreA t -> InvA (data_body f t).
Proof.
  intros [Pst Ppd Pabs Pkids Pwat Pfresh Pwi Pe1]. rewrite data_body_unfold. cbv zeta.
  set (t1 := set_dver (cur_ver t) (set_dw true t)).
  assert (W1 : WI t1) by (apply (WI_ext t); try reflexivity; exact Pwi).
  assert (X1 : forall n, expects t1 n = expects t n) by (apply expects_ext; reflexivity).
  destruct (f || negb (option_eqb Z.eqb (cur_ver t) (dver t))) eqn:Call.
  - destruct (parent t) eqn:P.
    + destruct (watching t) eqn:Wt.
      * (* already watching *)
        subst t1. split; sp; auto; try discriminate.
        all: try (rewrite Pst; discriminate).
        all: try (rewrite Ppd; reflexivity).
        all: try (unfold cur_ver; sp; reflexivity).
        all: try (unfold cur_ver; rewrite P; reflexivity).
        all: try (rewrite P; discriminate).
        all: try (rewrite Wt; unfold cur_ver; rewrite P; reflexivity).
      * (* begin watch *)
        set (t2 := set_cw (S (cw t)) (set_watching true t1)).
        assert (W2 : WI t2) by (apply (WI_ext t); try reflexivity; exact Pwi).
        assert (E2 : forall n, expects t2 n = true -> mem n (nodes t2) = true).
        { intros n. change (expects t2 n) with (expects t n). change (nodes t2) with (nodes t). apply Pe1. }
        destruct (osc_WI (kids t) t2 W2 E2 Pkids) as (W3 & E3).
        change (kids t) with (kids t2) at 1. split.
        -- unfold on_set_changed. subst t2 t1. sp. rewrite Pst. discriminate.
        -- unfold on_set_changed. subst t2 t1. sp. rewrite P. discriminate.
        -- exact Pkids.
        -- unfold on_set_changed. subst t2 t1. sp. rewrite Ppd. reflexivity.
        -- unfold on_set_changed. subst t2 t1. sp. unfold cur_ver. sp. reflexivity.
        -- unfold on_set_changed. subst t2 t1. sp. unfold cur_ver. rewrite P. reflexivity.
        -- intros _ n. unfold on_set_changed. subst t2 t1. sp. reflexivity.
        -- exact W3.
        -- exact E3.
    + (* path absent: the all-members-left item is queued *)
      set (t2 := set_watching false t1).
      assert (W2 : WI t2) by (apply (WI_ext t); try reflexivity; exact Pwi).
      destruct (Pabs eq_refl) as (Kd & Cw). split.
      -- unfold send_all_removed. subst t2 t1. sp. rewrite Pst. discriminate.
      -- unfold send_all_removed. subst t2 t1. sp. auto.
      -- exact Pkids.
      -- unfold send_all_removed. subst t2 t1. sp. rewrite Ppd. reflexivity.
      -- unfold send_all_removed. subst t2 t1. sp. unfold cur_ver. sp. reflexivity.
      -- unfold send_all_removed. subst t2 t1. sp. unfold cur_ver. rewrite P. reflexivity.
      -- unfold send_all_removed. subst t2 t1. sp. rewrite Cw. lia.
      -- apply sar_WI. exact W2.
      -- intros n. rewrite sar_expects. discriminate.
  - (* same version as last time: the function is not called *)
    assert (Ev : cur_ver t = dver t).
    { apply option_eqb_Z_spec. destruct f; [discriminate|]. cbn in Call. apply negb_false_iff in Call. exact Call. }
    subst t1. split; sp; auto; try discriminate.
    all: try (rewrite Pst; discriminate).
    all: try (rewrite Ppd; reflexivity).
    all: try (unfold cur_ver; sp; reflexivity).
    all: try (rewrite Ev; exact Pwat).
Qed.

Lemma invA_started_of_pending s : InvA s -> pending s <> [] -> started s = true.
Proof.
  intros I H. destruct (started s) eqn:St; [reflexivity|].
  destruct (ia_pre s I St) as (_ & _ & X & _). contradiction.
Qed.

Lemma invA_start s : InvA s -> InvA (step s Start).
Proof.
  intros I. cbn [step]. destruct (started s) eqn:St; [exact I|].
  pose proof I as [Ipre Iabs Ikids Idw Iver Iwat Ifresh Iwi Ie1].
  destruct (Ipre St) as (a1 & a2 & a3 & a4 & a5 & a6 & a7 & a8 & a9 & a10).
  apply data_body_invA.
  split; sp; auto.
  - rewrite a3. reflexivity.
  - apply (WI_ext s); try reflexivity. exact Iwi.
Qed.

Lemma invA_deliver s : InvA s -> InvA (step s Deliver).
Proof.
  intros I. cbn [step]. destruct (pending s) as [|[|] r] eqn:Pe; [exact I| |].
  - (* data watch *)
    assert (St : started s = true) by (apply invA_started_of_pending; [exact I|rewrite Pe; discriminate]).
    pose proof I as [Ipre Iabs Ikids Idw Iver Iwat Ifresh Iwi Ie1].
    specialize (Idw St). rewrite Pe in Idw. cbn [count_pd] in Idw.
    apply data_body_invA.
    split; sp; auto.
    + destruct (dw s); lia.
    + apply (WI_ext s); try reflexivity. exact Iwi.
  - (* children watch *)
    assert (St : started s = true) by (apply invA_started_of_pending; [exact I|rewrite Pe; discriminate]).
    pose proof I as [Ipre Iabs Ikids Idw Iver Iwat Ifresh Iwi Ie1].
    unfold children_body. sp. destruct (parent s) eqn:P.
    + set (t := set_cw (S (cw s)) (set_pending r s)).
      assert (Wt : WI t) by (apply (WI_ext s); try reflexivity; exact Iwi).
      assert (Et : forall n, expects t n = true -> mem n (nodes t) = true) by exact Ie1.
      destruct (osc_WI (kids s) t Wt Et Ikids) as (W3 & E3).
      split; try exact W3; try exact E3; unfold on_set_changed; subst t; sp.
      * rewrite St. discriminate.
      * rewrite P. discriminate.
      * exact Ikids.
      * intros _. specialize (Idw St). rewrite Pe in Idw. exact Idw.
      * exact Iver.
      * exact Iwat.
      * intros _ n. reflexivity.
    + apply (invA_env s); try reflexivity; sp; auto.
      * rewrite St. discriminate.
      * intros _. specialize (Idw St). rewrite Pe in Idw. exact Idw.
Qed.

Lemma invA_step s l : InvA s -> InvA (step s l).
Proof.
  intros I. destruct l.
  - apply invA_start; exact I.
  - apply invA_create_parent; exact I.
  - apply invA_delete_parent; exact I.
  - apply invA_touch_parent; exact I.
  - apply invA_create; exact I.
  - apply invA_delete; exact I.
  - apply invA_deliver; exact I.
  - apply invA_worker; exact I.
  - apply invA_raise; exact I.
Qed.

Lemma invA_run ls : forall s, InvA s -> InvA (run s ls).
Proof.
  induction ls as [|l r IH]; intros s I; [exact I|]. cbn [run fold_left]. apply IH. apply invA_step. exact I.
Qed.

(* ---------------------------------------------------------------------------------------------- *)
(* alternation from the well-formed log                                                            *)
Fixpoint nexte (e : kind) (ks : list kind) : kind :=
  match ks with [] => e | _ :: r => nexte (flip e) r end.

Lemma kind_eqb_refl k : kind_eqb k k = true. Proof. destruct k; reflexivity. Qed.
Lemma kind_eqb_eq a b : kind_eqb a b = true -> a = b. Proof. destruct a, b; cbn; congruence. Qed.

Lemma alternating_snoc ks : forall e k,
  alternating e (ks ++ [k]) = alternating e ks && kind_eqb k (nexte e ks).
Proof.
  induction ks as [|x r IH]; intros e k; cbn [app alternating nexte].
  - rewrite andb_true_r. reflexivity.
  - rewrite IH. destruct (kind_eqb x e) eqn:E; [|reflexivity]. apply kind_eqb_eq in E. subst x.
    cbn [andb]. reflexivity.
Qed.

Lemma nexte_snoc ks : forall e k, nexte e (ks ++ [k]) = flip (nexte e ks).
Proof. induction ks as [|x r IH]; intros e k; cbn [app nexte]; [reflexivity|apply IH]. Qed.

Lemma kinds_of_snoc n l e :
  kinds_of n (l ++ [e]) = kinds_of n l ++ (if Z.eqb (ev_name e) n then [ev_kind e] else []).
Proof.
  unfold kinds_of. rewrite filter_app, map_app. cbn [filter]. destruct (ev_name e =? n); reflexivity.
Qed.

Lemma wf_log_alternating lg : wf_log lg = true -> forall n,
  alternating Join (kinds_of n (rev lg)) = true /\
  nexte Join (kinds_of n (rev lg)) = (if mem n (view lg) then Leave else Join).
Proof.
  induction lg as [|e older IH]; intros W n; [split; reflexivity|].
  cbn [wf_log] in W. apply andb_true_iff in W as [W1 W2]. destruct (IH W1 n) as (A & N).
  cbn [rev]. rewrite kinds_of_snoc. destruct (Z.eqb_spec (ev_name e) n) as [En|Hne].
  - rewrite alternating_snoc, nexte_snoc, A, N. cbn [view]. subst n.
    destruct (ev_kind e).
    + apply negb_true_iff in W2. rewrite W2. rewrite mem_cons, Z.eqb_refl. split; reflexivity.
    + rewrite W2. rewrite mem_remove_z, Z.eqb_refl, andb_false_r. split; reflexivity.
  - rewrite app_nil_r. split; [exact A|]. rewrite N. cbn [view].
    assert (Hn : (n =? ev_name e) = false) by (apply Z.eqb_neq; congruence).
    destruct (ev_kind e).
    + rewrite mem_cons, Hn. reflexivity.
    + rewrite mem_remove_z, Hn, andb_true_r. reflexivity.
Qed.

(* ---------------------------------------------------------------------------------------------- *)
(* InvB: holds along every history that respects G2 and G3                                         *)
Record InvB (s : state) : Prop := {
  ib_alive : parent s = true -> watching s = true -> (1 <= cw s + count_pc (pending s))%nat;
  ib_pd : (1 <= count_pd (pending s))%nat -> parent s = false -> dver s <> None;
  ib_settled : started s = true -> parent s = false -> dw s = true ->
               nodes s = [] /\ forall n, expects s n = false;
  ib_e2 : forall n, mem n (nodes s) = true -> expects s n = false -> parent s && mem n (kids s) = false }.

Lemma invB_init f : InvB (init f).
Proof. split; cbn; try discriminate; auto; intros; lia. Qed.

Lemma count_pc_fire p k : count_pc (p ++ repeat PChild k) = (count_pc p + k)%nat.
Proof. rewrite count_pc_app, count_pc_repeat. reflexivity. Qed.

Lemma has_pdata_false p : has_pdata p = false -> count_pd p = 0%nat.
Proof. rewrite has_pdata_count. intros H. apply negb_false_iff in H. apply Nat.eqb_eq in H. exact H. Qed.

(* no data-watch notification undelivered: the component has seen the current incarnation *)
Lemma settled_view s : InvA s -> count_pd (pending s) = 0%nat ->
  (started s = true -> dw s = true /\ dver s = cur_ver s) /\
  (parent s = false -> watching s = false).
Proof.
  intros [Ipre Iabs Ikids Idw Iver Iwat Ifresh Iwi Ie1] C.
  assert (A : started s = true -> dw s = true /\ dver s = cur_ver s).
  { intros St. specialize (Idw St). rewrite C in Idw. destruct (dw s) eqn:E; [|cbn in Idw; lia]. auto. }
  split; [exact A|]. intros P. destruct (started s) eqn:St.
  - destruct (A eq_refl) as (_ & V). rewrite Iwat, V. unfold cur_ver. rewrite P. reflexivity.
  - destruct (Ipre eq_refl) as (_ & _ & _ & _ & _ & _ & _ & _ & _ & X). exact X.
Qed.

Lemma invB_create_parent s : InvA s -> InvB s -> guard_path s CreateParent = true -> InvB (step s CreateParent).
Proof.
  intros IA [Bal Bpd Bse Be2] G. cbn [step]. destruct (parent s) eqn:P; [split; rewrite ?P; assumption|].
  cbn [guard_path] in G. rewrite P in G. cbn [orb] in G. apply negb_true_iff in G. apply has_pdata_false in G.
  destruct (settled_view s IA G) as (_ & Wf). specialize (Wf P).
  destruct (ia_absent s IA P) as (Kd & _).
  unfold fire_data. sp. destruct (dw s); split; sp; try discriminate.
  all: try (intros _ H; rewrite Wf in H; discriminate).
  all: try (intros n _ _; rewrite Kd; reflexivity).
Qed.

Lemma invB_touch_parent s : InvB s -> InvB (step s TouchParent).
Proof.
  intros [Bal Bpd Bse Be2]. cbn [step]. destruct (parent s) eqn:P; [|split; rewrite ?P; assumption].
  unfold fire_data. sp. destruct (dw s) eqn:Edw; split; sp; try discriminate.
  all: try (rewrite count_pc_app; cbn [count_pc]; rewrite Nat.add_0_r; intros _; apply Bal; reflexivity).
  all: try (intros _; apply Bal; reflexivity).
  all: try (rewrite P; discriminate).
  all: try (intros n; rewrite P; exact (Be2 n)).
Qed.

Lemma invB_delete_parent s : InvA s -> InvB s -> guard_path s DeleteParent = true -> InvB (step s DeleteParent).
Proof.
  intros IA [Bal Bpd Bse Be2] G. cbn [step]. destruct (parent s) eqn:P; [|split; rewrite ?P; assumption].
  cbn [guard_path] in G. rewrite P in G. cbn [negb orb] in G. apply negb_true_iff in G. apply has_pdata_false in G.
  destruct (settled_view s IA G) as (Sv & _).
  set (s1 := match kids s with [] => s | _ :: _ => fire_children s end).
  assert (S1 : started s1 = started s /\ dver s1 = dver s /\ dw s1 = dw s /\ count_pd (pending s1) = 0%nat).
  { subst s1. destruct (kids s); [auto|]. unfold fire_children. sp. rewrite count_pd_fire. auto. }
  destruct S1 as (a1 & a2 & a3 & a4).
  unfold fire_data, fire_children. sp. rewrite a3. destruct (dw s) eqn:Edw; split; sp; try discriminate.
  all: try (intros; reflexivity).
  - intros _ _. rewrite a2. destruct (started s) eqn:St.
    + destruct (Sv eq_refl) as (_ & V). rewrite V. unfold cur_ver. rewrite P. discriminate.
    + destruct (ia_pre s IA St) as (X & _). congruence.
  - rewrite count_pd_fire, a4. lia.
  - rewrite a3. discriminate.
Qed.

Lemma invB_create n s : InvB s -> guard_noflap s (Create n) = true -> InvB (step s (Create n)).
Proof.
  intros [Bal Bpd Bse Be2] G. cbn [step]. cbn [guard_noflap] in G.
  destruct (parent s && negb (mem n (kids s))) eqn:C; [|split; assumption].
  apply andb_true_iff in C as [P C]. apply negb_true_iff in G. unfold lost in G.
  unfold fire_children. split; sp; try (rewrite P; discriminate).
  - intros _ Hw. rewrite count_pc_fire. specialize (Bal P Hw). lia.
  - intros m Hm He. rewrite mem_cons. destruct (Z.eqb_spec m n) as [->|Hne].
    + change (expects _ n) with (expects s n) in He. rewrite Hm, He in G. discriminate.
    + cbn [orb]. apply (Be2 m Hm He).
Qed.

Lemma invB_delete n s : InvB s -> InvB (step s (Delete n)).
Proof.
  intros [Bal Bpd Bse Be2]. cbn [step].
  destruct (parent s && mem n (kids s)) eqn:C; [|split; assumption].
  apply andb_true_iff in C as [P C].
  unfold fire_children. split; sp; try (rewrite P; discriminate).
  - intros _ Hw. rewrite count_pc_fire. specialize (Bal P Hw). lia.
  - intros m Hm He. specialize (Be2 m Hm He). rewrite mem_remove_z. rewrite P in *. cbn [andb] in *.
    rewrite Be2. reflexivity.
Qed.

Lemma invB_raise s c : InvB s -> InvB (step s (CallbackRaises c)).
Proof. intros [Bal Bpd Bse Be2]. cbn [step]. split; sp; assumption. Qed.

Lemma invB_worker h s : InvA s -> InvB s -> InvB (step s (WorkerStep h)).
Proof.
  intros IA IB. cbn [step]. destruct (started s) eqn:St; [|exact IB].
  destruct IB as [Bal Bpd Bse Be2].
  destruct (worker_step_WI h s (ia_wi s IA)) as (W & E & X). unfold wenv in E.
  injection E as E1 E2 E3 E4 E5 E6 E7 E8 E9 E10 E11 E12. split.
  - rewrite E3, E11, E8, E9. exact Bal.
  - rewrite E9, E3, E10. exact Bpd.
  - rewrite E2, E3, E7, E12. intros H1 H2 H3. destruct (Bse H1 H2 H3) as (N & Ex). split; [exact N|].
    intros n. destruct (X n) as [Eq|[Ef _]]; [rewrite Eq; apply Ex|exact Ef].
  - intros n. rewrite E12, E3, E6. intros Hn He. destruct (X n) as [Eq|[_ Ef]]; [|exact Ef].
    apply Be2; congruence.
Qed.

Lemma data_body_invB f t :
  PreA t ->
  (parent t = true -> watching t = true -> (1 <= cw t + count_pc (pending t))%nat) ->
  (f = false -> parent t = false -> dver t <> None) ->
  (forall n, mem n (nodes t) = true -> expects t n = false -> parent t && mem n (kids t) = false) ->
  InvB (data_body f t).
Proof.
  intros [Pst Ppd Pabs Pkids Pwat Pfresh Pwi Pe1] Bal Bpd Be2. rewrite data_body_unfold. cbv zeta.
  set (t1 := set_dver (cur_ver t) (set_dw true t)).
  destruct (f || negb (option_eqb Z.eqb (cur_ver t) (dver t))) eqn:Call.
  - destruct (parent t) eqn:P.
    + destruct (watching t) eqn:Wt.
      * subst t1. split; sp; try (rewrite P; discriminate).
        all: try (intros _ _; apply Bal; reflexivity).
        all: try (rewrite Ppd; lia).
        all: try (intros n; rewrite P; exact (Be2 n)).
      * set (t2 := set_cw (S (cw t)) (set_watching true t1)).
        assert (E2 : forall n, mem n (nodes t2) = true -> expects t2 n = false -> parent t2 && mem n (kids t2) = false).
        { intros n. change (expects t2 n) with (expects t n). subst t2 t1. sp. rewrite P. exact (Be2 n). }
        pose proof (osc_e2 t2 P E2) as E3. change (kids t2) with (kids t) in E3.
        split.
        -- unfold on_set_changed. subst t2 t1. sp. intros _ _. lia.
        -- unfold on_set_changed. subst t2 t1. sp. rewrite Ppd. lia.
        -- unfold on_set_changed. subst t2 t1. sp. rewrite P. discriminate.
        -- intros n Hn He. specialize (E3 n Hn He). unfold on_set_changed. subst t2 t1. sp. exact E3.
    + set (t2 := set_watching false t1). split.
      -- unfold send_all_removed. subst t2 t1. sp. rewrite P. discriminate.
      -- unfold send_all_removed. subst t2 t1. sp. rewrite Ppd. lia.
      -- intros _ _ _. split; [reflexivity|]. intros n. apply sar_expects.
      -- intros n. unfold send_all_removed. subst t2 t1. sp. discriminate.
  - assert (Ev : cur_ver t = dver t).
    { apply option_eqb_Z_spec. destruct f; [discriminate|]. cbn in Call. apply negb_false_iff in Call. exact Call. }
    assert (Ff : f = false) by (destruct f; [discriminate|reflexivity]).
    subst t1. split; sp.
    + exact Bal.
    + rewrite Ppd. lia.
    + intros _ P _. exfalso. apply (Bpd Ff P). rewrite <- Ev. unfold cur_ver. rewrite P. reflexivity.
    + exact Be2.
Qed.

Lemma invB_start s : InvA s -> InvB s -> InvB (step s Start).
Proof.
  intros IA IB. cbn [step]. destruct (started s) eqn:St; [exact IB|].
  pose proof IA as [Ipre Iabs Ikids Idw Iver Iwat Ifresh Iwi Ie1].
  destruct (Ipre St) as (a1 & a2 & a3 & a4 & a5 & a6 & a7 & a8 & a9 & a10).
  apply data_body_invB.
  - split; sp; auto.
    + rewrite a3. reflexivity.
    + apply (WI_ext s); try reflexivity. exact Iwi.
  - sp. rewrite a10. discriminate.
  - discriminate.
  - sp. rewrite a7. discriminate.
Qed.

Lemma invB_deliver s : InvA s -> InvB s -> InvB (step s Deliver).
Proof.
  intros IA IB. cbn [step]. destruct (pending s) as [|[|] r] eqn:Pe; [exact IB| |].
  - assert (St : started s = true) by (apply invA_started_of_pending; [exact IA|rewrite Pe; discriminate]).
    pose proof IA as [Ipre Iabs Ikids Idw Iver Iwat Ifresh Iwi Ie1]. destruct IB as [Bal Bpd Bse Be2].
    specialize (Idw St). rewrite Pe in Idw, Bal, Bpd. cbn [count_pd count_pc] in Idw, Bal, Bpd.
    apply data_body_invB.
    + split; sp; auto.
      * destruct (dw s); lia.
      * apply (WI_ext s); try reflexivity. exact Iwi.
    + sp. exact Bal.
    + sp. intros _. apply Bpd. lia.
    + exact Be2.
  - assert (St : started s = true) by (apply invA_started_of_pending; [exact IA|rewrite Pe; discriminate]).
    pose proof IA as [Ipre Iabs Ikids Idw Iver Iwat Ifresh Iwi Ie1]. destruct IB as [Bal Bpd Bse Be2].
    rewrite Pe in Bal, Bpd. cbn [count_pd count_pc] in Bal, Bpd.
    unfold children_body. sp. destruct (parent s) eqn:P.
    + set (t := set_cw (S (cw s)) (set_pending r s)).
      assert (E2 : forall n, mem n (nodes t) = true -> expects t n = false -> parent t && mem n (kids t) = false).
      { intros n. change (expects t n) with (expects s n). subst t. sp. rewrite P. exact (Be2 n). }
      pose proof (osc_e2 t P E2) as E3. change (kids t) with (kids s) in E3.
      split.
      * unfold on_set_changed. subst t. sp. intros _ _. lia.
      * unfold on_set_changed. subst t. sp. rewrite P. discriminate.
      * unfold on_set_changed. subst t. sp. rewrite P. discriminate.
      * intros n Hn He. specialize (E3 n Hn He). unfold on_set_changed. subst t. sp. rewrite ?P in *. exact E3.
    + split; sp.
      * rewrite P. discriminate.
      * rewrite P. exact Bpd.
      * rewrite P. exact Bse.
      * rewrite P. exact Be2.
Qed.

Lemma invB_step s l : InvA s -> InvB s ->
  guard_noflap s l = true -> guard_path s l = true -> InvB (step s l).
Proof.
  intros IA IB G2 G3. destruct l.
  - apply invB_start; assumption.
  - apply invB_create_parent; assumption.
  - apply invB_delete_parent; assumption.
  - apply invB_touch_parent; assumption.
  - apply invB_create; assumption.
  - apply invB_delete; assumption.
  - apply invB_deliver; assumption.
  - apply invB_worker; assumption.
  - apply invB_raise; assumption.
Qed.

Lemma invAB_run ls : forall s, InvA s -> InvB s -> guarded guard_all s ls = true -> InvA (run s ls) /\ InvB (run s ls).
Proof.
  induction ls as [|l r IH]; intros s IA IB G; [split; assumption|]. cbn [guarded] in G.
  apply andb_true_iff in G as [G1 G2]. unfold guard_all in G1. apply andb_true_iff in G1 as [G11 G12].
  cbn [run fold_left]. apply IH; [apply invA_step; assumption|apply invB_step; assumption|exact G2].
Qed.

(* ---------------------------------------------------------------------------------------------- *)
(* the two conclusions                                                                             *)
Lemma converges_of_inv s : InvA s -> InvB s -> quiescent s ->
  forall n, mem n (view (log s)) = mem n (tree_members s).
Proof.
  intros IA [Bal Bpd Bse Be2] (St & Pe & Q & K) n.
  pose proof IA as [Ipre Iabs Ikids Idw Iver Iwat Ifresh Iwi Ie1].
  assert (C : count_pd (pending s) = 0%nat) by (rewrite Pe; reflexivity).
  destruct (settled_view s IA C) as (Sv & _). destruct (Sv St) as (Dw & V).
  rewrite (wi_view s Iwi). unfold tree_members.
  assert (Ex : forall m, expects s m = mem m (members s)).
  { intros m. unfold expects, outstanding. rewrite K, Q. reflexivity. }
  destruct (parent s) eqn:P.
  - assert (Wt : watching s = true) by (rewrite Iwat, V; unfold cur_ver; rewrite P; reflexivity).
    specialize (Bal eq_refl Wt). rewrite Pe in Bal. cbn [count_pc] in Bal.
    assert (Cw : (1 <= cw s)%nat) by lia. specialize (Ifresh Cw n). rewrite <- Ifresh.
    specialize (Ie1 n). specialize (Be2 n). rewrite Ex in Ie1, Be2. rewrite Ifresh, mem_filter in Be2. cbn [andb] in Be2.
    rewrite Ifresh in Ie1. rewrite Ifresh.
    destruct (mem n (members s)) eqn:M; [symmetry; apply Ie1; reflexivity|].
    destruct (mem n (filter (flt s) (kids s))) eqn:F; [|reflexivity].
    rewrite mem_filter in F. apply andb_true_iff in F as [F1 F2]. rewrite F1, F2 in Be2.
    specialize (Be2 eq_refl eq_refl). discriminate.
  - destruct (Bse St eq_refl Dw) as (_ & Ex'). rewrite <- Ex. apply Ex'.
Qed.

(* ---------------------------------------------------------------------------------------------- *)
(* within one batch every leave is delivered before every join (the log is newest first)            *)
Lemma do_leaves_log rem : forall s,
  exists ls, log (do_leaves rem s) = ls ++ log s /\ Forall (fun e => ev_kind e = Leave) ls.
Proof.
  induction rem as [|m r IH]; intros s; cbn [do_leaves]; [exists []; split; [reflexivity|constructor]|].
  destruct (mem m (members s)); [|apply IH].
  destruct (IH (call_cb Leave m (set_members (remove_z m (members s)) s))) as (ls & E & F).
  destruct (call_cb_log Leave m (set_members (remove_z m (members s)) s)) as (b & Lg).
  exists (ls ++ [Ev Leave m b]). split.
  - rewrite E, Lg, <- app_assoc. reflexivity.
  - apply Forall_app. split; [exact F|]. constructor; [reflexivity|constructor].
Qed.

Lemma do_joins_log d : forall s,
  exists js, log (do_joins d s) = js ++ log s /\ Forall (fun e => ev_kind e = Join) js /\
             map ev_name (rev js) = d.
Proof.
  induction d as [|m r IH]; intros s; cbn [do_joins]; [exists []; repeat split; constructor|].
  destruct (IH (call_cb Join m s)) as (js & E & F & N). destruct (call_cb_log Join m s) as (b & Lg).
  exists (js ++ [Ev Join m b]). repeat split.
  - rewrite E, Lg, <- app_assoc. reflexivity.
  - apply Forall_app. split; [exact F|]. constructor; [reflexivity|constructor].
  - rewrite rev_app_distr. cbn. rewrite N. reflexivity.
Qed.

Lemma apply_batch_order d r s :
  exists js ls, log (apply_batch d r s) = js ++ ls ++ log s /\
                Forall (fun e => ev_kind e = Join) js /\ Forall (fun e => ev_kind e = Leave) ls /\
                map ev_name (rev js) = d.
Proof.
  unfold apply_batch.
  destruct (do_leaves_log r (set_members (union d (members s)) s)) as (ls & El & Fl).
  destruct (do_joins_log d (do_leaves r (set_members (union d (members s)) s))) as (js & Ej & Fj & N).
  exists js, ls. rewrite Ej, El. repeat split; assumption.
Qed.
