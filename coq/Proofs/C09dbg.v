From Scales Require Import Model.Base Model.Resurrector Proofs.ResurrectorP.
Check reach_inv. Check down_fail_fast. Check i_down. Check i_hist. Check i_wait. Check chain_nonincr. Check chain_bounds. Check recovery. Check close_quiet. Check quiet_exec. Check hist_records. Check wake_on_time.
