(* Invariants of the balancer model (Model/Balancer.v), by induction over all label sequences. *)
From Coq Require Import ZArith List Bool Lia Arith PeanoNat Permutation.
From Coq Require Import ZifyBool ZifyNat.
From Scales Require Import Model.Base Model.Heap Model.Balancer Proofs.HeapP.
Ltac Zify.zify_post_hook ::= Z.div_mod_to_equations.
Import ListNotations.
Local Open Scope Z_scope.

(* ============================================================================================ *)
(* 1. the list wrappers of the heap primitives                                                   *)
(* ============================================================================================ *)
Notation F l := (to_fun dummy l).
Definition okl (l : list node) (m : nat) : Prop := ok load (F l) m.
Definition ids (l : list node) : list (Z * Z) := map (fun x => (nid x, nep x)) l.

Lemma F_of_fun g n i : (1 <= i <= n)%nat -> F (of_fun g n) i = g i.
Proof. intros H. apply to_fun_of_fun. exact H. Qed.

Lemma len_set_load l i v : length (H_set_load l i v) = length l.
Proof. apply of_fun_length. Qed.
Lemma len_swap l i j : length (H_swap l i j) = length l.
Proof. apply of_fun_length. Qed.
Lemma len_fix_up l i : length (H_fix_up l i) = length l.
Proof. apply of_fun_length. Qed.
Lemma len_fix_down l i j : length (H_fix_down l i j) = length l.
Proof. apply of_fun_length. Qed.
Lemma len_pop l : length (H_pop l) = (length l - 1)%nat.
Proof. apply of_fun_length. Qed.

Lemma F_set_load l i v p : (1 <= p <= length l)%nat ->
  F (H_set_load l i v) p = if Nat.eqb p i then set_load (F l i) v else F l p.
Proof. intros Hp. unfold H_set_load. rewrite F_of_fun by assumption. reflexivity. Qed.

Lemma F_swap l i j p : (1 <= p <= length l)%nat -> F (H_swap l i j) p = swap (F l) i j p.
Proof. intros Hp. unfold H_swap. apply F_of_fun. assumption. Qed.

Lemma F_fix_up l i p : (1 <= p <= length l)%nat -> F (H_fix_up l i) p = fix_up load i (F l) i p.
Proof. intros Hp. unfold H_fix_up. apply F_of_fun. assumption. Qed.

Lemma F_fix_down l i j p : (1 <= p <= length l)%nat -> F (H_fix_down l i j) p = fix_down load j (F l) i j p.
Proof. intros Hp. unfold H_fix_down. apply F_of_fun. assumption. Qed.

Lemma F_pop l p : (1 <= p <= length l - 1)%nat -> F (H_pop l) p = F l p.
Proof. intros Hp. unfold H_pop. apply F_of_fun. assumption. Qed.

Lemma perm_swap l i j : (1 <= i <= length l)%nat -> (1 <= j <= length l)%nat -> Permutation (H_swap l i j) l.
Proof.
  intros Hi Hj. unfold H_swap. rewrite <- (of_fun_to_fun node dummy l) at 3. apply swap_perm; assumption.
Qed.

Lemma perm_fix_up l i : (1 <= i <= length l)%nat -> Permutation (H_fix_up l i) l.
Proof.
  intros Hi. unfold H_fix_up. rewrite <- (of_fun_to_fun node dummy l) at 3. apply fix_up_perm; assumption.
Qed.

Lemma perm_fix_down l i j : (1 <= i)%nat -> (j <= length l)%nat -> Permutation (H_fix_down l i j) l.
Proof.
  intros Hi Hj. unfold H_fix_down. rewrite <- (of_fun_to_fun node dummy l) at 3. apply fix_down_perm; assumption.
Qed.

Lemma pop_app l : (1 <= length l)%nat -> l = H_pop l ++ [F l (length l)].
Proof.
  intros Hn. rewrite <- (of_fun_to_fun node dummy l) at 1. unfold H_pop.
  replace (length l) with (S (length l - 1)) at 1 by lia. rewrite of_fun_S.
  replace (S (length l - 1)) with (length l) by lia. reflexivity.
Qed.

Lemma ids_set_load l i v : ids (H_set_load l i v) = ids l.
Proof.
  unfold ids, H_set_load.
  transitivity (map (fun x => (nid x, nep x)) (of_fun (F l) (length l))); [|rewrite of_fun_to_fun; reflexivity].
  unfold of_fun. rewrite !map_map.
  apply map_ext. intros p. unfold upd. destruct (Nat.eqb_spec p i) as [->|]; reflexivity.
Qed.

Lemma ids_perm l l' : Permutation l' l -> Permutation (ids l') (ids l).
Proof. apply Permutation_map. Qed.

Lemma ids_nid l : map nid l = map fst (ids l).
Proof. unfold ids. rewrite map_map. reflexivity. Qed.
Lemma ids_nep l : map nep l = map snd (ids l).
Proof. unfold ids. rewrite map_map. reflexivity. Qed.

Lemma in_F l p : (1 <= p <= length l)%nat -> In (F l p) l.
Proof. intros H. apply in_to_fun. exact H. Qed.

Lemma in_pos l x : In x l -> exists p, (1 <= p <= length l)%nat /\ x = F l p.
Proof.
  intros H. rewrite <- (of_fun_to_fun node dummy l) in H. apply in_of_fun in H. exact H.
Qed.

(* distinct positions carry distinct nids *)
Lemma nodup_pos l p q : NoDup (map nid l) -> (1 <= p <= length l)%nat -> (1 <= q <= length l)%nat ->
  nid (F l p) = nid (F l q) -> p = q.
Proof.
  intros ND Hp Hq E. destruct p as [|p]; [lia|]. destruct q as [|q]; [lia|]. cbn [to_fun] in E.
  f_equal. rewrite NoDup_nth with (d := nid dummy) in ND.
  apply ND; rewrite ?map_length; try lia. rewrite !map_nth. exact E.
Qed.

Lemma in_set_load l i v y : NoDup (map nid l) -> (1 <= i <= length l)%nat ->
  In y (H_set_load l i v) -> y = set_load (F l i) v \/ (In y l /\ nid y <> nid (F l i)).
Proof.
  intros ND Hi H. unfold H_set_load in H. apply in_of_fun in H as (p & Hp & ->). unfold upd.
  destruct (Nat.eqb_spec p i) as [->|Hne]; [left; reflexivity|]. right. split; [apply in_F; exact Hp|].
  intros E. apply Hne. eapply nodup_pos; eassumption.
Qed.

(* find_idx *)
Lemma find_idx_some {A} (p : A -> bool) (l : list A) (d : A) : forall k i,
  find_idx p l k = Some i -> (k <= i < k + length l)%nat /\ p (nth (i - k) l d) = true.
Proof.
  induction l as [|x l IH]; intros k i H; [discriminate|]. cbn [find_idx] in H.
  destruct (p x) eqn:E.
  - inversion H; subst. cbn [length]. split; [lia|]. rewrite Nat.sub_diag. exact E.
  - apply IH in H as [H1 H2]. cbn [length]. split; [lia|].
    replace (i - k)%nat with (S (i - S k)) by lia. exact H2.
Qed.

Lemma find_idx_none {A} (p : A -> bool) (l : list A) : forall k,
  find_idx p l k = None -> forall x, In x l -> p x = false.
Proof.
  induction l as [|x l IH]; intros k H y Hy; [destruct Hy|]. cbn [find_idx] in H.
  destruct (p x) eqn:E; [discriminate|]. destruct Hy as [->|Hy]; [exact E|]. eapply IH; eassumption.
Qed.

Lemma pos_of_nid_some l x i : pos_of_nid l x = Some i -> (1 <= i <= length l)%nat /\ nid (F l i) = x.
Proof.
  intros H. apply (find_idx_some _ _ dummy) in H as [H1 H2]. split; [lia|].
  destruct i as [|k]; [lia|]. cbn [to_fun]. replace (S k - 1)%nat with k in H2 by lia. lia.
Qed.

Lemma pos_of_nid_none l x : pos_of_nid l x = None -> ~ In x (map nid l).
Proof.
  intros H Hin. apply in_map_iff in Hin as (y & E & Hy). pose proof (find_idx_none _ _ _ H y Hy) as H1.
  cbn in H1. lia.
Qed.

Lemma pos_of_ep_some l x i : pos_of_ep l x = Some i -> (1 <= i <= length l)%nat /\ nep (F l i) = x.
Proof.
  intros H. apply (find_idx_some _ _ dummy) in H as [H1 H2]. split; [lia|].
  destruct i as [|k]; [lia|]. cbn [to_fun]. replace (S k - 1)%nat with k in H2 by lia. lia.
Qed.

Lemma pos_of_ep_none l x : pos_of_ep l x = None -> ~ In x (map nep l).
Proof.
  intros H Hin. apply in_map_iff in Hin as (y & E & Hy). pose proof (find_idx_none _ _ _ H y Hy) as H1.
  cbn in H1. lia.
Qed.

Lemma memz_in x l : memz x l = true <-> In x l.
Proof.
  unfold memz. rewrite existsb_exists. split.
  - intros (y & Hy & E). apply Z.eqb_eq in E. subst. exact Hy.
  - intros H. exists x. split; [exact H|apply Z.eqb_refl].
Qed.

Lemma memz_not x l : memz x l = false <-> ~ In x l.
Proof. rewrite <- memz_in. destruct (memz x l); split; congruence. Qed.

(* ============================================================================================ *)
(* 2. heap order through the composite operations of the balancer                                *)
(* ============================================================================================ *)

Lemma okl_ext l l' m : (forall p, (1 <= p <= m)%nat -> F l p = F l' p) -> okl l m -> okl l' m.
Proof. intros E H. eapply ok_ext; [|exact H]. exact E. Qed.

Lemma okl_fix_up l m i : (m <= length l)%nat -> (1 <= i <= m)%nat ->
  ok_up load (F l) m i -> okl (H_fix_up l i) m.
Proof.
  intros Hm Hi H. eapply ok_ext; [|apply (fix_up_ok node load i (F l) m i); [lia|lia|exact H]].
  intros p Hp. symmetry. apply F_fix_up. lia.
Qed.

Lemma okl_fix_down l m i : (m <= length l)%nat -> (1 <= i)%nat ->
  ok_down load (F l) m i -> okl (H_fix_down l i m) m.
Proof.
  intros Hm Hi H. eapply ok_ext; [|apply (fix_down_ok node load m (F l) m i); [lia|lia|exact H]].
  intros p Hp. symmetry. apply F_fix_down. lia.
Qed.

Lemma okup_fix_down_hole l m i : (m <= length l)%nat -> (1 <= i <= m)%nat ->
  hole load (F l) m i -> ok_up load (F (H_fix_down l i m)) m i.
Proof.
  intros Hm Hi H. eapply ok_up_ext; [| |apply (hole_fix_down node load (F l) m i m); [lia|lia|exact H]]; [|lia].
  intros p Hp. symmetry. apply F_fix_down. lia.
Qed.

Lemma fix_down_short fuel (f : nat -> node) i j : (j < 2 * i)%nat -> fix_down load fuel f i j = f.
Proof.
  intros H. destruct fuel; [reflexivity|]. cbn [fix_down].
  destruct (Nat.ltb_spec j (2 * i)); [reflexivity|lia].
Qed.

(* lowering a load, then FixUp *)
Lemma okl_set_up l i v : (1 <= i <= length l)%nat -> okl l (length l) -> v <= load (F l i) ->
  okl (H_fix_up (H_set_load l i v) i) (length l).
Proof.
  intros Hi H Hv. apply okl_fix_up; rewrite ?len_set_load; [lia|lia|].
  eapply ok_up_ext; [| |apply (ok_upd_up node load (F l) (length l) i (set_load (F l i) v) H)]; [|lia|exact Hv].
  intros p Hp. symmetry. apply F_set_load. lia.
Qed.

(* raising a load, then FixDown *)
Lemma okl_set_down l i v : (1 <= i <= length l)%nat -> okl l (length l) -> load (F l i) <= v ->
  okl (H_fix_down (H_set_load l i v) i (length l)) (length l).
Proof.
  intros Hi H Hv. apply okl_fix_down; [rewrite len_set_load; lia|lia|].
  eapply ok_down_ext; [| |apply (ok_upd_down node load (F l) (length l) i (set_load (F l i) v) H)]; [|lia|exact Hv].
  intros p Hp. symmetry. apply F_set_load. lia.
Qed.

(* appending a node, then FixUp(size) *)
Lemma okl_add l x : okl l (length l) -> okl (H_fix_up (l ++ [x]) (S (length l))) (S (length l)).
Proof.
  intros H. apply okl_fix_up; [rewrite app_length; cbn; lia|lia|].
  apply ok_last_up. replace (S (length l) - 1)%nat with (length l) by lia.
  eapply ok_ext; [|exact H]. intros p Hp. rewrite to_fun_app_last.
  destruct (Nat.eqb_spec p (S (length l))); [lia|reflexivity].
Qed.

(* removal of position i: Swap(i, n); FixDown(i, n-1); if i != n: FixUp(i).
   l' is the array on which it runs: the heap l except possibly for the element at i itself. *)
Lemma okl_remove l l' i :
  let n := length l in
  length l' = n -> (1 <= i <= n)%nat -> okl l n ->
  (forall p, (1 <= p <= n)%nat -> p <> i -> F l' p = F l p) ->
  let l2 := H_swap l' i n in
  let l3 := H_fix_down l2 i (n - 1) in
  let l4 := if Nat.eqb i n then l3 else H_fix_up l3 i in
  okl l4 (n - 1) /\ F l4 n = F l' i /\ Permutation l4 l' /\ length l4 = n.
Proof.
  intros n Hlen Hi H E l2 l3 l4.
  assert (L2 : length l2 = n) by (unfold l2; rewrite len_swap; exact Hlen).
  assert (L3 : length l3 = n) by (unfold l3; rewrite len_fix_down; exact L2).
  assert (P2 : Permutation l2 l') by (apply perm_swap; lia).
  assert (P3 : Permutation l3 l2) by (apply perm_fix_down; lia).
  assert (F2 : forall p, (1 <= p <= n)%nat -> F l2 p = swap (F l') i n p) by (intros p Hp; apply F_swap; lia).
  destruct (Nat.eqb_spec i n) as [Hin|Hin].
  - (* the last element: nothing moves *)
    assert (F3 : forall p, (1 <= p <= n)%nat -> F l3 p = F l2 p).
    { intros p Hp. unfold l3. rewrite F_fix_down by lia. rewrite fix_down_short by lia. reflexivity. }
    subst l4. repeat split.
    + eapply ok_ext; [|apply (ok_shrink node load (F l) n (n - 1)); [lia|exact H]].
      intros p Hp. rewrite F3, F2 by lia. rewrite swap_spec.
      destruct (Nat.eqb_spec p n); [lia|]. destruct (Nat.eqb_spec p i); [lia|]. symmetry. apply E; lia.
    + rewrite F3, F2 by lia. rewrite swap_spec. rewrite Nat.eqb_refl. reflexivity.
    + etransitivity; eassumption.
    + exact L3.
  - assert (U3 : ok_up load (F l3) (n - 1) i).
    { unfold l3. apply okup_fix_down_hole; [lia|lia|].
      eapply hole_ext; [| |apply (ok_hole node load (F l) (n - 1) i (F l' n))]; [|lia|].
      - intros p Hp. rewrite F2 by lia. rewrite swap_spec. unfold upd.
        destruct (Nat.eqb_spec p n); [lia|]. destruct (Nat.eqb_spec p i); [reflexivity|]. symmetry. apply E; lia.
      - apply (ok_shrink node load (F l) n (n - 1)); [lia|exact H]. }
    assert (L4 : length l4 = n) by (unfold l4; rewrite len_fix_up; exact L3).
    subst l4. repeat split.
    + apply okl_fix_up; [lia|lia|exact U3].
    + rewrite F_fix_up by lia. rewrite fix_up_frame by lia.
      unfold l3. rewrite F_fix_down by lia. rewrite fix_down_frame by lia.
      rewrite F2 by lia. rewrite swap_spec. rewrite Nat.eqb_refl. reflexivity.
    + etransitivity; [apply perm_fix_up; lia|]. etransitivity; eassumption.
    + exact L4.
Qed.

(* re-insertion of the (minimal) last element at a random position j: Swap(j, n); FixUp(j); FixUp(n) *)
Lemma okl_reinsert l j :
  let n := length l in
  (1 <= j <= n)%nat -> okl l (n - 1) ->
  (forall p, (1 <= p <= n)%nat -> load (F l n) <= load (F l p)) ->
  okl (H_fix_up (H_fix_up (H_swap l j n) j) n) n.
Proof.
  intros n Hj H Hmin.
  set (l5 := H_swap l j n). set (l6 := H_fix_up l5 j).
  assert (L5 : length l5 = n) by (unfold l5; rewrite len_swap; reflexivity).
  assert (L6 : length l6 = n) by (unfold l6; rewrite len_fix_up; exact L5).
  assert (F5 : forall p, (1 <= p <= n)%nat -> F l5 p = swap (F l) j n p) by (intros p Hp; apply F_swap; exact Hp).
  assert (O6 : okl l6 (n - 1)).
  { destruct (Nat.eq_dec j n) as [->|Hjn].
    - (* swap(n, n): FixUp(n) on the whole array; below n-1 we only need the order *)
      assert (O6n : okl l6 n).
      { apply okl_fix_up; [lia|lia|]. apply ok_last_up. eapply ok_ext; [|exact H].
        intros p Hp. rewrite F5 by lia. rewrite swap_spec. destruct (Nat.eqb_spec p n); [lia|reflexivity]. }
      apply (ok_shrink node load (F l6) n (n - 1)); [lia|exact O6n].
    - apply okl_fix_up; [lia|lia|].
      eapply ok_up_ext; [| |apply (ok_upd_up node load (F l) (n - 1) j (F l n) H)]; [|lia|apply Hmin; lia].
      intros p Hp. rewrite F5 by lia. rewrite swap_spec. unfold upd.
      destruct (Nat.eqb_spec p n); [lia|]. destruct (Nat.eqb_spec p j); reflexivity. }
  apply okl_fix_up; [lia|lia|]. apply ok_last_up. exact O6.
Qed.

Lemma okl_pop l m : (m <= length l - 1)%nat -> okl l m -> okl (H_pop l) m.
Proof. intros Hm H. eapply ok_ext; [|exact H]. intros p Hp. symmetry. apply F_pop. lia. Qed.

(* ============================================================================================ *)
(* 3. load accounting                                                                            *)
(* ============================================================================================ *)

(* requests dispatched to node x whose PutWrapper has not run yet *)
Definition undone (x : Z) (r : Z * Z * bool) : bool := (snd (fst r) =? x) && negb (snd r).
Definition out_of (rs : list (Z * Z * bool)) (x : Z) : Z := Z.of_nat (length (filter (undone x) rs)).
Definition pen (dq : list Z) (x : Z) : Z := if memz x dq then Penalty else 0.
Definition cons_ok (rs : list (Z * Z * bool)) (dq : list Z) (l : list node) : Prop :=
  forall y, In y l -> load y = Idle + out_of rs (nid y) + pen dq (nid y).

Lemma out_nonneg rs x : 0 <= out_of rs x.
Proof. unfold out_of. lia. Qed.

Lemma pen_nonneg dq x : 0 <= pen dq x.
Proof. unfold pen, Penalty. destruct (memz x dq); lia. Qed.

Lemma pen_in dq x : In x dq -> pen dq x = Penalty.
Proof. intros H. unfold pen. apply memz_in in H. rewrite H. reflexivity. Qed.

Lemma pen_notin dq x : ~ In x dq -> pen dq x = 0.
Proof. intros H. unfold pen. apply memz_not in H. rewrite H. reflexivity. Qed.

Lemma pen_remove kept x r y : y <> x -> pen (kept ++ x :: r) y = pen (kept ++ r) y.
Proof.
  intros Hne. unfold pen.
  assert (E : memz y (kept ++ x :: r) = memz y (kept ++ r)).
  { apply eq_true_iff_eq. rewrite !memz_in, !in_app_iff. cbn [In]. intuition congruence. }
  rewrite E. reflexivity.
Qed.

Lemma pen_cons_ne x dq y : y <> x -> pen (x :: dq) y = pen dq y.
Proof. intros H. apply (pen_remove [] x dq y H). Qed.

Lemma out_cons r x d rs y : out_of ((r, x, d) :: rs) y = out_of rs y + (if (x =? y) && negb d then 1 else 0).
Proof.
  unfold out_of. cbn [filter]. unfold undone at 1. cbn [fst snd].
  destruct ((x =? y) && negb d); cbn [length]; lia.
Qed.

Lemma cons_perm rs dq l l' : Permutation l' l -> cons_ok rs dq l -> cons_ok rs dq l'.
Proof. intros P H y Hy. apply H. eapply Permutation_in; eassumption. Qed.

Lemma cons_ge_idle rs dq l y : cons_ok rs dq l -> In y l -> Idle <= load y.
Proof. intros H Hy. rewrite (H y Hy). pose proof (out_nonneg rs (nid y)). pose proof (pen_nonneg dq (nid y)). lia. Qed.

Lemma cons_set_load rs dq rs' dq' l i v :
  NoDup (map nid l) -> (1 <= i <= length l)%nat ->
  cons_ok rs dq l ->
  (forall y, y <> nid (F l i) -> out_of rs' y = out_of rs y /\ pen dq' y = pen dq y) ->
  v = Idle + out_of rs' (nid (F l i)) + pen dq' (nid (F l i)) ->
  cons_ok rs' dq' (H_set_load l i v).
Proof.
  intros ND Hi H Hoth Hv y Hy. apply (in_set_load l i v y ND Hi) in Hy as [->|[Hy Hne]].
  - cbn [set_load load nid]. exact Hv.
  - destruct (Hoth (nid y) Hne) as [E1 E2]. rewrite E1, E2. apply H. exact Hy.
Qed.

Lemma nodup_ids l l' : Permutation (ids l') (ids l) -> NoDup (map nid l) -> NoDup (map nid l').
Proof.
  intros P H. rewrite ids_nid in *. eapply Permutation_NoDup; [|exact H].
  apply Permutation_map. symmetry. exact P.
Qed.

Lemma in_nid_ids l l' x : Permutation (ids l') (ids l) -> In x (map nid l) -> In x (map nid l').
Proof.
  intros P H. rewrite ids_nid in *. eapply Permutation_in; [|exact H]. apply Permutation_map. symmetry. exact P.
Qed.

Lemma len_ids l l' : Permutation (ids l') (ids l) -> length l' = length l.
Proof. intros P. apply Permutation_length in P. unfold ids in P. rewrite !map_length in P. exact P. Qed.

Lemma ids_fix_up_set l i v : (1 <= i <= length l)%nat -> Permutation (ids (H_fix_up (H_set_load l i v) i)) (ids l).
Proof.
  intros Hi. rewrite <- (ids_set_load l i v). apply ids_perm. apply perm_fix_up. rewrite len_set_load. exact Hi.
Qed.

Lemma ids_fix_down_set l i v j : (1 <= i)%nat -> (j <= length l)%nat ->
  Permutation (ids (H_fix_down (H_set_load l i v) i j)) (ids l).
Proof.
  intros Hi Hj. rewrite <- (ids_set_load l i v). apply ids_perm. apply perm_fix_down; [exact Hi|]. rewrite len_set_load. exact Hj.
Qed.

Lemma nid_F_in l p : (1 <= p <= length l)%nat -> In (nid (F l p)) (map nid l).
Proof. intros Hp. apply in_map. apply in_F. exact Hp. Qed.

(* ============================================================================================ *)
(* 4. __Get                                                                                      *)
(* ============================================================================================ *)

Definition HS (rs : list (Z * Z * bool)) (l : list node) (dq : list Z) : Prop :=
  okl l (length l) /\ NoDup (map nid l) /\ NoDup dq /\ cons_ok rs dq l.

Lemma walk_spec rs chan : forall dq kept l l' dq' ev,
  walk chan l dq = (l', dq', ev) ->
  HS rs l (kept ++ dq) ->
  HS rs l' (kept ++ dq') /\ Permutation (ids l') (ids l) /\
  (forall x, In x dq' -> In x dq /\ In x (map nid l') /\ chan x <> ST_OPEN) /\
  (forall e, In e ev -> exists ep, e = EUp ep).
Proof.
  induction dq as [|x r IH]; intros kept l l' dq' ev W H.
  - cbn in W. inversion W; subst. split; [exact H|]. split; [reflexivity|]. split; [intros x []|intros e []].
  - cbn [walk] in W. destruct H as (Hok & Hnd & Hdq & Hc).
    destruct (pos_of_nid l x) as [i|] eqn:P.
    + apply pos_of_nid_some in P as [Hi Hx].
      assert (Hxk : ~ In x (kept ++ r)) by (apply NoDup_remove_2 in Hdq; exact Hdq).
      assert (Hdq' : NoDup (kept ++ r)) by (apply NoDup_remove_1 in Hdq; exact Hdq).
      destruct (chan x =? ST_OPEN) eqn:C.
      * (* resurrected *)
        set (l1 := H_fix_up (H_set_load l i (load (H_at l i) - Penalty)) i) in W.
        destruct (walk chan l1 r) as [[l2 r'] ev'] eqn:W1. inversion W; subst l' dq' ev. clear W.
        assert (P1 : Permutation (ids l1) (ids l)) by (apply ids_fix_up_set; exact Hi).
        assert (L1 : length l1 = length l) by (apply len_ids; exact P1).
        assert (H1 : HS rs l1 (kept ++ r)).
        { repeat split.
          - rewrite L1. apply okl_set_up; [exact Hi|exact Hok|]. unfold H_at, Penalty. lia.
          - eapply nodup_ids; eassumption.
          - exact Hdq'.
          - eapply cons_perm; [apply perm_fix_up; rewrite len_set_load; exact Hi|].
            eapply cons_set_load; try eassumption.
            + intros y Hy. split; [reflexivity|]. rewrite Hx in Hy. symmetry. apply pen_remove. exact Hy.
            + unfold H_at. rewrite (Hc (F l i) (in_F l i Hi)). rewrite Hx.
              rewrite (pen_in (kept ++ x :: r) x) by (apply in_app_iff; right; left; reflexivity).
              rewrite (pen_notin (kept ++ r) x Hxk). lia. }
        destruct (IH kept l1 l2 r' ev' W1 H1) as (R1 & R2 & R3 & R4).
        repeat split; try apply R1.
        -- etransitivity; eassumption.
        -- right. apply R3. exact H.
        -- apply R3. exact H.
        -- apply R3. exact H.
        -- intros e [<-|He]; [eexists; reflexivity|apply R4; exact He].
      * (* still down: stays in the list *)
        destruct (walk chan l r) as [[l2 r'] ev'] eqn:W1. inversion W; subst l' dq' ev. clear W.
        assert (H1 : HS rs l ((kept ++ [x]) ++ r)).
        { rewrite <- app_assoc. cbn [app]. repeat split; assumption. }
        destruct (IH (kept ++ [x]) l l2 r' ev' W1 H1) as (R1 & R2 & R3 & R4).
        rewrite <- app_assoc in R1. cbn [app] in R1.
        repeat split; try apply R1; try assumption.
        -- destruct H as [<-|H]; [left; reflexivity|right; apply R3; exact H].
        -- destruct H as [<-|H]; [|apply R3; exact H].
           eapply in_nid_ids; [exact R2|]. rewrite <- Hx. apply nid_F_in. exact Hi.
        -- destruct H as [<-|H]; [|apply R3; exact H]. unfold ST_OPEN in *. lia.
    + (* discarded node: unlinked *)
      apply pos_of_nid_none in P.
      assert (H1 : HS rs l (kept ++ r)).
      { repeat split; try assumption.
        - apply NoDup_remove_1 in Hdq. exact Hdq.
        - intros y Hy. rewrite (Hc y Hy). f_equal. apply pen_remove. intros E. apply P. rewrite <- E. apply in_map. exact Hy. }
      destruct (IH kept l l' dq' ev W H1) as (R1 & R2 & R3 & R4).
      repeat split; try apply R1; try assumption.
      -- right. apply R3. exact H.
      -- apply R3. exact H.
      -- apply R3. exact H.
Qed.

Lemma get_spec rs chan : forall fuel l dq l' dq' ev,
  get fuel chan l dq = Some (l', dq', ev) ->
  (1 <= length l)%nat -> HS rs l dq ->
  HS rs l' dq' /\ Permutation (ids l') (ids l) /\
  (forall x, In x dq' -> In x (map nid l') /\ chan x <> ST_OPEN) /\
  (forall x, In x dq' -> In x dq \/ In x (map nid l)) /\
  (chan (nid (F l' 1%nat)) = ST_OPEN \/ 0 <= load (F l' 1%nat)) /\
  (forall e, In e ev -> exists ep, e = EUp ep \/ e = EDown ep).
Proof.
  induction fuel as [|fu IH]; intros l dq l' dq' ev G Hlen H; [discriminate|].
  cbn [get] in G. destruct (walk chan l dq) as [[l1 dq1] ev1] eqn:W.
  destruct (walk_spec rs chan dq [] l l1 dq1 ev1 W H) as (H1 & P1 & D1 & E1). cbn [app] in H1.
  assert (L1 : length l1 = length l) by (apply len_ids; exact P1).
  destruct ((chan (nid (H_at l1 1%nat)) =? ST_OPEN) || (0 <=? load (H_at l1 1%nat))) eqn:C.
  - inversion G; subst l' dq' ev. clear G. split; [exact H1|]. split; [exact P1|].
    split; [intros x Hx; apply D1; exact Hx|]. split; [intros x Hx; left; apply D1; exact Hx|].
    split; [unfold H_at in C; lia|]. intros e He. destruct (E1 e He) as [ep ->]. exists ep. left. reflexivity.
  - set (r := H_at l1 1%nat) in *.
    set (l2 := H_fix_down (H_set_load l1 1%nat (load r + Penalty)) 1%nat (length l1)) in G.
    destruct (get fu chan l2 (nid r :: dq1)) as [[[l3 dq3] ev3]|] eqn:G2; [|discriminate].
    inversion G; subst l' dq' ev. clear G.
    destruct H1 as (Hok & Hnd & Hdq & Hc).
    assert (Hr1 : (1 <= 1 <= length l1)%nat) by lia.
    assert (Hrin : In r l1) by (apply in_F; exact Hr1).
    assert (Hrneg : load r < 0) by lia.
    assert (Hrdq : ~ In (nid r) dq1).
    { intros Hin. rewrite (Hc r Hrin) in Hrneg. rewrite (pen_in dq1 _ Hin) in Hrneg.
      pose proof (out_nonneg rs (nid r)). unfold Idle, Penalty in Hrneg. lia. }
    assert (P2 : Permutation (ids l2) (ids l1)) by (apply ids_fix_down_set; lia).
    assert (L2 : length l2 = length l1) by (apply len_ids; exact P2).
    assert (H2 : HS rs l2 (nid r :: dq1)).
    { repeat split.
      - rewrite L2. apply okl_set_down; [lia|exact Hok|]. fold (H_at l1 1%nat). fold r. unfold Penalty. lia.
      - eapply nodup_ids; eassumption.
      - constructor; assumption.
      - eapply cons_perm; [apply perm_fix_down; [lia|rewrite len_set_load; lia]|].
        eapply cons_set_load; try eassumption.
        + intros y Hy. split; [reflexivity|]. apply pen_cons_ne. exact Hy.
        + fold (H_at l1 1%nat). fold r. rewrite (Hc r Hrin). rewrite (pen_notin dq1 _ Hrdq).
          rewrite (pen_in (nid r :: dq1) (nid r)) by (left; reflexivity). lia. }
    destruct (IH l2 (nid r :: dq1) l3 dq3 ev3 G2 ltac:(lia) H2) as (R1 & R2 & R3 & R4 & R5 & R6).
    split; [exact R1|]. split; [etransitivity; [exact R2|]; etransitivity; eassumption|].
    split; [exact R3|]. split.
    + intros x Hx. destruct (R4 x Hx) as [[<-|Hin]|Hin].
      * right. eapply in_nid_ids; [symmetry; exact P1|]. apply in_map. exact Hrin.
      * left. apply D1. exact Hin.
      * right. eapply in_nid_ids; [symmetry; exact P1|]. eapply in_nid_ids; [symmetry; exact P2|]. exact Hin.
    + split; [exact R5|]. intros e He. apply in_app_iff in He as [He|[<-|He]].
      * destruct (E1 e He) as [ep ->]. exists ep. left. reflexivity.
      * eexists. right. reflexivity.
      * apply R6. exact He.
Qed.

(* ============================================================================================ *)
(* 5. the invariant                                                                              *)
(* ============================================================================================ *)

Definition dnids (d : list (node * bool)) : list Z := map (fun p => nid (fst p)) d.

Record Core (s : state) : Prop := mkCore {
  c_ok    : okl (heap s) (length (heap s));
  c_nodup : NoDup (map nid (heap s) ++ dnids (detached s));
  c_dq    : NoDup (downq s);
  c_cons  : cons_ok (reqs s) (downq s) (heap s);
  c_dcons : forall x b, In (x, b) (detached s) ->
            load x = Idle + out_of (reqs s) (nid x) + (if b then Penalty else 0);
  c_reqs  : forall r x, In (r, x, false) (reqs s) -> In x (map nid (heap s) ++ dnids (detached s));
  c_fresh : forall x, In x (map nid (heap s) ++ dnids (detached s) ++ downq s) -> x < next_nid s;
  c_srv   : NoDup (servers s) /\ NoDup (map nep (heap s)) /\
            (forall ep, In ep (map nep (heap s)) <-> In ep (servers s)) }.

Lemma perm_nid l l' : Permutation (ids l') (ids l) -> Permutation (map nid l') (map nid l).
Proof. intros P. rewrite !ids_nid. apply Permutation_map. exact P. Qed.

Lemma perm_nep l l' : Permutation (ids l') (ids l) -> Permutation (map nep l') (map nep l).
Proof. intros P. rewrite !ids_nep. apply Permutation_map. exact P. Qed.

Lemma nodup_disj {A} (a b : list A) x : NoDup (a ++ b) -> In x a -> In x b -> False.
Proof.
  induction a as [|y a IH]; intros ND Ha Hb; [destruct Ha|].
  cbn in ND. inversion ND as [|? ? Hn ND']; subst. destruct Ha as [->|Ha].
  - apply Hn. apply in_app_iff. right. exact Hb.
  - eapply IH; eassumption.
Qed.

Lemma nodup_app_l {A} (a b : list A) : NoDup (a ++ b) -> NoDup a.
Proof. induction a as [|y a IH]; intros ND; [constructor|]. cbn in ND. inversion ND; subst. constructor; [|apply IH; assumption].
  intros H. apply H1. apply in_app_iff. left. exact H. Qed.

Lemma nodup_app_r {A} (a b : list A) : NoDup (a ++ b) -> NoDup b.
Proof. induction a as [|y a IH]; intros ND; [exact ND|]. cbn in ND. inversion ND; subst. apply IH. assumption. Qed.

Lemma core_HS s : Core s -> HS (reqs s) (heap s) (downq s).
Proof. intros C. repeat split; try apply C. eapply nodup_app_l. apply C. Qed.

Lemma find_req_in rs rid x d : find_req rs rid = Some (x, d) -> In (rid, x, d) rs.
Proof.
  induction rs as [|[[r y] e] t IH]; cbn; [discriminate|]. destruct (Z.eqb_spec r rid) as [->|].
  - intros E. inversion E; subst. left. reflexivity.
  - intros E. right. apply IH. exact E.
Qed.

(* a heap that differs from the old one by loads only (same nodes, same endpoints), with the
   accounting re-established, keeps the invariant *)
Lemma core_same_ids s l dq rs nr d' :
  Core s ->
  Permutation (ids l) (ids (heap s)) ->
  okl l (length l) -> NoDup dq -> cons_ok rs dq l ->
  dnids d' = dnids (detached s) ->
  (forall x b, In (x, b) d' -> load x = Idle + out_of rs (nid x) + (if b then Penalty else 0)) ->
  (forall r x, In (r, x, false) rs -> In (r, x, false) (reqs s) \/ In x (map nid l)) ->
  (forall x, In x dq -> In x (downq s) \/ In x (map nid (heap s))) ->
  Core (mkState l dq d' (servers s) (next_nid s) rs nr (chans s) (st0 s) (init_done s) (blocked s)).
Proof.
  intros C P Hok Hdq Hc Ed Hd Hr Hq.
  pose proof (perm_nid _ _ P) as Pn. pose proof (perm_nep _ _ P) as Pe.
  constructor; cbn [heap downq detached servers next_nid reqs]; rewrite ?Ed.
  - exact Hok.
  - eapply Permutation_NoDup; [|apply (c_nodup s C)]. apply Permutation_app_tail. symmetry. exact Pn.
  - exact Hdq.
  - exact Hc.
  - exact Hd.
  - intros r x Hin. destruct (Hr r x Hin) as [H|H].
    + apply (c_reqs s C) in H. apply in_app_iff in H as [H|H]; apply in_app_iff; [left|right; exact H].
      eapply Permutation_in; [symmetry; exact Pn|exact H].
    + apply in_app_iff. left. exact H.
  - intros x Hin. apply (c_fresh s C). rewrite !in_app_iff in *. destruct Hin as [H|[H|H]].
    + left. eapply Permutation_in; [exact Pn|exact H].
    + right. left. exact H.
    + destruct (Hq x H) as [H'|H']; [right; right; exact H'|left; exact H'].
  - destruct (c_srv s C) as (S1 & S2 & S3). split; [exact S1|]. split.
    + eapply Permutation_NoDup; [symmetry; exact Pe|exact S2].
    + intros ep. rewrite <- S3. split; intros H; eapply Permutation_in; try exact H; [exact Pe|symmetry; exact Pe].
Qed.

Lemma core_dispatch s s' o : Core s -> do_dispatch s = (s', o) -> Core s'.
Proof.
  intros C D. unfold do_dispatch in D.
  destruct (negb (init_done s)); [inversion D; subst; exact C|].
  destruct (heap s) as [|h0 t0] eqn:Eh; [inversion D; subst; exact C|]. rewrite <- Eh in *.
  assert (Hlen : (1 <= length (heap s))%nat) by (rewrite Eh; cbn; lia).
  destruct (get (S (length (heap s))) (lookup_chan s) (heap s) (downq s)) as [[[l1 dq1] ev]|] eqn:G;
    [|inversion D; subst; exact C].
  inversion D; subst s' o. clear D.
  destruct (get_spec (reqs s) _ _ _ _ _ _ _ G Hlen (core_HS s C)) as (H1 & P1 & D1 & Q1 & _ & _).
  destruct H1 as (Hok & Hnd & Hdq & Hc).
  assert (L1 : length l1 = length (heap s)) by (apply len_ids; exact P1).
  set (r := H_at l1 1%nat) in *.
  assert (Hr1 : (1 <= 1 <= length l1)%nat) by lia.
  assert (Hrin : In r l1) by (apply in_F; exact Hr1).
  set (l2 := H_fix_down (H_set_load l1 1%nat (load r + 1)) 1%nat (length l1)).
  assert (P2 : Permutation (ids l2) (ids l1)) by (apply ids_fix_down_set; lia).
  assert (L2 : length l2 = length l1) by (apply len_ids; exact P2).
  assert (Hrh : In (nid r) (map nid (heap s))).
  { eapply in_nid_ids; [symmetry; exact P1|]. apply in_map. exact Hrin. }
  assert (O1 : forall y, y <> nid r -> out_of ((next_rid s, nid r, false) :: reqs s) y = out_of (reqs s) y).
  { intros y Hy. rewrite out_cons. destruct (Z.eqb_spec (nid r) y); [congruence|]. cbn [andb]. lia. }
  assert (O2 : out_of ((next_rid s, nid r, false) :: reqs s) (nid r) = out_of (reqs s) (nid r) + 1).
  { rewrite out_cons. rewrite Z.eqb_refl. reflexivity. }
  apply core_same_ids; try assumption.
  - etransitivity; eassumption.
  - change (okl l2 (length l2)). rewrite L2. apply okl_set_down; [lia|exact Hok|]. fold (H_at l1 1%nat). fold r. lia.
  - eapply cons_perm; [apply perm_fix_down; [lia|rewrite len_set_load; lia]|].
    eapply cons_set_load; try eassumption.
    + intros y Hy. split; [|reflexivity]. apply O1. exact Hy.
    + change (load r + 1 = Idle + out_of ((next_rid s, nid r, false) :: reqs s) (nid r) + pen dq1 (nid r)).
      rewrite O2. rewrite (Hc r Hrin). lia.
  - reflexivity.
  - intros x b Hin. rewrite O1; [apply (c_dcons s C); exact Hin|]. intros E.
    eapply (nodup_disj _ _ (nid r) (c_nodup s C)); [exact Hrh|].
    rewrite <- E. unfold dnids. apply in_map_iff. exists (x, b). split; [reflexivity|exact Hin].
  - intros r0 x [E|Hin]; [|left; exact Hin]. inversion E; subst. right.
    eapply in_nid_ids; [exact P2|]. apply in_map. exact Hrin.
Qed.

(* ---------------------------------------------------------------------------------------------- *)
(* __Put                                                                                           *)
(* ---------------------------------------------------------------------------------------------- *)
Lemma out_mark_done rs rid x : find_req rs rid = Some (x, false) ->
  forall y, out_of (mark_done rs rid) y = out_of rs y - (if x =? y then 1 else 0).
Proof.
  induction rs as [|[[r z] e] t IH]; cbn [find_req mark_done]; [discriminate|].
  destruct (Z.eqb_spec r rid) as [->|Hne]; intros E y.
  - inversion E; subst. rewrite !out_cons. cbn [negb andb]. rewrite andb_false_r.
    destruct (x =? y); cbn [andb]; lia.
  - rewrite !out_cons. rewrite (IH E y). lia.
Qed.

Lemma in_mark_done rs rid r y : In (r, y, false) (mark_done rs rid) -> In (r, y, false) rs.
Proof.
  induction rs as [|[[r0 z] e] t IH]; cbn [mark_done]; [intros []|].
  destruct (Z.eqb_spec r0 rid) as [->|Hne]; intros [E|H].
  - discriminate.
  - right. exact H.
  - left. exact E.
  - right. apply IH. exact H.
Qed.

Lemma out_pos rs r x : In (r, x, false) rs -> 1 <= out_of rs x.
Proof.
  intros H. unfold out_of.
  assert (Hf : In (r, x, false) (filter (undone x) rs)).
  { apply filter_In. split; [exact H|]. unfold undone. cbn. rewrite Z.eqb_refl. reflexivity. }
  destruct (filter (undone x) rs); [destruct Hf|]. cbn [length]. lia.
Qed.

Lemma clamp_ge v : Idle <= v -> clamp v = (v, []).
Proof. intros H. unfold clamp. destruct (Z.ltb_spec v Idle); [lia|reflexivity]. Qed.

Lemma put_detached_none d x : put_detached d x = None -> ~ In x (dnids d).
Proof.
  induction d as [|[nd b] t IH]; cbn [put_detached dnids map]; [intros _ []|].
  destruct (Z.eqb_spec (nid nd) x) as [E|Hne].
  - destruct (clamp (load nd - 1)). discriminate.
  - destruct (put_detached t x) as [[r' ev]|] eqn:P; [discriminate|]. intros _ [H|H]; [cbn in H; lia|].
    apply IH; [reflexivity|exact H].
Qed.

Lemma put_detached_spec d x d' ev : put_detached d x = Some (d', ev) -> NoDup (dnids d) ->
  dnids d' = dnids d /\
  exists nd b, In (nd, b) d /\ nid nd = x /\
    ev = snd (clamp (load nd - 1)) ++ (if fst (clamp (load nd - 1)) =? Idle then [EClose x] else []) /\
    forall y c, In (y, c) d' ->
      (y = set_load nd (fst (clamp (load nd - 1))) /\ c = b) \/ (In (y, c) d /\ nid y <> x).
Proof.
  revert d' ev. induction d as [|[nd b] t IH]; intros d' ev; cbn [put_detached]; [discriminate|].
  cbn [dnids map fst]. intros H ND. inversion ND as [|? ? Hn ND']; subst.
  destruct (Z.eqb_spec (nid nd) x) as [E|Hne].
  - destruct (clamp (load nd - 1)) as [v e0] eqn:Cl. inversion H; subst d' ev. clear H.
    split; [reflexivity|]. exists nd, b. rewrite Cl. cbn [fst snd]. split; [left; reflexivity|]. split; [exact E|].
    split; [reflexivity|]. intros y c [H|H].
    + inversion H; subst. left. split; reflexivity.
    + right. split; [right; exact H|]. intros E2. apply Hn. rewrite E, <- E2.
      apply in_map_iff. exists (y, c). split; [reflexivity|exact H].
  - destruct (put_detached t x) as [[r' ev']|] eqn:P; [|discriminate]. inversion H; subst d' ev. clear H.
    destruct (IH r' ev' eq_refl ND') as (E1 & nd1 & b1 & I1 & I2 & I3 & I4).
    split; [cbn [dnids map fst]; f_equal; exact E1|]. exists nd1, b1. split; [right; exact I1|].
    split; [exact I2|]. split; [exact I3|]. intros y c [H|H].
    + inversion H; subst. right. split; [left; reflexivity|exact Hne].
    + destruct (I4 y c H) as [L|[R1 R2]]; [left; exact L|right; split; [right; exact R1|exact R2]].
Qed.

Lemma in_dnids d x b : In (x, b) d -> In (nid x) (dnids d).
Proof. intros H. unfold dnids. apply in_map_iff. exists (x, b). split; [reflexivity|exact H]. Qed.

(* __Put of a request that was outstanding: the node is found, nothing is clamped, no warning *)
Lemma core_put s rid x j s' res ev :
  Core s -> find_req (reqs s) rid = Some (x, false) ->
  do_put (set_reqs s (mark_done (reqs s) rid)) x j = (s', (res, ev)) ->
  res <> RBadRand ->
  Core s' /\ res <> RGhost /\ ~ In EWarn ev.
Proof.
  intros C Fr D Hres.
  pose proof (find_req_in _ _ _ _ Fr) as Hin.
  pose proof (out_pos _ _ _ Hin) as Hpos.
  pose proof (out_mark_done _ _ _ Fr) as Om.
  set (rs' := mark_done (reqs s) rid) in *.
  assert (Omx : out_of rs' x = out_of (reqs s) x - 1) by (rewrite Om, Z.eqb_refl; reflexivity).
  assert (Omy : forall y, y <> x -> out_of rs' y = out_of (reqs s) y).
  { intros y Hy. rewrite Om. destruct (Z.eqb_spec x y); [congruence|lia]. }
  assert (Hrs : forall r y, In (r, y, false) rs' -> In (r, y, false) (reqs s)) by (intros r y; apply in_mark_done).
  destruct (core_HS s C) as (Hok & Hnd & Hdq & Hc).
  unfold do_put in D. cbn [heap set_reqs detached] in D.
  destruct (pos_of_nid (heap s) x) as [i|] eqn:P.
  - apply pos_of_nid_some in P as [Hi Hx].
    set (l := heap s) in *. set (nd := H_at l i) in *.
    assert (Hndin : In nd l) by (apply in_F; exact Hi).
    assert (Hload : load nd = Idle + out_of (reqs s) x + pen (downq s) x).
    { rewrite (Hc nd Hndin). unfold nd, H_at. rewrite Hx. reflexivity. }
    pose proof (pen_nonneg (downq s) x) as Hpen.
    rewrite (clamp_ge (load nd - 1)) in D by lia.
    set (l1 := H_set_load l i (load nd - 1)) in *.
    assert (Hc1 : cons_ok rs' (downq s) l1).
    { eapply cons_set_load; try eassumption.
      - intros y Hy. split; [|reflexivity]. apply Omy. rewrite <- Hx. exact Hy.
      - fold (H_at l i). fold nd. unfold nd, H_at. rewrite Hx. fold (H_at l i). fold nd. rewrite Omx. lia. }
    assert (L1 : length l1 = length l) by apply len_set_load.
    assert (I1 : ids l1 = ids l) by apply ids_set_load.
    assert (Fin : forall l', Permutation (ids l') (ids l) -> okl l' (length l') -> cons_ok rs' (downq s) l' ->
              Core (set_heap (set_reqs s rs') l')).
    { intros l' P' O' C'. unfold set_heap, set_reqs. cbn [heap downq detached servers next_nid reqs next_rid chans st0 init_done blocked].
      apply core_same_ids; try assumption.
      - reflexivity.
      - intros y b Hy. rewrite Omy; [apply (c_dcons s C); exact Hy|]. intros E.
        eapply (nodup_disj _ _ x (c_nodup s C)); [rewrite <- Hx; apply nid_F_in; exact Hi|].
        rewrite <- E. eapply in_dnids. exact Hy.
      - intros r y Hy. left. apply Hrs. exact Hy.
      - intros y Hy. left. exact Hy. }
    destruct ((load nd - 1 =? Idle) && (1 <? Z.of_nat (length l))) eqn:Br.
    + destruct ((1 <=? j) && (j <=? Z.of_nat (length l))) eqn:Bj; [|inversion D; subst; congruence].
      inversion D; subst s' res ev. clear D.
      split; [|split; [discriminate|intros []]].
      pose proof (okl_remove l l1 i L1 Hi Hok) as R. cbn zeta in R.
      destruct R as (R1 & R2 & R3 & R4).
      { intros p Hp Hne. unfold l1. rewrite F_set_load by exact Hp. destruct (Nat.eqb_spec p i); [lia|reflexivity]. }
      set (l4 := if Nat.eqb i (length l) then H_fix_down (H_swap l1 i (length l)) i (length l - 1)
                 else H_fix_up (H_fix_down (H_swap l1 i (length l)) i (length l - 1)) i) in *.
      assert (Hc4 : cons_ok rs' (downq s) l4) by (eapply cons_perm; eassumption).
      set (jn := Z.to_nat j).
      assert (Hjn : (1 <= jn <= length l4)%nat) by lia.
      pose proof (okl_reinsert l4 jn Hjn) as R5. cbn zeta in R5. rewrite R4 in R5.
      apply Fin.
      * rewrite <- I1. apply ids_perm.
        etransitivity; [apply perm_fix_up; rewrite len_fix_up, len_swap; lia|].
        etransitivity; [apply perm_fix_up; rewrite len_swap; lia|].
        etransitivity; [apply perm_swap; lia|]. exact R3.
      * rewrite !len_fix_up, len_swap, R4. apply R5; [exact R1|].
        intros p Hp. rewrite R2. unfold l1. rewrite F_set_load by lia. rewrite Nat.eqb_refl. cbn [set_load load].
        fold (H_at l i). fold nd. replace (load nd - 1) with Idle by lia.
        eapply cons_ge_idle; [exact Hc4|]. apply in_F. lia.
      * eapply cons_perm; [|exact Hc4].
        etransitivity; [apply perm_fix_up; rewrite len_fix_up, len_swap; lia|].
        etransitivity; [apply perm_fix_up; rewrite len_swap; lia|]. apply perm_swap; lia.
    + inversion D; subst s' res ev. clear D.
      split; [|split; [discriminate|intros []]].
      apply Fin.
      * rewrite <- I1. apply ids_perm. apply perm_fix_up. lia.
      * rewrite len_fix_up, L1. apply okl_set_up; [exact Hi|exact Hok|]. fold (H_at l i). fold nd. lia.
      * eapply cons_perm; [apply perm_fix_up; lia|exact Hc1].
  - apply pos_of_nid_none in P.
    assert (Hxd : In x (dnids (detached s))).
    { pose proof (c_reqs s C _ _ Hin) as H. apply in_app_iff in H as [H|H]; [contradiction|exact H]. }
    destruct (put_detached (detached s) x) as [[d' ev']|] eqn:Pd.
    + inversion D; subst s' res ev. clear D.
      assert (NDd : NoDup (dnids (detached s))).
      { pose proof (c_nodup s C) as H. apply nodup_app_r in H. exact H. }
      destruct (put_detached_spec _ _ _ _ Pd NDd) as (E1 & nd & b & I1 & I2 & I3 & I4).
      pose proof (c_dcons s C nd b I1) as Hload. rewrite I2 in Hload.
      assert (Hb : 0 <= (if b then Penalty else 0)) by (unfold Penalty; destruct b; lia).
      rewrite (clamp_ge (load nd - 1)) in I3, I4 by lia. cbn [fst snd] in I3, I4.
      split; [|split; [discriminate|]].
      * unfold set_detached, set_reqs. cbn [heap downq detached servers next_nid reqs next_rid chans st0 init_done blocked].
        apply core_same_ids; try assumption.
        -- reflexivity.
        -- intros y Hy. rewrite (Hc y Hy). rewrite Omy; [reflexivity|]. intros E. apply P. rewrite <- E. apply in_map. exact Hy.
        -- intros y c Hy. destruct (I4 y c Hy) as [[-> ->]|[Hy1 Hy2]].
           ++ cbn [set_load load nid]. rewrite I2, Omx. lia.
           ++ rewrite Omy by exact Hy2. apply (c_dcons s C). exact Hy1.
        -- intros r y Hy. left. apply Hrs. exact Hy.
        -- intros y Hy. left. exact Hy.
      * rewrite I3. cbn [app]. destruct (load nd - 1 =? Idle); [intros [H|[]]; discriminate|intros []].
    + exfalso. eapply put_detached_none; eassumption.
Qed.

Lemma core_complete s rid j s' o : Core s -> do_complete s rid j = (s', o) -> Core s'.
Proof.
  intros C D. unfold do_complete in D.
  destruct (find_req (reqs s) rid) as [[x [|]]|] eqn:Fr; try (inversion D; subst; exact C).
  destruct (do_put (set_reqs s (mark_done (reqs s) rid)) x j) as [s1 [res ev]] eqn:P.
  destruct res; inversion D; subst; try exact C;
    (refine (proj1 (core_put s rid x j _ _ _ C Fr P _)); discriminate).
Qed.

(* ---------------------------------------------------------------------------------------------- *)
(* membership changes                                                                              *)
(* ---------------------------------------------------------------------------------------------- *)
Lemma out_zero rs x : (forall r, ~ In (r, x, false) rs) -> out_of rs x = 0.
Proof.
  intros H. unfold out_of. destruct (filter (undone x) rs) as [|[[r y] d] t] eqn:E; [reflexivity|].
  exfalso. assert (Hin : In (r, y, d) (filter (undone x) rs)) by (rewrite E; left; reflexivity).
  apply filter_In in Hin as [H1 H2]. unfold undone in H2. cbn in H2.
  destruct d; [rewrite andb_false_r in H2; discriminate|]. apply (H r).
  assert (y = x) by lia. subst. exact H1.
Qed.

Lemma in_remz e x l : In e (remz x l) <-> In e l /\ e <> x.
Proof.
  unfold remz. rewrite filter_In. split; intros [H1 H2]; (split; [exact H1|]).
  - intros ->. rewrite Z.eqb_refl in H2. discriminate.
  - destruct (Z.eqb_spec x e); [congruence|reflexivity].
Qed.

Lemma core_add s ep s' ev : Core s -> do_add_server s ep = (s', ev) -> Core s'.
Proof.
  intros C D. unfold do_add_server in D.
  destruct (memz ep (servers s)) eqn:M; [inversion D; subst; exact C|].
  inversion D; subst s' ev. clear D. apply memz_not in M.
  set (N := next_nid s). set (nd := mkNode N ep Idle). set (l := heap s).
  set (l2 := H_fix_up (l ++ [nd]) (length (l ++ [nd]))).
  assert (La : length (l ++ [nd]) = S (length l)) by (rewrite app_length; cbn; lia).
  assert (P2 : Permutation l2 (nd :: l)).
  { etransitivity; [apply perm_fix_up; lia|]. symmetry. apply Permutation_cons_append. }
  assert (L2 : length l2 = S (length l)) by (unfold l2; rewrite len_fix_up; exact La).
  pose proof (c_fresh s C) as Fr. destruct (c_srv s C) as (S1 & S2 & S3).
  assert (HN : ~ In N (map nid l ++ dnids (detached s))).
  { intros H. assert (N < N); [|lia]. apply Fr. rewrite app_assoc. apply in_app_iff. left. exact H. }
  assert (HNdq : ~ In N (downq s)).
  { intros H. assert (N < N); [|lia]. apply Fr. rewrite app_assoc. apply in_app_iff. right. exact H. }
  constructor; cbn [heap downq detached servers next_nid reqs]; fold l N nd l2.
  - rewrite L2. unfold l2. rewrite La. apply okl_add. apply C.
  - eapply Permutation_NoDup; [apply Permutation_app_tail; apply Permutation_map; symmetry; exact P2|].
    cbn [map app nid nd]. constructor; [exact HN|apply C].
  - apply C.
  - eapply cons_perm; [exact P2|]. intros y [<-|Hy]; [|apply (c_cons s C); exact Hy].
    cbn [load nid nd]. rewrite pen_notin by exact HNdq. rewrite out_zero; [lia|].
    intros r Hr. apply HN. apply (c_reqs s C r). exact Hr.
  - apply C.
  - intros r x Hr. apply (c_reqs s C) in Hr. rewrite in_app_iff in *. destruct Hr as [H|H]; [left|right; exact H].
    eapply Permutation_in; [apply Permutation_map; symmetry; exact P2|]. right. exact H.
  - intros x Hx. rewrite !in_app_iff in Hx. destruct Hx as [H|H].
    + apply (Permutation_in _ (Permutation_map nid P2)) in H. destruct H as [<-|H]; [cbn; lia|].
      assert (x < N); [|lia]. apply Fr. apply in_app_iff. left. exact H.
    + assert (x < N); [|lia]. apply Fr. apply in_app_iff. right. apply in_app_iff. exact H.
  - split; [|split].
    + eapply Permutation_NoDup; [apply Permutation_cons_append|]. constructor; assumption.
    + eapply Permutation_NoDup; [apply Permutation_map; symmetry; exact P2|]. cbn [map nep nd].
      constructor; [intros H; apply M; apply S3; exact H|exact S2].
    + intros e. rewrite in_app_iff. cbn [In]. rewrite <- S3. split.
      * intros H. apply (Permutation_in _ (Permutation_map nep P2)) in H. destruct H as [<-|H]; [right; left; reflexivity|left; exact H].
      * intros H. eapply Permutation_in; [apply Permutation_map; symmetry; exact P2|]. cbn [map nep nd].
        destruct H as [H|[<-|[]]]; [right; exact H|left; reflexivity].
Qed.

Lemma core_remove s ep s' ev : Core s -> do_remove_server s ep = (s', ev) -> Core s'.
Proof.
  intros C D. unfold do_remove_server in D.
  destruct (c_srv s C) as (S1 & S2 & S3).
  assert (Sr : NoDup (remz ep (servers s))) by (apply NoDup_filter; exact S1).
  destruct (pos_of_ep (heap s) ep) as [i|] eqn:P.
  - apply pos_of_ep_some in P as [Hi Hep].
    inversion D; subst s' ev. clear D.
    set (l := heap s) in *. set (nd := H_at l i) in *.
    pose proof (okl_remove l l i eq_refl Hi (c_ok s C) (fun p _ _ => eq_refl)) as R. cbn zeta in R.
    set (l4 := if Nat.eqb i (length l) then H_fix_down (H_swap l i (length l)) i (length l - 1)
               else H_fix_up (H_fix_down (H_swap l i (length l)) i (length l - 1)) i) in *.
    destruct R as (R1 & R2 & R3 & R4).
    set (l5 := H_pop l4).
    assert (E5 : l4 = l5 ++ [nd]).
    { unfold l5. rewrite (pop_app l4) at 1 by lia. rewrite R4. fold (H_at l i) in R2. rewrite R2. reflexivity. }
    assert (P5 : Permutation (nd :: l5) l).
    { etransitivity; [apply Permutation_cons_append|]. rewrite <- E5. exact R3. }
    assert (L5 : length l5 = (length l - 1)%nat) by (unfold l5; rewrite len_pop, R4; reflexivity).
    assert (Hndin : In nd l) by (apply in_F; exact Hi).
    assert (Hnep : nep nd = ep) by exact Hep.
    assert (NDe : NoDup (ep :: map nep l5)).
    { rewrite <- Hnep. change (NoDup (map nep (nd :: l5))). eapply Permutation_NoDup; [apply Permutation_map; symmetry; exact P5|exact S2]. }
    constructor; cbn [heap downq detached servers next_nid reqs]; fold l nd l4 l5.
    + rewrite L5. apply okl_pop; [lia|exact R1].
    + cbn [dnids map fst]. eapply Permutation_NoDup; [|apply (c_nodup s C)].
      etransitivity; [apply Permutation_app_tail; apply Permutation_map; symmetry; exact P5|].
      cbn [map app]. apply Permutation_middle.
    + apply C.
    + intros y Hy. apply (c_cons s C). eapply Permutation_in; [exact P5|right; exact Hy].
    + intros x b [E|Hin]; [|apply (c_dcons s C); exact Hin]. inversion E; subst x b.
      rewrite (c_cons s C nd Hndin). unfold pen. reflexivity.
    + intros r x Hr. apply (c_reqs s C) in Hr. rewrite in_app_iff in *. cbn [dnids map fst In].
      destruct Hr as [H|H]; [|right; right; exact H].
      apply (Permutation_in _ (Permutation_map nid (Permutation_sym P5))) in H.
      destruct H as [<-|H]; [right; left; reflexivity|left; exact H].
    + intros x Hx. apply (c_fresh s C). rewrite !in_app_iff in *. cbn [dnids map fst In] in Hx.
      destruct Hx as [H|[[<-|H]|H]].
      * left. eapply Permutation_in; [apply Permutation_map; exact P5|right; exact H].
      * left. apply in_map. exact Hndin.
      * right. left. exact H.
      * right. right. exact H.
    + split; [exact Sr|]. split; [inversion NDe; assumption|].
      intros e. rewrite in_remz, <- S3. split.
      * intros H. split.
        -- eapply Permutation_in; [apply Permutation_map; exact P5|right; exact H].
        -- intros ->. inversion NDe; contradiction.
      * intros [H Hne]. apply (Permutation_in _ (Permutation_map nep (Permutation_sym P5))) in H.
        destruct H as [H|H]; [cbn in H; congruence|exact H].
  - apply pos_of_ep_none in P. inversion D; subst s' ev. clear D.
    constructor; cbn [heap downq detached servers next_nid reqs]; try apply C.
    split; [exact Sr|]. split; [exact S2|]. intros e. rewrite in_remz, <- S3. split; [|intros [H _]; exact H].
    intros H. split; [exact H|]. intros ->. contradiction.
Qed.

Lemma core_notif s nt s' ev : Core s -> do_notif s nt = (s', ev) -> Core s'.
Proof. destruct nt; cbn [do_notif]; [apply core_add|apply core_remove]. Qed.

Lemma core_notifs : forall l s s' ev, Core s -> do_notifs s l = (s', ev) -> Core s'.
Proof.
  induction l as [|nt r IH]; intros s s' ev C D; cbn [do_notifs] in D.
  - inversion D; subst. exact C.
  - destruct (do_notif s nt) as [s1 ev1] eqn:D1. destruct (do_notifs s1 r) as [s2 ev2] eqn:D2.
    inversion D; subst. eapply IH; [|exact D2]. eapply core_notif; eassumption.
Qed.

(* the gate: before the initial list is installed nothing has happened to the heap *)
Definition Gate (s : state) : Prop :=
  if init_done s then blocked s = [] else heap s = [] /\ servers s = [] /\ downq s = [] /\ detached s = [] /\ reqs s = [].

Definition Inv (s : state) : Prop := Core s /\ Gate s.

Lemma core_set_gate s srv d b : Core s -> srv = servers s -> Core (set_gate s srv d b).
Proof. intros C ->. destruct C. constructor; assumption. Qed.

Lemma notif_gate s nt s' ev : do_notif s nt = (s', ev) -> init_done s' = init_done s /\ blocked s' = blocked s.
Proof.
  destruct nt; cbn [do_notif]; unfold do_add_server, do_remove_server.
  - destruct (memz ep (servers s)); intros H; inversion H; subst; split; reflexivity.
  - destruct (pos_of_ep (heap s) ep); intros H; inversion H; subst; split; reflexivity.
Qed.

Lemma notifs_gate : forall l s s' ev, do_notifs s l = (s', ev) -> init_done s' = init_done s /\ blocked s' = blocked s.
Proof.
  induction l as [|nt r IH]; intros s s' ev D; cbn [do_notifs] in D.
  - inversion D; subst. split; reflexivity.
  - destruct (do_notif s nt) as [s1 ev1] eqn:D1. destruct (do_notifs s1 r) as [s2 ev2] eqn:D2.
    inversion D; subst. destruct (notif_gate _ _ _ _ D1) as [A1 A2]. destruct (IH _ _ _ D2) as [B1 B2].
    split; congruence.
Qed.

Lemma init_state_inv s0 : Inv (init_state s0).
Proof.
  split.
  - constructor; unfold init_state; cbn [heap downq detached servers next_nid reqs length map app dnids].
    + intros i Hi. lia.
    + constructor.
    + constructor.
    + intros y [].
    + intros x b [].
    + intros r x [].
    + intros x [].
    + split; [constructor|]. split; [constructor|]. intros ep. split; intros [].
  - unfold Gate, init_state. cbn [init_done heap servers downq detached reqs]. repeat split; reflexivity.
Qed.

Lemma inv_step s lb : Inv s -> Inv (fst (step s lb)).
Proof.
  intros [C G]. destruct lb as [snap|ep|ep| |rid j|x st]; cbn [step].
  - (* Init *)
    unfold do_init. unfold Gate in G. destruct (init_done s) eqn:I; [cbn [fst]; split; [exact C|unfold Gate; rewrite I; exact G]|].
    destruct G as (G1 & G2 & G3 & G4 & G5).
    destruct (do_notifs (set_gate s [] false (blocked s)) (map NJoin snap)) as [s1 ev1] eqn:D1.
    destruct (do_notifs (set_gate s1 (servers s1) true []) (blocked s1)) as [s2 ev2] eqn:D2.
    cbn [fst].
    assert (C0 : Core (set_gate s [] false (blocked s))) by (apply core_set_gate; [exact C|symmetry; exact G2]).
    pose proof (core_notifs _ _ _ _ C0 D1) as C1.
    assert (C1' : Core (set_gate s1 (servers s1) true [])) by (apply core_set_gate; [exact C1|reflexivity]).
    pose proof (core_notifs _ _ _ _ C1' D2) as C2.
    split; [exact C2|]. destruct (notifs_gate _ _ _ _ D2) as [A1 A2]. unfold Gate. rewrite A1. cbn. exact A2.
  - (* Join *)
    unfold do_notify. unfold Gate in G. destruct (init_done s) eqn:I.
    + destruct (do_notif s (NJoin ep)) as [s1 ev] eqn:D. cbn [fst]. split; [eapply core_notif; eassumption|].
      destruct (notif_gate _ _ _ _ D) as [A1 A2]. unfold Gate. rewrite A1, I, A2. exact G.
    + cbn [fst]. split; [apply core_set_gate; [exact C|reflexivity]|]. unfold Gate, set_gate. cbn [init_done heap servers downq detached reqs]. exact G.
  - (* Leave *)
    unfold do_notify. unfold Gate in G. destruct (init_done s) eqn:I.
    + destruct (do_notif s (NLeave ep)) as [s1 ev] eqn:D. cbn [fst]. split; [eapply core_notif; eassumption|].
      destruct (notif_gate _ _ _ _ D) as [A1 A2]. unfold Gate. rewrite A1, I, A2. exact G.
    + cbn [fst]. split; [apply core_set_gate; [exact C|reflexivity]|]. unfold Gate, set_gate. cbn [init_done heap servers downq detached reqs]. exact G.
  - (* Dispatch *)
    destruct (do_dispatch s) as [s1 o] eqn:D. cbn [fst]. split; [eapply core_dispatch; eassumption|].
    unfold do_dispatch in D. unfold Gate in *. destruct (init_done s) eqn:I; cbn [negb] in D; [|inversion D; subst; rewrite I; exact G].
    destruct (heap s); [inversion D; subst; rewrite I; exact G|].
    destruct (get _ _ _ _) as [[[l1 dq1] ev]|]; inversion D; subst; cbn; rewrite ?I; exact G.
  - (* Complete *)
    destruct (do_complete s rid j) as [s1 o] eqn:D. cbn [fst]. split; [eapply core_complete; eassumption|].
    unfold Gate in *. destruct (init_done s) eqn:I.
    + assert (E : init_done s1 = true /\ blocked s1 = blocked s); [|destruct E as [E1 E2]; rewrite E1, E2; exact G].
      unfold do_complete in D. destruct (find_req (reqs s) rid) as [[x [|]]|]; try (inversion D; subst; split; [exact I|reflexivity]).
      unfold do_put in D. cbn [heap set_reqs detached] in D.
      destruct (pos_of_nid (heap s) x).
      * destruct (clamp _) as [v e0].
        destruct ((v =? Idle) && _); [destruct ((1 <=? j) && _)|]; inversion D; subst; cbn; split; (exact I || reflexivity).
      * destruct (put_detached (detached s) x) as [[d' e0]|]; inversion D; subst; cbn; split; (exact I || reflexivity).
    + destruct G as (G1 & G2 & G3 & G4 & G5). unfold do_complete in D. rewrite G5 in D. cbn in D. inversion D; subst.
      rewrite I. repeat split; assumption.
  - (* SetChan *)
    cbn [fst]. split; [destruct C; constructor; assumption|]. unfold Gate in *. cbn. exact G.
Qed.

Theorem inv_run : forall ls s, Inv s -> Inv (run s ls).
Proof.
  induction ls as [|lb r IH]; intros s H; cbn [run]; [exact H|]. apply IH. apply inv_step. exact H.
Qed.

(* ============================================================================================ *)
(* 6. what a dispatch chooses (C03)                                                              *)
(* ============================================================================================ *)

Lemma in_map_nid_node l x : In x (map nid l) -> exists y, In y l /\ nid y = x.
Proof. intros H. apply in_map_iff in H as (y & E & Hy). exists y. split; assumption. Qed.

Lemma dispatch_choice s s' n ep ev :
  Core s -> do_dispatch s = (s', (RSent n ep, ev)) ->
  (exists y, In y (heap s) /\ nid y = n /\ nep y = ep) /\
  (lookup_chan s n = ST_OPEN ->
     forall m, In m (map nid (heap s)) -> lookup_chan s m = ST_OPEN -> out_of (reqs s) n <= out_of (reqs s) m) /\
  (lookup_chan s n <> ST_OPEN ->
     forall m, In m (map nid (heap s)) -> lookup_chan s m = ST_OPEN -> Penalty <= out_of (reqs s) m) /\
  (forall e, In e ev -> exists p, e = EUp p \/ e = EDown p).
Proof.
  intros C D. unfold do_dispatch in D.
  destruct (negb (init_done s)); [inversion D|].
  destruct (heap s) as [|h0 t0] eqn:Eh; [inversion D|]. rewrite <- Eh in *.
  assert (Hlen : (1 <= length (heap s))%nat) by (rewrite Eh; cbn; lia).
  destruct (get (S (length (heap s))) (lookup_chan s) (heap s) (downq s)) as [[[l1 dq1] ev1]|] eqn:G; [|inversion D].
  inversion D; subst n ep ev1. clear D H0.
  destruct (get_spec (reqs s) _ _ _ _ _ _ _ G Hlen (core_HS s C)) as (H1 & P1 & D1 & Q1 & Rt & Ev).
  destruct H1 as (Hok & Hnd & Hdq & Hc).
  assert (L1 : length l1 = length (heap s)) by (apply len_ids; exact P1).
  set (r := H_at l1 1%nat) in *.
  assert (Hr1 : (1 <= 1 <= length l1)%nat) by lia.
  assert (Hrin : In r l1) by (apply in_F; exact Hr1).
  (* every node of the heap has a twin in l1 with the same nid and endpoint *)
  assert (Tw : forall y, In y l1 -> exists z, In z (heap s) /\ nid z = nid y /\ nep z = nep y).
  { intros y Hy. assert (Hi : In (nid y, nep y) (ids (heap s))).
    { eapply Permutation_in; [exact P1|]. unfold ids. apply in_map_iff. exists y. split; [reflexivity|exact Hy]. }
    unfold ids in Hi. apply in_map_iff in Hi as (z & E & Hz). inversion E. exists z. repeat split; assumption. }
  assert (Min : forall y, In y l1 -> load r <= load y).
  { intros y Hy. apply in_pos in Hy as (p & Hp & ->). apply (ok_root_min node load (F l1) (length l1) Hok p Hp). }
  split; [destruct (Tw r Hrin) as (z & Z1 & Z2 & Z3); exists z; repeat split; assumption|].
  split; [|split; [|exact Ev]].
  - intros Hopen m Hm Hmo.
    assert (Hm1 : In m (map nid l1)) by (eapply in_nid_ids; eassumption).
    apply in_map_nid_node in Hm1 as (y & Hy & <-).
    change (lookup_chan s (nid r) = ST_OPEN) in Hopen.
    assert (Hrq : ~ In (nid r) dq1) by (intros H; apply D1 in H as [_ H]; contradiction).
    assert (Hyq : ~ In (nid y) dq1) by (intros H; apply D1 in H as [_ H]; contradiction).
    pose proof (Min y Hy) as Hle. rewrite (Hc r Hrin), (Hc y Hy) in Hle.
    rewrite (pen_notin dq1 _ Hrq), (pen_notin dq1 _ Hyq) in Hle.
    change (out_of (reqs s) (nid r) <= out_of (reqs s) (nid y)). lia.
  - intros Hdown m Hm Hmo.
    assert (Hm1 : In m (map nid l1)) by (eapply in_nid_ids; eassumption).
    apply in_map_nid_node in Hm1 as (y & Hy & <-).
    assert (Hyq : ~ In (nid y) dq1) by (intros H; apply D1 in H as [_ H]; contradiction).
    pose proof (Min y Hy) as Hle. rewrite (Hc y Hy), (pen_notin dq1 _ Hyq) in Hle.
    change (lookup_chan s (nid r) <> ST_OPEN) in Hdown.
    change (lookup_chan s (nid r) = ST_OPEN \/ 0 <= load r) in Rt.
    destruct Rt as [Rt|Rt]; [contradiction|]. pose proof (Min y Hy). unfold Idle, Penalty in *. lia.
Qed.

(* ============================================================================================ *)
(* 7. events: warnings and Close() calls (C04)                                                   *)
(* ============================================================================================ *)

Definition reachable (s : state) : Prop := exists s0 ls, s = run (init_state s0) ls.

Lemma reachable_inv s : reachable s -> Inv s.
Proof. intros (s0 & ls & ->). apply inv_run. apply init_state_inv. Qed.

Lemma reachable_step s lb : reachable s -> reachable (fst (step s lb)).
Proof.
  intros (s0 & ls & ->). exists s0, (ls ++ [lb]).
  generalize (init_state s0) as st.
  induction ls as [|a r IH]; intros st; cbn [run app]; [reflexivity|apply IH].
Qed.

Lemma dispatch_events s s' res ev : Core s -> do_dispatch s = (s', (res, ev)) ->
  forall e, In e ev -> exists p, e = EUp p \/ e = EDown p.
Proof.
  intros C D. destruct res; try (unfold do_dispatch in D; destruct (negb (init_done s)); [inversion D; subst; intros e []|];
    destruct (heap s); [inversion D; subst; intros e []|];
    destruct (get _ _ _ _) as [[[l1 dq1] ev1]|]; inversion D; subst; intros e []).
  eapply dispatch_choice; eassumption.
Qed.

(* Close() at removal: at once iff the node is idle or penalised *)
Lemma remove_events s ep s' ev : Core s -> do_remove_server s ep = (s', ev) ->
  (~ In ep (map nep (heap s)) -> ev = [] /\ detached s' = detached s) /\
  (forall y, In y (heap s) -> nep y = ep ->
     detached s' = (y, memz (nid y) (downq s)) :: detached s /\
     ev = if (out_of (reqs s) (nid y) =? 0) && negb (memz (nid y) (downq s))
             || memz (nid y) (downq s) || (Penalty <=? out_of (reqs s) (nid y))
          then [EClose (nid y)] else []).
Proof.
  intros C D. unfold do_remove_server in D. destruct (c_srv s C) as (S1 & S2 & S3).
  destruct (pos_of_ep (heap s) ep) as [i|] eqn:P.
  - apply pos_of_ep_some in P as [Hi Hep]. inversion D; subst s' ev. clear D. cbn [detached].
    split; [intros H; exfalso; apply H; rewrite <- Hep; apply in_map; apply in_F; exact Hi|].
    intros y Hy Hyep.
    assert (E : y = H_at (heap s) i).
    { apply in_pos in Hy as (p & Hp & ->). unfold H_at. f_equal.
      destruct p as [|p]; [lia|]. destruct i as [|i]; [lia|]. f_equal. cbn [to_fun] in *.
      rewrite NoDup_nth with (d := nep dummy) in S2. apply S2; rewrite ?map_length; try lia.
      rewrite !map_nth. congruence. }
    rewrite <- E. split; [reflexivity|].
    rewrite (c_cons s C y Hy). unfold pen. pose proof (out_nonneg (reqs s) (nid y)) as Ho.
    destruct (memz (nid y) (downq s)); unfold Idle, Penalty in *.
    + replace (0 <=? -2147483647 + out_of (reqs s) (nid y) + 2147483647) with true by lia.
      rewrite orb_true_r. cbn [orb andb negb]. rewrite orb_true_r. reflexivity.
    + cbn [negb]. rewrite andb_true_r, orb_false_r.
      destruct (Z.eqb_spec (out_of (reqs s) (nid y)) 0) as [E0|E0].
      * rewrite E0. reflexivity.
      * replace (-2147483647 + out_of (reqs s) (nid y) + 0 =? -2147483647) with false by lia.
        cbn [orb]. destruct (Z.leb_spec 2147483647 (out_of (reqs s) (nid y)));
          [replace (0 <=? -2147483647 + out_of (reqs s) (nid y) + 0) with true by lia
          |replace (0 <=? -2147483647 + out_of (reqs s) (nid y) + 0) with false by lia]; reflexivity.
  - apply pos_of_ep_none in P. inversion D; subst s' ev. clear D. cbn [detached].
    split; [intros _; split; reflexivity|]. intros y Hy Hyep. exfalso. apply P. rewrite <- Hyep. apply in_map. exact Hy.
Qed.

Lemma add_events s ep s' ev : do_add_server s ep = (s', ev) ->
  detached s' = detached s /\ forall e, In e ev -> e = ECreate (next_nid s) ep.
Proof.
  unfold do_add_server. destruct (memz ep (servers s)); intros D; inversion D; subst; cbn [detached].
  - split; [reflexivity|intros e []].
  - split; [reflexivity|]. intros e [<-|[]]. reflexivity.
Qed.

Lemma dnids_unique d a b a' b' : NoDup (dnids d) -> In (a, b) d -> In (a', b') d -> nid a = nid a' -> (a, b) = (a', b').
Proof.
  induction d as [|[y c] t IH]; intros ND H1 H2 E; [destruct H1|].
  cbn [dnids map fst] in ND. inversion ND as [|? ? Hn ND']; subst.
  destruct H1 as [H1|H1]; destruct H2 as [H2|H2].
  - congruence.
  - exfalso. apply Hn. inversion H1; subst. rewrite E. eapply in_dnids. exact H2.
  - exfalso. apply Hn. inversion H2; subst. rewrite <- E. eapply in_dnids. exact H1.
  - apply IH; assumption.
Qed.

(* Close() at completion: exactly when the last outstanding request of a departed, unpenalised node completes *)
Lemma put_events s rid x j s' res ev :
  Core s -> find_req (reqs s) rid = Some (x, false) ->
  do_put (set_reqs s (mark_done (reqs s) rid)) x j = (s', (res, ev)) ->
  (In x (map nid (heap s)) -> ev = [] /\ detached s' = detached s) /\
  (forall nd b, In (nd, b) (detached s) -> nid nd = x ->
     res = RPut false /\ dnids (detached s') = dnids (detached s) /\
     ev = if (out_of (reqs s) x =? 1) && negb b then [EClose x] else []).
Proof.
  intros C Fr D.
  pose proof (find_req_in _ _ _ _ Fr) as Hin.
  pose proof (out_pos _ _ _ Hin) as Hpos.
  destruct (core_HS s C) as (Hok & Hnd & Hdq & Hc).
  unfold do_put in D. cbn [heap set_reqs detached] in D.
  destruct (pos_of_nid (heap s) x) as [i|] eqn:P.
  - apply pos_of_nid_some in P as [Hi Hx]. split.
    + intros _.
      assert (Hload : load (H_at (heap s) i) = Idle + out_of (reqs s) x + pen (downq s) x).
      { unfold H_at. rewrite (Hc _ (in_F _ _ Hi)). rewrite Hx. reflexivity. }
      pose proof (pen_nonneg (downq s) x) as Hpen.
      rewrite (clamp_ge (load (H_at (heap s) i) - 1)) in D by lia.
      destruct ((load (H_at (heap s) i) - 1 =? Idle) && _); [destruct ((1 <=? j) && _)|];
        inversion D; subst; cbn [detached set_heap set_reqs]; split; reflexivity.
    + intros nd b Hd Hn. exfalso. eapply (nodup_disj _ _ x (c_nodup s C)).
      * rewrite <- Hx. apply nid_F_in. exact Hi.
      * rewrite <- Hn. eapply in_dnids. exact Hd.
  - apply pos_of_nid_none in P. split; [intros H; contradiction|].
    intros nd b Hd Hn.
    destruct (put_detached (detached s) x) as [[d' ev']|] eqn:Pd.
    + inversion D; subst s' res ev. clear D. cbn [detached set_detached].
      assert (NDd : NoDup (dnids (detached s))).
      { pose proof (c_nodup s C) as H. apply nodup_app_r in H. exact H. }
      destruct (put_detached_spec _ _ _ _ Pd NDd) as (E1 & nd1 & b1 & I1 & I2 & I3 & I4).
      (* the entry with nid x is unique *)
      assert (E : (nd1, b1) = (nd, b)).
      { eapply dnids_unique; try eassumption. congruence. }
      inversion E; subst nd1 b1.
      pose proof (c_dcons s C nd b Hd) as Hload. rewrite Hn in Hload.
      assert (Hb : 0 <= (if b then Penalty else 0)) by (unfold Penalty; destruct b; lia).
      rewrite (clamp_ge (load nd - 1)) in I3 by lia. cbn [fst snd app] in I3.
      split; [reflexivity|]. split; [exact E1|]. rewrite I3.
      destruct b; unfold Idle, Penalty in *; cbn [negb].
      * rewrite andb_false_r. replace (load nd - 1 =? -2147483647) with false by lia. reflexivity.
      * rewrite andb_true_r. destruct (Z.eqb_spec (out_of (reqs s) x) 1);
          [replace (load nd - 1 =? -2147483647) with true by lia|replace (load nd - 1 =? -2147483647) with false by lia]; reflexivity.
    + exfalso. eapply put_detached_none; [exact Pd|]. rewrite <- Hn. eapply in_dnids. exact Hd.
Qed.

(* ============================================================================================ *)
(* 8. __Get terminates: every iteration that does not return marks one more node down            *)
(* ============================================================================================ *)

Definition markable (chan : Z -> Z) (y : node) : bool := (load y <? 0) && negb (chan (nid y) =? ST_OPEN).
Definition cnt (chan : Z -> Z) (l : list node) : nat := length (filter (markable chan) l).

Lemma cnt_perm chan l l' : Permutation l l' -> cnt chan l = cnt chan l'.
Proof.
  unfold cnt. induction 1 as [|x l l' P IH|x y l|l l' l'' P1 IH1 P2 IH2]; cbn [filter].
  - reflexivity.
  - destruct (markable chan x); cbn [length]; congruence.
  - destruct (markable chan x); destruct (markable chan y); reflexivity.
  - congruence.
Qed.

Lemma cnt_le chan l : (cnt chan l <= length l)%nat.
Proof. unfold cnt. induction l as [|x l IH]; cbn [filter length]; [lia|]. destruct (markable chan x); cbn [length]; lia. Qed.

Lemma cnt_app chan a y b : cnt chan (a ++ y :: b) = (cnt chan a + (if markable chan y then 1 else 0) + cnt chan b)%nat.
Proof. unfold cnt. rewrite filter_app, app_length. cbn [filter]. destruct (markable chan y); cbn [length]; lia. Qed.

Lemma set_load_split l i v : (1 <= i <= length l)%nat ->
  exists a b, l = a ++ F l i :: b /\ H_set_load l i v = a ++ set_load (F l i) v :: b.
Proof.
  intros Hi. destruct i as [|k]; [lia|].
  destruct (nth_split l dummy (n := k)) as (a & b & E & La); [lia|].
  exists a, b. cbn [to_fun]. split; [exact E|].
  set (x := nth k l dummy) in *. set (c := set_load x v).
  assert (Lc : length (a ++ c :: b) = length l) by (rewrite E, !app_length; reflexivity).
  rewrite <- (of_fun_to_fun node dummy (a ++ c :: b)). rewrite Lc. unfold H_set_load.
  apply of_fun_ext. intros p Hp. unfold upd. destruct p as [|q]; [lia|]. cbn [to_fun]. fold x. fold c.
  destruct (Nat.eqb_spec (S q) (S k)) as [Eq|Ne].
  - inversion Eq; subst q. rewrite app_nth2 by lia. rewrite La, Nat.sub_diag. reflexivity.
  - rewrite E. destruct (Nat.lt_ge_cases q (length a)).
    + rewrite !app_nth1 by lia. reflexivity.
    + rewrite !app_nth2 by lia. destruct (q - length a)%nat as [|m] eqn:Em; [lia|reflexivity].
Qed.

Lemma cnt_set_load chan l i v : (1 <= i <= length l)%nat ->
  (cnt chan (H_set_load l i v) + (if markable chan (F l i) then 1 else 0) =
   cnt chan l + (if markable chan (set_load (F l i) v) then 1 else 0))%nat.
Proof.
  intros Hi. destruct (set_load_split l i v Hi) as (a & b & E1 & E2).
  rewrite E2. rewrite E1 at 3. rewrite !cnt_app. lia.
Qed.

Lemma walk_cnt chan : forall dq l l' dq' ev, walk chan l dq = (l', dq', ev) -> cnt chan l' = cnt chan l.
Proof.
  induction dq as [|x r IH]; intros l l' dq' ev W; cbn [walk] in W; [inversion W; reflexivity|].
  destruct (pos_of_nid l x) as [i|] eqn:P; [|eapply IH; exact W].
  apply pos_of_nid_some in P as [Hi Hx].
  destruct (chan x =? ST_OPEN) eqn:C.
  - destruct (walk chan _ r) as [[l2 r'] ev'] eqn:W1. inversion W; subst l' dq' ev. rewrite (IH _ _ _ _ W1).
    assert (Pf : Permutation (H_fix_up (H_set_load l i (load (H_at l i) - Penalty)) i) (H_set_load l i (load (H_at l i) - Penalty))) by (apply perm_fix_up; rewrite len_set_load; exact Hi).
    rewrite (cnt_perm chan _ _ Pf).
    pose proof (cnt_set_load chan l i (load (H_at l i) - Penalty) Hi) as E.
    unfold markable in E. cbn [set_load nid] in E. rewrite Hx, C in E. cbn [negb] in E. rewrite !andb_false_r in E. lia.
  - destruct (walk chan l r) as [[l2 r'] ev'] eqn:W1. inversion W; subst l' dq' ev. eapply IH. exact W1.
Qed.

Lemma mark_down_HS rs l1 dq1 :
  HS rs l1 dq1 -> (1 <= length l1)%nat ->
  let r := H_at l1 1%nat in
  load r < 0 ->
  HS rs (H_fix_down (H_set_load l1 1%nat (load r + Penalty)) 1%nat (length l1)) (nid r :: dq1) /\
  0 <= load r + Penalty /\ ~ In (nid r) dq1.
Proof.
  intros (Hok & Hnd & Hdq & Hc) Hlen r Hrneg.
  assert (Hr1 : (1 <= 1 <= length l1)%nat) by lia.
  assert (Hrin : In r l1) by (apply in_F; exact Hr1).
  assert (Hrdq : ~ In (nid r) dq1).
  { intros Hin. rewrite (Hc r Hrin) in Hrneg. rewrite (pen_in dq1 _ Hin) in Hrneg.
    pose proof (out_nonneg rs (nid r)). unfold Idle, Penalty in Hrneg. lia. }
  set (l2 := H_fix_down (H_set_load l1 1%nat (load r + Penalty)) 1%nat (length l1)).
  assert (P2 : Permutation (ids l2) (ids l1)) by (apply ids_fix_down_set; lia).
  assert (L2 : length l2 = length l1) by (apply len_ids; exact P2).
  split; [|split; [|exact Hrdq]].
  - repeat split.
    + rewrite L2. apply okl_set_down; [lia|exact Hok|]. fold (H_at l1 1%nat). fold r. unfold Penalty. lia.
    + eapply nodup_ids; eassumption.
    + constructor; assumption.
    + eapply cons_perm; [apply perm_fix_down; [lia|rewrite len_set_load; lia]|].
      eapply cons_set_load; try eassumption.
      * intros y Hy. split; [reflexivity|]. apply pen_cons_ne. exact Hy.
      * fold (H_at l1 1%nat). fold r. rewrite (Hc r Hrin). rewrite (pen_notin dq1 _ Hrdq).
        rewrite (pen_in (nid r :: dq1) (nid r)) by (left; reflexivity). lia.
  - pose proof (cons_ge_idle rs dq1 l1 r Hc Hrin). unfold Idle, Penalty in *. lia.
Qed.

Lemma get_none_cnt rs chan : forall fuel l dq,
  HS rs l dq -> (1 <= length l)%nat -> get fuel chan l dq = None -> (fuel <= cnt chan l)%nat.
Proof.
  induction fuel as [|fu IH]; intros l dq H Hlen G; [lia|].
  cbn [get] in G. destruct (walk chan l dq) as [[l1 dq1] ev1] eqn:W.
  destruct (walk_spec rs chan dq [] l l1 dq1 ev1 W H) as (H1 & P1 & _ & _). cbn [app] in H1.
  assert (L1 : length l1 = length l) by (apply len_ids; exact P1).
  rewrite <- (walk_cnt chan _ _ _ _ _ W).
  destruct ((chan (nid (H_at l1 1%nat)) =? ST_OPEN) || (0 <=? load (H_at l1 1%nat))) eqn:C; [discriminate|].
  set (r := H_at l1 1%nat) in *.
  assert (Hneg : load r < 0) by lia.
  assert (Hl1 : (1 <= length l1)%nat) by lia.
  destruct (mark_down_HS rs l1 dq1 H1 Hl1 Hneg) as (H2 & Hge & _). fold r in H2, Hge.
  set (l2 := H_fix_down (H_set_load l1 1%nat (load r + Penalty)) 1%nat (length l1)) in *.
  destruct (get fu chan l2 (nid r :: dq1)) as [[[l3 dq3] ev3]|] eqn:G2; [discriminate|].
  assert (L2 : length l2 = length l1) by (unfold l2; rewrite len_fix_down, len_set_load; reflexivity).
  pose proof (IH l2 (nid r :: dq1) H2 ltac:(lia) G2) as Hfu.
  assert (Pf : Permutation l2 (H_set_load l1 1%nat (load r + Penalty))) by (apply perm_fix_down; [lia|rewrite len_set_load; lia]).
  rewrite (cnt_perm chan _ _ Pf) in Hfu.
  pose proof (cnt_set_load chan l1 1%nat (load r + Penalty) ltac:(lia)) as E.
  fold (H_at l1 1%nat) in E. fold r in E. unfold markable in E. cbn [set_load load nid] in E.
  replace (load r + Penalty <? 0) with false in E by lia.
  replace (load r <? 0) with true in E by lia.
  replace (chan (nid r) =? ST_OPEN) with false in E by lia. cbn [negb andb] in E. lia.
Qed.

Lemma dispatch_not_stuck s : Core s -> fst (snd (do_dispatch s)) <> RStuck.
Proof.
  intros C. unfold do_dispatch. destruct (negb (init_done s)); [discriminate|].
  destruct (heap s) as [|h0 t0] eqn:Eh; [discriminate|]. rewrite <- Eh.
  assert (Hlen : (1 <= length (heap s))%nat) by (rewrite Eh; cbn; lia).
  destruct (get (S (length (heap s))) (lookup_chan s) (heap s) (downq s)) as [[[l1 dq1] ev]|] eqn:G; [discriminate|].
  exfalso. pose proof (get_none_cnt (reqs s) _ _ _ _ (core_HS s C) Hlen G).
  pose proof (cnt_le (lookup_chan s) (heap s)). lia.
Qed.

Lemma out_le_len rs m : out_of rs m <= Z.of_nat (length rs).
Proof.
  unfold out_of. induction rs as [|r t IH]; cbn [filter length]; [lia|].
  destruct (undone m r); cbn [length]; lia.
Qed.

(* ============================================================================================ *)
(* 9. shapes of event lists, departed nodes stay departed                                        *)
(* ============================================================================================ *)

Definition membership_event (e : event) : Prop := (exists n ep, e = ECreate n ep) \/ (exists n, e = EClose n).

Lemma notif_ev_shape s nt s' ev : do_notif s nt = (s', ev) -> forall e, In e ev -> membership_event e.
Proof.
  destruct nt; cbn [do_notif].
  - intros D e He. destruct (add_events _ _ _ _ D) as [_ H]. left. eexists. eexists. apply H. exact He.
  - unfold do_remove_server. destruct (pos_of_ep (heap s) ep); intros D; inversion D; subst; [|intros e []].
    destruct ((load _ =? Idle) || _); intros e; [intros [<-|[]]; right; eexists; reflexivity|intros []].
Qed.

Lemma notifs_ev_shape : forall l s s' ev, do_notifs s l = (s', ev) -> forall e, In e ev -> membership_event e.
Proof.
  induction l as [|nt r IH]; intros s s' ev D; cbn [do_notifs] in D; [inversion D; intros e []|].
  destruct (do_notif s nt) as [s1 ev1] eqn:D1. destruct (do_notifs s1 r) as [s2 ev2] eqn:D2.
  inversion D; subst. intros e He. apply in_app_iff in He as [He|He].
  - eapply notif_ev_shape; eassumption.
  - eapply IH; eassumption.
Qed.

Lemma step_no_warn s lb : Inv s -> ~ In EWarn (snd (snd (step s lb))).
Proof.
  intros [C G]. assert (Hm : forall e, membership_event e -> e <> EWarn).
  { intros e [(n & ep & ->)|(n & ->)]; discriminate. }
  destruct lb as [snap|ep|ep| |rid j|x st]; cbn [step].
  - unfold do_init. destruct (init_done s); [intros []|].
    destruct (do_notifs _ (map NJoin snap)) as [s1 ev1] eqn:D1.
    destruct (do_notifs _ (blocked s1)) as [s2 ev2] eqn:D2. cbn [snd]. intros H. apply in_app_iff in H as [H|H].
    + eapply Hm; [eapply notifs_ev_shape; [exact D1|exact H]|reflexivity].
    + eapply Hm; [eapply notifs_ev_shape; [exact D2|exact H]|reflexivity].
  - unfold do_notify. destruct (init_done s); [|intros []].
    destruct (do_notif s (NJoin ep)) as [s1 ev] eqn:D. cbn [snd]. intros H.
    eapply Hm; [eapply notif_ev_shape; [exact D|exact H]|reflexivity].
  - unfold do_notify. destruct (init_done s); [|intros []].
    destruct (do_notif s (NLeave ep)) as [s1 ev] eqn:D. cbn [snd]. intros H.
    eapply Hm; [eapply notif_ev_shape; [exact D|exact H]|reflexivity].
  - destruct (do_dispatch s) as [s1 [res ev]] eqn:D. cbn [snd]. intros H.
    destruct (dispatch_events s s1 res ev C D _ H) as (p & [E|E]); discriminate.
  - unfold do_complete. destruct (find_req (reqs s) rid) as [[x [|]]|] eqn:Fr; try (intros []).
    destruct (do_put _ x j) as [s1 [res ev]] eqn:P.
    destruct res; cbn [snd]; try (intros []);
      (refine (proj2 (proj2 (core_put s rid x j _ _ _ C Fr P _))); discriminate).
  - intros [].
Qed.

Lemma notif_detached s nt s' ev n : do_notif s nt = (s', ev) ->
  In n (dnids (detached s)) -> In n (dnids (detached s')).
Proof.
  destruct nt; cbn [do_notif].
  - intros D. destruct (add_events _ _ _ _ D) as [E _]. rewrite E. auto.
  - unfold do_remove_server. destruct (pos_of_ep (heap s) ep); intros D; inversion D; subst; cbn [detached dnids map]; auto.
    intros H. right. exact H.
Qed.

Lemma notifs_detached : forall l s s' ev n, do_notifs s l = (s', ev) ->
  In n (dnids (detached s)) -> In n (dnids (detached s')).
Proof.
  induction l as [|nt r IH]; intros s s' ev n D; cbn [do_notifs] in D; [inversion D; subst; auto|].
  destruct (do_notif s nt) as [s1 ev1] eqn:D1. destruct (do_notifs s1 r) as [s2 ev2] eqn:D2.
  inversion D; subst. intros H. eapply IH; [exact D2|]. eapply notif_detached; eassumption.
Qed.

Lemma step_detached s lb n : Inv s -> In n (dnids (detached s)) -> In n (dnids (detached (fst (step s lb)))).
Proof.
  intros [C G] H. destruct lb as [snap|ep|ep| |rid j|x st]; cbn [step].
  - unfold do_init. destruct (init_done s); [exact H|].
    destruct (do_notifs _ (map NJoin snap)) as [s1 ev1] eqn:D1.
    destruct (do_notifs _ (blocked s1)) as [s2 ev2] eqn:D2. cbn [fst].
    eapply notifs_detached; [exact D2|]. cbn [set_gate detached].
    eapply notifs_detached; [exact D1|]. exact H.
  - unfold do_notify. destruct (init_done s); [|exact H].
    destruct (do_notif s (NJoin ep)) as [s1 ev] eqn:D. cbn [fst]. eapply notif_detached; eassumption.
  - unfold do_notify. destruct (init_done s); [|exact H].
    destruct (do_notif s (NLeave ep)) as [s1 ev] eqn:D. cbn [fst]. eapply notif_detached; eassumption.
  - unfold do_dispatch. destruct (negb (init_done s)); [exact H|]. destruct (heap s); [exact H|].
    destruct (get _ _ _ _) as [[[l1 dq1] ev]|]; exact H.
  - unfold do_complete. destruct (find_req (reqs s) rid) as [[x [|]]|] eqn:Fr; try exact H.
    destruct (do_put _ x j) as [s1 [res ev]] eqn:P.
    assert (E : dnids (detached s1) = dnids (detached s)).
    { destruct (put_events s rid x j s1 res ev C Fr P) as [E1 E2].
      pose proof (c_reqs s C _ _ (find_req_in _ _ _ _ Fr)) as Hk. apply in_app_iff in Hk as [Hk|Hk].
      - destruct (E1 Hk) as [_ ->]. reflexivity.
      - unfold dnids in Hk. apply in_map_iff in Hk as ([nd b] & En & Hd). cbn [fst] in En.
        destruct (E2 nd b Hd En) as (_ & E & _). exact E. }
    destruct res; cbn [fst]; try exact H; rewrite E; exact H.
  - exact H.
Qed.

Lemma run_detached : forall ls s n, Inv s -> In n (dnids (detached s)) -> In n (dnids (detached (run s ls))).
Proof.
  induction ls as [|lb r IH]; intros s n I H; cbn [run]; [exact H|].
  apply IH; [apply inv_step; exact I|apply step_detached; assumption].
Qed.

Lemma find_req_mark_done rs rid x d : find_req rs rid = Some (x, d) -> find_req (mark_done rs rid) rid = Some (x, true).
Proof.
  induction rs as [|[[r y] e] t IH]; cbn [find_req mark_done]; [discriminate|].
  destruct (Z.eqb_spec r rid) as [->|Hne]; intros E.
  - inversion E; subst. cbn [find_req]. rewrite Z.eqb_refl. reflexivity.
  - cbn [find_req]. destruct (Z.eqb_spec r rid); [contradiction|]. apply IH. exact E.
Qed.

Lemma complete_marks s rid j s' b ev : do_complete s rid j = (s', (RPut b, ev)) ->
  exists x, find_req (reqs s) rid = Some (x, false) /\ find_req (reqs s') rid = Some (x, true).
Proof.
  unfold do_complete. destruct (find_req (reqs s) rid) as [[x [|]]|] eqn:Fr; try solve [intros D0; inversion D0].
  destruct (do_put _ x j) as [s1 [res ev1]] eqn:P. intros D.
  assert (E : reqs s1 = mark_done (reqs s) rid).
  { unfold do_put in P. cbn [heap set_reqs detached] in P. destruct (pos_of_nid (heap s) x).
    - destruct (clamp _) as [v e0]. destruct ((v =? Idle) && _); [destruct ((1 <=? j) && _)|]; inversion P; reflexivity.
    - destruct (put_detached (detached s) x) as [[d' e0]|]; inversion P; reflexivity. }
  destruct res; inversion D; subst. exists x. split; [reflexivity|]. rewrite E. eapply find_req_mark_done. exact Fr.
Qed.

(* ============================================================================================ *)
(* 10. membership against the abstract server set (C05)                                          *)
(* ============================================================================================ *)

(* the server set as a finite set (list up to membership) folded over the notifications *)
Definition set_apply (m : list Z) (nt : notif) : list Z :=
  match nt with NJoin ep => ep :: m | NLeave ep => remz ep m end.

Record mspec := mkSpec { sp_ready : bool; sp_set : list Z; sp_pending : list notif }.

Definition spec_step (m : mspec) (lb : label) : mspec :=
  match lb with
  | Init snap => if sp_ready m then m else mkSpec true (fold_left set_apply (sp_pending m) snap) []
  | Join ep => if sp_ready m then mkSpec true (ep :: sp_set m) []
               else mkSpec false (sp_set m) (sp_pending m ++ [NJoin ep])
  | Leave ep => if sp_ready m then mkSpec true (remz ep (sp_set m)) []
                else mkSpec false (sp_set m) (sp_pending m ++ [NLeave ep])
  | _ => m
  end.

Fixpoint spec_run (m : mspec) (ls : list label) : mspec :=
  match ls with [] => m | lb :: r => spec_run (spec_step m lb) r end.

Definition spec0 : mspec := mkSpec false [] [].

Lemma servers_add s ep s' ev : do_add_server s ep = (s', ev) ->
  forall e, In e (servers s') <-> e = ep \/ In e (servers s).
Proof.
  unfold do_add_server. destruct (memz ep (servers s)) eqn:M; intros D; inversion D; subst; cbn [servers]; intros e.
  - apply memz_in in M. split; [intros H; right; exact H|intros [->|H]; assumption].
  - rewrite in_app_iff. cbn [In]. split; [intros [H|[<-|[]]]; [right|left]; auto|intros [->|H]; [right; left; reflexivity|left; exact H]].
Qed.

Lemma servers_remove s ep s' ev : do_remove_server s ep = (s', ev) ->
  forall e, In e (servers s') <-> In e (servers s) /\ e <> ep.
Proof.
  unfold do_remove_server. destruct (pos_of_ep (heap s) ep); intros D; inversion D; subst; cbn [servers]; intros e; apply in_remz.
Qed.

Lemma servers_notif s nt s' ev m : do_notif s nt = (s', ev) ->
  (forall e, In e (servers s) <-> In e m) -> forall e, In e (servers s') <-> In e (set_apply m nt).
Proof.
  intros D H e. destruct nt; cbn [do_notif set_apply] in *.
  - rewrite (servers_add _ _ _ _ D e). cbn [In]. rewrite H. split; intros [A|A]; auto.
  - rewrite (servers_remove _ _ _ _ D e). rewrite in_remz, H. reflexivity.
Qed.

Lemma servers_notifs : forall l s s' ev m, do_notifs s l = (s', ev) ->
  (forall e, In e (servers s) <-> In e m) -> forall e, In e (servers s') <-> In e (fold_left set_apply l m).
Proof.
  induction l as [|nt r IH]; intros s s' ev m D H; cbn [do_notifs fold_left] in *.
  - inversion D; subst. exact H.
  - destruct (do_notif s nt) as [s1 ev1] eqn:D1. destruct (do_notifs s1 r) as [s2 ev2] eqn:D2.
    inversion D; subst. eapply IH; [exact D2|]. eapply servers_notif; eassumption.
Qed.

Definition Sim (s : state) (m : mspec) : Prop :=
  init_done s = sp_ready m /\ blocked s = sp_pending m /\
  (sp_ready m = true -> sp_pending m = [] /\ forall e, In e (servers s) <-> In e (sp_set m)).

Lemma fold_joins : forall (l acc : list Z) e,
  In e (fold_left set_apply (map NJoin l) acc) <-> In e l \/ In e acc.
Proof.
  induction l as [|a l IHl]; intros acc e; cbn [map fold_left set_apply]; [cbn [In]; tauto|].
  rewrite IHl. cbn [In]. tauto.
Qed.

Lemma sim_same s s' m : Sim s m -> init_done s' = init_done s -> blocked s' = blocked s -> servers s' = servers s -> Sim s' m.
Proof. intros (S1 & S2 & S3) E1 E2 E3. unfold Sim. rewrite E1, E2, E3. split; [exact S1|]. split; [exact S2|exact S3]. Qed.

Lemma sim_step s m lb : Sim s m -> Sim (fst (step s lb)) (spec_step m lb).
Proof.
  intros S. pose proof S as (S1 & S2 & S3). destruct lb as [snap|ep|ep| |rid j|x st]; cbn [step spec_step].
  - unfold do_init. rewrite S1. destruct (sp_ready m) eqn:R; [cbn [fst]; exact S|].
    destruct (do_notifs _ (map NJoin snap)) as [s1 ev1] eqn:D1.
    destruct (do_notifs _ (blocked s1)) as [s2 ev2] eqn:D2. cbn [fst].
    destruct (notifs_gate _ _ _ _ D1) as [A1 A2]. destruct (notifs_gate _ _ _ _ D2) as [B1 B2].
    cbn [set_gate init_done blocked] in A1, A2, B1, B2.
    unfold Sim. cbn [sp_ready sp_set sp_pending]. split; [exact B1|]. split; [exact B2|]. intros _. split; [reflexivity|].
    assert (H0 : forall e, In e (servers s1) <-> In e (fold_left set_apply (map NJoin snap) [])).
    { apply (servers_notifs _ _ _ _ _ D1). cbn [set_gate servers]. intros e'. reflexivity. }
    rewrite <- S2, <- A2. apply (servers_notifs _ _ _ _ snap D2). cbn [set_gate servers]. intros e.
    rewrite H0, fold_joins. cbn [In]. tauto.
  - unfold do_notify. rewrite S1. destruct (sp_ready m) eqn:R.
    + destruct (do_notif s (NJoin ep)) as [s1 ev] eqn:D. cbn [fst]. destruct (notif_gate _ _ _ _ D) as [A1 A2].
      destruct (S3 eq_refl) as [P1 P2].
      unfold Sim. cbn [sp_ready sp_set sp_pending]. split; [congruence|]. split; [congruence|]. intros _. split; [reflexivity|].
      apply (servers_notif _ _ _ _ _ D P2).
    + cbn [fst]. unfold Sim. cbn [set_gate init_done blocked servers sp_ready sp_pending sp_set].
      split; [congruence|]. split; [congruence|discriminate].
  - unfold do_notify. rewrite S1. destruct (sp_ready m) eqn:R.
    + destruct (do_notif s (NLeave ep)) as [s1 ev] eqn:D. cbn [fst]. destruct (notif_gate _ _ _ _ D) as [A1 A2].
      destruct (S3 eq_refl) as [P1 P2].
      unfold Sim. cbn [sp_ready sp_set sp_pending]. split; [congruence|]. split; [congruence|]. intros _. split; [reflexivity|].
      apply (servers_notif _ _ _ _ _ D P2).
    + cbn [fst]. unfold Sim. cbn [set_gate init_done blocked servers sp_ready sp_pending sp_set].
      split; [congruence|]. split; [congruence|discriminate].
  - apply (sim_same s _ m S); unfold do_dispatch; destruct (negb (init_done s)); try reflexivity;
      destruct (heap s); try reflexivity; destruct (get _ _ _ _) as [[[l1 dq1] ev]|]; reflexivity.
  - assert (E : init_done (fst (do_complete s rid j)) = init_done s /\ blocked (fst (do_complete s rid j)) = blocked s /\ servers (fst (do_complete s rid j)) = servers s).
    { unfold do_complete. destruct (find_req (reqs s) rid) as [[x [|]]|]; try (split; [|split]; reflexivity).
      destruct (do_put _ x j) as [s1 [res ev]] eqn:P.
      assert (E : init_done s1 = init_done s /\ blocked s1 = blocked s /\ servers s1 = servers s).
      { unfold do_put in P. cbn [heap set_reqs detached] in P. destruct (pos_of_nid (heap s) x).
        - destruct (clamp _) as [v e0]. destruct ((v =? Idle) && _); [destruct ((1 <=? j) && _)|]; inversion P; (split; [|split]; reflexivity).
        - destruct (put_detached (detached s) x) as [[d' e0]|]; inversion P; (split; [|split]; reflexivity). }
      destruct res; cbn [fst]; try exact E; (split; [|split]; reflexivity). }
    destruct E as (E1 & E2 & E3). apply (sim_same s _ m S); assumption.
  - apply (sim_same s _ m S); reflexivity.
Qed.

Lemma sim_run : forall ls s m, Sim s m -> Sim (run s ls) (spec_run m ls).
Proof.
  induction ls as [|lb r IH]; intros s m H; cbn [run spec_run]; [exact H|]. apply IH. apply sim_step. exact H.
Qed.

Lemma sim_init s0 : Sim (init_state s0) spec0.
Proof. unfold Sim. cbn. split; [reflexivity|]. split; [reflexivity|discriminate]. Qed.
