(* Invariants of the balancer model (Model/Balancer.v), by induction over all label sequences. *)
From Coq Require Import ZArith List Bool Lia Arith PeanoNat Permutation.
From Coq Require Import ZifyBool ZifyNat.
From Scales Require Import Model.Base Model.Heap Model.Balancer Proofs.HeapP.
Ltac Zify.zify_post_hook ::= Z.div_mod_to_equations.
Import ListNotations.
Local Open Scope Z_scope.

(* ============================================================================================ *)
(* 1. the list wrappers of the heap primitives                                                   *)
(* ============================================================================================ *)
Notation F l := (to_fun dummy l).
Definition okl (l : list node) (m : nat) : Prop := ok load (F l) m.
Definition ids (l : list node) : list (Z * Z) := map (fun x => (nid x, nep x)) l.

Lemma F_of_fun g n i : (1 <= i <= n)%nat -> F (of_fun g n) i = g i.
Proof. intros H. apply to_fun_of_fun. exact H. Qed.

Lemma len_set_load l i v : length (H_set_load l i v) = length l.
Proof. apply of_fun_length. Qed.
Lemma len_swap l i j : length (H_swap l i j) = length l.
Proof. apply of_fun_length. Qed.
Lemma len_fix_up l i : length (H_fix_up l i) = length l.
Proof. apply of_fun_length. Qed.
Lemma len_fix_down l i j : length (H_fix_down l i j) = length l.
Proof. apply of_fun_length. Qed.
Lemma len_pop l : length (H_pop l) = (length l - 1)%nat.
Proof. apply of_fun_length. Qed.

Lemma F_set_load l i v p : (1 <= p <= length l)%nat ->
  F (H_set_load l i v) p = if Nat.eqb p i then set_load (F l i) v else F l p.
Proof. intros Hp. unfold H_set_load. rewrite F_of_fun by assumption. reflexivity. Qed.

Lemma F_swap l i j p : (1 <= p <= length l)%nat -> F (H_swap l i j) p = swap (F l) i j p.
Proof. intros Hp. unfold H_swap. apply F_of_fun. assumption. Qed.

Lemma F_fix_up l i p : (1 <= p <= length l)%nat -> F (H_fix_up l i) p = fix_up load i (F l) i p.
Proof. intros Hp. unfold H_fix_up. apply F_of_fun. assumption. Qed.

Lemma F_fix_down l i j p : (1 <= p <= length l)%nat -> F (H_fix_down l i j) p = fix_down load j (F l) i j p.
Proof. intros Hp. unfold H_fix_down. apply F_of_fun. assumption. Qed.

Lemma F_pop l p : (1 <= p <= length l - 1)%nat -> F (H_pop l) p = F l p.
Proof. intros Hp. unfold H_pop. apply F_of_fun. assumption. Qed.

Lemma perm_swap l i j : (1 <= i <= length l)%nat -> (1 <= j <= length l)%nat -> Permutation (H_swap l i j) l.
Proof.
  intros Hi Hj. unfold H_swap. rewrite <- (of_fun_to_fun node dummy l) at 3. apply swap_perm; assumption.
Qed.

Lemma perm_fix_up l i : (1 <= i <= length l)%nat -> Permutation (H_fix_up l i) l.
Proof.
  intros Hi. unfold H_fix_up. rewrite <- (of_fun_to_fun node dummy l) at 3. apply fix_up_perm; assumption.
Qed.

Lemma perm_fix_down l i j : (1 <= i)%nat -> (j <= length l)%nat -> Permutation (H_fix_down l i j) l.
Proof.
  intros Hi Hj. unfold H_fix_down. rewrite <- (of_fun_to_fun node dummy l) at 3. apply fix_down_perm; assumption.
Qed.

Lemma pop_app l : (1 <= length l)%nat -> l = H_pop l ++ [F l (length l)].
Proof.
  intros Hn. rewrite <- (of_fun_to_fun node dummy l) at 1. unfold H_pop.
  replace (length l) with (S (length l - 1)) at 1 by lia. rewrite of_fun_S.
  replace (S (length l - 1)) with (length l) by lia. reflexivity.
Qed.

Lemma ids_set_load l i v : ids (H_set_load l i v) = ids l.
Proof.
  unfold ids, H_set_load.
  transitivity (map (fun x => (nid x, nep x)) (of_fun (F l) (length l))); [|rewrite of_fun_to_fun; reflexivity].
  unfold of_fun. rewrite !map_map.
  apply map_ext. intros p. unfold upd. destruct (Nat.eqb_spec p i) as [->|]; reflexivity.
Qed.

Lemma ids_perm l l' : Permutation l' l -> Permutation (ids l') (ids l).
Proof. apply Permutation_map. Qed.

Lemma ids_nid l : map nid l = map fst (ids l).
Proof. unfold ids. rewrite map_map. reflexivity. Qed.
Lemma ids_nep l : map nep l = map snd (ids l).
Proof. unfold ids. rewrite map_map. reflexivity. Qed.

Lemma in_F l p : (1 <= p <= length l)%nat -> In (F l p) l.
Proof. intros H. apply in_to_fun. exact H. Qed.

Lemma in_pos l x : In x l -> exists p, (1 <= p <= length l)%nat /\ x = F l p.
Proof.
  intros H. rewrite <- (of_fun_to_fun node dummy l) in H. apply in_of_fun in H. exact H.
Qed.

(* distinct positions carry distinct nids *)
Lemma nodup_pos l p q : NoDup (map nid l) -> (1 <= p <= length l)%nat -> (1 <= q <= length l)%nat ->
  nid (F l p) = nid (F l q) -> p = q.
Proof.
  intros ND Hp Hq E. destruct p as [|p]; [lia|]. destruct q as [|q]; [lia|]. cbn [to_fun] in E.
  f_equal. rewrite NoDup_nth with (d := nid dummy) in ND.
  apply ND; rewrite ?map_length; try lia. rewrite !map_nth. exact E.
Qed.

Lemma in_set_load l i v y : NoDup (map nid l) -> (1 <= i <= length l)%nat ->
  In y (H_set_load l i v) -> y = set_load (F l i) v \/ (In y l /\ nid y <> nid (F l i)).
Proof.
  intros ND Hi H. unfold H_set_load in H. apply in_of_fun in H as (p & Hp & ->). unfold upd.
  destruct (Nat.eqb_spec p i) as [->|Hne]; [left; reflexivity|]. right. split; [apply in_F; exact Hp|].
  intros E. apply Hne. eapply nodup_pos; eassumption.
Qed.

(* find_idx *)
Lemma find_idx_some {A} (p : A -> bool) (l : list A) (d : A) : forall k i,
  find_idx p l k = Some i -> (k <= i < k + length l)%nat /\ p (nth (i - k) l d) = true.
Proof.
  induction l as [|x l IH]; intros k i H; [discriminate|]. cbn [find_idx] in H.
  destruct (p x) eqn:E.
  - inversion H; subst. cbn [length]. split; [lia|]. rewrite Nat.sub_diag. exact E.
  - apply IH in H as [H1 H2]. cbn [length]. split; [lia|].
    replace (i - k)%nat with (S (i - S k)) by lia. exact H2.
Qed.

Lemma find_idx_none {A} (p : A -> bool) (l : list A) : forall k,
  find_idx p l k = None -> forall x, In x l -> p x = false.
Proof.
  induction l as [|x l IH]; intros k H y Hy; [destruct Hy|]. cbn [find_idx] in H.
  destruct (p x) eqn:E; [discriminate|]. destruct Hy as [->|Hy]; [exact E|]. eapply IH; eassumption.
Qed.

Lemma pos_of_nid_some l x i : pos_of_nid l x = Some i -> (1 <= i <= length l)%nat /\ nid (F l i) = x.
Proof.
  intros H. apply (find_idx_some _ _ dummy) in H as [H1 H2]. split; [lia|].
  destruct i as [|k]; [lia|]. cbn [to_fun]. replace (S k - 1)%nat with k in H2 by lia. lia.
Qed.

Lemma pos_of_nid_none l x : pos_of_nid l x = None -> ~ In x (map nid l).
Proof.
  intros H Hin. apply in_map_iff in Hin as (y & E & Hy). pose proof (find_idx_none _ _ _ H y Hy) as H1.
  cbn in H1. lia.
Qed.

Lemma pos_of_ep_some l x i : pos_of_ep l x = Some i -> (1 <= i <= length l)%nat /\ nep (F l i) = x.
Proof.
  intros H. apply (find_idx_some _ _ dummy) in H as [H1 H2]. split; [lia|].
  destruct i as [|k]; [lia|]. cbn [to_fun]. replace (S k - 1)%nat with k in H2 by lia. lia.
Qed.

Lemma pos_of_ep_none l x : pos_of_ep l x = None -> ~ In x (map nep l).
Proof.
  intros H Hin. apply in_map_iff in Hin as (y & E & Hy). pose proof (find_idx_none _ _ _ H y Hy) as H1.
  cbn in H1. lia.
Qed.

Lemma memz_in x l : memz x l = true <-> In x l.
Proof.
  unfold memz. rewrite existsb_exists. split.
  - intros (y & Hy & E). apply Z.eqb_eq in E. subst. exact Hy.
  - intros H. exists x. split; [exact H|apply Z.eqb_refl].
Qed.

Lemma memz_not x l : memz x l = false <-> ~ In x l.
Proof. rewrite <- memz_in. destruct (memz x l); split; congruence. Qed.

(* ============================================================================================ *)
(* 2. heap order through the composite operations of the balancer                                *)
(* ============================================================================================ *)

Lemma okl_ext l l' m : (forall p, (1 <= p <= m)%nat -> F l p = F l' p) -> okl l m -> okl l' m.
Proof. intros E H. eapply ok_ext; [|exact H]. exact E. Qed.

Lemma okl_fix_up l m i : (m <= length l)%nat -> (1 <= i <= m)%nat ->
  ok_up load (F l) m i -> okl (H_fix_up l i) m.
Proof.
  intros Hm Hi H. eapply ok_ext; [|apply (fix_up_ok node load i (F l) m i); [lia|lia|exact H]].
  intros p Hp. symmetry. apply F_fix_up. lia.
Qed.

Lemma okl_fix_down l m i : (m <= length l)%nat -> (1 <= i)%nat ->
  ok_down load (F l) m i -> okl (H_fix_down l i m) m.
Proof.
  intros Hm Hi H. eapply ok_ext; [|apply (fix_down_ok node load m (F l) m i); [lia|lia|exact H]].
  intros p Hp. symmetry. apply F_fix_down. lia.
Qed.

Lemma okup_fix_down_hole l m i : (m <= length l)%nat -> (1 <= i <= m)%nat ->
  hole load (F l) m i -> ok_up load (F (H_fix_down l i m)) m i.
Proof.
  intros Hm Hi H. eapply ok_up_ext; [| |apply (hole_fix_down node load (F l) m i m); [lia|lia|exact H]]; [|lia].
  intros p Hp. symmetry. apply F_fix_down. lia.
Qed.

Lemma fix_down_short fuel (f : nat -> node) i j : (j < 2 * i)%nat -> fix_down load fuel f i j = f.
Proof.
  intros H. destruct fuel; [reflexivity|]. cbn [fix_down].
  destruct (Nat.ltb_spec j (2 * i)); [reflexivity|lia].
Qed.

(* lowering a load, then FixUp *)
Lemma okl_set_up l i v : (1 <= i <= length l)%nat -> okl l (length l) -> v <= load (F l i) ->
  okl (H_fix_up (H_set_load l i v) i) (length l).
Proof.
  intros Hi H Hv. apply okl_fix_up; rewrite ?len_set_load; [lia|lia|].
  eapply ok_up_ext; [| |apply (ok_upd_up node load (F l) (length l) i (set_load (F l i) v) H)]; [|lia|exact Hv].
  intros p Hp. symmetry. apply F_set_load. lia.
Qed.

(* raising a load, then FixDown *)
Lemma okl_set_down l i v : (1 <= i <= length l)%nat -> okl l (length l) -> load (F l i) <= v ->
  okl (H_fix_down (H_set_load l i v) i (length l)) (length l).
Proof.
  intros Hi H Hv. apply okl_fix_down; [rewrite len_set_load; lia|lia|].
  eapply ok_down_ext; [| |apply (ok_upd_down node load (F l) (length l) i (set_load (F l i) v) H)]; [|lia|exact Hv].
  intros p Hp. symmetry. apply F_set_load. lia.
Qed.

(* appending a node, then FixUp(size) *)
Lemma okl_add l x : okl l (length l) -> okl (H_fix_up (l ++ [x]) (S (length l))) (S (length l)).
Proof.
  intros H. apply okl_fix_up; [rewrite app_length; cbn; lia|lia|].
  apply ok_last_up. replace (S (length l) - 1)%nat with (length l) by lia.
  eapply ok_ext; [|exact H]. intros p Hp. rewrite to_fun_app_last.
  destruct (Nat.eqb_spec p (S (length l))); [lia|reflexivity].
Qed.

(* removal of position i: Swap(i, n); FixDown(i, n-1); if i != n: FixUp(i).
   l' is the array on which it runs: the heap l except possibly for the element at i itself. *)
Lemma okl_remove l l' i :
  let n := length l in
  length l' = n -> (1 <= i <= n)%nat -> okl l n ->
  (forall p, (1 <= p <= n)%nat -> p <> i -> F l' p = F l p) ->
  let l2 := H_swap l' i n in
  let l3 := H_fix_down l2 i (n - 1) in
  let l4 := if Nat.eqb i n then l3 else H_fix_up l3 i in
  okl l4 (n - 1) /\ F l4 n = F l' i /\ Permutation l4 l' /\ length l4 = n.
Proof.
  intros n Hlen Hi H E l2 l3 l4.
  assert (L2 : length l2 = n) by (unfold l2; rewrite len_swap; exact Hlen).
  assert (L3 : length l3 = n) by (unfold l3; rewrite len_fix_down; exact L2).
  assert (P2 : Permutation l2 l') by (apply perm_swap; lia).
  assert (P3 : Permutation l3 l2) by (apply perm_fix_down; lia).
  assert (F2 : forall p, (1 <= p <= n)%nat -> F l2 p = swap (F l') i n p) by (intros p Hp; apply F_swap; lia).
  destruct (Nat.eqb_spec i n) as [Hin|Hin].
  - (* the last element: nothing moves *)
    assert (F3 : forall p, (1 <= p <= n)%nat -> F l3 p = F l2 p).
    { intros p Hp. unfold l3. rewrite F_fix_down by lia. rewrite fix_down_short by lia. reflexivity. }
    subst l4. repeat split.
    + eapply ok_ext; [|apply (ok_shrink node load (F l) n (n - 1)); [lia|exact H]].
      intros p Hp. rewrite F3, F2 by lia. rewrite swap_spec.
      destruct (Nat.eqb_spec p n); [lia|]. destruct (Nat.eqb_spec p i); [lia|]. symmetry. apply E; lia.
    + rewrite F3, F2 by lia. rewrite swap_spec. rewrite Nat.eqb_refl. reflexivity.
    + etransitivity; eassumption.
    + exact L3.
  - assert (U3 : ok_up load (F l3) (n - 1) i).
    { unfold l3. apply okup_fix_down_hole; [lia|lia|].
      eapply hole_ext; [| |apply (ok_hole node load (F l) (n - 1) i (F l' n))]; [|lia|].
      - intros p Hp. rewrite F2 by lia. rewrite swap_spec. unfold upd.
        destruct (Nat.eqb_spec p n); [lia|]. destruct (Nat.eqb_spec p i); [reflexivity|]. symmetry. apply E; lia.
      - apply (ok_shrink node load (F l) n (n - 1)); [lia|exact H]. }
    assert (L4 : length l4 = n) by (unfold l4; rewrite len_fix_up; exact L3).
    subst l4. repeat split.
    + apply okl_fix_up; [lia|lia|exact U3].
    + rewrite F_fix_up by lia. rewrite fix_up_frame by lia.
      unfold l3. rewrite F_fix_down by lia. rewrite fix_down_frame by lia.
      rewrite F2 by lia. rewrite swap_spec. rewrite Nat.eqb_refl. reflexivity.
    + etransitivity; [apply perm_fix_up; lia|]. etransitivity; eassumption.
    + exact L4.
Qed.

(* re-insertion of the (minimal) last element at a random position j: Swap(j, n); FixUp(j); FixUp(n) *)
Lemma okl_reinsert l j :
  let n := length l in
  (1 <= j <= n)%nat -> okl l (n - 1) ->
  (forall p, (1 <= p <= n)%nat -> load (F l n) <= load (F l p)) ->
  okl (H_fix_up (H_fix_up (H_swap l j n) j) n) n.
Proof.
  intros n Hj H Hmin.
  set (l5 := H_swap l j n). set (l6 := H_fix_up l5 j).
  assert (L5 : length l5 = n) by (unfold l5; rewrite len_swap; reflexivity).
  assert (L6 : length l6 = n) by (unfold l6; rewrite len_fix_up; exact L5).
  assert (F5 : forall p, (1 <= p <= n)%nat -> F l5 p = swap (F l) j n p) by (intros p Hp; apply F_swap; exact Hp).
  assert (O6 : okl l6 (n - 1)).
  { destruct (Nat.eq_dec j n) as [->|Hjn].
    - (* swap(n, n): FixUp(n) on the whole array; below n-1 we only need the order *)
      assert (O6n : okl l6 n).
      { apply okl_fix_up; [lia|lia|]. apply ok_last_up. eapply ok_ext; [|exact H].
        intros p Hp. rewrite F5 by lia. rewrite swap_spec. destruct (Nat.eqb_spec p n); [lia|reflexivity]. }
      apply (ok_shrink node load (F l6) n (n - 1)); [lia|exact O6n].
    - apply okl_fix_up; [lia|lia|].
      eapply ok_up_ext; [| |apply (ok_upd_up node load (F l) (n - 1) j (F l n) H)]; [|lia|apply Hmin; lia].
      intros p Hp. rewrite F5 by lia. rewrite swap_spec. unfold upd.
      destruct (Nat.eqb_spec p n); [lia|]. destruct (Nat.eqb_spec p j); reflexivity. }
  apply okl_fix_up; [lia|lia|]. apply ok_last_up. exact O6.
Qed.

Lemma okl_pop l m : (m <= length l - 1)%nat -> okl l m -> okl (H_pop l) m.
Proof. intros Hm H. eapply ok_ext; [|exact H]. intros p Hp. symmetry. apply F_pop. lia. Qed.
