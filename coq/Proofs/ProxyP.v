(* Lemmas about Model/Proxy.v: dictionary update/lookup, the generated class dictionary, the predicate. *)
From Scales Require Import Model.Base Model.Proxy.
Local Open Scope Z_scope.

(* ---- names ----------------------------------------------------------------------------------- *)
Lemma name_eqb_eq : forall a b, name_eqb a b = true <-> a = b.
Proof. apply list_eqb_spec. intros x y. apply Z.eqb_eq. Qed.

Lemma name_eqb_refl : forall a, name_eqb a a = true.
Proof. intros a. apply name_eqb_eq. reflexivity. Qed.

Lemma name_eqb_neq : forall a b, a <> b -> name_eqb a b = false.
Proof.
  intros a b H. destruct (name_eqb a b) eqn:E; [|reflexivity]. apply name_eqb_eq in E. contradiction.
Qed.

Lemma name_eqb_false : forall a b, name_eqb a b = false -> a <> b.
Proof. intros a b H E. subst. rewrite name_eqb_refl in H. discriminate. Qed.

Lemma starts_with_spec : forall p s, starts_with p s = true <-> exists t, s = p ++ t.
Proof.
  induction p as [|c p IH]; intros s; cbn.
  - split; [intros _; exists s; reflexivity|reflexivity].
  - destruct s as [|d s].
    + split; [discriminate|intros (t & E); discriminate].
    + rewrite andb_true_iff, Z.eqb_eq, IH. split.
      * intros (E & t & Es). exists t. subst. reflexivity.
      * intros (t & E). inversion E; subst. split; [reflexivity|exists t; reflexivity].
Qed.

Lemma ends_with_spec : forall p s, ends_with p s = true <-> exists t, s = t ++ p.
Proof.
  intros p s. unfold ends_with. rewrite starts_with_spec. split; intros (t & E).
  - exists (rev t). rewrite <- (rev_involutive s), E, rev_app_distr, rev_involutive. reflexivity.
  - exists (rev t). rewrite E, rev_app_distr. reflexivity.
Qed.

(* the predicate of the code, in words: a function or (bound) method whose own name neither starts
   nor ends with "__" *)
Lemma is_user_method_spec : forall m,
  is_user_method m = true <->
  (m_kind m = KFunction \/ m_kind m = KMethod)
  /\ ~ (exists t, m_fname m = dunder ++ t) /\ ~ (exists t, m_fname m = t ++ dunder).
Proof.
  intros [a k f]. unfold is_user_method. cbn [m_kind m_fname].
  rewrite <- starts_with_spec, <- ends_with_spec.
  destruct k, (starts_with dunder f), (ends_with dunder f); cbn; split; intros H;
    try discriminate; try reflexivity.
  all: try (repeat split; auto; intros C; discriminate).
  all: destruct H as ([H|H] & H1 & H2); try discriminate; exfalso; auto.
Qed.

Lemma in_user_names : forall ms n,
  In n (user_names ms) <-> exists m, In m ms /\ is_user_method m = true /\ m_attr m = n.
Proof.
  intros ms n. unfold user_names, user_members. rewrite in_map_iff. split.
  - intros (m & E & H). apply filter_In in H as (H1 & H2). exists m. auto.
  - intros (m & H1 & H2 & E). exists m. split; [assumption|]. apply filter_In. auto.
Qed.

(* ---- dictionaries ---------------------------------------------------------------------------- *)
Lemma dict_get_set_same : forall d k v, dict_get (dict_set d k v) k = Some v.
Proof.
  induction d as [|(k', v') d IH]; intros k v; cbn.
  - rewrite name_eqb_refl. reflexivity.
  - destruct (name_eqb k' k) eqn:E; cbn; rewrite E; [reflexivity|apply IH].
Qed.

Lemma dict_get_set_other : forall d k v k', k <> k' -> dict_get (dict_set d k v) k' = dict_get d k'.
Proof.
  induction d as [|(k0, v0) d IH]; intros k v k' N; cbn.
  - rewrite (name_eqb_neq _ _ N). reflexivity.
  - destruct (name_eqb k0 k) eqn:E; cbn.
    + apply name_eqb_eq in E. subst k0. rewrite (name_eqb_neq _ _ N). reflexivity.
    + destruct (name_eqb k0 k'); [reflexivity|apply IH; assumption].
Qed.

Lemma dict_get_pop_same : forall d k, dict_get (dict_pop d k) k = None.
Proof.
  induction d as [|(k0, v0) d IH]; intros k; cbn; [reflexivity|].
  destruct (name_eqb k0 k) eqn:E; cbn; [apply IH|rewrite E; apply IH].
Qed.

Lemma dict_get_pop_other : forall d k k', k <> k' -> dict_get (dict_pop d k) k' = dict_get d k'.
Proof.
  induction d as [|(k0, v0) d IH]; intros k k' N; cbn; [reflexivity|].
  destruct (name_eqb k0 k) eqn:E; cbn.
  - apply name_eqb_eq in E. subst k0. rewrite (name_eqb_neq _ _ N). apply IH. assumption.
  - destruct (name_eqb k0 k'); [reflexivity|apply IH; assumption].
Qed.

Section Fold.
  Context {A : Type} (key : A -> name) (val : A -> entry).
  Let upd (d : dict) (x : A) : dict := dict_set d (key x) (val x).

  Lemma fold_get_notin : forall xs d k,
    (forall x, In x xs -> key x <> k) -> dict_get (fold_left upd xs d) k = dict_get d k.
  Proof.
    induction xs as [|x xs IH]; intros d k H; cbn; [reflexivity|].
    rewrite IH by (intros y Hy; apply H; right; assumption).
    unfold upd. apply dict_get_set_other. apply H. left. reflexivity.
  Qed.

  Lemma fold_get_in : forall xs d k v,
    (exists x, In x xs /\ key x = k) -> (forall x, In x xs -> key x = k -> val x = v) ->
    dict_get (fold_left upd xs d) k = Some v.
  Proof.
    induction xs as [|x xs IH]; intros d k v (y & Hy & Ey) Hv; [destruct Hy|]. cbn.
    destruct (existsb (fun z => name_eqb (key z) k) xs) eqn:Ex.
    - apply existsb_exists in Ex as (z & Hz & Ez). apply name_eqb_eq in Ez.
      apply IH; [exists z; auto|]. intros w Hw. apply Hv. right. assumption.
    - assert (N : forall z, In z xs -> key z <> k).
      { intros z Hz E. assert (existsb (fun z => name_eqb (key z) k) xs = true) as T; [|congruence].
        apply existsb_exists. exists z. split; [assumption|]. apply name_eqb_eq. assumption. }
      rewrite fold_get_notin by assumption.
      destruct Hy as [Hy|Hy]; [|exfalso; exact (N y Hy Ey)]. subst y.
      unfold upd. rewrite Ey, dict_get_set_same. f_equal. apply Hv; [left; reflexivity|assumption].
  Qed.

  (* whatever the fold leaves under a key was either there before or put there by an element *)
  Lemma fold_get_some : forall xs d k v,
    dict_get (fold_left upd xs d) k = Some v ->
    (exists x, In x xs /\ key x = k /\ val x = v) \/ ((forall x, In x xs -> key x <> k) /\ dict_get d k = Some v).
  Proof.
    induction xs as [|x xs IH]; intros d k v H; cbn in H.
    - right. split; [intros x []|assumption].
    - apply IH in H as [(y & Hy & Ey & Ev)|(N & H)].
      + left. exists y. split; [right; assumption|]. auto.
      + unfold upd in H. destruct (name_eqb (key x) k) eqn:E.
        * apply name_eqb_eq in E. rewrite E, dict_get_set_same in H. inversion H.
          left. exists x. split; [left; reflexivity|]. auto.
        * apply name_eqb_false in E. rewrite dict_get_set_other in H by assumption.
          right. split; [|assumption]. intros y [Hy|Hy]; [subst; assumption|apply N; assumption].
  Qed.
End Fold.

(* ---- the generated class dictionary ---------------------------------------------------------- *)
Lemma sync_dict_user : forall ms n, In n (user_names ms) -> dict_get (sync_dict ms) n = Some (n, Sync).
Proof.
  intros ms n H. unfold user_names in H. apply in_map_iff in H as (m & E & H).
  unfold sync_dict. apply (fold_get_in m_attr (fun m => (m_attr m, Sync))).
  - exists m. auto.
  - intros x _ Ex. rewrite Ex. reflexivity.
Qed.

Lemma sync_dict_some : forall ms n e, dict_get (sync_dict ms) n = Some e -> In n (user_names ms) /\ e = (n, Sync).
Proof.
  intros ms n e H. unfold sync_dict in H.
  apply (fold_get_some m_attr (fun m => (m_attr m, Sync))) in H as [(x & Hx & Ex & Ev)|(_ & H)]; [|discriminate].
  split; [|subst; reflexivity]. unfold user_names. apply in_map_iff. exists x. auto.
Qed.

Lemma async_key_inj : forall a b : name, a ++ async_suffix = b ++ async_suffix -> a = b.
Proof. intros a b H. apply app_inv_tail in H. assumption. Qed.

Lemma async_key_not_init : forall m, m ++ async_suffix <> init_name.
Proof.
  intros m H. apply (f_equal (@rev Z)) in H. rewrite rev_app_distr in H.
  unfold async_suffix, init_name in H. cbn in H. discriminate.
Qed.

Lemma async_key_not_field : forall m, m ++ async_suffix <> dispatcher_field.
Proof.
  intros m H. apply (f_equal (@rev Z)) in H. rewrite rev_app_distr in H.
  unfold async_suffix, dispatcher_field in H. cbn in H. discriminate.
Qed.

Lemma build_async : forall ms m,
  In m (user_names ms) -> dict_get (build ms) (m ++ async_suffix) = Some (m, Async).
Proof.
  intros ms m H. unfold user_names in H. apply in_map_iff in H as (x & E & H).
  unfold build. apply (fold_get_in (fun m => m_attr m ++ async_suffix) (fun m => (m_attr m, Async))).
  - exists x. subst. auto.
  - intros y _ Ey. apply async_key_inj in Ey. rewrite Ey. reflexivity.
Qed.

Lemma build_sync : forall ms m,
  In m (user_names ms) -> m <> init_name ->
  (forall n, In n (user_names ms) -> n ++ async_suffix <> m) ->
  dict_get (build ms) m = Some (m, Sync).
Proof.
  intros ms m H Ni Nc. unfold build.
  rewrite (fold_get_notin (fun m => m_attr m ++ async_suffix) (fun m => (m_attr m, Async))).
  - rewrite dict_get_pop_other by congruence. apply sync_dict_user. assumption.
  - intros x Hx. apply Nc. unfold user_names. apply in_map. assumption.
Qed.

(* every generated entry is one of the two forms of a user method *)
Lemma build_some : forall ms n e,
  dict_get (build ms) n = Some e ->
  (exists m, In m (user_names ms) /\ n = m ++ async_suffix /\ e = (m, Async))
  \/ (In n (user_names ms) /\ n <> init_name /\ e = (n, Sync)).
Proof.
  intros ms n e H. unfold build in H.
  apply (fold_get_some (fun m => m_attr m ++ async_suffix) (fun m => (m_attr m, Async))) in H
    as [(x & Hx & Ex & Ev)|(_ & H)].
  - left. exists (m_attr x). split; [unfold user_names; apply in_map; assumption|]. auto.
  - right. destruct (name_eqb init_name n) eqn:E.
    + apply name_eqb_eq in E. subst n. rewrite dict_get_pop_same in H. discriminate.
    + apply name_eqb_false in E. rewrite dict_get_pop_other in H by assumption.
      apply sync_dict_some in H as (H1 & H2). repeat split; auto.
Qed.

Lemma build_init : forall ms, dict_get (build ms) init_name = None.
Proof.
  intros ms. destruct (dict_get (build ms) init_name) eqn:E; [|reflexivity].
  apply build_some in E as [(m & _ & E & _)|(_ & N & _)].
  - symmetry in E. apply async_key_not_init in E. destruct E.
  - congruence.
Qed.

Lemma ctor_always_ok : forall ms, ctor_ok ms = true.
Proof. intros ms. unfold ctor_ok. rewrite build_init. reflexivity. Qed.

(* ---- lookups on the instance ------------------------------------------------------------------ *)
Lemma resolve_async : forall ms m, In m (user_names ms) -> resolve ms (m ++ async_suffix) = RForward (m, Async).
Proof.
  intros ms m H. unfold resolve. rewrite (name_eqb_neq _ _ (async_key_not_field m)).
  rewrite build_async by assumption. reflexivity.
Qed.

Lemma resolve_sync : forall ms m,
  In m (user_names ms) -> m <> init_name -> m <> dispatcher_field ->
  (forall n, In n (user_names ms) -> n ++ async_suffix <> m) ->
  resolve ms m = RForward (m, Sync).
Proof.
  intros ms m H Ni Nf Nc. unfold resolve. rewrite (name_eqb_neq _ _ Nf).
  rewrite build_sync by assumption. reflexivity.
Qed.

Lemma resolve_forward : forall ms n e,
  resolve ms n = RForward e ->
  (exists m, In m (user_names ms) /\ n = m ++ async_suffix /\ e = (m, Async))
  \/ (In n (user_names ms) /\ n <> init_name /\ n <> dispatcher_field /\ e = (n, Sync)).
Proof.
  intros ms n e H. unfold resolve in H.
  destruct (name_eqb n dispatcher_field) eqn:Ef; [discriminate|]. apply name_eqb_false in Ef.
  destruct (dict_get (build ms) n) eqn:E.
  - inversion H; subst. apply build_some in E as [E|(H1 & H2 & H3)]; [left; assumption|right; auto].
  - destruct (existsb (name_eqb n) base_names); [discriminate|].
    destruct (existsb (fun m => name_eqb (m_attr m) n) ms); discriminate.
Qed.
