(* Lemmas about Model/Aperture.v and Model/Ema.v (C06). *)
From Coq Require Import ZArith QArith List Bool Lia Lqa Permutation.
From Scales Require Import Model.Base Model.Ema Model.Aperture.
Import ListNotations.
Local Open Scope Z_scope.

(* ------------------------------------------------------------------------------------------ *)
(* lists as sets                                                                              *)
(* ------------------------------------------------------------------------------------------ *)
Lemma memz_In : forall e l, memz e l = true <-> In e l.
Proof.
  intros e l. unfold memz. rewrite existsb_exists. split.
  - intros (x & Hx & E). apply Z.eqb_eq in E. subst. exact Hx.
  - intros H. exists e. split; [exact H|apply Z.eqb_refl].
Qed.

Lemma memz_false : forall e l, memz e l = false <-> ~ In e l.
Proof.
  intros e l. rewrite <- memz_In. destruct (memz e l); split; intros H.
  - discriminate.
  - exfalso. apply H. reflexivity.
  - intros X. discriminate.
  - reflexivity.
Qed.

Lemma In_sadd : forall x e l, In x (sadd e l) <-> x = e \/ In x l.
Proof.
  intros x e l. unfold sadd. destruct (memz e l) eqn:E.
  - apply memz_In in E. split; [auto|]. intros [->|H]; assumption.
  - rewrite in_app_iff. cbn. split; intros H.
    + destruct H as [H|[H|[]]]; auto.
    + destruct H as [H|H]; auto.
Qed.

Lemma NoDup_snoc : forall (l : list Z) e, NoDup l -> ~ In e l -> NoDup (l ++ [e]).
Proof.
  intros l e Hn Hi. induction l as [|x l IH]; cbn.
  - constructor; [intros []|constructor].
  - inversion Hn as [|? ? Hx Hl]; subst. constructor.
    + rewrite in_app_iff. cbn. intros [H|[H|[]]]; [auto|]. subst. apply Hi. left. reflexivity.
    + apply IH; [exact Hl|]. intros H. apply Hi. right. exact H.
Qed.

Lemma NoDup_sadd : forall e l, NoDup l -> NoDup (sadd e l).
Proof.
  intros e l H. unfold sadd. destruct (memz e l) eqn:E; [exact H|].
  apply NoDup_snoc; [exact H|]. apply memz_false. exact E.
Qed.

Lemma In_sdiscard : forall x e l, In x (sdiscard e l) <-> In x l /\ x <> e.
Proof.
  intros x e l. unfold sdiscard. rewrite filter_In. split; intros [H1 H2]; split; try assumption.
  - intros ->. rewrite Z.eqb_refl in H2. discriminate.
  - apply negb_true_iff. apply Z.eqb_neq. exact H2.
Qed.

Lemma NoDup_sdiscard : forall e l, NoDup l -> NoDup (sdiscard e l).
Proof. intros e l H. unfold sdiscard. apply NoDup_filter. exact H. Qed.

Lemma length_sdiscard_le : forall e l, (length (sdiscard e l) <= length l)%nat.
Proof. intros e l. unfold sdiscard. induction l as [|x l IH]; cbn; [lia|]. destruct (negb (x =? e)); cbn; lia. Qed.

Lemma length_sdiscard_In : forall e l, In e l -> (S (length (sdiscard e l)) <= length l)%nat.
Proof.
  intros e l. induction l as [|x l IH]; cbn; [intros []|]. intros [->|H].
  - rewrite Z.eqb_refl. cbn. pose proof (length_sdiscard_le e l). unfold sdiscard in *. lia.
  - specialize (IH H). destruct (negb (x =? e)); cbn; unfold sdiscard in *; lia.
Qed.

Lemma sdiscard_notin : forall e l, ~ In e l -> sdiscard e l = l.
Proof.
  intros e l. induction l as [|x l IH]; cbn; [reflexivity|]. intros H.
  destruct (Z.eqb_spec x e) as [->|N]; cbn.
  - exfalso. apply H. left. reflexivity.
  - f_equal. apply IH. intros H1. apply H. right. exact H1.
Qed.

Lemma length_sdiscard_NoDup : forall e l, NoDup l -> In e l -> S (length (sdiscard e l)) = length l.
Proof.
  intros e l Hn. induction Hn as [|x l Hx Hl IH]; cbn; [intros []|]. intros [->|H].
  - rewrite Z.eqb_refl. cbn. fold (sdiscard e l). rewrite sdiscard_notin by exact Hx. reflexivity.
  - destruct (Z.eqb_spec x e) as [->|N]; [contradiction|]. cbn. fold (sdiscard e l). rewrite IH by exact H. reflexivity.
Qed.

(* ------------------------------------------------------------------------------------------ *)
(* the active list                                                                            *)
(* ------------------------------------------------------------------------------------------ *)
Lemma eps_of_app : forall a b, eps_of (a ++ b) = eps_of a ++ eps_of b.
Proof. intros. unfold eps_of. apply map_app. Qed.

Lemma In_remove_first : forall x e a, In x (eps_of (remove_first e a)) -> In x (eps_of a).
Proof.
  intros x e a. induction a as [|m a IH]; cbn; [auto|]. destruct (m_ep m =? e); cbn.
  - auto.
  - intros [H|H]; auto.
Qed.

Lemma In_remove_first_NoDup : forall x e a, NoDup (eps_of a) ->
  (In x (eps_of (remove_first e a)) <-> In x (eps_of a) /\ x <> e).
Proof.
  intros x e a. induction a as [|m a IH]; cbn; intros Hn.
  - tauto.
  - inversion Hn as [|? ? Hm Ha]; subst. destruct (Z.eqb_spec (m_ep m) e) as [E|N]; cbn.
    + subst. split.
      * intros H. split; [auto|]. intros ->. contradiction.
      * intros [[H|H] Hne]; [congruence|exact H].
    + rewrite (IH Ha). split.
      * intros [H|[H1 H2]]; [split; [auto|congruence]|tauto].
      * intros [[H|H] Hne]; [auto|tauto].
Qed.

Lemma NoDup_remove_first : forall e a, NoDup (eps_of a) -> NoDup (eps_of (remove_first e a)).
Proof.
  intros e a. induction a as [|m a IH]; cbn; intros Hn; [constructor|].
  inversion Hn as [|? ? Hm Ha]; subst. destruct (m_ep m =? e); cbn; [exact Ha|].
  constructor; [|apply IH; exact Ha]. intros H. apply Hm. eapply In_remove_first. exact H.
Qed.

Lemma length_remove_first : forall e a, In e (eps_of a) -> S (length (remove_first e a)) = length a.
Proof.
  intros e a. induction a as [|m a IH]; cbn; [intros []|]. destruct (Z.eqb_spec (m_ep m) e) as [E|N]; cbn.
  - reflexivity.
  - intros [H|H]; [contradiction|]. rewrite IH by exact H. reflexivity.
Qed.

Lemma length_remove_first_le : forall e a, (length (remove_first e a) <= length a)%nat.
Proof. intros e a. induction a as [|m a IH]; cbn; [lia|]. destruct (m_ep m =? e); cbn; lia. Qed.

Lemma eps_of_setst : forall ep st a,
  eps_of (map (fun m => if m_ep m =? ep then {| m_ep := ep; m_st := st |} else m) a) = eps_of a.
Proof.
  intros ep st a. unfold eps_of. rewrite map_map. apply map_ext. intros m.
  destruct (Z.eqb_spec (m_ep m) ep) as [E|N]; cbn; congruence.
Qed.

Lemma filter_len_le : forall {A} (f : A -> bool) l, (length (filter f l) <= length l)%nat.
Proof. intros A f l. induction l as [|x l IH]; cbn; [lia|]. destruct (f x); cbn; lia. Qed.

Lemma healthy_le_size : forall s, healthy s <= size s.
Proof. intros s. unfold healthy, size. pose proof (filter_len_le is_open (active s)). lia. Qed.

(* ------------------------------------------------------------------------------------------ *)
(* partition invariant                                                                        *)
(* ------------------------------------------------------------------------------------------ *)
Record inv (s : state) : Prop := {
  inv_mem  : NoDup (members s);
  inv_act  : NoDup (eps_of (active s));
  inv_idle : NoDup (idle s);
  inv_disj : forall e, In e (eps_of (active s)) -> ~ In e (idle s);
  inv_cover : forall e, In e (members s) <-> In e (eps_of (active s)) \/ In e (idle s);
  inv_leaving : forall e, leaving s = Some e -> ~ In e (members s)
}.

Lemma inv_init : inv init.
Proof. constructor; cbn; try constructor; try tauto; try discriminate. Qed.

Lemma inv_same_sets : forall s s', members s' = members s -> eps_of (active s') = eps_of (active s) -> idle s' = idle s ->
  leaving s' = leaving s -> inv s -> inv s'.
Proof. intros s s' E1 E2 E3 E4 [Im Ia Ii Id Ic Il]. constructor; rewrite ?E1, ?E2, ?E3, ?E4; assumption. Qed.

Lemma try_expand_cases : forall s ch s', try_expand s ch = Ok s' ->
  (idle s = [] /\ ch = None /\ s' = s) \/
  (exists e, ch = Some e /\ In e (idle s) /\ In e (members s) /\
     s' = {| members := members s; active := active s ++ [fresh e]; idle := sdiscard e (idle s);
             pending := sadd e (pending s); total := total s; ema := ema s; leaving := leaving s |}).
Proof.
  intros s ch s' H. unfold try_expand in H. destruct (idle s) as [|i0 ir] eqn:Ei; destruct ch as [e|]; try discriminate.
  - left. inversion H. auto.
  - right. destruct (memz e (i0 :: ir)) eqn:E1; cbn [negb] in H; [|discriminate].
    destruct (memz e (members s)) eqn:E2; cbn [negb] in H; [|discriminate].
    inversion H; subst; clear H. exists e. repeat split; try (apply memz_In; assumption).
Qed.

Lemma try_expand_no_crash : forall s ch, (forall e, In e (idle s) -> In e (members s)) -> try_expand s ch <> Crash.
Proof.
  intros s ch Hc. unfold try_expand. destruct (idle s) as [|i0 ir] eqn:Ei; destruct ch as [e|]; try discriminate.
  destruct (memz e (i0 :: ir)) eqn:E1; cbn [negb]; [|discriminate].
  apply memz_In in E1. apply Hc in E1. apply memz_In in E1. rewrite E1. cbn. discriminate.
Qed.

Lemma try_expand_inv : forall s ch s', inv s -> try_expand s ch = Ok s' -> inv s'.
Proof.
  intros s ch s' I H. apply try_expand_cases in H as [(_ & _ & ->)|(e & _ & Hi & Hm & ->)]; [exact I|].
  destruct I as [Im Ia Ii Id Ic Il]. constructor; cbn.
  - exact Im.
  - rewrite eps_of_app. cbn. apply NoDup_snoc; [exact Ia|]. intros H. exact (Id e H Hi).
  - apply NoDup_sdiscard. exact Ii.
  - intros x. rewrite eps_of_app, in_app_iff, In_sdiscard. cbn. intros [H|[H|[]]] [H1 H2].
    + exact (Id x H H1).
    + congruence.
  - intros x. rewrite eps_of_app, in_app_iff, In_sdiscard, Ic. cbn. split.
    + intros [H|H]; [tauto|]. destruct (Z.eq_dec x e) as [->|N]; [left; right; left; reflexivity|tauto].
    + intros [[H|[H|[]]]|[H _]]; [tauto| |tauto]. subst. right. exact Hi.
  - exact Il.
Qed.

Lemma victim_ok_In : forall s v, victim_ok s v = true -> In v (eps_of (active s)) /\ ~ In v (pending s).
Proof.
  intros s v H. unfold victim_ok in H.
  assert (exists m, In m (cands s) /\ m_ep m = v) as (m & Hm & E).
  { destruct (existsb is_closed (cands s)); apply existsb_exists in H as (m & Hm & E); exists m; split; try assumption.
    - apply andb_true_iff in E as [E _]. apply Z.eqb_eq. exact E.
    - apply Z.eqb_eq. exact E. }
  unfold cands in Hm. apply filter_In in Hm as [Hm Hp]. split.
  - subst. unfold eps_of. apply in_map. exact Hm.
  - apply negb_true_iff in Hp. apply memz_false in Hp. subst. exact Hp.
Qed.

Lemma contract_cases : forall c s f victim s', contract c s f victim = Ok s' ->
  (victim = None /\ s' = s /\ ((pending s <> [] /\ f = false) \/ healthy s <= min_size c \/ cands s = [])) \/
  (exists v, victim = Some v /\ victim_ok s v = true /\ (pending s = [] \/ f = true) /\ min_size c < healthy s /\
     s' = {| members := members s; active := remove_first v (active s); idle := sadd v (idle s);
             pending := pending s; total := total s; ema := ema s; leaving := leaving s |}).
Proof.
  intros c s f victim s' H. unfold contract in H.
  destruct (negb (is_nil (pending s)) && negb f) eqn:G.
  - destruct victim; [discriminate|]. inversion H; subst. left. split; [reflexivity|]. split; [reflexivity|]. left.
    apply andb_true_iff in G as [G1 G2]. split.
    + intros E. rewrite E in G1. discriminate.
    + destruct f; [discriminate|reflexivity].
  - assert (G' : pending s = [] \/ f = true).
    { destruct (pending s); [left; reflexivity|]. destruct f; [right; reflexivity|discriminate]. }
    destruct (Z.ltb_spec (min_size c) (healthy s)) as [Hh|Hh].
    + destruct (cands s) as [|c0 cr] eqn:Ec; destruct victim as [v|]; try discriminate.
      * left. inversion H; subst. split; [reflexivity|]. split; [reflexivity|]. right. right. reflexivity.
      * destruct (victim_ok s v) eqn:Ev; [|discriminate]. right. exists v. inversion H; subst.
        split; [reflexivity|]. split; [exact Ev|]. split; [exact G'|]. split; [exact Hh|reflexivity].
    + destruct victim; [discriminate|]. inversion H; subst. left. split; [reflexivity|]. split; [reflexivity|]. right. left. exact Hh.
Qed.

Lemma contract_no_crash : forall c s f v, contract c s f v <> Crash.
Proof.
  intros c s f v. unfold contract.
  destruct (negb (is_nil (pending s)) && negb f); [destruct v; discriminate|].
  destruct (min_size c <? healthy s); [|destruct v; discriminate].
  destruct (cands s); destruct v; try discriminate. destruct (victim_ok s z); discriminate.
Qed.

Lemma moved_inv : forall s v, inv s -> In v (eps_of (active s)) ->
  inv {| members := members s; active := remove_first v (active s); idle := sadd v (idle s);
         pending := pending s; total := total s; ema := ema s; leaving := leaving s |}.
Proof.
  intros s v [Im Ia Ii Id Ic Il] Hv. constructor; cbn.
  - exact Im.
  - apply NoDup_remove_first. exact Ia.
  - apply NoDup_sadd. exact Ii.
  - intros x. rewrite (In_remove_first_NoDup _ _ _ Ia), In_sadd. intros [H1 H2] [H|H]; [contradiction|]. exact (Id x H1 H).
  - intros x. rewrite (In_remove_first_NoDup _ _ _ Ia), In_sadd, Ic. split.
    + intros [H|H]; [|tauto]. destruct (Z.eq_dec x v); tauto.
    + intros [[H _]|[->|H]]; tauto.
  - exact Il.
Qed.

Lemma contract_inv : forall c s f victim s', inv s -> contract c s f victim = Ok s' -> inv s'.
Proof.
  intros c s f victim s' I H. apply contract_cases in H as [(_ & -> & _)|(v & _ & Hv & _ & _ & ->)]; [exact I|].
  apply moved_inv; [exact I|]. apply victim_ok_In in Hv. tauto.
Qed.

(* the state in the middle of the departure of an active member *)
Lemma leave_active_inv : forall s ep, inv s -> In ep (eps_of (active s)) ->
  inv (set_leaving (set_active (set_members s (sdiscard ep (members s))) (remove_first ep (active s))) (Some ep)).
Proof.
  intros s ep [Im Ia Ii Id Ic Il] Ea. constructor; cbn.
  - apply NoDup_sdiscard; exact Im.
  - apply NoDup_remove_first; exact Ia.
  - exact Ii.
  - intros x X. apply In_remove_first in X. exact (Id x X).
  - intros x. rewrite In_sdiscard, (In_remove_first_NoDup _ _ _ Ia), Ic. split; [tauto|].
    intros [[X N]|X]; [tauto|]. split; [tauto|]. intros ->. exact (Id ep Ea X).
  - intros e E. inversion E; subst. rewrite In_sdiscard. tauto.
Qed.

Lemma leave_other_inv : forall s ep, inv s -> leaving s = None -> ~ In ep (eps_of (active s)) ->
  inv (set_idle (set_members s (sdiscard ep (members s))) (sdiscard ep (idle s))).
Proof.
  intros s ep [Im Ia Ii Id Ic Il] El Ea. constructor; cbn.
  - apply NoDup_sdiscard; exact Im.
  - exact Ia.
  - apply NoDup_sdiscard; exact Ii.
  - intros x X. rewrite In_sdiscard. intros [Y _]. exact (Id x X Y).
  - intros x. rewrite !In_sdiscard, Ic. split; [|intros [X|X]; [|tauto]].
    + intros [[X|X] N]; tauto.
    + split; [tauto|]. intros ->. contradiction.
  - rewrite El. discriminate.
Qed.

(* the second half: the departed endpoint is in no set, so the final idle.discard(ep) changes nothing *)
Lemma replace_inv : forall s ep ch s2, inv s -> leaving s = Some ep -> try_expand (set_leaving s None) ch = Ok s2 ->
  inv (set_idle s2 (sdiscard ep (idle s2))).
Proof.
  intros s ep ch s2 I El Et.
  assert (Hnm : ~ In ep (members s)) by (apply (inv_leaving _ I); exact El).
  assert (I0 : inv (set_leaving s None)).
  { destruct I as [Im Ia Ii Id Ic Il]. constructor; cbn; try assumption. discriminate. }
  pose proof (try_expand_inv _ _ _ I0 Et) as [Im Ia Ii Id Ic Il].
  assert (Em : members s2 = members s).
  { apply try_expand_cases in Et as [(_ & _ & ->)|(e & _ & _ & _ & ->)]; reflexivity. }
  assert (Hni : ~ In ep (idle s2)) by (intros X; apply Hnm; rewrite <- Em; apply Ic; auto).
  rewrite (sdiscard_notin ep (idle s2) Hni). destruct s2; constructor; cbn in *; assumption.
Qed.

Lemma step_inv : forall c s l s', inv s -> step c s l = Ok s' -> inv s'.
Proof.
  intros c s l s' I H. destruct l as [ep|ep|ep ch|ep st|ep st ch|amount sample w avg ch victim|ep|ch|exn victim]; cbn [step] in H.
  - (* join *)
    destruct (leaving s) as [lv|] eqn:El; cbn [is_none negb] in H; [discriminate|].
    destruct (memz ep (members s)) eqn:Em; [inversion H; subst; exact I|].
    apply memz_false in Em. destruct I as [Im Ia Ii Id Ic Il].
    assert (Hna : ~ In ep (eps_of (active s))) by (intros X; apply Em; apply Ic; auto).
    assert (Hni : ~ In ep (idle s)) by (intros X; apply Em; apply Ic; auto).
    destruct (healthy s <? min_size c); inversion H; subst; clear H; constructor; cbn.
    + apply NoDup_snoc; assumption.
    + rewrite eps_of_app. cbn. apply NoDup_snoc; assumption.
    + exact Ii.
    + intros x. rewrite eps_of_app, in_app_iff. cbn. intros [X|[X|[]]]; [auto|subst; exact Hni].
    + intros x. rewrite eps_of_app, !in_app_iff, Ic. cbn. tauto.
    + rewrite El. discriminate.
    + apply NoDup_snoc; assumption.
    + exact Ia.
    + apply NoDup_sadd. exact Ii.
    + intros x X. rewrite In_sadd. intros [->|Y]; [contradiction|exact (Id x X Y)].
    + intros x. rewrite in_app_iff, In_sadd, Ic. cbn. split; [intros [X|[X|[]]]|]; try tauto; auto. intros [X|[X|X]]; auto.
    + rewrite El. discriminate.
  - (* leave, first half *)
    destruct (leaving s) as [lv|] eqn:El; [discriminate|].
    destruct (memz ep (eps_of (active s))) eqn:Ea; inversion H; subst; clear H.
    + apply leave_active_inv; [exact I|apply memz_In; exact Ea].
    + apply leave_other_inv; [exact I|exact El|apply memz_false; exact Ea].
  - (* leave, second half *)
    destruct (leaving s) as [lv|] eqn:El; [|discriminate].
    destruct (Z.eqb_spec lv ep) as [->|N]; cbn [negb] in H; [|discriminate].
    destruct (try_expand (set_leaving s None) ch) as [s2| |] eqn:Et; try discriminate. inversion H; subst; clear H.
    eapply replace_inv; eassumption.
  - (* chan *)
    inversion H; subst; clear H. eapply inv_same_sets; [| | | |exact I]; cbn; try reflexivity. apply eps_of_setst.
  - (* node down *)
    destruct (st =? 1).
    + destruct ch; [discriminate|]. inversion H; subst; exact I.
    + eapply try_expand_inv; eassumption.
  - (* adjust *)
    destruct (negb (total s + amount =? sample)); [discriminate|].
    destruct (negb (ema_ok s sample w avg)); [discriminate|].
    set (s1 := {| members := members s; active := active s; idle := idle s; pending := pending s;
                  total := total s + amount; ema := Some avg; leaving := leaving s |}) in *.
    assert (I1 : inv s1) by (eapply inv_same_sets; [| | | |exact I]; reflexivity).
    destruct (up_cond c s avg).
    + destruct victim; [discriminate|]. eapply try_expand_inv; eassumption.
    + destruct (down_cond c s avg).
      * destruct ch; [discriminate|]. eapply contract_inv; eassumption.
      * destruct ch; [discriminate|]. destruct victim; [discriminate|]. inversion H; subst. exact I1.
  - (* open done *)
    inversion H; subst; clear H. eapply inv_same_sets; [| | | |exact I]; reflexivity.
  - (* jitter start *)
    eapply try_expand_inv; eassumption.
  - (* jitter done *)
    destruct exn.
    + destruct victim; [discriminate|]. inversion H; subst; exact I.
    + eapply contract_inv; eassumption.
Qed.

Lemma step_no_crash : forall c s l, inv s -> step c s l <> Crash.
Proof.
  intros c s l I.
  assert (T : forall s0 ch, inv s0 -> try_expand s0 ch <> Crash).
  { intros s0 ch I0. apply try_expand_no_crash. intros e He. apply (inv_cover _ I0). auto. }
  destruct l as [ep|ep|ep ch|ep st|ep st ch|amount sample w avg ch victim|ep|ch|exn victim]; cbn [step].
  - destruct (negb (is_none (leaving s))); [discriminate|].
    destruct (memz ep (members s)); [discriminate|]. destruct (healthy s <? min_size c); discriminate.
  - destruct (leaving s); [discriminate|]. destruct (memz ep (eps_of (active s))); discriminate.
  - destruct (leaving s) as [lv|] eqn:El; [|discriminate]. destruct (negb (lv =? ep)); [discriminate|].
    assert (I0 : inv (set_leaving s None)).
    { destruct I as [Im Ia Ii Id Ic Il]. constructor; cbn; try assumption. discriminate. }
    specialize (T _ ch I0). destruct (try_expand (set_leaving s None) ch); try discriminate. contradiction.
  - discriminate.
  - destruct (st =? 1); [destruct ch; discriminate|apply T; exact I].
  - destruct (negb (total s + amount =? sample)); [discriminate|].
    destruct (negb (ema_ok s sample w avg)); [discriminate|].
    destruct (up_cond c s avg).
    + destruct victim; [discriminate|]. apply T. eapply inv_same_sets; [| | | |exact I]; reflexivity.
    + destruct (down_cond c s avg).
      * destruct ch; [discriminate|]. apply contract_no_crash.
      * destruct ch; [discriminate|]. destruct victim; discriminate.
  - discriminate.
  - apply T. exact I.
  - destruct exn; [destruct victim; discriminate|apply contract_no_crash].
Qed.

Lemma run_inv : forall c ls s s', inv s -> run c s ls = Ok s' -> inv s'.
Proof.
  intros c ls. induction ls as [|l ls IH]; cbn; intros s s' I H.
  - inversion H; subst. exact I.
  - destruct (step c s l) as [s1| |] eqn:E; try discriminate. eapply IH; [|exact H]. eapply step_inv; eassumption.
Qed.

Lemma run_no_crash : forall c ls s, inv s -> run c s ls <> Crash.
Proof.
  intros c ls. induction ls as [|l ls IH]; cbn; intros s I; [discriminate|].
  pose proof (step_no_crash c s l I). destruct (step c s l) as [s1| |] eqn:E; try discriminate; [|contradiction].
  apply IH. eapply step_inv; eassumption.
Qed.

(* ------------------------------------------------------------------------------------------ *)
(* counting: |members| = |active| + |idle|                                                     *)
(* ------------------------------------------------------------------------------------------ *)
Lemma NoDup_app_disj : forall (a b : list Z), NoDup a -> NoDup b -> (forall x, In x a -> ~ In x b) -> NoDup (a ++ b).
Proof.
  intros a b Ha Hb Hd. induction Ha as [|x a Hx Ha IH]; cbn; [exact Hb|]. constructor.
  - rewrite in_app_iff. intros [H|H]; [contradiction|]. apply (Hd x); [left; reflexivity|exact H].
  - apply IH. intros y Hy. apply Hd. right. exact Hy.
Qed.

Lemma inv_count : forall s, inv s -> length (members s) = (length (active s) + length (idle s))%nat.
Proof.
  intros s [Im Ia Ii Id Ic].
  assert (P : Permutation (members s) (eps_of (active s) ++ idle s)).
  { apply NoDup_Permutation; [exact Im|apply NoDup_app_disj; assumption|]. intros x. rewrite in_app_iff. apply Ic. }
  apply Permutation_length in P. rewrite P, app_length. unfold eps_of. rewrite map_length. reflexivity.
Qed.

Lemma size_snoc : forall s a x, active s = a ++ [x] -> size s = Z.of_nat (length a) + 1.
Proof. intros s a x E. unfold size. rewrite E, app_length. cbn. lia. Qed.

Lemma try_expand_shape : forall s ch s', try_expand s ch = Ok s' ->
  members s' = members s /\ total s' = total s /\ ema s' = ema s /\
  ((idle s = [] /\ s' = s) \/
   (exists e, ch = Some e /\ In e (idle s) /\ active s' = active s ++ [fresh e] /\ idle s' = sdiscard e (idle s)
      /\ pending s' = sadd e (pending s) /\ size s' = size s + 1)).
Proof.
  intros s ch s' H. apply try_expand_cases in H as [(Ei & _ & ->)|(e & -> & Hi & Hm & ->)]; cbn.
  - repeat split; auto.
  - repeat split; auto. right. exists e. repeat split; auto. unfold size. cbn. rewrite app_length. cbn. lia.
Qed.

Lemma size_remove_first : forall v a, In v (eps_of a) -> Z.of_nat (length (remove_first v a)) = Z.of_nat (length a) - 1.
Proof. intros v a H. apply length_remove_first in H. lia. Qed.

(* ------------------------------------------------------------------------------------------ *)
(* lower bound                                                                                *)
(* ------------------------------------------------------------------------------------------ *)
(* what a step that makes the active set smaller looks like *)
Definition moved (c : config) (s s' : state) : Prop :=
  exists v, In v (eps_of (active s)) /\ ~ In v (pending s) /\
     active s' = remove_first v (active s) /\ idle s' = sadd v (idle s) /\ members s' = members s /\
     size s' = size s - 1 /\ min_size c < healthy s /\ min_size c <= size s'.

Lemma contract_moved : forall c s1 f victim s2 s,
  contract c s1 f victim = Ok s2 -> active s1 = active s -> idle s1 = idle s -> pending s1 = pending s -> members s1 = members s ->
  size s2 < size s -> moved c s s2.
Proof.
  intros c s1 f victim s2 s Hc Ea Ei Ep Em Hlt. apply contract_cases in Hc as [(_ & -> & _)|(v & _ & Hv & _ & Hh & ->)].
  - exfalso. unfold size in Hlt. rewrite Ea in Hlt. lia.
  - apply victim_ok_In in Hv as [Hv1 Hv2]. rewrite Ea in Hv1. rewrite Ep in Hv2. exists v. cbn.
    assert (Hs : Z.of_nat (length (remove_first v (active s1))) = size s - 1)
      by (unfold size; rewrite Ea; apply size_remove_first; exact Hv1).
    assert (healthy s1 = healthy s) as Eh by (unfold healthy; rewrite Ea; reflexivity).
    pose proof (healthy_le_size s). unfold size at 1 3. cbn. rewrite Hs.
    repeat split; try congruence; try lia.
Qed.

Lemma moved_fields : forall c s s2 s', moved c s s2 -> active s' = active s2 -> idle s' = idle s2 -> members s' = members s2 ->
  moved c s s'.
Proof.
  intros c s s2 s' (v & H1 & H2 & H3 & H4 & H5 & H6 & H7 & H8) Ea Ei Em. exists v.
  assert (size s' = size s2) by (unfold size; rewrite Ea; reflexivity).
  repeat split; try congruence; lia.
Qed.

Lemma step_shrink : forall c s l s', step c s l = Ok s' -> size s' < size s ->
  (exists ep, l = LLeave ep /\ In ep (eps_of (active s)) /\ size s' = size s - 1 /\ leaving s' = Some ep /\
              members s' = sdiscard ep (members s) /\ idle s' = idle s) \/
  moved c s s'.
Proof.
  intros c s l s' H Hlt.
  assert (T : forall s0 ch, try_expand s0 ch = Ok s' -> size s0 <= size s').
  { intros s0 ch H0. apply try_expand_shape in H0 as (_ & _ & _ & [(_ & ->)|(e & _ & _ & _ & _ & _ & Hs)]); lia. }
  destruct l as [ep|ep|ep ch|ep st|ep st ch|amount sample w avg ch victim|ep|ch|exn victim]; cbn [step] in H.
  - exfalso. destruct (negb (is_none (leaving s))); [discriminate|].
    destruct (memz ep (members s)); [inversion H; subst; lia|].
    destruct (healthy s <? min_size c); inversion H; subst; clear H; unfold size in Hlt; cbn in Hlt; rewrite ?app_length in Hlt; lia.
  - left. exists ep. destruct (leaving s); [discriminate|].
    destruct (memz ep (eps_of (active s))) eqn:Ea; inversion H; subst; clear H.
    + apply memz_In in Ea. split; [reflexivity|]. split; [exact Ea|]. unfold size. cbn.
      split; [apply size_remove_first; exact Ea|]. auto.
    + exfalso. unfold size in Hlt. cbn in Hlt. lia.
  - exfalso. destruct (leaving s) as [lv|]; [|discriminate]. destruct (negb (lv =? ep)); [discriminate|].
    destruct (try_expand (set_leaving s None) ch) as [s2| |] eqn:Et; try discriminate. inversion H; subst; clear H.
    assert (size s <= size s2).
    { apply try_expand_shape in Et as (_ & _ & _ & [(_ & ->)|(e & _ & _ & _ & _ & _ & Hs)]); unfold size in *; cbn in *; lia. }
    unfold size in *. cbn in *. lia.
  - exfalso. inversion H; subst. unfold size in Hlt. cbn in Hlt. rewrite map_length in Hlt. lia.
  - exfalso. destruct (st =? 1).
    + destruct ch; [discriminate|]. inversion H; subst. lia.
    + apply T in H. lia.
  - destruct (negb (total s + amount =? sample)); [discriminate|].
    destruct (negb (ema_ok s sample w avg)); [discriminate|].
    destruct (up_cond c s avg).
    + exfalso. destruct victim; [discriminate|]. apply T in H. unfold size in *; cbn in *; lia.
    + destruct (down_cond c s avg).
      * destruct ch; [discriminate|]. right. eapply contract_moved; try exact H; try reflexivity. exact Hlt.
      * exfalso. destruct ch; [discriminate|]. destruct victim; [discriminate|]. inversion H; subst. unfold size in Hlt. cbn in Hlt. lia.
  - exfalso. inversion H; subst. unfold size in Hlt. cbn in Hlt. lia.
  - exfalso. apply T in H. lia.
  - destruct exn.
    + exfalso. destruct victim; [discriminate|]. inversion H; subst. lia.
    + right. eapply contract_moved; try exact H; try reflexivity. exact Hlt.
Qed.

(* while a departure is between its two halves and an idle member is waiting to replace the departed one,
   the bound is short by that one replacement *)
Definition slack (s : state) : Z :=
  match leaving s, idle s with Some _, _ :: _ => 1 | _, _ => 0 end.

Lemma slack_range : forall s, 0 <= slack s <= 1.
Proof. intros s. unfold slack. destruct (leaving s); destruct (idle s); lia. Qed.

Definition min_inv (c : config) (s : state) : Prop :=
  Z.min (min_size c) (Z.of_nat (length (members s))) <= size s + slack s.

Lemma step_nonshrink : forall c s l s', step c s l = Ok s' -> size s <= size s' ->
  (exists ep, l = LJoin ep /\ leaving s = None /\ memz ep (members s) = false) \/
  ((length (members s') <= length (members s))%nat /\ (size s + 1 <= size s' \/ slack s' = slack s)).
Proof.
  intros c s l s' H Hle.
  assert (T : forall s0 ch, try_expand s0 ch = Ok s' -> members s0 = members s -> size s0 = size s -> slack s0 = slack s ->
              (length (members s') <= length (members s))%nat /\ (size s + 1 <= size s' \/ slack s' = slack s)).
  { intros s0 ch H0 Em Es Ek. apply try_expand_shape in H0 as (Em' & _ & _ & [(_ & ->)|(e & _ & _ & _ & _ & _ & Hs)]).
    - rewrite Em. split; [lia|right; exact Ek].
    - rewrite Em', Em. split; [lia|left; lia]. }
  destruct l as [ep|ep|ep ch|ep st|ep st ch|amount sample w avg ch victim|ep|ch|exn victim]; cbn [step] in H.
  - destruct (leaving s) as [lv|] eqn:El; cbn [is_none negb] in H; [discriminate|].
    destruct (memz ep (members s)) eqn:Em; [|left; eauto].
    right. inversion H; subst. split; [lia|right; reflexivity].
  - right. destruct (leaving s) eqn:El; [discriminate|].
    destruct (memz ep (eps_of (active s))) eqn:Ea; inversion H; subst; clear H.
    + exfalso. apply memz_In in Ea. apply length_remove_first in Ea. unfold size in Hle. cbn in Hle. lia.
    + cbn. split; [apply length_sdiscard_le|]. right. unfold slack. cbn. rewrite El. reflexivity.
  - right. destruct (leaving s) as [lv|] eqn:El; [|discriminate]. destruct (negb (lv =? ep)); [discriminate|].
    destruct (try_expand (set_leaving s None) ch) as [s2| |] eqn:Et; try discriminate. inversion H; subst; clear H. cbn.
    apply try_expand_shape in Et as (Em' & _ & _ & [(Ei & ->)|(e & _ & _ & _ & _ & _ & Hs)]); cbn in *.
    + split; [lia|]. right. unfold slack. cbn. rewrite El, Ei. reflexivity.
    + rewrite Em'. split; [lia|]. left. unfold size in *. cbn in *. lia.
  - right. inversion H; subst. cbn. split; [lia|]. right. reflexivity.
  - right. destruct (st =? 1).
    + destruct ch; [discriminate|]. inversion H; subst. split; [lia|right; reflexivity].
    + eapply T; try exact H; reflexivity.
  - right. destruct (negb (total s + amount =? sample)); [discriminate|].
    destruct (negb (ema_ok s sample w avg)); [discriminate|].
    destruct (up_cond c s avg).
    + destruct victim; [discriminate|]. eapply T; try exact H; reflexivity.
    + destruct (down_cond c s avg).
      * destruct ch; [discriminate|]. apply contract_cases in H as [(_ & -> & _)|(v & _ & Hv & _ & _ & ->)].
        -- cbn. split; [lia|right; reflexivity].
        -- exfalso. apply victim_ok_In in Hv as [Hv _]. cbn in Hv. apply length_remove_first in Hv.
           unfold size in Hle. cbn in Hle. lia.
      * destruct ch; [discriminate|]. destruct victim; [discriminate|]. inversion H; subst. cbn. split; [lia|right; reflexivity].
  - right. inversion H; subst. cbn. split; [lia|right; reflexivity].
  - right. eapply T; try exact H; reflexivity.
  - right. destruct exn.
    + destruct victim; [discriminate|]. inversion H; subst. split; [lia|right; reflexivity].
    + apply contract_cases in H as [(_ & -> & _)|(v & _ & Hv & _ & _ & ->)].
      * split; [lia|right; reflexivity].
      * exfalso. apply victim_ok_In in Hv as [Hv _]. apply length_remove_first in Hv.
        unfold size in Hle. cbn in Hle. lia.
Qed.

Lemma step_min_inv : forall c s l s', inv s -> min_inv c s -> step c s l = Ok s' -> min_inv c s'.
Proof.
  intros c s l s' I M H. unfold min_inv in *. pose proof (slack_range s) as R. pose proof (slack_range s') as R'.
  destruct (Z_lt_le_dec (size s') (size s)) as [Hlt|Hge].
  - destruct (step_shrink _ _ _ _ H Hlt) as [(ep & -> & Ea & Hs & El & Em & Ei)|(v & _ & _ & _ & _ & _ & _ & _ & Hm)]; [|lia].
    (* first half of the departure of an active member *)
    assert (leaving s = None) as El0 by (cbn [step] in H; destruct (leaving s); [discriminate|reflexivity]).
    assert (Hmem : In ep (members s)) by (apply (inv_cover _ I); auto).
    pose proof (length_sdiscard_NoDup ep (members s) (inv_mem _ I) Hmem) as Lm. pose proof (inv_count s I) as Cnt.
    rewrite Em. unfold slack in *. rewrite El, Ei. rewrite El0 in M.
    destruct (idle s) as [|i0 ir] eqn:Eid; cbn in *; unfold size in *; lia.
  - destruct (step_nonshrink _ _ _ _ H Hge) as [(ep & -> & El & Em)|(Lm & [G|K])]; [| lia | lia].
    (* a new member joins *)
    cbn [step] in H. rewrite El, Em in H. cbn [is_none negb] in H. pose proof (healthy_le_size s).
    assert (slack s = 0) as K0 by (unfold slack; rewrite El; reflexivity).
    destruct (Z.ltb_spec (healthy s) (min_size c)); inversion H; subst; clear H; unfold size, slack in *; cbn in *;
      rewrite ?app_length in *; rewrite ?El in *; cbn in *; lia.
Qed.

Lemma run_min_inv : forall c ls s s', inv s -> min_inv c s -> run c s ls = Ok s' -> min_inv c s'.
Proof.
  intros c ls. induction ls as [|l ls IH]; cbn; intros s s' I M H.
  - inversion H; subst. exact M.
  - destruct (step c s l) as [s1| |] eqn:E; try discriminate.
    eapply IH; [eapply step_inv; eassumption|eapply step_min_inv; eassumption|exact H].
Qed.

(* ------------------------------------------------------------------------------------------ *)
(* the adjust rules                                                                           *)
(* ------------------------------------------------------------------------------------------ *)
Lemma adjust_cases : forall c s amount sample w avg ch victim s', step c s (LAdjust amount sample w avg ch victim) = Ok s' ->
  let s1 := {| members := members s; active := active s; idle := idle s; pending := pending s;
               total := total s + amount; ema := Some avg; leaving := leaving s |} in
  sample = total s + amount /\ ema_ok s sample w avg = true /\
  ((up_cond c s avg = true /\ victim = None /\ try_expand s1 ch = Ok s') \/
   (up_cond c s avg = false /\ down_cond c s avg = true /\ ch = None /\ contract c s1 false victim = Ok s') \/
   (up_cond c s avg = false /\ down_cond c s avg = false /\ ch = None /\ victim = None /\ s' = s1)).
Proof.
  intros c s amount sample w avg ch victim s' H s1. cbn [step] in H.
  destruct (Z.eqb_spec (total s + amount) sample) as [E|N]; cbn [negb] in H; [|discriminate].
  destruct (ema_ok s sample w avg); cbn [negb] in H; [|discriminate].
  split; [congruence|]. split; [reflexivity|]. fold s1 in H.
  destruct (up_cond c s avg).
  - destruct victim; [discriminate|]. left. auto.
  - destruct (down_cond c s avg).
    + destruct ch; [discriminate|]. right. left. auto.
    + destruct ch; [discriminate|]. destruct victim; [discriminate|]. right. right. inversion H. auto.
Qed.

Lemma rule_up : forall c s amount sample w avg ch victim s',
  step c s (LAdjust amount sample w avg ch victim) = Ok s' -> up_cond c s avg = true ->
  exists e, ch = Some e /\ victim = None /\ In e (idle s) /\ active s' = active s ++ [fresh e] /\
            idle s' = sdiscard e (idle s) /\ In e (pending s') /\ members s' = members s /\ size s' = size s + 1.
Proof.
  intros c s amount sample w avg ch victim s' H U. apply adjust_cases in H as (_ & _ & [(_ & -> & Ht)|[(U' & _)|(U' & _)]]); try congruence.
  apply try_expand_shape in Ht as (Em & _ & _ & [(Ei & _)|(e & -> & Hi & Ea & Eid & Ep & Hs)]); cbn in *.
  - exfalso. unfold up_cond in U. rewrite Ei in U. cbn in U. rewrite andb_false_r in U. discriminate.
  - exists e. repeat split; auto. rewrite Ep. apply In_sadd. auto.
Qed.

Lemma closed_pref : forall s v, victim_ok s v = true -> pending s = [] ->
  (exists m, In m (active s) /\ is_closed m = true) -> exists m, In m (active s) /\ m_ep m = v /\ is_closed m = true.
Proof.
  intros s v Hv Ep (m & Hm & Hc). unfold victim_ok in Hv.
  assert (Ec : cands s = active s).
  { unfold cands. rewrite Ep. cbn. clear. induction (active s) as [|x a IH]; cbn; [reflexivity|]. rewrite IH. reflexivity. }
  rewrite Ec in Hv.
  assert (X : existsb is_closed (active s) = true) by (apply existsb_exists; exists m; auto).
  rewrite X in Hv. apply existsb_exists in Hv as (m' & Hm' & E). apply andb_true_iff in E as [E1 E2].
  exists m'. repeat split; auto. apply Z.eqb_eq. exact E1.
Qed.

Lemma rule_down : forall c s amount sample w avg ch victim s',
  step c s (LAdjust amount sample w avg ch victim) = Ok s' -> up_cond c s avg = false -> down_cond c s avg = true ->
  pending s = [] -> min_size c < healthy s -> 0 <= min_size c ->
  exists v, victim = Some v /\ ch = None /\ In v (eps_of (active s)) /\ active s' = remove_first v (active s) /\
            idle s' = sadd v (idle s) /\ members s' = members s /\ size s' = size s - 1 /\
            ((exists m, In m (active s) /\ is_closed m = true) -> exists m, In m (active s) /\ m_ep m = v /\ is_closed m = true).
Proof.
  intros c s amount sample w avg ch victim s' H U D Ep Hh Hm0.
  apply adjust_cases in H as (_ & _ & [(U' & _)|[(_ & _ & -> & Hc)|(_ & D' & _)]]); try congruence.
  apply contract_cases in Hc as [(_ & _ & [(P & _)|[X|X]])|(v & -> & Hv & _ & _ & ->)]; cbn in *.
  - contradiction.
  - unfold healthy in *. cbn in X. lia.
  - exfalso. unfold cands in X. cbn in X. rewrite Ep in X. cbn in X.
    assert (forall a : list member, filter (fun _ => true) a = a) as F by (induction a as [|x a IH]; cbn; congruence).
    rewrite F in X. unfold down_cond in D. apply andb_true_iff in D as [_ D].
    unfold size in D. rewrite X in D. cbn in D. apply Z.ltb_lt in D. lia.
  - exists v. pose proof (victim_ok_In _ _ Hv) as [Hv1 _]. cbn in Hv1.
    repeat split; auto.
    + unfold size. cbn. apply size_remove_first. exact Hv1.
    + intros Hex. eapply (closed_pref _ v Hv); cbn; auto.
Qed.

Lemma rule_stay : forall c s amount sample w avg ch victim s',
  step c s (LAdjust amount sample w avg ch victim) = Ok s' -> up_cond c s avg = false ->
  (down_cond c s avg = false \/ pending s <> [] \/ healthy s <= min_size c) ->
  active s' = active s /\ idle s' = idle s /\ pending s' = pending s /\ members s' = members s /\ ch = None /\ victim = None.
Proof.
  intros c s amount sample w avg ch victim s' H U G.
  apply adjust_cases in H as (_ & _ & [(U' & _)|[(_ & D & -> & Hc)|(_ & _ & -> & -> & ->)]]); try congruence.
  - apply contract_cases in Hc as [(-> & -> & _)|(v & _ & _ & [P|F] & Hh & _)]; cbn in *.
    + repeat split; reflexivity.
    + exfalso. destruct G as [G|[G|G]]; [congruence|contradiction|]. unfold healthy in *. cbn in *. lia.
    + discriminate.
  - cbn. repeat split; reflexivity.
Qed.

Lemma adjust_enabled : forall c s amount w avg, inv s -> ema_ok s (total s + amount) w avg = true ->
  exists ch victim s', step c s (LAdjust amount (total s + amount) w avg ch victim) = Ok s'.
Proof.
  intros c s amount w avg I E. cbn [step]. rewrite Z.eqb_refl, E. cbn [negb].
  set (s1 := {| members := members s; active := active s; idle := idle s; pending := pending s;
                total := total s + amount; ema := Some avg; leaving := leaving s |}).
  destruct (up_cond c s avg) eqn:U.
  - unfold up_cond in U. apply andb_true_iff in U as [U _]. apply andb_true_iff in U as [_ U].
    destruct (idle s) as [|e r] eqn:Ei; [discriminate|].
    exists (Some e), None. unfold try_expand. subst s1. cbn [idle members].
    assert (M1 : memz e (e :: r) = true) by (apply memz_In; left; reflexivity).
    assert (M2 : memz e (members s) = true).
    { apply memz_In. apply (inv_cover _ I). right. rewrite Ei. left. reflexivity. }
    rewrite M1. cbn [negb]. rewrite M2. cbn [negb]. eauto.
  - destruct (down_cond c s avg) eqn:D.
    + unfold contract. subst s1. cbn [pending].
      set (s1 := {| members := members s; active := active s; idle := idle s; pending := pending s;
                total := total s + amount; ema := Some avg; leaving := leaving s |}).
      destruct (negb (is_nil (pending s)) && negb false) eqn:G; [exists None, None; eauto|].
      change (healthy s1) with (healthy s).
      destruct (min_size c <? healthy s); [|exists None, None; eauto].
      change (cands s1) with (cands s).
      destruct (cands s) as [|m r] eqn:Ec; [exists None, None; eauto|].
      (* a victim some heap order would pick: a closed candidate if there is one, else any candidate *)
      destruct (existsb is_closed (cands s)) eqn:X.
      * pose proof X as X'. apply existsb_exists in X' as (m' & Hm' & Hc').
        exists None, (Some (m_ep m')).
        assert (V : victim_ok s1 (m_ep m') = true).
        { unfold victim_ok. change (cands s1) with (cands s). rewrite X. apply existsb_exists. exists m'.
          split; [exact Hm'|]. rewrite Z.eqb_refl, Hc'. reflexivity. }
        rewrite V. eauto.
      * exists None, (Some (m_ep m)).
        assert (V : victim_ok s1 (m_ep m) = true).
        { unfold victim_ok. change (cands s1) with (cands s). rewrite X. apply existsb_exists. exists m.
          split; [rewrite Ec; left; reflexivity|apply Z.eqb_refl]. }
        rewrite V. eauto.
    + exists None, None. eauto.
Qed.

(* load-driven growth respects max_size *)
Lemma adjust_growth : forall c s amount sample w avg ch victim s',
  step c s (LAdjust amount sample w avg ch victim) = Ok s' -> size s < size s' ->
  size s < max_size c /\ size s' = size s + 1 /\ up_cond c s avg = true.
Proof.
  intros c s amount sample w avg ch victim s' H G.
  pose proof H as H0. apply adjust_cases in H as (_ & _ & [(U & _ & Ht)|[(_ & _ & _ & Hc)|(_ & _ & _ & _ & ->)]]).
  - destruct (rule_up _ _ _ _ _ _ _ _ _ H0 U) as (e & _ & _ & _ & _ & _ & _ & _ & Hs).
    split; [|split; [exact Hs|exact U]].
    unfold up_cond in U. apply andb_true_iff in U as [_ U']. apply Z.ltb_lt in U'. exact U'.
  - exfalso. apply contract_cases in Hc as [(_ & -> & _)|(v & _ & _ & _ & _ & ->)]; unfold size in *; cbn in *; [lia|].
    pose proof (length_remove_first_le v (active s)). lia.
  - exfalso. unfold size in G. cbn in G. lia.
Qed.

(* ------------------------------------------------------------------------------------------ *)
(* the load comparisons, without the division                                                 *)
(* ------------------------------------------------------------------------------------------ *)
Lemma div_ge_iff : forall m a q : Q, (0 < q)%Q -> (m <= a / q <-> m * q <= a)%Q.
Proof.
  intros m a q Hq. split; intros H.
  - apply (proj2 (Qmult_le_r _ _ q Hq)) in H.
    assert (E : (a / q * q == a)%Q) by (field; intros E; rewrite E in Hq; apply (Qlt_irrefl 0); exact Hq).
    rewrite E in H. exact H.
  - apply Qle_shift_div_l; assumption.
Qed.

Lemma div_le_iff : forall m a q : Q, (0 < q)%Q -> (a / q <= m <-> a <= m * q)%Q.
Proof.
  intros m a q Hq. split; intros H.
  - apply (proj2 (Qmult_le_r _ _ q Hq)) in H.
    assert (E : (a / q * q == a)%Q) by (field; intros E; rewrite E in Hq; apply (Qlt_irrefl 0); exact Hq).
    rewrite E in H. exact H.
  - apply Qle_shift_div_r; assumption.
Qed.

Lemma inject_pos : forall n, 0 < n -> (0 < inject_Z n)%Q.
Proof. intros n H. unfold Qlt. cbn. lia. Qed.

Lemma inject_succ : forall n, inject_Z (n + 1) = (inject_Z n + 1)%Q.
Proof. intros n. rewrite inject_Z_plus. reflexivity. Qed.

Lemma load_ge_max_spec : forall c s avg, 0 < size s ->
  (load_ge_max c s avg = true <-> (max_load c * inject_Z (size s) <= avg)%Q).
Proof.
  intros c s avg H. unfold load_ge_max. destruct (Z.eqb_spec (size s) 0) as [E|_]; [lia|].
  rewrite Qle_bool_iff. apply div_ge_iff. apply inject_pos. exact H.
Qed.

Lemma load_le_min_spec : forall c s avg, 0 < size s ->
  (load_le_min c s avg = true <-> (avg <= min_load c * inject_Z (size s))%Q).
Proof.
  intros c s avg H. unfold load_le_min. destruct (Z.eqb_spec (size s) 0) as [E|_]; [lia|].
  rewrite Qle_bool_iff. apply div_le_iff. apply inject_pos. exact H.
Qed.

Lemma load_ge_max_div : forall c s avg, 0 < size s ->
  (load_ge_max c s avg = true <-> (max_load c <= avg / inject_Z (size s))%Q).
Proof.
  intros c s avg H. unfold load_ge_max. destruct (Z.eqb_spec (size s) 0) as [E|_]; [lia|]. apply Qle_bool_iff.
Qed.

Lemma load_le_min_div : forall c s avg, 0 < size s ->
  (load_le_min c s avg = true <-> (avg / inject_Z (size s) <= min_load c)%Q).
Proof.
  intros c s avg H. unfold load_le_min. destruct (Z.eqb_spec (size s) 0) as [E|_]; [lia|]. apply Qle_bool_iff.
Qed.

(* an adjust step that leaves the size alone happens only inside the band or at a pinned size *)
Lemma adjust_stay_settled : forall c s amount sample w avg ch victim s',
  step c s (LAdjust amount sample w avg ch victim) = Ok s' -> size s' = size s -> 0 < size s ->
  let load := (avg / inject_Z (size s))%Q in
  ((min_load c < load)%Q /\ (load < max_load c)%Q) \/
  ((max_load c <= load)%Q /\ (idle s = [] \/ max_size c <= size s)) \/
  ((load <= min_load c)%Q /\ (size s <= min_size c \/ pending s <> [] \/ healthy s <= min_size c)).
Proof.
  intros c s amount sample w avg ch victim s' H Es Hpos load.
  pose proof H as H0. apply adjust_cases in H as (_ & _ & [(U & _ & _)|[(U & D & _ & Hc)|(U & D & _ & _ & _)]]).
  - exfalso. destruct (rule_up _ _ _ _ _ _ _ _ _ H0 U) as (e & _ & _ & _ & _ & _ & _ & _ & Hs). lia.
  - right. right. unfold down_cond in D. apply andb_true_iff in D as [D1 D2].
    apply (load_le_min_div c s avg Hpos) in D1. split; [exact D1|].
    apply contract_cases in Hc as [(_ & _ & [(P & _)|[X|X]])|(v & _ & Hv & _ & _ & ->)]; cbn in *.
    + right. left. exact P.
    + right. right. unfold healthy in *. cbn in X. exact X.
    + destruct (pending s) as [|p0 pr] eqn:Ep; [|right; left; discriminate].
      exfalso. unfold cands in X. cbn in X.
      assert (forall a : list member, filter (fun _ => true) a = a) as F by (induction a as [|x a IH]; cbn; congruence).
      rewrite F in X. unfold size in Hpos. rewrite X in Hpos. cbn in Hpos. lia.
    + exfalso. apply victim_ok_In in Hv as [Hv _]. cbn in Hv. unfold size in Es. cbn in Es.
      apply length_remove_first in Hv. lia.
  - destruct (Qlt_le_dec load (max_load c)) as [L1|L1].
    + destruct (Qlt_le_dec (min_load c) load) as [L2|L2]; [left; split; assumption|].
      right. right. split; [exact L2|]. left.
      apply (load_le_min_div c s avg Hpos) in L2. unfold down_cond in D. rewrite L2 in D. cbn in D. apply Z.ltb_ge in D. exact D.
    + right. left. split; [exact L1|].
      apply (load_ge_max_div c s avg Hpos) in L1. unfold up_cond in U. rewrite L1 in U. cbn in U.
      destruct (idle s); [left; reflexivity|]. cbn in U. apply Z.ltb_ge in U. right. exact U.
Qed.

(* ------------------------------------------------------------------------------------------ *)
(* settling under a constant smoothed load                                                    *)
(* ------------------------------------------------------------------------------------------ *)
Definition cfg_ok (c : config) : Prop :=
  1 <= min_size c /\ (0 <= min_load c)%Q /\ (2 * min_load c < max_load c)%Q.

(* a quiet stretch: only get/put adjustments that all see the same smoothed value a, and open completions *)
Definition quiet (a : Q) (l : label) : Prop :=
  match l with
  | LAdjust _ _ _ avg _ _ => avg = a
  | LOpenDone _ => True
  | _ => False
  end.

Fixpoint sizes (c : config) (s : state) (ls : list label) : list Z :=
  match ls with
  | [] => []
  | l :: r => match step c s l with Ok s' => size s' :: sizes c s' r | _ => [] end
  end.

Fixpoint nondecr (z : Z) (zs : list Z) : Prop :=
  match zs with [] => True | y :: r => z <= y /\ nondecr y r end.
Fixpoint nonincr (z : Z) (zs : list Z) : Prop :=
  match zs with [] => True | y :: r => y <= z /\ nonincr y r end.

Definition J_up (a : Q) (c : config) (s : state) : Prop :=
  size s <= min_size c \/ (min_load c * inject_Z (size s) < a)%Q.
Definition J_dn (a : Q) (c : config) (s : state) : Prop :=
  1 <= size s /\ (a < max_load c * inject_Z (size s))%Q.

Lemma quiet_step : forall c a s l s', cfg_ok c -> quiet a l -> step c s l = Ok s' ->
  (size s' = size s /\ length (idle s') = length (idle s)) \/
  (size s' = size s + 1 /\ (S (length (idle s')) <= length (idle s))%nat /\ J_up a c s' /\ ~ J_dn a c s) \/
  (size s' = size s - 1 /\ min_size c <= size s' /\ J_dn a c s' /\ ~ J_up a c s).
Proof.
  intros c a s l s' (Hms & Hlo & Hband) Q H.
  destruct l as [ep|ep|ep ch|ep st|ep st ch|amount sample w avg ch victim|ep|ch|exn victim]; cbn in Q; try contradiction.
  2:{ left. cbn in H. inversion H; subst. unfold size. cbn. auto. }
  subst avg. pose proof H as H0.
  apply adjust_cases in H as (_ & _ & [(U & _ & _)|[(U & D & _ & Hc)|(U & D & _ & _ & ->)]]).
  - (* expansion *)
    right. left. destruct (rule_up _ _ _ _ _ _ _ _ _ H0 U) as (e & _ & _ & Hi & _ & Eid & _ & _ & Hs).
    split; [exact Hs|]. split; [rewrite Eid; apply length_sdiscard_In; exact Hi|].
    unfold up_cond in U. apply andb_true_iff in U as [U _]. apply andb_true_iff in U as [U _].
    assert (0 <= size s) by (unfold size; lia).
    destruct (Z.eq_dec (size s) 0) as [Z0|NZ].
    + split; [left; lia|]. intros [X _]. lia.
    + assert (Hpos : 0 < size s) by lia. apply (load_ge_max_spec c s a Hpos) in U.
      assert (Hq : (1 <= inject_Z (size s))%Q) by (change 1%Q with (inject_Z 1); rewrite <- Zle_Qle; lia).
      split.
      * right. rewrite Hs, inject_succ. nra.
      * intros [_ X]. apply (Qlt_not_le _ _ X). exact U.
  - (* contraction, or blocked *)
    unfold down_cond in D. apply andb_true_iff in D as [D1 D2]. apply Z.ltb_lt in D2.
    assert (Hpos : 0 < size s) by lia. apply (load_le_min_spec c s a Hpos) in D1.
    apply contract_cases in Hc as [(_ & -> & _)|(v & _ & Hv & _ & _ & Es')].
    + left. unfold size. cbn. auto.
    + right. right. apply victim_ok_In in Hv as [Hv _]. cbn in Hv.
      assert (Hs : size s' = size s - 1)
        by (rewrite Es'; unfold size; cbn; apply size_remove_first; exact Hv).
      split; [exact Hs|]. split; [rewrite Hs; lia|].
      assert (Hq : (2 <= inject_Z (size s))%Q) by (change 2%Q with (inject_Z 2); rewrite <- Zle_Qle; lia).
      assert (Eq : inject_Z (size s) = (inject_Z (size s - 1) + 1)%Q) by (rewrite <- inject_succ; f_equal; lia).
      split.
      * split; [lia|]. rewrite Hs. rewrite Eq in D1, Hq. nra.
      * intros [X|X]; [lia|]. apply (Qlt_not_le _ _ X). exact D1.
  - left. unfold size. cbn. auto.
Qed.

Lemma J_up_size : forall a c s s', size s' = size s -> J_up a c s -> J_up a c s'.
Proof. intros a c s s' E H. unfold J_up in *. rewrite E. exact H. Qed.
Lemma J_dn_size : forall a c s s', size s' = size s -> J_dn a c s -> J_dn a c s'.
Proof. intros a c s s' E H. unfold J_dn in *. rewrite E. exact H. Qed.

Lemma run_up : forall c a ls s s', cfg_ok c -> Forall (quiet a) ls -> J_up a c s -> run c s ls = Ok s' ->
  nondecr (size s) (sizes c s ls) /\ size s' + Z.of_nat (length (idle s')) <= size s + Z.of_nat (length (idle s)).
Proof.
  intros c a ls. induction ls as [|l ls IH]; intros s s' Hc Hq J H; cbn in *.
  - inversion H; subst. split; [exact I|lia].
  - destruct (step c s l) as [s1| |] eqn:E; try discriminate. inversion Hq as [|? ? Q1 Q2]; subst.
    destruct (quiet_step _ _ _ _ _ Hc Q1 E) as [(Es & Ei)|[(Es & Ei & J1 & _)|(_ & _ & _ & NJ)]].
    + destruct (IH s1 s' Hc Q2 (J_up_size _ _ _ _ Es J) H) as (M & B). split; [split; [lia|exact M]|lia].
    + destruct (IH s1 s' Hc Q2 J1 H) as (M & B). split; [split; [lia|exact M]|lia].
    + contradiction.
Qed.

Lemma run_dn : forall c a ls s s', cfg_ok c -> Forall (quiet a) ls -> J_dn a c s -> run c s ls = Ok s' ->
  nonincr (size s) (sizes c s ls) /\ (size s' = size s \/ min_size c <= size s').
Proof.
  intros c a ls. induction ls as [|l ls IH]; intros s s' Hc Hq J H; cbn in *.
  - inversion H; subst. split; [exact I|left; reflexivity].
  - destruct (step c s l) as [s1| |] eqn:E; try discriminate. inversion Hq as [|? ? Q1 Q2]; subst.
    destruct (quiet_step _ _ _ _ _ Hc Q1 E) as [(Es & Ei)|[(_ & _ & _ & NJ)|(Es & Hm & J1 & _)]].
    + destruct (IH s1 s' Hc Q2 (J_dn_size _ _ _ _ Es J) H) as (M & B). split; [split; [lia|exact M]|lia].
    + contradiction.
    + destruct (IH s1 s' Hc Q2 J1 H) as (M & B). split; [split; [lia|exact M]|lia].
Qed.

Lemma settles : forall c a ls s s', cfg_ok c -> Forall (quiet a) ls -> run c s ls = Ok s' ->
  (nondecr (size s) (sizes c s ls) /\ size s' - size s <= Z.of_nat (length (idle s))) \/
  (nonincr (size s) (sizes c s ls) /\ (size s' = size s \/ min_size c <= size s')).
Proof.
  intros c a ls. induction ls as [|l ls IH]; intros s s' Hc Hq H; cbn in *.
  - inversion H; subst. left. split; [exact I|lia].
  - destruct (step c s l) as [s1| |] eqn:E; try discriminate. inversion Hq as [|? ? Q1 Q2]; subst.
    destruct (quiet_step _ _ _ _ _ Hc Q1 E) as [(Es & Ei)|[(Es & Ei & J1 & _)|(Es & Hm & J1 & _)]].
    + destruct (IH s1 s' Hc Q2 H) as [(M & B)|(M & B)].
      * left. split; [split; [lia|exact M]|lia].
      * right. split; [split; [lia|exact M]|lia].
    + left. destruct (run_up _ _ _ _ _ Hc Q2 J1 H) as (M & B). split; [split; [lia|exact M]|lia].
    + right. destruct (run_dn _ _ _ _ _ Hc Q2 J1 H) as (M & B). split; [split; [lia|exact M]|lia].
Qed.

(* ------------------------------------------------------------------------------------------ *)
(* EMA                                                                                        *)
(* ------------------------------------------------------------------------------------------ *)
Lemma ema_between : forall v s w : Q, (0 <= w)%Q -> (w <= 1)%Q ->
  ((v <= s)%Q -> (v <= update v s w)%Q /\ (update v s w <= s)%Q) /\
  ((s <= v)%Q -> (s <= update v s w)%Q /\ (update v s w <= v)%Q).
Proof. intros v s w H0 H1. unfold update. split; intros H; split; nra. Qed.

Lemma ema_dist : forall v s w : Q, (update v s w - s == w * (v - s))%Q.
Proof. intros. unfold update. ring. Qed.

Lemma iterate_dist : forall ws v s, (iterate v s ws - s == fold_right Qmult 1%Q ws * (v - s))%Q.
Proof.
  intros ws. induction ws as [|w r IH]; intros v s; cbn.
  - ring.
  - rewrite IH. rewrite ema_dist. ring.
Qed.

Lemma iterate_between : forall ws v s, Forall (fun w => (0 <= w)%Q /\ (w <= 1)%Q) ws ->
  ((v <= s)%Q -> (v <= iterate v s ws)%Q /\ (iterate v s ws <= s)%Q) /\
  ((s <= v)%Q -> (s <= iterate v s ws)%Q /\ (iterate v s ws <= v)%Q).
Proof.
  intros ws. induction ws as [|w r IH]; intros v s F; cbn.
  - split; intros H; split; lra.
  - inversion F as [|? ? [W0 W1] Fr]; subst.
    destruct (ema_between v s w W0 W1) as [B1 B2]. destruct (IH (update v s w) s Fr) as [I1 I2].
    split; intros H.
    + destruct (B1 H) as [X1 X2]. destruct (I1 X2) as [Y1 Y2]. split; lra.
    + destruct (B2 H) as [X1 X2]. destruct (I2 X1) as [Y1 Y2]. split; lra.
Qed.
