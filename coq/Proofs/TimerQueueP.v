(* Lemmas about Model/TimerQueue.v: the inductive invariant of the small-step model and its consequences. *)
From Coq Require Import ZifyBool.
From Scales Require Import Model.Base Model.TimerQueue.
Ltac Zify.zify_post_hook ::= Z.div_mod_to_equations.
Local Open Scope Z_scope.

(* ------------------------------------------------------------------------------------------------ *)
(* rounding                                                                                          *)
(* ------------------------------------------------------------------------------------------------ *)
Lemma ceilr_ge : forall r d, 0 <= r -> d <= ceilr r d.
Proof. intros r d Hr. unfold ceilr. destruct (Z.eqb_spec r 0) as [E|E]; [lia|]. nia. Qed.

Lemma ceilr_lt : forall r d, 0 < r -> ceilr r d < d + r.
Proof. intros r d Hr. unfold ceilr. destruct (Z.eqb_spec r 0) as [E|E]; [lia|]. nia. Qed.

Lemma ceilr_grid : forall r d, 0 < r -> (ceilr r d) mod r = 0.
Proof. intros r d Hr. unfold ceilr. destruct (Z.eqb_spec r 0) as [E|E]; [lia|]. apply Z.mod_mul. lia. Qed.

Lemma ceilr_least : forall r d m, 0 < r -> m mod r = 0 -> d <= m -> ceilr r d <= m.
Proof.
  intros r d m Hr Hm Hd. unfold ceilr. destruct (Z.eqb_spec r 0) as [E|E]; [lia|].
  apply Z.mod_divide in Hm; [|lia]. destruct Hm as [k ->].
  assert ((d + r - 1) / r < k + 1) by (apply Z.div_lt_upper_bound; nia).
  nia.
Qed.

(* ------------------------------------------------------------------------------------------------ *)
(* heap order, sorted queue                                                                          *)
(* ------------------------------------------------------------------------------------------------ *)
Definition key_lt (a b : entry) : Prop := e_dl a < e_dl b \/ (e_dl a = e_dl b /\ e_seq a < e_seq b).

Lemma key_ltb_spec : forall a b, key_ltb a b = true <-> key_lt a b.
Proof. intros a b. unfold key_ltb, key_lt. lia. Qed.

Lemma key_lt_trans : forall a b c, key_lt a b -> key_lt b c -> key_lt a c.
Proof. unfold key_lt. intros. lia. Qed.

Fixpoint sorted (l : list entry) : Prop :=
  match l with
  | [] => True
  | x :: l' => (forall y, In y l' -> key_lt x y) /\ sorted l'
  end.

Lemma sorted_app_r : forall l1 l2, sorted (l1 ++ l2) -> sorted l2.
Proof. induction l1 as [|x l1 IH]; cbn; intros l2 H; [exact H|]. destruct H as [_ H]. apply IH, H. Qed.

Lemma sorted_app_lt : forall l1 l2, sorted (l1 ++ l2) -> forall x y, In x l1 -> In y l2 -> key_lt x y.
Proof.
  induction l1 as [|a l1 IH]; cbn; intros l2 H x y Hx Hy; [contradiction|]. destruct H as [H1 H2].
  destruct Hx as [<-|Hx]; [apply H1, in_or_app; right; exact Hy|]. eapply IH; eauto.
Qed.

Lemma In_insert : forall e l y, In y (insert e l) <-> y = e \/ In y l.
Proof.
  intros e l y. induction l as [|x l IH]; cbn.
  - intuition.
  - destruct (key_ltb e x); cbn; rewrite ?IH; intuition.
Qed.

Lemma insert_sorted : forall e l, sorted l -> (forall y, In y l -> e_seq y <> e_seq e) -> sorted (insert e l).
Proof.
  intros e l. induction l as [|x l IH]; cbn; intros Hs Hne.
  - split; [intros y []|exact I].
  - destruct Hs as [Hx Hs]. destruct (key_ltb e x) eqn:K.
    + apply key_ltb_spec in K. cbn. split; [|split; assumption].
      intros y [<-|Hy]; [exact K|]. eapply key_lt_trans; [exact K|]. apply Hx, Hy.
    + assert (K' : key_lt x e).
      { assert (N : ~ key_lt e x) by (rewrite <- key_ltb_spec; congruence).
        specialize (Hne x (or_introl eq_refl)). unfold key_lt in *. lia. }
      cbn. split.
      * intros y Hy. apply In_insert in Hy as [->|Hy]; [exact K'|apply Hx, Hy].
      * apply IH; [exact Hs|]. intros y Hy. apply Hne. right. exact Hy.
Qed.

Lemma insert_length : forall e l, length (insert e l) = S (length l).
Proof. intros e l. induction l as [|x l IH]; cbn; [reflexivity|]. destruct (key_ltb e x); cbn; congruence. Qed.

Lemma insert_nodup : forall e l, NoDup (map e_seq l) -> ~ In (e_seq e) (map e_seq l) -> NoDup (map e_seq (insert e l)).
Proof.
  intros e l. induction l as [|x l IH]; cbn; intros Hn Hi.
  - constructor; [intros []|constructor].
  - destruct (key_ltb e x); cbn.
    + constructor; [exact Hi|exact Hn].
    + inversion Hn as [|? ? Hx Hl]; subst. constructor.
      * intros Hin. apply in_map_iff in Hin as (y & Ey & Hy). apply In_insert in Hy as [->|Hy].
        -- apply Hi. left. congruence.
        -- apply Hx. rewrite <- Ey. apply in_map, Hy.
      * apply IH; [exact Hl|]. intros Hin. apply Hi. right. exact Hin.
Qed.

(* the shape of the queue after an insertion, as seen from its head *)
Lemma insert_head : forall e x l,
  (insert e (x :: l) = e :: x :: l /\ e_dl e <= e_dl x) \/
  (insert e (x :: l) = x :: insert e l /\ insert e l <> []).
Proof.
  intros e x l. cbn. destruct (key_ltb e x) eqn:K.
  - left. split; [reflexivity|]. apply key_ltb_spec in K. unfold key_lt in K. lia.
  - right. split; [reflexivity|]. intros E. pose proof (insert_length e l) as L. rewrite E in L. discriminate.
Qed.

Lemma set_canc_key : forall s e, e_dl (set_canc s e) = e_dl e /\ e_seq (set_canc s e) = e_seq e.
Proof. intros s e. unfold set_canc. destruct (e_seq e =? s); cbn; auto. Qed.

Lemma set_canc_true : forall s e, e_canc e = true -> e_canc (set_canc s e) = true.
Proof. intros s e H. unfold set_canc. destruct (e_seq e =? s); cbn; auto. Qed.

Lemma set_canc_hit : forall s e, e_seq e = s -> e_canc (set_canc s e) = true.
Proof. intros s e H. unfold set_canc. rewrite (proj2 (Z.eqb_eq _ _) H). reflexivity. Qed.

Lemma set_canc_other : forall s e, e_seq e <> s -> set_canc s e = e.
Proof. intros s e H. unfold set_canc. destruct (Z.eqb_spec (e_seq e) s); [contradiction|reflexivity]. Qed.

Lemma map_set_canc_seq : forall s l, map e_seq (map (set_canc s) l) = map e_seq l.
Proof. intros s l. rewrite map_map. apply map_ext. intros e. apply set_canc_key. Qed.

Lemma sorted_set_canc : forall s l, sorted l -> sorted (map (set_canc s) l).
Proof.
  intros s l. induction l as [|x l IH]; cbn; [auto|]. intros [Hx Hs]. split; [|apply IH, Hs].
  intros y Hy. apply in_map_iff in Hy as (y0 & <- & Hy0). specialize (Hx y0 Hy0).
  unfold key_lt in *. destruct (set_canc_key s x) as [-> ->]. destruct (set_canc_key s y0) as [-> ->]. exact Hx.
Qed.

(* ------------------------------------------------------------------------------------------------ *)
(* what one worker segment does                                                                      *)
(* ------------------------------------------------------------------------------------------------ *)
Definition live (x : entry) : bool := negb (e_canc x).

(* The segment removes a prefix `popped` of the queue; each removed entry was cancelled or due; the
   un-cancelled ones are spawned in queue order; the flag is clear afterwards; and it parks at ... *)
Definition seg_post (nw : Z) (l : list entry) (sp : list Z) (w : wout) (popped : list entry) : Prop :=
  l = popped ++ w_q w /\
  w_new w = sp ++ map e_seq (filter live popped) /\
  (forall x, In x popped -> e_canc x = true \/ e_dl x <= nw) /\
  w_ev w = false.

Definition parks_ok (nw : Z) (w : wout) : Prop :=
  (w_pc w = IdleWait /\ w_q w = []) \/
  (exists x l', w_q w = x :: l' /\ w_pc w = TimedWait (e_dl x) /\ nw < e_dl x).

Lemma top_spec : forall nw l e sp,
  exists popped, seg_post nw l sp (top nw l e sp) popped /\
    ((e = true /\ popped = [] /\ w_pc (top nw l e sp) = Sleep0) \/ (e = false /\ parks_ok nw (top nw l e sp))).
Proof.
  intros nw l. induction l as [|x l IH]; intros e sp.
  - exists []. cbn. destruct e; cbn; unfold seg_post, parks_ok; cbn; rewrite app_nil_r; intuition.
  - cbn [top]. destruct e.
    + exists []. unfold seg_post; cbn. rewrite app_nil_r. intuition.
    + destruct (e_canc x) eqn:Cx.
      * destruct (IH false sp) as (p & (P1 & P2 & P3 & P4) & P5). exists (x :: p). split.
        -- unfold seg_post. cbn [app filter]. unfold live at 1. rewrite Cx. cbn [negb]. repeat split; try assumption.
           ++ rewrite <- P1. reflexivity.
           ++ intros y [<-|Hy]; [left; exact Cx|apply P3, Hy].
        -- right. destruct P5 as [(E & _)|P5]; [discriminate|exact P5].
      * destruct (Z.ltb_spec nw (e_dl x)) as [Lt|Ge].
        -- exists []. split; [unfold seg_post; cbn; rewrite app_nil_r; intuition|].
           right. split; [reflexivity|]. right. exists x, l. cbn. auto.
        -- destruct (IH false (sp ++ [e_seq x])) as (p & (P1 & P2 & P3 & P4) & P5). exists (x :: p). split.
           ++ unfold seg_post. cbn [app filter]. unfold live at 1. rewrite Cx. cbn [negb map]. repeat split; try assumption.
              ** rewrite <- P1. reflexivity.
              ** rewrite P2, <- app_assoc. reflexivity.
              ** intros y [<-|Hy]; [right; lia|apply P3, Hy].
           ++ right. destruct P5 as [(E & _)|P5]; [discriminate|exact P5].
Qed.

(* the three ways a segment can end *)
Definition ends_ok (nw : Z) (ev0 : bool) (w : wout) : Prop :=
  (w_pc w = Sleep0 /\ w_q w <> [] /\ ev0 = true) \/ parks_ok nw w.

(* top, called with a queue that is non-empty whenever the flag is set *)
Lemma top_ends : forall nw l e sp, (e = true -> l <> []) ->
  exists popped, seg_post nw l sp (top nw l e sp) popped /\ ends_ok nw e (top nw l e sp) /\ (e = false \/ popped = []).
Proof.
  intros nw l e sp Hne. destruct (top_spec nw l e sp) as (p & P & [(E & Pn & Pc)|(E & Pk)]).
  - exists p. split; [exact P|]. split; [|right; exact Pn]. left. split; [exact Pc|]. split; [|exact E].
    destruct P as (P1 & _). subst p. cbn in P1. rewrite <- P1. apply Hne, E.
  - exists p. split; [exact P|]. split; [right; exact Pk|left; exact E].
Qed.

Lemma pop_then_top : forall nw x l e, (e = true -> l <> []) -> (e_canc x = true \/ e_dl x <= nw) ->
  exists popped, seg_post nw (x :: l) [] (top nw l e (if e_canc x then [] else [e_seq x])) popped /\
    ends_ok nw e (top nw l e (if e_canc x then [] else [e_seq x])) /\ popped <> [].
Proof.
  intros nw x l e Hne Hx.
  destruct (top_ends nw l e (if e_canc x then [] else [e_seq x]) Hne) as (p & (P1 & P2 & P3 & P4) & Pe & _).
  exists (x :: p). split; [|split; [exact Pe|discriminate]].
  unfold seg_post. repeat split.
  - cbn. rewrite <- P1. reflexivity.
  - rewrite P2. cbn [filter]. unfold live at 2. destruct (e_canc x); reflexivity.
  - intros y [<-|Hy]; [exact Hx|apply P3, Hy].
  - exact P4.
Qed.

Definition pc_inv (st : state) : Prop :=
  match pc st with
  | Top => ev st = true -> q st <> []
  | IdleWait => (ev st = false -> q st = []) /\ (ev st = true -> q st <> [])
  | Sleep0 => q st <> [] /\ (ev st = true -> exists a b l, q st = a :: b :: l)
  | TimedWait ex => exists x l, q st = x :: l /\ e_dl x <= ex /\ (ev st = false -> e_dl x = ex) /\ (ev st = true -> l <> [])
  | Crashed => False
  end.

Lemma nil_seg : forall nw l pc0, seg_post nw l [] (mkW l false pc0 []) [].
Proof. intros. unfold seg_post. cbn. intuition. Qed.

Lemma worker_seg_spec : forall st b w, pc_inv st -> worker_seg st b = Some w ->
  exists popped, seg_post (now st) (q st) [] w popped /\ ends_ok (now st) (ev st) w /\
    (popped <> [] \/ ev st = true \/ pc st = Top \/ pc st = Sleep0).
Proof.
  intros st b w Hpc Hw. unfold worker_seg in Hw. unfold pc_inv in Hpc. destruct (pc st) as [| | |ex|] eqn:P.
  - (* Top *) destruct b; [discriminate|]. inversion Hw; subst w; clear Hw.
    destruct (top_ends (now st) (q st) (ev st) [] Hpc) as (p & P1 & P2 & _). exists p. split; [exact P1|]. split; [exact P2|]. auto 6.
  - (* IdleWait *) destruct b; [|discriminate]. destruct (ev st) eqn:E; [|discriminate]. cbn in Hw.
    inversion Hw; subst w; clear Hw. unfold after_idle. exists []. split; [apply nil_seg|]. split; [|auto 6].
    left. cbn. destruct Hpc as [_ H]. auto.
  - (* Sleep0 *) destruct b; [discriminate|]. inversion Hw; subst w; clear Hw. destruct Hpc as [Hne H2].
    destruct (q st) as [|x l] eqn:Q; [congruence|]. unfold peek.
    assert (Hl : ev st = true -> l <> []).
    { intros E. destruct (H2 E) as (a & b' & l' & E'). inversion E'; subst. discriminate. }
    destruct (e_canc x) eqn:Cx.
    + destruct (pop_then_top (now st) x l (ev st) Hl (or_introl Cx)) as (p & P1 & P2 & P3).
      rewrite Cx in P1, P2. exists p. split; [exact P1|]. split; [exact P2|]. auto 6.
    + destruct (Z.ltb_spec (now st) (e_dl x)) as [Lt|Ge].
      * destruct (ev st) eqn:E.
        -- destruct (top_ends (now st) (x :: l) true [] (fun _ => ltac:(discriminate))) as (p & P1 & P2 & _).
           exists p. split; [exact P1|]. split; [exact P2|]. auto 6.
        -- exists []. split; [apply nil_seg|]. split; [|auto 6]. right. right. exists x, l. cbn. auto.
      * destruct (pop_then_top (now st) x l (ev st) Hl (or_intror Ge)) as (p & P1 & P2 & P3).
        rewrite Cx in P1, P2. exists p. split; [exact P1|]. split; [exact P2|]. auto 6.
  - (* TimedWait *) destruct Hpc as (x & l & Q & Hx & He & Hl). destruct b.
    + destruct (ev st) eqn:E; [|discriminate]. inversion Hw; subst w; clear Hw. rewrite Q.
      destruct (top_ends (now st) (x :: l) true [] (fun _ => ltac:(discriminate))) as (p & P1 & P2 & _).
      exists p. split; [exact P1|]. split; [exact P2|]. auto 6.
    + destruct (Z.leb_spec ex (now st)) as [Le|Gt]; [|discriminate]. inversion Hw; subst w; clear Hw. rewrite Q.
      unfold pop_timeout.
      assert (Hd : e_canc x = true \/ e_dl x <= now st) by (right; lia).
      destruct (pop_then_top (now st) x l (ev st) Hl Hd) as (p & P1 & P2 & P3).
      replace (if e_canc x then [] else [] ++ [e_seq x]) with (if e_canc x then [] else [e_seq x]) by (destruct (e_canc x); reflexivity).
      exists p. split; [exact P1|]. split; [exact P2|]. auto 6.
  - discriminate.
Qed.

(* ------------------------------------------------------------------------------------------------ *)
(* list helpers                                                                                      *)
(* ------------------------------------------------------------------------------------------------ *)
Lemma nodup_app_intro : forall (a b : list Z), NoDup a -> NoDup b -> (forall x, In x a -> ~ In x b) -> NoDup (a ++ b).
Proof.
  induction a as [|x a IH]; cbn; intros b Ha Hb Hd; [exact Hb|].
  inversion Ha as [|? ? Hx Ha']; subst. constructor.
  - intros Hin. apply in_app_or in Hin as [Hin|Hin]; [contradiction|]. exact (Hd x (or_introl eq_refl) Hin).
  - apply IH; auto.
Qed.

Lemma nodup_app_disj : forall (a b : list Z) x, NoDup (a ++ b) -> In x a -> In x b -> False.
Proof.
  induction a as [|y a IH]; cbn; intros b x Hn Ha Hb; [contradiction|].
  inversion Hn as [|? ? Hy Hn']; subst. destruct Ha as [->|Ha].
  - apply Hy, in_or_app. right. exact Hb.
  - eapply IH; eauto.
Qed.

Lemma nodup_map_filter : forall (f : entry -> Z) p l, NoDup (map f l) -> NoDup (map f (filter p l)).
Proof.
  intros f p l. induction l as [|x l IH]; cbn; intros Hn; [constructor|].
  inversion Hn as [|? ? Hx Hn']; subst. destruct (p x); cbn; [|auto].
  constructor; [|auto]. intros Hin. apply Hx. apply in_map_iff in Hin as (y & Ey & Hy).
  apply filter_In in Hy as [Hy _]. rewrite <- Ey. apply in_map, Hy.
Qed.

(* ------------------------------------------------------------------------------------------------ *)
(* the invariant                                                                                     *)
(* ------------------------------------------------------------------------------------------------ *)
(* instances in the order in which the worker took them off the queue *)
Definition taken (st : state) : list Z := map fst (ran st) ++ spawned st.

Record Inv (r : Z) (st : state) : Prop := mkInv {
  I_seq0 : 0 <= seq st;
  I_sorted : sorted (q st);
  I_qnd : NoDup (map e_seq (q st));
  I_tnd : NoDup (taken st);
  I_disj : forall s, In s (map e_seq (q st)) -> ~ In s (taken st);
  I_rrange : forall s d, In (s, d) (reqs st) -> 1 <= s <= seq st;
  I_rfun : forall s d d', In (s, d) (reqs st) -> In (s, d') (reqs st) -> d = d';
  I_crange : forall s tc, In (s, tc) (cancels st) -> 1 <= s <= seq st;
  I_q : forall e, In e (q st) -> exists d, In (e_seq e, d) (reqs st) /\ e_dl e = ceilr r d;
  I_sp : forall s, In s (spawned st) -> exists d, In (s, d) (reqs st) /\ ceilr r d <= now st;
  I_ran : forall s t, In (s, t) (ran st) -> exists d, In (s, d) (reqs st) /\ ceilr r d <= t /\ t <= now st;
  I_canc : forall s tc d, In (s, tc) (cancels st) -> In (s, d) (reqs st) -> tc < ceilr r d ->
             ~ In s (taken st) /\ (forall e, In e (q st) -> e_seq e = s -> e_canc e = true);
  I_pc : pc_inv st }.

Lemma inv_init : forall r, Inv r init.
Proof.
  intros r. constructor; cbn; try lia; try (intros; contradiction); try constructor; try (intros; discriminate).
Qed.

Lemma taken_in : forall r st s, Inv r st -> In s (taken st) -> exists d, In (s, d) (reqs st) /\ ceilr r d <= now st.
Proof.
  intros r st s HI Hin. unfold taken in Hin. apply in_app_or in Hin as [Hin|Hin].
  - apply in_map_iff in Hin as ((s0 & t) & E & Hin). cbn in E. subst s0.
    destruct (I_ran _ _ HI _ _ Hin) as (d & D1 & D2 & D3). exists d. split; [exact D1|lia].
  - apply (I_sp _ _ HI), Hin.
Qed.

Lemma taken_range : forall r st s, Inv r st -> In s (taken st) -> 1 <= s <= seq st.
Proof. intros r st s HI Hin. destruct (taken_in _ _ _ HI Hin) as (d & D & _). exact (I_rrange _ _ HI _ _ D). Qed.

Lemma q_range : forall r st e, Inv r st -> In e (q st) -> 1 <= e_seq e <= seq st.
Proof. intros r st e HI Hin. destruct (I_q _ _ HI _ Hin) as (d & D & _). exact (I_rrange _ _ HI _ _ D). Qed.

Ltac proj := cbn [q ev seq now pc spawned ran reqs cancels] in *.

Lemma inv_sched : forall r st d st', Inv r st -> step r st (Sched d) = Some st' -> Inv r st'.
Proof.
  intros r st d st' HI Hst. cbn in Hst. inversion Hst; subst st'; clear Hst.
  set (e := mkE (ceilr r d) (seq st + 1) false).
  assert (Fresh : forall y, In y (q st) -> e_seq y <> e_seq e).
  { intros y Hy. pose proof (q_range _ _ _ HI Hy). cbn. lia. }
  assert (FreshT : ~ In (seq st + 1) (taken st)).
  { intros Hin. pose proof (taken_range _ _ _ HI Hin). lia. }
  destruct HI as [H0 Hs Hqn Htn Hdj Hrr Hrf Hcr Hq Hsp Hran Hca Hpc].
  constructor; unfold taken in *; proj.
  - lia.
  - apply insert_sorted; assumption.
  - apply insert_nodup; [assumption|]. intros Hin. apply in_map_iff in Hin as (y & Ey & Hy). exact (Fresh y Hy Ey).
  - assumption.
  - intros s Hin. apply in_map_iff in Hin as (y & Ey & Hy). apply In_insert in Hy as [->|Hy].
    + cbn in Ey. subst s. exact FreshT.
    + apply Hdj. rewrite <- Ey. apply in_map, Hy.
  - intros s d0 Hin. apply in_app_or in Hin as [Hin|[Hin|[]]].
    + specialize (Hrr _ _ Hin). lia.
    + inversion Hin; subst. lia.
  - intros s d1 d2 H1 H2. apply in_app_or in H1 as [H1|[H1|[]]]; apply in_app_or in H2 as [H2|[H2|[]]].
    + eapply Hrf; eauto.
    + inversion H2; subst. specialize (Hrr _ _ H1). lia.
    + inversion H1; subst. specialize (Hrr _ _ H2). lia.
    + inversion H1; inversion H2; subst. reflexivity.
  - intros s tc Hin. specialize (Hcr _ _ Hin). lia.
  - intros y Hy. apply In_insert in Hy as [->|Hy].
    + exists d. split; [apply in_or_app; right; left; reflexivity|reflexivity].
    + destruct (Hq y Hy) as (d0 & D1 & D2). exists d0. split; [apply in_or_app; left; exact D1|exact D2].
  - intros s Hin. destruct (Hsp s Hin) as (d0 & D1 & D2). exists d0. split; [apply in_or_app; left; exact D1|exact D2].
  - intros s t Hin. destruct (Hran s t Hin) as (d0 & D1 & D2). exists d0. split; [apply in_or_app; left; exact D1|exact D2].
  - intros s tc d0 Hc Hr Hlt. apply in_app_or in Hr as [Hr|[Hr|[]]].
    + destruct (Hca s tc d0 Hc Hr Hlt) as [C1 C2]. split; [exact C1|].
      intros y Hy Ey. apply In_insert in Hy as [->|Hy]; [|apply C2; assumption].
      cbn in Ey. specialize (Hcr _ _ Hc). lia.
    + inversion Hr; subst. specialize (Hcr _ _ Hc). lia.
  - unfold pc_inv in *. proj. fold e.
    assert (Hne : insert e (q st) <> []).
    { intros E. pose proof (insert_length e (q st)) as L. rewrite E in L. discriminate. }
    destruct (pc st) as [| | |ex|].
    + intros _. exact Hne.
    + destruct Hpc as [H1 H2]. split; [|intros _; exact Hne].
      intros E. apply orb_false_iff in E as [E1 E2]. rewrite (H1 E1) in E2. cbn in E2. rewrite Z.eqb_refl in E2. discriminate.
    + destruct Hpc as [H1 H2]. split; [exact Hne|]. intros _.
      destruct (q st) as [|x l]; [congruence|]. destruct (insert_head e x l) as [[-> _]|[-> Hn]].
      * eauto.
      * destruct (insert e l) as [|y l']; [congruence|]. eauto.
    + destruct Hpc as (x & l & Q & Hx & He & Hl). rewrite Q. destruct (insert_head e x l) as [[-> Hle]|[-> Hn]].
      * exists e, (x :: l). split; [reflexivity|]. split; [lia|]. split.
        -- intros E. cbn in E. rewrite Z.eqb_refl, orb_true_r in E. discriminate.
        -- intros _. discriminate.
      * exists x, (insert e l). split; [reflexivity|]. split; [exact Hx|]. split.
        -- intros E. apply orb_false_iff in E as [E1 _]. apply He, E1.
        -- intros _. exact Hn.
    + exact Hpc.
Qed.

Lemma inv_cancel : forall r st s st', Inv r st -> step r st (Cancel s) = Some st' -> Inv r st'.
Proof.
  intros r st s st' HI Hst. cbn in Hst. destruct ((1 <=? s) && (s <=? seq st)) eqn:Rg; [|discriminate].
  inversion Hst; subst st'; clear Hst.
  assert (NotTaken : forall d, In (s, d) (reqs st) -> now st < ceilr r d -> ~ In s (taken st)).
  { intros d Hr Hlt Hin. destruct (taken_in _ _ _ HI Hin) as (d' & D1 & D2).
    rewrite (I_rfun _ _ HI _ _ _ Hr D1) in Hlt. lia. }
  destruct HI as [H0 Hs Hqn Htn Hdj Hrr Hrf Hcr Hq Hsp Hran Hca Hpc].
  constructor; unfold taken in *; proj; try assumption.
  - apply sorted_set_canc, Hs.
  - rewrite map_set_canc_seq. exact Hqn.
  - rewrite map_set_canc_seq. exact Hdj.
  - intros s0 tc Hin. apply in_app_or in Hin as [Hin|[Hin|[]]]; [eapply Hcr; eauto|]. inversion Hin; subst. lia.
  - intros e' He'. apply in_map_iff in He' as (y & <- & Hy). destruct (set_canc_key s y) as [-> ->]. apply Hq, Hy.
  - intros s0 tc d Hc Hr Hlt. apply in_app_or in Hc as [Hc|[Hc|[]]].
    + destruct (Hca s0 tc d Hc Hr Hlt) as [C1 C2]. split; [exact C1|].
      intros e' He' Ee. apply in_map_iff in He' as (y & <- & Hy). apply set_canc_true.
      apply C2; [exact Hy|]. destruct (set_canc_key s y) as [_ <-]. exact Ee.
    + inversion Hc; subst s0 tc; clear Hc. split; [exact (NotTaken d Hr Hlt)|].
      intros e' He' Ee. apply in_map_iff in He' as (y & <- & Hy). apply set_canc_hit.
      destruct (set_canc_key s y) as [_ <-]. exact Ee.
  - unfold pc_inv in *. proj. destruct (pc st) as [| | |ex|].
    + intros E. specialize (Hpc E). destruct (q st); [congruence|discriminate].
    + destruct Hpc as [H1 H2]. split.
      * intros E. rewrite (H1 E). reflexivity.
      * intros E. specialize (H2 E). destruct (q st); [congruence|discriminate].
    + destruct Hpc as [H1 H2]. split.
      * destruct (q st); [congruence|discriminate].
      * intros E. destruct (H2 E) as (a & b & l & ->). cbn. eauto.
    + destruct Hpc as (x & l & Q & Hx & He & Hl). rewrite Q. cbn [map].
      exists (set_canc s x), (map (set_canc s) l). destruct (set_canc_key s x) as [-> _].
      split; [reflexivity|]. split; [exact Hx|]. split; [exact He|].
      intros E. specialize (Hl E). destruct l; [congruence|discriminate].
    + exact Hpc.
Qed.

Lemma inv_tick : forall r st t st', Inv r st -> step r st (Tick t) = Some st' -> Inv r st'.
Proof.
  intros r st t st' HI Hst. cbn in Hst. destruct (Z.leb_spec (now st) t) as [Le|]; [|discriminate].
  inversion Hst; subst st'; clear Hst.
  destruct HI as [H0 Hs Hqn Htn Hdj Hrr Hrf Hcr Hq Hsp Hran Hca Hpc].
  constructor; unfold taken in *; proj; try assumption.
  - intros s Hin. destruct (Hsp s Hin) as (d & D1 & D2). exists d. split; [exact D1|lia].
  - intros s t0 Hin. destruct (Hran s t0 Hin) as (d & D1 & D2). exists d. split; [exact D1|lia].
Qed.

Lemma inv_run : forall r st st', Inv r st -> step r st Run = Some st' -> Inv r st'.
Proof.
  intros r st st' HI Hst. cbn in Hst. destruct (spawned st) as [|s sp] eqn:Sp; [discriminate|].
  inversion Hst; subst st'; clear Hst.
  assert (T : map fst (ran st ++ [(s, now st)]) ++ sp = taken st).
  { unfold taken. rewrite Sp, map_app, <- app_assoc. reflexivity. }
  destruct HI as [H0 Hs Hqn Htn Hdj Hrr Hrf Hcr Hq Hsp Hran Hca Hpc].
  constructor; unfold taken; proj; rewrite ?T; try assumption.
  - intros s0 Hin. apply Hsp. rewrite Sp. right. exact Hin.
  - intros s0 t Hin. apply in_app_or in Hin as [Hin|[Hin|[]]]; [apply Hran, Hin|].
    inversion Hin; subst s0 t. destruct (Hsp s) as (d & D1 & D2); [rewrite Sp; left; reflexivity|].
    exists d. split; [exact D1|lia].
Qed.

Lemma inv_worker : forall r st b st', Inv r st -> step r st (Worker b) = Some st' -> Inv r st'.
Proof.
  intros r st b st' HI Hst. cbn in Hst. destruct (worker_seg st b) as [w|] eqn:W; [|discriminate].
  inversion Hst; subst st'; clear Hst.
  destruct (worker_seg_spec st b w (I_pc _ _ HI) W) as (p & (P1 & P2 & P3 & P4) & Pe & _).
  cbn [app] in P2.
  assert (Sub : forall y, In y (w_q w) -> In y (q st)) by (intros y Hy; rewrite P1; apply in_or_app; right; exact Hy).
  assert (SubP : forall y, In y p -> In y (q st)) by (intros y Hy; rewrite P1; apply in_or_app; left; exact Hy).
  assert (New : forall s, In s (w_new w) -> exists y, In y p /\ e_seq y = s /\ e_canc y = false).
  { intros s Hin. rewrite P2 in Hin. apply in_map_iff in Hin as (y & Ey & Hy). apply filter_In in Hy as [Hy L].
    exists y. split; [exact Hy|]. split; [exact Ey|]. unfold live in L. destruct (e_canc y); [discriminate|reflexivity]. }
  assert (T : map fst (ran st) ++ spawned st ++ w_new w = taken st ++ w_new w) by (unfold taken; rewrite app_assoc; reflexivity).
  destruct HI as [H0 Hs Hqn Htn Hdj Hrr Hrf Hcr Hq Hsp Hran Hca Hpc].
  assert (Hqn2 : NoDup (map e_seq p ++ map e_seq (w_q w))) by (rewrite <- map_app, <- P1; exact Hqn).
  constructor; unfold taken; proj; rewrite ?T; try assumption.
  - rewrite P1 in Hs. eapply sorted_app_r, Hs.
  - eapply NoDup_app_remove_l, Hqn2.
  - apply nodup_app_intro; [exact Htn| |].
    + rewrite P2. apply nodup_map_filter. eapply NoDup_app_remove_r, Hqn2.
    + intros s Ht Hn. destruct (New s Hn) as (y & Hy & Ey & _). apply (Hdj s); [|exact Ht].
      rewrite <- Ey. apply in_map, SubP, Hy.
  - intros s Hin Ht. apply in_app_or in Ht as [Ht|Hn].
    + apply (Hdj s); [|exact Ht]. apply in_map_iff in Hin as (y & Ey & Hy). rewrite <- Ey. apply in_map, Sub, Hy.
    + destruct (New s Hn) as (y & Hy & Ey & _). apply (nodup_app_disj _ _ s Hqn2); [|exact Hin].
      rewrite <- Ey. apply in_map, Hy.
  - intros y Hy. apply Hq, Sub, Hy.
  - intros s Hin. apply in_app_or in Hin as [Hin|Hn]; [apply Hsp, Hin|].
    destruct (New s Hn) as (y & Hy & Ey & Cy). destruct (Hq y (SubP y Hy)) as (d & D1 & D2).
    exists d. rewrite <- Ey. split; [exact D1|]. destruct (P3 y Hy) as [C|Le]; [congruence|lia].
  - intros s tc d Hc Hr Hlt. destruct (Hca s tc d Hc Hr Hlt) as [C1 C2]. split.
    + intros Ht. apply in_app_or in Ht as [Ht|Hn]; [exact (C1 Ht)|].
      destruct (New s Hn) as (y & Hy & Ey & Cy). rewrite (C2 y (SubP y Hy) Ey) in Cy. discriminate.
    + intros y Hy. apply C2, Sub, Hy.
  - unfold pc_inv. proj. rewrite P4. destruct Pe as [(E1 & E2 & _)|[(E1 & E2)|(x & l & E1 & E2 & E3)]]; rewrite ?E1, ?E2.
    + split; [exact E2|discriminate].
    + split; [reflexivity|discriminate].
    + exists x, l. split; [reflexivity|]. split; [lia|]. split; [reflexivity|discriminate].
Qed.

Lemma inv_step : forall r st l st', Inv r st -> step r st l = Some st' -> Inv r st'.
Proof.
  intros r st [d|s|t|b|] st' HI H.
  - eapply inv_sched; eauto.
  - eapply inv_cancel; eauto.
  - eapply inv_tick; eauto.
  - eapply inv_worker; eauto.
  - eapply inv_run; eauto.
Qed.

Lemma inv_exec : forall r ls st st', Inv r st -> exec r st ls = Some st' -> Inv r st'.
Proof.
  intros r ls. induction ls as [|l ls IH]; cbn; intros st st' HI H.
  - inversion H; subst. exact HI.
  - destruct (step r st l) as [st1|] eqn:S; [|discriminate]. eapply IH; [|exact H]. eapply inv_step; eauto.
Qed.

Lemma inv_reachable : forall r st, reachable r st -> Inv r st.
Proof. intros r st [ls H]. eapply inv_exec; [apply inv_init|exact H]. Qed.
