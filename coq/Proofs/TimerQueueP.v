(* Lemmas about Model/TimerQueue.v: the inductive invariant of the small-step model and its consequences. *)
From Coq Require Import ZifyBool.
From Scales Require Import Model.Base Model.TimerQueue.
Ltac Zify.zify_post_hook ::= Z.div_mod_to_equations.
Local Open Scope Z_scope.

(* ------------------------------------------------------------------------------------------------ *)
(* rounding                                                                                          *)
(* ------------------------------------------------------------------------------------------------ *)
Lemma ceilr_ge : forall r d, 0 <= r -> d <= ceilr r d.
Proof. intros r d Hr. unfold ceilr. destruct (Z.eqb_spec r 0) as [E|E]; [lia|]. nia. Qed.

Lemma ceilr_lt : forall r d, 0 < r -> ceilr r d < d + r.
Proof. intros r d Hr. unfold ceilr. destruct (Z.eqb_spec r 0) as [E|E]; [lia|]. nia. Qed.

Lemma ceilr_grid : forall r d, 0 < r -> (ceilr r d) mod r = 0.
Proof. intros r d Hr. unfold ceilr. destruct (Z.eqb_spec r 0) as [E|E]; [lia|]. apply Z.mod_mul. lia. Qed.

Lemma ceilr_least : forall r d m, 0 < r -> m mod r = 0 -> d <= m -> ceilr r d <= m.
Proof.
  intros r d m Hr Hm Hd. unfold ceilr. destruct (Z.eqb_spec r 0) as [E|E]; [lia|].
  apply Z.mod_divide in Hm; [|lia]. destruct Hm as [k ->].
  assert ((d + r - 1) / r < k + 1) by (apply Z.div_lt_upper_bound; nia).
  nia.
Qed.

(* ------------------------------------------------------------------------------------------------ *)
(* heap order, sorted queue                                                                          *)
(* ------------------------------------------------------------------------------------------------ *)
Definition key_lt (a b : entry) : Prop := e_dl a < e_dl b \/ (e_dl a = e_dl b /\ e_seq a < e_seq b).

Lemma key_ltb_spec : forall a b, key_ltb a b = true <-> key_lt a b.
Proof. intros a b. unfold key_ltb, key_lt. lia. Qed.

Lemma key_lt_trans : forall a b c, key_lt a b -> key_lt b c -> key_lt a c.
Proof. unfold key_lt. intros. lia. Qed.

Fixpoint sorted (l : list entry) : Prop :=
  match l with
  | [] => True
  | x :: l' => (forall y, In y l' -> key_lt x y) /\ sorted l'
  end.

Lemma sorted_app_r : forall l1 l2, sorted (l1 ++ l2) -> sorted l2.
Proof. induction l1 as [|x l1 IH]; cbn; intros l2 H; [exact H|]. destruct H as [_ H]. apply IH, H. Qed.

Lemma sorted_app_lt : forall l1 l2, sorted (l1 ++ l2) -> forall x y, In x l1 -> In y l2 -> key_lt x y.
Proof.
  induction l1 as [|a l1 IH]; cbn; intros l2 H x y Hx Hy; [contradiction|]. destruct H as [H1 H2].
  destruct Hx as [<-|Hx]; [apply H1, in_or_app; right; exact Hy|]. eapply IH; eauto.
Qed.

Lemma In_insert : forall e l y, In y (insert e l) <-> y = e \/ In y l.
Proof.
  intros e l y. induction l as [|x l IH]; cbn.
  - intuition.
  - destruct (key_ltb e x); cbn; rewrite ?IH; intuition.
Qed.

Lemma insert_sorted : forall e l, sorted l -> (forall y, In y l -> e_seq y <> e_seq e) -> sorted (insert e l).
Proof.
  intros e l. induction l as [|x l IH]; cbn; intros Hs Hne.
  - split; [intros y []|exact I].
  - destruct Hs as [Hx Hs]. destruct (key_ltb e x) eqn:K.
    + apply key_ltb_spec in K. cbn. split; [|split; assumption].
      intros y [<-|Hy]; [exact K|]. eapply key_lt_trans; [exact K|]. apply Hx, Hy.
    + assert (K' : key_lt x e).
      { assert (N : ~ key_lt e x) by (rewrite <- key_ltb_spec; congruence).
        specialize (Hne x (or_introl eq_refl)). unfold key_lt in *. lia. }
      cbn. split.
      * intros y Hy. apply In_insert in Hy as [->|Hy]; [exact K'|apply Hx, Hy].
      * apply IH; [exact Hs|]. intros y Hy. apply Hne. right. exact Hy.
Qed.

Lemma insert_length : forall e l, length (insert e l) = S (length l).
Proof. intros e l. induction l as [|x l IH]; cbn; [reflexivity|]. destruct (key_ltb e x); cbn; congruence. Qed.

Lemma insert_nodup : forall e l, NoDup (map e_seq l) -> ~ In (e_seq e) (map e_seq l) -> NoDup (map e_seq (insert e l)).
Proof.
  intros e l. induction l as [|x l IH]; cbn; intros Hn Hi.
  - constructor; [intros []|constructor].
  - destruct (key_ltb e x); cbn.
    + constructor; [exact Hi|exact Hn].
    + inversion Hn as [|? ? Hx Hl]; subst. constructor.
      * intros Hin. apply in_map_iff in Hin as (y & Ey & Hy). apply In_insert in Hy as [->|Hy].
        -- apply Hi. left. congruence.
        -- apply Hx. rewrite <- Ey. apply in_map, Hy.
      * apply IH; [exact Hl|]. intros Hin. apply Hi. right. exact Hin.
Qed.

(* the shape of the queue after an insertion, as seen from its head *)
Lemma insert_head : forall e x l,
  (insert e (x :: l) = e :: x :: l /\ e_dl e <= e_dl x) \/
  (insert e (x :: l) = x :: insert e l /\ insert e l <> []).
Proof.
  intros e x l. cbn. destruct (key_ltb e x) eqn:K.
  - left. split; [reflexivity|]. apply key_ltb_spec in K. unfold key_lt in K. lia.
  - right. split; [reflexivity|]. intros E. pose proof (insert_length e l) as L. rewrite E in L. discriminate.
Qed.

Lemma set_canc_key : forall s e, e_dl (set_canc s e) = e_dl e /\ e_seq (set_canc s e) = e_seq e.
Proof. intros s e. unfold set_canc. destruct (e_seq e =? s); cbn; auto. Qed.

Lemma set_canc_true : forall s e, e_canc e = true -> e_canc (set_canc s e) = true.
Proof. intros s e H. unfold set_canc. destruct (e_seq e =? s); cbn; auto. Qed.

Lemma set_canc_hit : forall s e, e_seq e = s -> e_canc (set_canc s e) = true.
Proof. intros s e H. unfold set_canc. rewrite (proj2 (Z.eqb_eq _ _) H). reflexivity. Qed.

Lemma set_canc_other : forall s e, e_seq e <> s -> set_canc s e = e.
Proof. intros s e H. unfold set_canc. destruct (Z.eqb_spec (e_seq e) s); [contradiction|reflexivity]. Qed.

Lemma map_set_canc_seq : forall s l, map e_seq (map (set_canc s) l) = map e_seq l.
Proof. intros s l. rewrite map_map. apply map_ext. intros e. apply set_canc_key. Qed.

Lemma sorted_set_canc : forall s l, sorted l -> sorted (map (set_canc s) l).
Proof.
  intros s l. induction l as [|x l IH]; cbn; [auto|]. intros [Hx Hs]. split; [|apply IH, Hs].
  intros y Hy. apply in_map_iff in Hy as (y0 & <- & Hy0). specialize (Hx y0 Hy0).
  unfold key_lt in *. destruct (set_canc_key s x) as [-> ->]. destruct (set_canc_key s y0) as [-> ->]. exact Hx.
Qed.

(* ------------------------------------------------------------------------------------------------ *)
(* what one worker segment does                                                                      *)
(* ------------------------------------------------------------------------------------------------ *)
Definition live (x : entry) : bool := negb (e_canc x).

(* The segment removes a prefix `popped` of the queue; each removed entry was cancelled or due; the
   un-cancelled ones are spawned in queue order; the flag is clear afterwards; and it parks at ... *)
Definition seg_post (nw : Z) (l : list entry) (sp : list Z) (w : wout) (popped : list entry) : Prop :=
  l = popped ++ w_q w /\
  w_new w = sp ++ map e_seq (filter live popped) /\
  (forall x, In x popped -> e_canc x = true \/ e_dl x <= nw) /\
  w_ev w = false.

Definition parks_ok (nw : Z) (w : wout) : Prop :=
  (w_pc w = IdleWait /\ w_q w = []) \/
  (exists x l', w_q w = x :: l' /\ w_pc w = TimedWait (e_dl x) /\ nw < e_dl x).

Lemma top_spec : forall nw l e sp,
  exists popped, seg_post nw l sp (top nw l e sp) popped /\
    ((e = true /\ popped = [] /\ w_pc (top nw l e sp) = Sleep0) \/ (e = false /\ parks_ok nw (top nw l e sp))).
Proof.
  intros nw l. induction l as [|x l IH]; intros e sp.
  - exists []. cbn. destruct e; cbn; unfold seg_post, parks_ok; cbn; rewrite app_nil_r; intuition.
  - cbn [top]. destruct e.
    + exists []. unfold seg_post; cbn. rewrite app_nil_r. intuition.
    + destruct (e_canc x) eqn:Cx.
      * destruct (IH false sp) as (p & (P1 & P2 & P3 & P4) & P5). exists (x :: p). split.
        -- unfold seg_post. cbn [app filter]. unfold live at 1. rewrite Cx. cbn [negb]. repeat split; try assumption.
           ++ rewrite <- P1. reflexivity.
           ++ intros y [<-|Hy]; [left; exact Cx|apply P3, Hy].
        -- right. destruct P5 as [(E & _)|P5]; [discriminate|exact P5].
      * destruct (Z.ltb_spec nw (e_dl x)) as [Lt|Ge].
        -- exists []. split; [unfold seg_post; cbn; rewrite app_nil_r; intuition|].
           right. split; [reflexivity|]. right. exists x, l. cbn. auto.
        -- destruct (IH false (sp ++ [e_seq x])) as (p & (P1 & P2 & P3 & P4) & P5). exists (x :: p). split.
           ++ unfold seg_post. cbn [app filter]. unfold live at 1. rewrite Cx. cbn [negb map]. repeat split; try assumption.
              ** rewrite <- P1. reflexivity.
              ** rewrite P2, <- app_assoc. reflexivity.
              ** intros y [<-|Hy]; [right; lia|apply P3, Hy].
           ++ right. destruct P5 as [(E & _)|P5]; [discriminate|exact P5].
Qed.

(* the three ways a segment can end *)
Definition ends_ok (nw : Z) (ev0 : bool) (w : wout) : Prop :=
  (w_pc w = Sleep0 /\ w_q w <> [] /\ ev0 = true) \/ parks_ok nw w.

(* top, called with a queue that is non-empty whenever the flag is set *)
Lemma top_ends : forall nw l e sp, (e = true -> l <> []) ->
  exists popped, seg_post nw l sp (top nw l e sp) popped /\ ends_ok nw e (top nw l e sp) /\ (e = false \/ popped = []).
Proof.
  intros nw l e sp Hne. destruct (top_spec nw l e sp) as (p & P & [(E & Pn & Pc)|(E & Pk)]).
  - exists p. split; [exact P|]. split; [|right; exact Pn]. left. split; [exact Pc|]. split; [|exact E].
    destruct P as (P1 & _). subst p. cbn in P1. rewrite <- P1. apply Hne, E.
  - exists p. split; [exact P|]. split; [right; exact Pk|left; exact E].
Qed.

Lemma pop_then_top : forall nw x l e, (e = true -> l <> []) -> (e_canc x = true \/ e_dl x <= nw) ->
  exists popped, seg_post nw (x :: l) [] (top nw l e (if e_canc x then [] else [e_seq x])) popped /\
    ends_ok nw e (top nw l e (if e_canc x then [] else [e_seq x])) /\ popped <> [].
Proof.
  intros nw x l e Hne Hx.
  destruct (top_ends nw l e (if e_canc x then [] else [e_seq x]) Hne) as (p & (P1 & P2 & P3 & P4) & Pe & _).
  exists (x :: p). split; [|split; [exact Pe|discriminate]].
  unfold seg_post. repeat split.
  - cbn. rewrite <- P1. reflexivity.
  - rewrite P2. cbn [filter]. unfold live at 2. destruct (e_canc x); reflexivity.
  - intros y [<-|Hy]; [exact Hx|apply P3, Hy].
  - exact P4.
Qed.

Definition pc_inv (st : state) : Prop :=
  match pc st with
  | Top => ev st = true -> q st <> []
  | IdleWait => (ev st = false -> q st = []) /\ (ev st = true -> q st <> [])
  | Sleep0 => q st <> [] /\ (ev st = true -> exists a b l, q st = a :: b :: l)
  | TimedWait ex => exists x l, q st = x :: l /\ e_dl x <= ex /\ (ev st = false -> e_dl x = ex) /\ (ev st = true -> l <> [])
  | Crashed => False
  end.

Lemma nil_seg : forall nw l pc0, seg_post nw l [] (mkW l false pc0 []) [].
Proof. intros. unfold seg_post. cbn. intuition. Qed.

Lemma worker_seg_spec : forall st b w, pc_inv st -> worker_seg st b = Some w ->
  exists popped, seg_post (now st) (q st) [] w popped /\ ends_ok (now st) (ev st) w /\
    (popped <> [] \/ ev st = true \/ pc st = Top \/ pc st = Sleep0).
Proof.
  intros st b w Hpc Hw. unfold worker_seg in Hw. unfold pc_inv in Hpc. destruct (pc st) as [| | |ex|] eqn:P.
  - (* Top *) destruct b; [discriminate|]. inversion Hw; subst w; clear Hw.
    destruct (top_ends (now st) (q st) (ev st) [] Hpc) as (p & P1 & P2 & _). exists p. split; [exact P1|]. split; [exact P2|]. auto 6.
  - (* IdleWait *) destruct b; [|discriminate]. destruct (ev st) eqn:E; [|discriminate]. cbn in Hw.
    inversion Hw; subst w; clear Hw. unfold after_idle. exists []. split; [apply nil_seg|]. split; [|auto 6].
    left. cbn. destruct Hpc as [_ H]. auto.
  - (* Sleep0 *) destruct b; [discriminate|]. inversion Hw; subst w; clear Hw. destruct Hpc as [Hne H2].
    destruct (q st) as [|x l] eqn:Q; [congruence|]. unfold peek.
    assert (Hl : ev st = true -> l <> []).
    { intros E. destruct (H2 E) as (a & b' & l' & E'). inversion E'; subst. discriminate. }
    destruct (e_canc x) eqn:Cx.
    + destruct (pop_then_top (now st) x l (ev st) Hl (or_introl Cx)) as (p & P1 & P2 & P3).
      rewrite Cx in P1, P2. exists p. split; [exact P1|]. split; [exact P2|]. auto 6.
    + destruct (Z.ltb_spec (now st) (e_dl x)) as [Lt|Ge].
      * destruct (ev st) eqn:E.
        -- destruct (top_ends (now st) (x :: l) true [] (fun _ => ltac:(discriminate))) as (p & P1 & P2 & _).
           exists p. split; [exact P1|]. split; [exact P2|]. auto 6.
        -- exists []. split; [apply nil_seg|]. split; [|auto 6]. right. right. exists x, l. cbn. auto.
      * destruct (pop_then_top (now st) x l (ev st) Hl (or_intror Ge)) as (p & P1 & P2 & P3).
        rewrite Cx in P1, P2. exists p. split; [exact P1|]. split; [exact P2|]. auto 6.
  - (* TimedWait *) destruct Hpc as (x & l & Q & Hx & He & Hl). destruct b.
    + destruct (ev st) eqn:E; [|discriminate]. inversion Hw; subst w; clear Hw. rewrite Q.
      destruct (top_ends (now st) (x :: l) true [] (fun _ => ltac:(discriminate))) as (p & P1 & P2 & _).
      exists p. split; [exact P1|]. split; [exact P2|]. auto 6.
    + destruct (Z.leb_spec ex (now st)) as [Le|Gt]; [|discriminate]. inversion Hw; subst w; clear Hw. rewrite Q.
      unfold pop_timeout.
      assert (Hd : e_canc x = true \/ e_dl x <= now st) by (right; lia).
      destruct (pop_then_top (now st) x l (ev st) Hl Hd) as (p & P1 & P2 & P3).
      replace (if e_canc x then [] else [] ++ [e_seq x]) with (if e_canc x then [] else [e_seq x]) by (destruct (e_canc x); reflexivity).
      exists p. split; [exact P1|]. split; [exact P2|]. auto 6.
  - discriminate.
Qed.

(* ------------------------------------------------------------------------------------------------ *)
(* list helpers                                                                                      *)
(* ------------------------------------------------------------------------------------------------ *)
Lemma nodup_app_intro : forall (a b : list Z), NoDup a -> NoDup b -> (forall x, In x a -> ~ In x b) -> NoDup (a ++ b).
Proof.
  induction a as [|x a IH]; cbn; intros b Ha Hb Hd; [exact Hb|].
  inversion Ha as [|? ? Hx Ha']; subst. constructor.
  - intros Hin. apply in_app_or in Hin as [Hin|Hin]; [contradiction|]. exact (Hd x (or_introl eq_refl) Hin).
  - apply IH; auto.
Qed.

Lemma nodup_app_disj : forall (a b : list Z) x, NoDup (a ++ b) -> In x a -> In x b -> False.
Proof.
  induction a as [|y a IH]; cbn; intros b x Hn Ha Hb; [contradiction|].
  inversion Hn as [|? ? Hy Hn']; subst. destruct Ha as [->|Ha].
  - apply Hy, in_or_app. right. exact Hb.
  - eapply IH; eauto.
Qed.

Lemma nodup_app_l : forall (a b : list Z), NoDup (a ++ b) -> NoDup a.
Proof.
  induction a as [|x a IH]; cbn; intros b H; [constructor|]. inversion H as [|? ? Hx H']; subst.
  constructor; [|eapply IH; eauto]. intros Hin. apply Hx, in_or_app. left. exact Hin.
Qed.

Lemma nodup_app_r : forall (a b : list Z), NoDup (a ++ b) -> NoDup b.
Proof. induction a as [|x a IH]; cbn; intros b H; [exact H|]. inversion H; subst. auto. Qed.

Lemma nodup_map_filter : forall (f : entry -> Z) p l, NoDup (map f l) -> NoDup (map f (filter p l)).
Proof.
  intros f p l. induction l as [|x l IH]; cbn; intros Hn; [constructor|].
  inversion Hn as [|? ? Hx Hn']; subst. destruct (p x); cbn; [|auto].
  constructor; [|auto]. intros Hin. apply Hx. apply in_map_iff in Hin as (y & Ey & Hy).
  apply filter_In in Hy as [Hy _]. rewrite <- Ey. apply in_map, Hy.
Qed.

(* ------------------------------------------------------------------------------------------------ *)
(* the invariant                                                                                     *)
(* ------------------------------------------------------------------------------------------------ *)
(* instances in the order in which the worker took them off the queue *)
Definition taken (st : state) : list Z := map fst (ran st) ++ spawned st.

Record Inv (r : Z) (st : state) : Prop := mkInv {
  I_seq0 : 0 <= seq st;
  I_sorted : sorted (q st);
  I_qnd : NoDup (map e_seq (q st));
  I_tnd : NoDup (taken st);
  I_disj : forall s, In s (map e_seq (q st)) -> ~ In s (taken st);
  I_rrange : forall s d, In (s, d) (reqs st) -> 1 <= s <= seq st;
  I_rfun : forall s d d', In (s, d) (reqs st) -> In (s, d') (reqs st) -> d = d';
  I_crange : forall s tc, In (s, tc) (cancels st) -> 1 <= s <= seq st;
  I_q : forall e, In e (q st) -> exists d, In (e_seq e, d) (reqs st) /\ e_dl e = ceilr r d;
  I_sp : forall s, In s (spawned st) -> exists d, In (s, d) (reqs st) /\ ceilr r d <= now st;
  I_ran : forall s t, In (s, t) (ran st) -> exists d, In (s, d) (reqs st) /\ ceilr r d <= t /\ t <= now st;
  I_canc : forall s tc d, In (s, tc) (cancels st) -> In (s, d) (reqs st) -> tc < ceilr r d ->
             ~ In s (taken st) /\ (forall e, In e (q st) -> e_seq e = s -> e_canc e = true);
  I_pc : pc_inv st }.

Lemma inv_init : forall r, Inv r init.
Proof.
  intros r. constructor; cbn; try lia; try (intros; contradiction); try constructor; try (intros; discriminate).
Qed.

Lemma taken_in : forall r st s, Inv r st -> In s (taken st) -> exists d, In (s, d) (reqs st) /\ ceilr r d <= now st.
Proof.
  intros r st s HI Hin. unfold taken in Hin. apply in_app_or in Hin as [Hin|Hin].
  - apply in_map_iff in Hin as ((s0 & t) & E & Hin). cbn in E. subst s0.
    destruct (I_ran _ _ HI _ _ Hin) as (d & D1 & D2 & D3). exists d. split; [exact D1|lia].
  - apply (I_sp _ _ HI), Hin.
Qed.

Lemma taken_range : forall r st s, Inv r st -> In s (taken st) -> 1 <= s <= seq st.
Proof. intros r st s HI Hin. destruct (taken_in _ _ _ HI Hin) as (d & D & _). exact (I_rrange _ _ HI _ _ D). Qed.

Lemma q_range : forall r st e, Inv r st -> In e (q st) -> 1 <= e_seq e <= seq st.
Proof. intros r st e HI Hin. destruct (I_q _ _ HI _ Hin) as (d & D & _). exact (I_rrange _ _ HI _ _ D). Qed.

Ltac proj := cbn [q ev seq now pc spawned ran reqs cancels] in *.

Lemma inv_sched : forall r st d st', Inv r st -> step r st (Sched d) = Some st' -> Inv r st'.
Proof.
  intros r st d st' HI Hst. cbn in Hst. inversion Hst; subst st'; clear Hst.
  set (e := mkE (ceilr r d) (seq st + 1) false).
  assert (Fresh : forall y, In y (q st) -> e_seq y <> e_seq e).
  { intros y Hy. pose proof (q_range _ _ _ HI Hy). cbn. lia. }
  assert (FreshT : ~ In (seq st + 1) (taken st)).
  { intros Hin. pose proof (taken_range _ _ _ HI Hin). lia. }
  destruct HI as [H0 Hs Hqn Htn Hdj Hrr Hrf Hcr Hq Hsp Hran Hca Hpc].
  constructor; unfold taken in *; proj.
  - lia.
  - apply insert_sorted; assumption.
  - apply insert_nodup; [assumption|]. intros Hin. apply in_map_iff in Hin as (y & Ey & Hy). exact (Fresh y Hy Ey).
  - assumption.
  - intros s Hin. apply in_map_iff in Hin as (y & Ey & Hy). apply In_insert in Hy as [->|Hy].
    + cbn in Ey. subst s. exact FreshT.
    + apply Hdj. rewrite <- Ey. apply in_map, Hy.
  - intros s d0 Hin. apply in_app_or in Hin as [Hin|[Hin|[]]].
    + specialize (Hrr _ _ Hin). lia.
    + inversion Hin; subst. lia.
  - intros s d1 d2 H1 H2. apply in_app_or in H1 as [H1|[H1|[]]]; apply in_app_or in H2 as [H2|[H2|[]]].
    + eapply Hrf; eauto.
    + inversion H2; subst. specialize (Hrr _ _ H1). lia.
    + inversion H1; subst. specialize (Hrr _ _ H2). lia.
    + inversion H1; inversion H2; subst. reflexivity.
  - intros s tc Hin. specialize (Hcr _ _ Hin). lia.
  - intros y Hy. apply In_insert in Hy as [->|Hy].
    + exists d. split; [apply in_or_app; right; left; reflexivity|reflexivity].
    + destruct (Hq y Hy) as (d0 & D1 & D2). exists d0. split; [apply in_or_app; left; exact D1|exact D2].
  - intros s Hin. destruct (Hsp s Hin) as (d0 & D1 & D2). exists d0. split; [apply in_or_app; left; exact D1|exact D2].
  - intros s t Hin. destruct (Hran s t Hin) as (d0 & D1 & D2). exists d0. split; [apply in_or_app; left; exact D1|exact D2].
  - intros s tc d0 Hc Hr Hlt. apply in_app_or in Hr as [Hr|[Hr|[]]].
    + destruct (Hca s tc d0 Hc Hr Hlt) as [C1 C2]. split; [exact C1|].
      intros y Hy Ey. apply In_insert in Hy as [->|Hy]; [|apply C2; assumption].
      cbn in Ey. specialize (Hcr _ _ Hc). lia.
    + inversion Hr; subst. specialize (Hcr _ _ Hc). lia.
  - unfold pc_inv in *. proj. fold e.
    assert (Hne : insert e (q st) <> []).
    { intros E. pose proof (insert_length e (q st)) as L. rewrite E in L. discriminate. }
    destruct (pc st) as [| | |ex|].
    + intros _. exact Hne.
    + destruct Hpc as [H1 H2]. split; [|intros _; exact Hne].
      intros E. apply orb_false_iff in E as [E1 E2]. rewrite (H1 E1) in E2. cbn in E2. rewrite Z.eqb_refl in E2. discriminate.
    + destruct Hpc as [H1 H2]. split; [exact Hne|]. intros _.
      destruct (q st) as [|x l]; [congruence|]. destruct (insert_head e x l) as [[-> _]|[-> Hn]].
      * eauto.
      * destruct (insert e l) as [|y l']; [congruence|]. eauto.
    + destruct Hpc as (x & l & Q & Hx & He & Hl). rewrite Q. destruct (insert_head e x l) as [[-> Hle]|[-> Hn]].
      * exists e, (x :: l). split; [reflexivity|]. split; [lia|]. split.
        -- intros E. cbn in E. rewrite Z.eqb_refl, orb_true_r in E. discriminate.
        -- intros _. discriminate.
      * exists x, (insert e l). split; [reflexivity|]. split; [exact Hx|]. split.
        -- intros E. apply orb_false_iff in E as [E1 _]. apply He, E1.
        -- intros _. exact Hn.
    + exact Hpc.
Qed.

Lemma inv_cancel : forall r st s st', Inv r st -> step r st (Cancel s) = Some st' -> Inv r st'.
Proof.
  intros r st s st' HI Hst. cbn in Hst. destruct ((1 <=? s) && (s <=? seq st)) eqn:Rg; [|discriminate].
  inversion Hst; subst st'; clear Hst.
  assert (NotTaken : forall d, In (s, d) (reqs st) -> now st < ceilr r d -> ~ In s (taken st)).
  { intros d Hr Hlt Hin. destruct (taken_in _ _ _ HI Hin) as (d' & D1 & D2).
    rewrite (I_rfun _ _ HI _ _ _ Hr D1) in Hlt. lia. }
  destruct HI as [H0 Hs Hqn Htn Hdj Hrr Hrf Hcr Hq Hsp Hran Hca Hpc].
  constructor; unfold taken in *; proj; try assumption.
  - apply sorted_set_canc, Hs.
  - rewrite map_set_canc_seq. exact Hqn.
  - rewrite map_set_canc_seq. exact Hdj.
  - intros s0 tc Hin. apply in_app_or in Hin as [Hin|[Hin|[]]]; [eapply Hcr; eauto|]. inversion Hin; subst. lia.
  - intros e' He'. apply in_map_iff in He' as (y & <- & Hy). destruct (set_canc_key s y) as [-> ->]. apply Hq, Hy.
  - intros s0 tc d Hc Hr Hlt. apply in_app_or in Hc as [Hc|[Hc|[]]].
    + destruct (Hca s0 tc d Hc Hr Hlt) as [C1 C2]. split; [exact C1|].
      intros e' He' Ee. apply in_map_iff in He' as (y & <- & Hy). apply set_canc_true.
      apply C2; [exact Hy|]. destruct (set_canc_key s y) as [_ <-]. exact Ee.
    + inversion Hc; subst s0 tc; clear Hc. split; [exact (NotTaken d Hr Hlt)|].
      intros e' He' Ee. apply in_map_iff in He' as (y & <- & Hy). apply set_canc_hit.
      destruct (set_canc_key s y) as [_ <-]. exact Ee.
  - unfold pc_inv in *. proj. destruct (pc st) as [| | |ex|].
    + intros E. specialize (Hpc E). destruct (q st); [congruence|discriminate].
    + destruct Hpc as [H1 H2]. split.
      * intros E. rewrite (H1 E). reflexivity.
      * intros E. specialize (H2 E). destruct (q st); [congruence|discriminate].
    + destruct Hpc as [H1 H2]. split.
      * destruct (q st); [congruence|discriminate].
      * intros E. destruct (H2 E) as (a & b & l & ->). cbn. eauto.
    + destruct Hpc as (x & l & Q & Hx & He & Hl). rewrite Q. cbn [map].
      exists (set_canc s x), (map (set_canc s) l). destruct (set_canc_key s x) as [-> _].
      split; [reflexivity|]. split; [exact Hx|]. split; [exact He|].
      intros E. specialize (Hl E). destruct l; [congruence|discriminate].
    + exact Hpc.
Qed.

Lemma inv_tick : forall r st t st', Inv r st -> step r st (Tick t) = Some st' -> Inv r st'.
Proof.
  intros r st t st' HI Hst. cbn in Hst. destruct (Z.leb_spec (now st) t) as [Le|]; [|discriminate].
  inversion Hst; subst st'; clear Hst.
  destruct HI as [H0 Hs Hqn Htn Hdj Hrr Hrf Hcr Hq Hsp Hran Hca Hpc].
  constructor; unfold taken in *; proj; try assumption.
  - intros s Hin. destruct (Hsp s Hin) as (d & D1 & D2). exists d. split; [exact D1|lia].
  - intros s t0 Hin. destruct (Hran s t0 Hin) as (d & D1 & D2). exists d. split; [exact D1|lia].
Qed.

Lemma inv_run : forall r st st', Inv r st -> step r st Run = Some st' -> Inv r st'.
Proof.
  intros r st st' HI Hst. cbn in Hst. destruct (spawned st) as [|s sp] eqn:Sp; [discriminate|].
  inversion Hst; subst st'; clear Hst.
  assert (T : map fst (ran st ++ [(s, now st)]) ++ sp = taken st).
  { unfold taken. rewrite Sp, map_app, <- app_assoc. reflexivity. }
  destruct HI as [H0 Hs Hqn Htn Hdj Hrr Hrf Hcr Hq Hsp Hran Hca Hpc].
  constructor; unfold taken; proj; rewrite ?T; try assumption.
  - intros s0 Hin. apply Hsp. rewrite Sp. right. exact Hin.
  - intros s0 t Hin. apply in_app_or in Hin as [Hin|[Hin|[]]]; [apply Hran, Hin|].
    inversion Hin; subst s0 t. destruct (Hsp s) as (d & D1 & D2); [rewrite Sp; left; reflexivity|].
    exists d. split; [exact D1|lia].
Qed.

Lemma inv_worker : forall r st b st', Inv r st -> step r st (Worker b) = Some st' -> Inv r st'.
Proof.
  intros r st b st' HI Hst. cbn in Hst. destruct (worker_seg st b) as [w|] eqn:W; [|discriminate].
  inversion Hst; subst st'; clear Hst.
  destruct (worker_seg_spec st b w (I_pc _ _ HI) W) as (p & (P1 & P2 & P3 & P4) & Pe & _).
  cbn [app] in P2.
  assert (Sub : forall y, In y (w_q w) -> In y (q st)) by (intros y Hy; rewrite P1; apply in_or_app; right; exact Hy).
  assert (SubP : forall y, In y p -> In y (q st)) by (intros y Hy; rewrite P1; apply in_or_app; left; exact Hy).
  assert (New : forall s, In s (w_new w) -> exists y, In y p /\ e_seq y = s /\ e_canc y = false).
  { intros s Hin. rewrite P2 in Hin. apply in_map_iff in Hin as (y & Ey & Hy). apply filter_In in Hy as [Hy L].
    exists y. split; [exact Hy|]. split; [exact Ey|]. unfold live in L. destruct (e_canc y); [discriminate|reflexivity]. }
  assert (T : map fst (ran st) ++ spawned st ++ w_new w = taken st ++ w_new w) by (unfold taken; rewrite app_assoc; reflexivity).
  destruct HI as [H0 Hs Hqn Htn Hdj Hrr Hrf Hcr Hq Hsp Hran Hca Hpc].
  assert (Hqn2 : NoDup (map e_seq p ++ map e_seq (w_q w))) by (rewrite <- map_app, <- P1; exact Hqn).
  constructor; unfold taken; proj; rewrite ?T; try assumption.
  - rewrite P1 in Hs. eapply sorted_app_r, Hs.
  - eapply nodup_app_r, Hqn2.
  - apply nodup_app_intro; [exact Htn| |].
    + rewrite P2. apply nodup_map_filter. eapply nodup_app_l, Hqn2.
    + intros s Ht Hn. destruct (New s Hn) as (y & Hy & Ey & _). apply (Hdj s); [|exact Ht].
      rewrite <- Ey. apply in_map, SubP, Hy.
  - intros s Hin Ht. apply in_app_or in Ht as [Ht|Hn].
    + apply (Hdj s); [|exact Ht]. apply in_map_iff in Hin as (y & Ey & Hy). rewrite <- Ey. apply in_map, Sub, Hy.
    + destruct (New s Hn) as (y & Hy & Ey & _). apply (nodup_app_disj _ _ s Hqn2); [|exact Hin].
      rewrite <- Ey. apply in_map, Hy.
  - intros y Hy. apply Hq, Sub, Hy.
  - intros s Hin. apply in_app_or in Hin as [Hin|Hn]; [apply Hsp, Hin|].
    destruct (New s Hn) as (y & Hy & Ey & Cy). destruct (Hq y (SubP y Hy)) as (d & D1 & D2).
    exists d. rewrite <- Ey. split; [exact D1|]. destruct (P3 y Hy) as [C|Le]; [congruence|lia].
  - intros s tc d Hc Hr Hlt. destruct (Hca s tc d Hc Hr Hlt) as [C1 C2]. split.
    + intros Ht. apply in_app_or in Ht as [Ht|Hn]; [exact (C1 Ht)|].
      destruct (New s Hn) as (y & Hy & Ey & Cy). rewrite (C2 y (SubP y Hy) Ey) in Cy. discriminate.
    + intros y Hy. apply C2, Sub, Hy.
  - unfold pc_inv. proj. rewrite P4. destruct Pe as [(E1 & E2 & _)|[(E1 & E2)|(x & l & E1 & E2 & E3)]]; rewrite ?E1, ?E2.
    + split; [exact E2|discriminate].
    + split; [reflexivity|discriminate].
    + exists x, l. split; [reflexivity|]. split; [lia|]. split; [reflexivity|discriminate].
Qed.

Lemma inv_step : forall r st l st', Inv r st -> step r st l = Some st' -> Inv r st'.
Proof.
  intros r st [d|s|t|b|] st' HI H.
  - eapply inv_sched; eauto.
  - eapply inv_cancel; eauto.
  - eapply inv_tick; eauto.
  - eapply inv_worker; eauto.
  - eapply inv_run; eauto.
Qed.

Lemma inv_exec : forall r ls st st', Inv r st -> exec r st ls = Some st' -> Inv r st'.
Proof.
  intros r ls. induction ls as [|l ls IH]; cbn; intros st st' HI H.
  - inversion H; subst. exact HI.
  - destruct (step r st l) as [st1|] eqn:S; [|discriminate]. eapply IH; [|exact H]. eapply inv_step; eauto.
Qed.

Lemma inv_reachable : forall r st, reachable r st -> Inv r st.
Proof. intros r st [ls H]. eapply inv_exec; [apply inv_init|exact H]. Qed.

(* ------------------------------------------------------------------------------------------------ *)
(* the history variables are functions of the label sequence                                         *)
(* ------------------------------------------------------------------------------------------------ *)
Lemma step_hist : forall r st l st', step r st l = Some st' ->
  reqs st' = reqs st ++ sched_log (seq st) [l] /\ seq st' = seq st + Z.of_nat (length (sched_log (seq st) [l])) /\
  cancels st' = cancels st ++ cancel_log (now st) [l] /\
  now st' = match l with Tick t => t | _ => now st end /\ now st <= now st'.
Proof.
  intros r st [d|s|t|b|] st' H; cbn in H.
  - inversion H; subst; cbn. rewrite app_nil_r. repeat split; lia.
  - destruct ((1 <=? s) && (s <=? seq st)); [|discriminate]. inversion H; subst; cbn. rewrite app_nil_r. repeat split; lia.
  - destruct (Z.leb_spec (now st) t); [|discriminate]. inversion H; subst; cbn. rewrite !app_nil_r. repeat split; lia.
  - destruct (worker_seg st b); [|discriminate]. inversion H; subst; cbn. rewrite !app_nil_r. repeat split; lia.
  - destruct (spawned st); [discriminate|]. inversion H; subst; cbn. rewrite !app_nil_r. repeat split; lia.
Qed.

Lemma exec_reqs : forall r ls st st', exec r st ls = Some st' ->
  reqs st' = reqs st ++ sched_log (seq st) ls.
Proof.
  intros r ls. induction ls as [|l ls IH]; cbn [exec]; intros st st' H.
  - inversion H; subst. cbn. rewrite app_nil_r. reflexivity.
  - destruct (step r st l) as [st1|] eqn:S; [|discriminate]. rewrite (IH _ _ H).
    destruct (step_hist _ _ _ _ S) as (R & Q & _). rewrite R, Q, <- app_assoc. f_equal.
    destruct l; cbn; rewrite ?Z.add_0_r; reflexivity.
Qed.

Lemma exec_cancels : forall r ls st st', exec r st ls = Some st' ->
  cancels st' = cancels st ++ cancel_log (now st) ls.
Proof.
  intros r ls. induction ls as [|l ls IH]; cbn [exec]; intros st st' H.
  - inversion H; subst. cbn. rewrite app_nil_r. reflexivity.
  - destruct (step r st l) as [st1|] eqn:S; [|discriminate]. rewrite (IH _ _ H).
    destruct (step_hist _ _ _ _ S) as (_ & _ & Cn & N & _). rewrite Cn, N, <- app_assoc. f_equal.
    destruct l; cbn; reflexivity.
Qed.

Lemma exec_app : forall r l1 l2 st, exec r st (l1 ++ l2) = match exec r st l1 with Some st1 => exec r st1 l2 | None => None end.
Proof.
  intros r l1. induction l1 as [|l l1 IH]; cbn; intros l2 st; [reflexivity|].
  destruct (step r st l); [apply IH|reflexivity].
Qed.

(* ------------------------------------------------------------------------------------------------ *)
(* consequences of the invariant                                                                     *)
(* ------------------------------------------------------------------------------------------------ *)
Lemma once_inv : forall r st, Inv r st -> NoDup (map fst (ran st)) /\ NoDup (spawned st) /\
  (forall s, In s (map fst (ran st)) -> ~ In s (spawned st)).
Proof.
  intros r st HI. pose proof (I_tnd _ _ HI) as H. unfold taken in H. split; [eapply nodup_app_l, H|].
  split; [eapply nodup_app_r, H|]. intros s H1 H2. eapply nodup_app_disj; eauto.
Qed.

Lemma fire_inv : forall r st s t, 0 <= r -> Inv r st -> In (s, t) (ran st) ->
  exists d, In (s, d) (reqs st) /\ d <= t /\ ceilr r d <= t /\ t <= now st /\
    (forall tc, In (s, tc) (cancels st) -> ceilr r d <= tc).
Proof.
  intros r st s t Hr HI Hin. destruct (I_ran _ _ HI _ _ Hin) as (d & D1 & D2 & D3).
  exists d. pose proof (ceilr_ge r d Hr). repeat split; try assumption; try lia.
  intros tc Hc. destruct (Z.lt_ge_cases tc (ceilr r d)) as [Lt|Ge]; [|lia].
  destruct (I_canc _ _ HI _ _ _ Hc D1 Lt) as [C _]. exfalso. apply C. unfold taken. apply in_or_app. left.
  change s with (fst (s, t)). apply in_map, Hin.
Qed.

Lemma no_lost_wakeup_inv : forall r st, Inv r st -> quiescent r st ->
  forall e, In e (q st) -> now st < e_dl e.
Proof.
  intros r st HI (Q1 & Q2 & _) e He. unfold enabled in Q1, Q2. cbn in Q1, Q2. unfold worker_seg in Q1, Q2.
  pose proof (I_pc _ _ HI) as Hpc. unfold pc_inv in Hpc. destruct (pc st) as [| | |ex|].
  - discriminate.
  - cbn in Q1. destruct (ev st) eqn:E; [discriminate|]. destruct Hpc as [H _]. rewrite (H eq_refl) in He. contradiction.
  - discriminate.
  - destruct (ev st) eqn:E; [discriminate|]. destruct (Z.leb_spec ex (now st)) as [|Lt]; [discriminate|].
    destruct Hpc as (x & l & Q & _ & Hx & _). specialize (Hx eq_refl). pose proof (I_sorted _ _ HI) as Hs.
    rewrite Q in Hs, He. destruct He as [<-|He]; [lia|]. destruct Hs as [Hs _]. specialize (Hs e He).
    unfold key_lt in Hs. lia.
  - contradiction.
Qed.

Lemma filter_len : forall (p : entry -> bool) l, (length (filter p l) <= length l)%nat.
Proof. intros p l. induction l as [|x l IH]; cbn; [lia|]. destruct (p x); cbn; lia. Qed.

Lemma mu_worker : forall r st b st', Inv r st -> step r st (Worker b) = Some st' -> mu st' < mu st.
Proof.
  intros r st b st' HI Hst. cbn in Hst. destruct (worker_seg st b) as [w|] eqn:W; [|discriminate].
  inversion Hst; subst st'; clear Hst.
  destruct (worker_seg_spec st b w (I_pc _ _ HI) W) as (p & (P1 & P2 & P3 & P4) & Pe & Pg).
  cbn [app] in P2. unfold mu. proj. rewrite P1, P2, P4, !app_length, map_length.
  pose proof (filter_len live p) as FL.
  destruct Pe as [(E1 & E2 & E3)|[(E1 & E2)|(x & l & E1 & E2 & E3)]]; rewrite ?E1, ?E2, ?E3.
  - destruct (pc st); lia.
  - destruct Pg as [G|[G|[G|G]]]; rewrite ?G; try (destruct (ev st), (pc st); lia).
    destruct p; [congruence|]. cbn [length] in *. destruct (ev st), (pc st); lia.
  - destruct Pg as [G|[G|[G|G]]]; rewrite ?G; try (destruct (ev st), (pc st); lia).
    destruct p; [congruence|]. cbn [length] in *. destruct (ev st), (pc st); lia.
Qed.

Lemma mu_run : forall r st st', step r st Run = Some st' -> mu st' < mu st.
Proof.
  intros r st st' H. cbn in H. destruct (spawned st) eqn:Sp; [discriminate|]. inversion H; subst. unfold mu. proj.
  rewrite Sp. cbn [length]. lia.
Qed.

Lemma mu_cancel : forall r st s st', step r st (Cancel s) = Some st' -> mu st' = mu st.
Proof.
  intros r st s st' H. cbn in H. destruct ((1 <=? s) && (s <=? seq st)); [|discriminate]. inversion H; subst.
  unfold mu. proj. rewrite map_length. reflexivity.
Qed.

Lemma mu_nonneg : forall st, 0 <= mu st.
Proof. intros st. unfold mu. destruct (ev st), (pc st); lia. Qed.

Lemma terminates_inv : forall r ls st st', Inv r st -> forallb internal ls = true -> exec r st ls = Some st' ->
  wr_count ls <= mu st - mu st'.
Proof.
  intros r ls. induction ls as [|l ls IH]; cbn [exec forallb wr_count]; intros st st' HI Hint H.
  - inversion H; subst. lia.
  - apply andb_true_iff in Hint as [Hl Hint]. destruct (step r st l) as [st1|] eqn:S; [|discriminate].
    specialize (IH st1 st' (inv_step _ _ _ _ HI S) Hint H). destruct l as [d|s|t|b|]; try discriminate.
    + rewrite <- (mu_cancel _ _ _ _ S). exact IH.
    + pose proof (mu_worker _ _ _ _ HI S). lia.
    + pose proof (mu_run _ _ _ S). lia.
Qed.

Lemma order_step : forall r st b st', Inv r st -> step r st (Worker b) = Some st' ->
  exists p, q st = p ++ q st' /\ sorted (p ++ q st') /\
    spawned st' = spawned st ++ map e_seq (filter live p) /\
    (forall x, In x p -> e_canc x = true \/ e_dl x <= now st) /\ ran st' = ran st.
Proof.
  intros r st b st' HI Hst. cbn in Hst. destruct (worker_seg st b) as [w|] eqn:W; [|discriminate].
  inversion Hst; subst st'; clear Hst.
  destruct (worker_seg_spec st b w (I_pc _ _ HI) W) as (p & (P1 & P2 & P3 & P4) & _ & _).
  exists p. proj. rewrite <- P1. repeat split; try assumption; [apply (I_sorted _ _ HI)|rewrite P2; reflexivity].
Qed.

(* ------------------------------------------------------------------------------------------------ *)
(* second invariant: nothing is lost, and the global take order                                      *)
(* ------------------------------------------------------------------------------------------------ *)
(* every pair (a before b) of the list satisfies P a b *)
Fixpoint ordered (P : Z -> Z -> Prop) (l : list Z) : Prop :=
  match l with
  | [] => True
  | a :: l' => (forall b, In b l' -> P a b) /\ ordered P l'
  end.

Lemma ordered_app : forall P l1 l2,
  ordered P (l1 ++ l2) <-> ordered P l1 /\ ordered P l2 /\ (forall a b, In a l1 -> In b l2 -> P a b).
Proof.
  intros P l1 l2. induction l1 as [|x l1 IH]; cbn.
  - intuition.
  - rewrite IH. split.
    + intros (H1 & H2 & H3 & H4). repeat split; auto.
      * intros b Hb. apply H1, in_or_app. left. exact Hb.
      * intros a b [<-|Ha] Hb; [apply H1, in_or_app; right; exact Hb|apply H4; assumption].
    + intros ((H1 & H2) & H3 & H4). repeat split; auto.
      intros b Hb. apply in_app_or in Hb as [Hb|Hb]; [apply H1, Hb|apply H4; auto].
Qed.

Lemma ordered_mono : forall (P P' : Z -> Z -> Prop) l,
  (forall a b, In a l -> In b l -> P a b -> P' a b) -> ordered P l -> ordered P' l.
Proof.
  intros P P' l. induction l as [|x l IH]; cbn; intros Hm H; [exact I|]. destruct H as [H1 H2]. split.
  - intros b Hb. apply Hm; auto.
  - apply IH; [|exact H2]. intros a b Ha Hb. apply Hm; auto.
Qed.

Lemma ordered_sorted : forall (P : Z -> Z -> Prop) f l,
  sorted l -> (forall x y, In x l -> In y l -> key_lt x y -> P (e_seq x) (e_seq y)) ->
  ordered P (map e_seq (filter f l)).
Proof.
  intros P f l. induction l as [|x l IH]; cbn; intros Hs Hp; [exact I|]. destruct Hs as [Hx Hs].
  assert (IH' : ordered P (map e_seq (filter f l))) by (apply IH; [exact Hs|intros; apply Hp; auto]).
  destruct (f x); [|exact IH']. cbn. split; [|exact IH'].
  intros b Hb. apply in_map_iff in Hb as (y & <- & Hy). apply filter_In in Hy as [Hy _]. apply Hp; auto.
Qed.

(* "a before b" is allowed unless b was scheduled earlier with a rounded deadline that is not later *)
Definition ord_ok (r : Z) (st : state) (a b : Z) : Prop :=
  forall da db, In (a, da) (reqs st) -> In (b, db) (reqs st) -> b < a -> ceilr r da < ceilr r db.

Record Inv2 (r : Z) (st : state) : Prop := mkInv2 {
  J_cons : forall s d, In (s, d) (reqs st) ->
             In s (map e_seq (q st)) \/ In s (taken st) \/ In s (map fst (cancels st));
  J_flag : forall e, In e (q st) -> e_canc e = true -> In (e_seq e) (map fst (cancels st));
  J_rest : forall a da e, In a (taken st) -> In (a, da) (reqs st) -> In e (q st) -> e_seq e < a -> ceilr r da < e_dl e;
  J_ord : ordered (ord_ok r st) (taken st) }.

Lemma inv2_init : forall r, Inv2 r init.
Proof. intros r. constructor; cbn; try (intros; contradiction). exact I. Qed.

Lemma inv2_step : forall r st l st', Inv r st -> Inv2 r st -> step r st l = Some st' -> Inv2 r st'.
Proof.
  intros r st l st' HI [Jc Jf Jr Jo] Hst. pose proof (inv_step _ _ _ _ HI Hst) as HI'.
  destruct l as [d|s|t|b|]; cbn in Hst.
  - (* Sched *) inversion Hst; subst st'; clear Hst.
    assert (Old : forall a da, In a (taken st) -> In (a, da) (reqs st ++ [(seq st + 1, d)]) -> In (a, da) (reqs st)).
    { intros a da Ha Hin. apply in_app_or in Hin as [Hin|[Hin|[]]]; [exact Hin|]. inversion Hin; subst.
      pose proof (taken_range _ _ _ HI Ha). lia. }
    constructor; unfold taken in *; proj.
    + intros s d0 Hin. apply in_app_or in Hin as [Hin|[Hin|[]]].
      * destruct (Jc s d0 Hin) as [H|[H|H]]; auto. left. apply in_map_iff in H as (y & Ey & Hy).
        apply in_map_iff. exists y. split; [exact Ey|]. apply In_insert. right. exact Hy.
      * inversion Hin; subst. left. apply in_map_iff. eexists. split; [|apply In_insert; left; reflexivity]. reflexivity.
    + intros y Hy Cy. apply In_insert in Hy as [->|Hy]; [discriminate|]. apply Jf; assumption.
    + intros a da y Ha Hr Hy Lt. apply In_insert in Hy as [->|Hy].
      * cbn in Lt. pose proof (taken_range _ _ _ HI Ha). unfold taken in *. lia.
      * eapply Jr; eauto.
    + eapply ordered_mono; [|exact Jo]. intros a b Ha Hb Hp da db H1 H2. apply Hp; apply Old; assumption.
  - (* Cancel *) destruct ((1 <=? s) && (s <=? seq st)); [|discriminate]. inversion Hst; subst st'; clear Hst.
    constructor; unfold taken in *; proj.
    + intros s0 d Hin. rewrite map_set_canc_seq, map_app. destruct (Jc s0 d Hin) as [H|[H|H]]; auto.
      right. right. apply in_or_app. left. exact H.
    + intros e' He' Ce. apply in_map_iff in He' as (y & <- & Hy). rewrite map_app. apply in_or_app.
      destruct (set_canc_key s y) as [_ ->]. destruct (Z.eq_dec (e_seq y) s) as [E|N].
      * right. left. cbn. auto.
      * left. apply Jf; [exact Hy|]. rewrite (set_canc_other _ _ N) in Ce. exact Ce.
    + intros a da e' Ha Hr He' Lt. apply in_map_iff in He' as (y & <- & Hy).
      destruct (set_canc_key s y) as [E1 E2]. rewrite E1. rewrite E2 in Lt. eapply Jr; eauto.
    + exact Jo.
  - (* Tick *) destruct (Z.leb_spec (now st) t); [|discriminate]. inversion Hst; subst st'; clear Hst.
    constructor; unfold taken in *; proj; assumption.
  - (* Worker *) destruct (worker_seg st b) as [w|] eqn:W; [|discriminate]. inversion Hst; subst st'; clear Hst.
    destruct (worker_seg_spec st b w (I_pc _ _ HI) W) as (p & (P1 & P2 & P3 & P4) & _ & _). cbn [app] in P2.
    assert (T : map fst (ran st) ++ spawned st ++ w_new w = taken st ++ w_new w) by (unfold taken; rewrite app_assoc; reflexivity).
    assert (Sub : forall y, In y (w_q w) -> In y (q st)) by (intros y Hy; rewrite P1; apply in_or_app; right; exact Hy).
    assert (SubP : forall y, In y p -> In y (q st)) by (intros y Hy; rewrite P1; apply in_or_app; left; exact Hy).
    pose proof (I_sorted _ _ HI) as Hs. rewrite P1 in Hs.
    assert (Dl : forall y da, In y (q st) -> In (e_seq y, da) (reqs st) -> e_dl y = ceilr r da).
    { intros y da Hy Hr. destruct (I_q _ _ HI y Hy) as (d' & D1 & D2). rewrite (I_rfun _ _ HI _ _ _ Hr D1). exact D2. }
    assert (KL : forall x y, key_lt x y -> e_seq y < e_seq x -> e_dl x < e_dl y) by (unfold key_lt; intros; lia).
    constructor; unfold taken; proj; rewrite ?T.
    + intros s d Hin. destruct (Jc s d Hin) as [H|[H|H]]; auto; [|right; left; apply in_or_app; left; exact H].
      rewrite P1, map_app in H. apply in_app_or in H as [H|H]; [|left; exact H].
      apply in_map_iff in H as (y & Ey & Hy). destruct (e_canc y) eqn:Cy.
      * right. right. rewrite <- Ey. apply Jf; [apply SubP, Hy|exact Cy].
      * right. left. apply in_or_app. right. rewrite P2, <- Ey. apply in_map, filter_In. split; [exact Hy|].
        unfold live. rewrite Cy. reflexivity.
    + intros y Hy. apply Jf, Sub, Hy.
    + intros a da y Ha Hr Hy Lt. apply in_app_or in Ha as [Ha|Ha]; [eapply Jr; eauto|].
      rewrite P2 in Ha. apply in_map_iff in Ha as (x & <- & Hx). apply filter_In in Hx as [Hx _].
      rewrite <- (Dl x da (SubP x Hx) Hr). apply KL; [|exact Lt]. eapply sorted_app_lt; eauto.
    + apply ordered_app. split; [exact Jo|]. split.
      * rewrite P2. apply ordered_sorted.
        -- clear - Hs. induction p as [|x p IH]; cbn in *; [exact I|]. destruct Hs as [H1 H2]. split; [|apply IH, H2].
           intros y Hy. apply H1, in_or_app. left. exact Hy.
        -- intros x y Hx Hy K da db H1 H2 Lt. rewrite <- (Dl x da (SubP x Hx) H1), <- (Dl y db (SubP y Hy) H2).
           apply KL; assumption.
      * intros a c Ha Hc da db H1 H2 Lt. rewrite P2 in Hc. apply in_map_iff in Hc as (y & <- & Hy).
        apply filter_In in Hy as [Hy _]. rewrite <- (Dl y db (SubP y Hy) H2). eapply Jr; eauto.
  - (* Run *) destruct (spawned st) as [|s sp] eqn:Sp; [discriminate|]. inversion Hst; subst st'; clear Hst.
    assert (T : map fst (ran st ++ [(s, now st)]) ++ sp = taken st).
    { unfold taken. rewrite Sp, map_app, <- app_assoc. reflexivity. }
    constructor; unfold taken; proj; rewrite ?T; assumption.
Qed.

Lemma inv2_exec : forall r ls st st', Inv r st -> Inv2 r st -> exec r st ls = Some st' -> Inv2 r st'.
Proof.
  intros r ls. induction ls as [|l ls IH]; cbn; intros st st' HI HJ H.
  - inversion H; subst. exact HJ.
  - destruct (step r st l) as [st1|] eqn:S; [|discriminate].
    eapply IH; [eapply inv_step; eauto|eapply inv2_step; eauto|exact H].
Qed.

Lemma inv2_reachable : forall r st, reachable r st -> Inv2 r st.
Proof. intros r st [ls H]. eapply inv2_exec; [apply inv_init|apply inv2_init|exact H]. Qed.

(* ------------------------------------------------------------------------------------------------ *)
(* what cancel guarantees exactly: effective iff the worker has not yet taken the entry off the queue  *)
(* ------------------------------------------------------------------------------------------------ *)
Definition dead_in (s : Z) (st : state) : Prop :=
  ~ In s (taken st) /\ (forall e, In e (q st) -> e_seq e = s -> e_canc e = true) /\ s <= seq st.

Lemma dead_step : forall r s st l st', Inv r st -> dead_in s st -> step r st l = Some st' -> dead_in s st'.
Proof.
  intros r s st l st' HI (D1 & D2 & D3) Hst. destruct l as [d|c|t|b|]; cbn in Hst.
  - inversion Hst; subst st'; clear Hst. unfold dead_in, taken in *. proj. split; [exact D1|]. split; [|lia].
    intros e He Ee. apply In_insert in He as [->|He]; [cbn in Ee; lia|apply D2; assumption].
  - destruct ((1 <=? c) && (c <=? seq st)); [|discriminate]. inversion Hst; subst st'; clear Hst.
    unfold dead_in, taken in *. proj. split; [exact D1|]. split; [|exact D3].
    intros e He Ee. apply in_map_iff in He as (y & <- & Hy). apply set_canc_true. apply D2; [exact Hy|].
    destruct (set_canc_key c y) as [_ <-]. exact Ee.
  - destruct (Z.leb_spec (now st) t); [|discriminate]. inversion Hst; subst st'; clear Hst.
    unfold dead_in, taken in *. proj. auto.
  - destruct (worker_seg st b) as [w|] eqn:W; [|discriminate]. inversion Hst; subst st'; clear Hst.
    destruct (worker_seg_spec st b w (I_pc _ _ HI) W) as (p & (P1 & P2 & P3 & P4) & _ & _). cbn [app] in P2.
    unfold dead_in, taken in *. proj. split; [|split; [|exact D3]].
    + intros Hin. rewrite app_assoc in Hin. apply in_app_or in Hin as [Hin|Hin]; [exact (D1 Hin)|].
      rewrite P2 in Hin. apply in_map_iff in Hin as (y & Ey & Hy). apply filter_In in Hy as [Hy L].
      assert (Hq : In y (q st)) by (rewrite P1; apply in_or_app; left; exact Hy).
      unfold live in L. rewrite (D2 y Hq Ey) in L. discriminate.
    + intros e He. apply D2. rewrite P1. apply in_or_app. right. exact He.
  - destruct (spawned st) as [|x sp] eqn:Sp; [discriminate|]. inversion Hst; subst st'; clear Hst.
    unfold dead_in, taken in *. proj. split; [|split; assumption].
    rewrite Sp in D1. rewrite map_app, <- app_assoc. exact D1.
Qed.

Lemma dead_exec : forall r s ls st st', Inv r st -> dead_in s st -> exec r st ls = Some st' -> dead_in s st'.
Proof.
  intros r s ls. induction ls as [|l ls IH]; cbn; intros st st' HI D H.
  - inversion H; subst. exact D.
  - destruct (step r st l) as [st1|] eqn:S; [|discriminate].
    eapply IH; [eapply inv_step; eauto|eapply dead_step; eauto|exact H].
Qed.

Lemma cancel_makes_dead : forall r s st st', ~ In s (taken st) -> step r st (Cancel s) = Some st' -> dead_in s st'.
Proof.
  intros r s st st' Hn Hst. cbn in Hst. destruct ((1 <=? s) && (s <=? seq st)) eqn:Rg; [|discriminate].
  inversion Hst; subst st'; clear Hst. unfold dead_in, taken in *. proj. split; [exact Hn|]. split; [|lia].
  intros e He Ee. apply in_map_iff in He as (y & <- & Hy). apply set_canc_hit.
  destruct (set_canc_key s y) as [_ <-]. exact Ee.
Qed.
