(* Proofs about reply routing on one connection (C02). *)
From Scales Require Import Model.Base Model.Routing.
Local Open Scope Z_scope.

Definition all_own (d : list (Z * Z)) : Prop := forall c c', In (c, c') d -> c = c'.

(* ---- serial ---------------------------------------------------------------------------------- *)
Module SerialP.
Import Serial.

Record Inv (s : st) : Prop := {
  inv_own : all_own (delivered s);
  inv_one : closed s = false -> (length (unanswered s ++ pipe s) <= 1)%nat /\
            forall x, In x (unanswered s ++ pipe s) -> owner s = Some x;
}.

Lemma inv_init : Inv init.
Proof. constructor; cbn; [intros c c' []|]. intros _. split; [lia|intros x []]. Qed.

Lemma step_inv s l s' : Inv s -> step s l = Some s' -> Inv s'.
Proof.
  intros [Io I1] H. unfold step in H. destruct (closed s) eqn:C; [discriminate|]. specialize (I1 eq_refl).
  destruct I1 as [L O]. destruct l as [c| |c|].
  - destruct (unanswered s) as [|u us]; [|discriminate]. destruct (pipe s) as [|q qs]; [|discriminate].
    inversion H; subst; clear H. constructor; cbn; [exact Io|]. intros _. split; [lia|].
    intros x [E|[]]. now subst.
  - destruct (unanswered s) as [|u us] eqn:U; [discriminate|]. inversion H; subst; clear H.
    constructor; cbn; [exact Io|]. intros _.
    split.
    + rewrite !app_length in *. cbn [length] in *. lia.
    + intros x Hin. apply O. apply in_app_or in Hin as [Hin|Hin].
      * right. apply in_or_app. left. exact Hin.
      * apply in_app_or in Hin as [Hin|[E|[]]].
        -- right. apply in_or_app. right. exact Hin.
        -- left. exact E.
  - destruct (owner s) as [o|] eqn:Ow; [|discriminate]. destruct (pipe s) as [|c' rest] eqn:P; [discriminate|].
    destruct (Z.eqb_spec o c); [|discriminate]. subst o. inversion H; subst; clear H.
    assert (E : c = c').
    { assert (X : Some c = Some c') by (apply O; apply in_or_app; right; left; reflexivity). now inversion X. }
    subst c'. constructor; cbn.
    + intros a b [X|X]; [now inversion X|now apply Io].
    + intros _. rewrite !app_length in *. cbn [length] in *. split; [lia|].
      intros x Hin. exfalso.
      assert (length (unanswered s) = 0%nat /\ length rest = 0%nat) as [A B] by lia.
      destruct (unanswered s); [|discriminate]. destruct rest; [|discriminate]. destruct Hin.
  - inversion H; subst; clear H. constructor; cbn; [exact Io|discriminate].
Qed.

Lemma run_inv : forall ls s s', Inv s -> run s ls = Some s' -> Inv s'.
Proof.
  induction ls as [|l ls IH]; intros s s' I H; cbn in H; [inversion H; now subst|].
  destruct (step s l) as [s1|] eqn:E; [|discriminate]. eapply IH; [|eassumption]. eapply step_inv; eassumption.
Qed.

Lemma own_reply ls s : run init ls = Some s -> all_own (delivered s).
Proof. intros H. exact (inv_own s (run_inv ls _ _ inv_init H)). Qed.

(* a request abandoned on an incarnation blocks every later write on it (so it must be closed first) *)
Lemma abandoned_blocks ls s c : run init ls = Some s -> closed s = false -> unanswered s ++ pipe s <> [] ->
  step s (Write c) = None.
Proof.
  intros _ C N. unfold step. rewrite C. destruct (unanswered s); [|reflexivity]. destruct (pipe s); [|reflexivity].
  exfalso. apply N. reflexivity.
Qed.
End SerialP.

(* ---- mux -------------------------------------------------------------------------------------- *)
Module MuxP.
Import Mux.

Lemma lookup_remove_other m t t2 : t2 <> t -> lookup (remove m t) t2 = lookup m t2.
Proof.
  intros N. induction m as [|[k v] m IH]; cbn; [reflexivity|].
  destruct (Z.eqb_spec k t).
  - subst k. destruct (Z.eqb_spec t t2); [congruence|exact IH].
  - cbn. destruct (k =? t2); [reflexivity|exact IH].
Qed.

Lemma lookup_in m t v : lookup m t = Some v -> In (t, v) m.
Proof.
  induction m as [|[k x] m IH]; cbn; [discriminate|]. destruct (Z.eqb_spec k t).
  - intros E. inversion E; subst. now left.
  - intros E. right. now apply IH.
Qed.

Lemma in_remove m t k v : In (k, v) (remove m t) -> In (k, v) m /\ k <> t.
Proof.
  induction m as [|[a b] m IH]; cbn; [intros []|]. destruct (Z.eqb_spec a t).
  - intros H. destruct (IH H). split; [now right|assumption].
  - intros [E|H]; [inversion E; subst; split; [now left|assumption]|]. destruct (IH H). split; [now right|assumption].
Qed.

(* the real (answering) frames in flight, as (tag, request) pairs *)
Fixpoint real (f : list (Z * option Z)) : list (Z * Z) :=
  match f with [] => [] | (t, Some c) :: r => (t, c) :: real r | (_, None) :: r => real r end.

Lemma real_app a b : real (a ++ b) = real a ++ real b.
Proof. induction a as [|[t [c|]] a IH]; cbn; [reflexivity| |]; now rewrite ?IH. Qed.

Definition tags (l : list (Z * Z)) : list Z := map fst l.

Record Inv (s : st) : Prop := {
  inv_own : all_own (delivered s);
  inv_map : closed s = false -> forall t c, In (t, c) (unanswered s ++ real (flying s)) -> lookup (tag_map s) t = Some c;
  inv_nodup : closed s = false -> NoDup (tags (unanswered s ++ real (flying s)));
}.

Lemma inv_init : Inv init.
Proof. constructor; cbn; [intros c c' []|intros _ t c []|intros _; constructor]. Qed.

Lemma tags_app a b : tags (a ++ b) = tags a ++ tags b.
Proof. unfold tags. apply map_app. Qed.

Lemma in_tags l t c : In (t, c) l -> In t (tags l).
Proof. intros H. unfold tags. change t with (fst (t, c)). now apply in_map. Qed.

Lemma remove_split m t x : NoDup (tags m) -> lookup m t = Some x ->
  exists a b, m = a ++ (t, x) :: b /\ remove m t = a ++ b /\ ~ In t (tags a) /\ ~ In t (tags b).
Proof.
  induction m as [|[k v] m IH]; cbn; [discriminate|]. intros ND L. inversion ND as [|? ? Hn ND']; subst.
  destruct (Z.eqb_spec k t).
  - subst k. inversion L; subst. exists [], m. cbn.
    assert (R : remove m t = m).
    { clear -Hn. induction m as [|[a b] m IH]; cbn; [reflexivity|]. cbn in Hn.
      destruct (Z.eqb_spec a t); [exfalso; apply Hn; now left|]. f_equal. apply IH. intros X. apply Hn. now right. }
    split; [reflexivity|]. split; [exact R|]. split; [intros []|exact Hn].
  - destruct (IH ND' L) as (a & b & E & R & Na & Nb). exists ((k, v) :: a), b. cbn.
    split; [f_equal; exact E|]. split; [f_equal; exact R|]. split; [|exact Nb].
    intros [X|X]; [congruence|contradiction].
Qed.

Lemma nodup_insert (a b : list Z) t : NoDup (a ++ b) -> ~ In t (a ++ b) -> NoDup (a ++ t :: b).
Proof. intros N F. apply (NoDup_Add (Add_app t a b)). split; assumption. Qed.

Lemma nodup_snoc (l : list Z) t : NoDup l -> ~ In t l -> NoDup (l ++ [t]).
Proof. intros N F. apply nodup_insert; rewrite app_nil_r; assumption. Qed.

Lemma step_inv s l s' : Inv s -> step s l = Some s' -> Inv s'.
Proof.
  intros [Io Im In_] H. unfold step in H. destruct (closed s) eqn:C; [discriminate|].
  specialize (Im eq_refl). specialize (In_ eq_refl).
  destruct l as [c tag|tag c'|tag| |].
  - (* Write *)
    unfold has_tag in H. destruct (lookup (tag_map s) tag) eqn:L; [discriminate|]. inversion H; subst; clear H.
    assert (Fresh : ~ In tag (tags (unanswered s ++ real (flying s)))).
    { intros X. unfold tags in X. apply in_map_iff in X as ([t x] & E & Hin). cbn in E. subst t.
      rewrite (Im _ _ Hin) in L. discriminate. }
    constructor; cbn; [exact Io| |].
    + intros _ t x Hin. rewrite <- app_assoc in Hin. apply in_app_or in Hin as [Hin|Hin].
      * assert (t <> tag) by (intros ->; apply Fresh; apply (in_tags _ _ x); apply in_or_app; now left).
        destruct (Z.eqb_spec tag t); [congruence|]. apply Im. apply in_or_app. now left.
      * destruct Hin as [E|Hin].
        -- inversion E; subst. now rewrite Z.eqb_refl.
        -- assert (t <> tag) by (intros ->; apply Fresh; apply (in_tags _ _ x); apply in_or_app; now right).
           destruct (Z.eqb_spec tag t); [congruence|]. apply Im. apply in_or_app. now right.
    + intros _. rewrite <- app_assoc, tags_app. cbn. apply nodup_insert; rewrite <- tags_app; assumption.
  - (* PeerReply *)
    destruct (lookup (unanswered s) tag) as [x|] eqn:L; [|discriminate]. destruct (Z.eqb_spec x c'); [|discriminate].
    subst x. inversion H; subst; clear H.
    assert (NDu : NoDup (tags (unanswered s))).
    { rewrite tags_app in In_. clear -In_. induction (tags (unanswered s)) as [|z l IH]; [constructor|].
      cbn in In_. inversion In_ as [|? ? Hn ND]; subst. constructor; [|now apply IH].
      intros X. apply Hn. apply in_or_app. now left. }
    destruct (remove_split _ _ _ NDu L) as (a & b & E & R & Na & Nb).
    constructor; cbn; [exact Io| |].
    + intros _ t x Hin. rewrite real_app in Hin. cbn in Hin. apply Im.
      rewrite R in Hin. rewrite E.
      apply in_app_or in Hin as [Hin|Hin].
      * apply in_or_app. left. apply in_app_or in Hin as [Hin|Hin]; apply in_or_app; [now left|right; now right].
      * apply in_app_or in Hin as [Hin|[X|[]]].
        -- apply in_or_app. now right.
        -- inversion X; subst. apply in_or_app. left. apply in_or_app. right. now left.
    + intros _. rewrite real_app. cbn. rewrite R.
      rewrite E in In_. rewrite !tags_app in *. cbn in *. rewrite <- app_assoc in In_. cbn in In_.
      apply NoDup_remove in In_ as [ND Nin].
      rewrite app_assoc. apply nodup_snoc; rewrite <- app_assoc; assumption.
  - (* PeerStray *)
    destruct (has_tag (tag_map s) tag); [discriminate|]. inversion H; subst; clear H.
    constructor; cbn; [exact Io| |]; intros _; rewrite real_app; cbn; rewrite app_nil_r; assumption.
  - (* Recv *)
    destruct (flying s) as [|[tag x] rest] eqn:F; [discriminate|].
    destruct (lookup (tag_map s) tag) as [c|] eqn:L.
    + destruct x as [c'|]; [|discriminate]. inversion H; subst; clear H.
      assert (E : c = c').
      { assert (X : lookup (tag_map s) tag = Some c') by (apply Im; apply in_or_app; right; cbn; now left). congruence. }
      subst c'. cbn in In_. rewrite tags_app in In_. cbn in In_. apply NoDup_remove in In_ as [ND Nin].
      constructor; cbn.
      * intros a b [X|X]; [now inversion X|now apply Io].
      * intros _ t y Hin. assert (t <> tag).
        { intros ->. apply Nin. rewrite <- tags_app. now apply (in_tags _ _ y). }
        rewrite lookup_remove_other by assumption. apply Im. cbn.
        apply in_app_or in Hin as [Hin|Hin]; apply in_or_app; [now left|right; now right].
      * intros _. rewrite tags_app. exact ND.
    + inversion H; subst; clear H. constructor; cbn; [exact Io| |].
      * intros _ t y Hin. apply Im. destruct x as [c'|]; cbn; [|exact Hin].
        apply in_app_or in Hin as [Hin|Hin]; apply in_or_app; [now left|right; now right].
      * intros _. destruct x as [c'|]; cbn in In_; [|exact In_].
        rewrite tags_app in *. cbn in In_. now apply NoDup_remove_1 in In_.
  - inversion H; subst; clear H. constructor; cbn; [exact Io|discriminate|discriminate].
Qed.

Lemma run_inv : forall ls s s', Inv s -> run s ls = Some s' -> Inv s'.
Proof.
  induction ls as [|l ls IH]; intros s s' I H; cbn in H; [inversion H; now subst|].
  destruct (step s l) as [s1|] eqn:E; [|discriminate]. eapply IH; [|eassumption]. eapply step_inv; eassumption.
Qed.

Lemma own_reply ls s : run init ls = Some s -> all_own (delivered s).
Proof. intros H. exact (inv_own s (run_inv ls _ _ inv_init H)). Qed.

(* a reply to an abandoned request can only be delivered to that request's own (drained) stack:
   its tag stays bound to it until the peer answers *)
Lemma tag_stays_bound ls s t c : run init ls = Some s -> closed s = false ->
  In (t, c) (unanswered s ++ real (flying s)) -> lookup (tag_map s) t = Some c.
Proof. intros H C Hin. exact (inv_map s (run_inv ls _ _ inv_init H) C t c Hin). Qed.
End MuxP.
