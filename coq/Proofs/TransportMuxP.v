(* Proofs about the ThriftMux transport model (C08), second part: _Shutdown, exactly-once, pings, usability. *)
From Scales Require Import Model.Base Model.Transport Proofs.TransportP.
Local Open Scope Z_scope.

Module MuxP2.
Import Mux MuxP.

(* ---- _Shutdown ---- *)
Lemma nposts_shut c (f : bool) l t :
  NoDup l -> nposts c ((if f then [Faulted] else []) ++ errs l ++ [ShutdownAt t]) = if mem_z c l then 1%nat else O.
Proof.
  intros N. rewrite !nposts_app, (nposts_errs c l N). destruct f; cbn; lia.
Qed.

Lemma shutdown_spec f s s' e :
  cst s <> Closed -> NoDup (tagmap s) -> shutdown f s = (s', e) ->
  (forall c, nposts c e = if mem_z c (tagmap s) then 1%nat else O) /\
  (forall c k, In (Post c k) e -> k = KClientErr) /\
  (forall c, acc c e = false /\ rel c e = false) /\
  nfaults e = (if f then 1 else 0) /\ In (ShutdownAt (now s)) e /\
  tagmap s' = [] /\ queue s' = [] /\ cst s' = Closed /\ sndl s' = SDead /\ rcv s' = RDead /\ pl s' = PNone /\
  seen s' = seen s /\ now s' = now s.
Proof.
  intros C N H. unfold shutdown in H. fold (errs (tagmap s)) in H.
  destruct (cst s) eqn:E; try congruence; inversion H; subst; clear H; cbn.
  all: split; [intros c; apply nposts_shut; assumption|].
  all: split; [intros c k X; apply in_app_or in X; destruct X as [X|X];
               [destruct f; cbn in X; [destruct X as [X|[]]; discriminate | destruct X]
               | apply in_app_or in X; destruct X as [X|[X|[]]]; [eapply posts_errs_kind; eassumption | discriminate]]|].
  all: split; [intros c; rewrite !acc_app, !rel_app, acc_errs, rel_errs; destruct f; cbn; split; reflexivity|].
  all: split; [rewrite !nfaults_app, nfaults_errs; destruct f; cbn; reflexivity|].
  all: split; [apply in_or_app; right; apply in_or_app; right; left; reflexivity|].
  all: repeat split; reflexivity.
Qed.

Lemma shutdown_closed f s : cst s = Closed -> shutdown f s = (ar_fail s, []).
Proof. intros C. unfold shutdown. rewrite C. reflexivity. Qed.

Lemma ar_fail_same s :
  cst (ar_fail s) = cst s /\ tagmap (ar_fail s) = tagmap s /\ queue (ar_fail s) = queue s /\ seen (ar_fail s) = seen s /\
  sndl (ar_fail s) = sndl s /\ rcv (ar_fail s) = rcv s /\ pl (ar_fail s) = pl s /\ now (ar_fail s) = now s.
Proof. unfold ar_fail. destruct (par s); cbn; repeat split; reflexivity. Qed.

(* the labels that call _Shutdown, and with which [fault] flag *)
Definition shutdown_label (s : st) (l : label) : option bool :=
  match l with
  | MWrote r => match sndl s with SSending _ => if io_ok r then None else Some true | _ => None end
  | MRead r _ => match rcv s with RDead => None | _ => if io_ok r then None else Some true end
  | MPingTimeout => match ping_dl s with Some d => if (d =? now s) && par s then Some true else None | None => None end
  | MOConn false => match opn s with Some OConn => Some true | _ => None end
  | MClose => Some false
  | _ => None
  end.

Lemma shutdown_step s l f :
  shutdown_label s l = Some f ->
  exists s' e, step s l = Some (s', e) /\ e = snd (shutdown f s) /\
    cst s' = cst (fst (shutdown f s)) /\ tagmap s' = tagmap (fst (shutdown f s)) /\ queue s' = queue (fst (shutdown f s)) /\
    sndl s' = sndl (fst (shutdown f s)) /\ rcv s' = rcv (fst (shutdown f s)) /\ pl s' = pl (fst (shutdown f s)) /\
    seen s' = seen (fst (shutdown f s)).
Proof.
  intros H. destruct l; cbn in H; try discriminate.
  - (* MOConn false *)
    destruct ok; [discriminate|]. destruct (opn s) as [[| | |]|] eqn:O; try discriminate. inversion H; subst.
    cbn. rewrite O. destruct (shutdown true s) as [s1 e1] eqn:S. eexists. eexists. split; [reflexivity|].
    cbn. repeat split.
  - (* MWrote *)
    destruct (sndl s) eqn:Sd; try discriminate. destruct (io_ok r) eqn:R; [discriminate|]. inversion H; subst.
    cbn. rewrite Sd, R. destruct (shutdown true s) as [s1 e1] eqn:S. eexists. eexists. split; [reflexivity|].
    cbn. repeat split.
  - (* MRead *)
    destruct (io_ok r) eqn:R; [destruct (rcv s); discriminate|].
    destruct (rcv s) eqn:Rc; try discriminate; inversion H; subst; cbn; rewrite Rc, R;
    destruct (shutdown true s) as [s1 e1] eqn:S; eexists; eexists; (split; [reflexivity|]); cbn; repeat split.
  - (* MPingTimeout *)
    destruct (ping_dl s) as [d|] eqn:D; [|discriminate]. destruct ((d =? now s) && par s) eqn:B; [|discriminate].
    inversion H; subst. cbn. rewrite D, B. destruct (shutdown true s) as [s1 e1] eqn:S. eexists. eexists.
    split; [reflexivity|]. cbn. repeat split.
  - (* MClose *)
    inversion H; subst. cbn. destruct (shutdown false s) as [s1 e1] eqn:S. eexists. eexists. split; [reflexivity|].
    cbn. repeat split.
Qed.

(* C08_mux_fail_all_once, single step *)
Lemma fail_all_once s l f :
  cst s <> Closed -> NoDup (tagmap s) -> shutdown_label s l = Some f ->
  exists s' e, step s l = Some (s', e) /\
    (forall c, nposts c e = if mem_z c (tagmap s) then 1%nat else O) /\
    (forall c k, In (Post c k) e -> k = KClientErr) /\
    nfaults e = (if f then 1 else 0) /\ In (ShutdownAt (now s)) e /\
    tagmap s' = [] /\ queue s' = [] /\ cst s' = Closed /\ sndl s' = SDead /\ rcv s' = RDead /\ pl s' = PNone.
Proof.
  intros C N L. destruct (shutdown_step s l f L) as (s' & e & St & He & E1 & E2 & E3 & E4 & E5 & E6 & E7).
  destruct (shutdown f s) as [s1 e1] eqn:Sh. cbn in *. subst e.
  destruct (shutdown_spec f s s1 e1 C N Sh) as (P1 & P2 & P3 & P4 & P5 & P6 & P7 & P8 & P9 & P10 & P11 & P12 & P13).
  exists s', e1. split; [assumption|]. repeat split; try assumption; congruence.
Qed.

(* a second _Shutdown is a no-op; a request on the closed transport is refused *)
Lemma shutdown_again s l f :
  cst s = Closed -> shutdown_label s l = Some f ->
  exists s', step s l = Some (s', []) /\ cst s' = Closed /\ tagmap s' = tagmap s /\ queue s' = queue s.
Proof.
  intros C L. destruct (shutdown_step s l f L) as (s' & e & St & He & E1 & E2 & E3 & _).
  rewrite (shutdown_closed f s C) in *. cbn in *. subst e. destruct (ar_fail_same s) as (A1 & A2 & A3 & _).
  exists s'. split; [assumption|]. repeat split; congruence.
Qed.

Lemma req_when_closed s c :
  cst s = Closed -> mem_z c (seen s) = false ->
  exists s', step s (MReq c) = Some (s', [Post c KNotOpen]) /\ cst s' = Closed /\ tagmap s' = tagmap s /\ queue s' = queue s.
Proof.
  intros C M. cbn. rewrite M, C. eexists. split; [reflexivity|]. cbn. repeat split; assumption.
Qed.

(* ---- every tagged call gets at most one message, exactly one once it left _tag_map unreleased ---- *)
Definition quiet (e : list ev) : Prop := forall c, nposts c e = O /\ acc c e = false /\ rel c e = false.

Inductive summary (s s' : st) (e : list ev) : Prop :=
| SQuiet : quiet e -> seen s' = seen s -> tagmap s' = tagmap s -> waiting s' = waiting s -> summary s s' e
| SReply c : In c (tagmap s) -> tagmap s' = remove_z c (tagmap s) -> seen s' = seen s -> waiting s' = waiting s ->
    (forall c', nposts c' e = if c =? c' then 1%nat else O) -> (forall c', acc c' e = false /\ rel c' e = false) -> summary s s' e
| SRelease c : In c (tagmap s) -> tagmap s' = remove_z c (tagmap s) -> seen s' = seen s -> waiting s' = waiting s ->
    (forall c', nposts c' e = O /\ acc c' e = false /\ rel c' e = (c =? c')) -> summary s s' e
| SShutdown : tagmap s' = [] -> seen s' = seen s -> waiting s' = waiting s ->
    (forall c', nposts c' e = if mem_z c' (tagmap s) then 1%nat else O) -> (forall c', acc c' e = false /\ rel c' e = false) ->
    summary s s' e
| SAccept c : mem_z c (seen s) = false -> tagmap s' = tagmap s ++ [c] -> seen s' = c :: seen s -> waiting s' = waiting s ->
    e = [Accepted c] -> summary s s' e
| SReject c : mem_z c (seen s) = false -> tagmap s' = tagmap s -> seen s' = c :: seen s -> waiting s' = waiting s ->
    e = [Post c KNotOpen] -> summary s s' e
| SBlock c : mem_z c (seen s) = false -> tagmap s' = tagmap s -> seen s' = c :: seen s -> waiting s' = waiting s ++ [c] ->
    e = [] -> summary s s' e
| SResumeAccept c : In c (waiting s) -> tagmap s' = tagmap s ++ [c] -> seen s' = seen s ->
    waiting s' = remove_z c (waiting s) -> e = [Accepted c] -> summary s s' e
| SResumeReject c : In c (waiting s) -> tagmap s' = tagmap s -> seen s' = seen s ->
    waiting s' = remove_z c (waiting s) -> e = [Post c KNotOpen] -> summary s s' e.

Lemma quiet_nil : quiet [].
Proof. intros c. repeat split. Qed.

Lemma ar_fail_waiting s : waiting (ar_fail s) = waiting s.
Proof. unfold ar_fail. destruct (par s); reflexivity. Qed.

Lemma shutdown_waiting f s : waiting (fst (shutdown f s)) = waiting s.
Proof. unfold shutdown. destruct (cst s); cbn; try reflexivity. apply ar_fail_waiting. Qed.

Lemma shutdown_summary f s s1 e1 :
  Inv s -> shutdown f s = (s1, e1) -> forall s', tagmap s' = tagmap s1 -> seen s' = seen s1 -> waiting s' = waiting s1 ->
  summary s s' e1.
Proof.
  intros I Sh s' T Sn W. pose proof (shutdown_waiting f s) as Ws. rewrite Sh in Ws. cbn in Ws. destruct (cst s) eqn:C.
  1,2: assert (C' : cst s <> Closed) by congruence;
    destruct (shutdown_spec f s s1 e1 C' (m_nodup _ I) Sh) as (P1 & P2 & P3 & P4 & P5 & P6 & P7 & P8 & P9 & P10 & P11 & P12 & P13);
    apply SShutdown; try congruence; assumption.
  rewrite (shutdown_closed f s C) in Sh. inversion Sh; subst. destruct (ar_fail_same s) as (A1 & A2 & A3 & A4 & _).
  apply SQuiet; [apply quiet_nil | congruence | congruence | congruence].
Qed.

Lemma shutdown_step_waiting s l f s' e :
  shutdown_label s l = Some f -> step s l = Some (s', e) -> waiting s' = waiting s.
Proof.
  intros L H. pose proof (shutdown_waiting f s) as W.
  destruct l; cbn in L; try discriminate.
  - destruct ok; [discriminate|]. destruct (opn s) as [[| | |]|] eqn:O; try discriminate. inversion L; subst.
    cbn in H. rewrite O in H. destruct (shutdown true s) as [s1 e1]. inversion H; subst. cbn in *. assumption.
  - destruct (sndl s) eqn:Sd; try discriminate. destruct (io_ok r) eqn:R; [discriminate|]. inversion L; subst.
    cbn in H. rewrite Sd, R in H. destruct (shutdown true s) as [s1 e1]. inversion H; subst. assumption.
  - destruct (io_ok r) eqn:R; [destruct (rcv s); discriminate|].
    destruct (rcv s) eqn:Rc; try discriminate; inversion L; subst; cbn in H; rewrite Rc, R in H;
    destruct (shutdown true s) as [s1 e1]; inversion H; subst; assumption.
  - destruct (ping_dl s) as [d|] eqn:D; [|discriminate]. destruct ((d =? now s) && par s) eqn:B; [|discriminate].
    inversion L; subst. cbn in H. rewrite D, B in H. destruct (shutdown true s) as [s1 e1]. inversion H; subst. assumption.
  - inversion L; subst. cbn in H. destruct (shutdown false s) as [s1 e1]. inversion H; subst. assumption.
Qed.

Lemma step_summary s l s' e : Inv s -> step s l = Some (s', e) -> summary s s' e.
Proof.
  intros I H.
  destruct (shutdown_label s l) as [f|] eqn:L.
  - pose proof (shutdown_step_waiting s l f s' e L H) as W.
    destruct (shutdown_step s l f L) as (s2 & e2 & St & He & E1 & E2 & E3 & E4 & E5 & E6 & E7).
    rewrite H in St. inversion St; subst s2 e2. pose proof (shutdown_waiting f s) as Ws.
    destruct (shutdown f s) as [s1 e1] eqn:Sh. cbn in *. subst e.
    eapply shutdown_summary; try eassumption. congruence.
  - pose proof (m_idle _ I) as I5. pose proof (m_nodup _ I) as I1. pose proof (m_closed _ I) as I4. clear I.
    destruct s as [nw ch op tm sn ex q sd rc pd pa dl pls lw lpg wt]; cbn in *.
    destruct l; cbn in H, L; unfold send_ping, tick_ok in H; cbn in H; brk; try discriminate;
    try (apply SQuiet; [intros c0; cbn; auto | reflexivity
                       | cbn; try reflexivity; first [destruct I5 as (_ & T & _); [reflexivity|]; congruence | destruct I4 as (T & _); [reflexivity|]; congruence]
                       | reflexivity]; fail).
    + (* MReq blocks on the open result *) eapply SBlock; cbn; try reflexivity; assumption.
    + (* MReq refused while idle *) eapply SReject; cbn; try reflexivity; assumption.
    + (* MReq accepted *) eapply SAccept; cbn; try reflexivity; assumption.
    + (* MReq refused when closed *) eapply SReject; cbn; try reflexivity; assumption.
    + (* a blocked caller resumes on an open transport *)
      eapply SResumeAccept with (c := c); cbn; try reflexivity. apply mem_z_true. assumption.
    + (* a blocked caller resumes on a closed transport *)
      eapply SResumeReject with (c := c); cbn; try reflexivity. apply mem_z_true. assumption.
    + (* MTake drops an expired frame *)
      eapply SRelease with (c := c); cbn; try reflexivity.
      * apply mem_z_true. assumption.
      * intros c'. rewrite orb_false_r. repeat split.
    + (* MProcess delivers a reply *)
      eapply SReply with (c := c); cbn; try reflexivity.
      * apply mem_z_true. assumption.
      * intros c'. rewrite Nat.add_0_r. reflexivity.
      * intros c'. split; reflexivity.
Qed.

Record G (s : st) (evs : list ev) : Prop := {
  g_fresh : forall c, mem_z c (seen s) = false -> nposts c evs = O /\ acc c evs = false /\ rel c evs = false;
  g_map : forall c, In c (tagmap s) -> nposts c evs = O /\ acc c evs = true /\ rel c evs = false;
  g_wait : forall c, In c (waiting s) -> nposts c evs = O /\ acc c evs = false /\ rel c evs = false;
  g_done : forall c, mem_z c (seen s) = true -> ~ In c (tagmap s) -> ~ In c (waiting s) ->
     (acc c evs = true /\ ((nposts c evs = 1%nat /\ rel c evs = false) \/ (nposts c evs = O /\ rel c evs = true))) \/
     (acc c evs = false /\ nposts c evs = 1%nat /\ rel c evs = false);
}.

Lemma G_init t0 : G (init t0) [].
Proof. constructor; cbn; intros; try discriminate; try tauto; repeat split. Qed.

Lemma mem_cons c x l : mem_z c (x :: l) = (c =? x) || mem_z c l.
Proof. reflexivity. Qed.

Lemma step_G s l s' e evs : Inv s -> G s evs -> step s l = Some (s', e) -> G s' (evs ++ e).
Proof.
  intros I [Gf Gm Gw Gd] H. pose proof (m_map_seen _ I) as Ms. pose proof (m_nodup _ I) as Nd.
  pose proof (m_wait_seen _ I) as Ws. pose proof (m_wait_map _ I) as Wm. pose proof (m_wait_nodup _ I) as Wn.
  apply step_summary in H; [|assumption].
  destruct H as [Q Hs Ht Hw | c Hin Ht Hs Hw Hn Ha | c Hin Ht Hs Hw Hr | Ht Hs Hw Hn Ha | c Hc Ht Hs Hw He | c Hc Ht Hs Hw He
                | c Hc Ht Hs Hw He | c Hin Ht Hs Hw He | c Hin Ht Hs Hw He].
  - constructor; intros c0; rewrite ?Hs, ?Ht, ?Hw; intros; rewrite nposts_app, acc_app, rel_app;
    destruct (Q c0) as (Q1 & Q2 & Q3); rewrite Q1, Q2, Q3, ?Nat.add_0_r, ?orb_false_r; auto.
  - (* reply *)
    destruct (Gm _ Hin) as (G1 & G2 & G3). pose proof (Ms _ Hin) as Hm.
    constructor; intros c0; rewrite ?Hs, ?Ht, ?Hw; intros; rewrite nposts_app, acc_app, rel_app, Hn;
    destruct (Ha c0) as (A1 & A2); rewrite A1, A2, ?orb_false_r.
    + destruct (Z.eqb_spec c c0) as [E|E]; [subst; congruence|]. rewrite Nat.add_0_r. apply Gf. assumption.
    + apply remove_z_in in H as [H1 H2]. rewrite (proj2 (Z.eqb_neq c c0)) by congruence. rewrite Nat.add_0_r. apply Gm. assumption.
    + destruct (Z.eqb_spec c c0) as [E|E]; [subst; exfalso; eapply Wm; eassumption|]. rewrite Nat.add_0_r. apply Gw. assumption.
    + destruct (Z.eqb_spec c c0) as [E|E].
      * subst. left. rewrite G1, G2, G3. split; [reflexivity | left; split; reflexivity].
      * rewrite Nat.add_0_r. apply Gd; [assumption| |assumption]. intros X. apply H0. apply remove_z_in. split; [assumption | congruence].
  - (* released *)
    destruct (Gm _ Hin) as (G1 & G2 & G3). pose proof (Ms _ Hin) as Hm.
    constructor; intros c0; rewrite ?Hs, ?Ht, ?Hw; intros; rewrite nposts_app, acc_app, rel_app;
    destruct (Hr c0) as (R1 & R2 & R3); rewrite R1, R2, R3, ?Nat.add_0_r, ?orb_false_r.
    + destruct (Z.eqb_spec c c0) as [E|E]; [subst; congruence|]. rewrite orb_false_r. apply Gf. assumption.
    + apply remove_z_in in H as [H1 H2]. rewrite (proj2 (Z.eqb_neq c c0)) by congruence. rewrite orb_false_r. apply Gm. assumption.
    + destruct (Z.eqb_spec c c0) as [E|E]; [subst; exfalso; eapply Wm; eassumption|]. rewrite orb_false_r. apply Gw. assumption.
    + destruct (Z.eqb_spec c c0) as [E|E].
      * subst. left. rewrite G1, G2, orb_true_r. split; [reflexivity | right; split; reflexivity].
      * rewrite orb_false_r. apply Gd; [assumption| |assumption]. intros X. apply H0. apply remove_z_in. split; [assumption | congruence].
  - (* shutdown *)
    constructor; intros c0; rewrite ?Hs, ?Ht, ?Hw; intros; rewrite nposts_app, acc_app, rel_app, Hn;
    destruct (Ha c0) as (A1 & A2); rewrite A1, A2, ?orb_false_r.
    + destruct (mem_z c0 (tagmap s)) eqn:M.
      * apply mem_z_true in M. apply Ms in M. congruence.
      * rewrite Nat.add_0_r. apply Gf. assumption.
    + destruct H.
    + destruct (mem_z c0 (tagmap s)) eqn:M.
      * apply mem_z_true in M. exfalso. eapply Wm; eassumption.
      * rewrite Nat.add_0_r. apply Gw. assumption.
    + destruct (mem_z c0 (tagmap s)) eqn:M.
      * apply mem_z_true in M. destruct (Gm _ M) as (G1 & G2 & G3). left. rewrite G1, G2, G3.
        split; [reflexivity | left; split; reflexivity].
      * rewrite Nat.add_0_r. apply Gd; [assumption| |assumption]. apply mem_z_false. assumption.
  - (* accepted *)
    subst e. destruct (Gf _ Hc) as (F1 & F2 & F3).
    assert (Hn : ~ In c (tagmap s)) by (intros X; apply Ms in X; congruence).
    constructor; intros c0; rewrite ?Hs, ?Ht, ?Hw, ?mem_cons; intros; rewrite nposts_app, acc_app, rel_app; cbn;
    rewrite ?Nat.add_0_r, ?orb_false_r.
    + apply orb_false_iff in H as [H1 H2]. rewrite Z.eqb_sym, H1, orb_false_r. apply Gf. assumption.
    + apply in_app_or in H. destruct H as [H|[H|[]]].
      * destruct (Gm _ H) as (G1 & G2 & G3). rewrite G1, G2, G3. repeat split.
      * subst. rewrite Z.eqb_refl, orb_true_r. repeat split; assumption.
    + pose proof (Ws _ H) as Hm. destruct (Z.eqb_spec c c0) as [E|E]; [subst; congruence|]. rewrite orb_false_r. apply Gw. assumption.
    + destruct (Z.eqb_spec c0 c) as [E|E].
      * subst. exfalso. apply H0. apply in_or_app. right. left. reflexivity.
      * cbn in H. rewrite (proj2 (Z.eqb_neq c c0)) by congruence. rewrite orb_false_r.
        apply Gd; [assumption| |assumption]. intros X. apply H0. apply in_or_app. left. assumption.
  - (* refused: Sink not open *)
    subst e. destruct (Gf _ Hc) as (F1 & F2 & F3).
    assert (Hn : ~ In c (tagmap s)) by (intros X; apply Ms in X; congruence).
    constructor; intros c0; rewrite ?Hs, ?Ht, ?Hw, ?mem_cons; intros; rewrite nposts_app, acc_app, rel_app; cbn;
    rewrite ?Nat.add_0_r, ?orb_false_r.
    + apply orb_false_iff in H as [H1 H2]. rewrite Z.eqb_sym, H1, Nat.add_0_r. apply Gf. assumption.
    + destruct (Z.eqb_spec c c0) as [E|E]; [subst; contradiction|]. rewrite Nat.add_0_r. apply Gm. assumption.
    + pose proof (Ws _ H) as Hm. destruct (Z.eqb_spec c c0) as [E|E]; [subst; congruence|]. rewrite Nat.add_0_r. apply Gw. assumption.
    + destruct (Z.eqb_spec c0 c) as [E|E].
      * subst. rewrite Z.eqb_refl. right. rewrite F1, F2, F3. repeat split.
      * cbn in H. rewrite (proj2 (Z.eqb_neq c c0)) by congruence. rewrite Nat.add_0_r. apply Gd; assumption.
  - (* blocked on the open result *)
    subst e. destruct (Gf _ Hc) as (F1 & F2 & F3). rewrite app_nil_r.
    constructor; intros c0; rewrite ?Hs, ?Ht, ?Hw, ?mem_cons; intros.
    + apply orb_false_iff in H as [H1 H2]. apply Gf. assumption.
    + apply Gm. assumption.
    + apply in_app_or in H. destruct H as [H|[H|[]]]; [apply Gw; assumption | subst; repeat split; assumption].
    + destruct (Z.eqb_spec c0 c) as [E|E].
      * subst. exfalso. apply H1. apply in_or_app. right. left. reflexivity.
      * cbn in H. apply Gd; [assumption | assumption |]. intros X. apply H1. apply in_or_app. left. assumption.
  - (* resumed, accepted *)
    subst e. destruct (Gw _ Hin) as (F1 & F2 & F3). pose proof (Ws _ Hin) as Hm. pose proof (Wm _ Hin) as Hn.
    constructor; intros c0; rewrite ?Hs, ?Ht, ?Hw; intros; rewrite nposts_app, acc_app, rel_app; cbn;
    rewrite ?Nat.add_0_r, ?orb_false_r.
    + destruct (Z.eqb_spec c c0) as [E|E]; [subst; congruence|]. rewrite orb_false_r. apply Gf. assumption.
    + apply in_app_or in H. destruct H as [H|[H|[]]].
      * destruct (Gm _ H) as (G1 & G2 & G3). rewrite G1, G2, G3. repeat split.
      * subst. rewrite Z.eqb_refl, orb_true_r. repeat split; assumption.
    + apply remove_z_in in H as [H1 H2]. rewrite (proj2 (Z.eqb_neq c c0)) by congruence. rewrite orb_false_r. apply Gw. assumption.
    + destruct (Z.eqb_spec c0 c) as [E|E].
      * subst. exfalso. apply H0. apply in_or_app. right. left. reflexivity.
      * rewrite (proj2 (Z.eqb_neq c c0)) by congruence. rewrite orb_false_r.
        apply Gd; [assumption | |].
        -- intros X. apply H0. apply in_or_app. left. assumption.
        -- intros X. apply H1. apply remove_z_in. split; assumption.
  - (* resumed, refused *)
    subst e. destruct (Gw _ Hin) as (F1 & F2 & F3). pose proof (Ws _ Hin) as Hm. pose proof (Wm _ Hin) as Hn.
    constructor; intros c0; rewrite ?Hs, ?Ht, ?Hw; intros; rewrite nposts_app, acc_app, rel_app; cbn;
    rewrite ?Nat.add_0_r, ?orb_false_r.
    + destruct (Z.eqb_spec c c0) as [E|E]; [subst; congruence|]. rewrite Nat.add_0_r. apply Gf. assumption.
    + destruct (Z.eqb_spec c c0) as [E|E]; [subst; contradiction|]. rewrite Nat.add_0_r. apply Gm. assumption.
    + apply remove_z_in in H as [H1 H2]. rewrite (proj2 (Z.eqb_neq c c0)) by congruence. rewrite Nat.add_0_r. apply Gw. assumption.
    + destruct (Z.eqb_spec c0 c) as [E|E].
      * subst. rewrite Z.eqb_refl. right. rewrite F1, F2, F3. repeat split.
      * rewrite (proj2 (Z.eqb_neq c c0)) by congruence. rewrite Nat.add_0_r. apply Gd; [assumption | assumption |].
        intros X. apply H1. apply remove_z_in. split; assumption.
Qed.

Lemma run_G ls : forall s s' e evs, Inv s -> G s evs -> run s ls = Some (s', e) -> G s' (evs ++ e) /\ Inv s'.
Proof.
  induction ls as [|l ls IH]; intros s s' e evs I Gs H; cbn in H.
  - inversion H; subst. rewrite app_nil_r. split; assumption.
  - destruct (step s l) as [[s1 e1]|] eqn:S; [|discriminate].
    destruct (run s1 ls) as [[s2 e2]|] eqn:R; [|discriminate]. inversion H; subst.
    rewrite app_assoc. eapply IH; [| |exact R].
    + eapply step_inv; eassumption.
    + eapply step_G; eassumption.
Qed.

Lemma mux_once t0 ls s e c :
  run (init t0) ls = Some (s, e) ->
  (nposts c e <= 1)%nat /\
  (In c (tagmap s) -> nposts c e = O /\ acc c e = true) /\
  (In c (waiting s) -> nposts c e = O /\ acc c e = false) /\
  (acc c e = true -> ~ In c (tagmap s) -> rel c e = false -> nposts c e = 1%nat) /\
  (mem_z c (seen s) = true -> ~ In c (waiting s) -> acc c e = false -> nposts c e = 1%nat) /\
  (cst s = Closed -> tagmap s = []).
Proof.
  intros H. destruct (run_G ls (init t0) s e [] (inv_init t0) (G_init t0) H) as [[Gf Gm Gw Gd] I]. cbn in *.
  split; [|split; [|split; [|split; [|split]]]].
  - destruct (mem_z c (seen s)) eqn:M.
    + destruct (in_dec Z.eq_dec c (tagmap s)) as [X|X].
      * destruct (Gm _ X) as (Y & _). lia.
      * destruct (in_dec Z.eq_dec c (waiting s)) as [W|W].
        -- destruct (Gw _ W) as (Y & _). lia.
        -- destruct (Gd c M X W) as [(_ & [D|D])|D]; lia.
    + destruct (Gf c M) as (X & _). lia.
  - intros X. destruct (Gm _ X) as (Y1 & Y2 & _). split; assumption.
  - intros X. destruct (Gw _ X) as (Y1 & Y2 & _). split; assumption.
  - intros A N R. destruct (mem_z c (seen s)) eqn:M.
    + destruct (in_dec Z.eq_dec c (waiting s)) as [W|W]; [destruct (Gw _ W) as (_ & Y & _); congruence|].
      destruct (Gd c M N W) as [(_ & [D|D])|D]; [tauto | | ]; destruct D; congruence.
    + destruct (Gf c M) as (_ & X & _). congruence.
  - intros M W A. assert (N : ~ In c (tagmap s)) by (intros X; destruct (Gm _ X) as (_ & Y & _); congruence).
    destruct (Gd c M N W) as [(Y & _)|(_ & Y & _)]; [congruence | assumption].
  - intros C. apply (m_closed _ I C).
Qed.

(* a caller blocked on the open result can resume as soon as the transport is no longer Idle; what it gets is decided
   then: "Sink not open" on a closed transport (exactly one message), a tag on an open one *)
Lemma blocked_resumes s c :
  Inv s -> In c (waiting s) -> cst s <> Idle ->
  exists s' e, step s (MResumeReq c) = Some (s', e) /\ ~ In c (waiting s') /\
    (cst s = Closed -> e = [Post c KNotOpen] /\ tagmap s' = tagmap s) /\
    (cst s = Open -> e = [Accepted c] /\ In c (tagmap s')).
Proof.
  intros I W C. apply mem_z_true in W. cbn. rewrite W.
  assert (R : ~ In c (remove_z c (waiting s))) by (intros X; apply remove_z_in in X; tauto).
  destruct (cst s) eqn:E; [congruence | |]; eexists; eexists; (split; [reflexivity|]); cbn; (split; [exact R|]);
  split; intros X; try discriminate; split; try reflexivity. apply in_or_app. right. left. reflexivity.
Qed.

(* while the transport is Idle with callers waiting, an Open() is in progress: they are not forgotten *)
Lemma waiting_idle_opening s : Inv s -> cst s = Idle -> waiting s <> [] -> opn s <> None.
Proof. intros I C W O. apply W. apply (m_wait_idle _ I C O). Qed.

(* ---- pings ---- *)
Definition ER (s : st) (evs : list ev) : Prop := forall d, ping_dl s = Some d -> In (PingSent (lastping s)) evs.

Lemma step_ER s l s' e evs : Inv s -> ER s evs -> step s l = Some (s', e) -> ER s' (evs ++ e).
Proof.
  intros I E H. pose proof (m_dl _ I) as I9. pose proof (m_pre _ I) as I8. clear I. unfold ER in *.
  destruct s as [nw ch op tm sn ex q sd rc pd pa dl pls lw lpg wt]; cbn in *.
  destruct l; cbn in H; unfold shutdown, send_ping, ar_fail, wake_fail, tick_ok in H; cbn in H; brk; cbn; intros d0 Hd;
  apply in_or_app;
  try (left; apply (E d0); assumption);
  try (right; left; reflexivity);
  try (right; apply in_or_app; right; left; reflexivity);
  try discriminate;
  try (destruct pa; [discriminate | destruct (I9 _ Hd) as (X & _); discriminate]).
Qed.

Lemma run_ER ls : forall s s' e evs, Inv s -> ER s evs -> run s ls = Some (s', e) -> ER s' (evs ++ e) /\ Inv s'.
Proof.
  induction ls as [|l ls IH]; intros s s' e evs I Es H; cbn in H.
  - inversion H; subst. rewrite app_nil_r. split; assumption.
  - destruct (step s l) as [[s1 e1]|] eqn:S; [|discriminate].
    destruct (run s1 ls) as [[s2 e2]|] eqn:R; [|discriminate]. inversion H; subst.
    rewrite app_assoc. eapply IH; [| |exact R].
    + eapply step_inv; eassumption.
    + eapply step_ER; eassumption.
Qed.

Lemma ER_init t0 : ER (init t0) [].
Proof. intros d H. discriminate. Qed.

Lemma tick_bound s t s' e : step s (MTick t) = Some (s', e) ->
  now s <= t /\ (forall d, ping_dl s = Some d -> t <= d) /\ (forall p, pl s = PSleep p -> t <= p).
Proof.
  cbn. unfold tick_ok. destruct (now s <=? t) eqn:A; [|discriminate]. cbn.
  destruct (ping_dl s) as [d|]; destruct (pl s) as [| |p]; cbn;
  repeat match goal with |- context [?a <=? ?b] => destruct (Z.leb_spec a b); cbn end; try discriminate;
  intros _; apply Z.leb_le in A; repeat split; try assumption; intros x X; inversion X; subst; assumption.
Qed.

Lemma ping_timeout_step s d :
  Inv s -> ping_dl s = Some d ->
  d = lastping s + ping_timeout /\ now s <= d /\ par s = true /\
  (now s < d -> step s MPingTimeout = None) /\
  (now s = d -> exists s' e, step s MPingTimeout = Some (s', e) /\ cst s' = Closed /\
     (cst s <> Closed -> nfaults e = 1 /\ In (ShutdownAt d) e /\ tagmap s' = [] /\ queue s' = [] /\
                         forall c, nposts c e = if mem_z c (tagmap s) then 1%nat else O)).
Proof.
  intros I D. destruct (m_dl _ I _ D) as (P & E & N). repeat split; try assumption.
  - intros L. cbn. rewrite D. rewrite (proj2 (Z.eqb_neq d (now s))) by lia. reflexivity.
  - intros E2. assert (L : shutdown_label s MPingTimeout = Some true).
    { cbn. rewrite D, P. subst d. rewrite E2 at 1. rewrite Z.eqb_refl. reflexivity. }
    destruct (cst s) eqn:C.
    1,2: assert (C' : cst s <> Closed) by congruence;
      destruct (fail_all_once s MPingTimeout true C' (m_nodup _ I) L) as (s' & e & St & F1 & F2 & F3 & F4 & F5 & F6 & F7 & _);
      exists s', e; split; [assumption|]; split; [assumption|]; intros _; rewrite <- E2; repeat split; assumption.
    destruct (shutdown_again s MPingTimeout true C L) as (s' & St & C2 & _).
    exists s', []. split; [assumption|]. split; [assumption|]. intros X. congruence.
Qed.

Lemma ping_dl_persists s l s' e d :
  Inv s -> step s l = Some (s', e) -> ping_dl s = Some d -> ping_dl s' = Some d \/ In Pong e \/ cst s' = Closed.
Proof.
  intros I H D. pose proof (m_pre _ I) as I8. pose proof (m_dl _ I) as I9. clear I.
  destruct s as [nw ch op tm sn ex q sd rc pd pa dl pls lw lpg wt]; cbn in *. subst dl.
  destruct l; cbn in H; unfold shutdown, send_ping, ar_fail, wake_fail, tick_ok in H; cbn in H; brk; cbn;
  try (left; reflexivity); try (right; left; left; reflexivity); try (right; right; reflexivity);
  try (destruct I8 as (X & _); [tauto | discriminate]).
Qed.

Lemma ping_wake_step s d s' e :
  Inv s -> step s (MPingWake d) = Some (s', e) ->
  e = [PingSent (now s)] /\ 30 * tps <= now s - lastw s <= 40 * tps /\ lastw s' = now s /\ lastping s' = now s /\
  ping_dl s' = Some (now s + ping_timeout) /\ queue s' = queue s ++ [IPing] /\
  exists p, pl s' = PSleep p /\ now s + 30 * tps <= p <= now s + 40 * tps.
Proof.
  intros I H. pose proof (m_sleep _ I) as I11. clear I.
  destruct s as [nw ch op tm sn ex q sd rc pd pa dl pls lw lpg wt]; cbn -[Z.mul Z.add] in *.
  destruct pls as [| |p]; try discriminate. destruct dl; try discriminate.
  destruct ((p =? nw) && (30 <=? d) && (d <=? 40)) eqn:B; [|discriminate].
  unfold send_ping in H. cbn -[Z.mul Z.add] in H. inversion H; subst; clear H. cbn -[Z.mul Z.add].
  apply andb_true_iff in B as [Hb Hd2]. apply andb_true_iff in Hb as [Hp Hd1].
  apply Z.eqb_eq in Hp. apply Z.leb_le in Hd1, Hd2. subst. destruct (I11 _ eq_refl) as (S1 & S2 & S3 & S4).
  unfold ping_timeout, tps in *.
  split; [reflexivity|]. split; [lia|]. split; [reflexivity|]. split; [reflexivity|]. split; [reflexivity|].
  split; [reflexivity|]. eexists. split; [reflexivity|]. destruct d; lia.
Qed.

Lemma ping_wake_enabled s p d :
  Inv s -> pl s = PSleep p -> now s = p -> 30 <= d <= 40 -> step s (MPingWake d) <> None.
Proof.
  intros I P N D. pose proof (m_sleep _ I _ P) as (S1 & S2 & S3 & S4). cbn. rewrite P.
  destruct (ping_dl s) as [x|] eqn:X.
  - destruct (m_dl _ I _ X) as (_ & E & L). unfold ping_timeout, tps in *. lia.
  - subst p. rewrite Z.eqb_refl. destruct (Z.leb_spec 30 d); [|lia]. destruct (Z.leb_spec d 40); [|lia]. cbn.
    unfold send_ping. discriminate.
Qed.

(* ---- reported open => usable ---- *)
Record Alive (s : st) : Prop := {
  a_wait : cst s <> Closed -> (opn s = Some OPingWait \/ exists b, opn s = Some (OWoken b)) -> sndl s <> SDead /\ rcv s <> RDead;
  a_open : cst s = Open -> sndl s <> SDead /\ rcv s <> RDead;
}.

Lemma alive_init t0 : Alive (init t0).
Proof. constructor; cbn; intros; try discriminate. destruct H0 as [X|(b & X)]; discriminate. Qed.

Lemma step_alive s l s' e : Alive s -> step s l = Some (s', e) -> Alive s'.
Proof.
  intros [A1 A2] H.
  destruct s as [nw ch op tm sn ex q sd rc pd pa dl pls lw lpg wt]; cbn in *.
  destruct l; cbn in H; unfold shutdown, send_ping, ar_fail, wake_fail, tick_ok in H; cbn in H; brk;
  constructor; cbn; intros; cbn in *;
  repeat match goal with
  | H : _ \/ _ |- _ => destruct H
  | H : exists _, _ |- _ => destruct H
  end; try discriminate; try congruence;
  try (split; discriminate);
  try (destruct A2 as [X Y]; [congruence|]; split; congruence);
  try (destruct A1 as [X Y];
       [congruence | first [left; congruence | right; eexists; eassumption | right; eexists; reflexivity] |];
       split; congruence).
Qed.

Lemma run_alive ls : forall s s' e, Inv s -> Alive s -> run s ls = Some (s', e) -> Inv s' /\ Alive s'.
Proof.
  induction ls as [|l ls IH]; intros s s' e I A H; cbn in H.
  - inversion H; subst. split; assumption.
  - destruct (step s l) as [[s1 e1]|] eqn:S; [|discriminate].
    destruct (run s1 ls) as [[s2 e2]|] eqn:R; [|discriminate]. inversion H; subst.
    exact (IH _ _ _ (step_inv _ _ _ _ I S) (step_alive _ _ _ _ A S) R).
Qed.

Lemma usable s :
  Inv s -> Alive s -> cst s = Open ->
  sndl s <> SDead /\ rcv s <> RDead /\
  (sndl s = SIdle -> queue s = [] -> forall c, mem_z c (seen s) = false ->
     exists s1 s2 s3, step s (MReq c) = Some (s1, [Accepted c]) /\ step s1 MTake = Some (s2, []) /\
                      step s2 (MWrote IoOk) = Some (s3, [Wire (IFrame c)]) /\ In c (tagmap s3)).
Proof.
  intros I A C. destruct (a_open _ A C) as (A1 & A2). split; [assumption|]. split; [assumption|].
  intros Sd Q c M. pose proof (m_exp_seen _ I c) as Ex.
  assert (Ex' : mem_z c (expired s) = false) by (destruct (mem_z c (expired s)); [rewrite Ex in M by reflexivity; discriminate | reflexivity]).
  destruct s as [nw ch op tm sn ex q sd rc pd pa dl pls lw lpg wt]; cbn in *. subst ch sd q.
  eexists. eexists. eexists.
  split; [cbn; rewrite M; reflexivity|].
  split; [cbn; rewrite Ex'; reflexivity|].
  split; [reflexivity|]. cbn. apply in_or_app. right. left. reflexivity.
Qed.

(* ---- the fault signal is raised at most once (for runs without the open-after-shutdown step) ---- *)
Lemma step_faults s l s' e :
  step s l = Some (s', e) -> nfaults e = 0 \/ (nfaults e = 1 /\ cst s <> Closed /\ cst s' = Closed).
Proof.
  intros H. destruct s as [nw ch op tm sn ex q sd rc pd pa dl pls lw lpg wt].
  destruct l; cbn in H; unfold shutdown, send_ping, ar_fail, wake_fail, tick_ok in H; cbn in H; brk; cbn;
  try (left; reflexivity);
  try (fold (errs tm); rewrite ?nfaults_app, nfaults_errs; cbn; first [left; reflexivity | right; repeat split; discriminate]).
Qed.

Lemma step_stays_closed s l s' e : step s l = Some (s', e) -> cst s = Closed -> cst s' = Closed.
Proof.
  intros H C. destruct s as [nw ch op tm sn ex q sd rc pd pa dl pls lw lpg wt]. cbn in C. subst ch.
  destruct l; cbn in H; unfold shutdown, send_ping, ar_fail, wake_fail, tick_ok in H; cbn in H; brk;
  try reflexivity; try discriminate.
Qed.

Lemma run_faults ls : forall s s' e,
  run s ls = Some (s', e) ->
  (cst s = Closed -> nfaults e = 0 /\ cst s' = Closed) /\ (nfaults e = 0 \/ (nfaults e = 1 /\ cst s' = Closed)).
Proof.
  induction ls as [|l ls IH]; intros s s' e H; cbn in H.
  - inversion H; subst. cbn. split; [intros C; split; [reflexivity | assumption] | left; reflexivity].
  - destruct (step s l) as [[s1 e1]|] eqn:S; [|discriminate].
    destruct (run s1 ls) as [[s2 e2]|] eqn:R; [|discriminate]. inversion H; subst.
    destruct (IH _ _ _ R) as (I1 & I2). rewrite nfaults_app.
    destruct (step_faults _ _ _ _ S) as [F|(F & C1 & C2)].
    + split.
      * intros C. pose proof (step_stays_closed _ _ _ _ S C) as C1. destruct (I1 C1) as (X & Y). split; [lia | assumption].
      * destruct I2 as [X|(X & Y)]; [left; lia | right; split; [lia | assumption]].
    + destruct (I1 C2) as (X & Y). split; [intros C; contradiction | right; split; [lia | assumption]].
Qed.

Lemma closed_posts_notopen s l s' e c k :
  Inv s -> cst s = Closed -> step s l = Some (s', e) -> In (Post c k) e -> k = KNotOpen.
Proof.
  intros I C H P. pose proof (m_closed _ I C) as (T & _). clear I.
  destruct s as [nw ch op tm sn ex q sd rc pd pa dl pls lw lpg wt]. cbn in C, T. subst ch tm.
  destruct l; cbn in H; unfold shutdown, send_ping, ar_fail, wake_fail, tick_ok in H; cbn in H; brk; cbn in P;
  repeat match goal with H : _ \/ _ |- _ => destruct H end; try contradiction; try discriminate;
  try (inversion P; reflexivity); try (match goal with H : Post _ _ = Post _ _ |- _ => inversion H; reflexivity end).
Qed.

End MuxP2.
