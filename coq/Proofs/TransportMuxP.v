(* Proofs about the ThriftMux transport model (C08), second part: _Shutdown, exactly-once, pings, usability. *)
From Scales Require Import Model.Base Model.Transport Proofs.TransportP.
Local Open Scope Z_scope.

Module MuxP2.
Import Mux MuxP.

(* ---- _Shutdown ---- *)
Lemma nposts_shut c (f : bool) l t :
  NoDup l -> nposts c ((if f then [Faulted] else []) ++ errs l ++ [ShutdownAt t]) = if mem_z c l then 1%nat else O.
Proof.
  intros N. rewrite !nposts_app, (nposts_errs c l N). destruct f; cbn; lia.
Qed.

Lemma shutdown_spec f s s' e :
  cst s <> Closed -> NoDup (tagmap s) -> shutdown f s = (s', e) ->
  (forall c, nposts c e = if mem_z c (tagmap s) then 1%nat else O) /\
  (forall c k, In (Post c k) e -> k = KClientErr) /\
  (forall c, acc c e = false /\ rel c e = false) /\
  nfaults e = (if f then 1 else 0) /\ In (ShutdownAt (now s)) e /\
  tagmap s' = [] /\ queue s' = [] /\ cst s' = Closed /\ sndl s' = SDead /\ rcv s' = RDead /\ pl s' = PNone /\
  seen s' = seen s /\ now s' = now s.
Proof.
  intros C N H. unfold shutdown in H. fold (errs (tagmap s)) in H.
  destruct (cst s) eqn:E; try congruence; inversion H; subst; clear H; cbn.
  all: split; [intros c; apply nposts_shut; assumption|].
  all: split; [intros c k X; apply in_app_or in X; destruct X as [X|X];
               [destruct f; cbn in X; [destruct X as [X|[]]; discriminate | destruct X]
               | apply in_app_or in X; destruct X as [X|[X|[]]]; [eapply posts_errs_kind; eassumption | discriminate]]|].
  all: split; [intros c; rewrite !acc_app, !rel_app, acc_errs, rel_errs; destruct f; cbn; split; reflexivity|].
  all: split; [rewrite !nfaults_app, nfaults_errs; destruct f; cbn; reflexivity|].
  all: split; [apply in_or_app; right; apply in_or_app; right; left; reflexivity|].
  all: repeat split; reflexivity.
Qed.

Lemma shutdown_closed f s : cst s = Closed -> shutdown f s = (ar_fail s, []).
Proof. intros C. unfold shutdown. rewrite C. reflexivity. Qed.

Lemma ar_fail_same s :
  cst (ar_fail s) = cst s /\ tagmap (ar_fail s) = tagmap s /\ queue (ar_fail s) = queue s /\ seen (ar_fail s) = seen s /\
  sndl (ar_fail s) = sndl s /\ rcv (ar_fail s) = rcv s /\ pl (ar_fail s) = pl s /\ now (ar_fail s) = now s.
Proof. unfold ar_fail. destruct (par s); cbn; repeat split; reflexivity. Qed.

(* the labels that call _Shutdown, and with which [fault] flag *)
Definition shutdown_label (s : st) (l : label) : option bool :=
  match l with
  | MWrote r => match sndl s with SSending _ => if io_ok r then None else Some true | _ => None end
  | MRead r _ => match rcv s with RDead => None | _ => if io_ok r then None else Some true end
  | MPingTimeout => match ping_dl s with Some d => if (d =? now s) && par s then Some true else None | None => None end
  | MOConn false => match opn s with Some OConn => Some true | _ => None end
  | MClose => Some false
  | _ => None
  end.

Lemma shutdown_step s l f :
  shutdown_label s l = Some f ->
  exists s' e, step s l = Some (s', e) /\ e = snd (shutdown f s) /\
    cst s' = cst (fst (shutdown f s)) /\ tagmap s' = tagmap (fst (shutdown f s)) /\ queue s' = queue (fst (shutdown f s)) /\
    sndl s' = sndl (fst (shutdown f s)) /\ rcv s' = rcv (fst (shutdown f s)) /\ pl s' = pl (fst (shutdown f s)) /\
    seen s' = seen (fst (shutdown f s)).
Proof.
  intros H. destruct l; cbn in H; try discriminate.
  - (* MOConn false *)
    destruct ok; [discriminate|]. destruct (opn s) as [[| | |]|] eqn:O; try discriminate. inversion H; subst.
    cbn. rewrite O. destruct (shutdown true s) as [s1 e1] eqn:S. eexists. eexists. split; [reflexivity|].
    cbn. repeat split.
  - (* MWrote *)
    destruct (sndl s) eqn:Sd; try discriminate. destruct (io_ok r) eqn:R; [discriminate|]. inversion H; subst.
    cbn. rewrite Sd, R. destruct (shutdown true s) as [s1 e1] eqn:S. eexists. eexists. split; [reflexivity|].
    cbn. repeat split.
  - (* MRead *)
    destruct (io_ok r) eqn:R; [destruct (rcv s); discriminate|].
    destruct (rcv s) eqn:Rc; try discriminate; inversion H; subst; cbn; rewrite Rc, R;
    destruct (shutdown true s) as [s1 e1] eqn:S; eexists; eexists; (split; [reflexivity|]); cbn; repeat split.
  - (* MPingTimeout *)
    destruct (ping_dl s) as [d|] eqn:D; [|discriminate]. destruct ((d =? now s) && par s) eqn:B; [|discriminate].
    inversion H; subst. cbn. rewrite D, B. destruct (shutdown true s) as [s1 e1] eqn:S. eexists. eexists.
    split; [reflexivity|]. cbn. repeat split.
  - (* MClose *)
    inversion H; subst. cbn. destruct (shutdown false s) as [s1 e1] eqn:S. eexists. eexists. split; [reflexivity|].
    cbn. repeat split.
Qed.

(* C08_mux_fail_all_once, single step *)
Lemma fail_all_once s l f :
  cst s <> Closed -> NoDup (tagmap s) -> shutdown_label s l = Some f ->
  exists s' e, step s l = Some (s', e) /\
    (forall c, nposts c e = if mem_z c (tagmap s) then 1%nat else O) /\
    (forall c k, In (Post c k) e -> k = KClientErr) /\
    nfaults e = (if f then 1 else 0) /\ In (ShutdownAt (now s)) e /\
    tagmap s' = [] /\ queue s' = [] /\ cst s' = Closed /\ sndl s' = SDead /\ rcv s' = RDead /\ pl s' = PNone.
Proof.
  intros C N L. destruct (shutdown_step s l f L) as (s' & e & St & He & E1 & E2 & E3 & E4 & E5 & E6 & E7).
  destruct (shutdown f s) as [s1 e1] eqn:Sh. cbn in *. subst e.
  destruct (shutdown_spec f s s1 e1 C N Sh) as (P1 & P2 & P3 & P4 & P5 & P6 & P7 & P8 & P9 & P10 & P11 & P12 & P13).
  exists s', e1. split; [assumption|]. repeat split; try assumption; congruence.
Qed.

(* a second _Shutdown is a no-op; a request on the closed transport is refused *)
Lemma shutdown_again s l f :
  cst s = Closed -> shutdown_label s l = Some f ->
  exists s', step s l = Some (s', []) /\ cst s' = Closed /\ tagmap s' = tagmap s /\ queue s' = queue s.
Proof.
  intros C L. destruct (shutdown_step s l f L) as (s' & e & St & He & E1 & E2 & E3 & _).
  rewrite (shutdown_closed f s C) in *. cbn in *. subst e. destruct (ar_fail_same s) as (A1 & A2 & A3 & _).
  exists s'. split; [assumption|]. repeat split; congruence.
Qed.

Lemma req_when_closed s c :
  cst s = Closed -> mem_z c (seen s) = false ->
  exists s', step s (MReq c) = Some (s', [Post c KNotOpen]) /\ cst s' = Closed /\ tagmap s' = tagmap s /\ queue s' = queue s.
Proof.
  intros C M. cbn. rewrite M, C. eexists. split; [reflexivity|]. cbn. repeat split; assumption.
Qed.

End MuxP2.
