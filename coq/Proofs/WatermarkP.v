(* Lemmas about the watermark pool model (C07): inductive invariants of `step` for every configuration and
   every label, and the local (one-step) facts about hand-off, FIFO order, queue bound and closing. *)
From Coq Require Import Permutation Sorted.
From Scales Require Import Model.Base Model.Watermark.
Local Open Scope Z_scope.

(* ---- lists -------------------------------------------------------------------------------------- *)
Lemma zlen_nil {A} : zlen (@nil A) = 0. Proof. reflexivity. Qed.
Lemma zlen_cons {A} (x : A) l : zlen (x :: l) = zlen l + 1.
Proof. unfold zlen. cbn [length]. lia. Qed.
Lemma zlen_app {A} (a b : list A) : zlen (a ++ b) = zlen a + zlen b.
Proof. unfold zlen. rewrite app_length. lia. Qed.
Lemma zlen_map {A B} (f : A -> B) l : zlen (map f l) = zlen l.
Proof. unfold zlen. now rewrite map_length. Qed.
Lemma zlen_nonneg {A} (l : list A) : 0 <= zlen l.
Proof. unfold zlen. lia. Qed.
Lemma zlen_perm {A} (a b : list A) : Permutation a b -> zlen a = zlen b.
Proof. intros H. unfold zlen. now rewrite (Permutation_length H). Qed.

Lemma nodup_app_r {A} (a b : list A) : NoDup (a ++ b) -> NoDup b.
Proof. induction a as [|x a IH]; cbn; intros H; auto. inversion H; auto. Qed.
Lemma nodup_app_l {A} (a b : list A) : NoDup (a ++ b) -> NoDup a.
Proof.
  induction a as [|x a IH]; cbn; intros H; [constructor|]. inversion H; subst. constructor; auto.
  intros Hi. apply H2. apply in_or_app. now left.
Qed.

Lemma extract_spec {A} (p : A -> bool) l x l' :
  extract p l = Some (x, l') -> exists l1 l2, l = l1 ++ x :: l2 /\ l' = l1 ++ l2 /\ p x = true
                                              /\ Forall (fun y => p y = false) l1.
Proof.
  revert x l'. induction l as [|y l IH]; intros x l' H; cbn in H; [discriminate|].
  destruct (p y) eqn:Ey.
  - inversion H; subst. eexists [], _. repeat split; auto.
  - destruct (extract p l) as [[z r]|] eqn:E; [|discriminate]. inversion H; subst.
    destruct (IH _ _ eq_refl) as (l1 & l2 & -> & -> & Hp & Hf). exists (y :: l1), l2. repeat split; auto.
Qed.

Lemma extract_none {A} (p : A -> bool) l : extract p l = None -> Forall (fun y => p y = false) l.
Proof.
  induction l as [|y l IH]; intros H; cbn in H; [constructor|].
  destruct (p y) eqn:Ey; [discriminate|]. destruct (extract p l) as [[z r]|]; [discriminate|]. constructor; auto.
Qed.

Lemma extract_nth_spec {A} k (l : list A) x l' :
  extract_nth k l = Some (x, l') -> exists l1 l2, l = l1 ++ x :: l2 /\ l' = l1 ++ l2 /\ length l1 = k.
Proof.
  revert k x l'. induction l as [|y l IH]; intros k x l' H; destruct k; cbn in H; try discriminate.
  - inversion H; subst. eexists [], _. cbn. repeat split.
  - destruct (extract_nth k l) as [[z r]|] eqn:E; [|discriminate]. inversion H; subst.
    destruct (IH _ _ _ E) as (l1 & l2 & -> & -> & Hk). exists (y :: l1), l2. cbn. repeat split; auto.
Qed.

Lemma extract_nth_some {A} k (l : list A) : (k < length l)%nat -> exists x l', extract_nth k l = Some (x, l').
Proof.
  revert k. induction l as [|y l IH]; intros k H; cbn in H; [lia|]. destruct k; cbn; eauto.
  destruct (IH k ltac:(lia)) as (x & l' & ->). eauto.
Qed.

(* Permutations between concatenations, by counting *)
Ltac perm :=
  apply (Permutation_count_occ Z.eq_dec); intro;
  repeat rewrite ?map_app, ?count_occ_app; cbn [map fst snd count_occ app];
  repeat rewrite ?map_app, ?count_occ_app; cbn [map fst snd count_occ app];
  repeat match goal with |- context [Z.eq_dec ?a ?b] => destruct (Z.eq_dec a b) end; lia.

(* ---- the connection-side invariant -------------------------------------------------------------- *)
(* every connection the pool holds: lent, cached, being opened, or waiting for a spawned hand-off *)
Definition held (st : state) : list Z := map fst (lent st) ++ cache st ++ map fst (opening st) ++ pq st.

(* t = connections "in the hand" of the code between two of those places (taken from one, not yet put
   into another); tr = everything observed so far *)
Record Core (t : list Z) (st : state) (tr : list obs) : Prop := {
  c_acct : size st = zlen (t ++ held st);
  c_nodup : NoDup (t ++ held st);
  c_range : Forall (fun s => 0 <= s < nsink st) (t ++ held st);
  c_nn : 0 <= nsink st;
  c_ghost : forall s, 0 <= s < nsink st -> In s (t ++ held st) \/ In (OClose s) tr \/ In (ODropped s) tr
}.

Lemma core_remove t st tr dead t' st' tr' :
  Core t st tr ->
  Permutation (t ++ held st) (dead ++ t' ++ held st') ->
  size st' = size st - zlen dead -> nsink st' = nsink st -> incl tr tr' ->
  (forall s, In s dead -> In (OClose s) tr' \/ In (ODropped s) tr') ->
  Core t' st' tr'.
Proof.
  intros [A N R NN G] P Hs Hn Hi Hd. constructor.
  - rewrite Hs, A, (zlen_perm _ _ P), zlen_app. lia.
  - apply (Permutation_NoDup P) in N. now apply nodup_app_r in N.
  - rewrite Hn. rewrite Forall_forall in *. intros x Hx. apply R. apply (Permutation_in _ (Permutation_sym P)).
    apply in_or_app. now right.
  - now rewrite Hn.
  - rewrite Hn. intros s Hr. destruct (G s Hr) as [H|[H|H]]; auto.
    apply (Permutation_in _ P) in H. apply in_app_or in H as [H|H]; auto.
Qed.

Lemma core_same t st tr t' st' tr' :
  Core t st tr -> Permutation (t ++ held st) (t' ++ held st') ->
  size st' = size st -> nsink st' = nsink st -> incl tr tr' -> Core t' st' tr'.
Proof.
  intros C P Hs Hn Hi. apply (core_remove t st tr [] t' st' tr'); auto.
  - rewrite zlen_nil. lia.
  - intros s [].
Qed.

Lemma core_add t st tr t' st' tr' :
  Core t st tr -> Permutation (t' ++ held st') (nsink st :: t ++ held st) ->
  size st' = size st + 1 -> nsink st' = nsink st + 1 -> incl tr tr' -> Core t' st' tr'.
Proof.
  intros [A N R NN G] P Hs Hn Hi. constructor.
  - rewrite Hs, A, (zlen_perm _ _ P), zlen_cons. lia.
  - apply (Permutation_NoDup (Permutation_sym P)). constructor; auto.
    intros H. rewrite Forall_forall in R. apply R in H. lia.
  - rewrite Hn. rewrite Forall_forall in *. intros x Hx. apply (Permutation_in _ P) in Hx. destruct Hx as [<-|Hx].
    + lia.
    + apply R in Hx. lia.
  - lia.
  - rewrite Hn. intros s Hr. destruct (Z.eq_dec s (nsink st)) as [->|Ne].
    + left. apply (Permutation_in _ (Permutation_sym P)). now left.
    + destruct (G s ltac:(lia)) as [H|[H|H]]; auto. left. apply (Permutation_in _ (Permutation_sym P)). now right.
Qed.

Lemma core_tr t st tr tr' : Core t st tr -> incl tr tr' -> Core t st tr'.
Proof. intros C Hi. apply (core_same t st tr); auto. Qed.

(* ---- the rest of the invariant ------------------------------------------------------------------ *)
Record Rest (cf : config) (st : state) : Prop := {
  r_max : size st <= cmax cf;
  r_cache : zlen (cache st) <= Z.max 0 (cmin cf);
  r_queue : zlen (waiters st) <= Z.max 0 (cmaxq cf);
  r_sorted : StronglySorted Z.lt (map fst (waiters st));
  r_wbound : Forall (fun c => c < ncall st) (map fst (waiters st));
  (* in a pool that is not closed somebody waits only while all max connections are in use and none is idle *)
  r_sat : pstate st <> 4 -> waiters st <> [] -> size st = cmax cf /\ cache st = []
}.

Definition Inv (cf : config) (t : list Z) (st : state) (tr : list obs) : Prop := Core t st tr /\ Rest cf st.

(* ---- _Dequeue ------------------------------------------------------------------------------------ *)
Lemma dequeue_spec c : forall m sz,
  exists dead, let '(o, c', _, sz', ob) := dequeue c m sz in
    c = dead ++ (match o with Some s => s :: c' | None => c' end)
    /\ (o = None -> c' = []) /\ sz' = sz - zlen dead /\ ob = map OClose dead.
Proof.
  induction c as [|s r IH]; intros m sz; cbn.
  - exists []. repeat split; auto. rewrite zlen_nil. lia.
  - destruct (lookup m s <=? 2).
    + exists []. repeat split; auto; try discriminate. rewrite zlen_nil. lia.
    + specialize (IH ((s, 4) :: m) (sz - 1)).
      destruct (dequeue r ((s, 4) :: m) (sz - 1)) as [[[[o c'] m'] sz'] ob]. destruct IH as (dead & E & Hn & Hs & Ho).
      exists (s :: dead). repeat split; auto.
      * cbn. now rewrite <- E.
      * rewrite Hs, zlen_cons. lia.
      * cbn. now rewrite Ho.
Qed.

Ltac splits := repeat match goal with |- _ /\ _ => split end.

Ltac sset :=
  unfold set_cache, set_waiters, set_size, set_lent, set_opening, set_pq, set_pstate, set_sst, set_nsink, set_ncall,
         set_gsize, set_gq, release_noop in *;
  cbn [cache waiters size lent opening pq pstate sst nsink ncall gsize gq] in *.

Lemma incl_app_l {A} (a b : list A) : incl a (a ++ b).
Proof. intros x H. apply in_or_app. now left. Qed.

Lemma in_map_close s dead tr : In s dead -> In (OClose s) (tr ++ map OClose dead).
Proof. intros H. apply in_or_app. right. now apply in_map. Qed.

(* ---- _Get ---------------------------------------------------------------------------------------- *)
Lemma get_inv cf who st tr g st' ob :
  get cf who st = (g, st', ob) -> Inv cf [] st tr ->
  waiters st' = waiters st /\ ncall st' = ncall st /\ pstate st' = pstate st /\ lent st' = lent st /\ pq st' = pq st /\
  match g with
  | GSink s => Inv cf [s] st' (tr ++ ob) /\ opening st' = opening st /\ In s (cache st)
  | GOpening => Inv cf [] st' (tr ++ ob) /\ opening st' = opening st ++ [(nsink st, who)]
  | GQueue => Inv cf [] st' (tr ++ ob) /\ opening st' = opening st /\ size st' = cmax cf /\ cache st' = []
              /\ zlen (waiters st) + 1 <= cmaxq cf
  | GFail => Inv cf [] st' (tr ++ ob) /\ opening st' = opening st /\ cmaxq cf < zlen (waiters st) + 1
  end.
Proof.
  unfold get. intros H [C R].
  pose proof (dequeue_spec (cache st) (sst st) (size st)) as D.
  destruct (dequeue (cache st) (sst st) (size st)) as [[[[o c'] m'] sz'] ob0].
  destruct D as (dead & Ec & Hn & Hs & Ho). subst ob0 sz'.
  pose proof (zlen_nonneg dead) as Hd0.
  destruct o as [s|].
  - inversion H; subst; clear H. sset. splits; auto.
    + split.
      * apply (core_remove [] st tr dead); sset; auto using incl_app_l, in_map_close.
        unfold held; sset. rewrite Ec. perm.
      * destruct R as [R1 R2 R3 R4 R5 R6]. constructor; sset; auto.
        -- lia.
        -- rewrite Ec, zlen_app, zlen_cons in R2. pose proof (zlen_nonneg c'). lia.
        -- intros Hp Hw. destruct (R6 Hp Hw) as [_ E]. rewrite E in Ec. destruct dead; discriminate.
    + rewrite Ec. apply in_or_app. right. now left.
  - specialize (Hn eq_refl). subst c'. rewrite app_nil_r in Ec.
    set (st1 := set_size (size st - zlen dead) (set_sst m' (set_cache [] st))) in *.
    assert (I1 : Inv cf [] st1 (tr ++ map OClose dead)).
    { split.
      - apply (core_remove [] st tr dead); subst st1; sset; auto using incl_app_l, in_map_close.
        unfold held; sset. rewrite Ec. perm.
      - destruct R as [R1 R2 R3 R4 R5 R6]. subst st1. constructor; sset; auto.
        + lia.
        + rewrite zlen_nil. lia.
        + intros Hp Hw. destruct (R6 Hp Hw) as [E1 E2]. rewrite E2 in Ec. subst dead. rewrite zlen_nil. split; [lia|auto]. }
    destruct I1 as [C1 R1].
    destruct (size st1 <? cmax cf) eqn:Elt.
    + inversion H; subst; clear H. apply Z.ltb_lt in Elt.
      splits; try (subst st1; sset; reflexivity).
      split.
      * rewrite app_assoc. apply (core_add [] st1 (tr ++ map OClose dead)); auto using incl_app_l.
        unfold held; subst st1; sset. rewrite map_app. cbn [map fst]. perm.
      * destruct R1 as [Q1 Q2 Q3 Q4 Q5 Q6]. subst st1; sset. constructor; sset; auto.
        -- lia.
        -- intros Hp Hw. destruct (Q6 Hp Hw) as [E1 E2]. lia.
    + apply Z.ltb_ge in Elt. destruct (zlen (waiters st1) + 1 >? cmaxq cf) eqn:Eq.
      * inversion H; subst; clear H. splits; auto; try (subst st1; sset; reflexivity).
        -- split; auto.
        -- subst st1; sset. lia.
      * inversion H; subst; clear H. destruct R1 as [Q1 Q2 Q3 Q4 Q5 Q6]. subst st1; sset.
        splits; auto; try lia.
        split.
        -- destruct C1 as [A N Rg NN G]. constructor; auto.
        -- constructor; sset; auto.
Qed.
