(* Lemmas about the watermark pool model (C07): inductive invariants of `step` for every configuration and
   every label, and the local (one-step) facts about hand-off, FIFO order, queue bound and closing. *)
From Coq Require Import Permutation Sorted.
From Scales Require Import Model.Base Model.Watermark.
Local Open Scope Z_scope.

(* ---- lists -------------------------------------------------------------------------------------- *)
Lemma zlen_nil {A} : zlen (@nil A) = 0. Proof. reflexivity. Qed.
Lemma zlen_cons {A} (x : A) l : zlen (x :: l) = zlen l + 1.
Proof. unfold zlen. cbn [length]. lia. Qed.
Lemma zlen_app {A} (a b : list A) : zlen (a ++ b) = zlen a + zlen b.
Proof. unfold zlen. rewrite app_length. lia. Qed.
Lemma zlen_map {A B} (f : A -> B) l : zlen (map f l) = zlen l.
Proof. unfold zlen. now rewrite map_length. Qed.
Lemma zlen_nonneg {A} (l : list A) : 0 <= zlen l.
Proof. unfold zlen. lia. Qed.
Lemma zlen_perm {A} (a b : list A) : Permutation a b -> zlen a = zlen b.
Proof. intros H. unfold zlen. now rewrite (Permutation_length H). Qed.

Lemma nodup_app_r {A} (a b : list A) : NoDup (a ++ b) -> NoDup b.
Proof. induction a as [|x a IH]; cbn; intros H; auto. inversion H; auto. Qed.
Lemma nodup_app_l {A} (a b : list A) : NoDup (a ++ b) -> NoDup a.
Proof.
  induction a as [|x a IH]; cbn; intros H; [constructor|]. inversion H; subst. constructor; auto.
  intros Hi. apply H2. apply in_or_app. now left.
Qed.

Lemma extract_spec {A} (p : A -> bool) l x l' :
  extract p l = Some (x, l') -> exists l1 l2, l = l1 ++ x :: l2 /\ l' = l1 ++ l2 /\ p x = true
                                              /\ Forall (fun y => p y = false) l1.
Proof.
  revert x l'. induction l as [|y l IH]; intros x l' H; cbn in H; [discriminate|].
  destruct (p y) eqn:Ey.
  - inversion H; subst. eexists [], _. repeat split; auto.
  - destruct (extract p l) as [[z r]|] eqn:E; [|discriminate]. inversion H; subst.
    destruct (IH _ _ eq_refl) as (l1 & l2 & -> & -> & Hp & Hf). exists (y :: l1), l2. repeat split; auto.
Qed.

Lemma extract_none {A} (p : A -> bool) l : extract p l = None -> Forall (fun y => p y = false) l.
Proof.
  induction l as [|y l IH]; intros H; cbn in H; [constructor|].
  destruct (p y) eqn:Ey; [discriminate|]. destruct (extract p l) as [[z r]|]; [discriminate|]. constructor; auto.
Qed.

Lemma extract_nth_spec {A} k (l : list A) x l' :
  extract_nth k l = Some (x, l') -> exists l1 l2, l = l1 ++ x :: l2 /\ l' = l1 ++ l2 /\ length l1 = k.
Proof.
  revert k x l'. induction l as [|y l IH]; intros k x l' H; destruct k; cbn in H; try discriminate.
  - inversion H; subst. eexists [], _. cbn. repeat split.
  - destruct (extract_nth k l) as [[z r]|] eqn:E; [|discriminate]. inversion H; subst.
    destruct (IH _ _ _ E) as (l1 & l2 & -> & -> & Hk). exists (y :: l1), l2. cbn. repeat split; auto.
Qed.

Lemma extract_nth_some {A} k (l : list A) : (k < length l)%nat -> exists x l', extract_nth k l = Some (x, l').
Proof.
  revert k. induction l as [|y l IH]; intros k H; cbn in H; [lia|]. destruct k; cbn; eauto.
  destruct (IH k ltac:(lia)) as (x & l' & ->). eauto.
Qed.

(* Permutations between concatenations, by counting *)
Ltac perm :=
  apply (Permutation_count_occ Z.eq_dec); intro;
  repeat rewrite ?map_app, ?count_occ_app; cbn [map fst snd count_occ app];
  repeat rewrite ?map_app, ?count_occ_app; cbn [map fst snd count_occ app];
  repeat match goal with |- context [Z.eq_dec ?a ?b] => destruct (Z.eq_dec a b) end; lia.

(* ---- the connection-side invariant -------------------------------------------------------------- *)
(* every connection the pool holds: lent, cached, being opened, or waiting for a spawned hand-off *)
Definition held (st : state) : list Z := map fst (lent st) ++ cache st ++ map fst (opening st) ++ pq st.

(* t = connections "in the hand" of the code between two of those places (taken from one, not yet put
   into another); tr = everything observed so far *)
Record Core (t : list Z) (st : state) (tr : list obs) : Prop := {
  c_acct : size st = zlen (t ++ held st);
  c_nodup : NoDup (t ++ held st);
  c_range : Forall (fun s => 0 <= s < nsink st) (t ++ held st);
  c_nn : 0 <= nsink st;
  c_ghost : forall s, 0 <= s < nsink st -> In s (t ++ held st) \/ In (OClose s) tr \/ In (ODropped s) tr
}.

Lemma core_remove t st tr dead t' st' tr' :
  Core t st tr ->
  Permutation (t ++ held st) (dead ++ t' ++ held st') ->
  size st' = size st - zlen dead -> nsink st' = nsink st -> incl tr tr' ->
  (forall s, In s dead -> In (OClose s) tr' \/ In (ODropped s) tr') ->
  Core t' st' tr'.
Proof.
  intros [A N R NN G] P Hs Hn Hi Hd. constructor.
  - rewrite Hs, A, (zlen_perm _ _ P), zlen_app. lia.
  - apply (Permutation_NoDup P) in N. now apply nodup_app_r in N.
  - rewrite Hn. rewrite Forall_forall in *. intros x Hx. apply R. apply (Permutation_in _ (Permutation_sym P)).
    apply in_or_app. now right.
  - now rewrite Hn.
  - rewrite Hn. intros s Hr. destruct (G s Hr) as [H|[H|H]]; auto.
    apply (Permutation_in _ P) in H. apply in_app_or in H as [H|H]; auto.
Qed.

Lemma core_same t st tr t' st' tr' :
  Core t st tr -> Permutation (t ++ held st) (t' ++ held st') ->
  size st' = size st -> nsink st' = nsink st -> incl tr tr' -> Core t' st' tr'.
Proof.
  intros C P Hs Hn Hi. apply (core_remove t st tr [] t' st' tr'); auto.
  - rewrite zlen_nil. lia.
  - intros s [].
Qed.

Lemma core_add t st tr t' st' tr' :
  Core t st tr -> Permutation (t' ++ held st') (nsink st :: t ++ held st) ->
  size st' = size st + 1 -> nsink st' = nsink st + 1 -> incl tr tr' -> Core t' st' tr'.
Proof.
  intros [A N R NN G] P Hs Hn Hi. constructor.
  - rewrite Hs, A, (zlen_perm _ _ P), zlen_cons. lia.
  - apply (Permutation_NoDup (Permutation_sym P)). constructor; auto.
    intros H. rewrite Forall_forall in R. apply R in H. lia.
  - rewrite Hn. rewrite Forall_forall in *. intros x Hx. apply (Permutation_in _ P) in Hx. destruct Hx as [<-|Hx].
    + lia.
    + apply R in Hx. lia.
  - lia.
  - rewrite Hn. intros s Hr. destruct (Z.eq_dec s (nsink st)) as [->|Ne].
    + left. apply (Permutation_in _ (Permutation_sym P)). now left.
    + destruct (G s ltac:(lia)) as [H|[H|H]]; auto. left. apply (Permutation_in _ (Permutation_sym P)). now right.
Qed.

Lemma core_tr t st tr tr' : Core t st tr -> incl tr tr' -> Core t st tr'.
Proof. intros C Hi. apply (core_same t st tr); auto. Qed.

(* ---- the rest of the invariant ------------------------------------------------------------------ *)
Record Rest (cf : config) (st : state) : Prop := {
  r_max : size st <= cmax cf;
  r_cache : zlen (cache st) <= Z.max 0 (cmin cf);
  r_queue : zlen (waiters st) <= Z.max 0 (cmaxq cf);
  r_sorted : StronglySorted Z.lt (map fst (waiters st));
  r_wbound : Forall (fun c => c < ncall st) (map fst (waiters st));
  (* in a pool that is not closed somebody waits only while all max connections are in use and none is idle *)
  r_sat : pstate st <> 4 -> waiters st <> [] -> size st = cmax cf /\ cache st = []
}.

Definition Inv (cf : config) (t : list Z) (st : state) (tr : list obs) : Prop := Core t st tr /\ Rest cf st.

(* ---- _Dequeue ------------------------------------------------------------------------------------ *)
Lemma dequeue_spec c : forall m sz,
  exists dead, let '(o, c', _, sz', ob) := dequeue c m sz in
    c = dead ++ (match o with Some s => s :: c' | None => c' end)
    /\ (o = None -> c' = []) /\ sz' = sz - zlen dead /\ ob = map OClose dead.
Proof.
  induction c as [|s r IH]; intros m sz; cbn.
  - exists []. repeat split; auto. rewrite zlen_nil. lia.
  - destruct (lookup m s <=? 2).
    + exists []. repeat split; auto; try discriminate. rewrite zlen_nil. lia.
    + specialize (IH ((s, 4) :: m) (sz - 1)).
      destruct (dequeue r ((s, 4) :: m) (sz - 1)) as [[[[o c'] m'] sz'] ob]. destruct IH as (dead & E & Hn & Hs & Ho).
      exists (s :: dead). repeat split; auto.
      * cbn. now rewrite <- E.
      * rewrite Hs, zlen_cons. lia.
      * cbn. now rewrite Ho.
Qed.

Ltac splits := repeat match goal with |- _ /\ _ => split end.

(* projections of setters, reduced lazily (never unfold a setter that is not under a projection) *)
Ltac sset :=
  cbn [cache waiters size lent opening pq pstate sst nsink ncall gsize gq
       set_cache set_waiters set_size set_lent set_opening set_pq set_pstate set_sst set_nsink set_ncall
       set_gsize set_gq release_noop] in *.

Lemma incl_app_l {A} (a b : list A) : incl a (a ++ b).
Proof. intros x H. apply in_or_app. now left. Qed.

Lemma in_map_close s dead tr : In s dead -> In (OClose s) (tr ++ map OClose dead).
Proof. intros H. apply in_or_app. right. now apply in_map. Qed.

(* ---- _Get ---------------------------------------------------------------------------------------- *)
Lemma get_inv cf who st tr g st' ob :
  get cf who st = (g, st', ob) -> Inv cf [] st tr ->
  waiters st' = waiters st /\ ncall st' = ncall st /\ pstate st' = pstate st /\ lent st' = lent st /\ pq st' = pq st /\
  match g with
  | GSink s => Inv cf [s] st' (tr ++ ob) /\ opening st' = opening st /\ In s (cache st)
  | GOpening => Inv cf [] st' (tr ++ ob) /\ opening st' = opening st ++ [(nsink st, who)]
  | GQueue => Inv cf [] st' (tr ++ ob) /\ opening st' = opening st /\ size st' = cmax cf /\ cache st' = []
              /\ zlen (waiters st) + 1 <= cmaxq cf
  | GFail => Inv cf [] st' (tr ++ ob) /\ opening st' = opening st /\ cmaxq cf < zlen (waiters st) + 1
  end.
Proof.
  unfold get. intros H [C R].
  pose proof (dequeue_spec (cache st) (sst st) (size st)) as D.
  destruct (dequeue (cache st) (sst st) (size st)) as [[[[o c'] m'] sz'] ob0].
  destruct D as (dead & Ec & Hn & Hs & Ho). subst ob0 sz'.
  pose proof (zlen_nonneg dead) as Hd0.
  destruct o as [s|].
  - inversion H; subst; clear H. sset. splits; auto.
    + split.
      * apply (core_remove [] st tr dead); sset; auto using incl_app_l, in_map_close.
        unfold held; sset. rewrite Ec. perm.
      * destruct R as [R1 R2 R3 R4 R5 R6]. constructor; sset; auto.
        -- lia.
        -- rewrite Ec, zlen_app, zlen_cons in R2. pose proof (zlen_nonneg c'). lia.
        -- intros Hp Hw. destruct (R6 Hp Hw) as [_ E]. rewrite E in Ec. destruct dead; discriminate.
    + rewrite Ec. apply in_or_app. right. now left.
  - specialize (Hn eq_refl). subst c'. rewrite app_nil_r in Ec. subst dead.
    set (st1 := set_size (size st - zlen (cache st)) (set_sst m' (set_cache [] st))) in *.
    assert (I1 : Inv cf [] st1 (tr ++ map OClose (cache st))).
    { split.
      - apply (core_remove [] st tr (cache st)); subst st1; sset; auto using incl_app_l, in_map_close.
        unfold held; sset. perm.
      - destruct R as [R1 R2 R3 R4 R5 R6]. subst st1. constructor; sset; auto.
        + lia.
        + rewrite zlen_nil. lia.
        + intros Hp Hw. destruct (R6 Hp Hw) as [E1 E2]. rewrite E2, zlen_nil. split; [lia|reflexivity]. }
    destruct I1 as [C1 R1].
    destruct (size st1 <? cmax cf) eqn:Elt.
    + inversion H; subst g st' ob; clear H. apply Z.ltb_lt in Elt.
      splits; try (subst st1; sset; reflexivity).
      split.
      * rewrite app_assoc. apply (core_add [] st1 (tr ++ map OClose (cache st))); auto using incl_app_l.
        unfold held; subst st1; sset. rewrite map_app. cbn [map fst]. perm.
      * destruct R1 as [Q1 Q2 Q3 Q4 Q5 Q6]. subst st1; sset. constructor; sset; auto.
        -- lia.
        -- intros Hp Hw. destruct (Q6 Hp Hw) as [E1 E2]. lia.
    + apply Z.ltb_ge in Elt. destruct (zlen (waiters st1) + 1 >? cmaxq cf) eqn:Eq.
      * inversion H; subst g st' ob; clear H. splits; auto; try (subst st1; sset; reflexivity).
        -- split; auto.
        -- subst st1; sset. lia.
      * inversion H; subst g st' ob; clear H. destruct R1 as [Q1 Q2 Q3 Q4 Q5 Q6]. subst st1; sset.
        splits; auto; try lia.
        split.
        -- destruct C1 as [A N Rg NN G]. constructor; auto.
        -- constructor; sset; auto.
Qed.

(* ---- Close --------------------------------------------------------------------------------------- *)
Lemma map_fst_kill ws : map fst (kill ws) = map fst ws.
Proof. unfold kill. rewrite map_map. apply map_ext. reflexivity. Qed.

Lemma zlen_kill ws : zlen (kill ws) = zlen ws.
Proof. unfold kill. apply zlen_map. Qed.

Lemma close_pool_fields st st' ob :
  close_pool st = (st', ob) ->
  pstate st' = 4 /\ waiters st' = kill (waiters st) /\ lent st' = lent st /\ opening st' = opening st /\
  pq st' = pq st /\ cache st' = cache st /\ size st' = size st /\ ncall st' = ncall st /\ nsink st' = nsink st.
Proof.
  unfold close_pool. destruct (flush (cache st) (sst st)) as [m' ob1]. intros H. inversion H; subst; clear H.
  sset. splits; reflexivity.
Qed.

Lemma close_pool_core t st tr st' ob : close_pool st = (st', ob) -> Core t st tr -> Core t st' (tr ++ ob).
Proof.
  intros H C. destruct (close_pool_fields _ _ _ H) as (_ & _ & E1 & E2 & E3 & E4 & E5 & _ & E6).
  apply (core_same t st tr); auto using incl_app_l. unfold held. now rewrite E1, E2, E3, E4.
Qed.

Lemma close_pool_rest cf st st' ob :
  close_pool st = (st', ob) ->
  size st <= cmax cf -> zlen (cache st) <= Z.max 0 (cmin cf) -> zlen (waiters st) <= Z.max 0 (cmaxq cf) ->
  StronglySorted Z.lt (map fst (waiters st)) -> Forall (fun c => c < ncall st) (map fst (waiters st)) ->
  Rest cf st'.
Proof.
  intros H R1 R2 R3 R4 R5. destruct (close_pool_fields _ _ _ H) as (Ep & Ew & _ & _ & _ & Ec & Es & En & _).
  constructor; rewrite ?Ew, ?Ec, ?Es, ?En, ?map_fst_kill, ?zlen_kill; auto. intros Hp. contradiction.
Qed.

(* ---- _Release ------------------------------------------------------------------------------------ *)
Lemma release_inv cf s st tr st' ob :
  release cf s st = (st', ob) -> Inv cf [s] st tr ->
  Inv cf [] st' (tr ++ ob) /\ lent st' = lent st /\ opening st' = opening st /\ ncall st' = ncall st /\
  map fst (waiters st') = map fst (waiters st) /\ (pstate st = 4 -> pstate st' = 4).
Proof.
  unfold release. intros H [C R]. destruct R as [R1 R2 R3 R4 R5 R6].
  destruct (pstate st =? 4) eqn:Ep.
  { apply Z.eqb_eq in Ep. inversion H; subst st' ob; clear H. sset. splits; auto. split.
    - apply (core_remove [s] st tr [s] []);
        [ exact C | unfold held; sset; cbn [app]; apply Permutation_refl | sset; rewrite zlen_cons, zlen_nil; lia | reflexivity
        | apply incl_app_l | intros x [<-|[]]; right; apply in_or_app; right; now left ].
    - constructor; sset; auto; try lia; try (intros; contradiction). }
  apply Z.eqb_neq in Ep.
  destruct (sstate st s =? 4).
  { destruct (close_pool (set_size (size st - 1) st)) as [st2 ob2] eqn:Ecp.
    inversion H; subst st' ob; clear H.
    destruct (close_pool_fields _ _ _ Ecp) as (Fp & Fw & Fl & Fo & Fq & Fc & Fs & Fn & Fk). sset.
    splits; auto; try (rewrite Fw; apply map_fst_kill); try congruence. split.
    - apply (core_same [] st2 (tr ++ ODropped s :: ob2)); auto using incl_refl.
      change (tr ++ ODropped s :: ob2) with (tr ++ [ODropped s] ++ ob2). rewrite app_assoc.
      apply (close_pool_core [] _ _ _ _ Ecp).
      apply (core_remove [s] st tr [s] []);
        [ exact C | unfold held; sset; cbn [app]; apply Permutation_refl | sset; rewrite zlen_cons, zlen_nil; lia | reflexivity
        | apply incl_app_l | intros x [<-|[]]; right; apply in_or_app; right; now left ].
    - assert (Rest cf st2) as [Q1 Q2 Q3 Q4 Q5 Q6] by (apply (close_pool_rest cf _ _ _ Ecp); sset; auto; lia).
      constructor; sset; auto. }
  destruct (waiters st) as [|w ws] eqn:Ew.
  2:{ inversion H; subst st' ob; clear H. sset. splits; auto; try (now rewrite Ew); try contradiction. split.
      - apply (core_same [s] st tr); sset; auto using incl_app_l. unfold held; sset. perm.
      - constructor; sset; rewrite ?Ew; auto. }
  destruct (size st <=? cmin cf) eqn:Emin.
  { apply Z.leb_le in Emin. inversion H; subst st' ob; clear H. sset. splits; auto; try (now rewrite Ew); try contradiction. split.
    - apply (core_same [s] st tr); sset; auto using incl_app_l. unfold held; sset. perm.
    - constructor; sset; rewrite ?Ew; auto.
      + destruct C as [A _ _ _ _]. unfold held in A. rewrite !zlen_app, zlen_cons, zlen_nil in A.
        rewrite zlen_app, zlen_cons, zlen_nil.
        pose proof (zlen_nonneg (map fst (lent st))). pose proof (zlen_nonneg (map fst (opening st))).
        pose proof (zlen_nonneg (pq st)). lia.
      + intros _ Hw. contradiction. }
  apply Z.leb_gt in Emin. unfold discard in H. inversion H; subst st' ob; clear H. sset.
  splits; auto; try (now rewrite Ew); try contradiction. split.
  - apply (core_remove [s] st tr [s] []);
      [ exact C | unfold held; sset; cbn [app]; apply Permutation_refl | sset; rewrite zlen_cons, zlen_nil; lia | reflexivity
      | apply incl_app_l | intros x [<-|[]]; left; apply in_or_app; right; now left ].
  - constructor; sset; rewrite ?Ew; auto; try lia. intros _ Hw. contradiction.
Qed.

(* ---- _ProcessQueue ------------------------------------------------------------------------------- *)
Lemma pq_loop_spec ws : exists pre, let '(o, ws') := pq_loop ws in
  ws = pre ++ (match o with Some c => (c, true) :: ws' | None => ws' end)
  /\ Forall (fun w : Z * bool => snd w = false) pre /\ (o = None -> ws' = []).
Proof.
  induction ws as [|[c a] r IH]; cbn.
  - exists []. auto.
  - destruct a.
    + exists []. splits; auto. discriminate.
    + destruct (pq_loop r) as [o ws']. destruct IH as (pre & E & F & N). exists ((c, false) :: pre).
      splits; auto. cbn. now rewrite <- E.
Qed.

Lemma ss_app_r {A} (R : A -> A -> Prop) a b : StronglySorted R (a ++ b) -> StronglySorted R b.
Proof. induction a as [|x a IH]; cbn; intros H; auto. apply StronglySorted_inv in H as [H _]. auto. Qed.

Lemma forall_app_r {A} (P : A -> Prop) a b : Forall P (a ++ b) -> Forall P b.
Proof. intros H. apply Forall_app in H. tauto. Qed.

Lemma process_queue_inv cf s st tr st' ob :
  process_queue cf s st = (st', ob) -> Inv cf [s] st tr ->
  Inv cf [] st' (tr ++ ob) /\ opening st' = opening st /\ ncall st' = ncall st /\ (pstate st = 4 -> pstate st' = 4).
Proof.
  unfold process_queue. intros H I. destruct (waiters st) as [|w0 ws0] eqn:Ew.
  { destruct (release_inv _ _ _ _ _ _ H I) as (I' & _ & Eo & En & _ & Ep). auto. }
  rewrite <- Ew in H.
  pose proof (pq_loop_spec (waiters st)) as S. destruct (pq_loop (waiters st)) as [o ws'].
  destruct S as (pre & E & F & N). destruct I as [C [R1 R2 R3 R4 R5 R6]].
  assert (Hlen : zlen ws' <= zlen (waiters st)).
  { rewrite E, zlen_app. pose proof (zlen_nonneg pre). destruct o; [rewrite zlen_cons|]; lia. }
  assert (Hss : StronglySorted Z.lt (map fst ws')).
  { rewrite E, map_app in R4. apply ss_app_r in R4. destruct o; auto. cbn in R4. now apply StronglySorted_inv in R4. }
  assert (Hwb : Forall (fun c => c < ncall st) (map fst ws')).
  { rewrite E, map_app in R5. apply forall_app_r in R5. destruct o; auto. cbn in R5. now inversion R5. }
  destruct o as [c|].
  - inversion H; subst st' ob; clear H. sset. splits; auto. split.
    + apply (core_same [s] st tr); sset; auto using incl_app_l. unfold held; sset. rewrite map_app. cbn [map fst]. perm.
    + constructor; sset; auto; try lia. intros Hp Hw. apply R6; auto. rewrite Ew. discriminate.
  - specialize (N eq_refl). subst ws'.
    set (st1 := set_gq (zlen (@nil (Z * bool))) (set_waiters [] st)) in *.
    assert (I1 : Inv cf [s] st1 tr).
    { split.
      - apply (core_same [s] st tr); subst st1; sset; auto using incl_refl.
      - subst st1. constructor; sset; auto; try (rewrite zlen_nil; lia); try (cbn; constructor); try (intros _ Hw; contradiction). }
    destruct (release_inv _ _ _ _ _ _ H I1) as (I' & _ & Eo & En & _ & Ep). subst st1; sset. auto.
Qed.

(* ---- one step preserves the invariant ------------------------------------------------------------- *)
Lemma rest_ext cf st st' :
  Rest cf st -> size st' = size st -> cache st' = cache st -> waiters st' = waiters st ->
  ncall st' = ncall st -> pstate st' = pstate st -> Rest cf st'.
Proof. intros [R1 R2 R3 R4 R5 R6] E1 E2 E3 E4 E5. constructor; rewrite ?E1, ?E2, ?E3, ?E4, ?E5; auto. Qed.

Lemma ss_snoc l c : StronglySorted Z.lt l -> Forall (fun x => x < c) l -> StronglySorted Z.lt (l ++ [c]).
Proof.
  induction l as [|x l IH]; cbn; intros S F.
  - constructor; constructor.
  - apply StronglySorted_inv in S as [S Fx]. inversion F; subst. constructor; auto.
    apply Forall_app. split; auto.
Qed.

Lemma map_fst_mark_dead c ws : map fst (mark_dead c ws) = map fst ws.
Proof.
  unfold mark_dead. rewrite map_map. apply map_ext. intros [x a]. cbn. destruct ((x =? c) && a); reflexivity.
Qed.

Lemma open_result_inv cf st tr st' ob :
  open_result st = (st', ob) -> Inv cf [] st tr -> Inv cf [] st' (tr ++ ob).
Proof.
  unfold open_result. intros H [C R]. destruct (pstate st =? 4) eqn:Ep; inversion H; subst st' ob; clear H.
  - split; [apply (core_tr _ _ _ _ C), incl_app_l|auto].
  - apply Z.eqb_neq in Ep. split.
    + apply (core_same [] st tr); sset; auto using incl_app_l.
    + destruct R as [R1 R2 R3 R4 R5 R6]. constructor; sset; auto.
Qed.

Lemma app_assoc3 {A} (a b c : list A) : a ++ b ++ c = (a ++ b) ++ c.
Proof. apply app_assoc. Qed.

Lemma step_inv cf st tr l st' ob :
  step cf st l = (st', ob) -> Inv cf [] st tr -> Inv cf [] st' (tr ++ ob).
Proof.
  intros H I. destruct l as [|s|c|c|k|s v| |]; cbn [step] in H.
  - (* Req *)
    set (c := ncall st) in *. set (st0 := set_ncall (c + 1) st) in *.
    assert (I0 : Inv cf [] st0 tr).
    { destruct I as [C [R1 R2 R3 R4 R5 R6]]. split.
      - apply (core_same [] st tr); subst st0; sset; auto using incl_refl.
      - subst st0. constructor; sset; auto. eapply Forall_impl; [|exact R5]. cbn. intros. subst c. lia. }
    destruct (get cf (Some c) st0) as [[g st1] ob1] eqn:Eg.
    destruct (get_inv _ _ _ _ _ _ _ Eg I0) as (Ew & En & Ep & El & Eq & G).
    destruct g as [s| | |].
    + destruct G as ([C1 R1] & Eo & _). inversion H; subst st' ob; clear H. split.
      * rewrite app_assoc. apply (core_same [s] st1 (tr ++ ob1)); sset; auto using incl_app_l.
        unfold held; sset. rewrite map_app. cbn [map fst]. perm.
      * apply (rest_ext cf st1); auto.
    + destruct G as (I1 & Eo). inversion H; subst st' ob; clear H. exact I1.
    + destruct G as ([C1 R1] & Eo & Es & Ec & Eq'). inversion H; subst st' ob; clear H. split.
      * apply (core_same [] st1 (tr ++ ob1)); sset; auto using incl_refl.
      * destruct I as [_ [Q1 Q2 Q3 Q4 Q5 Q6]]. destruct R1 as [P1 P2 P3 P4 P5 P6].
        subst st0; sset. constructor; sset; auto.
        -- rewrite zlen_app, zlen_cons, zlen_nil. rewrite Ew. pose proof (zlen_nonneg (waiters st)). lia.
        -- rewrite Ew, map_app. cbn [map fst]. apply ss_snoc; auto.
        -- rewrite Ew, map_app, En. sset. apply Forall_app. split.
           ++ eapply Forall_impl; [|exact Q5]. cbn. intros. subst c. lia.
           ++ constructor; [cbn; subst c; lia|constructor].
    + destruct G as ([C1 R1] & Eo & _). inversion H; subst st' ob; clear H. split.
      * rewrite app_assoc. apply (core_same [] st1 (tr ++ ob1)); sset; auto using incl_app_l.
      * apply (rest_ext cf st1); auto.
  - (* OpenDone *)
    destruct (extract (fun e : Z * option Z => fst e =? s) (opening st)) as [[[s' who] op']|] eqn:Ex.
    2:{ inversion H; subst. rewrite app_nil_r. exact I. }
    destruct (extract_spec _ _ _ _ Ex) as (l1 & l2 & E1 & E2 & Ps & _). cbn in Ps. apply Z.eqb_eq in Ps. subst s'.
    destruct I as [C R].
    destruct who as [c|].
    + inversion H; subst st' ob; clear H. split.
      * apply (core_same [] st tr); sset; auto using incl_app_l. unfold held; sset.
        rewrite E1, E2, !map_app. cbn [map fst]. perm.
      * apply (rest_ext cf st); auto.
    + destruct (release cf s (set_opening op' st)) as [st2 ob2] eqn:Er.
      destruct (open_result st2) as [st3 ob3] eqn:Eo. inversion H; subst st' ob; clear H.
      assert (I1 : Inv cf [s] (set_opening op' st) tr).
      { split.
        - apply (core_same [] st tr); sset; auto using incl_refl. unfold held; sset.
          rewrite E1, E2, !map_app. cbn [map fst]. perm.
        - apply (rest_ext cf st); auto. }
      destruct (release_inv _ _ _ _ _ _ Er I1) as (I2 & _).
      rewrite app_assoc. apply (open_result_inv _ _ _ _ _ Eo I2).
  - (* Resp *)
    destruct (extract (fun e : Z * Z => snd e =? c) (lent st)) as [[[s c'] le']|] eqn:Ex.
    2:{ inversion H; subst. rewrite app_nil_r. exact I. }
    destruct (extract_spec _ _ _ _ Ex) as (l1 & l2 & E1 & E2 & _ & _).
    destruct I as [C R].
    destruct (release cf s (set_lent le' st)) as [st1 ob1] eqn:Er. inversion H; subst st' ob; clear H.
    assert (I1 : Inv cf [s] (set_lent le' st) tr).
    { split.
      - apply (core_same [] st tr); sset; auto using incl_refl. unfold held; sset.
        rewrite E1, E2, !map_app. cbn [map fst]. perm.
      - apply (rest_ext cf st); auto. }
    destruct (release_inv _ _ _ _ _ _ Er I1) as ([C2 R2] & _). split; auto.
    rewrite app_assoc. apply (core_tr _ _ _ _ C2), incl_app_l.
  - (* Expire *)
    destruct (existsb _ (waiters st)) eqn:Ee.
    2:{ inversion H; subst. rewrite app_nil_r. exact I. }
    inversion H; subst st' ob; clear H. destruct I as [C [R1 R2 R3 R4 R5 R6]]. split.
    + apply (core_same [] st tr); sset; auto using incl_app_l.
    + constructor; sset; rewrite ?map_fst_mark_dead; auto.
      * unfold mark_dead. now rewrite zlen_map.
      * intros Hp Hw. apply R6; auto. intros E. apply Hw. now rewrite E.
  - (* PQ *)
    destruct (extract_nth k (pq st)) as [[s pq']|] eqn:Ex.
    2:{ inversion H; subst. rewrite app_nil_r. exact I. }
    destruct (extract_nth_spec _ _ _ _ Ex) as (l1 & l2 & E1 & E2 & _).
    destruct I as [C R].
    assert (I1 : Inv cf [s] (set_pq pq' st) tr).
    { split.
      - apply (core_same [] st tr); sset; auto using incl_refl. unfold held; sset. rewrite E1, E2. perm.
      - apply (rest_ext cf st); auto. }
    destruct (process_queue_inv _ _ _ _ _ _ H I1) as (I2 & _). exact I2.
  - (* SinkState *)
    inversion H; subst st' ob; clear H. rewrite app_nil_r. destruct I as [C R]. split.
    + apply (core_same [] st tr); sset; auto using incl_refl.
    + apply (rest_ext cf st); auto.
  - (* ClosePool *)
    destruct I as [C [R1 R2 R3 R4 R5 R6]]. split.
    + apply (close_pool_core _ _ _ _ _ H C).
    + apply (close_pool_rest cf _ _ _ H); auto.
  - (* OpenPool *)
    destruct (get cf None st) as [[g st1] ob1] eqn:Eg.
    destruct (get_inv _ _ _ _ _ _ _ Eg I) as (Ew & En & Ep & El & Eq & G).
    destruct g as [s| | |].
    + destruct G as (I1 & _). destruct (release cf s st1) as [st2 ob2] eqn:Er.
      destruct (open_result st2) as [st3 ob3] eqn:Eo. inversion H; subst st' ob; clear H.
      destruct (release_inv _ _ _ _ _ _ Er I1) as (I2 & _).
      rewrite app_assoc3, app_assoc. apply (open_result_inv _ _ _ _ _ Eo I2).
    + destruct G as (I1 & _). inversion H; subst st' ob; clear H. exact I1.
    + destruct G as ([C1 R1] & _). destruct (open_result (release_noop st1)) as [st3 ob3] eqn:Eo.
      inversion H; subst st' ob; clear H. rewrite app_assoc. apply (open_result_inv _ _ _ _ _ Eo). split.
      * apply (core_same [] st1 (tr ++ ob1)); sset; auto using incl_refl.
      * apply (rest_ext cf st1); auto.
    + destruct G as ([C1 R1] & _). destruct (open_result (release_noop st1)) as [st3 ob3] eqn:Eo.
      inversion H; subst st' ob; clear H. rewrite app_assoc. apply (open_result_inv _ _ _ _ _ Eo). split.
      * apply (core_same [] st1 (tr ++ ob1)); sset; auto using incl_refl.
      * apply (rest_ext cf st1); auto.
Qed.

(* ---- every reachable state ------------------------------------------------------------------------ *)
Lemma init_inv cf : 0 <= cmax cf -> Inv cf [] init [].
Proof.
  intros H. split.
  - constructor; cbn; auto; try constructor; try reflexivity; try lia.
  - constructor; cbn; auto; try constructor; try lia; try (intros _ Hw; contradiction).
Qed.

Lemma run_inv cf ls : forall st tr st' ob,
  run cf st ls = (st', ob) -> Inv cf [] st tr -> Inv cf [] st' (tr ++ ob).
Proof.
  induction ls as [|l r IH]; intros st tr st' ob H I; cbn in H.
  - inversion H; subst. now rewrite app_nil_r.
  - destruct (step cf st l) as [st1 ob1] eqn:E1. destruct (run cf st1 r) as [st2 ob2] eqn:E2.
    inversion H; subst st' ob; clear H. rewrite app_assoc. eapply IH; eauto. eapply step_inv; eauto.
Qed.

Lemma reach_inv cf ls st tr : 0 <= cmax cf -> reach cf ls = (st, tr) -> Inv cf [] st tr.
Proof. intros Hm H. apply (run_inv cf ls init [] st tr H (init_inv cf Hm)). Qed.

Lemma run_app cf a : forall b st,
  run cf st (a ++ b) = let '(st1, o1) := run cf st a in let '(st2, o2) := run cf st1 b in (st2, o1 ++ o2).
Proof.
  induction a as [|l a IH]; intros b st; cbn.
  - destruct (run cf st b); reflexivity.
  - destruct (step cf st l) as [st1 ob1]. rewrite IH. destruct (run cf st1 a) as [st2 ob2].
    destruct (run cf st2 b) as [st3 ob3]. now rewrite app_assoc.
Qed.
