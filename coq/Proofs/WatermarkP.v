(* Lemmas about the watermark pool model (C07): inductive invariants of `step` for every configuration and
   every label, and the local (one-step) facts about hand-off, FIFO order, queue bound and closing. *)
From Coq Require Import Permutation Sorted.
From Scales Require Import Model.Base Model.Watermark.
Local Open Scope Z_scope.

(* ---- lists -------------------------------------------------------------------------------------- *)
Lemma zlen_nil {A} : zlen (@nil A) = 0. Proof. reflexivity. Qed.
Lemma zlen_cons {A} (x : A) l : zlen (x :: l) = zlen l + 1.
Proof. unfold zlen. cbn [length]. lia. Qed.
Lemma zlen_app {A} (a b : list A) : zlen (a ++ b) = zlen a + zlen b.
Proof. unfold zlen. rewrite app_length. lia. Qed.
Lemma zlen_map {A B} (f : A -> B) l : zlen (map f l) = zlen l.
Proof. unfold zlen. now rewrite map_length. Qed.
Lemma zlen_nonneg {A} (l : list A) : 0 <= zlen l.
Proof. unfold zlen. lia. Qed.
Lemma zlen_perm {A} (a b : list A) : Permutation a b -> zlen a = zlen b.
Proof. intros H. unfold zlen. now rewrite (Permutation_length H). Qed.

Lemma nodup_app_r {A} (a b : list A) : NoDup (a ++ b) -> NoDup b.
Proof. induction a as [|x a IH]; cbn; intros H; auto. inversion H; auto. Qed.
Lemma nodup_app_l {A} (a b : list A) : NoDup (a ++ b) -> NoDup a.
Proof.
  induction a as [|x a IH]; cbn; intros H; [constructor|]. inversion H; subst. constructor; auto.
  intros Hi. apply H2. apply in_or_app. now left.
Qed.

Lemma extract_spec {A} (p : A -> bool) l x l' :
  extract p l = Some (x, l') -> exists l1 l2, l = l1 ++ x :: l2 /\ l' = l1 ++ l2 /\ p x = true
                                              /\ Forall (fun y => p y = false) l1.
Proof.
  revert x l'. induction l as [|y l IH]; intros x l' H; cbn in H; [discriminate|].
  destruct (p y) eqn:Ey.
  - inversion H; subst. eexists [], _. repeat split; auto.
  - destruct (extract p l) as [[z r]|] eqn:E; [|discriminate]. inversion H; subst.
    destruct (IH _ _ eq_refl) as (l1 & l2 & -> & -> & Hp & Hf). exists (y :: l1), l2. repeat split; auto.
Qed.

Lemma extract_none {A} (p : A -> bool) l : extract p l = None -> Forall (fun y => p y = false) l.
Proof.
  induction l as [|y l IH]; intros H; cbn in H; [constructor|].
  destruct (p y) eqn:Ey; [discriminate|]. destruct (extract p l) as [[z r]|]; [discriminate|]. constructor; auto.
Qed.

Lemma extract_nth_spec {A} k (l : list A) x l' :
  extract_nth k l = Some (x, l') -> exists l1 l2, l = l1 ++ x :: l2 /\ l' = l1 ++ l2 /\ length l1 = k.
Proof.
  revert k x l'. induction l as [|y l IH]; intros k x l' H; destruct k; cbn in H; try discriminate.
  - inversion H; subst. eexists [], _. cbn. repeat split.
  - destruct (extract_nth k l) as [[z r]|] eqn:E; [|discriminate]. inversion H; subst.
    destruct (IH _ _ _ E) as (l1 & l2 & -> & -> & Hk). exists (y :: l1), l2. cbn. repeat split; auto.
Qed.

Lemma extract_nth_some {A} k (l : list A) : (k < length l)%nat -> exists x l', extract_nth k l = Some (x, l').
Proof.
  revert k. induction l as [|y l IH]; intros k H; cbn in H; [lia|]. destruct k; cbn; eauto.
  destruct (IH k ltac:(lia)) as (x & l' & ->). eauto.
Qed.

(* Permutations between concatenations, by counting *)
Ltac perm :=
  apply (Permutation_count_occ Z.eq_dec); intro;
  repeat rewrite ?map_app, ?count_occ_app; cbn [map fst snd count_occ app];
  repeat rewrite ?map_app, ?count_occ_app; cbn [map fst snd count_occ app];
  repeat match goal with |- context [Z.eq_dec ?a ?b] => destruct (Z.eq_dec a b) end; lia.

(* ---- the connection-side invariant -------------------------------------------------------------- *)
(* every connection the pool holds: lent, cached, being opened, or waiting for a spawned hand-off *)
Definition held (st : state) : list Z := map fst (lent st) ++ cache st ++ map fst (opening st) ++ pq st.

(* t = connections "in the hand" of the code between two of those places (taken from one, not yet put
   into another); tr = everything observed so far *)
Record Core (t : list Z) (st : state) (tr : list obs) : Prop := {
  c_acct : size st = zlen (t ++ held st);
  c_nodup : NoDup (t ++ held st);
  c_range : Forall (fun s => 0 <= s < nsink st) (t ++ held st);
  c_nn : 0 <= nsink st;
  c_ghost : forall s, 0 <= s < nsink st -> In s (t ++ held st) \/ In (OClose s) tr \/ In (ODropped s) tr
}.

Lemma core_remove t st tr dead t' st' tr' :
  Core t st tr ->
  Permutation (t ++ held st) (dead ++ t' ++ held st') ->
  size st' = size st - zlen dead -> nsink st' = nsink st -> incl tr tr' ->
  (forall s, In s dead -> In (OClose s) tr' \/ In (ODropped s) tr') ->
  Core t' st' tr'.
Proof.
  intros [A N R NN G] P Hs Hn Hi Hd. constructor.
  - rewrite Hs, A, (zlen_perm _ _ P), zlen_app. lia.
  - apply (Permutation_NoDup P) in N. now apply nodup_app_r in N.
  - rewrite Hn. rewrite Forall_forall in *. intros x Hx. apply R. apply (Permutation_in _ (Permutation_sym P)).
    apply in_or_app. now right.
  - now rewrite Hn.
  - rewrite Hn. intros s Hr. destruct (G s Hr) as [H|[H|H]]; auto.
    apply (Permutation_in _ P) in H. apply in_app_or in H as [H|H]; auto.
Qed.

Lemma core_same t st tr t' st' tr' :
  Core t st tr -> Permutation (t ++ held st) (t' ++ held st') ->
  size st' = size st -> nsink st' = nsink st -> incl tr tr' -> Core t' st' tr'.
Proof.
  intros C P Hs Hn Hi. apply (core_remove t st tr [] t' st' tr'); auto.
  - rewrite zlen_nil. lia.
  - intros s [].
Qed.

Lemma core_add t st tr t' st' tr' :
  Core t st tr -> Permutation (t' ++ held st') (nsink st :: t ++ held st) ->
  size st' = size st + 1 -> nsink st' = nsink st + 1 -> incl tr tr' -> Core t' st' tr'.
Proof.
  intros [A N R NN G] P Hs Hn Hi. constructor.
  - rewrite Hs, A, (zlen_perm _ _ P), zlen_cons. lia.
  - apply (Permutation_NoDup (Permutation_sym P)). constructor; auto.
    intros H. rewrite Forall_forall in R. apply R in H. lia.
  - rewrite Hn. rewrite Forall_forall in *. intros x Hx. apply (Permutation_in _ P) in Hx. destruct Hx as [<-|Hx].
    + lia.
    + apply R in Hx. lia.
  - lia.
  - rewrite Hn. intros s Hr. destruct (Z.eq_dec s (nsink st)) as [->|Ne].
    + left. apply (Permutation_in _ (Permutation_sym P)). now left.
    + destruct (G s ltac:(lia)) as [H|[H|H]]; auto. left. apply (Permutation_in _ (Permutation_sym P)). now right.
Qed.

Lemma core_tr t st tr tr' : Core t st tr -> incl tr tr' -> Core t st tr'.
Proof. intros C Hi. apply (core_same t st tr); auto. Qed.

(* ---- the rest of the invariant ------------------------------------------------------------------ *)
Record Rest (cf : config) (st : state) : Prop := {
  r_max : size st <= cmax cf;
  r_cache : zlen (cache st) <= Z.max 0 (cmin cf);
  r_queue : zlen (waiters st) <= Z.max 0 (cmaxq cf);
  r_sorted : StronglySorted Z.lt (map fst (waiters st));
  r_wbound : Forall (fun c => c < ncall st) (map fst (waiters st));
  (* in a pool that is not closed somebody waits only while all max connections are in use and none is idle *)
  r_sat : pstate st <> 4 -> waiters st <> [] -> size st = cmax cf /\ cache st = []
}.

Definition Inv (cf : config) (t : list Z) (st : state) (tr : list obs) : Prop := Core t st tr /\ Rest cf st.

(* ---- _Dequeue ------------------------------------------------------------------------------------ *)
Lemma dequeue_spec c : forall m sz,
  exists dead, let '(o, c', _, sz', ob) := dequeue c m sz in
    c = dead ++ (match o with Some s => s :: c' | None => c' end)
    /\ (o = None -> c' = []) /\ sz' = sz - zlen dead /\ ob = map OClose dead.
Proof.
  induction c as [|s r IH]; intros m sz; cbn.
  - exists []. repeat split; auto. rewrite zlen_nil. lia.
  - destruct (lookup m s <=? 2).
    + exists []. repeat split; auto; try discriminate. rewrite zlen_nil. lia.
    + specialize (IH ((s, 4) :: m) (sz - 1)).
      destruct (dequeue r ((s, 4) :: m) (sz - 1)) as [[[[o c'] m'] sz'] ob]. destruct IH as (dead & E & Hn & Hs & Ho).
      exists (s :: dead). repeat split; auto.
      * cbn. now rewrite <- E.
      * rewrite Hs, zlen_cons. lia.
      * cbn. now rewrite Ho.
Qed.

Ltac splits := repeat match goal with |- _ /\ _ => split end.

(* projections of setters, reduced lazily (never unfold a setter that is not under a projection) *)
Ltac sset :=
  cbn [cache waiters size lent opening pq pstate sst nsink ncall gsize gq
       set_cache set_waiters set_size set_lent set_opening set_pq set_pstate set_sst set_nsink set_ncall
       set_gsize set_gq release_noop] in *.

Lemma incl_app_l {A} (a b : list A) : incl a (a ++ b).
Proof. intros x H. apply in_or_app. now left. Qed.

Lemma in_map_close s dead tr : In s dead -> In (OClose s) (tr ++ map OClose dead).
Proof. intros H. apply in_or_app. right. now apply in_map. Qed.

(* ---- _Get ---------------------------------------------------------------------------------------- *)
Lemma get_inv cf who st tr g st' ob :
  get cf who st = (g, st', ob) -> Inv cf [] st tr ->
  waiters st' = waiters st /\ ncall st' = ncall st /\ pstate st' = pstate st /\ lent st' = lent st /\ pq st' = pq st /\
  match g with
  | GSink s => Inv cf [s] st' (tr ++ ob) /\ opening st' = opening st /\ In s (cache st)
  | GOpening => Inv cf [] st' (tr ++ ob) /\ opening st' = opening st ++ [(nsink st, who)]
  | GQueue => Inv cf [] st' (tr ++ ob) /\ opening st' = opening st /\ size st' = cmax cf /\ cache st' = []
              /\ zlen (waiters st) + 1 <= cmaxq cf
  | GFail => Inv cf [] st' (tr ++ ob) /\ opening st' = opening st /\ cmaxq cf < zlen (waiters st) + 1
  end.
Proof.
  unfold get. intros H [C R].
  pose proof (dequeue_spec (cache st) (sst st) (size st)) as D.
  destruct (dequeue (cache st) (sst st) (size st)) as [[[[o c'] m'] sz'] ob0].
  destruct D as (dead & Ec & Hn & Hs & Ho). subst ob0 sz'.
  pose proof (zlen_nonneg dead) as Hd0.
  destruct o as [s|].
  - inversion H; subst; clear H. sset. splits; auto.
    + split.
      * apply (core_remove [] st tr dead); sset; auto using incl_app_l, in_map_close.
        unfold held; sset. rewrite Ec. perm.
      * destruct R as [R1 R2 R3 R4 R5 R6]. constructor; sset; auto.
        -- lia.
        -- rewrite Ec, zlen_app, zlen_cons in R2. pose proof (zlen_nonneg c'). lia.
        -- intros Hp Hw. destruct (R6 Hp Hw) as [_ E]. rewrite E in Ec. destruct dead; discriminate.
    + rewrite Ec. apply in_or_app. right. now left.
  - specialize (Hn eq_refl). subst c'. rewrite app_nil_r in Ec. subst dead.
    set (st1 := set_size (size st - zlen (cache st)) (set_sst m' (set_cache [] st))) in *.
    assert (I1 : Inv cf [] st1 (tr ++ map OClose (cache st))).
    { split.
      - apply (core_remove [] st tr (cache st)); subst st1; sset; auto using incl_app_l, in_map_close.
        unfold held; sset. perm.
      - destruct R as [R1 R2 R3 R4 R5 R6]. subst st1. constructor; sset; auto.
        + lia.
        + rewrite zlen_nil. lia.
        + intros Hp Hw. destruct (R6 Hp Hw) as [E1 E2]. rewrite E2, zlen_nil. split; [lia|reflexivity]. }
    destruct I1 as [C1 R1].
    destruct (size st1 <? cmax cf) eqn:Elt.
    + inversion H; subst g st' ob; clear H. apply Z.ltb_lt in Elt.
      splits; try (subst st1; sset; reflexivity).
      split.
      * rewrite app_assoc. apply (core_add [] st1 (tr ++ map OClose (cache st))); auto using incl_app_l.
        unfold held; subst st1; sset. rewrite map_app. cbn [map fst]. perm.
      * destruct R1 as [Q1 Q2 Q3 Q4 Q5 Q6]. subst st1; sset. constructor; sset; auto.
        -- lia.
        -- intros Hp Hw. destruct (Q6 Hp Hw) as [E1 E2]. lia.
    + apply Z.ltb_ge in Elt. destruct (zlen (waiters st1) + 1 >? cmaxq cf) eqn:Eq.
      * inversion H; subst g st' ob; clear H. splits; auto; try (subst st1; sset; reflexivity).
        -- split; auto.
        -- subst st1; sset. lia.
      * inversion H; subst g st' ob; clear H. destruct R1 as [Q1 Q2 Q3 Q4 Q5 Q6]. subst st1; sset.
        splits; auto; try lia.
        split.
        -- destruct C1 as [A N Rg NN G]. constructor; auto.
        -- constructor; sset; auto.
Qed.

(* ---- Close --------------------------------------------------------------------------------------- *)
Lemma map_fst_kill ws : map fst (kill ws) = map fst ws.
Proof. unfold kill. rewrite map_map. apply map_ext. reflexivity. Qed.

Lemma zlen_kill ws : zlen (kill ws) = zlen ws.
Proof. unfold kill. apply zlen_map. Qed.

Lemma close_pool_fields st st' ob :
  close_pool st = (st', ob) ->
  pstate st' = 4 /\ waiters st' = kill (waiters st) /\ lent st' = lent st /\ opening st' = opening st /\
  pq st' = pq st /\ cache st' = cache st /\ size st' = size st /\ ncall st' = ncall st /\ nsink st' = nsink st.
Proof.
  unfold close_pool. destruct (flush (cache st) (sst st)) as [m' ob1]. intros H. inversion H; subst; clear H.
  sset. splits; reflexivity.
Qed.

Lemma close_pool_core t st tr st' ob : close_pool st = (st', ob) -> Core t st tr -> Core t st' (tr ++ ob).
Proof.
  intros H C. destruct (close_pool_fields _ _ _ H) as (_ & _ & E1 & E2 & E3 & E4 & E5 & _ & E6).
  apply (core_same t st tr); auto using incl_app_l. unfold held. now rewrite E1, E2, E3, E4.
Qed.

Lemma close_pool_rest cf st st' ob :
  close_pool st = (st', ob) ->
  size st <= cmax cf -> zlen (cache st) <= Z.max 0 (cmin cf) -> zlen (waiters st) <= Z.max 0 (cmaxq cf) ->
  StronglySorted Z.lt (map fst (waiters st)) -> Forall (fun c => c < ncall st) (map fst (waiters st)) ->
  Rest cf st'.
Proof.
  intros H R1 R2 R3 R4 R5. destruct (close_pool_fields _ _ _ H) as (Ep & Ew & _ & _ & _ & Ec & Es & En & _).
  constructor; rewrite ?Ew, ?Ec, ?Es, ?En, ?map_fst_kill, ?zlen_kill; auto. intros Hp. contradiction.
Qed.

(* ---- _Release ------------------------------------------------------------------------------------ *)
Lemma release_inv cf s st tr st' ob :
  release cf s st = (st', ob) -> Inv cf [s] st tr ->
  Inv cf [] st' (tr ++ ob) /\ lent st' = lent st /\ opening st' = opening st /\ ncall st' = ncall st /\
  map fst (waiters st') = map fst (waiters st) /\ (pstate st = 4 -> pstate st' = 4).
Proof.
  unfold release. intros H [C R]. destruct R as [R1 R2 R3 R4 R5 R6].
  destruct (pstate st =? 4) eqn:Ep.
  { apply Z.eqb_eq in Ep. inversion H; subst st' ob; clear H. sset. splits; auto. split.
    - apply (core_remove [s] st tr [s] []);
        [ exact C | unfold held; sset; cbn [app]; apply Permutation_refl | sset; rewrite zlen_cons, zlen_nil; lia | reflexivity
        | apply incl_app_l | intros x [<-|[]]; right; apply in_or_app; right; now left ].
    - constructor; sset; auto; try lia; try (intros; contradiction). }
  apply Z.eqb_neq in Ep.
  destruct (sstate st s =? 4).
  { destruct (close_pool (set_size (size st - 1) st)) as [st2 ob2] eqn:Ecp.
    inversion H; subst st' ob; clear H.
    destruct (close_pool_fields _ _ _ Ecp) as (Fp & Fw & Fl & Fo & Fq & Fc & Fs & Fn & Fk). sset.
    splits; auto; try (rewrite Fw; apply map_fst_kill); try congruence. split.
    - apply (core_same [] st2 (tr ++ ODropped s :: ob2)); auto using incl_refl.
      change (tr ++ ODropped s :: ob2) with (tr ++ [ODropped s] ++ ob2). rewrite app_assoc.
      apply (close_pool_core [] _ _ _ _ Ecp).
      apply (core_remove [s] st tr [s] []);
        [ exact C | unfold held; sset; cbn [app]; apply Permutation_refl | sset; rewrite zlen_cons, zlen_nil; lia | reflexivity
        | apply incl_app_l | intros x [<-|[]]; right; apply in_or_app; right; now left ].
    - assert (Rest cf st2) as [Q1 Q2 Q3 Q4 Q5 Q6] by (apply (close_pool_rest cf _ _ _ Ecp); sset; auto; lia).
      constructor; sset; auto. }
  destruct (waiters st) as [|w ws] eqn:Ew.
  2:{ inversion H; subst st' ob; clear H. sset. splits; auto; try (now rewrite Ew); try contradiction. split.
      - apply (core_same [s] st tr); sset; auto using incl_app_l. unfold held; sset. perm.
      - constructor; sset; rewrite ?Ew; auto. }
  destruct (size st <=? cmin cf) eqn:Emin.
  { apply Z.leb_le in Emin. inversion H; subst st' ob; clear H. sset. splits; auto; try (now rewrite Ew); try contradiction. split.
    - apply (core_same [s] st tr); sset; auto using incl_app_l. unfold held; sset. perm.
    - constructor; sset; rewrite ?Ew; auto.
      + destruct C as [A _ _ _ _]. unfold held in A. rewrite !zlen_app, zlen_cons, zlen_nil in A.
        rewrite zlen_app, zlen_cons, zlen_nil.
        pose proof (zlen_nonneg (map fst (lent st))). pose proof (zlen_nonneg (map fst (opening st))).
        pose proof (zlen_nonneg (pq st)). lia.
      + intros _ Hw. contradiction. }
  apply Z.leb_gt in Emin. unfold discard in H. inversion H; subst st' ob; clear H. sset.
  splits; auto; try (now rewrite Ew); try contradiction. split.
  - apply (core_remove [s] st tr [s] []);
      [ exact C | unfold held; sset; cbn [app]; apply Permutation_refl | sset; rewrite zlen_cons, zlen_nil; lia | reflexivity
      | apply incl_app_l | intros x [<-|[]]; left; apply in_or_app; right; now left ].
  - constructor; sset; rewrite ?Ew; auto; try lia. intros _ Hw. contradiction.
Qed.

(* ---- _ProcessQueue ------------------------------------------------------------------------------- *)
Lemma pq_loop_spec ws : exists pre, let '(o, ws') := pq_loop ws in
  ws = pre ++ (match o with Some c => (c, true) :: ws' | None => ws' end)
  /\ Forall (fun w : Z * bool => snd w = false) pre /\ (o = None -> ws' = []).
Proof.
  induction ws as [|[c a] r IH]; cbn.
  - exists []. auto.
  - destruct a.
    + exists []. splits; auto. discriminate.
    + destruct (pq_loop r) as [o ws']. destruct IH as (pre & E & F & N). exists ((c, false) :: pre).
      splits; auto. cbn. now rewrite <- E.
Qed.

Lemma ss_app_r {A} (R : A -> A -> Prop) a b : StronglySorted R (a ++ b) -> StronglySorted R b.
Proof. induction a as [|x a IH]; cbn; intros H; auto. apply StronglySorted_inv in H as [H _]. auto. Qed.

Lemma forall_app_r {A} (P : A -> Prop) a b : Forall P (a ++ b) -> Forall P b.
Proof. intros H. apply Forall_app in H. tauto. Qed.

Lemma process_queue_inv cf s st tr st' ob :
  process_queue cf s st = (st', ob) -> Inv cf [s] st tr ->
  Inv cf [] st' (tr ++ ob) /\ opening st' = opening st /\ ncall st' = ncall st /\ (pstate st = 4 -> pstate st' = 4).
Proof.
  unfold process_queue. intros H I. destruct (waiters st) as [|w0 ws0] eqn:Ew.
  { destruct (release_inv _ _ _ _ _ _ H I) as (I' & _ & Eo & En & _ & Ep). auto. }
  rewrite <- Ew in H.
  pose proof (pq_loop_spec (waiters st)) as S. destruct (pq_loop (waiters st)) as [o ws'].
  destruct S as (pre & E & F & N). destruct I as [C [R1 R2 R3 R4 R5 R6]].
  assert (Hlen : zlen ws' <= zlen (waiters st)).
  { rewrite E, zlen_app. pose proof (zlen_nonneg pre). destruct o; [rewrite zlen_cons|]; lia. }
  assert (Hss : StronglySorted Z.lt (map fst ws')).
  { rewrite E, map_app in R4. apply ss_app_r in R4. destruct o; auto. cbn in R4. now apply StronglySorted_inv in R4. }
  assert (Hwb : Forall (fun c => c < ncall st) (map fst ws')).
  { rewrite E, map_app in R5. apply forall_app_r in R5. destruct o; auto. cbn in R5. now inversion R5. }
  destruct o as [c|].
  - inversion H; subst st' ob; clear H. sset. splits; auto. split.
    + apply (core_same [s] st tr); sset; auto using incl_app_l. unfold held; sset. rewrite map_app. cbn [map fst]. perm.
    + constructor; sset; auto; try lia. intros Hp Hw. apply R6; auto. rewrite Ew. discriminate.
  - specialize (N eq_refl). subst ws'.
    set (st1 := set_gq (zlen (@nil (Z * bool))) (set_waiters [] st)) in *.
    assert (I1 : Inv cf [s] st1 tr).
    { split.
      - apply (core_same [s] st tr); subst st1; sset; auto using incl_refl.
      - subst st1. constructor; sset; auto; try (rewrite zlen_nil; lia); try (cbn; constructor); try (intros _ Hw; contradiction). }
    destruct (release_inv _ _ _ _ _ _ H I1) as (I' & _ & Eo & En & _ & Ep). subst st1; sset. auto.
Qed.

(* ---- one step preserves the invariant ------------------------------------------------------------- *)
Lemma rest_ext cf st st' :
  Rest cf st -> size st' = size st -> cache st' = cache st -> waiters st' = waiters st ->
  ncall st' = ncall st -> pstate st' = pstate st -> Rest cf st'.
Proof. intros [R1 R2 R3 R4 R5 R6] E1 E2 E3 E4 E5. constructor; rewrite ?E1, ?E2, ?E3, ?E4, ?E5; auto. Qed.

Lemma ss_snoc l c : StronglySorted Z.lt l -> Forall (fun x => x < c) l -> StronglySorted Z.lt (l ++ [c]).
Proof.
  induction l as [|x l IH]; cbn; intros S F.
  - constructor; constructor.
  - apply StronglySorted_inv in S as [S Fx]. inversion F; subst. constructor; auto.
    apply Forall_app. split; auto.
Qed.

Lemma map_fst_mark_dead c ws : map fst (mark_dead c ws) = map fst ws.
Proof.
  unfold mark_dead. rewrite map_map. apply map_ext. intros [x a]. cbn. destruct ((x =? c) && a); reflexivity.
Qed.

Lemma open_result_inv cf st tr st' ob :
  open_result st = (st', ob) -> Inv cf [] st tr -> Inv cf [] st' (tr ++ ob).
Proof.
  unfold open_result. intros H [C R]. destruct (pstate st =? 4) eqn:Ep; inversion H; subst st' ob; clear H.
  - split; [apply (core_tr _ _ _ _ C), incl_app_l|auto].
  - apply Z.eqb_neq in Ep. split.
    + apply (core_same [] st tr); sset; auto using incl_app_l.
    + destruct R as [R1 R2 R3 R4 R5 R6]. constructor; sset; auto.
Qed.

Lemma app_assoc3 {A} (a b c : list A) : a ++ b ++ c = (a ++ b) ++ c.
Proof. apply app_assoc. Qed.

Lemma step_inv cf st tr l st' ob :
  step cf st l = (st', ob) -> Inv cf [] st tr -> Inv cf [] st' (tr ++ ob).
Proof.
  intros H I. destruct l as [|s|c|c|k|s v| |]; cbn [step] in H.
  - (* Req *)
    set (c := ncall st) in *. set (st0 := set_ncall (c + 1) st) in *.
    assert (I0 : Inv cf [] st0 tr).
    { destruct I as [C [R1 R2 R3 R4 R5 R6]]. split.
      - apply (core_same [] st tr); subst st0; sset; auto using incl_refl.
      - subst st0. constructor; sset; auto. eapply Forall_impl; [|exact R5]. cbn. intros. subst c. lia. }
    destruct (get cf (Some c) st0) as [[g st1] ob1] eqn:Eg.
    destruct (get_inv _ _ _ _ _ _ _ Eg I0) as (Ew & En & Ep & El & Eq & G).
    destruct g as [s| | |].
    + destruct G as ([C1 R1] & Eo & _). inversion H; subst st' ob; clear H. split.
      * rewrite app_assoc. apply (core_same [s] st1 (tr ++ ob1)); sset; auto using incl_app_l.
        unfold held; sset. rewrite map_app. cbn [map fst]. perm.
      * apply (rest_ext cf st1); auto.
    + destruct G as (I1 & Eo). inversion H; subst st' ob; clear H. exact I1.
    + destruct G as ([C1 R1] & Eo & Es & Ec & Eq'). inversion H; subst st' ob; clear H. split.
      * apply (core_same [] st1 (tr ++ ob1)); sset; auto using incl_refl.
      * destruct I as [_ [Q1 Q2 Q3 Q4 Q5 Q6]]. destruct R1 as [P1 P2 P3 P4 P5 P6].
        subst st0; sset. constructor; sset; auto.
        -- rewrite zlen_app, zlen_cons, zlen_nil. rewrite Ew. pose proof (zlen_nonneg (waiters st)). lia.
        -- rewrite Ew, map_app. cbn [map fst]. apply ss_snoc; auto.
        -- rewrite Ew, map_app, En. sset. apply Forall_app. split.
           ++ eapply Forall_impl; [|exact Q5]. cbn. intros. subst c. lia.
           ++ constructor; [cbn; subst c; lia|constructor].
    + destruct G as ([C1 R1] & Eo & _). inversion H; subst st' ob; clear H. split.
      * rewrite app_assoc. apply (core_same [] st1 (tr ++ ob1)); sset; auto using incl_app_l.
      * apply (rest_ext cf st1); auto.
  - (* OpenDone *)
    destruct (extract (fun e : Z * option Z => fst e =? s) (opening st)) as [[[s' who] op']|] eqn:Ex.
    2:{ inversion H; subst. rewrite app_nil_r. exact I. }
    destruct (extract_spec _ _ _ _ Ex) as (l1 & l2 & E1 & E2 & Ps & _). cbn in Ps. apply Z.eqb_eq in Ps. subst s'.
    destruct I as [C R].
    destruct who as [c|].
    + inversion H; subst st' ob; clear H. split.
      * apply (core_same [] st tr); sset; auto using incl_app_l. unfold held; sset.
        rewrite E1, E2, !map_app. cbn [map fst]. perm.
      * apply (rest_ext cf st); auto.
    + destruct (release cf s (set_opening op' st)) as [st2 ob2] eqn:Er.
      destruct (open_result st2) as [st3 ob3] eqn:Eo. inversion H; subst st' ob; clear H.
      assert (I1 : Inv cf [s] (set_opening op' st) tr).
      { split.
        - apply (core_same [] st tr); sset; auto using incl_refl. unfold held; sset.
          rewrite E1, E2, !map_app. cbn [map fst]. perm.
        - apply (rest_ext cf st); auto. }
      destruct (release_inv _ _ _ _ _ _ Er I1) as (I2 & _).
      rewrite app_assoc. apply (open_result_inv _ _ _ _ _ Eo I2).
  - (* Resp *)
    destruct (extract (fun e : Z * Z => snd e =? c) (lent st)) as [[[s c'] le']|] eqn:Ex.
    2:{ inversion H; subst. rewrite app_nil_r. exact I. }
    destruct (extract_spec _ _ _ _ Ex) as (l1 & l2 & E1 & E2 & _ & _).
    destruct I as [C R].
    destruct (release cf s (set_lent le' st)) as [st1 ob1] eqn:Er. inversion H; subst st' ob; clear H.
    assert (I1 : Inv cf [s] (set_lent le' st) tr).
    { split.
      - apply (core_same [] st tr); sset; auto using incl_refl. unfold held; sset.
        rewrite E1, E2, !map_app. cbn [map fst]. perm.
      - apply (rest_ext cf st); auto. }
    destruct (release_inv _ _ _ _ _ _ Er I1) as ([C2 R2] & _). split; auto.
    rewrite app_assoc. apply (core_tr _ _ _ _ C2), incl_app_l.
  - (* Expire *)
    destruct (existsb _ (waiters st)) eqn:Ee.
    2:{ inversion H; subst. rewrite app_nil_r. exact I. }
    inversion H; subst st' ob; clear H. destruct I as [C [R1 R2 R3 R4 R5 R6]]. split.
    + apply (core_same [] st tr); sset; auto using incl_app_l.
    + constructor; sset; rewrite ?map_fst_mark_dead; auto.
      * unfold mark_dead. now rewrite zlen_map.
      * intros Hp Hw. apply R6; auto. intros E. apply Hw. now rewrite E.
  - (* PQ *)
    destruct (extract_nth k (pq st)) as [[s pq']|] eqn:Ex.
    2:{ inversion H; subst. rewrite app_nil_r. exact I. }
    destruct (extract_nth_spec _ _ _ _ Ex) as (l1 & l2 & E1 & E2 & _).
    destruct I as [C R].
    assert (I1 : Inv cf [s] (set_pq pq' st) tr).
    { split.
      - apply (core_same [] st tr); sset; auto using incl_refl. unfold held; sset. rewrite E1, E2. perm.
      - apply (rest_ext cf st); auto. }
    destruct (process_queue_inv _ _ _ _ _ _ H I1) as (I2 & _). exact I2.
  - (* SinkState *)
    inversion H; subst st' ob; clear H. rewrite app_nil_r. destruct I as [C R]. split.
    + apply (core_same [] st tr); sset; auto using incl_refl.
    + apply (rest_ext cf st); auto.
  - (* ClosePool *)
    destruct I as [C [R1 R2 R3 R4 R5 R6]]. split.
    + apply (close_pool_core _ _ _ _ _ H C).
    + apply (close_pool_rest cf _ _ _ H); auto.
  - (* OpenPool *)
    destruct (pstate st =? 4) eqn:Ec4.
    { inversion H; subst st' ob; clear H. destruct I as [C R]. split.
      - apply (core_same [] st tr); sset; auto using incl_app_l.
      - apply (rest_ext cf st); auto. }
    destruct (get cf None st) as [[g st1] ob1] eqn:Eg.
    destruct (get_inv _ _ _ _ _ _ _ Eg I) as (Ew & En & Ep & El & Eq & G).
    destruct g as [s| | |].
    + destruct G as (I1 & _). destruct (release cf s st1) as [st2 ob2] eqn:Er.
      destruct (open_result st2) as [st3 ob3] eqn:Eo. inversion H; subst st' ob; clear H.
      destruct (release_inv _ _ _ _ _ _ Er I1) as (I2 & _).
      rewrite app_assoc3, app_assoc. apply (open_result_inv _ _ _ _ _ Eo I2).
    + destruct G as (I1 & _). inversion H; subst st' ob; clear H. exact I1.
    + destruct G as ([C1 R1] & _). destruct (open_result (release_noop st1)) as [st3 ob3] eqn:Eo.
      inversion H; subst st' ob; clear H. rewrite app_assoc. apply (open_result_inv _ _ _ _ _ Eo). split.
      * apply (core_same [] st1 (tr ++ ob1)); sset; auto using incl_refl.
      * apply (rest_ext cf st1); auto.
    + destruct G as ([C1 R1] & _). destruct (open_result (release_noop st1)) as [st3 ob3] eqn:Eo.
      inversion H; subst st' ob; clear H. rewrite app_assoc. apply (open_result_inv _ _ _ _ _ Eo). split.
      * apply (core_same [] st1 (tr ++ ob1)); sset; auto using incl_refl.
      * apply (rest_ext cf st1); auto.
Qed.

(* ---- every reachable state ------------------------------------------------------------------------ *)
Lemma init_inv cf : 0 <= cmax cf -> Inv cf [] init [].
Proof.
  intros H. split.
  - constructor; cbn; auto; try constructor; try reflexivity; try lia.
  - constructor; cbn; try (intros _ Hw; contradiction); auto; try constructor; try lia.
Qed.

Lemma run_inv cf ls : forall st tr st' ob,
  run cf st ls = (st', ob) -> Inv cf [] st tr -> Inv cf [] st' (tr ++ ob).
Proof.
  induction ls as [|l r IH]; intros st tr st' ob H I; cbn in H.
  - inversion H; subst. now rewrite app_nil_r.
  - destruct (step cf st l) as [st1 ob1] eqn:E1. destruct (run cf st1 r) as [st2 ob2] eqn:E2.
    inversion H; subst st' ob; clear H. rewrite app_assoc. eapply IH; eauto. eapply step_inv; eauto.
Qed.

Lemma reach_inv cf ls st tr : 0 <= cmax cf -> reach cf ls = (st, tr) -> Inv cf [] st tr.
Proof. intros Hm H. apply (run_inv cf ls init [] st tr H (init_inv cf Hm)). Qed.

Lemma run_app cf a : forall b st,
  run cf st (a ++ b) = let '(st1, o1) := run cf st a in let '(st2, o2) := run cf st1 b in (st2, o1 ++ o2).
Proof.
  induction a as [|l a IH]; intros b st; cbn.
  - destruct (run cf st b); reflexivity.
  - destruct (step cf st l) as [st1 ob1]. rewrite IH. destruct (run cf st1 a) as [st2 ob2].
    destruct (run cf st2 b) as [st3 ob3]. now rewrite app_assoc.
Qed.

(* ---- what each piece of code can emit -------------------------------------------------------------- *)
Definition rel_ob (o : obs) : Prop :=
  match o with ODropped _ | OClose _ | OSpawn _ => True | OError _ k => k = EServiceClosed | _ => False end.
Definition get_ob (o : obs) : Prop := match o with OClose _ | OCreate _ => True | _ => False end.

Lemma flush_obs c : forall m, snd (flush c m) = map OClose c.
Proof.
  induction c as [|s r IH]; intros m; cbn; auto. specialize (IH ((s, 4) :: m)).
  destruct (flush r ((s, 4) :: m)) as [m' ob]. cbn in *. now rewrite IH.
Qed.

Lemma close_pool_obs st : snd (close_pool st) = map OClose (cache st) ++ fail_obs (waiters st).
Proof.
  unfold close_pool. pose proof (flush_obs (cache st) (sst st)) as F.
  destruct (flush (cache st) (sst st)) as [m' ob]. cbn in *. now rewrite F.
Qed.

Lemma fail_obs_kind ws : Forall rel_ob (fail_obs ws).
Proof.
  induction ws as [|[c a] r IH]; cbn; [constructor|]. destruct a; cbn; auto. constructor; auto. reflexivity.
Qed.

Lemma map_close_kind l : Forall rel_ob (map OClose l).
Proof. induction l; cbn; constructor; auto. exact I. Qed.

Lemma release_obs cf s st : Forall rel_ob (snd (release cf s st)).
Proof.
  unfold release. destruct (pstate st =? 4). { cbn. repeat constructor. }
  destruct (sstate st s =? 4).
  { pose proof (close_pool_obs (set_size (size st - 1) st)) as Hc.
    destruct (close_pool (set_size (size st - 1) st)) as [st2 ob]. cbn in *. constructor; [exact I|].
    rewrite Hc. apply Forall_app. split; [apply map_close_kind|apply fail_obs_kind]. }
  destruct (waiters st). 2:{ cbn. repeat constructor. }
  destruct (size st <=? cmin cf); cbn; repeat constructor.
Qed.

Lemma release_nsink cf s st : nsink (fst (release cf s st)) = nsink st /\ pq (fst (release cf s st)) = pq st \/
                              nsink (fst (release cf s st)) = nsink st /\ pq (fst (release cf s st)) = pq st ++ [s].
Proof.
  unfold release. destruct (pstate st =? 4). { left. cbn. auto. }
  destruct (sstate st s =? 4).
  { destruct (close_pool (set_size (size st - 1) st)) as [st2 ob] eqn:E.
    destruct (close_pool_fields _ _ _ E) as (_ & _ & _ & _ & Eq & _ & _ & _ & En). left. cbn. sset. auto. }
  destruct (waiters st). 2:{ right. cbn. auto. }
  destruct (size st <=? cmin cf); left; cbn; auto.
Qed.

Lemma get_obs cf who st g st' ob :
  get cf who st = (g, st', ob) ->
  Forall get_ob ob /\ nsink st <= nsink st' /\
  (forall s, In (OCreate s) ob -> s = nsink st /\ nsink st' = nsink st + 1).
Proof.
  unfold get. intros H.
  pose proof (dequeue_spec (cache st) (sst st) (size st)) as D.
  destruct (dequeue (cache st) (sst st) (size st)) as [[[[o c'] m'] sz'] ob0].
  destruct D as (dead & _ & _ & _ & Ho).
  assert (Hk : Forall get_ob ob0). { subst ob0. clear. induction dead; cbn; constructor; auto. exact I. }
  assert (Hnc : forall s, ~ In (OCreate s) ob0).
  { subst ob0. clear. intros s H. apply in_map_iff in H as (x & E & _). discriminate. }
  destruct o as [s|].
  - inversion H; subst; clear H. sset. splits; auto; try lia. intros s0 Hi. now apply Hnc in Hi.
  - sset. destruct (sz' <? cmax cf) eqn:E1 in H.
    2:{ assert (st' = set_size sz' (set_sst m' (set_cache c' st)) \/
                st' = set_gq (zlen (waiters st) + 1) (set_size sz' (set_sst m' (set_cache c' st)))) as Hs.
        { destruct (zlen (waiters st) + 1 >? cmaxq cf); inversion H; auto. }
        assert (ob = ob0) by (destruct (zlen (waiters st) + 1 >? cmaxq cf); inversion H; auto). subst ob.
        splits; auto.
        - destruct Hs as [-> | ->]; sset; lia.
        - intros s0 Hi. now apply Hnc in Hi. }
    inversion H; subst; clear H. sset. splits; try lia.
    + apply Forall_app. split; auto. constructor; [exact I|constructor].
    + intros s0 Hi. apply in_app_or in Hi as [Hi|[Hi|[]]]; [now apply Hnc in Hi|]. inversion Hi. auto.
Qed.

Definition no_create (o : obs) : Prop := match o with OCreate _ => False | _ => True end.

Lemma rel_no_create l : Forall rel_ob l -> forall s, ~ In (OCreate s) l.
Proof. intros F s H. rewrite Forall_forall in F. apply F in H. exact H. Qed.

Lemma open_result_nsink st : nsink (fst (open_result st)) = nsink st /\ forall s, ~ In (OCreate s) (snd (open_result st)).
Proof.
  unfold open_result. destruct (pstate st =? 4); cbn; split; auto; intros s [H|[]]; discriminate.
Qed.

Lemma process_queue_created cf s st :
  nsink (fst (process_queue cf s st)) = nsink st /\ forall x, ~ In (OCreate x) (snd (process_queue cf s st)).
Proof.
  unfold process_queue. destruct (waiters st) as [|w ws] eqn:Ew.
  { split; [destruct (release_nsink cf s st) as [[E _]|[E _]]; exact E|apply rel_no_create, release_obs]. }
  rewrite <- Ew. destruct (pq_loop (waiters st)) as [[c|] ws'].
  - cbn. split; auto. intros x [H|[]]. discriminate.
  - split.
    + destruct (release_nsink cf s (set_gq (zlen ws') (set_waiters ws' st))) as [[E _]|[E _]]; rewrite E; reflexivity.
    + apply rel_no_create, release_obs.
Qed.

Lemma step_created cf st l st' ob :
  step cf st l = (st', ob) ->
  nsink st <= nsink st' /\ forall s, In (OCreate s) ob -> s = nsink st /\ nsink st' = nsink st + 1.
Proof.
  intros H. destruct l as [|s|c|c|k|s v| |]; cbn [step] in H.
  - destruct (get cf (Some (ncall st)) (set_ncall (ncall st + 1) st)) as [[g st1] ob1] eqn:Eg.
    destruct (get_obs _ _ _ _ _ _ Eg) as (_ & Hn & Hc). sset.
    destruct g; inversion H; subst st' ob; clear H; sset; split; auto; intros s0 Hi;
      try (apply in_app_or in Hi as [Hi|[Hi|[]]]; [|discriminate]); auto.
  - destruct (extract _ (opening st)) as [[[s' [c|]] op']|].
    + inversion H; subst; clear H. sset. split; [lia|]. intros s0 [Hi|[]]. discriminate.
    + pose proof (release_nsink cf s (set_opening op' st)) as Rn.
      pose proof (release_obs cf s (set_opening op' st)) as Ro.
      destruct (release cf s (set_opening op' st)) as [st2 ob2].
      pose proof (open_result_nsink st2) as [On Oc]. destruct (open_result st2) as [st3 ob3].
      inversion H; subst; clear H. cbn in *. sset.
      assert (nsink st2 = nsink st) by (destruct Rn as [[E _]|[E _]]; exact E).
      split; [lia|]. intros s0 Hi. apply in_app_or in Hi as [Hi|Hi]; [now apply (rel_no_create _ Ro) in Hi|now apply Oc in Hi].
    + inversion H; subst. split; [lia|]. intros s0 [].
  - destruct (extract _ (lent st)) as [[[s c'] le']|].
    2:{ inversion H; subst. split; [lia|]. intros s0 []. }
    pose proof (release_nsink cf s (set_lent le' st)) as Rn.
    pose proof (release_obs cf s (set_lent le' st)) as Ro.
    destruct (release cf s (set_lent le' st)) as [st1 ob1]. inversion H; subst; clear H. cbn in *. sset.
    assert (nsink st' = nsink st) by (destruct Rn as [[E _]|[E _]]; exact E).
    split; [lia|]. intros s0 Hi. apply in_app_or in Hi as [Hi|[Hi|[]]]; [now apply (rel_no_create _ Ro) in Hi|discriminate].
  - destruct (existsb _ (waiters st)); inversion H; subst; sset; (split; [lia|]); intros s0 Hi; cbn in Hi;
      intuition discriminate.
  - destruct (extract_nth k (pq st)) as [[s pq']|].
    2:{ inversion H; subst. split; [lia|]. intros s0 []. }
    pose proof (process_queue_created cf s (set_pq pq' st)) as [Pn Pc]. rewrite H in *. cbn in *. sset.
    split; [lia|]. intros s0 Hi. now apply Pc in Hi.
  - inversion H; subst. sset. split; [lia|]. intros s0 [].
  - destruct (close_pool_fields _ _ _ H) as (_ & _ & _ & _ & _ & _ & _ & _ & En).
    pose proof (close_pool_obs st) as Ho. rewrite H in Ho. cbn in Ho. split; [lia|]. intros s0 Hi. subst ob.
    apply in_app_or in Hi as [Hi|Hi].
    + apply in_map_iff in Hi as (x & E & _). discriminate.
    + apply (rel_no_create _ (fail_obs_kind (waiters st))) in Hi. contradiction.
  - destruct (pstate st =? 4) eqn:Ec4.
    { inversion H; subst st' ob; clear H. split; [lia|]. intros s0 [Hi|[]]. discriminate. }
    destruct (get cf None st) as [[g st1] ob1] eqn:Eg.
    destruct (get_obs _ _ _ _ _ _ Eg) as (_ & Hn & Hc).
    destruct g as [s| | |].
    + pose proof (release_nsink cf s st1) as Rn. pose proof (release_obs cf s st1) as Ro.
      destruct (release cf s st1) as [st2 ob2].
      pose proof (open_result_nsink st2) as [On Oc]. destruct (open_result st2) as [st3 ob3].
      inversion H; subst; clear H. cbn in *.
      assert (nsink st2 = nsink st1) by (destruct Rn as [[E _]|[E _]]; exact E).
      split; [lia|]. intros s0 Hi. apply in_app_or in Hi as [Hi|Hi].
      * destruct (Hc _ Hi). split; lia.
      * apply in_app_or in Hi as [Hi|Hi]; [now apply (rel_no_create _ Ro) in Hi|now apply Oc in Hi].
    + inversion H; subst; clear H. auto.
    + pose proof (open_result_nsink (release_noop st1)) as [On Oc]. destruct (open_result (release_noop st1)) as [st3 ob3].
      inversion H; subst; clear H. cbn in *. sset. split; [lia|]. intros s0 Hi. apply in_app_or in Hi as [Hi|Hi].
      * destruct (Hc _ Hi). split; lia.
      * now apply Oc in Hi.
    + pose proof (open_result_nsink (release_noop st1)) as [On Oc]. destruct (open_result (release_noop st1)) as [st3 ob3].
      inversion H; subst; clear H. cbn in *. sset. split; [lia|]. intros s0 Hi. apply in_app_or in Hi as [Hi|Hi].
      * destruct (Hc _ Hi). split; lia.
      * now apply Oc in Hi.
Qed.

Lemma run_created cf ls : forall st tr st' ob,
  run cf st ls = (st', ob) -> (forall s, In (OCreate s) tr -> 0 <= s < nsink st) -> 0 <= nsink st ->
  forall s, In (OCreate s) (tr ++ ob) -> 0 <= s < nsink st'.
Proof.
  induction ls as [|l r IH]; intros st tr st' ob H Hc Hn; cbn in H.
  - inversion H; subst. rewrite app_nil_r. exact Hc.
  - destruct (step cf st l) as [st1 ob1] eqn:E1. destruct (run cf st1 r) as [st2 ob2] eqn:E2.
    inversion H; subst st' ob; clear H. rewrite app_assoc. destruct (step_created _ _ _ _ _ E1) as [Hm Hs].
    eapply IH; eauto; try lia. intros s Hi. apply in_app_or in Hi as [Hi|Hi].
    + apply Hc in Hi. lia.
    + destruct (Hs _ Hi). lia.
Qed.

(* ---- one-step facts: queue bound ------------------------------------------------------------------- *)
Lemma req_full_fails cf st st' ob :
  cache st = [] -> cmax cf <= size st -> cmaxq cf < zlen (waiters st) + 1 ->
  step cf st Req = (st', ob) ->
  ob = [OError (ncall st) EMaxWaiters] /\ waiters st' = waiters st /\ lent st' = lent st /\ size st' = size st
  /\ opening st' = opening st.
Proof.
  intros Hc Hs Hq H. cbn [step] in H. unfold get in H. sset. rewrite Hc in H. cbn [dequeue] in H. sset.
  replace (size st <? cmax cf) with false in H by (symmetry; apply Z.ltb_ge; lia).
  replace (zlen (waiters st) + 1 >? cmaxq cf) with true in H by (symmetry; rewrite Z.gtb_ltb; apply Z.ltb_lt; lia).
  inversion H; subst; clear H. sset. splits; auto.
Qed.

Lemma req_room_enqueues cf st st' ob :
  cache st = [] -> cmax cf <= size st -> zlen (waiters st) + 1 <= cmaxq cf ->
  step cf st Req = (st', ob) ->
  ob = [] /\ waiters st' = waiters st ++ [(ncall st, true)] /\ lent st' = lent st /\ size st' = size st
  /\ opening st' = opening st.
Proof.
  intros Hc Hs Hq H. cbn [step] in H. unfold get in H. sset. rewrite Hc in H. cbn [dequeue] in H. sset.
  replace (size st <? cmax cf) with false in H by (symmetry; apply Z.ltb_ge; lia).
  replace (zlen (waiters st) + 1 >? cmaxq cf) with false in H by (symmetry; rewrite Z.gtb_ltb; apply Z.ltb_ge; lia).
  inversion H; subst; clear H. sset. splits; auto.
Qed.

(* ---- one-step facts: hand-off ---------------------------------------------------------------------- *)
Definition dead_w (w : Z * bool) : Prop := snd w = false.

Lemma pq_loop_live pre c post : Forall dead_w pre -> pq_loop (pre ++ (c, true) :: post) = (Some c, post).
Proof. induction pre as [|[x a] r IH]; cbn; intros F; auto. inversion F as [|? ? Hd Hr]; subst. unfold dead_w in Hd; cbn in Hd; subst a. auto. Qed.

Lemma pq_loop_dead ws : Forall dead_w ws -> pq_loop ws = (None, []).
Proof. induction ws as [|[x a] r IH]; cbn; intros F; auto. inversion F as [|? ? Hd Hr]; subst. unfold dead_w in Hd; cbn in Hd; subst a. auto. Qed.

Lemma handoff_live cf st k s pq' pre c post st' ob :
  extract_nth k (pq st) = Some (s, pq') ->
  waiters st = pre ++ (c, true) :: post -> Forall dead_w pre ->
  step cf st (PQ k) = (st', ob) ->
  ob = [OForward c s] /\ lent st' = lent st ++ [(s, c)] /\ waiters st' = post /\ size st' = size st /\ pq st' = pq'
  /\ cache st' = cache st /\ pstate st' = pstate st.
Proof.
  intros Ex Ew F H. cbn [step] in H. rewrite Ex in H. unfold process_queue in H. sset.
  destruct (waiters st) as [|w0 ws0] eqn:E0. { destruct pre; discriminate. }
  rewrite Ew, (pq_loop_live _ _ _ F) in H. inversion H; subst; clear H. sset. splits; auto.
Qed.

Lemma handoff_all_dead cf st k s pq' st' ob :
  extract_nth k (pq st) = Some (s, pq') -> Forall dead_w (waiters st) ->
  pstate st <> 4 -> sstate st s <> 4 ->
  step cf st (PQ k) = (st', ob) ->
  waiters st' = [] /\ pq st' = pq' /\ lent st' = lent st /\
  (size st <= cmin cf -> ob = [] /\ cache st' = cache st ++ [s] /\ size st' = size st) /\
  (cmin cf < size st -> ob = [OClose s] /\ cache st' = cache st /\ size st' = size st - 1).
Proof.
  intros Ex F Hp Hs H. cbn [step] in H. rewrite Ex in H. unfold process_queue in H. sset.
  assert (R : forall stx, waiters stx = [] -> pstate stx = pstate st -> sstate stx s = sstate st s ->
              size stx = size st -> cache stx = cache st -> pq stx = pq' -> lent stx = lent st ->
              release cf s stx = (st', ob) ->
              waiters st' = [] /\ pq st' = pq' /\ lent st' = lent st /\
              (size st <= cmin cf -> ob = [] /\ cache st' = cache st ++ [s] /\ size st' = size st) /\
              (cmin cf < size st -> ob = [OClose s] /\ cache st' = cache st /\ size st' = size st - 1)).
  { intros stx E1 E2 E3 E4 E5 E6 E7 Hr. unfold release in Hr. rewrite E1, E2, E3, E4 in Hr.
    replace (pstate st =? 4) with false in Hr by (symmetry; now apply Z.eqb_neq).
    replace (sstate st s =? 4) with false in Hr by (symmetry; now apply Z.eqb_neq).
    destruct (size st <=? cmin cf) eqn:Em.
    - apply Z.leb_le in Em. inversion Hr; subst; clear Hr. sset.
      splits; auto; try lia; intros; splits; auto; try lia; try congruence.
    - apply Z.leb_gt in Em. unfold discard in Hr. inversion Hr; subst; clear Hr. sset.
      splits; auto; try lia; intros; splits; auto; try lia; try congruence. }
  destruct (waiters st) as [|w0 ws0] eqn:E0.
  - apply (R (set_pq pq' st)); sset; auto.
  - rewrite <- E0 in *. rewrite (pq_loop_dead _ F) in H. apply (R (set_gq (zlen (@nil (Z * bool))) (set_waiters [] (set_pq pq' st)))); sset; auto.
Qed.

Lemma release_spawns cf st c s c' le' st' ob :
  extract (fun e : Z * Z => snd e =? c) (lent st) = Some ((s, c'), le') ->
  pstate st <> 4 -> sstate st s <> 4 -> waiters st <> [] ->
  step cf st (Resp c) = (st', ob) ->
  ob = [OSpawn s; ODone c] /\ pq st' = pq st ++ [s] /\ size st' = size st /\ waiters st' = waiters st /\ lent st' = le'.
Proof.
  intros Ex Hp Hs Hw H. cbn [step] in H. rewrite Ex in H. unfold release in H. sset.
  replace (pstate st =? 4) with false in H by (symmetry; now apply Z.eqb_neq).
  change (sstate (set_lent le' st) s) with (sstate st s) in H.
  replace (sstate st s =? 4) with false in H by (symmetry; now apply Z.eqb_neq).
  destruct (waiters st) as [|w ws] eqn:E; [contradiction|]. inversion H; subst; clear H. sset. splits; auto.
Qed.

(* ---- one-step facts: closing ----------------------------------------------------------------------- *)
Lemma dead_release_closes cf st c s c' le' st' ob :
  extract (fun e : Z * Z => snd e =? c) (lent st) = Some ((s, c'), le') ->
  pstate st <> 4 -> sstate st s = 4 ->
  step cf st (Resp c) = (st', ob) ->
  pstate st' = 4 /\ ob = ODropped s :: (map OClose (cache st) ++ fail_obs (waiters st)) ++ [ODone c]
  /\ waiters st' = kill (waiters st) /\ size st' = size st - 1 /\ lent st' = le'.
Proof.
  intros Ex Hp Hs H. cbn [step] in H. rewrite Ex in H. unfold release in H. sset.
  replace (pstate st =? 4) with false in H by (symmetry; now apply Z.eqb_neq).
  change (sstate (set_lent le' st) s) with (sstate st s) in H. rewrite Hs in H. cbn [Z.eqb Pos.eqb] in H.
  pose proof (close_pool_obs (set_size (size st - 1) (set_lent le' st))) as Ho.
  destruct (close_pool (set_size (size st - 1) (set_lent le' st))) as [st2 ob2] eqn:Ec.
  destruct (close_pool_fields _ _ _ Ec) as (Fp & Fw & Fl & _ & _ & _ & Fs & _). cbn [snd] in Ho. sset.
  inversion H; subst; clear H. sset. splits; auto.
Qed.

Lemma in_fail_obs w k ws : In (OError w k) (fail_obs ws) <-> k = EServiceClosed /\ In (w, true) ws.
Proof.
  induction ws as [|[x a] r IH]; cbn.
  - tauto.
  - destruct a; cbn; rewrite ?IH; split.
    + intros [H|H]; [inversion H; subst; auto|]. tauto.
    + intros [-> [H|H]]; [inversion H; auto|]. tauto.
    + intros [-> H]. split; auto.
    + intros [-> [H|H]]; [discriminate|]. auto.
Qed.

Lemma fail_obs_errors ws : forall o, In o (fail_obs ws) -> exists w, o = OError w EServiceClosed /\ In (w, true) ws.
Proof.
  induction ws as [|[x a] r IH]; cbn; intros o H; [contradiction|]. destruct a; cbn in H.
  - destruct H as [<-|H]; eauto. destruct (IH _ H) as (w & E & Hi). eauto.
  - destruct (IH _ H) as (w & E & Hi). eauto.
Qed.

Lemma fail_obs_nodup ws : NoDup (map fst ws) -> NoDup (fail_obs ws).
Proof.
  induction ws as [|[x a] r IH]; cbn; intros N; [constructor|]. inversion N; subst. destruct a; cbn; auto.
  constructor; auto. intros H. apply in_fail_obs in H as [_ H]. apply H1. apply in_map_iff. exists (x, true). auto.
Qed.

Lemma fail_obs_kill ws : fail_obs (kill ws) = [].
Proof. induction ws as [|[x a] r IH]; cbn; auto. Qed.

Lemma fail_obs_dead ws : Forall dead_w ws -> fail_obs ws = [].
Proof. induction ws as [|[x a] r IH]; cbn; intros F; auto. inversion F as [|? ? Hd Hr]; subst. unfold dead_w in Hd; cbn in Hd; subst a. cbn. auto. Qed.

Lemma kill_dead ws : Forall dead_w (kill ws).
Proof. induction ws; cbn; constructor; auto. reflexivity. Qed.

Lemma ss_nodup l : StronglySorted Z.lt l -> NoDup l.
Proof.
  induction l as [|x l IH]; intros S; [constructor|]. apply StronglySorted_inv in S as [S F]. constructor; auto.
  intros H. rewrite Forall_forall in F. apply F in H. lia.
Qed.

(* ---- one-step facts: FIFO and exclusive lending ------------------------------------------------------ *)
Lemma rel_not_fwd l c s : Forall rel_ob l -> ~ In (OForward c s) l.
Proof. intros F H. rewrite Forall_forall in F. apply F in H. exact H. Qed.

Lemma get_not_fwd l c s : Forall get_ob l -> ~ In (OForward c s) l.
Proof. intros F H. rewrite Forall_forall in F. apply F in H. exact H. Qed.

Lemma fifo_step cf st tr k st' ob c s :
  Inv cf [] st tr -> step cf st (PQ k) = (st', ob) -> In (OForward c s) ob ->
  ob = [OForward c s] /\ In (c, true) (waiters st) /\ (forall c', In (c', true) (waiters st) -> c <= c') /\
  (forall w, In w (waiters st') -> c < fst w).
Proof.
  intros [_ [_ _ _ R4 _ _]] H Hi. cbn [step] in H.
  destruct (extract_nth k (pq st)) as [[s0 pq']|]. 2:{ inversion H; subst. contradiction. }
  unfold process_queue in H. sset.
  destruct (waiters st) as [|w0 ws0] eqn:E0.
  { pose proof (release_obs cf s0 (set_pq pq' st)) as Ro. rewrite H in Ro. now apply (rel_not_fwd _ c s) in Ro. }
  rewrite <- E0 in *. pose proof (pq_loop_spec (waiters st)) as S. destruct (pq_loop (waiters st)) as [[c0|] ws'].
  2:{ pose proof (release_obs cf s0 (set_gq (zlen ws') (set_waiters ws' (set_pq pq' st)))) as Ro. rewrite H in Ro.
      now apply (rel_not_fwd _ c s) in Ro. }
  destruct S as (pre & E & F & _). inversion H; subst st' ob; clear H. sset.
  destruct Hi as [Hi|[]]. inversion Hi; subst c0 s0; clear Hi.
  rewrite E, map_app in R4. apply ss_app_r in R4. cbn [map fst] in R4. apply StronglySorted_inv in R4 as [_ Fc].
  rewrite Forall_forall in Fc.
  splits; auto.
  - rewrite E. apply in_or_app. right. now left.
  - intros c' Hc. rewrite E in Hc. apply in_app_or in Hc as [Hc|[Hc|Hc]].
    + rewrite Forall_forall in F. apply F in Hc. discriminate.
    + inversion Hc. lia.
    + assert (c < c') by (apply Fc; apply in_map_iff; exists (c', true); auto). lia.
  - intros w Hw. apply Fc. now apply in_map.
Qed.

Lemma nodup_app_disj {A} (a b : list A) x : NoDup (a ++ b) -> In x a -> ~ In x b.
Proof.
  induction a as [|y a IH]; cbn; intros N Ha Hb; [contradiction|]. inversion N; subst. destruct Ha as [->|Ha].
  - apply H1. apply in_or_app. now right.
  - now apply (IH H2 Ha).
Qed.

Lemma not_lent_if_elsewhere st s :
  NoDup (held st) -> In s (cache st ++ map fst (opening st) ++ pq st) -> ~ In s (map fst (lent st)).
Proof. unfold held. intros N Hi Hl. now apply (nodup_app_disj _ _ s N Hl). Qed.

Lemma forward_fresh cf st tr l st' ob c s :
  Inv cf [] st tr -> step cf st l = (st', ob) -> In (OForward c s) ob ->
  ~ In s (map fst (lent st)) /\ In (s, c) (lent st').
Proof.
  intros I H Hi. pose proof I as [[_ N _ _ _] _]. cbn [app] in N.
  destruct l as [|s1|c1|c1|k|s1 v| |]; cbn [step] in H.
  - set (st0 := set_ncall (ncall st + 1) st) in *.
    assert (I0 : Inv cf [] st0 tr).
    { destruct I as [C [R1 R2 R3 R4 R5 R6]]. split.
      - apply (core_same [] st tr); subst st0; sset; auto using incl_refl.
      - subst st0. constructor; sset; auto. eapply Forall_impl; [|exact R5]. cbn. intros. lia. }
    destruct (get cf (Some (ncall st)) st0) as [[g st1] ob1] eqn:Eg.
    destruct (get_inv _ _ _ _ _ _ _ Eg I0) as (_ & _ & _ & El & _ & G).
    destruct (get_obs _ _ _ _ _ _ Eg) as (Go & _ & _).
    destruct g as [s2| | |]; inversion H; subst st' ob; clear H.
    + apply in_app_or in Hi as [Hi|[Hi|[]]]; [now apply get_not_fwd in Hi|]. inversion Hi; subst c s2; clear Hi.
      destruct G as (_ & _ & Hc). subst st0; sset. split.
      * apply not_lent_if_elsewhere; auto. apply in_or_app. now left.
      * apply in_or_app. right. now left.
    + now apply get_not_fwd in Hi.
    + now apply get_not_fwd in Hi.
    + apply in_app_or in Hi as [Hi|[Hi|[]]]; [now apply get_not_fwd in Hi|discriminate].
  - destruct (extract _ (opening st)) as [[[s' who] op']|] eqn:Ex. 2:{ inversion H; subst. contradiction. }
    destruct (extract_spec _ _ _ _ Ex) as (l1 & l2 & E1 & E2 & Ps & _). cbn in Ps. apply Z.eqb_eq in Ps. subst s'.
    destruct who as [c2|].
    + inversion H; subst st' ob; clear H. destruct Hi as [Hi|[]]. inversion Hi; subst c2 s1; clear Hi. sset. split.
      * apply not_lent_if_elsewhere; auto. apply in_or_app. right. apply in_or_app. left.
        rewrite E1, map_app. apply in_or_app. right. now left.
      * apply in_or_app. right. now left.
    + pose proof (release_obs cf s1 (set_opening op' st)) as Ro.
      destruct (release cf s1 (set_opening op' st)) as [st2 ob2].
      unfold open_result in H. destruct (pstate st2 =? 4); inversion H; subst st' ob; clear H;
        (apply in_app_or in Hi as [Hi|[Hi|[]]]; [now apply (rel_not_fwd _ c s) in Ro|discriminate]).
  - destruct (extract _ (lent st)) as [[[s2 c'] le']|]. 2:{ inversion H; subst. contradiction. }
    pose proof (release_obs cf s2 (set_lent le' st)) as Ro.
    destruct (release cf s2 (set_lent le' st)) as [st1 ob1]. inversion H; subst st' ob; clear H.
    apply in_app_or in Hi as [Hi|[Hi|[]]]; [now apply (rel_not_fwd _ c s) in Ro|discriminate].
  - destruct (existsb _ (waiters st)); inversion H; subst; cbn in Hi; intuition discriminate.
  - destruct (fifo_step _ _ _ _ _ _ _ _ I H Hi) as (Eo & _).
    cbn [step] in H. destruct (extract_nth k (pq st)) as [[s0 pq']|] eqn:Ex. 2:{ inversion H; subst. discriminate. }
    destruct (extract_nth_spec _ _ _ _ Ex) as (l1 & l2 & E1 & E2 & _).
    unfold process_queue in H. sset.
    destruct (waiters st) as [|w0 ws0] eqn:E0.
    { pose proof (release_obs cf s0 (set_pq pq' st)) as Ro. rewrite H in Ro. now apply (rel_not_fwd _ c s) in Ro. }
    rewrite <- E0 in *. destruct (pq_loop (waiters st)) as [[c0|] ws'].
    2:{ pose proof (release_obs cf s0 (set_gq (zlen ws') (set_waiters ws' (set_pq pq' st)))) as Ro. rewrite H in Ro.
        now apply (rel_not_fwd _ c s) in Ro. }
    rewrite Eo in H. clear Eo. inversion H; subst st' c0 s0; clear H. sset. split.
    + apply not_lent_if_elsewhere; auto. apply in_or_app. right. apply in_or_app. right. rewrite E1.
      apply in_or_app. right. now left.
    + apply in_or_app. right. now left.
  - inversion H; subst. contradiction.
  - pose proof (close_pool_obs st) as Ho. rewrite H in Ho. cbn in Ho. subst ob. apply in_app_or in Hi as [Hi|Hi].
    + apply in_map_iff in Hi as (x & E & _). discriminate.
    + now apply (rel_not_fwd _ c s (fail_obs_kind (waiters st))) in Hi.
  - destruct (pstate st =? 4) eqn:Ec4.
    { inversion H; subst st' ob; clear H. destruct Hi as [Hi|[]]. discriminate. }
    destruct (get cf None st) as [[g st1] ob1] eqn:Eg.
    destruct (get_obs _ _ _ _ _ _ Eg) as (Go & _ & _).
    destruct g as [s2| | |].
    + pose proof (release_obs cf s2 st1) as Ro. destruct (release cf s2 st1) as [st2 ob2].
      unfold open_result in H. destruct (pstate st2 =? 4); inversion H; subst st' ob; clear H;
        (apply in_app_or in Hi as [Hi|Hi]; [now apply get_not_fwd in Hi|];
         apply in_app_or in Hi as [Hi|[Hi|[]]]; [now apply (rel_not_fwd _ c s) in Ro|discriminate]).
    + inversion H; subst. now apply get_not_fwd in Hi.
    + unfold open_result in H. destruct (pstate (release_noop st1) =? 4); inversion H; subst st' ob; clear H;
        (apply in_app_or in Hi as [Hi|[Hi|[]]]; [now apply get_not_fwd in Hi|discriminate]).
    + unfold open_result in H. destruct (pstate (release_noop st1) =? 4); inversion H; subst st' ob; clear H;
        (apply in_app_or in Hi as [Hi|[Hi|[]]]; [now apply get_not_fwd in Hi|discriminate]).
Qed.

(* ---- the call-side invariant: every call is answered at most once ----------------------------------- *)
Definition live (ws : list (Z * bool)) : list Z := map fst (filter snd ws).
Definition ocalls (op : list (Z * option Z)) : list Z :=
  flat_map (fun e : Z * option Z => match snd e with Some c => [c] | None => [] end) op.
(* calls the pool still owes an answer: holding a connection, waiting (stack not drained), or blocked in Open().wait() *)
Definition active (st : state) : list Z := map snd (lent st) ++ live (waiters st) ++ ocalls (opening st).

Definition is_term (c : Z) (o : obs) : bool :=
  match o with ODone c' => c' =? c | OError c' _ => c' =? c | _ => false end.
Definition nterm (c : Z) (tr : list obs) : nat := length (filter (is_term c) tr).
Definition cnt (c : Z) (l : list Z) : nat := count_occ Z.eq_dec l c.

Lemma nterm_app c a b : nterm c (a ++ b) = (nterm c a + nterm c b)%nat.
Proof. unfold nterm. now rewrite filter_app, app_length. Qed.
Lemma cnt_app c a b : cnt c (a ++ b) = (cnt c a + cnt c b)%nat.
Proof. apply count_occ_app. Qed.
Lemma live_app a b : live (a ++ b) = live a ++ live b.
Proof. unfold live. now rewrite filter_app, map_app. Qed.
Lemma ocalls_app a b : ocalls (a ++ b) = ocalls a ++ ocalls b.
Proof. unfold ocalls. apply flat_map_app. Qed.
Lemma live_kill ws : live (kill ws) = [].
Proof. induction ws as [|[x a] r IH]; cbn; auto. Qed.
Lemma live_dead ws : Forall dead_w ws -> live ws = [].
Proof.
  induction ws as [|[x a] r IH]; intros F; auto. inversion F as [|? ? Hd Hr]; subst. unfold dead_w in Hd; cbn in Hd; subst a.
  unfold live in *. cbn. auto.
Qed.
Lemma nterm_close c l : nterm c (map OClose l) = 0%nat.
Proof. induction l; cbn; auto. Qed.
Lemma nterm_fail c ws : nterm c (fail_obs ws) = cnt c (live ws).
Proof.
  induction ws as [|[x a] r IH]; auto. destruct a.
  - change (fail_obs ((x, true) :: r)) with (OError x EServiceClosed :: fail_obs r).
    change (live ((x, true) :: r)) with (x :: live r). unfold nterm, cnt in *. cbn.
    destruct (Z.eq_dec x c) as [->|Ne].
    + rewrite Z.eqb_refl. cbn. now rewrite IH.
    + replace (x =? c) with false by (symmetry; now apply Z.eqb_neq). auto.
  - exact IH.
Qed.
Lemma nterm_get c l : Forall get_ob l -> nterm c l = 0%nat.
Proof. induction 1 as [|o l Ho _ IH]; auto. unfold nterm in *. cbn. destruct o; try contradiction; cbn; auto. Qed.

Lemma close_pool_calls st st' ob c :
  close_pool st = (st', ob) -> (cnt c (live (waiters st')) + nterm c ob = cnt c (live (waiters st)))%nat.
Proof.
  intros H. pose proof (close_pool_obs st) as Ho. rewrite H in Ho. cbn in Ho.
  destruct (close_pool_fields _ _ _ H) as (_ & Ew & _). subst ob. rewrite Ew, live_kill, nterm_app, nterm_close, nterm_fail.
  reflexivity.
Qed.

Lemma release_calls cf s st st' ob :
  release cf s st = (st', ob) ->
  lent st' = lent st /\ opening st' = opening st /\ ncall st' = ncall st /\
  forall c, (cnt c (live (waiters st')) + nterm c ob = cnt c (live (waiters st)))%nat.
Proof.
  unfold release. intros H. destruct (pstate st =? 4). { inversion H; subst; sset. splits; auto. }
  destruct (sstate st s =? 4).
  { destruct (close_pool (set_size (size st - 1) st)) as [st2 ob2] eqn:Ec. inversion H; subst; clear H. sset.
    destruct (close_pool_fields _ _ _ Ec) as (_ & _ & El & Eo & _ & _ & _ & En & _). sset. splits; auto.
    intros c. pose proof (close_pool_calls _ _ _ c Ec) as Hc. sset.
    change (ODropped s :: ob2) with ([ODropped s] ++ ob2). rewrite nterm_app. exact Hc. }
  destruct (waiters st) eqn:Ew. 2:{ inversion H; subst; sset. rewrite Ew. splits; auto. }
  destruct (size st <=? cmin cf); inversion H; subst; sset; rewrite Ew; splits; auto.
Qed.

Lemma process_queue_calls cf s st st' ob :
  process_queue cf s st = (st', ob) ->
  opening st' = opening st /\ ncall st' = ncall st /\
  forall c, (cnt c (map snd (lent st')) + cnt c (live (waiters st')) + nterm c ob
             = cnt c (map snd (lent st)) + cnt c (live (waiters st)))%nat.
Proof.
  unfold process_queue. intros H. destruct (waiters st) as [|w0 ws0] eqn:E0.
  { destruct (release_calls _ _ _ _ _ H) as (El & Eo & En & Hc). splits; auto. intros c. specialize (Hc c). rewrite E0 in Hc. rewrite El. lia. }
  rewrite <- E0 in *. pose proof (pq_loop_spec (waiters st)) as S. destruct (pq_loop (waiters st)) as [[c0|] ws'].
  - destruct S as (pre & E & F & _). inversion H; subst st' ob; clear H. sset. splits; auto. intros c.
    rewrite E, map_app, cnt_app, live_app, (live_dead _ F). cbn [map snd app].
    change (live ((c0, true) :: ws')) with (c0 :: live ws'). unfold cnt, nterm. cbn. destruct (Z.eq_dec c0 c); lia.
  - destruct S as (pre & E & F & N). specialize (N eq_refl). subst ws'. rewrite app_nil_r in E.
    destruct (release_calls _ _ _ _ _ H) as (El & Eo & En & Hc). sset. splits; auto. intros c.
    specialize (Hc c). rewrite El, E, (live_dead pre F). change (live []) with (@nil Z) in Hc. lia.
Qed.

Definition K (c : Z) (st : state) (tr : list obs) : nat := (nterm c tr + cnt c (active st))%nat.

Lemma live_cons_true x r : live ((x, true) :: r) = x :: live r. Proof. reflexivity. Qed.
Lemma live_cons_false x r : live ((x, false) :: r) = live r. Proof. reflexivity. Qed.
Lemma cnt_cons c x l : cnt c (x :: l) = if Z.eq_dec x c then S (cnt c l) else cnt c l. Proof. reflexivity. Qed.

Lemma live_mark_dead c1 ws c :
  cnt c (live (mark_dead c1 ws)) = if Z.eq_dec c1 c then 0%nat else cnt c (live ws).
Proof.
  induction ws as [|[x a] r IH].
  - cbn. destruct (Z.eq_dec c1 c); reflexivity.
  - change (mark_dead c1 ((x, a) :: r)) with ((if (x =? c1) && a then (x, false) else (x, a)) :: mark_dead c1 r).
    destruct a.
    + rewrite andb_true_r. destruct (Z.eqb_spec x c1) as [->|Ne].
      * rewrite live_cons_false, live_cons_true, cnt_cons, IH. destruct (Z.eq_dec c1 c); reflexivity.
      * rewrite !live_cons_true, !cnt_cons, IH. destruct (Z.eq_dec c1 c); destruct (Z.eq_dec x c); auto; congruence.
    + rewrite andb_false_r, !live_cons_false. exact IH.
Qed.

Lemma existsb_live c ws : existsb (fun w : Z * bool => (fst w =? c) && snd w) ws = true -> (1 <= cnt c (live ws))%nat.
Proof.
  induction ws as [|[x a] r IH]; cbn [existsb fst snd]; [discriminate|]. intros H. apply orb_true_iff in H as [H|H].
  - apply andb_true_iff in H as [H1 H2]. apply Z.eqb_eq in H1. subst. rewrite live_cons_true, cnt_cons.
    destruct (Z.eq_dec c c); [lia|congruence].
  - specialize (IH H). destruct a.
    + rewrite live_cons_true, cnt_cons. destruct (Z.eq_dec x c); lia.
    + rewrite live_cons_false. exact IH.
Qed.

Definition is_req (l : label) : bool := match l with Req => true | _ => false end.

Lemma nterm_one c o : nterm c [o] = if is_term c o then 1%nat else 0%nat.
Proof. unfold nterm. cbn. destruct (is_term c o); reflexivity. Qed.

Lemma ocalls_cons_some s c l : ocalls ((s, Some c) :: l) = c :: ocalls l. Proof. reflexivity. Qed.
Lemma ocalls_cons_none s l : ocalls ((s, None) :: l) = ocalls l. Proof. reflexivity. Qed.
Lemma ocalls_nil : ocalls [] = []. Proof. reflexivity. Qed.
Lemma live_nil : live [] = []. Proof. reflexivity. Qed.

Ltac fin_calls :=
  repeat rewrite ?map_app, ?cnt_app, ?nterm_app, ?live_app, ?ocalls_app, ?nterm_one, ?ocalls_cons_some,
                 ?ocalls_cons_none, ?ocalls_nil, ?live_nil, ?live_cons_true, ?live_cons_false;
  cbn [map snd fst app is_term];
  repeat rewrite ?cnt_cons; unfold cnt in *; cbn [count_occ];
  repeat match goal with
         | |- context [Z.eq_dec ?a ?b] => destruct (Z.eq_dec a b)
         | |- context [?a =? ?b] => destruct (Z.eqb_spec a b)
         end; cbn [andb]; try lia; try congruence.

Lemma step_calls cf st tr l st' ob :
  Inv cf [] st tr -> step cf st l = (st', ob) ->
  ncall st' = (if is_req l then ncall st + 1 else ncall st) /\
  forall c, (cnt c (active st') + nterm c ob
             <= cnt c (active st) + (if is_req l && Z.eqb c (ncall st) then 1 else 0))%nat.
Proof.
  intros I H. destruct l as [|s1|c1|c1|k|s1 v| |]; cbn [step] in H; cbn [is_req andb].
  - set (c0 := ncall st) in *. set (st0 := set_ncall (c0 + 1) st) in *.
    assert (I0 : Inv cf [] st0 tr).
    { destruct I as [C [R1 R2 R3 R4 R5 R6]]. split.
      - apply (core_same [] st tr); subst st0; sset; auto using incl_refl.
      - subst st0. constructor; sset; auto. eapply Forall_impl; [|exact R5]. cbn. intros. subst c0. lia. }
    destruct (get cf (Some c0) st0) as [[g st1] ob1] eqn:Eg.
    destruct (get_inv _ _ _ _ _ _ _ Eg I0) as (Ew & En & _ & El & _ & G).
    destruct (get_obs _ _ _ _ _ _ Eg) as (Go & _ & _).
    assert (N0 : forall c, nterm c ob1 = 0%nat) by (intros; now apply nterm_get).
    subst st0; sset.
    destruct g as [s2| | |]; inversion H; subst st' ob; clear H; sset; (split; [lia|]); intros c; unfold active; sset.
    + destruct G as (_ & Eo & _). rewrite El, Ew, Eo. sset. specialize (N0 c). fin_calls.
    + destruct G as (_ & Eo). rewrite El, Ew, Eo. sset. specialize (N0 c). fin_calls.
    + destruct G as (_ & Eo & _). rewrite El, Ew, Eo. sset. specialize (N0 c). fin_calls.
    + destruct G as (_ & Eo & _). rewrite El, Ew, Eo. sset. specialize (N0 c). fin_calls.
  - destruct (extract _ (opening st)) as [[[s' who] op']|] eqn:Ex.
    2:{ inversion H; subst. split; auto; intros c; cbn; lia. }
    destruct (extract_spec _ _ _ _ Ex) as (l1 & l2 & E1 & E2 & _ & _). destruct who as [c2|].
    + inversion H; subst st' ob; clear H. sset. split; auto. intros c. unfold active; sset. rewrite E1, E2. fin_calls.
    + destruct (release cf s1 (set_opening op' st)) as [st2 ob2] eqn:Er.
      destruct (release_calls _ _ _ _ _ Er) as (El & Eo & En & Hc). sset.
      unfold open_result in H. destruct (pstate st2 =? 4); inversion H; subst st' ob; clear H; sset;
        (split; [auto|]); intros c; specialize (Hc c); unfold active; sset; rewrite El, Eo, E1, E2; fin_calls.
  - destruct (extract _ (lent st)) as [[[s2 c'] le']|] eqn:Ex.
    2:{ inversion H; subst. split; auto; intros c; cbn; lia. }
    destruct (extract_spec _ _ _ _ Ex) as (l1 & l2 & E1 & E2 & Pc & _). cbn in Pc. apply Z.eqb_eq in Pc. subst c'.
    destruct (release cf s2 (set_lent le' st)) as [st1 ob1] eqn:Er.
    destruct (release_calls _ _ _ _ _ Er) as (El & Eo & En & Hc). sset.
    inversion H; subst st' ob; clear H. split; auto. intros c. specialize (Hc c). unfold active. rewrite El, Eo, E1, E2.
    fin_calls.
  - destruct (existsb _ (waiters st)) eqn:Ee.
    2:{ inversion H; subst. split; auto; intros c; cbn; lia. }
    inversion H; subst st' ob; clear H. sset. split; auto. intros c. unfold active; sset.
    pose proof (live_mark_dead c1 (waiters st) c) as Hm. pose proof (existsb_live _ _ Ee) as He.
    rewrite !cnt_app, Hm, nterm_one. cbn [is_term]. destruct (Z.eq_dec c1 c); destruct (Z.eqb_spec c1 c); try congruence; try lia.
    subst. lia.
  - destruct (extract_nth k (pq st)) as [[s0 pq']|].
    2:{ inversion H; subst. split; auto; intros c; cbn; lia. }
    destruct (process_queue_calls _ _ _ _ _ H) as (Eo & En & Hc). sset. split; auto. intros c. specialize (Hc c).
    unfold active. rewrite Eo, !cnt_app. sset. lia.
  - inversion H; subst. sset. split; auto; intros c; cbn; unfold active; sset; lia.
  - destruct (close_pool_fields _ _ _ H) as (_ & _ & El & Eo & _ & _ & _ & En & _). split; auto. intros c.
    pose proof (close_pool_calls _ _ _ c H) as Hc. unfold active. rewrite El, Eo, !cnt_app. lia.
  - destruct (pstate st =? 4) eqn:Ec4.
    { inversion H; subst st' ob; clear H. split; auto. }
    destruct (get cf None st) as [[g st1] ob1] eqn:Eg.
    destruct (get_inv _ _ _ _ _ _ _ Eg I) as (Ew & En & _ & El & _ & G).
    destruct (get_obs _ _ _ _ _ _ Eg) as (Go & _ & _).
    assert (N0 : forall c, nterm c ob1 = 0%nat) by (intros; now apply nterm_get).
    destruct g as [s2| | |].
    + destruct G as (_ & Eo & _). destruct (release cf s2 st1) as [st2 ob2] eqn:Er.
      destruct (release_calls _ _ _ _ _ Er) as (El2 & Eo2 & En2 & Hc).
      unfold open_result in H. destruct (pstate st2 =? 4); inversion H; subst st' ob; clear H; sset;
        (split; [congruence|]); intros c; specialize (Hc c); specialize (N0 c); unfold active; sset;
        rewrite ?El2, ?Eo2, ?El, ?Eo; rewrite Ew in Hc; fin_calls.
    + destruct G as (_ & Eo). inversion H; subst st' ob; clear H. split; auto. intros c. specialize (N0 c).
      unfold active. rewrite El, Ew, Eo. fin_calls.
    + destruct G as (_ & Eo & _). unfold open_result in H.
      destruct (pstate (release_noop st1) =? 4); inversion H; subst st' ob; clear H; sset;
        (split; [auto|]); intros c; specialize (N0 c); unfold active; sset; rewrite El, Ew, Eo; fin_calls.
    + destruct G as (_ & Eo & _). unfold open_result in H.
      destruct (pstate (release_noop st1) =? 4); inversion H; subst st' ob; clear H; sset;
        (split; [auto|]); intros c; specialize (N0 c); unfold active; sset; rewrite El, Ew, Eo; fin_calls.
Qed.

Lemma run_calls cf ls : forall st tr st' ob,
  run cf st ls = (st', ob) -> Inv cf [] st tr ->
  (forall c, (K c st tr <= 1)%nat) -> (forall c, ncall st <= c -> K c st tr = 0%nat) ->
  (forall c, (K c st' (tr ++ ob) <= 1)%nat) /\ (forall c, ncall st' <= c -> K c st' (tr ++ ob) = 0%nat).
Proof.
  induction ls as [|l r IH]; intros st tr st' ob H I K1 K0; cbn in H.
  - inversion H; subst. rewrite app_nil_r. auto.
  - destruct (step cf st l) as [st1 ob1] eqn:E1. destruct (run cf st1 r) as [st2 ob2] eqn:E2.
    inversion H; subst st' ob; clear H. rewrite app_assoc.
    destruct (step_calls _ _ _ _ _ _ I E1) as [En Hc].
    apply (IH _ _ _ _ E2 (step_inv _ _ _ _ _ _ E1 I)).
    + intros c. specialize (Hc c). specialize (K1 c). specialize (K0 c). unfold K in *. rewrite nterm_app.
      destruct (is_req l && (c =? ncall st)) eqn:Ei; [|lia].
      apply andb_true_iff in Ei as [_ Ei]. apply Z.eqb_eq in Ei.
      assert (nterm c tr = 0%nat /\ cnt c (active st) = 0%nat) as [Z1 Z2] by (specialize (K0 ltac:(lia)); lia). lia.
    + intros c Hge. specialize (Hc c). unfold K in *. rewrite nterm_app.
      assert (Hle : ncall st <= ncall st1) by (rewrite En; destruct (is_req l); lia).
      specialize (K0 c ltac:(lia)).
      destruct (is_req l && (c =? ncall st)) eqn:Ei; [|lia].
      apply andb_true_iff in Ei as [Er Ei]. apply Z.eqb_eq in Ei. rewrite Er in En. lia.
Qed.

Lemma reach_calls cf ls st tr :
  0 <= cmax cf -> reach cf ls = (st, tr) ->
  (forall c, (nterm c tr + cnt c (active st) <= 1)%nat) /\
  (forall c, ncall st <= c -> nterm c tr = 0%nat /\ ~ In c (active st)).
Proof.
  intros Hm H. destruct (run_calls cf ls init [] st tr H (init_inv cf Hm)) as [K1 K0].
  - intros c. cbn. lia.
  - intros c _. reflexivity.
  - cbn [app] in *. split; [exact K1|]. intros c Hc. specialize (K0 c Hc). unfold K in K0. split; [lia|].
    intros Hi. unfold cnt in K0. assert (count_occ Z.eq_dec (active st) c > 0)%nat by (now apply count_occ_In). lia.
Qed.
