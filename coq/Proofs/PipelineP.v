(* Proofs about the expiry guards in front of the wire (C12). *)
From Scales Require Import Model.Base Model.Pipeline.
From Coq Require Import ZifyBool.
Local Open Scope Z_scope.

Definition is_gone_or_serial_wire (q : pos) : bool :=
  match q with Gone | OnWire None => true | _ => false end.

Record Inv (s : st) : Prop := {
  inv_handed : handed s = true -> deadline s <= now s /\ (evt s = true \/ is_gone_or_serial_wire (p s) = true);
  inv_evt : evt s = true -> deadline s <= now s;
  inv_once : (length (writes s) <= 1)%nat /\
             (writes s <> [] -> exists g, p s = OnWire g);
  inv_disc : (forall g, In g (discards s) -> p s = OnWire (Some g)) /\
             (forall g, owed s = Some g -> p s = OnWire (Some g) /\ evt s = true);
  inv_sub : subscribed s = true -> exists g, p s = OnWire (Some g);
  inv_notif : notif s = true -> evt s = true;
}.

Lemma inv_init t : Inv (init t).
Proof.
  constructor; cbn; try discriminate.
  - split; [lia|]. intros X. congruence.
  - split; [intros g []|intros g X; discriminate].
Qed.

Ltac inv_step_tac :=
  match goal with
  | H : Some _ = Some _ |- _ => inversion H; subst; clear H
  end.

Lemma step_inv s l s' : Inv s -> step s l = Some s' -> Inv s'.
Proof.
  intros [Ih Ie Io Id Is Inn] H. destruct Io as [Io1 Io2]. destruct Id as [Id1 Id2].
  destruct l as [dl|t| | | | | |tag| | | | | | |tag|]; cbn in H.
  - (* Enter *)
    destruct (p s) eqn:P; try discriminate.
    destruct (Z.ltb_spec dl (now s)); inv_step_tac; constructor; cbn; try discriminate.
    + intros _. split; [lia|]. right. reflexivity.
    + split; [lia|]. intros X. congruence.
    + split; [intros g []|intros g X; discriminate].
    + split; [lia|]. intros X. congruence.
    + split; [intros g []|intros g X; discriminate].
  - (* Tick *)
    destruct (Z.ltb_spec t (now s)); [discriminate|]. inv_step_tac. constructor; cbn.
    + intros X. destruct (Ih X) as [A B]. split; [lia|exact B].
    + intros X. specialize (Ie X). lia.
    + split; assumption.
    + split; assumption.
    + exact Is.
    + exact Inn.
  - (* OuterTimeout *)
    destruct (p s) eqn:P; try discriminate. inv_step_tac. constructor; cbn; try discriminate.
    + intros _. split; [lia|]. right. reflexivity.
    + split; [lia|]. intros X. congruence.
    + split; [intros g []|intros g X; discriminate].
  - (* Fire *)
    destruct (not_entered (p s) || (now s <? deadline s) || evt s) eqn:G; [discriminate|].
    apply orb_false_iff in G as [G G3]. apply orb_false_iff in G as [G1 G2].
    inv_step_tac. constructor; cbn.
    + intros X. destruct (Ih X) as [A _]. split; [exact A|left; reflexivity].
    + intros _. lia.
    + split; [exact Io1|exact Io2].
    + split; [exact Id1|]. intros g X. destruct (Id2 g X) as [Y _]. split; [exact Y|reflexivity].
    + discriminate.
    + intros _. reflexivity.
  - (* TimedOut *)
    destruct (evt s) eqn:E; [|discriminate]. destruct (completed s); [discriminate|]. cbn in H. inv_step_tac.
    constructor; cbn; rewrite ?E; try assumption; try (split; assumption).
    intros _. split; [exact (Ie eq_refl)|left; reflexivity].
  - (* Complete *)
    destruct (not_entered (p s) || completed s); [discriminate|]. inv_step_tac.
    constructor; cbn; try assumption; try (split; assumption).
  - (* ToSerial *)
    destruct (p s) eqn:P; try discriminate. inv_step_tac. constructor; cbn; try discriminate; try exact Inn.
    + intros X. destruct (Ih X) as [A [B|B]]; [split; [exact A|left; exact B]|cbn in B; discriminate].
    + exact Ie.
    + split; [exact Io1|]. intros X. destruct (Io2 X) as [g Y]. discriminate.
    + split.
      * intros g X. specialize (Id1 g X). discriminate.
      * intros g X. destruct (Id2 g X) as [Y _]. discriminate.
  - (* ToSendQ *)
    destruct (p s) eqn:P; try discriminate. inv_step_tac. constructor; cbn; try discriminate; try exact Inn.
    + intros X. destruct (Ih X) as [A [B|B]]; [split; [exact A|left; exact B]|cbn in B; discriminate].
    + exact Ie.
    + split; [exact Io1|]. intros X. destruct (Io2 X) as [g Y]. discriminate.
    + split.
      * intros g X. specialize (Id1 g X). discriminate.
      * intros g X. destruct (Id2 g X) as [Y _]. discriminate.
  - (* Write *)
    destruct (p s) eqn:P; try discriminate.
    + destruct (Z.leb_spec (deadline s - now s) 0); [discriminate|]. inv_step_tac.
      assert (W : writes s = []).
      { destruct (writes s) eqn:E; [reflexivity|]. destruct Io2 as [g Y]; [discriminate|discriminate]. }
      constructor; cbn; try discriminate; try exact Inn.
      * intros X. destruct (Ih X) as [A _]. lia.
      * exact Ie.
      * rewrite W. cbn. split; [lia|]. intros _. eexists. reflexivity.
      * split.
        -- intros g X. specialize (Id1 g X). discriminate.
        -- intros g X. destruct (Id2 g X) as [Y _]. discriminate.
    + destruct (evt s) eqn:E; [discriminate|]. inv_step_tac.
      assert (W : writes s = []).
      { destruct (writes s) eqn:E2; [reflexivity|]. destruct Io2 as [g Y]; [discriminate|discriminate]. }
      constructor; cbn; try exact Inn.
      * intros X. destruct (Ih X) as [A [B|B]]; [congruence|cbn in B; discriminate].
      * intros X. congruence.
      * rewrite W. cbn. split; [lia|]. intros _. eexists. reflexivity.
      * split.
        -- intros g X. specialize (Id1 g X). discriminate.
        -- intros g X. destruct (Id2 g X) as [Y _]. discriminate.
      * intros _. eexists. reflexivity.
  - (* NoWrite *)
    destruct (p s) eqn:P; try discriminate.
    + destruct (Z.leb_spec (deadline s - now s) 0); [|discriminate]. inv_step_tac. constructor; cbn; try discriminate; try exact Inn.
      * intros _. split; [lia|right; reflexivity].
      * intros X. lia.
      * split; [exact Io1|]. intros X. destruct (Io2 X) as [g Y]. discriminate.
      * split.
        -- intros g X. specialize (Id1 g X). discriminate.
        -- intros g X. destruct (Id2 g X) as [Y _]. discriminate.
    + destruct (evt s) eqn:E; [|discriminate]. inv_step_tac. constructor; cbn; try discriminate; try exact Inn.
      * intros X. destruct (Ih X) as [A _]. split; [exact A|right; reflexivity].
      * intros _. exact (Ie eq_refl).
      * split; [exact Io1|]. intros X. destruct (Io2 X) as [g Y]. discriminate.
      * split.
        -- intros g X. specialize (Id1 g X). discriminate.
        -- intros g X. destruct (Id2 g X) as [Y _]. discriminate.
  - (* SerialTimeout *)
    destruct (p s) as [| | | |[tg|]|] eqn:P; try discriminate.
    destruct ((now s <? deadline s) || completed s) eqn:G; [discriminate|].
    apply orb_false_iff in G as [G1 G2]. inv_step_tac. constructor; cbn; try discriminate; try exact Inn.
    + intros _. split; [lia|right; reflexivity].
    + intros X. lia.
    + split; [exact Io1|]. intros _. eexists. reflexivity.
    + split.
      * intros g X. specialize (Id1 g X). discriminate.
      * intros g X. destruct (Id2 g X) as [Y _]. discriminate.
  - (* Notify *)
    destruct (evt s) eqn:Ev; [|discriminate]. inv_step_tac.
    constructor; cbn; rewrite ?Ev; try assumption; try discriminate.
    + split; assumption.
    + split; [exact Id1|]. intros g X.
      destruct (p s) as [| | | |[tg|]|] eqn:P; try (destruct (Id2 g X) as [Y _]; discriminate).
      destruct (notif s && tagkey s && conn_open s).
      * inversion X; subst. split; reflexivity.
      * destruct (Id2 g X) as [Y Z0]. split; assumption.
  - (* Answered *)
    destruct (p s) as [| | | |[tg|]|] eqn:P; try discriminate. inv_step_tac.
    constructor; cbn; rewrite ?P; try assumption; try (split; assumption).
  - (* ConnClosed *)
    inv_step_tac. constructor; cbn; try assumption; try discriminate.
    + split; assumption.
    + split; [exact Id1|intros g X; discriminate].
  - (* Discard *)
    destruct (owed s) as [g|] eqn:O; [|discriminate]. destruct (Z.eqb_spec g tag); [|discriminate]. subst g.
    inv_step_tac. destruct (Id2 tag eq_refl) as [Y Z0]. constructor; cbn; try assumption.
    + split; assumption.
    + split; [|intros g X; discriminate]. intros g [X|X]; [subst; exact Y|exact (Id1 g X)].
  - (* WriteDone: no state change *)
    destruct (p s) as [| | | |[g|]|] eqn:P; try discriminate.
    destruct ((deadline s <? now s) || negb (conn_open s)); [discriminate|]. inversion H; subst s'.
    constructor; rewrite ?P; [exact Ih|exact Ie|split; assumption|split; assumption|exact Is|exact Inn].
Qed.

Lemma run_inv : forall ls s s', Inv s -> run s ls = Some s' -> Inv s'.
Proof.
  induction ls as [|l ls IH]; intros s s' I H; cbn in H.
  - inversion H; subst. assumption.
  - destruct (step s l) as [s1|] eqn:E; [|discriminate]. eapply IH; [|eassumption]. eapply step_inv; eassumption.
Qed.

(* once the caller has been handed TimeoutError, no request byte can be written *)
Lemma no_write_after_timeout t ls s : run (init t) ls = Some s -> handed s = true -> step s Write = None.
Proof.
  intros H Hh. pose proof (run_inv ls _ _ (inv_init t) H) as I.
  destruct (inv_handed s I Hh) as [A B]. cbn. destruct (p s) eqn:P; try reflexivity.
  - destruct (Z.leb_spec (deadline s - now s) 0); [reflexivity|lia].
  - destruct B as [B|B]; [rewrite B; reflexivity|cbn in B; discriminate].
Qed.

(* a request is written at most once, and only from a transport position *)
Lemma written_at_most_once t ls s : run (init t) ls = Some s -> (length (writes s) <= 1)%nat.
Proof. intros H. exact (proj1 (inv_once s (run_inv ls _ _ (inv_init t) H))). Qed.

(* every discard names the tag the request was written with *)
Lemma discard_names_own_tag t ls s g : run (init t) ls = Some s -> In g (discards s) -> p s = OnWire (Some g).
Proof. intros H Hin. exact (proj1 (inv_disc s (run_inv ls _ _ (inv_init t) H)) g Hin). Qed.

(* the timer firing on a subscribed, written mux request whose peer has not answered and whose connection
   is open: the notifier then queues the discard naming the request's tag *)
Lemma fire_queues_discard s s1 s2 tag : p s = OnWire (Some tag) -> subscribed s = true -> tagkey s = true ->
  conn_open s = true -> step s Fire = Some s1 -> step s1 Notify = Some s2 ->
  owed s2 = Some tag /\ evt s2 = true.
Proof.
  intros P Sb Tk Co H1 H2. cbn in H1.
  destruct (not_entered (p s) || (now s <? deadline s) || evt s); [discriminate|].
  inversion H1; subst; clear H1. cbn in H2. rewrite Sb in H2. inversion H2; subst; clear H2. cbn.
  rewrite P, Tk, Co. split; reflexivity.
Qed.

(* ... and the obligation stays until the discard is written or the connection is closed *)
Lemma owed_persists s l s' g : Inv s -> step s l = Some s' -> owed s = Some g ->
  owed s' = Some g \/ l = Discard g \/ l = ConnClosed.
Proof.
  intros I H O. destruct (proj2 (inv_disc s I) g O) as [P E].
  destruct l as [dl|t| | | | | |tag| | | | | | |tag|]; cbn in H; rewrite ?P, ?E in H; cbn in H; try discriminate.
  - destruct (t <? now s); [discriminate|]. inversion H; subst. left. exact O.
  - rewrite !orb_true_r in H. discriminate.
  - destruct (completed s); [discriminate|]. cbn in H. inversion H; subst. left. exact O.
  - destruct (completed s); [discriminate|]. inversion H; subst. left. exact O.
  - inversion H; subst. cbn. left.
    destruct (notif s && tagkey s && conn_open s); [|exact O]. reflexivity.
  - inversion H; subst. left. exact O.
  - right. right. reflexivity.
  - rewrite O in H. destruct (Z.eqb_spec g tag); [|discriminate]. subst. right. left. reflexivity.
Qed.

(* a frame dropped from the send queue is never written *)
Lemma dropped_unsent s s' tag : p s = InSendQ tag -> step s NoWrite = Some s' ->
  p s' = Gone /\ writes s' = writes s /\ forall ls s'', run s' ls = Some s'' -> writes s'' = writes s'.
Proof.
  intros P H. cbn in H. rewrite P in H. destruct (evt s); [|discriminate]. inversion H; subst; clear H. cbn.
  split; [reflexivity|]. split; [reflexivity|].
  assert (G : forall ls a b, p a = Gone -> run a ls = Some b -> p b = Gone /\ writes b = writes a).
  { induction ls as [|l ls IH]; intros a b Pa R; cbn in R.
    - inversion R; subst. auto.
    - destruct (step a l) as [a1|] eqn:E; [|discriminate].
      assert (X : p a1 = Gone /\ writes a1 = writes a).
      { destruct l; cbn in E; rewrite ?Pa in E; cbn in E; try discriminate.
        - destruct (t <? now a); [discriminate|]. inversion E; subst. auto.
        - destruct ((now a <? deadline a) || evt a); [discriminate|]. inversion E; subst. cbn. auto.
        - destruct (evt a && negb (completed a)); [|discriminate]. inversion E; subst. auto.
        - destruct (completed a); [discriminate|]. inversion E; subst. auto.
        - destruct (evt a); [|discriminate]. inversion E; subst. cbn. auto.
        - inversion E; subst. auto.
        - destruct (owed a); [|discriminate]. destruct (z =? tag0); [|discriminate]. inversion E; subst. auto. }
      destruct X as [X1 X2]. destruct (IH a1 b X1 R) as [Y1 Y2]. split; [exact Y1|congruence]. }
  intros ls s'' R. refine (proj2 (G ls _ _ _ R)). reflexivity.
Qed.

(* the serial transport's frame reaches the peer complete only while the deadline has not passed, and its arrival
   changes nothing in the call's state *)
Lemma write_done_by_deadline s s' : step s WriteDone = Some s' ->
  p s = OnWire None /\ now s <= deadline s /\ conn_open s = true /\ s' = s.
Proof.
  cbn. destruct (p s) as [| | | |[g|]|]; try discriminate.
  destruct (Z.ltb_spec (deadline s) (now s)) as [L|L]; cbn; [discriminate|].
  destruct (conn_open s); cbn; [|discriminate]. intros E. inversion E; subst. repeat split; auto.
Qed.
