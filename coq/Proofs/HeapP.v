(* Lemmas about the array heap of Model/Heap.v: FixUp / FixDown restore the heap order, frame and
   permutation facts, removal of an arbitrary position (the place where pre-finding F3 lived: FixDown
   alone is not enough, FixUp of the swapped-in element is needed). *)
From Coq Require Import ZArith List Bool Lia Arith PeanoNat Permutation.
From Coq Require Import ZifyBool ZifyNat.
From Scales Require Import Model.Heap.
Ltac Zify.zify_post_hook ::= Z.div_mod_to_equations.
Import ListNotations.
Local Open Scope nat_scope.

Section ArrA.
Variable A : Type.
Notation arr := (nat -> A).

Lemma swap_spec (f : arr) i j k :
  swap f i j k = if Nat.eqb k j then f i else if Nat.eqb k i then f j else f k.
Proof. reflexivity. Qed.

Lemma of_fun_length (f : arr) n : length (of_fun f n) = n.
Proof. unfold of_fun. rewrite map_length, seq_length. reflexivity. Qed.

Lemma of_fun_ext (f g : arr) n : (forall i, 1 <= i <= n -> f i = g i) -> of_fun f n = of_fun g n.
Proof.
  intros E. unfold of_fun. apply map_ext_in. intros a Ha. apply in_seq in Ha. apply E. lia.
Qed.

Lemma in_of_fun (f : arr) n y : In y (of_fun f n) <-> exists p, 1 <= p <= n /\ y = f p.
Proof.
  unfold of_fun. rewrite in_map_iff. split.
  - intros (p & E & Hp). apply in_seq in Hp. exists p. split; [lia|congruence].
  - intros (p & Hp & E). exists p. split; [congruence|]. apply in_seq. lia.
Qed.

Lemma of_fun_S (f : arr) n : of_fun f (S n) = of_fun f n ++ [f (S n)].
Proof. unfold of_fun. rewrite seq_S, map_app. reflexivity. Qed.

(* a transposition of two positions is a permutation of the list *)
Lemma swap_perm (f : arr) n i j :
  1 <= i <= n -> 1 <= j <= n -> Permutation (of_fun (swap f i j) n) (of_fun f n).
Proof.
  intros Hi Hj.
  set (sg := fun k => if Nat.eqb k j then i else if Nat.eqb k i then j else k).
  assert (E : forall k, swap f i j k = f (sg k)).
  { intros k. rewrite swap_spec. unfold sg. destruct (Nat.eqb k j); [reflexivity|]. destruct (Nat.eqb k i); reflexivity. }
  assert (P : Permutation (map sg (seq 0 (S n))) (seq 0 (S n))).
  { apply nat_bijection_Permutation.
    - intros k Hk. unfold sg. destruct (Nat.eqb_spec k j); [lia|]. destruct (Nat.eqb_spec k i); lia.
    - intros a b. unfold sg.
      destruct (Nat.eqb_spec a j); destruct (Nat.eqb_spec a i); destruct (Nat.eqb_spec b j); destruct (Nat.eqb_spec b i); lia. }
  apply (Permutation_map f) in P. rewrite map_map in P.
  cbn [seq map] in P. unfold sg at 1 in P.
  destruct (Nat.eqb_spec 0 j); [lia|]. destruct (Nat.eqb_spec 0 i); [lia|].
  apply Permutation_cons_inv in P.
  unfold of_fun. erewrite map_ext; [exact P|]. intros k. apply E.
Qed.

End ArrA.

Section ArrD.
Variable A : Type.
Variable d : A.
Notation arr := (nat -> A).

Lemma to_fun_of_fun (f : arr) n i : 1 <= i <= n -> to_fun d (of_fun f n) i = f i.
Proof.
  intros Hi. destruct i as [|k]; [lia|]. unfold to_fun, of_fun.
  rewrite nth_indep with (d' := f 0) by (rewrite map_length, seq_length; lia).
  rewrite map_nth. rewrite seq_nth by lia. reflexivity.
Qed.

Lemma of_fun_to_fun (l : list A) : of_fun (to_fun d l) (length l) = l.
Proof.
  induction l as [|x l IH]; [reflexivity|].
  unfold of_fun in *. cbn [length seq map]. f_equal.
  rewrite <- seq_shift, map_map. rewrite <- IH at 2. apply map_ext_in. intros a Ha. apply in_seq in Ha.
  destruct a as [|k]; [lia|reflexivity].
Qed.

Lemma in_to_fun (l : list A) p : 1 <= p <= length l -> In (to_fun d l p) l.
Proof. intros Hp. destruct p as [|k]; [lia|]. cbn [to_fun]. apply nth_In. lia. Qed.

Lemma to_fun_app_last (l : list A) x p :
  to_fun d (l ++ [x]) p = if Nat.eqb p (S (length l)) then x else to_fun d l p.
Proof.
  destruct p as [|k]; [reflexivity|]. cbn [to_fun].
  destruct (Nat.eqb_spec (S k) (S (length l))) as [E|E].
  - inversion E; subst. rewrite app_nth2 by lia. rewrite Nat.sub_diag. reflexivity.
  - destruct (Nat.lt_ge_cases k (length l)).
    + rewrite app_nth1 by lia. reflexivity.
    + rewrite !nth_overflow; [reflexivity|lia|rewrite app_length; cbn; lia].
Qed.


End ArrD.

Section HeapP.
Variable A : Type.
Variable key : A -> Z.

Notation arr := (nat -> A).

Ltac sw := repeat (rewrite swap_spec in * );
  repeat match goal with
  | |- context [Nat.eqb ?a ?b] => destruct (Nat.eqb_spec a b); try lia
  | H : context [Nat.eqb ?a ?b] |- _ => destruct (Nat.eqb_spec a b); try lia
  end.

(* Node.__lt__ on (load, position) *)
Lemma lt_spec (f : arr) i j :
  lt key f i j = if Nat.ltb i j then Z.leb (key (f i)) (key (f j)) else Z.ltb (key (f i)) (key (f j)).
Proof.
  unfold lt.
  destruct (Z.ltb_spec (key (f j)) (key (f i))); destruct (Z.ltb_spec (key (f i)) (key (f j)));
    destruct (Nat.ltb_spec i j); lia.
Qed.

Definition le_at (f : arr) (p c : nat) : Prop := (key (f p) <= key (f c))%Z.

(* the heap order on positions 1..n *)
Definition ok (f : arr) (n : nat) : Prop := forall i, 2 <= i <= n -> le_at f (i / 2) i.

(* ... except that position k may be smaller than its parent *)
Definition ok_up (f : arr) (n k : nat) : Prop :=
  (forall i, 2 <= i <= n -> i <> k -> le_at f (i / 2) i) /\
  (forall c, 2 <= c <= n -> c / 2 = k -> 2 <= k -> le_at f (k / 2) c).

(* ... except that position k may be larger than its children *)
Definition ok_down (f : arr) (n k : nat) : Prop :=
  (forall i, 2 <= i <= n -> i / 2 <> k -> le_at f (i / 2) i) /\
  (forall c, 2 <= c <= n -> c / 2 = k -> 2 <= k -> le_at f (k / 2) c).

Lemma fix_up_ok : forall fuel f n k,
  1 <= k <= n -> k <= fuel -> ok_up f n k -> ok (fix_up key fuel f k) n.
Proof.
  induction fuel as [|fu IH]; intros f n k Hk Hf [H1 H2]; [lia|].
  cbn [fix_up]. destruct (Nat.eqb_spec k 1) as [->|Hk1]; cbn [negb andb].
  - intros i Hi. apply H1; lia.
  - rewrite lt_spec.
    assert (Hp : k / 2 < k) by (apply Nat.div_lt; lia).
    destruct (Nat.ltb_spec k (k / 2)) as [Hbad|_]; [lia|].
    destruct (Z.ltb_spec (key (f k)) (key (f (k / 2)))) as [Hlt|Hge].
    + assert (Hp1 : 1 <= k / 2) by lia.
      apply IH; [lia|lia|]. split.
      * intros i Hi Hne. unfold le_at.
        destruct (Nat.eq_dec i k) as [->|Hik].
        { sw. }
        destruct (Nat.eq_dec (i / 2) k) as [Hpk|Hpk].
        { rewrite Hpk. sw. apply H2; lia. }
        destruct (Nat.eq_dec (i / 2) (k / 2)) as [Hpp|Hpp].
        { rewrite Hpp. sw. specialize (H1 i Hi Hik). unfold le_at in H1. rewrite Hpp in H1. lia. }
        sw. apply H1; lia.
      * intros c Hc Hck Hk2. unfold le_at.
        assert (Hg : le_at f ((k / 2) / 2) (k / 2)) by (apply H1; lia).
        unfold le_at in Hg.
        destruct (Nat.eq_dec c k) as [->|Hck'].
        { sw. }
        sw. specialize (H1 c Hc Hck'). unfold le_at in H1. rewrite Hck in H1. lia.
    + intros i Hi. destruct (Nat.eq_dec i k) as [->|]; [unfold le_at; lia| apply H1; lia].
Qed.

Lemma fix_down_ok : forall fuel f n k,
  1 <= k -> n < k + fuel -> ok_down f n k -> ok (fix_down key fuel f k n) n.
Proof.
  induction fuel as [|fu IH]; intros f n k Hk Hf [H1 H2].
  - intros i Hi. apply H1; lia.
  - cbn [fix_down]. destruct (Nat.ltb_spec n (2 * k)) as [Hn|Hn].
    + intros i Hi. apply H1; lia.
    + set (m := if Nat.eqb n (2 * k) || lt key f (2 * k) (2 * k + 1) then 2 * k else 2 * k + 1).
      assert (Hm : (m = 2 * k \/ m = 2 * k + 1) /\ m <= n /\ m / 2 = k /\
                   (forall c, 2 <= c <= n -> c / 2 = k -> (key (f m) <= key (f c))%Z)).
      { subst m. rewrite lt_spec. destruct (Nat.ltb_spec (2 * k) (2 * k + 1)) as [_|Hbad]; [|lia].
        destruct (Nat.eqb_spec n (2 * k)); cbn [orb].
        - repeat split; try lia. intros c Hc Hck. replace c with (2 * k) by lia. lia.
        - destruct (Z.leb_spec (key (f (2 * k))) (key (f (2 * k + 1)))).
          + repeat split; try lia. intros c Hc Hck.
            assert (c = 2 * k \/ c = 2 * k + 1) as [->| ->] by lia; lia.
          + repeat split; try lia. intros c Hc Hck.
            assert (c = 2 * k \/ c = 2 * k + 1) as [->| ->] by lia; lia. }
      clearbody m. destruct Hm as (Hm1 & Hm2 & Hm3 & Hm4).
      rewrite lt_spec. destruct (Nat.ltb_spec m k) as [Hbad|_]; [lia|].
      destruct (Z.ltb_spec (key (f m)) (key (f k))) as [Hlt|Hge].
      * apply IH; [lia|lia|]. split.
        -- intros i Hi Hne. unfold le_at.
           destruct (Nat.eq_dec i m) as [->|Him].
           { rewrite Hm3. sw. }
           destruct (Nat.eq_dec (i / 2) k) as [Hpk|Hpk].
           { rewrite Hpk. sw. apply Hm4; lia. }
           destruct (Nat.eq_dec i k) as [->|Hik].
           { sw. assert (2 <= k) by lia. specialize (H2 m ltac:(lia) Hm3 ltac:(lia)). unfold le_at in H2. lia. }
           sw. apply H1; lia.
        -- intros c Hc Hcm Hm2'. unfold le_at. rewrite Hm3.
           sw. assert (Hx : le_at f (c / 2) c) by (apply H1; lia). unfold le_at in Hx. rewrite Hcm in Hx. lia.
      * intros i Hi. destruct (Nat.eq_dec (i / 2) k) as [Hik|Hik].
        -- unfold le_at. rewrite Hik. specialize (Hm4 i Hi Hik). lia.
        -- apply H1; lia.
Qed.

Lemma ok_ok_up f n k : ok f n -> ok_up f n k.
Proof.
  intros H. split.
  - intros i Hi _. apply H; exact Hi.
  - intros c Hc Hck Hk. unfold le_at.
    assert (H1 : le_at f (c / 2) c) by (apply H; lia).
    assert (H2 : le_at f (k / 2) k) by (apply H; lia).
    unfold le_at in *. rewrite Hck in H1. lia.
Qed.

Lemma ok_ok_down f n k : ok f n -> ok_down f n k.
Proof. intros H. destruct (ok_ok_up f n k H) as [_ H2]. split; [|exact H2]. intros i Hi _. apply H; exact Hi. Qed.

Lemma ok_shrink f n m : m <= n -> ok f n -> ok f m.
Proof. intros Hm H i Hi. apply H. lia. Qed.

(* ok depends only on the positions 1..n *)
Lemma ok_ext f g n : (forall i, 1 <= i <= n -> f i = g i) -> ok f n -> ok g n.
Proof.
  intros E H i Hi. unfold le_at. rewrite <- !E by lia. apply H; exact Hi.
Qed.

Lemma ok_root_min f n : ok f n -> forall i, 1 <= i <= n -> (key (f 1%nat) <= key (f i))%Z.
Proof.
  intros H i. induction i as [i IH] using lt_wf_ind. intros Hi.
  destruct (Nat.eq_dec i 1) as [->|Hne]; [lia|].
  assert (H1 : le_at f (i / 2) i) by (apply H; lia). unfold le_at in H1.
  assert (H2 : (key (f 1%nat) <= key (f (i / 2)%nat))%Z) by (apply IH; lia). lia.
Qed.

(* frame *)
Lemma fix_up_frame : forall fuel f i p, i < p -> fix_up key fuel f i p = f p.
Proof.
  induction fuel as [|fu IH]; intros f i p Hp; [reflexivity|].
  cbn [fix_up]. destruct (negb (Nat.eqb i 1) && lt key f i (i / 2)); [|reflexivity].
  rewrite IH by lia. sw; reflexivity.
Qed.

Lemma fix_down_frame : forall fuel f i j p, 1 <= i -> (p < i \/ j < p) -> fix_down key fuel f i j p = f p.
Proof.
  induction fuel as [|fu IH]; intros f i j p Hi Hp; [reflexivity|].
  cbn [fix_down]. destruct (Nat.ltb_spec j (2 * i)) as [Hn|Hn]; [reflexivity|].
  set (m := if Nat.eqb j (2 * i) || lt key f (2 * i) (2 * i + 1) then 2 * i else 2 * i + 1).
  assert (Hm : i < m <= j).
  { subst m. destruct (Nat.eqb_spec j (2 * i)); cbn [orb]; [lia|].
    destruct (lt key f (2 * i) (2 * i + 1)); lia. }
  clearbody m. destruct (lt key f m i); [|reflexivity].
  rewrite IH by lia. sw; reflexivity.
Qed.

(* FixDown does nothing at a position that is not larger than its children *)
Lemma fix_down_id : forall fuel f i j, 1 <= i ->
  (forall c, 2 <= c <= j -> c / 2 = i -> (key (f i) <= key (f c))%Z) ->
  fix_down key fuel f i j = f.
Proof.
  intros [|fu] f i j Hi H; [reflexivity|].
  cbn [fix_down]. destruct (Nat.ltb_spec j (2 * i)) as [Hn|Hn]; [reflexivity|].
  set (m := if Nat.eqb j (2 * i) || lt key f (2 * i) (2 * i + 1) then 2 * i else 2 * i + 1).
  assert (Hm : (m = 2 * i \/ m = 2 * i + 1) /\ m <= j).
  { subst m. destruct (Nat.eqb_spec j (2 * i)); cbn [orb]; [lia|].
    destruct (lt key f (2 * i) (2 * i + 1)); lia. }
  clearbody m. rewrite lt_spec. destruct (Nat.ltb_spec m i); [lia|].
  assert ((key (f i) <= key (f m))%Z) by (apply H; lia).
  destruct (Z.ltb_spec (key (f m)) (key (f i))); [lia|reflexivity].
Qed.

(* A "hole": position i of a heap of size n holds an arbitrary element (everything not involving i is in
   order, and the parent of i is below the children of i).  FixDown(i, n) leaves at most position i
   smaller than its parent; FixUp(i) then restores the order.  (FixDown alone does not: F3.) *)
Definition hole (f : arr) (n i : nat) : Prop :=
  (forall p, 2 <= p <= n -> p <> i -> p / 2 <> i -> le_at f (p / 2) p) /\
  (forall c, 2 <= c <= n -> c / 2 = i -> 2 <= i -> le_at f (i / 2) c).

Lemma hole_fix_down f n i fuel :
  1 <= i <= n -> n <= fuel -> hole f n i -> ok_up (fix_down key fuel f i n) n i.
Proof.
  intros Hi Hfu [H1 H2].
  destruct (Nat.eq_dec i 1) as [->|Hi1].
  - apply ok_ok_up. apply fix_down_ok; [lia|lia|]. split; [|intros; lia].
    intros p Hp Hne. apply H1; [lia| |lia]. intros ->. lia.
  - destruct (Z.le_gt_cases (key (f (i / 2))) (key (f i))) as [Hge|Hlt].
    + apply ok_ok_up. apply fix_down_ok; [lia|lia|]. split; [|exact H2].
      intros p Hp Hne. destruct (Nat.eq_dec p i) as [->|Hpi]; [exact Hge|]. apply H1; lia.
    + rewrite fix_down_id.
      * split; [|exact H2].
        intros p Hp Hne. destruct (Nat.eq_dec (p / 2) i) as [Hpi|Hpi].
        -- assert (Hx : le_at f (i / 2) p) by (apply H2; lia). unfold le_at in *. rewrite Hpi. lia.
        -- apply H1; lia.
      * lia.
      * intros c Hc Hci. assert (Hx : le_at f (i / 2) c) by (apply H2; lia). unfold le_at in Hx. lia.
Qed.

Lemma replace_restores f n i :
  1 <= i <= n -> hole f n i -> ok (fix_up key i (fix_down key n f i n) i) n.
Proof. intros Hi H. apply fix_up_ok; [lia|lia|]. apply hole_fix_down; [lia|lia|exact H]. Qed.

(* a heap with the element at position i replaced by anything is a hole at i *)
Lemma ok_hole f n i x : ok f n -> hole (upd f i x) n i.
Proof.
  intros H. split.
  - intros p Hp Hne Hne2. unfold le_at, upd.
    destruct (Nat.eqb_spec (p / 2) i); [lia|]. destruct (Nat.eqb_spec p i); [lia|]. apply H; lia.
  - intros c Hc Hci Hi. unfold le_at, upd.
    assert (i / 2 < i) by (apply Nat.div_lt; lia).
    destruct (Nat.eqb_spec (i / 2) i); [lia|]. destruct (Nat.eqb_spec c i); [lia|].
    assert (H1 : le_at f (c / 2) c) by (apply H; lia).
    assert (H2 : le_at f (i / 2) i) by (apply H; lia). unfold le_at in *. rewrite Hci in H1. lia.
Qed.

Lemma hole_ext f g n i : (forall p, 1 <= p <= n -> f p = g p) -> 1 <= i <= n -> hole f n i -> hole g n i.
Proof.
  intros E Hi [H1 H2]. split.
  - intros p Hp Hne Hne2. unfold le_at. rewrite <- !E by lia. apply H1; assumption.
  - intros c Hc Hci Hi2. unfold le_at. rewrite <- !E by lia. apply H2; assumption.
Qed.

Lemma ok_up_ext f g n k :
  (forall i, 1 <= i <= n -> f i = g i) -> 1 <= k <= n -> ok_up f n k -> ok_up g n k.
Proof.
  intros E Hk [H1 H2]. split.
  - intros i Hi Hne. unfold le_at. rewrite <- !E by lia. apply H1; assumption.
  - intros c Hc Hck Hk2. unfold le_at. rewrite <- !E by lia. apply H2; assumption.
Qed.

Lemma ok_down_ext f g n k :
  (forall i, 1 <= i <= n -> f i = g i) -> 1 <= k <= n -> ok_down f n k -> ok_down g n k.
Proof.
  intros E Hk [H1 H2]. split.
  - intros i Hi Hne. unfold le_at. rewrite <- !E by lia. apply H1; assumption.
  - intros c Hc Hck Hk2. unfold le_at. rewrite <- !E by lia. apply H2; assumption.
Qed.

(* lowering the key at i leaves at most i below its parent; raising it at most i above its children *)
Lemma ok_upd_up f n i x : ok f n -> (key x <= key (f i))%Z -> ok_up (upd f i x) n i.
Proof.
  intros H Hx. split.
  - intros p Hp Hne. unfold le_at, upd. destruct (Nat.eqb_spec p i); [lia|].
    assert (H1 : le_at f (p / 2) p) by (apply H; lia). unfold le_at in H1.
    destruct (Nat.eqb_spec (p / 2) i) as [E|E]; [rewrite E in H1; lia|exact H1].
  - intros c Hc Hci Hi. unfold le_at, upd.
    assert (i / 2 < i) by (apply Nat.div_lt; lia).
    destruct (Nat.eqb_spec (i / 2) i); [lia|]. destruct (Nat.eqb_spec c i); [lia|].
    assert (H1 : le_at f (c / 2) c) by (apply H; lia).
    assert (H2 : le_at f (i / 2) i) by (apply H; lia). unfold le_at in *. rewrite Hci in H1. lia.
Qed.

Lemma ok_upd_down f n i x : ok f n -> (key (f i) <= key x)%Z -> ok_down (upd f i x) n i.
Proof.
  intros H Hx. split.
  - intros p Hp Hne. unfold le_at, upd. destruct (Nat.eqb_spec (p / 2) i); [lia|].
    assert (H1 : le_at f (p / 2) p) by (apply H; lia). unfold le_at in H1.
    destruct (Nat.eqb_spec p i) as [E|E]; [subst p; lia|exact H1].
  - intros c Hc Hci Hi. unfold le_at, upd.
    assert (i / 2 < i) by (apply Nat.div_lt; lia).
    destruct (Nat.eqb_spec (i / 2) i); [lia|]. destruct (Nat.eqb_spec c i); [lia|].
    assert (H1 : le_at f (c / 2) c) by (apply H; lia).
    assert (H2 : le_at f (i / 2) i) by (apply H; lia). unfold le_at in *. rewrite Hci in H1. lia.
Qed.

(* a new last element can only be below its parent *)
Lemma ok_last_up f n : ok f (n - 1) -> ok_up f n n.
Proof.
  intros H. split.
  - intros p Hp Hne. apply H. lia.
  - intros c Hc Hcn Hn. lia.
Qed.

Lemma fix_up_perm : forall fuel (f : arr) n i, 1 <= i <= n ->
  Permutation (of_fun (fix_up key fuel f i) n) (of_fun f n).
Proof.
  induction fuel as [|fu IH]; intros f n i Hi; [reflexivity|].
  cbn [fix_up]. destruct (Nat.eqb_spec i 1) as [->|Hne]; cbn [negb andb]; [reflexivity|].
  destruct (lt key f i (i / 2)); [|reflexivity].
  assert (Hp : i / 2 < i) by (apply Nat.div_lt; lia).
  etransitivity; [apply IH; lia|]. apply swap_perm; lia.
Qed.

Lemma fix_down_perm : forall fuel (f : arr) n i j, 1 <= i -> j <= n ->
  Permutation (of_fun (fix_down key fuel f i j) n) (of_fun f n).
Proof.
  induction fuel as [|fu IH]; intros f n i j Hi Hj; [reflexivity|].
  cbn [fix_down]. destruct (Nat.ltb_spec j (2 * i)) as [Hn|Hn]; [reflexivity|].
  set (m := if Nat.eqb j (2 * i) || lt key f (2 * i) (2 * i + 1) then 2 * i else 2 * i + 1).
  assert (Hm : i < m <= j).
  { subst m. destruct (Nat.eqb_spec j (2 * i)); cbn [orb]; [lia|].
    destruct (lt key f (2 * i) (2 * i + 1)); lia. }
  clearbody m. destruct (lt key f m i); [|reflexivity].
  etransitivity; [apply IH; lia|]. apply swap_perm; lia.
Qed.

End HeapP.

Arguments ok {A}. Arguments ok_up {A}. Arguments ok_down {A}. Arguments le_at {A}. Arguments hole {A}.
