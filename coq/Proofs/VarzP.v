(* Lemmas about Model/Varz.v (property C18). *)
From Coq Require Import QArith Qround Qabs Lqa Sorting.Sorted Sorting.Permutation.
From Scales Require Import Model.Base Model.Varz.
Local Open Scope Z_scope.

(* ---- decidable equalities ------------------------------------------------------------------- *)
Lemma oz_eqb_spec : forall a b, oz_eqb a b = true <-> a = b.
Proof.
  intros [a|] [b|]; cbn; split; intros H; try congruence; try discriminate.
  - apply Z.eqb_eq in H. congruence.
  - inversion H. apply Z.eqb_refl.
Qed.

Lemma src_eqb_spec : forall a b, src_eqb a b = true <-> a = b.
Proof.
  intros [[[a1 a2] a3] a4] [[[b1 b2] b3] b4]. cbn. rewrite !andb_true_iff, !oz_eqb_spec.
  split; [intros [[[-> ->] ->] ->]; reflexivity|intros H; inversion H; auto].
Qed.

Lemma key_eqb_spec : forall a b, key_eqb a b = true <-> a = b.
Proof. apply list_eqb_spec. exact oz_eqb_spec. Qed.

Lemma Zeqb_spec : forall a b, Z.eqb a b = true <-> a = b.
Proof. exact Z.eqb_eq. Qed.

Definition src_dec : forall a b : source, {a = b} + {a <> b}.
Proof.
  intros a b. destruct (src_eqb a b) eqn:E.
  - left. apply src_eqb_spec. exact E.
  - right. intros H. apply src_eqb_spec in H. congruence.
Defined.

Lemma NoDup_app_snoc : forall {A} (l : list A) k, NoDup l -> ~ In k l -> NoDup (l ++ [k]).
Proof.
  intros A l k H. induction H as [|x l Hx Hl IH]; intros Hk; cbn.
  - constructor; [intros []|constructor].
  - constructor.
    + rewrite in_app_iff. cbn. intros [H|[H|[]]]; [contradiction|subst; apply Hk; left; reflexivity].
    + apply IH. intros H. apply Hk. right. exact H.
Qed.

(* ---- association lists ---------------------------------------------------------------------- *)
Section AssocP.
  Context {K V : Type} (eqb : K -> K -> bool).
  Hypothesis eqb_spec : forall a b, eqb a b = true <-> a = b.

  Lemma eqb_refl : forall a, eqb a a = true.
  Proof. intros a. apply eqb_spec. reflexivity. Qed.

  Lemma eqb_neq : forall a b, a <> b -> eqb a b = false.
  Proof. intros a b H. destruct (eqb a b) eqn:E; [apply eqb_spec in E; contradiction|reflexivity]. Qed.

  Lemma alookup_aset_same : forall k (v : V) l, alookup eqb k (aset eqb k v l) = Some v.
  Proof.
    intros k v l. induction l as [|[k' v'] r IH]; cbn.
    - rewrite eqb_refl. reflexivity.
    - destruct (eqb k k') eqn:E; cbn; rewrite E; [reflexivity|exact IH].
  Qed.

  Lemma alookup_aset_other : forall k k' (v : V) l, k <> k' -> alookup eqb k (aset eqb k' v l) = alookup eqb k l.
  Proof.
    intros k k' v l H. induction l as [|[k2 v2] r IH]; cbn.
    - rewrite (eqb_neq _ _ H). reflexivity.
    - destruct (eqb k' k2) eqn:E; cbn.
      + apply eqb_spec in E. subst k2. rewrite (eqb_neq _ _ H). reflexivity.
      + rewrite IH. reflexivity.
  Qed.

  Lemma alookup_in : forall k (v : V) l, alookup eqb k l = Some v -> In (k, v) l.
  Proof.
    intros k v l. induction l as [|[k' v'] r IH]; cbn; [discriminate|].
    destruct (eqb k k') eqn:E; intros H.
    - apply eqb_spec in E. inversion H. subst. left. reflexivity.
    - right. apply IH. exact H.
  Qed.

  Lemma alookup_none : forall k (l : list (K * V)), alookup eqb k l = None <-> ~ In k (map fst l).
  Proof.
    intros k l. induction l as [|[k' v'] r IH]; cbn.
    - split; [intros _ []|reflexivity].
    - destruct (eqb k k') eqn:E.
      + apply eqb_spec in E. subst. split; [discriminate|intros H; exfalso; apply H; left; reflexivity].
      + rewrite IH. split.
        * intros H [H1|H1]; [subst; rewrite eqb_refl in E; discriminate|contradiction].
        * intros H H1. apply H. right. exact H1.
  Qed.

  Lemma alookup_some_in_keys : forall k (v : V) l, alookup eqb k l = Some v -> In k (map fst l).
  Proof. intros k v l H. apply alookup_in in H. apply (in_map fst) in H. exact H. Qed.

  Lemma in_keys_alookup : forall k (l : list (K * V)), In k (map fst l) -> exists v, alookup eqb k l = Some v.
  Proof.
    intros k l H. destruct (alookup eqb k l) eqn:E; [eauto|]. apply alookup_none in E. contradiction.
  Qed.

  Lemma keys_aset : forall k (v : V) l,
    map fst (aset eqb k v l) = match alookup eqb k l with Some _ => map fst l | None => map fst l ++ [k] end.
  Proof.
    intros k v l. induction l as [|[k' v'] r IH]; cbn; [reflexivity|].
    destruct (eqb k k') eqn:E; cbn; [reflexivity|]. rewrite IH. destruct (alookup eqb k r); reflexivity.
  Qed.

  Lemma in_keys_aset : forall k k' (v : V) l, In k' (map fst (aset eqb k v l)) <-> k' = k \/ In k' (map fst l).
  Proof.
    intros k k' v l. rewrite keys_aset. destruct (alookup eqb k l) eqn:E.
    - split; [auto|]. intros [->|H]; [|exact H]. eapply alookup_some_in_keys. exact E.
    - rewrite in_app_iff. cbn. intuition.
  Qed.

  Lemma NoDup_aset : forall k (v : V) l, NoDup (map fst l) -> NoDup (map fst (aset eqb k v l)).
  Proof.
    intros k v l H. rewrite keys_aset. destruct (alookup eqb k l) eqn:E; [exact H|].
    apply alookup_none in E. apply NoDup_app_snoc; assumption.
  Qed.

  Lemma Forall_aset : forall (P : K * V -> Prop) k v l, P (k, v) -> Forall P l -> Forall P (aset eqb k v l).
  Proof.
    intros P k v l Hk Hl. induction l as [|[k' v'] r IH]; cbn.
    - constructor; [exact Hk|constructor].
    - inversion Hl; subst. destruct (eqb k k') eqn:E.
      + apply eqb_spec in E. subst. constructor; assumption.
      + constructor; [assumption|apply IH; assumption].
  Qed.

  Lemma aset_length_ge : forall k (v : V) l, (length l <= length (aset eqb k v l))%nat.
  Proof.
    intros k v l. induction l as [|[k' v'] r IH]; cbn; [lia|]. destruct (eqb k k'); cbn; lia.
  Qed.
End AssocP.


(* ---- one receiver call ---------------------------------------------------------------------- *)
Ltac break_goal :=
  repeat match goal with
         | |- context [match ?x with _ => _ end] => destruct x eqn:?
         end.

Definition keys (srcs : series) : list source := map fst srcs.

Lemma series_step_err : forall cap now l srcs,
  snd (series_step cap now l srcs) <> OK -> fst (series_step cap now l srcs) = srcs.
Proof.
  intros cap now l srcs. destruct l; cbn; break_goal; cbn; congruence.
Qed.

Lemma series_step_keys_incl : forall cap now l srcs s',
  In s' (keys (fst (series_step cap now l srcs))) -> In s' (keys srcs) \/ label_source l = Some s'.
Proof.
  intros cap now l srcs s'. unfold keys. destruct l; cbn; break_goal; cbn; auto;
    rewrite (in_keys_aset _ src_eqb_spec); intros [->|H]; auto.
Qed.

Lemma series_step_keys_mono : forall cap now l srcs s',
  In s' (keys srcs) -> In s' (keys (fst (series_step cap now l srcs))).
Proof.
  intros cap now l srcs s' H. unfold keys. destruct l; cbn; break_goal; cbn; auto;
    rewrite (in_keys_aset _ src_eqb_spec); auto.
Qed.

Lemma series_step_nodup : forall cap now l srcs,
  NoDup (keys srcs) -> NoDup (keys (fst (series_step cap now l srcs))).
Proof.
  intros cap now l srcs H. unfold keys. destruct l; cbn; break_goal; cbn; auto;
    apply (NoDup_aset _ src_eqb_spec); exact H.
Qed.

Lemma series_step_ok_has_source : forall cap now l srcs s,
  label_source l = Some s -> snd (series_step cap now l srcs) = OK -> In s (keys (fst (series_step cap now l srcs))).
Proof.
  intros cap now l srcs s Hs. unfold keys. destruct l; cbn in *; inversion Hs; subst; break_goal; cbn; try discriminate; intros _;
    rewrite (in_keys_aset _ src_eqb_spec); auto.
Qed.

(* ---- the state ------------------------------------------------------------------------------ *)
Definition on_metric (l : label) (m : Z) : bool :=
  match label_metric l with Some m' => Z.eqb m m' | None => false end.

Lemma get_series_step : forall cap st l m,
  get_series (fst (step cap st l)) m =
  if on_metric l m then fst (series_step cap (st_now st) l (get_series st m)) else get_series st m.
Proof.
  intros cap st l m. unfold step, on_metric. destruct (label_metric l) as [m'|] eqn:Em.
  - destruct (Z.eqb m m') eqn:E.
    + apply Z.eqb_eq in E. subst m'.
      destruct (series_step cap (st_now st) l (get_series st m)) as [srcs' o] eqn:Es.
      pose proof (series_step_err cap (st_now st) l (get_series st m)) as He; rewrite Es in He; cbn [fst snd] in He.
      destruct o; cbn [fst].
      1: unfold get_series at 1; cbn [st_data]; rewrite (alookup_aset_same _ Zeqb_spec); reflexivity.
      all: symmetry; apply He; discriminate.
    + destruct (series_step cap (st_now st) l (get_series st m')) as [srcs' o] eqn:Es.
      destruct o; cbn [fst]; try reflexivity.
      unfold get_series. cbn [st_data]. rewrite (alookup_aset_other _ Zeqb_spec); [reflexivity|].
      intros ->. rewrite Z.eqb_refl in E. discriminate.
  - destruct l; cbn in Em; try discriminate. reflexivity.
Qed.

Lemma st_now_step : forall cap st l,
  st_now (fst (step cap st l)) = match l with Clock t => t | _ => st_now st end.
Proof.
  intros cap st l. unfold step. destruct (label_metric l) as [m|] eqn:Em.
  - destruct (series_step cap (st_now st) l (get_series st m)) as [srcs' o]. destruct l; cbn in Em; try discriminate; destruct o; reflexivity.
  - destruct l; cbn in Em; try discriminate. reflexivity.
Qed.

Fixpoint used (m : Z) (ops : list label) : list source :=
  match ops with
  | [] => []
  | l :: r => match label_source l with
              | Some s => if on_metric l m then s :: used m r else used m r
              | None => used m r
              end
  end.

Lemma exec_nodup : forall cap ops st m,
  NoDup (keys (get_series st m)) -> NoDup (keys (get_series (exec cap st ops) m)).
Proof.
  intros cap ops. induction ops as [|l r IH]; intros st m H; cbn; [exact H|].
  apply IH. rewrite get_series_step. destruct (on_metric l m); [apply series_step_nodup|]; exact H.
Qed.

Lemma exec_keys_incl : forall cap ops st m s,
  In s (keys (get_series (exec cap st ops) m)) -> In s (keys (get_series st m)) \/ In s (used m ops).
Proof.
  intros cap ops. induction ops as [|l r IH]; intros st m s H; cbn in *; [auto|].
  apply IH in H. destruct H as [H|H].
  - rewrite get_series_step in H. destruct (on_metric l m) eqn:E.
    + apply series_step_keys_incl in H. destruct H as [H|H]; [auto|]. rewrite H. right. left. reflexivity.
    + auto.
  - right. destruct (label_source l); [destruct (on_metric l m); [right|]|]; exact H.
Qed.

Lemma exec_keys_mono : forall cap ops st m s,
  In s (keys (get_series st m)) -> In s (keys (get_series (exec cap st ops) m)).
Proof.
  intros cap ops. induction ops as [|l r IH]; intros st m s H; cbn; [exact H|].
  apply IH. rewrite get_series_step. destruct (on_metric l m); [apply series_step_keys_mono|]; exact H.
Qed.

Lemma init_series : forall m, get_series init_state m = [].
Proof. reflexivity. Qed.

Lemma series_bound : forall cap ops m,
  NoDup (keys (get_series (exec cap init_state ops) m)) /\
  (length (get_series (exec cap init_state ops) m) <= length (nodup src_dec (used m ops)))%nat.
Proof.
  intros cap ops m. assert (N : NoDup (keys (get_series (exec cap init_state ops) m))).
  { apply exec_nodup. constructor. }
  split; [exact N|]. unfold keys in *. rewrite <- (map_length fst).
  apply NoDup_incl_length; [exact N|]. intros s H. apply nodup_In.
  apply exec_keys_incl in H. destruct H as [[]|H]. exact H.
Qed.

(* ---- counters: what the aggregator will add up ---------------------------------------------- *)
Local Open Scope Q_scope.

Definition cell_num (c : cell) : Q := match c with Num q => q | Res _ => 0 end.
Fixpoint key_sum (sel : source -> key) (k : key) (srcs : series) : Q :=
  match srcs with
  | [] => 0
  | (s, c) :: r => (if key_eqb (sel s) k then cell_num c else 0) + key_sum sel k r
  end.
Definition all_num (srcs : series) : Prop := Forall (fun sc : source * cell => exists q, snd sc = Num q) srcs.
Definition all_res (srcs : series) : Prop := Forall (fun sc : source * cell => exists r, snd sc = Res r) srcs.

Lemma cur_cell_cons : forall s s' c r,
  cur_cell s ((s', c) :: r) = if src_eqb s s' then c else cur_cell s r.
Proof. intros. unfold cur_cell. cbn. destruct (src_eqb s s'); reflexivity. Qed.

Lemma key_sum_aset : forall sel k s c srcs,
  key_sum sel k (aset src_eqb s c srcs) ==
  key_sum sel k srcs + (if key_eqb (sel s) k then cell_num c - cell_num (cur_cell s srcs) else 0).
Proof.
  intros sel k s c srcs. induction srcs as [|[s' c'] r IH].
  - cbn. destruct (key_eqb (sel s) k); cbn; ring.
  - rewrite cur_cell_cons. cbn [aset]. destruct (src_eqb s s') eqn:E.
    + apply src_eqb_spec in E. subst s'. cbn [key_sum]. destruct (key_eqb (sel s) k); ring.
    + cbn [key_sum]. rewrite IH. ring.
Qed.

Lemma all_num_cur_cell : forall s srcs, all_num srcs -> exists q, cur_cell s srcs = Num q.
Proof.
  intros s srcs H. unfold cur_cell. destruct (alookup src_eqb s srcs) as [c|] eqn:E; [|eauto].
  apply (alookup_in _ src_eqb_spec) in E. unfold all_num in H. rewrite Forall_forall in H. apply (H _ E).
Qed.

Lemma all_res_cur_cell : forall s srcs, all_res srcs -> (exists r, cur_cell s srcs = Res r) \/ cur_cell s srcs = Num 0.
Proof.
  intros s srcs H. unfold cur_cell. destruct (alookup src_eqb s srcs) as [c|] eqn:E; [|auto].
  apply (alookup_in _ src_eqb_spec) in E. unfold all_res in H. rewrite Forall_forall in H. left. apply (H _ E).
Qed.

Definition inc_only (m : Z) (ops : list label) : Prop :=
  Forall (fun l => on_metric l m = true -> exists s a, l = Inc m s a) ops.
Definition set_only (m : Z) (ops : list label) : Prop :=
  Forall (fun l => on_metric l m = true -> exists s v, l = SetV m s v) ops.
Definition sample_only (m : Z) (ops : list label) : Prop :=
  Forall (fun l => on_metric l m = true -> exists s v rnd, l = Sample m s v rnd) ops.

Fixpoint inc_sum (sel : source -> key) (m : Z) (k : key) (ops : list label) : Q :=
  match ops with
  | [] => 0
  | l :: r => (match l with
               | Inc m' s a => if Z.eqb m m' && key_eqb (sel s) k then a else 0
               | _ => 0
               end) + inc_sum sel m k r
  end.

Lemma exec_inc_sum : forall cap sel k m ops st,
  inc_only m ops -> all_num (get_series st m) ->
  all_num (get_series (exec cap st ops) m) /\
  key_sum sel k (get_series (exec cap st ops) m) == key_sum sel k (get_series st m) + inc_sum sel m k ops.
Proof.
  intros cap sel k m ops. induction ops as [|l r IH]; intros st Hi Hn.
  - cbn. split; [exact Hn|ring].
  - inversion Hi as [|l' r' Hl Hr]; subst. cbn [exec inc_sum].
    assert (S : all_num (get_series (fst (step cap st l)) m) /\
                key_sum sel k (get_series (fst (step cap st l)) m) ==
                key_sum sel k (get_series st m) +
                match l with Inc m' s a => if Z.eqb m m' && key_eqb (sel s) k then a else 0 | _ => 0 end).
    { rewrite get_series_step. destruct (on_metric l m) eqn:E.
      - destruct (Hl eq_refl) as (s & a & ->). cbn [series_step].
        destruct (all_num_cur_cell s _ Hn) as [q Eq]. rewrite Eq. cbn [fst]. split.
        + apply (Forall_aset _ src_eqb_spec); [cbn; eauto|exact Hn].
        + rewrite key_sum_aset, Eq, Z.eqb_refl. cbn [andb cell_num]. destruct (key_eqb (sel s) k); [|ring].
          rewrite Qred_correct. ring.
      - split; [exact Hn|]. destruct l; try ring. unfold on_metric in E. cbn in E. rewrite E. cbn. ring. }
    destruct S as [S1 S2]. destruct (IH _ Hr S1) as [I1 I2]. split; [exact I1|]. rewrite I2, S2. ring.
Qed.

(* an increment is never lost: its source has a series afterwards *)
Lemma exec_inc_present : forall cap m ops st s a,
  inc_only m ops -> all_num (get_series st m) -> In (Inc m s a) ops ->
  In s (keys (get_series (exec cap st ops) m)).
Proof.
  intros cap m ops. induction ops as [|l r IH]; intros st s a Hi Hn Hin; [destruct Hin|].
  inversion Hi as [|l' r' Hl Hr]; subst. cbn [exec].
  assert (Hn' : all_num (get_series (fst (step cap st l)) m)).
  { apply (exec_inc_sum cap default_key_selector [] m [l] st); [constructor; [exact Hl|constructor]|exact Hn]. }
  destruct Hin as [->|Hin].
  - apply exec_keys_mono. rewrite get_series_step. unfold on_metric. cbn [label_metric]. rewrite Z.eqb_refl.
    apply (series_step_ok_has_source _ _ _ _ s); [reflexivity|]. cbn.
    destruct (all_num_cur_cell s _ Hn) as [q ->]. reflexivity.
  - apply (IH _ s a Hr Hn' Hin).
Qed.

(* ---- gauges --------------------------------------------------------------------------------- *)
Fixpoint last_set (m : Z) (s : source) (ops : list label) (acc : option Q) : option Q :=
  match ops with
  | [] => acc
  | l :: r => last_set m s r (match l with
                              | SetV m' s' v => if Z.eqb m m' && src_eqb s s' then Some v else acc
                              | _ => acc
                              end)
  end.

Lemma last_set_acc : forall m s ops acc,
  last_set m s ops acc = match last_set m s ops None with Some v => Some v | None => acc end.
Proof.
  intros m s ops. induction ops as [|l r IH]; intros acc; cbn; [reflexivity|].
  rewrite IH. rewrite (IH (match l with SetV m' s' v => if Z.eqb m m' && src_eqb s s' then Some v else None | _ => None end)).
  destruct (last_set m s r None); [reflexivity|]. destruct l; try reflexivity.
  destruct (Z.eqb m m0 && src_eqb s s0); reflexivity.
Qed.

Lemma exec_last_set : forall cap m s ops st,
  set_only m ops ->
  alookup src_eqb s (get_series (exec cap st ops) m) =
  match last_set m s ops None with Some v => Some (Num v) | None => alookup src_eqb s (get_series st m) end.
Proof.
  intros cap m s ops. induction ops as [|l r IH]; intros st Hs; cbn [exec last_set]; [reflexivity|].
  inversion Hs as [|l' r' Hl Hr]; subst. rewrite (IH _ Hr).
  match goal with |- _ = match last_set _ _ _ ?a with _ => _ end => rewrite (last_set_acc m s r a) end.
  destruct (last_set m s r None) as [v|]; [reflexivity|]. rewrite get_series_step.
  destruct (on_metric l m) eqn:E.
  - destruct (Hl eq_refl) as (s' & v & ->). cbn [series_step fst]. rewrite Z.eqb_refl. cbn [andb].
    destruct (src_eqb s s') eqn:Es.
    + apply src_eqb_spec in Es. subst s'. apply (alookup_aset_same _ src_eqb_spec).
    + apply (alookup_aset_other _ src_eqb_spec). intros ->. rewrite (eqb_refl _ src_eqb_spec) in Es. discriminate.
  - destruct l; try reflexivity. unfold on_metric in E. cbn in E. rewrite E. reflexivity.
Qed.

Lemma exec_set_all_num : forall cap m ops st,
  set_only m ops -> all_num (get_series st m) -> all_num (get_series (exec cap st ops) m).
Proof.
  intros cap m ops. induction ops as [|l r IH]; intros st Hs Hn; cbn [exec]; [exact Hn|].
  inversion Hs as [|l' r' Hl Hr]; subst. apply (IH _ Hr). rewrite get_series_step.
  destruct (on_metric l m) eqn:E; [|exact Hn]. destruct (Hl eq_refl) as (s' & v & ->). cbn [series_step fst].
  apply (Forall_aset _ src_eqb_spec); [cbn; eauto|exact Hn].
Qed.

Lemma key_sum_none : forall sel k srcs,
  (forall s, In s (keys srcs) -> sel s <> k) -> key_sum sel k srcs == 0.
Proof.
  intros sel k srcs. induction srcs as [|[s c] r IH]; intros H; cbn; [reflexivity|].
  rewrite IH by (intros s' Hs'; apply H; right; exact Hs').
  destruct (key_eqb (sel s) k) eqn:E; [|ring]. apply key_eqb_spec in E. exfalso. apply (H s); [left; reflexivity|exact E].
Qed.

Lemma key_sum_single : forall sel s c srcs,
  NoDup (keys srcs) -> alookup src_eqb s srcs = Some c ->
  (forall s', In s' (keys srcs) -> sel s' = sel s -> s' = s) ->
  key_sum sel (sel s) srcs == cell_num c.
Proof.
  intros sel s c srcs. induction srcs as [|[s' c'] r IH]; intros Hn Hl Hu; cbn in *; [discriminate|].
  inversion Hn as [|x l Hx Hr]; subst. destruct (src_eqb s s') eqn:E.
  - apply src_eqb_spec in E. subst s'. inversion Hl; subst c'. rewrite (eqb_refl _ key_eqb_spec).
    rewrite key_sum_none; [ring|]. intros s2 H2 Hk. assert (s2 = s) by (apply Hu; auto). subst. contradiction.
  - destruct (key_eqb (sel s') (sel s)) eqn:Ek.
    + apply key_eqb_spec in Ek. assert (s' = s) by (apply Hu; auto). subst. rewrite (eqb_refl _ src_eqb_spec) in E. discriminate.
    + rewrite IH; [ring|exact Hr|exact Hl|]. intros s2 H2. apply Hu. right. exact H2.
Qed.

(* ---- Aggregate: per-key view ---------------------------------------------------------------- *)
Fixpoint key_fold (now : Z) (sel : source -> key) (k : key) (srcs : series) (a : option aggst) : res (option aggst) :=
  match srcs with
  | [] => ROk a
  | (s, c) :: r =>
      if key_eqb (sel s) k then
        match agg_add now (match a with Some x => x | None => new_agg c end) c with
        | ROk a' => key_fold now sel k r (Some a')
        | RErr e => RErr e
        end
      else key_fold now sel k r a
  end.

Lemma agg_sources_spec : forall sel now srcs acc out,
  agg_sources sel now srcs acc = ROk out ->
  forall k, key_fold now sel k srcs (alookup key_eqb k acc) = ROk (alookup key_eqb k out).
Proof.
  intros sel now srcs. induction srcs as [|[s c] r IH]; intros acc out H k; cbn in *.
  - inversion H. reflexivity.
  - destruct (agg_add now match alookup key_eqb (sel s) acc with Some a => a | None => new_agg c end c) as [a|e] eqn:Ea;
      [|discriminate].
    specialize (IH _ _ H k). destruct (key_eqb (sel s) k) eqn:E.
    + apply key_eqb_spec in E. subst k. rewrite Ea. rewrite (alookup_aset_same _ key_eqb_spec) in IH. exact IH.
    + rewrite (alookup_aset_other _ key_eqb_spec) in IH; [exact IH|].
      intros ->. rewrite (eqb_refl _ key_eqb_spec) in E. discriminate.
Qed.

Lemma agg_sources_err : forall sel now srcs acc e,
  agg_sources sel now srcs acc = RErr e ->
  exists k, key_fold now sel k srcs (alookup key_eqb k acc) = RErr e.
Proof.
  intros sel now srcs. induction srcs as [|[s c] r IH]; intros acc e H; cbn in *; [discriminate|].
  destruct (agg_add now match alookup key_eqb (sel s) acc with Some a => a | None => new_agg c end c) as [a|e'] eqn:Ea.
  - destruct (IH _ _ H) as [k Hk]. exists k. destruct (key_eqb (sel s) k) eqn:E.
    + apply key_eqb_spec in E. subst k. rewrite Ea. rewrite (alookup_aset_same _ key_eqb_spec) in Hk. exact Hk.
    + rewrite (alookup_aset_other _ key_eqb_spec) in Hk; [exact Hk|].
      intros ->. rewrite (eqb_refl _ key_eqb_spec) in E. discriminate.
  - inversion H; subst. exists (sel s). rewrite (eqb_refl _ key_eqb_spec). rewrite Ea. reflexivity.
Qed.

Lemma key_fold_num_some : forall now sel k srcs w n,
  all_num srcs ->
  exists w' n', key_fold now sel k srcs (Some {| a_work := WNum w; a_count := n |}) =
                ROk (Some {| a_work := WNum w'; a_count := n' |}) /\
                w' == w + key_sum sel k srcs /\ (n <= n')%Z.
Proof.
  intros now sel k srcs. induction srcs as [|[s c] r IH]; intros w n H; cbn.
  - exists w, n. split; [reflexivity|]. split; [ring|lia].
  - inversion H as [|x l [q Hq] Hr]; subst. cbn in Hq. subst c. destruct (key_eqb (sel s) k).
    + cbn. destruct (IH (Qred (w + q)) (n + 1)%Z Hr) as (w' & n' & E & Hw & Hn). exists w', n'.
      split; [exact E|]. split; [|lia]. rewrite Hw, Qred_correct. cbn. ring.
    + destruct (IH w n Hr) as (w' & n' & E & Hw & Hn). exists w', n'. split; [exact E|]. split; [|exact Hn].
      rewrite Hw. ring.
Qed.

Lemma key_fold_num_absent : forall now sel k srcs,
  (forall s, In s (keys srcs) -> sel s <> k) -> key_fold now sel k srcs None = ROk None.
Proof.
  intros now sel k srcs. induction srcs as [|[s c] r IH]; intros H; cbn; [reflexivity|].
  destruct (key_eqb (sel s) k) eqn:E.
  - apply key_eqb_spec in E. exfalso. apply (H s); [left; reflexivity|exact E].
  - apply IH. intros s' Hs'. apply H. right. exact Hs'.
Qed.

Lemma key_fold_num_present : forall now sel k srcs,
  all_num srcs -> (exists s, In s (keys srcs) /\ sel s = k) ->
  exists w' n', key_fold now sel k srcs None = ROk (Some {| a_work := WNum w'; a_count := n' |}) /\
                w' == key_sum sel k srcs /\ (1 <= n')%Z.
Proof.
  intros now sel k srcs. induction srcs as [|[s c] r IH]; intros H (s0 & Hin & Hk); [destruct Hin|].
  inversion H as [|x l [q Hq] Hr]; subst. cbn in Hq. subst c. cbn. destruct (key_eqb (sel s) (sel s0)) eqn:E.
  - cbn. destruct (key_fold_num_some now sel (sel s0) r (Qred (0 + q)) (0 + 1)%Z Hr) as (w' & n' & E' & Hw & Hn).
    exists w', n'. split; [exact E'|]. split; [|lia]. rewrite Hw, Qred_correct. ring.
  - destruct Hin as [Hin|Hin].
    + cbn in Hin. subst s0. rewrite (eqb_refl _ key_eqb_spec) in E. discriminate.
    + destruct (IH Hr (ex_intro _ s0 (conj Hin eq_refl))) as (w' & n' & E' & Hw & Hn).
      exists w', n'. split; [exact E'|]. split; [|exact Hn]. rewrite Hw. ring.
Qed.

Definition fin_entry (pcts : list Q) (ty : Z) (ka : key * aggst) : res (key * (total * Z)) :=
  rbind (finalize pcts ty (snd ka)) (fun t => ROk (fst ka, t)).

Lemma rmap_fin_lookup : forall pcts ty l l',
  rmap (fin_entry pcts ty) l = ROk l' ->
  forall k, match alookup key_eqb k l with
            | Some a => exists t, finalize pcts ty a = ROk t /\ alookup key_eqb k l' = Some t
            | None => alookup key_eqb k l' = None
            end.
Proof.
  intros pcts ty l. induction l as [|[k0 a0] r IH]; intros l' H k; cbn in *.
  - inversion H. reflexivity.
  - unfold fin_entry at 1 in H. cbn [fst snd] in H. destruct (finalize pcts ty a0) as [t0|e] eqn:Ef; cbn in H; [|discriminate].
    destruct (rmap (fin_entry pcts ty) r) as [ys|e] eqn:Er; cbn in H; [|discriminate]. inversion H; subst l'. cbn.
    destruct (key_eqb k k0); [eauto|]. apply (IH _ eq_refl k).
Qed.

Lemma rmap_ok : forall {A B} (f : A -> res B) l,
  (forall x, In x l -> exists y, f x = ROk y) -> exists l', rmap f l = ROk l'.
Proof.
  intros A B f l. induction l as [|x r IH]; intros H; cbn; [eauto|].
  destruct (H x (or_introl eq_refl)) as [y ->]. cbn.
  destruct IH as [ys ->]; [intros z Hz; apply H; right; exact Hz|]. cbn. eauto.
Qed.

Lemma agg_metric_unfold : forall sel now pcts ty srcs,
  agg_metric sel now pcts ty srcs = rbind (agg_sources sel now srcs []) (rmap (fin_entry pcts ty)).
Proof. reflexivity. Qed.

(* what Aggregate reports for a key of a metric whose series are all numbers, under a summing type *)
Lemma agg_metric_num : forall sel now pcts ty srcs out k,
  is_sum_type ty = true -> all_num srcs -> agg_metric sel now pcts ty srcs = ROk out ->
  ((exists s, In s (keys srcs) /\ sel s = k) ->
     exists q n, alookup key_eqb k out = Some (TNum q, n) /\ q == key_sum sel k srcs /\ (1 <= n)%Z) /\
  ((forall s, In s (keys srcs) -> sel s <> k) -> alookup key_eqb k out = None).
Proof.
  intros sel now pcts ty srcs out k Hty Hn H. rewrite agg_metric_unfold in H.
  destruct (agg_sources sel now srcs []) as [acc|e] eqn:Ea; cbn in H; [|discriminate].
  pose proof (agg_sources_spec _ _ _ _ _ Ea k) as Hk. cbn [alookup] in Hk.
  pose proof (rmap_fin_lookup _ _ _ _ H k) as Hf. split.
  - intros Hex. destruct (key_fold_num_present now sel k srcs Hn Hex) as (w & n & E & Hw & Hc).
    rewrite E in Hk. inversion Hk as [Hk']. rewrite <- Hk' in Hf. destruct Hf as (t & Ft & Lt).
    unfold finalize in Ft. rewrite Hty in Ft. cbn in Ft. inversion Ft; subst t. exists w, n. auto.
  - intros Hab. rewrite (key_fold_num_absent now sel k srcs Hab) in Hk. inversion Hk as [Hk']. rewrite <- Hk' in Hf. exact Hf.
Qed.

Lemma aggregate_lookup : forall sel now pcts types data out m ty,
  aggregate sel now pcts types data = ROk out -> alookup Z.eqb m types = Some ty ->
  match alookup Z.eqb m data with
  | Some srcs => exists r, agg_metric sel now pcts ty srcs = ROk r /\ alookup Z.eqb m out = Some r
  | None => alookup Z.eqb m out = None
  end.
Proof.
  intros sel now pcts types data. induction data as [|[m' srcs'] r IH]; intros out m ty H Hty; cbn in *.
  - inversion H. reflexivity.
  - destruct (alookup Z.eqb m' types) as [ty'|] eqn:Et.
    + destruct (agg_metric sel now pcts ty' srcs') as [x|e] eqn:Ex; cbn in H; [|discriminate].
      destruct (aggregate sel now pcts types r) as [xs|e] eqn:Er; cbn in H; [|discriminate]. inversion H; subst out. cbn.
      destruct (Z.eqb m m') eqn:E.
      * apply Z.eqb_eq in E. subst m'. rewrite Hty in Et. inversion Et; subst ty'. eauto.
      * apply (IH _ _ _ eq_refl Hty).
    + destruct (Z.eqb m m') eqn:E.
      * apply Z.eqb_eq in E. subst m'. congruence.
      * apply (IH _ _ _ H Hty).
Qed.

(* ---- CalculatePercentile -------------------------------------------------------------------- *)
Definition interp (vs : list Q) (k : Q) : Q :=
  let f := Qfloor k in
  let c := Qceiling k in
  if (f =? c)%Z then nth (Z.to_nat f) vs 0
  else nth (Z.to_nat f) vs 0 * (inject_Z c - k) + nth (Z.to_nat c) vs 0 * (k - inject_Z f).

Definition sorted_nth (vs : list Q) : Prop :=
  forall i j, (i <= j)%nat -> (j < length vs)%nat -> nth i vs 0 <= nth j vs 0.

Lemma floor_ceil_facts : forall (k : Q) (N : Z),
  0 <= k -> k <= inject_Z N ->
  (0 <= Qfloor k <= N)%Z /\ (0 <= Qceiling k <= N)%Z /\ (Qfloor k <= Qceiling k <= Qfloor k + 1)%Z.
Proof.
  intros k N H0 HN.
  pose proof (Qfloor_resp_le _ _ H0) as F0. change (Qfloor 0) with 0%Z in F0.
  pose proof (Qfloor_resp_le _ _ HN) as FN. rewrite Qfloor_Z in FN.
  pose proof (Qceiling_resp_le _ _ H0) as C0. change (Qceiling 0) with 0%Z in C0.
  pose proof (Qceiling_resp_le _ _ HN) as CN. rewrite Qceiling_Z in CN.
  pose proof (Qle_floor_ceiling k) as FC. rewrite <- Zle_Qle in FC.
  assert (CF : (Qceiling k - 1 < Qfloor k + 1)%Z).
  { rewrite Zlt_Qlt. apply Qlt_trans with k; [apply Qceiling_lt|apply Qlt_floor]. }
  lia.
Qed.

Lemma py_index_in_range : forall vs i, (0 <= i < zlen vs)%Z -> py_index vs i = Some (nth (Z.to_nat i) vs 0).
Proof.
  intros vs i H. unfold py_index.
  replace ((0 <=? i)%Z && (i <? zlen vs)%Z) with true; [reflexivity|]. symmetry. apply andb_true_iff. split; lia.
Qed.

Lemma zlen_pos : forall {A} (l : list A), l <> [] -> (1 <= zlen l)%Z.
Proof. intros A [|x r] H; [congruence|]. unfold zlen. cbn [length]. lia. Qed.

Lemma pct_k_range : forall (n : Z) (p : Q), (1 <= n)%Z -> 0 <= p -> p <= 1 ->
  0 <= inject_Z (n - 1) * p /\ inject_Z (n - 1) * p <= inject_Z (n - 1).
Proof.
  intros n p Hn H0 H1. assert (H : 0 <= inject_Z (n - 1)).
  { change 0 with (inject_Z 0). rewrite <- Zle_Qle. lia. }
  split; nra.
Qed.

Lemma percentile_interp : forall vs p,
  vs <> [] -> 0 <= p -> p <= 1 -> percentile vs p = Some (interp vs (inject_Z (zlen vs - 1) * p)).
Proof.
  intros vs p Hne H0 H1. pose proof (zlen_pos vs Hne) as Hn.
  destruct (pct_k_range _ p Hn H0 H1) as [K0 K1].
  destruct (floor_ceil_facts _ _ K0 K1) as (F & C & FC).
  unfold percentile, interp. destruct vs as [|x r]; [congruence|].
  set (vs := x :: r) in *. set (k := inject_Z (zlen vs - 1) * p) in *.
  rewrite (py_index_in_range vs (Qfloor k)) by lia. rewrite (py_index_in_range vs (Qceiling k)) by lia.
  destruct (Qfloor k =? Qceiling k)%Z; reflexivity.
Qed.

Lemma nth_in_range : forall (vs : list Q) (i : Z), (0 <= i < zlen vs)%Z -> In (nth (Z.to_nat i) vs 0) vs.
Proof. intros vs i H. apply nth_In. unfold zlen in H. lia. Qed.

Lemma interp_bounds : forall vs k lo hi,
  0 <= k -> k <= inject_Z (zlen vs - 1) ->
  (forall x, In x vs -> lo <= x /\ x <= hi) ->
  lo <= interp vs k /\ interp vs k <= hi.
Proof.
  intros vs k lo hi K0 K1 Hb. destruct (floor_ceil_facts _ _ K0 K1) as (F & C & FC).
  unfold interp. destruct (Z.eqb_spec (Qfloor k) (Qceiling k)) as [E|E].
  - apply Hb. apply nth_in_range. lia.
  - assert (Ec : Qceiling k = (Qfloor k + 1)%Z) by lia.
    destruct (Hb _ (nth_in_range vs (Qfloor k) ltac:(lia))) as [A0 A1].
    destruct (Hb _ (nth_in_range vs (Qceiling k) ltac:(lia))) as [B0 B1].
    pose proof (Qfloor_le k) as Fl. pose proof (Qle_ceiling k) as Cl.
    rewrite Ec in *. rewrite inject_Z_plus in *. change (inject_Z 1) with 1 in *.
    set (d0 := nth (Z.to_nat (Qfloor k)) vs 0) in *. set (d1 := nth (Z.to_nat (Qfloor k + 1)) vs 0) in *.
    set (f := inject_Z (Qfloor k)) in *. split; nra.
Qed.

Lemma interp_between : forall vs k,
  sorted_nth vs -> 0 <= k -> k <= inject_Z (zlen vs - 1) ->
  nth (Z.to_nat (Qfloor k)) vs 0 <= interp vs k /\ interp vs k <= nth (Z.to_nat (Qceiling k)) vs 0.
Proof.
  intros vs k Hs K0 K1. destruct (floor_ceil_facts _ _ K0 K1) as (F & C & FC).
  unfold interp. destruct (Z.eqb_spec (Qfloor k) (Qceiling k)) as [E|E].
  - rewrite <- E. split; apply Qle_refl.
  - assert (Ec : Qceiling k = (Qfloor k + 1)%Z) by lia.
    assert (D : nth (Z.to_nat (Qfloor k)) vs 0 <= nth (Z.to_nat (Qceiling k)) vs 0).
    { apply Hs; unfold zlen in *; lia. }
    pose proof (Qfloor_le k) as Fl. pose proof (Qle_ceiling k) as Cl.
    rewrite Ec in *. rewrite inject_Z_plus in *. change (inject_Z 1) with 1 in *.
    set (d0 := nth (Z.to_nat (Qfloor k)) vs 0) in *. set (d1 := nth (Z.to_nat (Qfloor k + 1)) vs 0) in *.
    set (f := inject_Z (Qfloor k)) in *. split; nra.
Qed.

Lemma interp_mono : forall vs k k',
  sorted_nth vs -> 0 <= k -> k <= k' -> k' <= inject_Z (zlen vs - 1) -> interp vs k <= interp vs k'.
Proof.
  intros vs k k' Hs K0 KK K1.
  assert (K1' : k <= inject_Z (zlen vs - 1)) by (apply Qle_trans with k'; assumption).
  assert (K0' : 0 <= k') by (apply Qle_trans with k; assumption).
  destruct (floor_ceil_facts _ _ K0 K1') as (F & C & FC).
  destruct (floor_ceil_facts _ _ K0' K1) as (F' & C' & FC').
  pose proof (Qfloor_resp_le _ _ KK) as Fm. pose proof (Qceiling_resp_le _ _ KK) as Cm.
  destruct (Z_le_gt_dec (Qceiling k) (Qfloor k')) as [L|G].
  - apply Qle_trans with (nth (Z.to_nat (Qceiling k)) vs 0); [apply interp_between; assumption|].
    apply Qle_trans with (nth (Z.to_nat (Qfloor k')) vs 0); [|apply interp_between; assumption].
    apply Hs; unfold zlen in *; lia.
  - assert (E1 : Qfloor k' = Qfloor k) by lia. assert (E2 : Qceiling k = (Qfloor k + 1)%Z) by lia.
    assert (E3 : Qceiling k' = (Qfloor k + 1)%Z) by lia.
    assert (D : nth (Z.to_nat (Qfloor k)) vs 0 <= nth (Z.to_nat (Qfloor k + 1)) vs 0).
    { apply Hs; unfold zlen in *; lia. }
    unfold interp. rewrite E1, E2, E3.
    destruct (Z.eqb_spec (Qfloor k) (Qfloor k + 1)) as [E|E]; [lia|].
    rewrite inject_Z_plus. change (inject_Z 1) with 1.
    set (d0 := nth (Z.to_nat (Qfloor k)) vs 0) in *. set (d1 := nth (Z.to_nat (Qfloor k + 1)) vs 0) in *.
    set (f := inject_Z (Qfloor k)) in *. nra.
Qed.

(* bounds for every list and p in [0,1] *)
Lemma percentile_bounds : forall vs p lo hi,
  vs <> [] -> 0 <= p -> p <= 1 -> (forall x, In x vs -> lo <= x /\ x <= hi) ->
  exists v, percentile vs p = Some v /\ lo <= v /\ v <= hi.
Proof.
  intros vs p lo hi Hne H0 H1 Hb. rewrite (percentile_interp vs p Hne H0 H1).
  destruct (pct_k_range _ p (zlen_pos vs Hne) H0 H1) as [K0 K1].
  eexists. split; [reflexivity|]. apply interp_bounds; assumption.
Qed.

Lemma percentile_mono : forall vs p p',
  sorted_nth vs -> vs <> [] -> 0 <= p -> p <= p' -> p' <= 1 ->
  exists v v', percentile vs p = Some v /\ percentile vs p' = Some v' /\ v <= v'.
Proof.
  intros vs p p' Hs Hne H0 Hpp H1.
  assert (H1' : p <= 1) by (apply Qle_trans with p'; assumption).
  assert (H0' : 0 <= p') by (apply Qle_trans with p; assumption).
  rewrite (percentile_interp vs p Hne H0 H1'), (percentile_interp vs p' Hne H0' H1).
  destruct (pct_k_range _ p (zlen_pos vs Hne) H0 H1') as [K0 K1].
  destruct (pct_k_range _ p' (zlen_pos vs Hne) H0' H1) as [K0' K1'].
  do 2 eexists. split; [reflexivity|]. split; [reflexivity|].
  apply interp_mono; try assumption.
  assert (H : 0 <= inject_Z (zlen vs - 1)).
  { change 0 with (inject_Z 0). rewrite <- Zle_Qle. pose proof (zlen_pos vs Hne). lia. }
  nra.
Qed.

(* ---- sorting -------------------------------------------------------------------------------- *)
Lemma sortQ_perm : forall l, Permutation l (sortQ l).
Proof. exact QSort.Permuted_sort. Qed.

Lemma sortQ_in : forall l x, In x (sortQ l) <-> In x l.
Proof.
  intros l x. split; intros H.
  - apply (Permutation_in x (Permutation_sym (sortQ_perm l))). exact H.
  - apply (Permutation_in x (sortQ_perm l)). exact H.
Qed.

Lemma sortQ_length : forall l, length (sortQ l) = length l.
Proof. intros l. symmetry. apply Permutation_length. apply sortQ_perm. Qed.

Lemma sortQ_nonempty : forall l, l <> [] -> sortQ l <> [].
Proof.
  intros l H E. apply H. apply length_zero_iff_nil. rewrite <- sortQ_length, E. reflexivity.
Qed.

Lemma strongly_sorted_nth : forall (R : Q -> Q -> Prop) l,
  StronglySorted R l -> forall i j, (i < j)%nat -> (j < length l)%nat -> R (nth i l 0) (nth j l 0).
Proof.
  intros R l H. induction H as [|a l Hs IH Ha]; intros i j Hij Hj; cbn in Hj; [lia|].
  destruct j as [|j]; [lia|]. destruct i as [|i]; cbn.
  - rewrite Forall_forall in Ha. apply Ha. apply nth_In. lia.
  - apply IH; lia.
Qed.

Lemma sortQ_sorted_nth : forall l, sorted_nth (sortQ l).
Proof.
  intros l i j Hij Hj. destruct (Nat.eq_dec i j) as [->|Hne]; [apply Qle_refl|].
  assert (T : StronglySorted (fun x y => is_true (Qle_bool x y)) (sortQ l)).
  { apply QSort.StronglySorted_sort. intros x y z H1 H2. unfold is_true in *. rewrite Qle_bool_iff in *.
    apply Qle_trans with y; assumption. }
  pose proof (strongly_sorted_nth _ _ T i j ltac:(lia) Hj) as H. unfold is_true in H. apply Qle_bool_iff. exact H.
Qed.

(* ---- a key with a single, fresh reservoir --------------------------------------------------- *)
Lemma Qred_inject_Z : forall n, Qred (inject_Z n) = inject_Z n.
Proof.
  intros n. unfold inject_Z, Qred. pose proof (Z.ggcd_gcd n 1) as G. pose proof (Z.ggcd_correct_divisors n 1) as D.
  destruct (Z.ggcd n 1) as [g [aa bb]]. cbn [fst] in G. rewrite Z.gcd_1_r in G. subst g. destruct D as [D1 D2].
  assert (Ha : aa = n) by lia. assert (Hb : bb = 1%Z) by lia. clear D1 D2. subst aa bb. reflexivity.
Qed.

Lemma target_size_one : forall n, (0 <= n <= 2 ^ 53)%Z -> target_size n 1 = n.
Proof.
  intros n H. unfold target_size. replace (fdiv 1 (inject_Z 1)) with 1 by (vm_compute; reflexivity).
  unfold fmul, to_float. rewrite (Qred_complete (inject_Z n * 1) (inject_Z n)) by ring. rewrite Qred_inject_Z.
  cbn [Qden Qnum inject_Z]. replace (Z.abs n <=? 2 ^ 53)%Z with true by (symmetry; apply Z.leb_le; lia).
  cbn [Z.eqb Pos.eqb andb]. apply Qfloor_Z.
Qed.

Lemma downsample_all : forall lst t, lst <> [] -> (zlen lst <= t)%Z -> downsample lst t = lst.
Proof.
  intros lst t Hne H. pose proof (zlen_pos lst Hne). unfold downsample.
  replace (t =? 0)%Z with false by (symmetry; apply Z.eqb_neq; lia).
  replace (zlen lst <=? t)%Z with true by (symmetry; apply Z.leb_le; lia). rewrite orb_true_r. reflexivity.
Qed.

Lemma merged_single : forall r,
  r_data r <> [] -> (zlen (r_data r) <= 2 ^ 53)%Z -> merged_values [r] 1 = sortQ (r_data r).
Proof.
  intros r Hne H. unfold merged_values. cbn [map concat]. rewrite target_size_one.
  - rewrite downsample_all by (assumption || lia). rewrite app_nil_r. reflexivity.
  - unfold zlen in *. lia.
Qed.

Lemma key_fold_skip : forall now sel k srcs a,
  (forall s, In s (keys srcs) -> sel s <> k) -> key_fold now sel k srcs a = ROk a.
Proof.
  intros now sel k srcs. induction srcs as [|[s c] r IH]; intros a H; cbn; [reflexivity|].
  destruct (key_eqb (sel s) k) eqn:E.
  - apply key_eqb_spec in E. exfalso. apply (H s); [left; reflexivity|exact E].
  - apply IH. intros s' Hs'. apply H. right. exact Hs'.
Qed.

Lemma key_fold_single : forall now sel srcs s r,
  NoDup (keys srcs) -> alookup src_eqb s srcs = Some (Res r) ->
  (forall s', In s' (keys srcs) -> sel s' = sel s -> s' = s) ->
  (now - r_last r < MAX_AGG_AGE)%Z ->
  key_fold now sel (sel s) srcs None = ROk (Some {| a_work := WList [r]; a_count := 1 |}).
Proof.
  intros now sel srcs s r. induction srcs as [|[s' c'] rest IH]; intros Hn Hl Hu Hf; cbn in *; [discriminate|].
  inversion Hn as [|x l Hx Hr]; subst. destruct (src_eqb s s') eqn:E.
  - apply src_eqb_spec in E. subst s'. inversion Hl; subst c'. rewrite (eqb_refl _ key_eqb_spec). cbn.
    replace (now - r_last r <? MAX_AGG_AGE)%Z with true by (symmetry; apply Z.ltb_lt; exact Hf). cbn.
    apply key_fold_skip. intros s2 H2 Hk. assert (s2 = s) by (apply Hu; auto). subst. contradiction.
  - destruct (key_eqb (sel s') (sel s)) eqn:Ek.
    + apply key_eqb_spec in Ek. assert (s' = s) by (apply Hu; auto). subst. rewrite (eqb_refl _ src_eqb_spec) in E. discriminate.
    + apply IH; [exact Hr|exact Hl| |exact Hf]. intros s2 H2. apply Hu. right. exact H2.
Qed.

Definition pval (vs : list Q) (p : Q) : Q := interp vs (inject_Z (zlen vs - 1) * p).

Lemma pct_list_map : forall vs pcts,
  vs <> [] -> Forall (fun p => 0 <= p /\ p <= 1) pcts -> pct_list pcts vs = ROk (map (pval vs) pcts).
Proof.
  intros vs pcts Hne H. unfold pct_list. induction H as [|p r [H0 H1] Hr IH]; cbn; [reflexivity|].
  rewrite (percentile_interp vs p Hne H0 H1). cbn. rewrite IH. reflexivity.
Qed.

Lemma pct_list_nil : forall pcts, pct_list pcts [] = ROk (map (fun _ => 0) pcts).
Proof.
  intros pcts. unfold pct_list. induction pcts as [|p r IH]; [reflexivity|]. cbn [rmap map].
  change (percentile [] p) with (Some 0). cbn [rbind]. rewrite IH. reflexivity.
Qed.

Lemma avg_not_sum : forall ty, is_avg_type ty = true -> is_sum_type ty = false.
Proof.
  intros ty. unfold is_avg_type, is_sum_type, T_AverageTimer, T_AverageRate, T_AggregateTimer, T_Counter, T_Gauge, T_Rate.
  rewrite orb_true_iff, !Z.eqb_eq. intros [->| ->]; reflexivity.
Qed.

Lemma agg_metric_single : forall sel now pcts ty srcs out s r,
  is_avg_type ty = true -> agg_metric sel now pcts ty srcs = ROk out ->
  NoDup (keys srcs) -> alookup src_eqb s srcs = Some (Res r) ->
  (forall s', In s' (keys srcs) -> sel s' = sel s -> s' = s) ->
  (now - r_last r < MAX_AGG_AGE)%Z -> r_data r <> [] -> (zlen (r_data r) <= 2 ^ 53)%Z ->
  Forall (fun p => 0 <= p /\ p <= 1) pcts ->
  let vs := sortQ (r_data r) in
  alookup key_eqb (sel s) out = Some (TPcts (mean vs :: map (pval vs) pcts) (maxabs vs), 1%Z).
Proof.
  intros sel now pcts ty srcs out s r Hty H Hn Hl Hu Hf Hne Hlen Hp vs. rewrite agg_metric_unfold in H.
  destruct (agg_sources sel now srcs []) as [acc|e] eqn:Ea; cbn in H; [|discriminate].
  pose proof (agg_sources_spec _ _ _ _ _ Ea (sel s)) as Hk. cbn [alookup] in Hk.
  rewrite (key_fold_single now sel srcs s r Hn Hl Hu Hf) in Hk. inversion Hk as [Hk'].
  pose proof (rmap_fin_lookup _ _ _ _ H (sel s)) as Hfin. rewrite <- Hk' in Hfin. destruct Hfin as (t & Ft & Lt).
  rewrite Lt. f_equal. unfold finalize in Ft. rewrite (avg_not_sum _ Hty), Hty in Ft. cbn [a_count a_work] in Ft.
  change (0 <? 1)%Z with true in Ft. cbn iota in Ft. rewrite (merged_single r Hne Hlen) in Ft. fold vs in Ft.
  rewrite (pct_list_map vs pcts (sortQ_nonempty _ Hne) Hp) in Ft. cbn in Ft. inversion Ft. reflexivity.
Qed.

Lemma fold_plus_bounds : forall (lo hi : Q) l acc,
  (forall x, In x l -> lo <= x /\ x <= hi) ->
  acc + inject_Z (zlen l) * lo <= fold_left Qplus l acc /\ fold_left Qplus l acc <= acc + inject_Z (zlen l) * hi.
Proof.
  intros lo hi l. induction l as [|x r IH]; intros acc H.
  - cbn. split; ring_simplify; apply Qle_refl.
  - cbn [fold_left]. destruct (IH (acc + x)) as [A B]; [intros y Hy; apply H; right; exact Hy|].
    destruct (H x (or_introl eq_refl)) as [X0 X1].
    assert (E : inject_Z (zlen (x :: r)) == inject_Z (zlen r) + 1).
    { unfold zlen. cbn [length]. rewrite Nat2Z.inj_succ, <- Z.add_1_r, inject_Z_plus. reflexivity. }
    rewrite E. set (N := inject_Z (zlen r)) in *. split; nra.
Qed.

Lemma mean_bounds : forall vs lo hi,
  vs <> [] -> (forall x, In x vs -> lo <= x /\ x <= hi) -> lo <= mean vs /\ mean vs <= hi.
Proof.
  intros vs lo hi Hne H. unfold mean. destruct vs as [|x r]; [congruence|]. set (vs := x :: r) in *.
  rewrite Qred_correct. destruct (fold_plus_bounds lo hi vs 0 H) as [A B]. fold (sumQ vs) in A, B.
  assert (P : 0 < inject_Z (zlen vs)).
  { change 0 with (inject_Z 0). rewrite <- Zlt_Qlt. pose proof (zlen_pos vs Hne). lia. }
  split.
  - apply Qle_shift_div_l; [exact P|]. nra.
  - apply Qle_shift_div_r; [exact P|]. nra.
Qed.

Lemma pval_bounds : forall vs p lo hi,
  vs <> [] -> 0 <= p -> p <= 1 -> (forall x, In x vs -> lo <= x /\ x <= hi) -> lo <= pval vs p /\ pval vs p <= hi.
Proof.
  intros vs p lo hi Hne H0 H1 Hb. destruct (pct_k_range _ p (zlen_pos vs Hne) H0 H1) as [K0 K1].
  apply interp_bounds; assumption.
Qed.

Lemma pval_mono : forall vs p p',
  sorted_nth vs -> vs <> [] -> 0 <= p -> p <= p' -> p' <= 1 -> pval vs p <= pval vs p'.
Proof.
  intros vs p p' Hs Hne H0 Hpp H1.
  assert (H1' : p <= 1) by (apply Qle_trans with p'; assumption).
  assert (H0' : 0 <= p') by (apply Qle_trans with p; assumption).
  destruct (pct_k_range _ p (zlen_pos vs Hne) H0 H1') as [K0 K1].
  destruct (pct_k_range _ p' (zlen_pos vs Hne) H0' H1) as [K0' K1'].
  apply interp_mono; try assumption.
  assert (H : 0 <= inject_Z (zlen vs - 1)).
  { change 0 with (inject_Z 0). rewrite <- Zle_Qle. pose proof (zlen_pos vs Hne). lia. }
  nra.
Qed.

(* ---- well-typed histories never raise ------------------------------------------------------- *)
Definition typed_label (types : list (Z * Z)) (l : label) : Prop :=
  match label_metric l with
  | Some m => match alookup Z.eqb m types with
              | Some ty => label_kind l = Some (kind_of_type ty)
              | None => True
              end
  | None => True
  end.
Definition typed (types : list (Z * Z)) (ops : list label) : Prop := Forall (typed_label types) ops.

Definition series_ok (k : kind) (srcs : series) : Prop :=
  match k with KSample => all_res srcs | _ => all_num srcs end.

Definition entry_ok (types : list (Z * Z)) (ms : Z * series) : Prop :=
  match alookup Z.eqb (fst ms) types with
  | Some ty => series_ok (kind_of_type ty) (snd ms)
  | None => True
  end.
Definition data_ok (types : list (Z * Z)) (data : list (Z * series)) : Prop := Forall (entry_ok types) data.

Lemma get_series_ok : forall types st m ty,
  data_ok types (st_data st) -> alookup Z.eqb m types = Some ty -> series_ok (kind_of_type ty) (get_series st m).
Proof.
  intros types st m ty H Hty. unfold get_series. destruct (alookup Z.eqb m (st_data st)) as [l|] eqn:E.
  - apply (alookup_in _ Zeqb_spec) in E. unfold data_ok in H. rewrite Forall_forall in H. specialize (H _ E).
    unfold entry_ok in H. cbn in H. rewrite Hty in H. exact H.
  - destruct (kind_of_type ty); constructor.
Qed.

Lemma series_step_typed : forall cap now l srcs k,
  label_kind l = Some k -> series_ok k srcs ->
  series_ok k (fst (series_step cap now l srcs)) /\ snd (series_step cap now l srcs) <> ErrType /\
  snd (series_step cap now l srcs) <> ErrAttr.
Proof.
  intros cap now l srcs k Hk Hs. destruct l; cbn in Hk; inversion Hk; subst k; cbn [series_ok] in *; cbn [series_step].
  - destruct (all_num_cur_cell s _ Hs) as [q ->]. cbn. split; [|split; discriminate].
    apply (Forall_aset _ src_eqb_spec); [cbn; eauto|exact Hs].
  - cbn. split; [|split; discriminate]. apply (Forall_aset _ src_eqb_spec); [cbn; eauto|exact Hs].
  - destruct (all_res_cur_cell s _ Hs) as [[r ->]| ->].
    + destruct (sample cap now r v rnd) as [r'|]; cbn; (split; [|split; discriminate]); [|exact Hs].
      apply (Forall_aset _ src_eqb_spec); [cbn; eauto|exact Hs].
    + change (Qeq_bool 0 0) with true. cbn iota.
      destruct (sample cap now (fresh_reservoir now) v rnd) as [r'|]; cbn; (split; [|split; discriminate]); [|exact Hs].
      apply (Forall_aset _ src_eqb_spec); [cbn; eauto|exact Hs].
Qed.

Lemma step_typed : forall cap types st l,
  typed_label types l -> data_ok types (st_data st) ->
  data_ok types (st_data (fst (step cap st l))) /\
  (forall m ty, label_metric l = Some m -> alookup Z.eqb m types = Some ty ->
                snd (step cap st l) <> ErrType /\ snd (step cap st l) <> ErrAttr).
Proof.
  intros cap types st l Ht Hd. unfold step. unfold typed_label in Ht. destruct (label_metric l) as [m|] eqn:Em.
  - destruct (series_step cap (st_now st) l (get_series st m)) as [srcs' o] eqn:Es.
    destruct (alookup Z.eqb m types) as [ty|] eqn:Ety.
    + destruct (series_step_typed cap (st_now st) l (get_series st m) _ Ht (get_series_ok _ _ _ _ Hd Ety)) as (A & B & C).
      rewrite Es in A, B, C. cbn [fst snd] in A, B, C. destruct o; cbn [fst snd]; try congruence.
      * split; [|intros; split; discriminate]. apply (Forall_aset _ Zeqb_spec); [|exact Hd]. unfold entry_ok. cbn. rewrite Ety. exact A.
      * split; [exact Hd|intros; split; discriminate].
    + split; [|intros m' ty' Hm Hty; inversion Hm; subst m'; congruence].
      destruct o; cbn [fst st_data]; try exact Hd.
      apply (Forall_aset _ Zeqb_spec); [|exact Hd]. unfold entry_ok. cbn. rewrite Ety. exact I.
  - split; [|intros; discriminate]. destruct l; exact Hd.
Qed.

Lemma exec_typed : forall cap types ops st,
  typed types ops -> data_ok types (st_data st) -> data_ok types (st_data (exec cap st ops)).
Proof.
  intros cap types ops. induction ops as [|l r IH]; intros st Ht Hd; cbn; [exact Hd|].
  inversion Ht; subst. apply IH; [assumption|]. apply step_typed; assumption.
Qed.

(* Aggregate on well-typed data *)
Definition agg_num_ok (ka : key * aggst) : Prop := exists w n, snd ka = {| a_work := WNum w; a_count := n |} /\ (1 <= n)%Z.
Definition agg_list_ok (ka : key * aggst) : Prop := exists l n, snd ka = {| a_work := WList l; a_count := n |}.

Lemma agg_sources_num_ok : forall sel now srcs acc,
  all_num srcs -> Forall agg_num_ok acc ->
  exists out, agg_sources sel now srcs acc = ROk out /\ Forall agg_num_ok out.
Proof.
  intros sel now srcs. induction srcs as [|[s c] r IH]; intros acc Hn Ha; cbn; [eauto|].
  inversion Hn as [|x l [q Hq] Hr]; subst. cbn in Hq. subst c.
  assert (E : exists w n, match alookup key_eqb (sel s) acc with Some a => a | None => new_agg (Num q) end =
                          {| a_work := WNum w; a_count := n |} /\ (0 <= n)%Z).
  { destruct (alookup key_eqb (sel s) acc) as [a|] eqn:El.
    - apply (alookup_in _ key_eqb_spec) in El. rewrite Forall_forall in Ha. destruct (Ha _ El) as (w & n & E & Hc).
      cbn in E. exists w, n. split; [exact E|lia].
    - exists 0, 0%Z. split; [reflexivity|lia]. }
  destruct E as (w & n & -> & Hc). cbn. apply IH; [exact Hr|].
  apply (Forall_aset _ key_eqb_spec); [|exact Ha]. exists (Qred (w + q)), (n + 1)%Z. split; [reflexivity|lia].
Qed.

Lemma agg_sources_list_ok : forall sel now srcs acc,
  all_res srcs -> Forall agg_list_ok acc ->
  exists out, agg_sources sel now srcs acc = ROk out /\ Forall agg_list_ok out.
Proof.
  intros sel now srcs. induction srcs as [|[s c] r IH]; intros acc Hn Ha; cbn; [eauto|].
  inversion Hn as [|x l [rr Hq] Hr]; subst. cbn in Hq. subst c.
  assert (E : exists l n, match alookup key_eqb (sel s) acc with Some a => a | None => new_agg (Res rr) end =
                          {| a_work := WList l; a_count := n |}).
  { destruct (alookup key_eqb (sel s) acc) as [a|] eqn:El.
    - apply (alookup_in _ key_eqb_spec) in El. rewrite Forall_forall in Ha. destruct (Ha _ El) as (l & n & E). cbn in E. eauto.
    - exists [], 0%Z. reflexivity. }
  destruct E as (l & n & ->). cbn. destruct (now - r_last rr <? MAX_AGG_AGE)%Z; cbn; apply IH; try exact Hr;
    (apply (Forall_aset _ key_eqb_spec); [|exact Ha]); unfold agg_list_ok; cbn; eauto.
Qed.

Lemma pct_list_ok : forall pcts vs, Forall (fun p => 0 <= p /\ p <= 1) pcts -> exists ps, pct_list pcts vs = ROk ps.
Proof.
  intros pcts vs H. destruct vs as [|x r].
  - rewrite pct_list_nil. eauto.
  - rewrite (pct_list_map (x :: r) pcts); [eauto|discriminate|exact H].
Qed.

Lemma kind_sample_avg : forall ty, kind_of_type ty = KSample <-> is_avg_type ty = true.
Proof.
  intros ty. unfold kind_of_type, is_avg_type. destruct (ty =? T_Gauge)%Z eqn:E.
  - apply Z.eqb_eq in E. subst ty. cbn. split; discriminate.
  - destruct ((ty =? T_AverageTimer)%Z || (ty =? T_AverageRate)%Z); split; congruence.
Qed.

Lemma agg_metric_ok : forall sel now pcts ty srcs,
  Forall (fun p => 0 <= p /\ p <= 1) pcts -> series_ok (kind_of_type ty) srcs ->
  exists out, agg_metric sel now pcts ty srcs = ROk out.
Proof.
  intros sel now pcts ty srcs Hp Hs. rewrite agg_metric_unfold. destruct (kind_of_type ty) eqn:Ek.
  1, 2: assert (Ha : is_avg_type ty = false)
    by (destruct (is_avg_type ty) eqn:E; [apply kind_sample_avg in E; congruence|reflexivity]);
    cbn in Hs; destruct (agg_sources_num_ok sel now srcs [] Hs (Forall_nil _)) as (acc & -> & Hacc); cbn [rbind];
    apply rmap_ok; intros [k a] Hin; rewrite Forall_forall in Hacc; destruct (Hacc _ Hin) as (w & n & E & Hc); cbn in E; subst a;
    unfold fin_entry, finalize; cbn [snd fst a_work a_count]; rewrite Ha;
    replace (n =? 0)%Z with false by (symmetry; apply Z.eqb_neq; lia);
    destruct (is_sum_type ty); cbn; eauto.
  assert (Ha : is_avg_type ty = true) by (apply kind_sample_avg; exact Ek).
  cbn in Hs. destruct (agg_sources_list_ok sel now srcs [] Hs (Forall_nil _)) as (acc & -> & Hacc). cbn [rbind].
  apply rmap_ok. intros [k a] Hin. rewrite Forall_forall in Hacc. destruct (Hacc _ Hin) as (l & n & E). cbn in E. subst a.
  unfold fin_entry, finalize. cbn [snd fst a_work a_count]. rewrite (avg_not_sum _ Ha), Ha.
  destruct (0 <? n)%Z.
  - destruct (pct_list_ok pcts (merged_values l n) Hp) as [ps ->]. cbn. eauto.
  - destruct (pct_list_ok pcts [] Hp) as [ps ->]. cbn. eauto.
Qed.

Lemma aggregate_ok : forall sel now pcts types data,
  Forall (fun p => 0 <= p /\ p <= 1) pcts -> data_ok types data ->
  exists out, aggregate sel now pcts types data = ROk out.
Proof.
  intros sel now pcts types data Hp. induction data as [|[m srcs] r IH]; intros Hd; cbn; [eauto|].
  inversion Hd as [|x l Hx Hr]; subst. destruct (IH Hr) as [xs Exs]. unfold entry_ok in Hx. cbn in Hx.
  destruct (alookup Z.eqb m types) as [ty|]; [|eauto].
  destruct (agg_metric_ok sel now pcts ty srcs Hp Hx) as [x ->]. cbn. rewrite Exs. cbn. eauto.
Qed.

(* ---- the reservoir -------------------------------------------------------------------------- *)
Lemma in_tl : forall {A} (l : list A) x, In x (tl l) -> In x l.
Proof. intros A [|a l] x H; [exact H|right; exact H]. Qed.

Lemma zlen_app1 : forall {A} (l : list A) v, zlen (l ++ [v]) = (zlen l + 1)%Z.
Proof. intros. unfold zlen. rewrite app_length. cbn. lia. Qed.

Lemma push_in : forall cap data v x, In x (push cap data v) -> In x data \/ x = v.
Proof.
  intros cap data v x. unfold push. intros H.
  assert (H' : In x (data ++ [v])) by (destruct (cap <? zlen (data ++ [v]))%Z; [apply in_tl|]; exact H).
  apply in_app_iff in H'. destruct H' as [H'|[H'|[]]]; auto.
Qed.

Lemma push_len : forall cap data v, (zlen data <= cap)%Z -> (zlen (push cap data v) <= cap)%Z.
Proof.
  intros cap data v H. unfold push. destruct (Z.ltb_spec cap (zlen (data ++ [v]))) as [L|L]; [|exact L].
  rewrite zlen_app1 in L. destruct data as [|a d]; cbn [app tl].
  - unfold zlen in *. cbn in *. lia.
  - rewrite zlen_app1. unfold zlen in *. cbn [length] in H. lia.
Qed.

Lemma push_nonempty : forall cap data v, (1 <= cap)%Z -> push cap data v <> [].
Proof.
  intros cap data v Hc. unfold push. destruct (Z.ltb_spec cap (zlen (data ++ [v]))) as [L|L].
  - rewrite zlen_app1 in L. destruct data as [|a d]; [unfold zlen in L; cbn in L; lia|]. cbn. destruct d; discriminate.
  - destruct data; discriminate.
Qed.

Definition res_inv (cap : Z) (r : reservoir) : Prop :=
  (zlen (r_data r) <= cap)%Z /\ (0 <= r_i r)%Z /\ ((0 < r_i r)%Z -> r_data r <> []).

Lemma fresh_inv : forall cap now, (0 <= cap)%Z -> res_inv cap (fresh_reservoir now).
Proof. intros cap now H. unfold res_inv, fresh_reservoir, zlen. cbn. repeat split; lia. Qed.

Lemma sample_inv : forall cap now r v rnd r',
  (1 <= cap)%Z -> res_inv cap r -> sample cap now r v rnd = Some r' ->
  res_inv cap r' /\ r_data r' <> [] /\ (forall x, In x (r_data r') -> In x (r_data r) \/ x = v).
Proof.
  intros cap now r v rnd r' Hc (I1 & I2 & I3) H. unfold sample in H.
  assert (P : res_inv cap {| r_data := push cap (r_data r) v; r_i := r_i r + 1; r_last := now |} /\
              push cap (r_data r) v <> [] /\ (forall x, In x (push cap (r_data r) v) -> In x (r_data r) \/ x = v)).
  { split; [|split; [apply push_nonempty; exact Hc|apply push_in]]. unfold res_inv. cbn.
    split; [apply push_len; exact I1|]. split; [lia|]. intros _. apply push_nonempty. exact Hc. }
  destruct (Z.ltb_spec (r_i r) cap) as [L|L].
  - destruct rnd; [discriminate|]. inversion H; subst r'. exact P.
  - destruct rnd as [j|]; [|discriminate]. destruct (Qle_bool 0 j && Qlt_bool j 1); [|discriminate].
    destruct (Qlt_bool j P_KEEP); inversion H; subst r'; [exact P|]. cbn.
    assert (N : r_data r <> []) by (apply I3; lia). split; [|split; [exact N|auto]].
    unfold res_inv. cbn. split; [exact I1|]. split; [lia|]. intros _. exact N.
Qed.

Fixpoint sampled (m : Z) (ops : list label) : list (source * Q) :=
  match ops with
  | [] => []
  | Sample m' s v _ :: r => if Z.eqb m m' then (s, v) :: sampled m r else sampled m r
  | _ :: r => sampled m r
  end.

Definition res_series (cap : Z) (P : source -> Q -> Prop) (srcs : series) : Prop :=
  Forall (fun sc : source * cell => exists r, snd sc = Res r /\ res_inv cap r /\ r_data r <> [] /\
                                   forall x, In x (r_data r) -> P (fst sc) x) srcs.

Lemma res_series_weaken : forall cap (P P' : source -> Q -> Prop) srcs,
  (forall s x, P s x -> P' s x) -> res_series cap P srcs -> res_series cap P' srcs.
Proof.
  intros cap P P' srcs H Hs. unfold res_series in *. eapply Forall_impl; [|exact Hs]. intros [s c] (r & E & I & N & X).
  exists r. split; [exact E|]. split; [exact I|]. split; [exact N|]. intros x Hx. apply H. apply X. exact Hx.
Qed.

Lemma res_series_lookup : forall cap P srcs s,
  res_series cap P srcs ->
  match alookup src_eqb s srcs with
  | Some c => exists r, c = Res r /\ res_inv cap r /\ r_data r <> [] /\ forall x, In x (r_data r) -> P s x
  | None => True
  end.
Proof.
  intros cap P srcs s H. destruct (alookup src_eqb s srcs) as [c|] eqn:E; [|exact I].
  apply (alookup_in _ src_eqb_spec) in E. unfold res_series in H. rewrite Forall_forall in H. apply (H _ E).
Qed.

Lemma exec_sample_inv : forall cap m ops st (P : source -> Q -> Prop),
  (1 <= cap)%Z -> sample_only m ops -> res_series cap P (get_series st m) ->
  res_series cap (fun s x => P s x \/ In (s, x) (sampled m ops)) (get_series (exec cap st ops) m).
Proof.
  intros cap m ops. induction ops as [|l r IH]; intros st P Hc Hs Hi.
  - cbn. apply (res_series_weaken cap P); [auto|exact Hi].
  - inversion Hs as [|l' r' Hl Hr]; subst. cbn [exec].
    set (P' := fun s x => P s x \/ In (s, x) (sampled m [l])).
    assert (S : res_series cap P' (get_series (fst (step cap st l)) m)).
    { rewrite get_series_step. destruct (on_metric l m) eqn:E.
      - destruct (Hl eq_refl) as (s & v & rnd & ->). cbn [series_step].
        pose proof (res_series_lookup cap P _ s Hi) as L. unfold cur_cell.
        assert (W : res_series cap P' (get_series st m)) by (apply (res_series_weaken cap P); [unfold P'; auto|exact Hi]).
        assert (G : forall r0, res_inv cap r0 -> (forall x, In x (r_data r0) -> P s x) ->
                    res_series cap P' (fst match sample cap (st_now st) r0 v rnd with
                                           | Some r' => (aset src_eqb s (Res r') (get_series st m), OK)
                                           | None => (get_series st m, BadRnd)
                                           end)).
        { intros r0 I0 X0. destruct (sample cap (st_now st) r0 v rnd) as [r'|] eqn:Es; cbn [fst]; [|exact W].
          destruct (sample_inv _ _ _ _ _ _ Hc I0 Es) as (I' & N' & X').
          apply (Forall_aset _ src_eqb_spec); [|exact W]. exists r'. cbn [fst snd]. split; [reflexivity|]. split; [exact I'|]. split; [exact N'|].
          intros x Hx. unfold P'. destruct (X' x Hx) as [Hx'| ->]; [left; apply X0; exact Hx'|].
          right. cbn. rewrite Z.eqb_refl. left. reflexivity. }
        destruct (alookup src_eqb s (get_series st m)) as [c|].
        + destruct L as (r0 & -> & I0 & N0 & X0). apply G; assumption.
        + change (Qeq_bool 0 0) with true. cbn iota. apply G; [apply fresh_inv; lia|intros x []].
      - apply (res_series_weaken cap P); [unfold P'; auto|exact Hi]. }
    apply (res_series_weaken cap (fun s x => P' s x \/ In (s, x) (sampled m r))); [|apply IH; assumption].
    intros s x [[H|H]|H]; [left; exact H| |].
    + right. destruct l; cbn in H; try destruct H. cbn. destruct (Z.eqb m m0); [|destruct H].
      destruct H as [H|[]]. left. exact H.
    + right. destruct l; cbn; try exact H. destruct (Z.eqb m m0); [right|]; exact H.
Qed.

(* ---- Aggregate interleaved with other greenlets' updates ------------------------------------- *)
Lemma exec_app : forall cap a b st, exec cap st (a ++ b) = exec cap (exec cap st a) b.
Proof. intros cap a. induction a as [|l r IH]; intros b st; cbn; [reflexivity|apply IH]. Qed.

Lemma alookup_nodup_in : forall {V} (l : list (Z * V)) m v,
  NoDup (map fst l) -> In (m, v) l -> alookup Z.eqb m l = Some v.
Proof.
  intros V l m v. induction l as [|[m' v'] r IH]; intros Hn Hin; [destruct Hin|]. cbn in *.
  inversion Hn as [|x y Hx Hy]; subst. destruct Hin as [E|Hin].
  - inversion E; subst. rewrite Z.eqb_refl. reflexivity.
  - destruct (Z.eqb m m') eqn:E; [|apply IH; assumption].
    apply Z.eqb_eq in E. subst m'. exfalso. apply Hx. apply (in_map fst) in Hin. exact Hin.
Qed.

Lemma step_data_nodup : forall cap st l, NoDup (map fst (st_data st)) -> NoDup (map fst (st_data (fst (step cap st l)))).
Proof.
  intros cap st l H. unfold step. destruct (label_metric l) as [m|].
  - destruct (series_step cap (st_now st) l (get_series st m)) as [srcs' o]. destruct o; cbn; try exact H.
    apply (NoDup_aset _ Zeqb_spec). exact H.
  - destruct l; exact H.
Qed.

Lemma exec_data_nodup : forall cap ops st, NoDup (map fst (st_data st)) -> NoDup (map fst (st_data (exec cap st ops))).
Proof.
  intros cap ops. induction ops as [|l r IH]; intros st H; cbn; [exact H|]. apply IH. apply step_data_nodup. exact H.
Qed.

(* without concurrent updates the interleaved Aggregate is the atomic one *)
Lemma aggregate_il_nil_gen : forall cap sel now pcts types st l,
  (forall m srcs, In (m, srcs) l -> get_series st m = srcs) ->
  aggregate_il cap sel now pcts types (map fst l) st [] = (st, aggregate sel now pcts types l).
Proof.
  intros cap sel now pcts types st l. induction l as [|[m srcs] r IH]; intros H; cbn; [reflexivity|].
  assert (Hr : forall m0 srcs0, In (m0, srcs0) r -> get_series st m0 = srcs0) by (intros; apply H; right; assumption).
  destruct (alookup Z.eqb m types) as [ty|]; [|apply IH; exact Hr].
  rewrite (H m srcs (or_introl eq_refl)). destruct (agg_metric sel now pcts ty srcs) as [x|e]; cbn; [|reflexivity].
  rewrite (IH Hr). reflexivity.
Qed.

Lemma aggregate_il_nil : forall cap sel now pcts types st,
  NoDup (map fst (st_data st)) ->
  aggregate_il cap sel now pcts types (map fst (st_data st)) st [] = (st, aggregate sel now pcts types (st_data st)).
Proof.
  intros cap sel now pcts types st H. apply aggregate_il_nil_gen. intros m srcs Hin.
  unfold get_series. rewrite (alookup_nodup_in _ _ _ H Hin). reflexivity.
Qed.

(* whatever Aggregate reports for a metric was computed from that metric's series after some prefix
   of the concurrent batches *)
Lemma aggregate_il_prefix : forall cap sel now pcts types names st sched st' out m ty per,
  aggregate_il cap sel now pcts types names st sched = (st', ROk out) ->
  alookup Z.eqb m types = Some ty -> alookup Z.eqb m out = Some per ->
  exists j, (j <= length sched)%nat /\
    agg_metric sel now pcts ty (get_series (exec cap st (concat (firstn j sched))) m) = ROk per.
Proof.
  intros cap sel now pcts types names. induction names as [|m' r IH]; intros st sched st' out m ty per H Hty Hl; cbn in H.
  - inversion H; subst. discriminate.
  - destruct (alookup Z.eqb m' types) as [ty'|] eqn:Et; [|apply (IH _ _ _ _ _ _ _ H Hty Hl)].
    set (st1 := match sched with b :: _ => exec cap st b | [] => st end) in *.
    destruct (agg_metric sel now pcts ty' (get_series st1 m')) as [x|e] eqn:Ex; [|inversion H].
    destruct (aggregate_il cap sel now pcts types r st1 (tl sched)) as [st2 rest] eqn:Er.
    destruct rest as [xs|e]; cbn in H; inversion H; subst st' out. cbn in Hl.
    destruct (Z.eqb m m') eqn:E.
    + apply Z.eqb_eq in E. subst m'. inversion Hl; subst per. rewrite Hty in Et. inversion Et; subst ty'.
      destruct sched as [|b bs].
      * exists 0%nat. split; [cbn; lia|]. cbn. exact Ex.
      * exists 1%nat. split; [cbn; lia|]. cbn [firstn concat]. rewrite app_nil_r. exact Ex.
    + destruct (IH _ _ _ _ _ _ _ Er Hty Hl) as (j & Hj & Hp). destruct sched as [|b bs].
      * exists 0%nat. split; [cbn; lia|]. cbn in Hp. rewrite firstn_nil in Hp. cbn in Hp. cbn. exact Hp.
      * exists (S j). split; [cbn in *; lia|]. cbn [firstn concat]. rewrite exec_app. exact Hp.
Qed.

Lemma key_present_dec : forall (sel : source -> key) k (srcs : series),
  (exists s, In s (keys srcs) /\ sel s = k) \/ (forall s, In s (keys srcs) -> sel s <> k).
Proof.
  intros sel k srcs. induction srcs as [|[s c] r IH].
  - right. intros s [].
  - destruct (key_eqb (sel s) k) eqn:E.
    + apply key_eqb_spec in E. left. exists s. split; [left; reflexivity|exact E].
    + destruct IH as [(s0 & Hin & Hk)|Hno].
      * left. exists s0. split; [right; exact Hin|exact Hk].
      * right. intros s0 [<-|Hin]; [|apply Hno; exact Hin]. cbn. intros Hk. rewrite Hk, (eqb_refl _ key_eqb_spec) in E. discriminate.
Qed.
