(* Proofs about the transport models (C08). *)
From Scales Require Import Model.Base Model.Transport.
Local Open Scope Z_scope.

Lemma mem_z_true c l : mem_z c l = true <-> In c l.
Proof.
  unfold mem_z. rewrite existsb_exists. split.
  - intros (x & Hx & E). apply Z.eqb_eq in E. subst. assumption.
  - intros H. exists c. split; [assumption | apply Z.eqb_refl].
Qed.

Lemma mem_z_false c l : mem_z c l = false <-> ~ In c l.
Proof.
  split.
  - intros H X. apply mem_z_true in X. congruence.
  - intros H. destruct (mem_z c l) eqn:E; [|reflexivity]. apply mem_z_true in E. contradiction.
Qed.

Lemma remove_z_in c x l : In x (remove_z c l) <-> In x l /\ x <> c.
Proof.
  induction l as [|y l IH]; cbn.
  - tauto.
  - destruct (Z.eqb_spec y c) as [E|E].
    + subst. rewrite IH. split; [tauto|]. intros [[H|H] N]; [congruence | tauto].
    + cbn. rewrite IH. split.
      * intros [H|H]; [subst; split; [left; reflexivity | assumption] | tauto].
      * intros [[H|H] N]; [left; assumption | right; tauto].
Qed.

Lemma remove_z_nodup c l : NoDup l -> NoDup (remove_z c l).
Proof.
  induction 1 as [|y l Hy Hl IH]; cbn; [constructor|].
  destruct (Z.eqb_spec y c); [assumption|]. constructor; [|assumption].
  intros X. apply remove_z_in in X. tauto.
Qed.

(* ================================================================================================= *)
Module SerialP.
Import Serial.

(* ---- counting events ---- *)
Fixpoint nposts (c : Z) (e : list ev) : nat :=
  match e with
  | [] => O
  | Post c' _ :: r => ((if (c' =? c)%Z then 1 else 0) + nposts c r)%nat
  | _ :: r => nposts c r
  end.
Fixpoint acc (c : Z) (e : list ev) : bool :=
  match e with [] => false | Accepted c' :: r => (c' =? c) || acc c r | _ :: r => acc c r end.
Fixpoint kil (c : Z) (e : list ev) : bool :=
  match e with [] => false | Killed c' :: r => (c' =? c) || kil c r | _ :: r => kil c r end.

Lemma nposts_app c a b : nposts c (a ++ b) = (nposts c a + nposts c b)%nat.
Proof. induction a as [|x a IH]; cbn; [reflexivity|]. destruct x; rewrite ?IH; try destruct (_ =? _); lia. Qed.
Lemma acc_app c a b : acc c (a ++ b) = acc c a || acc c b.
Proof. induction a as [|x a IH]; cbn; [reflexivity|]. destruct x; rewrite ?IH, ?orb_assoc; reflexivity. Qed.
Lemma kil_app c a b : kil c (a ++ b) = kil c a || kil c b.
Proof. induction a as [|x a IH]; cbn; [reflexivity|]. destruct x; rewrite ?IH, ?orb_assoc; reflexivity. Qed.
Lemma nfaults_app a b : nfaults (a ++ b) = nfaults a + nfaults b.
Proof. induction a as [|x a IH]; cbn [nfaults app]; [reflexivity|]. destruct x; rewrite ?IH; lia. Qed.
Lemma posts_app a b : posts (a ++ b) = posts a ++ posts b.
Proof. induction a as [|x a IH]; cbn; [reflexivity|]. destruct x; rewrite ?IH; reflexivity. Qed.

Lemma acc_in c e : acc c e = true <-> In (Accepted c) e.
Proof.
  induction e as [|x e IH]; cbn; [split; [discriminate | tauto]|].
  destruct x; rewrite ?orb_true_iff, ?IH; try (split; [intros H; right; exact H | intros [H|H]; [discriminate | exact H]]).
  rewrite Z.eqb_eq. split; intros [H|H]; try (left; congruence); right; assumption.
Qed.
Lemma kil_in c e : kil c e = true <-> In (Killed c) e.
Proof.
  induction e as [|x e IH]; cbn; [split; [discriminate | tauto]|].
  destruct x; rewrite ?orb_true_iff, ?IH; try (split; [intros H; right; exact H | intros [H|H]; [discriminate | exact H]]).
  rewrite Z.eqb_eq. split; intros [H|H]; try (left; congruence); right; assumption.
Qed.

(* ---- state invariant of reachable states (under the owner contract) ---- *)
Record Inv (s : st) : Prop := {
  i_a : sk s = SConn -> wopen s = true;
  i_b : sk s = SConnecting -> opn s = Some OConn \/ exists c, proc s = Some (c, Reconn);
  i_c : sk s = SNone -> cst s <> Open;
  i_d : opn s <> None -> proc s = None;
  i_f : forall c stg, proc s = Some (c, stg) -> mem_z c (seen s) = true;
}.

Lemma inv_init : Inv init.
Proof. constructor; cbn; try discriminate; try tauto; intros; discriminate. Qed.

Ltac inv_some H := inversion H; subst; clear H.

Ltac brk :=
  repeat match goal with
  | H : context [match ?x with _ => _ end] |- _ => destruct x eqn:?; try discriminate
  | H : Some _ = Some _ |- _ => inversion H; subst; clear H
  | H : (_, _) = (_, _) |- _ => inversion H; subst; clear H
  end.

Ltac fin :=
  repeat (subst; cbn in *; match goal with
  | H : Some _ = Some _ |- _ => inversion H; clear H
  | H : (_, _) = (_, _) |- _ => inversion H; clear H
  | H : ?a = ?a -> _ |- _ => specialize (H eq_refl)
  | H : ?a <> ?b -> _ |- _ => let X := fresh in assert (X : a <> b) by congruence; specialize (H X)
  | H : _ \/ _ |- _ => destruct H
  | H : exists _, _ |- _ => destruct H
  | H : _ /\ _ |- _ => destruct H
  end); rewrite ?Z.eqb_refl in *; cbn in *; try congruence; try discriminate; try tauto; eauto;
  try match goal with
  | H : forall c stg, _ = Some (c, stg) -> _ |- _ =>
      first [ eapply H; subst; reflexivity | apply orb_true_iff; right; eapply H; subst; reflexivity ]
  end.

Lemma step_inv s l s' e : Inv s -> usage_ok s l = true -> step s l = Some (s', e) -> Inv s'.
Proof.
  intros I U H.
  pose proof (i_a _ I) as Ia; pose proof (i_b _ I) as Ib; pose proof (i_c _ I) as Ic; pose proof (i_d _ I) as Id;
  pose proof (i_f _ I) as If_. clear I.
  destruct s as [k w ch pr ores op sn]; cbn in *.
  destruct l; cbn in *; unfold exn_path, fault, timeout_enter, do_close, wclose, reported, mem_z in *; cbn in *; brk;
  constructor; cbn; intros; first [assumption | solve [auto] | fin].
Qed.

Lemma run_inv ls : forall s s' e, Inv s -> run s ls = Some (s', e) -> Inv s'.
Proof.
  induction ls as [|l ls IH]; intros s s' e I H; cbn in H.
  - inversion H; subst. assumption.
  - destruct (usage_ok s l) eqn:U; [|discriminate]. destruct (step s l) as [[s1 e1]|] eqn:S; [|discriminate].
    destruct (run s1 ls) as [[s2 e2]|] eqn:R; [|discriminate]. inversion H; subst.
    eapply IH; [|exact R]. eapply step_inv; eassumption.
Qed.

(* ---- C08_serial_fail_once ---- *)
Definition fault_label (stg : stage) (l : label) : bool :=
  match stg, l with
  | Writing, LWrite r | ReadHdr, LReadHdr r | ReadBody, LReadBody r => negb (io_ok r)
  | Reconn, LReconn ok => negb ok
  | _, _ => false
  end.

(* what the transport reported when the failing operation began (during the handler's reconnect the handle is
   assigned, so the underlying _state is what counts) *)
Definition pre_reported (s : st) (l : label) : chan :=
  match l with LReconn _ => cst s | _ => reported s end.

Definition fail_kind (l : label) : kind := match l with LReconn _ => KTimeout | _ => KErr end.

Lemma fail_once s c stg l :
  Inv s -> proc s = Some (c, stg) -> fault_label stg l = true ->
  exists s' e, step s l = Some (s', e) /\ posts e = [(c, fail_kind l)] /\ proc s' = None /\ reported s' = Closed /\
    nfaults e = (match pre_reported s l with Closed => 0 | _ => 1 end) /\ sk s' = SNone /\ seen s' = seen s.
Proof.
  intros I P F.
  pose proof (i_a _ I) as Ia; pose proof (i_b _ I) as Ib; pose proof (i_c _ I) as Ic; pose proof (i_d _ I) as Id. clear I.
  destruct s as [k w ch pr ores op sn]; cbn in *. subst pr.
  destruct stg, l; cbn in F; try discriminate;
  match goal with r : io |- _ => destruct r | ok : bool |- _ => destruct ok end; try discriminate;
  unfold step, exn_path, fault, do_close, wclose, reported, pre_reported; cbn;
  destruct k, w, ch; cbn; fin; repeat eexists.
Qed.

(* a failed connect of Open(): closed, fault raised (unless the owner closed the sink before the connect ended) *)
Lemma open_fail s :
  Inv s -> opn s = Some OConn ->
  exists s' e, step s (LOConn false) = Some (s', e) /\ reported s' = Closed /\ sk s' = SNone /\ opn s' = None /\
    posts e = [] /\ (nfaults e = match cst s with Closed => 0 | _ => 1 end).
Proof.
  intros I O. destruct s as [k w ch pr ores op sn]; cbn in *. subst op.
  unfold step, fault, do_close, wclose, reported; cbn. destruct ch, w; cbn; repeat eexists.
Qed.

(* ---- incarnations: every successful Open() - the first or a re-open after Close() / a fault - establishes _state = Open;
   an established incarnation raises on_faulted on every failure and ends only with on_faulted or the owner's Close() ---- *)
Lemma open_ok s :
  opn s = Some OConn ->
  exists s', step s (LOConn true) = Some (s', []) /\ cst s' = Open /\ sk s' = SConn /\ reported s' = Open /\ opn s' = None.
Proof.
  intros O. destruct s as [k w ch pr ores op sn]; cbn in *. subst op. eexists. cbn. repeat split.
Qed.

Lemma established_reported s l : cst s = Open -> pre_reported s l = Open.
Proof.
  intros C. destruct l; cbn; unfold reported; try assumption; destruct (sk s); try reflexivity; assumption.
Qed.

Definition is_close (l : label) : bool := match l with LClose _ => true | _ => false end.

Lemma established_ends s l s' e :
  step s l = Some (s', e) -> cst s = Open ->
  cst s' = Open \/ (cst s' = Closed /\ (nfaults e = 1 \/ is_close l = true)).
Proof.
  intros H C. destruct s as [k w ch pr ores op sn]; cbn in C. subst ch.
  destruct l; cbn in H; unfold exn_path, fault, timeout_enter, do_close, wclose, reported in H; cbn in H; brk; cbn;
  first [left; reflexivity | right; split; [reflexivity | first [left; reflexivity | right; reflexivity]]].
Qed.

Lemma timeout_reopen_ok s c :
  proc s = Some (c, Reconn) ->
  exists s', step s (LReconn true) = Some (s', [Post c KTimeout]) /\ proc s' = None /\ sk s' = SConn /\ reported s' = Open /\
             cst s' = cst s.
Proof.
  intros P. destruct s as [k w ch pr ores op sn]; cbn in *. subst pr. eexists. cbn. repeat split.
Qed.

Lemma timeout_enters s c stg :
  proc s = Some (c, stg) -> stg = Writing \/ stg = ReadHdr \/ stg = ReadBody ->
  exists s', step s LTimeout = Some (s', [ConnBegin]) /\ proc s' = Some (c, Reconn).
Proof.
  intros P H. destruct s as [k w ch pr ores op sn]; cbn in *. subst pr.
  destruct H as [H|[H|H]]; subst; eexists; cbn; split; reflexivity.
Qed.

(* ---- C08_serial_open_means_usable ---- *)
Lemma usable s :
  Inv s -> reported s = Open -> proc s = None -> opn s = None ->
  sk s = SConn /\
  forall c, mem_z c (seen s) = false ->
    usage_ok s (LReq c) = true /\
    exists s1 s2 s3, step s (LReq c) = Some (s1, [Accepted c]) /\ step s1 (LStart false) = Some (s2, []) /\
                     step s2 (LWrite IoOk) = Some (s3, [Wire c]) /\ proc s3 = Some (c, ReadHdr).
Proof.
  intros I R P O.
  pose proof (i_a _ I) as Ia; pose proof (i_b _ I) as Ib; pose proof (i_c _ I) as Ic. clear I.
  destruct s as [k w ch pr ores op sn]; cbn in *. subst pr op. unfold reported in R. cbn in R.
  destruct k; fin.
  split; [reflexivity|]. intros c Hc. split; [reflexivity|]. unfold step. cbn. rewrite Hc. cbn.
  repeat eexists.
Qed.

(* ---- every accepted call gets at most one message, exactly one once it is no longer in flight ---- *)
Definition quiet (e : list ev) : Prop := forall c, nposts c e = O /\ acc c e = false /\ kil c e = false.

Inductive summary (s : st) (l : label) (s' : st) (e : list ev) : Prop :=
| SumQuiet : quiet e -> seen s' = seen s ->
    (proc s' = proc s \/ exists c stg stg', proc s = Some (c, stg) /\ proc s' = Some (c, stg')) -> summary s l s' e
| SumFinish c stg : proc s = Some (c, stg) -> proc s' = None -> seen s' = seen s ->
    (forall c', nposts c' e = if c =? c' then 1%nat else O) -> (forall c', acc c' e = false /\ kil c' e = false) -> summary s l s' e
| SumKill c stg : proc s = Some (c, stg) -> proc s' = None -> seen s' = seen s ->
    (forall c', nposts c' e = O /\ acc c' e = false /\ kil c' e = (c =? c')) -> summary s l s' e
| SumAccept c : mem_z c (seen s) = false -> proc s = None -> proc s' = Some (c, Spawned) -> seen s' = c :: seen s ->
    e = [Accepted c] -> summary s l s' e
| SumReject c : mem_z c (seen s) = false -> proc s <> None -> proc s' = proc s -> seen s' = c :: seen s ->
    e = [Post c KConc] -> summary s l s' e.

Lemma step_summary s l s' e : Inv s -> step s l = Some (s', e) -> summary s l s' e.
Proof.
  intros I H. pose proof (i_d _ I) as Id. clear I. destruct s as [k w ch pr ores op sn]. cbn in Id.
  destruct l; cbn in H; unfold exn_path, fault, timeout_enter, do_close, wclose, reported in H; cbn in H; brk;
  try (assert (pr = None) by (apply Id; discriminate); subst pr);
  try (apply SumQuiet; [intros c0; cbn; auto | reflexivity | cbn; first [left; reflexivity | right; repeat eexists]]; fail);
  try (eapply SumFinish; cbn; try reflexivity; intros c'; cbn; rewrite ?Nat.add_0_r; auto; fail);
  try (eapply SumKill; cbn; try reflexivity; intros c'; cbn; rewrite ?orb_false_r; auto; fail);
  try (eapply SumAccept; cbn; try reflexivity; assumption);
  try (eapply SumReject; cbn; try reflexivity; try assumption; discriminate).
Qed.

Record G (s : st) (evs : list ev) : Prop := {
  g_fresh : forall c, mem_z c (seen s) = false -> nposts c evs = O /\ acc c evs = false /\ kil c evs = false;
  g_proc : forall c stg, proc s = Some (c, stg) -> nposts c evs = O /\ acc c evs = true /\ kil c evs = false;
  g_done : forall c, mem_z c (seen s) = true -> (forall stg, proc s <> Some (c, stg)) ->
             (nposts c evs = 1%nat /\ kil c evs = false) \/ (nposts c evs = O /\ kil c evs = true /\ acc c evs = true);
}.

Lemma G_init : G init [].
Proof. constructor; cbn; intros; try discriminate. repeat split. Qed.

Lemma mem_cons c x l : mem_z c (x :: l) = (c =? x) || mem_z c l.
Proof. reflexivity. Qed.

Lemma step_G s l s' e evs : Inv s -> G s evs -> step s l = Some (s', e) -> G s' (evs ++ e).
Proof.
  intros I [Gf Gp Gd] H. pose proof (i_f _ I) as If_. apply step_summary in H; [|assumption].
  destruct H as [Q Hs Hp | c stg P P' Hs Hn Ha | c stg P P' Hs Hk | c Hc P P' Hs He | c Hc P P' Hs He].
  - (* quiet *)
    constructor; intros c0; rewrite ?Hs; intros; rewrite nposts_app, acc_app, kil_app;
    destruct (Q c0) as (Q1 & Q2 & Q3); rewrite Q1, Q2, Q3, ?Nat.add_0_r, ?orb_false_r.
    + apply Gf. assumption.
    + destruct Hp as [Hp|(c1 & s1 & s2 & Hp1 & Hp2)].
      * rewrite Hp in H. eapply Gp. eassumption.
      * rewrite Hp2 in H. inversion H; subst. eapply Gp. eassumption.
    + apply Gd; [assumption|]. intros stg0 X. destruct Hp as [Hp|(c1 & s1 & s2 & Hp1 & Hp2)].
      * rewrite <- Hp in X. eapply H0. eassumption.
      * rewrite Hp1 in X. inversion X; subst. eapply H0. eassumption.
  - (* the in-flight call is answered *)
    destruct (Gp _ _ P) as (G1 & G2 & G3). pose proof (If_ _ _ P) as Hm.
    constructor; intros c0; rewrite ?Hs; intros; rewrite nposts_app, acc_app, kil_app, Hn;
    destruct (Ha c0) as (A1 & A2); rewrite A1, A2, ?orb_false_r.
    + destruct (Z.eqb_spec c c0) as [E|E]; [subst; congruence|]. rewrite Nat.add_0_r. apply Gf. assumption.
    + rewrite P' in H. discriminate.
    + destruct (Z.eqb_spec c c0) as [E|E].
      * subst. left. rewrite G1, G3. split; reflexivity.
      * rewrite Nat.add_0_r. apply Gd; [assumption|]. intros stg0 X. rewrite P in X. inversion X. contradiction.
  - (* killed by Close *)
    destruct (Gp _ _ P) as (G1 & G2 & G3). pose proof (If_ _ _ P) as Hm.
    constructor; intros c0; rewrite ?Hs; intros; rewrite nposts_app, acc_app, kil_app;
    destruct (Hk c0) as (K1 & K2 & K3); rewrite K1, K2, K3, ?Nat.add_0_r, ?orb_false_r.
    + destruct (Z.eqb_spec c c0) as [E|E]; [subst; congruence|]. rewrite orb_false_r. apply Gf. assumption.
    + rewrite P' in H. discriminate.
    + destruct (Z.eqb_spec c c0) as [E|E].
      * subst. right. rewrite G1, G2, orb_true_r. repeat split.
      * rewrite orb_false_r. apply Gd; [assumption|]. intros stg0 X. rewrite P in X. inversion X. contradiction.
  - (* accepted *)
    subst e. destruct (Gf _ Hc) as (F1 & F2 & F3).
    constructor; intros c0; rewrite ?Hs, ?mem_cons; intros; rewrite nposts_app, acc_app, kil_app; cbn;
    rewrite ?Nat.add_0_r, ?orb_false_r.
    + apply orb_false_iff in H as [H1 H2]. rewrite Z.eqb_sym, H1, orb_false_r. apply Gf. assumption.
    + rewrite P' in H. inversion H; subst. rewrite Z.eqb_refl, orb_true_r. repeat split; assumption.
    + destruct (Z.eqb_spec c0 c) as [E|E].
      * subst. exfalso. eapply H0. eassumption.
      * cbn in H. destruct (Gd c0 H) as [D|D].
        -- intros stg0 X. rewrite P in X. discriminate.
        -- left. assumption.
        -- right. destruct D as (D1 & D2 & D3). rewrite D3. repeat split; assumption.
  - (* rejected: ChannelConcurrencyError *)
    subst e. destruct (Gf _ Hc) as (F1 & F2 & F3).
    constructor; intros c0; rewrite ?Hs, ?mem_cons; intros; rewrite nposts_app, acc_app, kil_app; cbn;
    rewrite ?Nat.add_0_r, ?orb_false_r.
    + apply orb_false_iff in H as [H1 H2]. rewrite Z.eqb_sym, H1. rewrite Nat.add_0_r. apply Gf. assumption.
    + rewrite P' in H. pose proof (If_ _ _ H) as Hm. destruct (Z.eqb_spec c c0) as [E|E]; [subst; congruence|].
      rewrite Nat.add_0_r. eapply Gp. eassumption.
    + destruct (Z.eqb_spec c0 c) as [E|E].
      * subst. rewrite Z.eqb_refl. left. rewrite F1, F3. split; reflexivity.
      * cbn in H. rewrite (proj2 (Z.eqb_neq c c0)) by congruence. rewrite Nat.add_0_r. apply Gd; [assumption|].
        intros stg0 X. rewrite <- P' in X. eapply H0. eassumption.
Qed.

Lemma run_G ls : forall s s' e evs, Inv s -> G s evs -> run s ls = Some (s', e) -> G s' (evs ++ e) /\ Inv s'.
Proof.
  induction ls as [|l ls IH]; intros s s' e evs I Gs H; cbn in H.
  - inversion H; subst. rewrite app_nil_r. split; assumption.
  - destruct (usage_ok s l) eqn:U; [|discriminate]. destruct (step s l) as [[s1 e1]|] eqn:S; [|discriminate].
    destruct (run s1 ls) as [[s2 e2]|] eqn:R; [|discriminate]. inversion H; subst.
    rewrite app_assoc. eapply IH; [| |exact R].
    + eapply step_inv; eassumption.
    + eapply step_G; eassumption.
Qed.

Lemma serial_once ls s e c :
  run init ls = Some (s, e) ->
  (nposts c e <= 1)%nat /\
  (forall stg, proc s = Some (c, stg) -> nposts c e = O) /\
  (acc c e = true -> (forall stg, proc s <> Some (c, stg)) -> (nposts c e = 1%nat /\ kil c e = false) \/ (nposts c e = O /\ kil c e = true)).
Proof.
  intros H. destruct (run_G ls init s e [] inv_init G_init H) as [[Gf Gp Gd] I]. cbn in *.
  split; [|split].
  - destruct (mem_z c (seen s)) eqn:M.
    + destruct (proc s) as [[c1 stg]|] eqn:P.
      * destruct (Z.eq_dec c1 c) as [E|E].
        -- subst. destruct (Gp _ _ eq_refl) as (X & _). lia.
        -- destruct (Gd c M) as [D|D]; [intros stg0 X; inversion X; contradiction | |]; lia.
      * destruct (Gd c M) as [D|D]; [intros stg0 X; discriminate | |]; lia.
    + destruct (Gf c M) as (X & _). lia.
  - intros stg P. destruct (Gp _ _ P) as (X & _). exact X.
  - intros A N. destruct (mem_z c (seen s)) eqn:M.
    + destruct (Gd c M N) as [D|D]; [left; exact D | right; tauto].
    + destruct (Gf c M) as (_ & X & _). congruence.
Qed.

(* ---- the fault signal is raised at most once per connection ---- *)
Fixpoint fscan (a : bool) (e : list ev) : option bool :=
  match e with
  | [] => Some a
  | Faulted :: r => if a then fscan false r else None
  | ConnBegin :: r => fscan true r
  | _ :: r => fscan a r
  end.

Lemma fscan_app e1 : forall a e2, fscan a (e1 ++ e2) = match fscan a e1 with Some a' => fscan a' e2 | None => None end.
Proof.
  induction e1 as [|x e1 IH]; intros a e2; cbn; [reflexivity|].
  destruct x; try apply IH. destruct a; [apply IH | reflexivity].
Qed.

Definition K (s : st) (a : bool) : Prop :=
  a = false -> sk s = SNone /\ cst s = Closed /\ opn s <> Some OConn /\ (forall c, proc s <> Some (c, Reconn)).

Lemma step_K s l s' e a :
  Inv s -> K s a -> usage_ok s l = true -> step s l = Some (s', e) -> exists a', fscan a e = Some a' /\ K s' a'.
Proof.
  intros I Ks U H.
  pose proof (i_a _ I) as Ia; pose proof (i_b _ I) as Ib; pose proof (i_c _ I) as Ic; pose proof (i_d _ I) as Id. clear I.
  unfold K in *. destruct s as [k w ch pr ores op sn]; cbn in *.
  destruct a; [clear Ks | destruct (Ks eq_refl) as (K1 & K2 & K3 & K4); clear Ks; subst k ch];
  destruct l; cbn in *; unfold exn_path, fault, timeout_enter, do_close, wclose, reported in *; cbn in *; brk;
  cbn; eexists; (split; [reflexivity|]); cbn; intros; fin;
  try (repeat split; try discriminate; try congruence;
       try (match goal with |- ?k = SNone => destruct k end; fin; fail);
       try (let X := fresh in intros X; rewrite X in *; fin); fail).
Qed.

Lemma run_K ls : forall s s' e a, Inv s -> K s a -> run s ls = Some (s', e) -> exists a', fscan a e = Some a' /\ K s' a'.
Proof.
  induction ls as [|l ls IH]; intros s s' e a I Ks H; cbn in H.
  - inversion H; subst. exists a. split; [reflexivity | assumption].
  - destruct (usage_ok s l) eqn:U; [|discriminate]. destruct (step s l) as [[s1 e1]|] eqn:S; [|discriminate].
    destruct (run s1 ls) as [[s2 e2]|] eqn:R; [|discriminate]. inversion H; subst.
    destruct (step_K _ _ _ _ _ I Ks U S) as (a1 & F1 & K1).
    destruct (IH _ _ _ a1 (step_inv _ _ _ _ I U S) K1 R) as (a2 & F2 & K2).
    exists a2. rewrite fscan_app, F1. split; assumption.
Qed.

End SerialP.

(* ================================================================================================= *)
Module MuxP.
Import Mux.

Fixpoint nposts (c : Z) (e : list ev) : nat :=
  match e with
  | [] => O
  | Post c' _ :: r => ((if (c' =? c)%Z then 1 else 0) + nposts c r)%nat
  | _ :: r => nposts c r
  end.
Fixpoint acc (c : Z) (e : list ev) : bool :=
  match e with [] => false | Accepted c' :: r => (c' =? c) || acc c r | _ :: r => acc c r end.
Fixpoint rel (c : Z) (e : list ev) : bool :=
  match e with [] => false | Released c' :: r => (c' =? c) || rel c r | _ :: r => rel c r end.

Lemma nposts_app c a b : nposts c (a ++ b) = (nposts c a + nposts c b)%nat.
Proof. induction a as [|x a IH]; cbn; [reflexivity|]. destruct x; rewrite ?IH; try destruct (_ =? _); lia. Qed.
Lemma acc_app c a b : acc c (a ++ b) = acc c a || acc c b.
Proof. induction a as [|x a IH]; cbn; [reflexivity|]. destruct x; rewrite ?IH, ?orb_assoc; reflexivity. Qed.
Lemma rel_app c a b : rel c (a ++ b) = rel c a || rel c b.
Proof. induction a as [|x a IH]; cbn; [reflexivity|]. destruct x; rewrite ?IH, ?orb_assoc; reflexivity. Qed.
Lemma nfaults_app a b : nfaults (a ++ b) = nfaults a + nfaults b.
Proof. induction a as [|x a IH]; cbn [nfaults app]; [reflexivity|]. destruct x; rewrite ?IH; lia. Qed.

Definition errs (l : list Z) : list ev := map (fun c => Post c KClientErr) l.

Lemma nposts_errs c l : NoDup l -> nposts c (errs l) = if mem_z c l then 1%nat else O.
Proof.
  unfold errs. induction 1 as [|x l Hx Hl IH]; cbn; [reflexivity|]. rewrite IH. unfold mem_z. cbn.
  destruct (Z.eqb_spec x c) as [E|E].
  - subst. rewrite Z.eqb_refl. cbn. fold (mem_z c l). rewrite (proj2 (mem_z_false c l) Hx). reflexivity.
  - rewrite (proj2 (Z.eqb_neq c x)) by congruence. reflexivity.
Qed.
Lemma acc_errs c l : acc c (errs l) = false.
Proof. induction l; cbn; auto. Qed.
Lemma rel_errs c l : rel c (errs l) = false.
Proof. induction l; cbn; auto. Qed.
Lemma nfaults_errs l : nfaults (errs l) = 0.
Proof. induction l; cbn; auto. Qed.
Lemma posts_errs_kind l c k : In (Post c k) (errs l) -> k = KClientErr.
Proof. unfold errs. rewrite in_map_iff. intros (x & E & _). inversion E. reflexivity. Qed.

(* ---- state invariant of reachable states ---- *)
Record Inv (s : st) : Prop := {
  m_nodup : NoDup (tagmap s);
  m_map_seen : forall c, In c (tagmap s) -> mem_z c (seen s) = true;
  m_exp_seen : forall c, mem_z c (expired s) = true -> mem_z c (seen s) = true;
  m_closed : cst s = Closed -> tagmap s = [] /\ sndl s = SDead /\ rcv s = RDead /\ pl s = PNone;
  m_idle : cst s = Idle -> pl s = PNone /\ tagmap s = [] /\ (opn s = None -> ping_dl s = None /\ par s = false);
  m_opn_pl : opn s <> None -> pl s = PNone;
  m_wokenf : opn s = Some (OWoken false) -> cst s = Closed;
  m_pre : opn s = Some OSpawned \/ opn s = Some OConn -> ping_dl s = None /\ par s = false;
  m_dl : forall d, ping_dl s = Some d -> par s = true /\ d = lastping s + ping_timeout /\ now s <= d;
  m_lp : lastping s <= now s;
  m_sleep : forall p, pl s = PSleep p ->
              lastping s <= lastw s /\ lastw s <= now s /\ lastw s + 30 * tps <= p <= lastw s + 40 * tps /\ now s <= p;
  m_open_pl : cst s = Open -> pl s <> PNone;
  m_wait_nodup : NoDup (waiting s);
  m_wait_seen : forall c, In c (waiting s) -> mem_z c (seen s) = true;
  m_wait_map : forall c, In c (waiting s) -> ~ In c (tagmap s);
  m_wait_idle : cst s = Idle -> opn s = None -> waiting s = [];
  m_closed_dl : cst s = Closed -> opn s = None -> ping_dl s = None;
  m_woken_dl : forall b, opn s = Some (OWoken b) -> ping_dl s = None;
}.

Lemma inv_init t0 : Inv (init t0).
Proof.
  constructor; cbn; intros; try discriminate; try tauto; try lia; try constructor; try (repeat split; reflexivity).
Qed.

Ltac brk :=
  repeat match goal with
  | H : context [match ?x with _ => _ end] |- _ => destruct x eqn:?; try discriminate
  | H : Some _ = Some _ |- _ => inversion H; subst; clear H
  | H : (_, _) = (_, _) |- _ => inversion H; subst; clear H
  end.

Ltac fin :=
  cbn in *; repeat (subst; match goal with
  | H : Some _ = Some _ |- _ => inversion H; clear H
  | H : PSleep _ = PSleep _ |- _ => inversion H; clear H
  | H : (_, _) = (_, _) |- _ => inversion H; clear H
  | H : ?a = ?a -> _ |- _ => specialize (H eq_refl)
  | H : ?a <> ?b -> _ |- _ => let X := fresh in assert (X : a <> b) by congruence; specialize (H X)
  | H : _ \/ _ |- _ => destruct H
  | H : exists _, _ |- _ => destruct H
  | H : _ /\ _ |- _ => destruct H
  | H : (_ && _) = true |- _ => apply andb_true_iff in H
  | H : (_ || _) = false |- _ => apply orb_false_iff in H
  | H : negb _ = true |- _ => apply negb_true_iff in H
  | H : (_ <=? _) = true |- _ => apply Z.leb_le in H
  | H : (_ =? _) = true |- _ => apply Z.eqb_eq in H
  | H : forall d, Some ?x = Some d -> _ |- _ => specialize (H x eq_refl)
  | H : forall p, PSleep ?x = PSleep p -> _ |- _ => specialize (H x eq_refl)
  | H : ?a = _ \/ ?a = _ -> _ |- _ => first [specialize (H (or_introl eq_refl)) | specialize (H (or_intror eq_refl))]
  end); cbn in *; unfold ping_timeout, tps in *;
  try solve [repeat split; intros; first [congruence | discriminate | tauto | lia | constructor | eauto]].

Ltac mz :=
  repeat match goal with
  | H : context [existsb (Z.eqb ?c) ?l] |- _ => change (existsb (Z.eqb c) l) with (mem_z c l) in H
  | |- context [existsb (Z.eqb ?c) ?l] => change (existsb (Z.eqb c) l) with (mem_z c l)
  end.

Lemma nodup_snoc (l : list Z) c : NoDup l -> ~ In c l -> NoDup (l ++ [c]).
Proof.
  induction 1 as [|x l Hx Hl IH]; cbn; intros N.
  - constructor; [tauto | constructor].
  - constructor.
    + intros X. apply in_app_or in X. destruct X as [X|[X|[]]]; [contradiction | subst; apply N; left; reflexivity].
    + apply IH. tauto.
Qed.

Lemma step_inv s l s' e : Inv s -> step s l = Some (s', e) -> Inv s'.
Proof.
  intros I H.
  pose proof (m_nodup _ I) as I1; pose proof (m_map_seen _ I) as I2; pose proof (m_exp_seen _ I) as I3;
  pose proof (m_closed _ I) as I4; pose proof (m_idle _ I) as I5; pose proof (m_opn_pl _ I) as I6;
  pose proof (m_wokenf _ I) as I7; pose proof (m_pre _ I) as I8; pose proof (m_dl _ I) as I9; pose proof (m_lp _ I) as I10;
  pose proof (m_sleep _ I) as I11; pose proof (m_open_pl _ I) as I12; pose proof (m_wait_nodup _ I) as I13;
  pose proof (m_wait_seen _ I) as I14; pose proof (m_wait_map _ I) as I15; pose proof (m_wait_idle _ I) as I16;
  pose proof (m_closed_dl _ I) as I17; pose proof (m_woken_dl _ I) as I18. clear I.
  destruct s as [nw ch op tm sn ex q sd rc pd pa dl pls lw lpg wt]; cbn in *.
  destruct l; cbn in H; unfold shutdown, send_ping, ar_fail, wake_fail, tick_ok in H; cbn in H; brk.
  all: constructor; cbn; intros; first [assumption | solve [auto] | fin].
  all: unfold mem_z in *.
  all: try (apply remove_z_nodup; assumption).
  all: try (apply nodup_snoc; [assumption | intros X; apply I2 in X; congruence]).
  all: try (match goal with H : In _ (remove_z _ _) |- _ => apply remove_z_in in H; destruct H as [H ?] end).
  all: try (match goal with H : In _ (_ ++ [_]) |- _ => apply in_app_or in H; destruct H as [H|[H|[]]] end).
  all: try (match goal with H : (_ =? _) || _ = true |- _ =>
              apply orb_true_iff in H; destruct H as [H|H]; [apply Z.eqb_eq in H; subst|] end).
  all: subst; rewrite ?Z.eqb_refl; cbn; try reflexivity; try assumption.
  all: try (apply orb_true_iff; right); auto.
  all: try (apply I3; assumption); try (apply I2; assumption).
  all: try (destruct dl as [d0|]; [destruct (I9 d0 eq_refl) as (X9 & _); discriminate | reflexivity]).
  all: try match goal with H : In _ (remove_z _ _) |- _ => apply remove_z_in in H; destruct H as [H ?] end.
  all: try (apply nodup_snoc; [assumption | intros X;
              first [apply I14 in X; congruence | eapply I15; [|exact X]; apply (proj1 (mem_z_true _ _)); assumption]]).
  all: try (apply I14; first [assumption | apply (proj1 (mem_z_true _ _)); assumption]).
  all: try (intros X; apply remove_z_in in X; destruct X as [X _]; eapply I15; eassumption).
  all: try (intros X; apply in_app_or in X; destruct X as [X|[X|[]]];
            [eapply I15; eassumption
            | subst; first [congruence | match goal with H : In _ _ |- _ => apply I14 in H end; congruence]]).
Qed.

Lemma run_inv ls : forall s s' e, Inv s -> run s ls = Some (s', e) -> Inv s'.
Proof.
  induction ls as [|l ls IH]; intros s s' e I H; cbn in H.
  - inversion H; subst. assumption.
  - destruct (step s l) as [[s1 e1]|] eqn:S; [|discriminate].
    destruct (run s1 ls) as [[s2 e2]|] eqn:R; [|discriminate]. inversion H; subst.
    eapply IH; [|exact R]. eapply step_inv; eassumption.
Qed.

End MuxP.
