(* Proofs for the Kafka v0 codec model (C15). *)
From Scales Require Import Model.Base Model.Bytes Model.Utf8 Model.Crc32 Model.KafkaCodec Proofs.BytesP.
From Coq Require Import ZifyBool.
Ltac Zify.zify_post_hook ::= Z.div_mod_to_equations.
Local Open Scope Z_scope.

(* ---- option-monad inversion ------------------------------------------------------------------- *)
Lemma obind_some {A B} (o : option A) (f : A -> option B) r :
  obind o f = Some r -> exists x, o = Some x /\ f x = Some r.
Proof. destruct o; cbn; intros H; [eauto|discriminate]. Qed.

Tactic Notation "inv_obind" hyp(H) "as" ident(x) ident(E) :=
  apply obind_some in H as (x & E & H).

(* ================================================================================================ *)
(* CRC-32                                                                                           *)
(* ================================================================================================ *)
Lemma lxor_bound n a b : 0 < n -> 0 <= a < 2 ^ n -> 0 <= b < 2 ^ n -> 0 <= Z.lxor a b < 2 ^ n.
Proof.
  intros Hn Ha Hb. split; [apply Z.lxor_nonneg; lia|].
  assert (N : 0 <= Z.lxor a b) by (apply Z.lxor_nonneg; lia).
  destruct (Z.eq_dec (Z.lxor a b) 0) as [E|E]; [rewrite E; apply Z.pow_pos_nonneg; lia|].
  apply Z.log2_lt_pow2; [lia|].
  pose proof (Z.log2_lxor a b ltac:(lia) ltac:(lia)) as L.
  assert (La : Z.log2 a < n).
  { destruct (Z.eq_dec a 0) as [->|]; [cbn; lia|]. apply Z.log2_lt_pow2; lia. }
  assert (Lb : Z.log2 b < n).
  { destruct (Z.eq_dec b 0) as [->|]; [cbn; lia|]. apply Z.log2_lt_pow2; lia. }
  lia.
Qed.

Definition u32 (c : Z) : Prop := 0 <= c < 2 ^ 32.

Lemma crc_bit_bound c : u32 c -> u32 (crc_bit c).
Proof.
  unfold u32, crc_bit. intros H.
  assert (S : 0 <= Z.shiftr c 1 < 2 ^ 32).
  { rewrite Z.shiftr_div_pow2 by lia. change (2 ^ 1) with 2. change (2 ^ 32) with 4294967296 in *. lia. }
  destruct (Z.odd c); [|exact S].
  apply lxor_bound; [lia|exact S|]. unfold POLY. change (2 ^ 32) with 4294967296. lia.
Qed.

Lemma crc_byte_bound c b : u32 c -> 0 <= b < 256 -> u32 (crc_byte c b).
Proof.
  intros Hc Hb. unfold crc_byte. repeat apply crc_bit_bound.
  apply lxor_bound; [lia|exact Hc|]. change (2 ^ 32) with 4294967296. lia.
Qed.

Lemma crc_raw_bound bs : forall c, u32 c -> bytes_ok bs -> u32 (crc_raw c bs).
Proof.
  unfold crc_raw. induction bs as [|b bs IH]; intros c Hc Hb; cbn [fold_left]; [exact Hc|].
  inversion Hb as [|? ? Hb1 Hb2]; subst. apply IH; [apply crc_byte_bound; assumption|assumption].
Qed.

Lemma u32_mask : u32 MASK32. Proof. unfold u32, MASK32. change (2 ^ 32) with 4294967296. lia. Qed.

Lemma crc32_cont_bound crc bs : u32 crc -> bytes_ok bs -> u32 (crc32_cont crc bs).
Proof.
  intros Hc Hb. unfold crc32_cont.
  apply lxor_bound; [lia| |apply u32_mask].
  apply crc_raw_bound; [|exact Hb]. apply lxor_bound; [lia|exact Hc|apply u32_mask].
Qed.

Lemma crc32_bound bs : bytes_ok bs -> u32 (crc32 bs).
Proof. intros H. apply crc32_cont_bound; [unfold u32; change (2 ^ 32) with 4294967296; lia|exact H]. Qed.

Lemma lxor_mask_involutive x : Z.lxor (Z.lxor x MASK32) MASK32 = x.
Proof. now rewrite Z.lxor_assoc, Z.lxor_nilpotent, Z.lxor_0_r. Qed.

(* zlib.crc32(b, zlib.crc32(a)) = zlib.crc32(a + b) *)
Lemma crc32_app a b : crc32 (a ++ b) = crc32_cont (crc32 a) b.
Proof.
  unfold crc32, crc32_cont, crc_raw. rewrite fold_left_app, lxor_mask_involutive. reflexivity.
Qed.

Lemma land_mask_u32 c : u32 c -> Z.land c 4294967295 = c.
Proof.
  intros H. change 4294967295 with (Z.ones 32). rewrite Z.land_ones by lia. apply Z.mod_small. exact H.
Qed.

Lemma land_mask_range c : 0 <= Z.land c 4294967295 < pow256 4.
Proof.
  change 4294967295 with (Z.ones 32). rewrite Z.land_ones by lia. change (pow256 4) with (2 ^ 32).
  apply Z.mod_pos_bound. lia.
Qed.

(* ================================================================================================ *)
(* byte-string helpers                                                                              *)
(* ================================================================================================ *)
Lemma take_app_len (a b : bytes) n : n = len a -> take n (a ++ b) = a.
Proof. intros ->. apply take_app_exact. Qed.
Lemma drop_app_len (a b : bytes) n : n = len a -> drop n (a ++ b) = b.
Proof. intros ->. apply drop_app_exact. Qed.

Lemma bytes_ok_app a b : bytes_ok a -> bytes_ok b -> bytes_ok (a ++ b).
Proof. unfold bytes_ok. intros. apply Forall_app. split; assumption. Qed.

Lemma bytes_ok_be k n : bytes_ok (be k n).
Proof. unfold bytes_ok. apply Forall_forall. intros b H. exact (be_bytes k n b H). Qed.

Lemma pack_s_ok k n : - (pow256 k / 2) <= n < pow256 k / 2 -> pack_s k n = Some (be k n).
Proof. intros H. unfold pack_s. replace ((- (pow256 k / 2) <=? n) && (n <? pow256 k / 2)) with true by lia. reflexivity. Qed.

Lemma pack_u_ok k n : 0 <= n < pow256 k -> pack_u k n = Some (be k n).
Proof. intros H. unfold pack_u. replace ((0 <=? n) && (n <? pow256 k)) with true by lia. reflexivity. Qed.

Lemma half2 : pow256 2 / 2 = 32768. Proof. reflexivity. Qed.
Lemma half4 : pow256 4 / 2 = 2147483648. Proof. reflexivity. Qed.
Lemma half8 : pow256 8 / 2 = 9223372036854775808. Proof. reflexivity. Qed.
Lemma half1 : pow256 1 / 2 = 128. Proof. reflexivity. Qed.

(* ---- the independent parser's integer readers against big-endian writers ---------------------- *)
Lemma signed_unpack k l : signed k (unbe l) = unpack_s k l.
Proof. reflexivity. Qed.

Lemma parse_u_be k n rest : 0 <= n < pow256 k -> parse_u k (be k n ++ rest) = Some (n, rest).
Proof.
  intros H. unfold parse_u. rewrite (read_n_app (be k n) rest) by (now rewrite len_be).
  cbn [obind]. now rewrite unbe_be.
Qed.

Lemma parse_i_be k n rest : (0 < k)%nat -> - (pow256 k / 2) <= n < pow256 k / 2 ->
  parse_i k (be k n ++ rest) = Some (n, rest).
Proof.
  intros Hk H. unfold parse_i, parse_u. rewrite (read_n_app (be k n) rest) by (now rewrite len_be).
  cbn [obind]. rewrite signed_unpack, unpack_s_be by assumption. reflexivity.
Qed.

Lemma parse_lp_null k rest : (0 < k)%nat -> parse_lp k (be k (-1) ++ rest) = Some (None, rest).
Proof.
  intros Hk. unfold parse_lp. rewrite parse_i_be; [reflexivity|assumption|].
  destruct k as [|k]; [lia|]. rewrite pow256_even. pose proof (pow256_pos k). lia.
Qed.

Lemma parse_lp_some k b rest : (0 < k)%nat -> len b < pow256 k / 2 ->
  parse_lp k (be k (len b) ++ b ++ rest) = Some (Some b, rest).
Proof.
  intros Hk H. pose proof (len_nonneg b). unfold parse_lp. rewrite parse_i_be by (try assumption; lia).
  cbn [obind]. destruct (Z.eqb_spec (len b) (-1)); [lia|]. destruct (Z.ltb_spec (len b) 0); [lia|].
  rewrite read_n_app by reflexivity. reflexivity.
Qed.

Lemma parse_name_enc b rest : len b < 32768 -> parse_name (be 2 (len b) ++ b ++ rest) = Some (b, rest).
Proof. intros H. unfold parse_name. rewrite parse_lp_some by (try lia; rewrite half2; exact H). reflexivity. Qed.

(* ---- the code's readers against big-endian writers -------------------------------------------- *)
Lemma read_int_be k n rest : (0 < k)%nat -> - (pow256 k / 2) <= n < pow256 k / 2 ->
  read_int k (be k n ++ rest) = Some (n, rest).
Proof.
  intros Hk H. unfold read_int. rewrite (read_n_app (be k n) rest) by (now rewrite len_be).
  cbn [obind]. now rewrite unpack_s_be.
Qed.

Lemma read_string_enc s rest : ok_str s -> read_string (enc_str s ++ rest) = Some (s, rest).
Proof.
  unfold ok_str, enc_str. intros H. pose proof (len_nonneg s). unfold read_string. rewrite <- app_assoc.
  rewrite read_int_be by (try lia; rewrite half2; lia). cbn [obind]. unfold py_read.
  destruct (Z.ltb_spec (len s) 0); [lia|]. now rewrite take_app_exact, drop_app_exact.
Qed.

(* ---- read_many -------------------------------------------------------------------------------- *)
Lemma read_many_zero {A} (rd : bytes -> option (A * bytes)) fuel n s : n <= 0 -> read_many rd fuel n s = Some ([], s).
Proof. intros H. destruct fuel; cbn [read_many]; destruct (Z.leb_spec n 0); try lia; reflexivity. Qed.

Lemma read_many_one {A} (rd : bytes -> option (A * bytes)) fuel s x r :
  rd s = Some (x, r) -> (0 < fuel)%nat -> read_many rd fuel 1 s = Some ([x], r).
Proof.
  intros H Hf. destruct fuel as [|f]; [lia|]. cbn [read_many]. change (1 <=? 0) with false. cbn iota.
  rewrite H. cbn [obind]. rewrite read_many_zero by lia. reflexivity.
Qed.

Lemma read_many_enc {A B} (rd : bytes -> option (B * bytes)) (enc : A -> bytes) (f : A -> B) (P : A -> Prop) :
  (forall x rest, P x -> rd (enc x ++ rest) = Some (f x, rest)) ->
  forall xs rest fuel, Forall P xs -> (length xs <= fuel)%nat ->
  read_many rd fuel (Z.of_nat (length xs)) (concat (map enc xs) ++ rest) = Some (map f xs, rest).
Proof.
  intros Hrd xs. induction xs as [|x xs IH]; intros rest fuel HP Hf.
  - apply read_many_zero. cbn. lia.
  - inversion HP as [|? ? Px Pxs]; subst. destruct fuel as [|fuel]; [cbn in Hf; lia|].
    cbn [read_many]. destruct (Z.leb_spec (Z.of_nat (length (x :: xs))) 0) as [L|L]; [cbn [length] in L; lia|].
    cbn [map concat]. rewrite <- app_assoc. rewrite Hrd by assumption. cbn [obind].
    replace (Z.of_nat (length (x :: xs)) - 1) with (Z.of_nat (length xs)) by (cbn [length]; lia).
    rewrite IH by (try assumption; cbn [length] in Hf; lia). reflexivity.
Qed.

Lemma length_concat_ge {A} (enc : A -> bytes) xs :
  (forall x, (1 <= length (enc x))%nat) -> (length xs <= length (concat (map enc xs)))%nat.
Proof.
  intros H. induction xs as [|x xs IH]; cbn [map concat length]; [lia|].
  rewrite app_length. specialize (H x). lia.
Qed.

Lemma read_loop_enc {A B} (rd : bytes -> option (B * bytes)) (enc : A -> bytes) (f : A -> B) (P : A -> Prop) :
  (forall x rest, P x -> rd (enc x ++ rest) = Some (f x, rest)) ->
  (forall x, (1 <= length (enc x))%nat) ->
  forall xs rest, Forall P xs ->
  read_loop rd (Z.of_nat (length xs)) (concat (map enc xs) ++ rest) = Some (map f xs, rest).
Proof.
  intros Hrd Hne xs rest HP. unfold read_loop. apply (read_many_enc rd enc f P Hrd); [assumption|].
  rewrite app_length. pose proof (length_concat_ge enc xs Hne). lia.
Qed.

(* the fuel of read_many does not matter once it covers the input, for readers that consume at least one byte *)
Lemma read_many_fuel_irrelevant {A} (rd : bytes -> option (A * bytes)) :
  (forall s x r, rd s = Some (x, r) -> (length r < length s)%nat) ->
  forall f1 n s f2, (length s <= f1)%nat -> (length s <= f2)%nat -> read_many rd f1 n s = read_many rd f2 n s.
Proof.
  intros Hrd f1. induction f1 as [|f1 IH]; intros n s f2 H1 H2.
  - destruct s; [|cbn in H1; lia]. destruct f2; cbn [read_many]; destruct (n <=? 0); try reflexivity.
    destruct (rd []) as [[x r]|] eqn:E; [|reflexivity]. apply Hrd in E. cbn in E. lia.
  - destruct f2 as [|f2].
    + destruct s; [|cbn in H2; lia]. cbn [read_many]. destruct (n <=? 0); try reflexivity.
      destruct (rd []) as [[x r]|] eqn:E; [|reflexivity]. apply Hrd in E. cbn in E. lia.
    + cbn [read_many]. destruct (n <=? 0); [reflexivity|].
      destruct (rd s) as [[x r]|] eqn:E; [|reflexivity]. cbn [obind]. apply Hrd in E.
      rewrite (IH (n - 1) r f2) by lia. reflexivity.
Qed.

(* ================================================================================================ *)
(* Produce request: what the writer emits, and the independent parser on it                        *)
(* ================================================================================================ *)
(* the 10-byte message header: magic 0, attributes 0, null key, value length *)
Definition mheader (p : bytes) : bytes := be 1 0 ++ be 1 0 ++ be 4 (-1) ++ be 4 (len p).

Lemma len_mheader p : len (mheader p) = 10.
Proof. unfold mheader. rewrite !len_app, !len_be. reflexivity. Qed.

Lemma message_header_some p h : message_header p = Some h -> h = mheader p /\ len p < 2147483648.
Proof.
  unfold message_header. change (pack_u 1 0) with (Some (be 1 0)). change (pack_s 4 (-1)) with (Some (be 4 (-1))).
  cbn [obind]. intros H. inv_obind H as d Ed. inversion H; subst; clear H.
  apply pack_s_some in Ed as [-> R]. rewrite half4 in R. split; [reflexivity|lia].
Qed.

Definition mcrc (p : bytes) : Z := crc32 (mheader p ++ p).
Definition wmessage (p : bytes) : bytes :=
  be 8 0 ++ be 4 (14 + len p) ++ be 4 (mcrc p) ++ mheader p ++ p.

Lemma bytes_ok_mheader p : bytes_ok (mheader p).
Proof. unfold mheader. apply bytes_ok_app; [|apply bytes_ok_app; [|apply bytes_ok_app]]; apply bytes_ok_be. Qed.

Lemma mcrc_u32 p : bytes_ok p -> u32 (mcrc p).
Proof. intros H. apply crc32_bound, bytes_ok_app; [apply bytes_ok_mheader|exact H]. Qed.

Lemma write_message_some p w : write_message p = Some w -> bytes_ok p ->
  w = wmessage p /\ 14 + len p < 2147483648.
Proof.
  unfold write_message. intros H Hp. inv_obind H as h Eh. apply message_header_some in Eh as [-> Lp].
  change (pack_s 8 0) with (Some (be 8 0)) in H. cbn [obind] in H.
  inv_obind H as sz Esz. inv_obind H as c Ec. inversion H; subst; clear H.
  apply pack_s_some in Esz as [-> Rs]. apply pack_u_some in Ec as [-> _]. rewrite half4 in Rs.
  rewrite len_mheader in *. rewrite <- crc32_app. fold (mcrc p). rewrite land_mask_u32 by (apply mcrc_u32; exact Hp).
  unfold wmessage. replace (10 + len p + 4) with (14 + len p) by lia. split; [reflexivity|lia].
Qed.

Lemma len_wmessage p : len (wmessage p) = 26 + len p.
Proof. unfold wmessage. rewrite !len_app, !len_be, len_mheader. lia. Qed.

Fixpoint wmessages (ps : list bytes) : bytes :=
  match ps with [] => [] | p :: r => wmessage p ++ wmessages r end.

Lemma write_messages_some ps : forall w, write_messages ps = Some w -> Forall bytes_ok ps ->
  w = wmessages ps /\ Forall (fun p => 14 + len p < 2147483648) ps.
Proof.
  induction ps as [|p ps IH]; intros w H Hp; cbn [write_messages] in H.
  - inversion H; subst. split; [reflexivity|constructor].
  - inversion Hp as [|? ? Hp1 Hp2]; subst. inv_obind H as a Ea. inv_obind H as b Eb. inversion H; subst; clear H.
    apply write_message_some in Ea as [-> R]; [|assumption]. destruct (IH b Eb Hp2) as [-> F].
    split; [reflexivity|constructor; assumption].
Qed.

Lemma len_wmessages ps : len (wmessages ps) = msg_set_len ps.
Proof.
  induction ps as [|p ps IH]; cbn [wmessages msg_set_len]; [reflexivity|].
  rewrite len_app, len_wmessage, IH. lia.
Qed.

Lemma msg_set_len_ge ps : Z.of_nat (length ps) <= msg_set_len ps.
Proof. induction ps as [|p ps IH]; cbn [length msg_set_len]; [lia|]. pose proof (len_nonneg p). lia. Qed.

(* one message, as the strict parser sees it *)
Lemma parse_message_wmessage p off : bytes_ok p -> len p < 2147483648 ->
  parse_message off (be 4 (mcrc p) ++ mheader p ++ p) = Some {| m_offset := off; m_magic := 0; m_attrs := 0; m_key := None; m_value := Some p |}.
Proof.
  intros Hp Lp. unfold parse_message.
  rewrite parse_u_be by (apply mcrc_u32; exact Hp). cbn [obind].
  unfold mcrc at 1. rewrite Z.eqb_refl. cbn [negb].
  unfold mheader. rewrite <- !app_assoc.
  rewrite parse_i_be by (try lia; rewrite half1; lia). cbn [obind].
  rewrite parse_i_be by (try lia; rewrite half1; lia). cbn [obind].
  rewrite parse_lp_null by lia. cbn [obind].
  rewrite <- (app_nil_r p) at 2.
  rewrite parse_lp_some by (try lia; rewrite half4; exact Lp). cbn [obind]. reflexivity.
Qed.

Lemma pms_unfold f s : s <> [] ->
  parse_message_set (S f) s =
    (olet (off, r) := parse_i 8 s in
     olet (sz, r1) := parse_i 4 r in
     olet (mb, r2) := read_n sz r1 in
     olet m := parse_message off mb in
     olet ms := parse_message_set f r2 in
     Some (m :: ms)).
Proof. intros H. destruct s; [congruence|reflexivity]. Qed.

Lemma wmessage_nonnil p rest : wmessage p ++ rest <> [].
Proof.
  intros E. apply (f_equal (@length Z)) in E. unfold wmessage in E. rewrite !app_length, be_length in E. cbn in E. lia.
Qed.

Lemma parse_message_set_wmessages ps : forall fuel,
  Forall bytes_ok ps -> Forall (fun p => 14 + len p < 2147483648) ps -> (length ps <= fuel)%nat ->
  parse_message_set fuel (wmessages ps) = Some (map msg_of_payload ps).
Proof.
  induction ps as [|p ps IH]; intros fuel Hp Hl Hf.
  - destruct fuel; reflexivity.
  - inversion Hp as [|? ? Hp1 Hp2]; subst. inversion Hl as [|? ? Hl1 Hl2]; subst.
    destruct fuel as [|fuel]; [cbn in Hf; lia|]. cbn [wmessages].
    rewrite pms_unfold by apply wmessage_nonnil.
    pose proof (len_nonneg p) as Lp.
    unfold wmessage. rewrite <- !app_assoc.
    rewrite parse_i_be by (try lia; rewrite half8; lia). cbn [obind].
    rewrite parse_i_be by (try lia; rewrite half4; lia). cbn [obind].
    rewrite (app_assoc (mheader p)), (app_assoc (be 4 (mcrc p))).
    rewrite read_n_app by (rewrite !len_app, len_be, len_mheader; lia). cbn [obind].
    rewrite parse_message_wmessage by (try assumption; lia). cbn [obind].
    rewrite IH by (try assumption; cbn [length] in Hf; lia). reflexivity.
Qed.

(* the body of a produce request *)
Definition wproduce (acks partition : Z) (topic : bytes) (ps : list bytes) : bytes :=
  be 2 acks ++ be 4 1000 ++ be 4 1 ++ be 2 (len topic) ++ topic ++ be 4 1 ++ be 4 partition ++
  be 4 (msg_set_len ps) ++ wmessages ps.

Lemma produce_request_some acks partition topic ps b :
  produce_request acks partition topic ps = Some b -> Forall bytes_ok ps ->
  b = wproduce acks partition topic ps /\ i16 acks /\ i32 partition /\ len topic < 32768 /\
  msg_set_len ps < 2147483648 /\ Forall (fun p => 14 + len p < 2147483648) ps.
Proof.
  unfold produce_request. intros H Hp.
  inv_obind H as a Ea. change (pack_s 4 1000) with (Some (be 4 1000)) in H. change (pack_s 4 1) with (Some (be 4 1)) in H.
  cbn [obind] in H. inv_obind H as ts Ets. inv_obind H as part Epart. inv_obind H as msl Emsl. inv_obind H as ms Ems.
  inversion H; subst; clear H.
  apply pack_s_some in Ea as [-> Ra]. apply pack_s_some in Epart as [-> Rp]. apply pack_s_some in Emsl as [-> Rm].
  unfold write_string in Ets. inv_obind Ets as h Eh. inversion Ets; subst; clear Ets. apply pack_s_some in Eh as [-> Rt].
  apply write_messages_some in Ems as [-> F]; [|assumption].
  rewrite half2 in *. rewrite half4 in *. unfold wproduce, i16, i32. rewrite <- !app_assoc.
  repeat split; try lia. assumption.
Qed.

Lemma len_wproduce acks partition topic ps :
  len (wproduce acks partition topic ps) = 24 + len topic + msg_set_len ps.
Proof. unfold wproduce. rewrite !len_app, !len_be, len_wmessages. lia. Qed.

Lemma parse_partition_w partition ps rest :
  i32 partition -> Forall bytes_ok ps -> msg_set_len ps < 2147483648 -> Forall (fun p => 14 + len p < 2147483648) ps ->
  parse_partition (be 4 partition ++ be 4 (msg_set_len ps) ++ wmessages ps ++ rest) =
    Some ((partition, map msg_of_payload ps), rest).
Proof.
  intros Hpart Hp Hm Hl. unfold parse_partition, i32 in *. pose proof (msg_set_len_ge ps) as G.
  rewrite parse_i_be by (try lia; rewrite half4; lia). cbn [obind].
  rewrite parse_i_be by (try lia; rewrite half4; lia). cbn [obind].
  rewrite read_n_app by (now rewrite len_wmessages). cbn [obind].
  rewrite parse_message_set_wmessages; try assumption; [reflexivity|].
  pose proof (len_wmessages ps) as L. unfold len in L. lia.
Qed.

Lemma parse_array_one {A} (p : bytes -> option (A * bytes)) s x r :
  p s = Some (x, r) -> s <> [] -> parse_array p (be 4 1 ++ s) = Some ([x], r).
Proof.
  intros H Hs. unfold parse_array. rewrite parse_i_be by (try lia; rewrite half4; lia). cbn [obind].
  change (1 <? 0) with false. cbn iota. apply read_many_one; [exact H|]. destruct s; [congruence|cbn; lia].
Qed.

Lemma be_nonnil k n rest : (0 < k)%nat -> be k n ++ rest <> [].
Proof. intros Hk E. apply (f_equal (@length Z)) in E. rewrite app_length, be_length in E. cbn in E. lia. Qed.

Lemma parse_body_wproduce acks partition topic ps :
  i16 acks -> i32 partition -> len topic < 32768 -> Forall bytes_ok ps -> msg_set_len ps < 2147483648 ->
  Forall (fun p => 14 + len p < 2147483648) ps ->
  (olet (a, b1) := parse_i 2 (wproduce acks partition topic ps) in
   olet (timeout, b2) := parse_i 4 b1 in
   olet (topics, b3) := parse_array parse_topic b2 in Some (a, timeout, topics, b3)) =
  Some (acks, 1000, [(topic, [(partition, map msg_of_payload ps)])], []).
Proof.
  intros Ha Hpart Ht Hp Hm Hl. unfold wproduce, i16 in *.
  rewrite parse_i_be by (try lia; rewrite half2; lia). cbn [obind].
  rewrite parse_i_be by (try lia; rewrite half4; lia). cbn [obind].
  rewrite (parse_array_one parse_topic _ (topic, [(partition, map msg_of_payload ps)]) []); [reflexivity| |apply be_nonnil; lia].
  unfold parse_topic. rewrite parse_name_enc by assumption. cbn [obind].
  rewrite (parse_array_one parse_partition _ (partition, map msg_of_payload ps) []); [reflexivity| |apply be_nonnil; lia].
  rewrite <- (app_nil_r (wmessages ps)). apply parse_partition_w; assumption.
Qed.

(* ---- request header ---- *)
Definition wheader (cb : bytes) (tag mtype data_len : Z) : bytes :=
  be 4 (10 + len cb + data_len) ++ be 2 mtype ++ be 2 0 ++ be 4 tag ++ be 2 (len cb) ++ cb.

Lemma request_header_some cid tag mtype dl h :
  request_header cid tag mtype dl = Some h ->
  exists cb, utf8 cid = Some cb /\ h = wheader cb tag mtype dl /\ i16 mtype /\ i32 tag /\ len cb < 32768 /\
             i32 (10 + len cb + dl).
Proof.
  unfold request_header. intros H. inv_obind H as cb Ecb. inv_obind H as sz Esz. inv_obind H as k Ek.
  change (pack_s 2 0) with (Some (be 2 0)) in H. cbn [obind] in H. inv_obind H as c Ec. inv_obind H as l El.
  inversion H; subst; clear H.
  apply pack_s_some in Esz as [-> Rs]. apply pack_s_some in Ek as [-> Rk]. apply pack_s_some in Ec as [-> Rc].
  apply pack_s_some in El as [-> Rl]. rewrite half2 in *. rewrite half4 in *.
  exists cb. unfold wheader, i16, i32. replace (2 + 2 + 4 + 2 + len cb + dl) with (10 + len cb + dl) by lia.
  repeat split; try assumption; lia.
Qed.

Lemma len_wheader cb tag mtype dl : len (wheader cb tag mtype dl) = 14 + len cb.
Proof. unfold wheader. rewrite !len_app, !len_be. lia. Qed.

(* the header part of parse_request on header ++ body *)
Lemma parse_request_header cb tag mtype body :
  i16 mtype -> i32 tag -> len cb < 32768 -> i32 (10 + len cb + len body) ->
  parse_request (wheader cb tag mtype (len body) ++ body) =
    (let h := {| h_api_key := mtype; h_version := 0; h_corr := tag; h_client := Some cb |} in
     if mtype =? 0 then
       olet (acks, b1) := parse_i 2 body in
       olet (timeout, b2) := parse_i 4 b1 in
       olet (topics, b3) := parse_array parse_topic b2 in
       match b3 with [] => Some (ReqProduce h acks timeout topics) | _ :: _ => None end
     else if mtype =? 3 then
       olet (topics, b1) := parse_array parse_name body in
       match b1 with [] => Some (ReqMetadata h topics) | _ :: _ => None end
     else None).
Proof.
  unfold i16, i32. intros Hm Ht Hc Hs. pose proof (len_nonneg cb). pose proof (len_nonneg body).
  unfold parse_request, wheader. rewrite <- !app_assoc.
  rewrite parse_i_be by (try lia; rewrite half4; lia). cbn [obind].
  replace (len (be 2 mtype ++ be 2 0 ++ be 4 tag ++ be 2 (len cb) ++ cb ++ body)) with (10 + len cb + len body)
    by (rewrite !len_app, !len_be; lia).
  rewrite Z.eqb_refl. cbn [negb].
  rewrite parse_i_be by (try lia; rewrite half2; lia). cbn [obind].
  rewrite parse_i_be by (try lia; rewrite half2; lia). cbn [obind].
  rewrite parse_i_be by (try lia; rewrite half4; lia). cbn [obind].
  rewrite parse_lp_some by (try lia; rewrite half2; lia). cbn [obind]. reflexivity.
Qed.

Theorem request_frame_wf cid tag acks partition topic payloads f :
  request_frame cid tag (CallPut acks partition topic payloads) = Some f -> Forall bytes_ok payloads ->
  exists cb, utf8 cid = Some cb /\
    parse_request f = Some (ReqProduce {| h_api_key := 0; h_version := 0; h_corr := tag; h_client := Some cb |}
                                       acks 1000 [(topic, [(partition, map msg_of_payload payloads)])]) /\
    f = wheader cb tag 0 (24 + len topic + msg_set_len payloads) ++ wproduce acks partition topic payloads /\
    unbe (firstn 4 f) = len (skipn 4 f).
Proof.
  unfold request_frame, serialize. intros H Hp. inv_obind H as mb Emb. destruct mb as [mt body].
  inv_obind Emb as b Eb. inversion Emb; subst; clear Emb.
  inv_obind H as h Eh. inversion H; subst; clear H.
  apply produce_request_some in Eb as (-> & Ha & Hpart & Ht & Hm & Hl); [|assumption].
  apply request_header_some in Eh as (cb & Ecb & -> & Hmt & Htag & Hcb & Hsz).
  exists cb. split; [assumption|]. split; [|split].
  - rewrite parse_request_header by assumption. cbn zeta. change (T_produce =? 0) with true. cbn iota.
    pose proof (parse_body_wproduce acks partition topic payloads Ha Hpart Ht Hp Hm Hl) as P.
    destruct (parse_i 2 (wproduce acks partition topic payloads)) as [[a b1]|]; [|discriminate]. cbn [obind] in *.
    destruct (parse_i 4 b1) as [[t b2]|]; [|discriminate]. cbn [obind] in *.
    destruct (parse_array parse_topic b2) as [[ts b3]|]; [|discriminate]. cbn [obind] in *.
    inversion P; subst. reflexivity.
  - rewrite len_wproduce. reflexivity.
  - rewrite len_wproduce in *. unfold wheader. rewrite <- !app_assoc.
    pose proof (len_nonneg cb). pose proof (len_nonneg topic). pose proof (msg_set_len_ge payloads).
    set (sz := 10 + len cb + (24 + len topic + msg_set_len payloads)) in *. unfold i32 in Hsz.
    rewrite (firstn_app_exact (be 4 sz)) by (now rewrite be_length).
    rewrite (skipn_app_exact (be 4 sz)) by (now rewrite be_length).
    rewrite unbe_be by (rewrite pow256_4; lia).
    rewrite !len_app, !len_be, len_wproduce. lia.
Qed.

(* ---- the writer accepts everything the format can carry (non-vacuity of request_frame_wf) ---- *)
Lemma write_messages_total ps : Forall (fun p => 14 + len p < 2147483648) ps -> exists w, write_messages ps = Some w.
Proof.
  induction ps as [|p ps IH]; intros H; cbn [write_messages]; [eauto|].
  inversion H as [|? ? H1 H2]; subst. destruct (IH H2) as [w Ew]. rewrite Ew.
  pose proof (len_nonneg p).
  unfold write_message, message_header.
  change (pack_u 1 0) with (Some (be 1 0)). change (pack_s 4 (-1)) with (Some (be 4 (-1))). cbn [obind].
  rewrite (pack_s_ok 4 (len p)) by (rewrite half4; lia). cbn [obind].
  change (pack_s 8 0) with (Some (be 8 0)). cbn [obind].
  fold (mheader p). rewrite len_mheader.
  rewrite (pack_s_ok 4) by (rewrite half4; lia). cbn [obind].
  rewrite pack_u_ok by apply land_mask_range. cbn [obind]. eauto.
Qed.

Lemma msg_set_len_each ps : msg_set_len ps < 2147483648 -> Forall (fun p => 14 + len p < 2147483648) ps.
Proof.
  induction ps as [|p ps IH]; intros H; constructor; cbn [msg_set_len] in H;
    pose proof (msg_set_len_ge ps); pose proof (len_nonneg p); [lia|apply IH; lia].
Qed.

Theorem request_frame_total cid cb tag acks partition topic payloads :
  utf8 cid = Some cb -> len cb < 32768 -> i32 tag -> i16 acks -> i32 partition -> len topic < 32768 ->
  38 + len cb + len topic + msg_set_len payloads < 2147483648 ->
  exists f, request_frame cid tag (CallPut acks partition topic payloads) = Some f.
Proof.
  unfold i16, i32. intros Hc Lc Ht Ha Hp Ltop Hsz.
  pose proof (len_nonneg cb). pose proof (len_nonneg topic). pose proof (msg_set_len_ge payloads).
  destruct (write_messages_total payloads) as [w Ew]; [apply msg_set_len_each; lia|].
  unfold request_frame, serialize, produce_request, write_string.
  rewrite (pack_s_ok 2 acks) by (rewrite half2; lia). cbn [obind].
  change (pack_s 4 1000) with (Some (be 4 1000)). change (pack_s 4 1) with (Some (be 4 1)). cbn [obind].
  rewrite (pack_s_ok 2 (len topic)) by (rewrite half2; lia). cbn [obind].
  rewrite (pack_s_ok 4 partition) by (rewrite half4; lia). cbn [obind].
  rewrite (pack_s_ok 4 (msg_set_len payloads)) by (rewrite half4; lia). cbn [obind].
  rewrite Ew. cbn [obind].
  set (body := be 2 acks ++ _).
  assert (Lb : len body = 24 + len topic + msg_set_len payloads).
  { subst body. pose proof (write_messages_total payloads) as _.
    assert (Lw : len w = msg_set_len payloads).
    { clear - Ew. revert w Ew. induction payloads as [|p ps IH]; intros w Ew; cbn [write_messages msg_set_len] in *.
      - inversion Ew. reflexivity.
      - inv_obind Ew as a Ea. inv_obind Ew as b Eb. inversion Ew; subst; clear Ew. rewrite len_app, (IH b Eb).
        unfold write_message in Ea. inv_obind Ea as h Eh. inv_obind Ea as o Eo. inv_obind Ea as sz Esz. inv_obind Ea as c Ec.
        inversion Ea; subst; clear Ea.
        unfold message_header in Eh. inv_obind Eh as x1 E1. inv_obind Eh as x2 E2. inv_obind Eh as x3 E3. inv_obind Eh as x4 E4.
        inversion Eh; subst; clear Eh.
        apply pack_u_some in E1 as [-> _]. apply pack_u_some in E2 as [-> _]. apply pack_s_some in E3 as [-> _].
        apply pack_s_some in E4 as [-> _]. apply pack_s_some in Eo as [-> _]. apply pack_s_some in Esz as [-> _].
        apply pack_u_some in Ec as [-> _]. rewrite !len_app, !len_be. lia. }
    rewrite !len_app, !len_be, Lw. lia. }
  unfold request_header. rewrite Hc. cbn [obind]. rewrite Lb.
  rewrite (pack_s_ok 4) by (rewrite half4; lia). cbn [obind].
  rewrite (pack_s_ok 2 T_produce) by (rewrite half2; unfold T_produce; lia). cbn [obind].
  change (pack_s 2 0) with (Some (be 2 0)). cbn [obind].
  rewrite (pack_s_ok 4 tag) by (rewrite half4; lia). cbn [obind].
  rewrite (pack_s_ok 2 (len cb)) by (rewrite half2; lia). cbn [obind]. eauto.
Qed.

(* ================================================================================================ *)
(* Responses: the code's readers on the reference encoders                                         *)
(* ================================================================================================ *)
Lemma enc_array_split {A} (e : A -> bytes) l rest :
  enc_array e l ++ rest = be 4 (Z.of_nat (length l)) ++ concat (map e l) ++ rest.
Proof. unfold enc_array. now rewrite <- app_assoc. Qed.

Lemma read_count {A} (l : list A) rest : ok_count l ->
  read_int 4 (be 4 (Z.of_nat (length l)) ++ rest) = Some (Z.of_nat (length l), rest).
Proof. unfold ok_count. intros H. apply read_int_be; [lia|rewrite half4; lia]. Qed.

(* produce *)
Lemma read_presp_partition_enc topic x rest : ok_presp_part x ->
  read_presp_partition topic (enc_presp_part x ++ rest) = Some ((let '(p, e, o) := x in (topic, p, e, o)), rest).
Proof.
  destruct x as [[p e] o]. unfold ok_presp_part, i32, i16, i64. intros (Hp & He & Ho).
  unfold read_presp_partition, enc_presp_part. rewrite <- !app_assoc.
  rewrite read_int_be by (try lia; rewrite half4; lia). cbn [obind].
  rewrite read_int_be by (try lia; rewrite half2; lia). cbn [obind].
  rewrite read_int_be by (try lia; rewrite half8; lia). cbn [obind]. reflexivity.
Qed.

Lemma enc_presp_part_nonnil x : (1 <= length (enc_presp_part x))%nat.
Proof. destruct x as [[p e] o]. unfold enc_presp_part. rewrite !app_length, !be_length. lia. Qed.

Lemma read_presp_topic_enc t rest : ok_presp_topic t ->
  read_presp_topic (enc_presp_topic t ++ rest) = Some (flat_presp_topic t, rest).
Proof.
  destruct t as [name parts]. unfold ok_presp_topic. cbn [fst snd]. intros (Hn & Hc & Hp).
  unfold read_presp_topic, enc_presp_topic. cbn [fst snd]. rewrite <- app_assoc.
  rewrite read_string_enc by assumption. cbn [obind].
  rewrite enc_array_split, read_count by assumption. cbn [obind].
  unfold flat_presp_topic. cbn [fst snd].
  apply (read_loop_enc (read_presp_partition name) enc_presp_part
           (fun x : presp_part => let '(p, e, o) := x in (name, p, e, o)) ok_presp_part).
  - intros x r Hx. apply read_presp_partition_enc. exact Hx.
  - apply enc_presp_part_nonnil.
  - exact Hp.
Qed.

Lemma enc_presp_topic_nonnil t : (1 <= length (enc_presp_topic t))%nat.
Proof. unfold enc_presp_topic, enc_str. rewrite !app_length, be_length. lia. Qed.

Theorem parse_produce_response_enc r rest : ok_presp r ->
  parse_produce_response (enc_produce_response r ++ rest) = Some (flat_presp r, rest).
Proof.
  unfold ok_presp. intros (Hc & Hr). unfold parse_produce_response, enc_produce_response.
  rewrite enc_array_split, read_count by assumption. cbn [obind].
  rewrite (read_loop_enc read_presp_topic enc_presp_topic flat_presp_topic ok_presp_topic);
    [reflexivity| |apply enc_presp_topic_nonnil|exact Hr].
  intros t r0 Ht. apply read_presp_topic_enc. exact Ht.
Qed.

(* int32 arrays *)
Lemma ints32_enc l : Forall i32 l -> ints32 (concat (map (be 4) l)) = l.
Proof.
  induction l as [|x l IH]; intros H; [reflexivity|]. inversion H as [|? ? Hx Hl]; subst.
  cbn [map concat]. remember (concat (map (be 4) l)) as tl eqn:Etl.
  assert (E : be 4 x ++ tl = (x / 256 / 256 / 256) mod 256 :: (x / 256 / 256) mod 256 :: (x / 256) mod 256 :: x mod 256 :: tl)
    by reflexivity.
  rewrite E. cbn [ints32].
  change [(x / 256 / 256 / 256) mod 256; (x / 256 / 256) mod 256; (x / 256) mod 256; x mod 256] with (be 4 x).
  unfold i32 in Hx. rewrite unpack_s_be by (try lia; rewrite half4; lia). subst tl. now rewrite IH.
Qed.

Lemma len_concat_be4 l : len (concat (map (be 4) l)) = 4 * Z.of_nat (length l).
Proof. induction l as [|x l IH]; cbn [map concat length]; [reflexivity|]. rewrite len_app, len_be, IH. lia. Qed.

Lemma read_i32_array_enc l rest : ok_i32s l -> read_i32_array (enc_array (be 4) l ++ rest) = Some (l, rest).
Proof.
  unfold ok_i32s. intros (Hc & Hl). unfold read_i32_array. rewrite enc_array_split, read_count by assumption. cbn [obind].
  destruct (Z.ltb_spec (Z.of_nat (length l)) 0); [lia|].
  rewrite read_n_app by (now rewrite len_concat_be4). cbn [obind]. now rewrite ints32_enc.
Qed.

(* metadata *)
Lemma read_broker_enc b rest : ok_broker b -> read_broker (enc_broker b ++ rest) = Some (view_broker b, rest).
Proof.
  destruct b as [[nid host] port]. unfold ok_broker, i32. intros (Hn & Hh & Hp).
  unfold read_broker, enc_broker. rewrite <- !app_assoc.
  rewrite read_int_be by (try lia; rewrite half4; lia). cbn [obind].
  rewrite read_string_enc by assumption. cbn [obind].
  rewrite read_int_be by (try lia; rewrite half4; lia). cbn [obind]. reflexivity.
Qed.

Lemma enc_broker_nonnil b : (1 <= length (enc_broker b))%nat.
Proof. destruct b as [[nid host] port]. unfold enc_broker. rewrite !app_length, be_length. lia. Qed.

Lemma read_partition_enc name p rest : ok_mpart p ->
  read_partition name (enc_mpart p ++ rest) = Some (view_mpart name p, rest).
Proof.
  unfold ok_mpart, i16, i32. intros (He & Hi & Hl & Hr & Hs).
  unfold read_partition, enc_mpart.
  set (A := enc_array (be 4) (mp_replicas p)). set (B := enc_array (be 4) (mp_isr p)).
  replace ((be 2 (mp_err p) ++ be 4 (mp_id p) ++ be 4 (mp_leader p) ++ A ++ B) ++ rest)
    with ((be 2 (mp_err p) ++ be 4 (mp_id p) ++ be 4 (mp_leader p)) ++ A ++ B ++ rest)
    by (rewrite <- !app_assoc; reflexivity).
  rewrite read_n_app by (rewrite !len_app, !len_be; reflexivity). cbn [obind].
  rewrite (drop_app_len (be 2 (mp_err p))) by (now rewrite len_be).
  rewrite (take_app_len (be 4 (mp_id p))) by (now rewrite len_be).
  rewrite (app_assoc (be 2 (mp_err p))).
  rewrite (drop_app_len (be 2 (mp_err p) ++ be 4 (mp_id p))) by (rewrite len_app, !len_be; reflexivity).
  subst A B.
  rewrite !unpack_s_be by (try lia; rewrite half4; lia).
  rewrite read_i32_array_enc by assumption. cbn [obind].
  rewrite read_i32_array_enc by assumption. cbn [obind]. reflexivity.
Qed.

Lemma enc_mpart_nonnil p : (1 <= length (enc_mpart p))%nat.
Proof. unfold enc_mpart. rewrite !app_length, be_length. lia. Qed.

Lemma read_topic_enc t rest : ok_mtopic t -> read_topic (enc_mtopic t ++ rest) = Some (view_mtopic t, rest).
Proof.
  unfold ok_mtopic, i16. intros (He & Hn & Hc & Hp).
  unfold read_topic, enc_mtopic. rewrite <- !app_assoc.
  rewrite read_int_be by (try lia; rewrite half2; lia). cbn [obind].
  rewrite read_string_enc by assumption. cbn [obind].
  rewrite enc_array_split, read_count by assumption. cbn [obind].
  rewrite (read_loop_enc (read_partition (mt_name t)) enc_mpart (view_mpart (mt_name t)) ok_mpart);
    [reflexivity| |apply enc_mpart_nonnil|exact Hp].
  intros p r Hpp. apply read_partition_enc. exact Hpp.
Qed.

Lemma enc_mtopic_nonnil t : (1 <= length (enc_mtopic t))%nat.
Proof. unfold enc_mtopic. rewrite !app_length, be_length. lia. Qed.

Theorem parse_metadata_response_enc r rest : ok_mresp r ->
  parse_metadata_response (enc_metadata_response r ++ rest) = Some (view_mresp r, rest).
Proof.
  unfold ok_mresp. intros (Hcb & Hb & Hct & Ht). unfold parse_metadata_response, enc_metadata_response.
  rewrite <- app_assoc. rewrite enc_array_split, read_count by assumption. cbn [obind].
  rewrite (read_loop_enc read_broker enc_broker view_broker ok_broker);
    [|intros b r0 Hb0; apply read_broker_enc; exact Hb0|apply enc_broker_nonnil|exact Hb].
  cbn [obind]. rewrite enc_array_split, read_count by assumption. cbn [obind].
  rewrite (read_loop_enc read_topic enc_mtopic view_mtopic ok_mtopic);
    [reflexivity|intros t r0 Ht0; apply read_topic_enc; exact Ht0|apply enc_mtopic_nonnil|exact Ht].
Qed.

(* ---- dictionaries with distinct keys are the lists themselves -------------------------------- *)
Section Dict.
  Context {K V : Type} (eqb : K -> K -> bool) (eqb_spec : forall x y, eqb x y = true <-> x = y).

  Lemma dict_set_fresh (d : list (K * V)) k v : ~ In k (map fst d) -> dict_set eqb d k v = d ++ [(k, v)].
  Proof.
    induction d as [|[k' v'] d IH]; intros H; cbn [dict_set app]; [reflexivity|].
    destruct (eqb k' k) eqn:E.
    - apply eqb_spec in E. subst. exfalso. apply H. cbn. now left.
    - rewrite IH; [reflexivity|]. intros I. apply H. cbn. now right.
  Qed.

  Lemma dict_fold_nodup (l : list (K * V)) : forall acc, NoDup (map fst (acc ++ l)) ->
    fold_left (fun a kv => dict_set eqb a (fst kv) (snd kv)) l acc = acc ++ l.
  Proof.
    induction l as [|[k v] l IH]; intros acc H; cbn [fold_left]; [now rewrite app_nil_r|].
    cbn [fst snd]. rewrite dict_set_fresh.
    - rewrite IH; rewrite <- app_assoc; [reflexivity|exact H].
    - rewrite map_app in H. cbn [map fst] in H. apply NoDup_remove_2 in H. intros I. apply H. apply in_or_app. now left.
  Qed.

  Lemma dict_of_nodup (l : list (K * V)) : NoDup (map fst l) -> dict_of eqb l = l.
  Proof. intros H. unfold dict_of. now rewrite dict_fold_nodup. Qed.
End Dict.

Lemma zeqb_iff x y : (x =? y) = true <-> x = y. Proof. apply Z.eqb_eq. Qed.
Lemma zlist_eqb_iff (x y : bytes) : zlist_eqb x y = true <-> x = y.
Proof. apply list_eqb_spec. exact zeqb_iff. Qed.

Lemma view_mresp_distinct r : distinct_mresp r -> view_mresp r = plain_mresp r.
Proof.
  unfold distinct_mresp. intros (Hb & Ht & Hp). unfold view_mresp, plain_mresp. f_equal.
  - apply (dict_of_nodup Z.eqb zeqb_iff). rewrite map_map. exact Hb.
  - assert (E : map view_mtopic (mr_topics r) = map plain_mtopic (mr_topics r)).
    { apply map_ext_in. intros t It. unfold view_mtopic, plain_mtopic. f_equal.
      apply (dict_of_nodup Z.eqb zeqb_iff). rewrite map_map. cbn [view_mpart fst].
      rewrite Forall_forall in Hp. exact (Hp t It). }
    rewrite E. apply (dict_of_nodup zlist_eqb zlist_eqb_iff). rewrite map_map. exact Ht.
Qed.

(* ================================================================================================ *)
(* Routing                                                                                          *)
(* ================================================================================================ *)
Lemma zget_set {V} (d : list (Z * V)) k v k' :
  dict_get Z.eqb (dict_set Z.eqb d k v) k' = if k =? k' then Some v else dict_get Z.eqb d k'.
Proof.
  induction d as [|[a b] d IH]; cbn [dict_set dict_get].
  - reflexivity.
  - destruct (Z.eqb_spec a k) as [->|N]; cbn [dict_get].
    + destruct (Z.eqb_spec k k'); reflexivity.
    + rewrite IH. destruct (Z.eqb_spec a k') as [->|N']; [|reflexivity].
      destruct (Z.eqb_spec k k'); [congruence|reflexivity].
Qed.

Lemma zget_remove {V} (d : list (Z * V)) k k' :
  dict_get Z.eqb (dict_remove Z.eqb d k) k' = if k =? k' then None else dict_get Z.eqb d k'.
Proof.
  unfold dict_remove. induction d as [|[a b] d IH]; cbn [filter dict_get fst].
  - destruct (k =? k'); reflexivity.
  - destruct (Z.eqb_spec a k) as [->|N]; cbn [negb].
    + rewrite IH. destruct (Z.eqb_spec k k'); reflexivity.
    + cbn [dict_get]. rewrite IH. destruct (Z.eqb_spec a k') as [->|N']; [|reflexivity].
      destruct (Z.eqb_spec k k'); [congruence|reflexivity].
Qed.

Lemma rstate_after_snoc cid ops op :
  rstate_after cid (ops ++ [op]) = fst (rstep cid (rstate_after cid ops) op).
Proof. unfold rstate_after. now rewrite fold_left_app. Qed.

(* the tag map after any history holds exactly the pending requests of the specification *)
Theorem rstate_pending cid ops : forall t, dict_get Z.eqb (rstate_after cid ops) t = pending (rev ops) t.
Proof.
  induction ops as [|op ops IH] using rev_ind; intros t; [reflexivity|].
  rewrite rstate_after_snoc, rev_unit. set (st := rstate_after cid ops) in *.
  destruct op as [stack tag c|s]; cbn [rstep pending].
  - unfold registers. destruct (serialize c) as [[mt body]|]; cbn [obind fst].
    + destruct (request_header cid tag mt (len body)); cbn [fst]; rewrite zget_set, IH; reflexivity.
    + apply IH.
  - unfold reply_corr. destruct (read_n 4 s) as [[h r]|]; cbn [obind fst]; [|apply IH].
    destruct (dict_get Z.eqb st (unpack_s 4 h)) as [[stack mt]|] eqn:G; cbn [fst].
    + rewrite zget_remove, IH. reflexivity.
    + rewrite IH. destruct (Z.eqb_spec (unpack_s 4 h) t) as [<-|]; [|reflexivity]. rewrite <- IH. exact G.
Qed.

Lemma rrun_app cid a : forall st b,
  rrun cid st (a ++ b) = rrun cid st a ++ rrun cid (fold_left (fun st op => fst (rstep cid st op)) a st) b.
Proof.
  induction a as [|op a IH]; intros st b; cbn [app rrun fold_left]; [reflexivity|].
  destruct (rstep cid st op) as [st' o] eqn:E. cbn [fst app]. now rewrite IH.
Qed.

Definition reply_outcome (newest_first : list rop) (s : bytes) : robs :=
  match reply_corr s with
  | None => OReplyRaise
  | Some t => match pending newest_first t with
              | Some (stack, mt) => ODeliver stack (deserialize mt s)
              | None => ODrop
              end
  end.

Theorem rrun_reply cid hist s :
  rrun cid [] (hist ++ [RReply s]) = rrun cid [] hist ++ [reply_outcome (rev hist) s].
Proof.
  rewrite rrun_app. f_equal. fold (rstate_after cid hist). cbn [rrun].
  destruct (rstep cid (rstate_after cid hist) (RReply s)) as [st' o] eqn:E. f_equal.
  cbn [rstep] in E. unfold reply_outcome, reply_corr.
  destruct (read_n 4 s) as [[h r]|]; cbn [obind]; [|now inversion E].
  rewrite <- (rstate_pending cid).
  destruct (dict_get Z.eqb (rstate_after cid hist) (unpack_s 4 h)) as [[stack mt]|]; now inversion E.
Qed.

Lemma pending_quiet l : forall rest t, Forall (quiet t) l -> pending (l ++ rest) t = pending rest t.
Proof.
  induction l as [|op l IH]; intros rest t H; [reflexivity|]. inversion H as [|? ? Q Ql]; subst.
  cbn [app pending]. destruct op as [stack tag c|s]; cbn [quiet] in Q.
  - destruct (registers c) as [mt|]; [|now apply IH].
    destruct Q as [Q|Q]; [|discriminate]. destruct (Z.eqb_spec tag t); [contradiction|now apply IH].
  - destruct (reply_corr s) as [t'|]; [|now apply IH].
    destruct (Z.eqb_spec t' t) as [->|]; [congruence|now apply IH].
Qed.

(* the correlation-id field of a framed request *)
Lemma request_frame_corr cid tag c f :
  request_frame cid tag c = Some f ->
  exists mt body, serialize c = Some (mt, body) /\ firstn 4 (skipn 8 f) = be 4 tag /\ i32 tag.
Proof.
  unfold request_frame. intros H. inv_obind H as mb Emb. destruct mb as [mt body]. inv_obind H as h Eh.
  inversion H; subst; clear H. exists mt, body. split; [exact Emb|].
  apply request_header_some in Eh as (cb & _ & -> & _ & Ht & _ & _). split; [|exact Ht].
  unfold wheader. set (sz := 10 + len cb + len body).
  replace ((be 4 sz ++ be 2 mt ++ be 2 0 ++ be 4 tag ++ be 2 (len cb) ++ cb) ++ body)
    with ((be 4 sz ++ be 2 mt ++ be 2 0) ++ be 4 tag ++ be 2 (len cb) ++ cb ++ body)
    by (rewrite <- !app_assoc; reflexivity).
  rewrite skipn_app_exact by (rewrite !app_length, !be_length; reflexivity).
  apply firstn_app_exact. now rewrite be_length.
Qed.

Lemma reply_corr_be tag s : i32 tag -> firstn 4 s = be 4 tag -> reply_corr s = Some tag.
Proof.
  unfold i32. intros Ht E. unfold reply_corr, read_n.
  assert (L : (4 <= length s)%nat).
  { apply (f_equal (@length Z)) in E. rewrite be_length, firstn_length in E. lia. }
  unfold len. replace ((0 <=? 4) && (4 <=? Z.of_nat (length s))) with true by lia. cbn [obind].
  unfold take. change (Z.to_nat 4) with 4%nat. rewrite E. rewrite unpack_s_be by (try lia; rewrite half4; lia). reflexivity.
Qed.

Theorem rrun_request_reply cid pre stack tag c f mid s :
  request_frame cid tag c = Some f ->
  Forall (quiet tag) mid ->
  firstn 4 s = firstn 4 (skipn 8 f) ->
  exists mt body, serialize c = Some (mt, body) /\
    rrun cid [] ((pre ++ RSend stack tag c :: mid) ++ [RReply s]) =
    rrun cid [] (pre ++ RSend stack tag c :: mid) ++ [ODeliver stack (deserialize mt s)].
Proof.
  intros Hf Hq Hs. destruct (request_frame_corr _ _ _ _ Hf) as (mt & body & Es & Ec & Ht).
  exists mt, body. split; [exact Es|]. rewrite rrun_reply. f_equal. f_equal.
  unfold reply_outcome. rewrite (reply_corr_be tag s Ht) by congruence.
  rewrite rev_app_distr. cbn [rev]. rewrite <- !app_assoc. cbn [app].
  rewrite pending_quiet by (apply Forall_rev; exact Hq).
  cbn [pending]. unfold registers. rewrite Es. cbn [obind]. now rewrite Z.eqb_refl.
Qed.

(* ================================================================================================ *)
(* Routing with client-side timeouts                                                                *)
(* ================================================================================================ *)
Lemma rstep_reply cid h s : snd (rstep cid (rstate_after cid h) (RReply s)) = reply_outcome (rev h) s.
Proof.
  pose proof (rrun_reply cid h s) as R. rewrite rrun_app in R. apply app_inv_head in R.
  fold (rstate_after cid h) in R. cbn [rrun] in R.
  destruct (rstep cid (rstate_after cid h) (RReply s)) as [st' o]. cbn [snd]. now inversion R.
Qed.

Lemma tstate_after_snoc cid ops op :
  tstate_after cid (ops ++ [op]) = fst (tstep cid (tstate_after cid ops) op).
Proof. unfold tstate_after. now rewrite fold_left_app. Qed.

Lemma erase_app a b : erase (a ++ b) = erase a ++ erase b.
Proof. induction a as [|[o|k|k t] a IH]; cbn [app erase]; now rewrite ?IH. Qed.

Lemma timed_out_app a b : timed_out (a ++ b) = timed_out b ++ timed_out a.
Proof.
  induction a as [|[o|k|k t] a IH]; cbn [app timed_out]; rewrite ?app_nil_r; try reflexivity; try exact IH;
    now rewrite IH, app_assoc.
Qed.

(* timeouts of requests that were already written never touch the tag map *)
Lemma tstate_erase cid hist : no_unsent hist ->
  tstate_after cid hist = (rstate_after cid (erase hist), timed_out hist).
Proof.
  induction hist as [|op hist IH] using rev_ind; intros H; [reflexivity|].
  apply Forall_app in H as [Hh Hop]. inversion Hop as [|? ? Ho _]; subst.
  rewrite tstate_after_snoc, IH by assumption. rewrite erase_app, timed_out_app.
  destruct op as [o|k|k t]; cbn [tstep erase timed_out app].
  - rewrite rstate_after_snoc. destruct (rstep cid (rstate_after cid (erase hist)) o) as [m' ob]. reflexivity.
  - now rewrite app_nil_r.
  - contradiction.
Qed.

Lemma trun_app cid a : forall st b,
  trun cid st (a ++ b) = trun cid st a ++ trun cid (fold_left (fun st op => fst (tstep cid st op)) a st) b.
Proof.
  induction a as [|op a IH]; intros st b; cbn [app trun fold_left]; [reflexivity|].
  destruct (tstep cid st op) as [st' o] eqn:E. cbn [fst app]. now rewrite IH.
Qed.

Theorem trun_reply cid hist s : no_unsent hist ->
  trun cid ([], []) (hist ++ [TOp (RReply s)]) =
  trun cid ([], []) hist ++ [hide (timed_out hist) (reply_outcome (rev (erase hist)) s)].
Proof.
  intros H. rewrite trun_app. f_equal. fold (tstate_after cid hist). rewrite tstate_erase by assumption.
  cbn [trun tstep]. pose proof (rstep_reply cid (erase hist) s) as R.
  destruct (rstep cid (rstate_after cid (erase hist)) (RReply s)) as [m' ob]. cbn [snd] in R. now rewrite R.
Qed.

(* a timed-out (written) request keeps its correlation id: it is still the pending request for that id *)
Lemma pending_after_timeout pre stack tag c mt body mid :
  serialize c = Some (mt, body) -> Forall (quiet tag) (erase mid) ->
  pending (rev (erase (pre ++ TOp (RSend stack tag c) :: TTimeout stack :: mid))) tag = Some (stack, mt).
Proof.
  intros Es Hq. rewrite erase_app. cbn [erase]. rewrite rev_app_distr. cbn [rev]. rewrite <- !app_assoc. cbn [app].
  rewrite pending_quiet by (apply Forall_rev; exact Hq).
  cbn [pending]. unfold registers. rewrite Es. cbn [obind]. now rewrite Z.eqb_refl.
Qed.

Lemma is_dead_in dead k : In k dead -> is_dead dead k = true.
Proof. intros H. unfold is_dead. apply existsb_exists. exists k. split; [exact H|apply Z.eqb_refl]. Qed.

(* the late reply to a request that timed out in flight is absorbed by that request: nobody sees it *)
Theorem trun_late_reply cid pre stack tag c f mid s :
  request_frame cid tag c = Some f ->
  no_unsent (pre ++ TOp (RSend stack tag c) :: TTimeout stack :: mid) ->
  Forall (quiet tag) (erase mid) ->
  firstn 4 s = firstn 4 (skipn 8 f) ->
  trun cid ([], []) ((pre ++ TOp (RSend stack tag c) :: TTimeout stack :: mid) ++ [TOp (RReply s)]) =
  trun cid ([], []) (pre ++ TOp (RSend stack tag c) :: TTimeout stack :: mid) ++ [ODeadReply stack].
Proof.
  intros Hf Hn Hq Hs. destruct (request_frame_corr _ _ _ _ Hf) as (mt & body & Es & Ec & Ht).
  rewrite trun_reply by assumption. f_equal. f_equal.
  unfold reply_outcome. rewrite (reply_corr_be tag s Ht) by congruence.
  rewrite (pending_after_timeout pre stack tag c mt body mid Es Hq). cbn [hide].
  rewrite is_dead_in; [reflexivity|].
  rewrite timed_out_app. cbn [timed_out]. apply in_or_app. left. apply in_or_app. right. now left.
Qed.
