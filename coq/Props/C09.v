(* C09 - Failed endpoints fail fast and are used again once reachable.
   Statements only; proofs in Proofs/ResurrectorP.v.  The model (Model/Resurrector.v) is ResurrectorSink as a
   transition system; the balancer above it, the sink underneath it (Thrift: watermark pool, ThriftMux: the mux
   transport), the endpoint's reachability and the clock are the environment (labels), so every theorem holds
   for every history of faults, requests, retry outcomes, clock advances and Close, at every interleaving.

   Parameters of every statement: next = the back-off function (code: w => min (w ** backoff_exponent,
   max_wait_interval)), tplus = the clock's addition, w0 = initial_wait_interval, odur = an upper bound on the
   time an Open of the underlying sink takes, one = one second (all in the same arbitrary time unit).
   Environment assumption of all theorems: wf_trace - a resurrector is opened once, before anything else
   happens to it (heap.py opens a node when it is added and never again). *)
From Coq Require Import Reals.
From Scales Require Import Model.Base Model.Resurrector Proofs.ResurrectorP.
Local Open Scope Z_scope.

(* While _down_on is set: the sink reports Closed (the balancer's down-queue test), and every request is
   answered with FailedFastError in the same step, nothing is forwarded, nothing else changes. *)
Theorem C09_fail_fast : forall next tplus w0 odur t0 tr s, 0 <= odur -> wf_trace tr ->
  run next tplus w0 odur (init t0) tr = Some s -> is_down s = true ->
  step next tplus w0 odur s LReq = Some (s, [OFailFast]) /\ obs_state s = 0 /\ next_sink s = None.
Proof.
  intros next tplus w0 odur t0 tr s Ho Hwf H Hd.
  pose proof (reach_inv next tplus w0 odur Ho t0 tr s Hwf H) as HI.
  split; [eapply down_fail_fast; eauto|].
  split; [unfold obs_state; rewrite Hd; reflexivity|eapply i_down; eauto].
Qed.
Print Assumptions C09_fail_fast.

(* The sleeps of one outage (hist, newest first) are w0, next w0, next (next w0), ...; with
   H1 (1 s <= w <= max -> w <= next w), H2 (next w <= max) and 1 s <= w0 <= max they never shrink and never exceed
   max; the greenlet's current wait interval is the newest of them. *)
Theorem C09_backoff : forall next tplus w0 odur one wmax t0 tr s, 0 <= odur ->
  (forall w, one <= w -> w <= wmax -> w <= next w) -> (forall w, next w <= wmax) -> one <= w0 /\ w0 <= wmax ->
  wf_trace tr -> run next tplus w0 odur (init t0) tr = Some s ->
  chain next w0 (hist s) /\ nonincr (hist s) /\ Forall (fun w => w0 <= w /\ w <= wmax) (hist s) /\
  (forall w, cur_wait (gl s) = Some w -> exists r, hist s = w :: r).
Proof.
  intros next tplus w0 odur one wmax t0 tr s Ho H1 H2 Hw0 Hwf H.
  pose proof (reach_inv next tplus w0 odur Ho t0 tr s Hwf H) as HI.
  pose proof (i_hist _ _ _ _ HI) as C.
  split; [exact C|]. split; [eapply chain_nonincr; eauto|].
  split; [eapply chain_bounds; eauto|eapply i_wait; eauto].
Qed.
Print Assumptions C09_backoff.

(* "growing delays": if next is strictly increasing below the cap (and the initial interval exceeds one second), every
   sleep of an outage is strictly longer than the one before it until the cap is reached, and stays at the cap. *)
Theorem C09_backoff_growing : forall next tplus w0 odur one wmax t0 tr s, 0 <= odur ->
  (forall w, one <= w -> w <= wmax -> w <= next w) -> (forall w, next w <= wmax) ->
  (forall w, one < w -> w < wmax -> w < next w) -> one < w0 /\ w0 <= wmax ->
  wf_trace tr -> run next tplus w0 odur (init t0) tr = Some s -> growing wmax (hist s).
Proof.
  intros next tplus w0 odur one wmax t0 tr s Ho H1 H2 H1s [Hw0 Hw1] Hwf H.
  pose proof (reach_inv next tplus w0 odur Ho t0 tr s Hwf H) as HI.
  apply (chain_growing next w0 one wmax H1 H2 ltac:(lia) H1s (hist s) Hw0). exact (i_hist _ _ _ _ HI).
Qed.
Print Assumptions C09_backoff_growing.

(* hist is what it claims to be: it changes exactly when a sleep is entered - w0 on the first fault of an
   outage (starting at the time of the fault), next w after a failed attempt that followed a sleep of w
   (starting when the attempt failed) - and records that sleep's interval. *)
Theorem C09_backoff_hist_is_sleeps : forall next tplus w0 odur s l s' o,
  step next tplus w0 odur s l = Some (s', o) ->
  match gl s' with
  | Sleeping st w =>
      (gl s = gl s' /\ hist s' = hist s) \/
      (st = now s /\ ((l = LFault /\ w = w0 /\ hist s' = [w0]) \/
                      (l = LOpenDone false /\ exists st0 wp sid, gl s = Opening st0 wp sid /\ w = next wp /\ hist s' = w :: hist s)))
  | _ => hist s' = hist s
  end.
Proof. exact hist_records. Qed.
Print Assumptions C09_backoff_hist_is_sleeps.

(* ... and each sleep lasts exactly its interval: the next attempt (CreateSink + Open) is made when the
   clock shows start + wait, never earlier, and the clock cannot pass that instant without it (LTick). *)
Theorem C09_backoff_wake_exact : forall next tplus w0 odur s s' o,
  step next tplus w0 odur s LWake = Some (s', o) ->
  exists st w, gl s = Sleeping st w /\ now s = tplus st w /\
               exists sid, gl s' = Opening (now s) w sid /\ o = [OCreate sid; OOpenUnder sid].
Proof. exact wake_on_time. Qed.
Print Assumptions C09_backoff_wake_exact.

(* Recovery.  Interface contract of the sink underneath (honest_run): an Open succeeds only if the endpoint
   was reachable when the attempt started and does succeed if it was reachable throughout the attempt.
   If the sink is down at some point s1 of a history and the endpoint is reachable from then on, then in every
   continuation without Close in which the clock gets past now s1 + max (+ eps, the clock's rounding, + twice
   the duration of an Open) an attempt has succeeded by that time: the sink holds an open underlying sink
   again, is subscribed to its faults and no longer reports Closed.
   (The balancer then un-penalises the member at its next dispatch - heap.py __Get down-queue scan, C03 - with
   no join/leave involved; that step is outside this model and is checked on the implementation.) *)
Theorem C09_recovery : forall next tplus w0 odur wmax eps (reach : Z -> Prop) t0 tr1 s1,
  0 <= odur -> 0 <= eps -> 0 <= wmax -> (forall t w, tplus t w <= t + w + eps) ->
  (forall w, next w <= wmax) -> w0 <= wmax ->
  wf_trace tr1 -> run next tplus w0 odur (init t0) tr1 = Some s1 -> is_down s1 = true ->
  (forall t, now s1 <= t -> reach t) ->
  forall tr2 s2, run next tplus w0 odur s1 tr2 = Some s2 -> honest_run next tplus w0 odur reach s1 tr2 ->
  ~ In LOpen tr2 -> ~ In LClose tr2 -> now s1 + wmax + eps + 2 * odur < now s2 ->
  exists pre post s', tr2 = pre ++ LOpenDone true :: post /\
    run next tplus w0 odur s1 (pre ++ [LOpenDone true]) = Some s' /\
    now s' <= now s1 + wmax + eps + 2 * odur /\
    next_sink s' <> None /\ is_down s' = false /\ subscribed s' = true.
Proof.
  intros next tplus w0 odur wmax eps reach t0 tr1 s1 Ho He Hm Htp H2 Hw0 Hwf H Hd Hr tr2 s2 Hrun Hhon HnO HnC Hlate.
  pose proof (reach_inv next tplus w0 odur Ho t0 tr1 s1 Hwf H) as HI.
  destruct (recovery next tplus w0 odur Ho wmax eps reach Htp H2 Hw0 Hm He s1 HI Hd Hr tr2 s2 Hrun Hhon HnO HnC Hlate)
    as [pre [post [s' [E1 [E2 [E3 [E4 [E5 E6]]]]]]]].
  exists pre, post, s'. repeat split; auto. unfold is_down. rewrite E5. reflexivity.
Qed.
Print Assumptions C09_recovery.

(* After Close nothing is retried: in every continuation no CreateSink/Open is issued, the wake-up and the
   completion of an attempt are not enabled (they cannot occur in any executable continuation), no fault is
   delivered (unsubscribed) and no greenlet exists. *)
Theorem C09_close_stops : forall next tplus w0 odur t0 tr1 tr2 s1 s2 o s3 outs, 0 <= odur ->
  wf_trace (tr1 ++ LClose :: tr2) ->
  run next tplus w0 odur (init t0) tr1 = Some s1 -> step next tplus w0 odur s1 LClose = Some (s2, o) ->
  exec next tplus w0 odur s2 tr2 = Some (s3, outs) ->
  existsb creates o = false /\ existsb creates outs = false /\
  ~ In LWake tr2 /\ (forall ok, ~ In (LOpenDone ok) tr2) /\ ~ In LFault tr2 /\
  gl s3 = NoGreenlet /\ is_down s3 = false.
Proof.
  intros next tplus w0 odur t0 tr1 tr2 s1 s2 o s3 outs Ho Hwf H1 H2 H3.
  assert (Hwf1 : wf_trace tr1 /\ ~ In LOpen tr2).
  { unfold wf_trace in *. destruct tr1 as [|l r]; cbn in *.
    - split; [tauto|exact Hwf].
    - split; intros Hin; apply Hwf; apply in_or_app; [left; exact Hin|right; right; exact Hin]. }
  destruct Hwf1 as [Hwf1 Hn2].
  pose proof (reach_inv next tplus w0 odur Ho t0 tr1 s1 Hwf1 H1) as HI.
  destruct (close_quiet _ _ _ _ _ _ _ HI H2) as [Q C].
  destruct (quiet_exec _ _ _ _ _ _ _ _ Q Hn2 H3) as [[Qa [Qb Qc]] [C2 [N1 [N2 N3]]]].
  repeat split; auto. unfold is_down. rewrite Qc. reflexivity.
Qed.
Print Assumptions C09_close_stops.

(* Real-analysis side lemma: the ideal back-off function w => min (w ^ 1.2) max satisfies H1, H2 and the
   strict version of H1: for w >= 1 it does not shrink, for 1 < w < max it grows.  (For w < 1 it does - a configured initial_wait_interval below one second
   makes the retry loop spin faster and faster; the shipped default is 5.)  The doubles that actually occur
   are checked against H1/H2 on every run (Resurrector.tab_ok). *)
Theorem C09_Rpower_grows : forall w wmax : Rdefinitions.R, (1 <= w)%R -> (w <= wmax)%R ->
  (w <= Rbasic_fun.Rmin (Rpower.Rpower w (6 / 5)) wmax)%R /\
  (Rbasic_fun.Rmin (Rpower.Rpower w (6 / 5)) wmax <= wmax)%R /\
  ((1 < w)%R -> (w < wmax)%R -> (w < Rbasic_fun.Rmin (Rpower.Rpower w (6 / 5)) wmax)%R).
Proof.
  intros w wmax H Hm. split; [apply RealSide.backoff_real_H1; assumption|].
  split; [apply RealSide.backoff_real_H2|apply RealSide.backoff_real_H1s].
Qed.
Print Assumptions C09_Rpower_grows.

(* ---- non-vacuity: a concrete history (unit = 1, w => min (2w) 8, exact clock, Open takes no time) --------- *)
Definition ex_next (w : Z) : Z := Z.min (2 * w) 8.
Definition ex_trace : list label :=
  [LOpen; LReq; LTick 10; LFault; LReq; LTick 12; LWake; LOpenDone false; LReq; LTick 16; LWake; LOpenDone false;
   LTick 24; LWake; LOpenDone false; LTick 30; LReq; LTick 32; LWake; LOpenDone true; LReq; LClose; LReq].

Example C09_nonvacuous :
  exec ex_next Z.add 2 0 (init 0) ex_trace =
    Some (mk (Some 5) false None NoGreenlet 32 5 [8; 8; 4; 2],
          [OCreate 1; OOpenUnder 1; OForward 1; OCloseUnder 1; OFailFast; OCreate 2; OOpenUnder 2; OCloseUnder 2; OFailFast;
           OCreate 3; OOpenUnder 3; OCloseUnder 3; OCreate 4; OOpenUnder 4; OCloseUnder 4; OFailFast;
           OCreate 5; OOpenUnder 5; OForward 5; OCloseUnder 5; OForward 5])
  /\ wf_trace ex_trace
  /\ (forall w, 1 <= w -> w <= 8 -> w <= ex_next w) /\ (forall w, 1 < w -> w < 8 -> w < ex_next w) /\ (forall w, ex_next w <= 8) /\ (forall t w, Z.add t w <= t + w + 0).
Proof.
  split; [vm_compute; reflexivity|]. split; [unfold wf_trace; cbn; intuition discriminate|].
  unfold ex_next. repeat split; intros; lia.
Qed.

(* the contract is satisfiable on that history: endpoint unreachable during [10, 30), reachable otherwise *)
Example C09_nonvacuous_honest :
  exists s1, run ex_next Z.add 2 0 (init 0) (firstn 16 ex_trace) = Some s1 /\ is_down s1 = true /\ now s1 = 30 /\
    honest_run ex_next Z.add 2 0 (fun t => t < 10 \/ 30 <= t) s1 (skipn 16 ex_trace).
Proof.
  eexists. split; [vm_compute; reflexivity|]. split; [reflexivity|]. split; [reflexivity|].
  cbn. repeat split; auto; intros; right; lia.
Qed.

(* the clock of the simulation: binary64 addition of a time and a wait (units of 2^-52 s) *)
Example C09_fl_add_example :
  (* 1028.0 + 2.2973967099940698 = 1030.297396709994 (not exact: the sum is rounded to 53 bits) *)
  fl_add 4629700416936869888 10346554967051496 = 4640046971903921152 /\
  4629700416936869888 + 10346554967051496 = 4640046971903921384.
Proof. split; vm_compute; reflexivity. Qed.
