(* C10 - Timer queue runs each action once, never early, in deadline order.
   Only statements here; proofs are in Proofs/TimerQueueP.v.  Every theorem holds for every resolution
   r >= 0 (r = 0: no rounding) and every label sequence from `init` (any interleaving of Schedule calls,
   cancel calls, clock advances, single worker segments woken by the event or by the time-out, and action
   runs), with no bound on the length of the sequence, the queue size or the times.

   Vocabulary: instance k = the k-th Schedule call; `sched_log 0 ls` = [(k, requested deadline)] of the
   Sched labels of ls; `ran st` = [(k, clock value when it ran)]; `ceilr r d` = d rounded up to the
   resolution (C10_ceil_spec). *)
From Scales Require Import Model.Base Model.TimerQueue Proofs.TimerQueueP.
Local Open Scope Z_scope.

(* ceilr r d is the least multiple of r that is >= d *)
Theorem C10_ceil_spec : forall r d, 0 < r ->
  d <= ceilr r d < d + r /\ (ceilr r d) mod r = 0 /\ (forall m, m mod r = 0 -> d <= m -> ceilr r d <= m).
Proof.
  intros r d Hr. pose proof (ceilr_ge r d). pose proof (ceilr_lt r d Hr). repeat split; try lia.
  - apply ceilr_grid, Hr.
  - intros m. apply ceilr_least, Hr.
Qed.
Print Assumptions C10_ceil_spec.

(* the history variables of the model state are exactly the logs of the calls in the label sequence *)
Theorem C10_history : forall r ls st, exec r init ls = Some st ->
  reqs st = sched_log 0 ls /\ cancels st = cancel_log 0 ls.
Proof. intros r ls st H. split; [exact (exec_reqs _ _ _ _ H)|exact (exec_cancels _ _ _ _ H)]. Qed.
Print Assumptions C10_history.

(* No instance runs twice (nor is one waiting to run that already ran). *)
Theorem C10_once : forall r ls st, 0 <= r -> exec r init ls = Some st ->
  NoDup (map fst (ran st) ++ spawned st).
Proof. intros r ls st _ H. exact (I_tnd _ _ (inv_reachable _ _ (ex_intro _ ls H))). Qed.
Print Assumptions C10_once.

(* Whatever ran was scheduled, and ran neither before its requested time nor before the rounded deadline. *)
Theorem C10_never_early : forall r ls st s t, 0 <= r -> exec r init ls = Some st -> In (s, t) (ran st) ->
  exists d, In (s, d) (sched_log 0 ls) /\ d <= t /\ ceilr r d <= t /\ t <= now st.
Proof.
  intros r ls st s t Hr H Hin.
  destruct (fire_inv r st s t Hr (inv_reachable _ _ (ex_intro _ ls H)) Hin) as (d & D1 & D2 & D3 & D4 & _).
  exists d. rewrite <- (proj1 (C10_history _ _ _ H)). auto.
Qed.
Print Assumptions C10_never_early.

(* An instance cancelled while the clock is before its rounded deadline never runs, whatever happens next. *)
Theorem C10_cancel : forall r ls1 ls2 st1 st2 s d, 0 <= r ->
  exec r init ls1 = Some st1 -> In (s, d) (sched_log 0 ls1) -> now st1 < ceilr r d ->
  exec r st1 (Cancel s :: ls2) = Some st2 ->
  ~ In s (map fst (ran st2)) /\ ~ In s (spawned st2).
Proof.
  intros r ls1 ls2 st1 st2 s d Hr H1 Hs Hlt H2.
  assert (H12 : exec r init (ls1 ++ Cancel s :: ls2) = Some st2) by (rewrite exec_app, H1; exact H2).
  pose proof (inv_reachable _ _ (ex_intro _ _ H12)) as HI.
  assert (Hc : In (s, now st1) (cancels st2)).
  { rewrite (exec_cancels _ _ _ _ H2). apply in_or_app. right. left. reflexivity. }
  assert (Hq : In (s, d) (reqs st2)).
  { rewrite (exec_reqs _ _ _ _ H2), (exec_reqs _ _ _ _ H1). apply in_or_app. left. exact Hs. }
  destruct (I_canc _ _ HI _ _ _ Hc Hq Hlt) as [C _]. unfold taken in C.
  split; intros Hin; apply C, in_or_app; auto.
Qed.
Print Assumptions C10_cancel.

(* What cancel guarantees exactly.  cancel() only flips a flag in the queue entry, so it is effective precisely
   when it arrives before the WORKER has taken the entry off the queue - whatever the clock says: an instance that
   is not yet in the taken order (spawned or run) when it is cancelled never runs.  (C10_cancel is the special
   case "the clock is still before the rounded deadline", where the worker cannot have taken it.)
   Conversely, once the worker has handed the action to its own greenlet, a cancel - even one arriving at the very
   same clock value, exactly at the rounded deadline - does not stop it: by C10_cancel_frame `spawned` is
   untouched, and `Run` runs whatever is first in `spawned` (C10_example_cancel shows such a history).  Users of
   the timer (C01) must therefore treat a fire after their own cancel as possible and make it inert. *)
Theorem C10_cancel_before_take : forall r ls1 ls2 st1 st2 s, 0 <= r ->
  exec r init ls1 = Some st1 -> ~ In s (map fst (ran st1) ++ spawned st1) ->
  exec r st1 (Cancel s :: ls2) = Some st2 ->
  ~ In s (map fst (ran st2)) /\ ~ In s (spawned st2).
Proof.
  intros r ls1 ls2 st1 st2 s _ H1 Hn H2. cbn [exec] in H2.
  destruct (step r st1 (Cancel s)) as [st1'|] eqn:S; [|discriminate].
  pose proof (inv_reachable _ _ (ex_intro _ ls1 H1)) as HI.
  pose proof (cancel_makes_dead _ _ _ _ Hn S) as D.
  destruct (dead_exec _ _ _ _ _ (inv_step _ _ _ _ HI S) D H2) as (N & _ & _). unfold taken in N.
  split; intros Hin; apply N, in_or_app; auto.
Qed.
Print Assumptions C10_cancel_before_take.

(* Cancelling a changes nothing but the flag of a's own queue entry: every other entry, the event, the
   worker's position and resumability, the spawned and run logs are untouched. *)
Theorem C10_cancel_frame : forall r st a st', step r st (Cancel a) = Some st' ->
  ev st' = ev st /\ seq st' = seq st /\ now st' = now st /\ pc st' = pc st /\ spawned st' = spawned st /\
  ran st' = ran st /\ reqs st' = reqs st /\
  q st' = map (set_canc a) (q st) /\
  (forall e, e_seq e <> a -> set_canc a e = e) /\
  (forall e, e_dl (set_canc a e) = e_dl e /\ e_seq (set_canc a e) = e_seq e) /\
  (forall b, enabled r st' (Worker b) = enabled r st (Worker b)) /\ enabled r st' Run = enabled r st Run.
Proof.
  intros r st a st' H. cbn in H. destruct ((1 <=? a) && (a <=? seq st)); [|discriminate]. inversion H; subst; cbn.
  repeat split; try reflexivity; try apply set_canc_key.
  - intros e. apply set_canc_other.
  - intros b. unfold enabled. cbn. unfold worker_seg. cbn.
    destruct (pc st) as [| | |ex|]; destruct b; cbn; try reflexivity; destruct (ev st); cbn; try reflexivity;
      destruct (ex <=? now st); reflexivity.
  - unfold enabled. cbn. destruct (spawned st); reflexivity.
Qed.
Print Assumptions C10_cancel_frame.

(* The worker greenlet never dies: _PeekNext / heappop are never reached with an empty queue. *)
Theorem C10_worker_safe : forall r ls st, 0 <= r -> exec r init ls = Some st -> pc st <> Crashed.
Proof.
  intros r ls st _ H E. pose proof (I_pc _ _ (inv_reachable _ _ (ex_intro _ ls H))) as P.
  unfold pc_inv in P. rewrite E in P. exact P.
Qed.
Print Assumptions C10_worker_safe.

(* When nothing is runnable (the worker is blocked, no action greenlet is pending), every instance whose
   rounded deadline the clock has reached has run - unless it was cancelled at some point - and every
   entry still in the queue is strictly in the future: no wake-up is ever lost. *)
Theorem C10_no_lost_wakeup : forall r ls st, 0 <= r -> exec r init ls = Some st -> quiescent r st ->
  (forall e, In e (q st) -> now st < e_dl e) /\
  (forall s d, In (s, d) (sched_log 0 ls) -> ceilr r d <= now st ->
     In s (map fst (ran st)) \/ In s (map fst (cancel_log 0 ls))).
Proof.
  intros r ls st Hr H Q. pose proof (inv_reachable _ _ (ex_intro _ ls H)) as HI.
  pose proof (inv2_reachable _ _ (ex_intro _ ls H)) as HJ.
  pose proof (no_lost_wakeup_inv _ _ HI Q) as NL. split; [exact NL|].
  destruct (C10_history _ _ _ H) as [<- <-]. intros s d Hs Hd.
  destruct (J_cons _ _ HJ _ _ Hs) as [Hq|[Ht|Hc]]; [|left|right; exact Hc].
  - exfalso. apply in_map_iff in Hq as (e & Ee & He). specialize (NL e He).
    destruct (I_q _ _ HI e He) as (d' & D1 & D2). rewrite Ee in D1. rewrite (I_rfun _ _ HI _ _ _ Hs D1) in Hd. lia.
  - destruct Q as (_ & _ & Q). unfold taken in Ht. rewrite Q, app_nil_r in Ht. exact Ht.
Qed.
Print Assumptions C10_no_lost_wakeup.

(* ... and quiescence is reached: without a new Schedule call or clock advance at most
   2|queue| + |spawned| + 3 worker segments / action runs can happen (cancel calls may interleave). *)
Theorem C10_terminates : forall r ls ls' st st', 0 <= r -> exec r init ls = Some st ->
  forallb internal ls' = true -> exec r st ls' = Some st' ->
  wr_count ls' <= 2 * Z.of_nat (length (q st)) + Z.of_nat (length (spawned st)) + 3.
Proof.
  intros r ls ls' st st' _ H Hi H'. pose proof (inv_reachable _ _ (ex_intro _ ls H)) as HI.
  pose proof (terminates_inv _ _ _ _ HI Hi H'). pose proof (mu_nonneg st').
  assert (mu st <= 2 * Z.of_nat (length (q st)) + Z.of_nat (length (spawned st)) + 3); [|lia].
  unfold mu. destruct (ev st), (pc st); lia.
Qed.
Print Assumptions C10_terminates.

(* Order, one worker segment: the worker removes a prefix of the queue in (rounded deadline, seq) order; each
   removed entry was cancelled or due; the un-cancelled ones are started in that order, after everything
   spawned before; everything that stays in the queue is later in (rounded deadline, seq) order.
   An action run takes the oldest spawned greenlet (FIFO). *)
Theorem C10_order_step : forall r ls st, 0 <= r -> exec r init ls = Some st ->
  (forall b st', step r st (Worker b) = Some st' ->
     exists p, q st = p ++ q st' /\ sorted (p ++ q st') /\
       spawned st' = spawned st ++ map e_seq (filter live p) /\
       (forall x, In x p -> e_canc x = true \/ e_dl x <= now st) /\ ran st' = ran st) /\
  (forall st', step r st Run = Some st' ->
     exists s sp, spawned st = s :: sp /\ spawned st' = sp /\ ran st' = ran st ++ [(s, now st)]).
Proof.
  intros r ls st _ H. pose proof (inv_reachable _ _ (ex_intro _ ls H)) as HI. split.
  - intros b st' S. eapply order_step; eauto.
  - intros st' S. cbn in S. destruct (spawned st) as [|s sp]; [discriminate|]. inversion S; subst; cbn. eauto.
Qed.
Print Assumptions C10_order_step.

(* Order, globally: in the order in which instances were taken off the queue (= the order in which they
   run), a is before b although b was scheduled earlier only if a's rounded deadline is strictly smaller.
   Equivalently: of two instances that both run, the one with the smaller rounded deadline - and among
   equal rounded deadlines the one scheduled first - runs first, provided it was scheduled first. *)
Theorem C10_order : forall r ls st, 0 <= r -> exec r init ls = Some st ->
  ordered (fun a b => forall da db, In (a, da) (sched_log 0 ls) -> In (b, db) (sched_log 0 ls) ->
                        b < a -> ceilr r da < ceilr r db)
          (map fst (ran st) ++ spawned st).
Proof.
  intros r ls st _ H. pose proof (J_ord _ _ (inv2_reachable _ _ (ex_intro _ ls H))) as O.
  unfold ord_ok, taken in O. rewrite (proj1 (C10_history _ _ _ H)) in O. exact O.
Qed.
Print Assumptions C10_order.

(* Summary for users of the timer (C01): instance s fires only if it was scheduled (for d), at most once,
   at a clock value t with ceil_r d <= t (hence d <= t), and only if every cancel of s so far came at or
   after its rounded deadline. *)
Theorem C10_fire_spec : forall r ls st s t, 0 <= r -> exec r init ls = Some st -> In (s, t) (ran st) ->
  exists d, In (s, d) (sched_log 0 ls) /\ d <= ceilr r d /\ ceilr r d <= t /\ t <= now st /\
    (forall tc, In (s, tc) (cancel_log 0 ls) -> ceilr r d <= tc) /\
    (forall t', In (s, t') (ran st) -> t' = t) /\ NoDup (map fst (ran st)).
Proof.
  intros r ls st s t Hr H Hin. pose proof (inv_reachable _ _ (ex_intro _ ls H)) as HI.
  destruct (fire_inv r st s t Hr HI Hin) as (d & D1 & D2 & D3 & D4 & D5).
  destruct (C10_history _ _ _ H) as [E1 E2]. rewrite E1 in D1. rewrite E2 in D5.
  destruct (once_inv _ _ HI) as (N & _ & _).
  exists d. repeat split; try assumption; [apply ceilr_ge, Hr|].
  intros t' Hin'. clear - N Hin Hin'. induction (ran st) as [|[s0 t0] l IH]; cbn in *; [contradiction|].
  inversion N as [|? ? Hx N']; subst. destruct Hin as [E|Hin], Hin' as [E'|Hin'].
  - congruence.
  - inversion E; subst. exfalso. apply Hx. change s with (fst (s, t')). apply in_map, Hin'.
  - inversion E'; subst. exfalso. apply Hx. change s with (fst (s, t)). apply in_map, Hin.
  - apply IH; assumption.
Qed.
Print Assumptions C10_fire_spec.

(* ------------------------------------------------------------------------------------------------ *)
(* Non-vacuity (resolution 4 ticks).                                                                 *)
(* A new earliest deadline arrives while the worker is in sleep(0): instance 2 (deadline 7 -> 8) is    *)
(* scheduled after instance 1 (deadline 40) and runs first, at clock value 8.                          *)
Example C10_example_new_head_during_sleep0 :
  exists st, exec 4 init [Sched 40; Worker false; Worker false; Sched 7; Worker true; Worker false; Tick 8; Worker false; Run]
             = Some st /\ ran st = [(2, 8)] /\ snap (q st) = [(40, 1, false)] /\ pc st = TimedWait 40 /\ quiescent 4 st.
Proof. eexists. split; [vm_compute; reflexivity|]. vm_compute. repeat split. Qed.

(* set() and the time-out coincide: the worker waits for instance 1 (deadline 16), instance 2 with the
   earlier deadline 8 arrives (flag set), the clock jumps to 16 and the wait is ended by the TIME-OUT: the
   worker pops the new head (2) - not the one it peeked - and later 1; both orders of waking agree. *)
Example C10_example_timeout_with_flag_set :
  exists st st', exec 4 init [Sched 16; Worker false; Worker false; Sched 8; Tick 16; Worker false; Worker false; Run; Run] = Some st /\
             exec 4 init [Sched 16; Worker false; Worker false; Sched 8; Tick 16; Worker true; Worker false; Run; Run] = Some st' /\
             ran st = [(2, 16); (1, 16)] /\ ran st' = [(2, 16); (1, 16)] /\ pc st = IdleWait /\ quiescent 4 st.
Proof. eexists. eexists. split; [vm_compute; reflexivity|]. split; [vm_compute; reflexivity|]. vm_compute. repeat split. Qed.

(* a cancelled head is dropped, a late cancel does not stop an action that is already spawned *)
Example C10_example_cancel :
  exists st, exec 4 init [Sched 5; Sched 9; Worker false; Worker false; Cancel 1; Tick 8; Worker false; Tick 12; Worker false; Cancel 2; Run]
             = Some st /\ ran st = [(2, 12)] /\ q st = [] /\ cancels st = [(1, 0); (2, 12)].
Proof. eexists. split; [vm_compute; reflexivity|]. vm_compute. repeat split. Qed.

(* cancel arriving exactly AT the rounded deadline (clock = 8): before the worker popped the entry it never
   runs; after the worker handed it to its greenlet it still runs, at the same clock value *)
Example C10_example_cancel_at_deadline :
  exists st st',
    exec 4 init [Sched 8; Worker false; Worker false; Tick 8; Cancel 1; Worker false] = Some st /\
    exec 4 init [Sched 8; Worker false; Worker false; Tick 8; Worker false; Cancel 1; Run] = Some st' /\
    ran st = [] /\ spawned st = [] /\ q st = [] /\ cancels st = [(1, 8)] /\ quiescent 4 st /\
    ran st' = [(1, 8)] /\ cancels st' = [(1, 8)].
Proof. eexists. eexists. split; [vm_compute; reflexivity|]. split; [vm_compute; reflexivity|]. vm_compute. repeat split. Qed.
