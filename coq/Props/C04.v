(* C04 - Per-member load is conserved; removed members drain, then close.
   Statements only; proofs in Proofs/BalancerP.v.  All theorems hold for every label sequence: any
   interleaving of dispatches, completions (each request's release may be invoked any number of times, by
   reply, error, time-out or fault - the model only sees "PutWrapper of request rid is invoked"), removals of
   idle / loaded / marked-down members and re-additions of the same endpoint. *)
From Coq Require Import ZArith List Bool Lia.
From Scales Require Import Model.Base Model.Heap Model.Balancer Proofs.HeapP Proofs.BalancerP.
Import ListNotations.
Local Open Scope Z_scope.

(* dispatched to node n and not yet released *)
Definition outstanding (s : state) (n : Z) : Z := out_of (reqs s) n.
Definition marked_down (s : state) (n : Z) : Prop := In n (downq s).
(* nodes that left the heap (index = -1) *)
Definition departed (s : state) (n : Z) : Prop := In n (dnids (detached s)).

(* The load field of every node - in the heap or departed - is Idle + (dispatched - completed), plus Penalty
   exactly while it is marked down (for a departed node: if it was marked down when it left); the count is
   never negative. *)
Theorem C04_conservation : forall s0 ls, let s := run (init_state s0) ls in
  (forall y, In y (heap s) ->
     load y = Idle + outstanding s (nid y) + (if memz (nid y) (downq s) then Penalty else 0)) /\
  (forall y was_down, In (y, was_down) (detached s) ->
     load y = Idle + outstanding s (nid y) + (if was_down then Penalty else 0)) /\
  (forall n, 0 <= outstanding s n).
Proof.
  intros s0 ls s. destruct (inv_run ls _ (init_state_inv s0)) as [C _]. fold s in C.
  split; [exact (c_cons s C)|]. split; [exact (c_dcons s C)|]. intros n. apply out_nonneg.
Qed.
Print Assumptions C04_conservation.

(* 'Decrementing load below Zero' is never logged: no release ever finds a load below Idle. *)
Theorem C04_never_below_zero : forall s0 ls lb, let s := run (init_state s0) ls in
  ~ In EWarn (snd (snd (step s lb))).
Proof. intros s0 ls lb s. apply step_no_warn. apply inv_run. apply init_state_inv. Qed.
Print Assumptions C04_never_below_zero.

(* The release of a request is idempotent: the first invocation marks it, any later one changes nothing. *)
Theorem C04_release_idempotent : forall s0 ls rid j s' b ev, let s := run (init_state s0) ls in
  step s (Complete rid j) = (s', (RPut b, ev)) ->
  forall j', step s' (Complete rid j') = (s', (RAlready, [])).
Proof.
  intros s0 ls rid j s' b ev s D j'. cbn [step] in *.
  destruct (complete_marks _ _ _ _ _ _ D) as (x & _ & E). unfold do_complete. rewrite E. reflexivity.
Qed.
Print Assumptions C04_release_idempotent.

(* A member removed from the server set receives no new requests, whatever happens afterwards
   (a re-join of the endpoint creates a fresh node). *)
Theorem C04_removed_gets_nothing : forall s0 ls1 ep y ls2 s' n e ev,
  let s1 := run (init_state s0) ls1 in
  init_done s1 = true -> In y (heap s1) -> nep y = ep ->
  let s2 := run (fst (step s1 (Leave ep))) ls2 in
  step s2 Dispatch = (s', (RSent n e, ev)) -> n <> nid y.
Proof.
  intros s0 ls1 ep y ls2 s' n e ev s1 I Hy Hep s2 D.
  pose proof (inv_run ls1 _ (init_state_inv s0)) as I1. fold s1 in I1.
  pose proof (inv_step s1 (Leave ep) I1) as I1'.
  assert (Hd : departed (fst (step s1 (Leave ep))) (nid y)).
  { cbn [step]. unfold do_notify. rewrite I. cbn [do_notif].
    destruct (do_remove_server s1 ep) as [s1' ev1] eqn:R. cbn [fst].
    destruct (remove_events s1 ep s1' ev1 (proj1 I1) R) as [_ H]. destruct (H y Hy Hep) as [E _].
    unfold departed. rewrite E. left. reflexivity. }
  pose proof (run_detached ls2 _ _ I1' Hd) as Hd2. fold s2 in Hd2.
  pose proof (inv_run ls2 _ I1') as [C2 _]. fold s2 in C2.
  cbn [step] in D. destruct (dispatch_choice s2 s' n e ev C2 D) as ((z & Hz & Hn & _) & _).
  intros ->. eapply (nodup_disj _ _ (nid y) (c_nodup s2 C2)); [|exact Hd2].
  rewrite <- Hn. apply in_map. exact Hz.
Qed.
Print Assumptions C04_removed_gets_nothing.

(* Close at removal: the departing member's channel is closed in the same step iff it has no outstanding
   request or is marked down; it becomes a departed node carrying its load. *)
Theorem C04_close_at_leave : forall s0 ls ep y, let s := run (init_state s0) ls in
  init_done s = true -> In y (heap s) -> nep y = ep -> outstanding s (nid y) < Penalty ->
  let '(s', (_, ev)) := step s (Leave ep) in
  departed s' (nid y) /\ ~ In (nid y) (map nid (heap s')) /\
  (outstanding s (nid y) = 0 \/ marked_down s (nid y) -> ev = [EClose (nid y)]) /\
  (~ (outstanding s (nid y) = 0 \/ marked_down s (nid y)) -> ev = []).
Proof.
  intros s0 ls ep y s I Hy Hep B.
  pose proof (inv_run ls _ (init_state_inv s0)) as I1. fold s in I1.
  pose proof (inv_step s (Leave ep) I1) as [C' _]. revert C'.
  cbn [step]. unfold do_notify. rewrite I. cbn [do_notif].
  destruct (do_remove_server s ep) as [s' ev] eqn:R. cbn [fst]. intros C'.
  destruct (remove_events s ep s' ev (proj1 I1) R) as [_ H]. destruct (H y Hy Hep) as [E1 E2].
  assert (Hd : departed s' (nid y)) by (unfold departed; rewrite E1; left; reflexivity).
  split; [exact Hd|]. split; [intros Hin; exact (nodup_disj _ _ (nid y) (c_nodup s' C') Hin Hd)|].
  unfold marked_down, outstanding in *. pose proof (out_nonneg (reqs s) (nid y)) as Ho.
  replace (Penalty <=? out_of (reqs s) (nid y)) with false in E2 by lia. rewrite orb_false_r in E2.
  destruct (memz (nid y) (downq s)) eqn:M.
  - rewrite orb_true_r in E2. split; [intros _; exact E2|]. intros Hn. exfalso. apply Hn. right. apply memz_in. exact M.
  - apply memz_not in M. cbn [negb] in E2. rewrite andb_true_r, orb_false_r in E2.
    destruct (Z.eqb_spec (out_of (reqs s) (nid y)) 0) as [E0|E0].
    + split; [intros _; exact E2|]. intros Hn. exfalso. apply Hn. left. exact E0.
    + split; [intros [H0|H0]; contradiction|intros _; exact E2].
Qed.
Print Assumptions C04_close_at_leave.

(* Close at completion: releasing a request closes a channel iff the request belongs to a departed node that
   was not marked down when it left and this is its last outstanding request; then it is that node's channel.
   Releases on members never close anything. *)
Theorem C04_close_at_completion : forall s0 ls rid j s' b ev, let s := run (init_state s0) ls in
  step s (Complete rid j) = (s', (RPut b, ev)) ->
  exists n, find_req (reqs s) rid = Some (n, false) /\
  (In n (map nid (heap s)) -> ev = []) /\
  (forall y was_down, In (y, was_down) (detached s) -> nid y = n ->
     ev = if (outstanding s n =? 1) && negb was_down then [EClose n] else []).
Proof.
  intros s0 ls rid j s' b ev s D.
  pose proof (inv_run ls _ (init_state_inv s0)) as [C _]. fold s in C.
  cbn [step] in D. unfold do_complete in D.
  destruct (find_req (reqs s) rid) as [[x [|]]|] eqn:Fr; try solve [inversion D].
  destruct (do_put _ x j) as [s1 [res ev1]] eqn:P.
  assert (E : ev1 = ev) by (destruct res; inversion D; reflexivity). subst ev1.
  exists x. split; [reflexivity|].
  destruct (put_events s rid x j s1 res ev C Fr P) as [E1 E2]. split.
  - intros H. apply E1. exact H.
  - intros y w Hy Hn. apply (E2 y w Hy Hn).
Qed.
Print Assumptions C04_close_at_completion.

(* Nothing else closes a member channel: dispatches, channel state changes and joins never do
   (Init can, when a deferred Leave notification is applied right after the initial list). *)
Theorem C04_close_only_at_leave_or_completion : forall s0 ls lb n, let s := run (init_state s0) ls in
  In (EClose n) (snd (snd (step s lb))) ->
  (exists ep, lb = Leave ep) \/ (exists rid j, lb = Complete rid j) \/ (exists snap, lb = Init snap).
Proof.
  intros s0 ls lb n s H.
  pose proof (inv_run ls _ (init_state_inv s0)) as [C _]. fold s in C.
  destruct lb as [snap|ep|ep| |rid j|x st].
  - right. right. eexists. reflexivity.
  - exfalso. cbn [step] in H. unfold do_notify in H. destruct (init_done s); [|destruct H].
    cbn [do_notif] in H. destruct (do_add_server s ep) as [s1 ev] eqn:D. cbn [snd] in H.
    destruct (add_events _ _ _ _ D) as [_ Hs]. specialize (Hs _ H). discriminate.
  - left. eexists. reflexivity.
  - exfalso. cbn [step] in H. destruct (do_dispatch s) as [s1 [res ev]] eqn:D. cbn [snd] in H.
    destruct (dispatch_events s s1 res ev C D _ H) as (p & [E|E]); discriminate.
  - right. left. eexists. eexists. reflexivity.
  - destruct H.
Qed.
Print Assumptions C04_close_only_at_leave_or_completion.

(* Non-vacuity: a loaded member leaves (no close) and is closed by its last completion, a second completion
   of the same request is a no-op, the endpoint re-joins as a fresh node (channel 2), a loaded member
   leaves and stays open, and finally a member with two outstanding requests leaves without a close. *)
Example C04_example :
  map fst (run_obs (init_state 2)
    [Init [10; 11]; Dispatch; Dispatch; Dispatch; Leave 10; Complete 0 0; Complete 2 0; Complete 2 0;
     Join 10; Leave 11; Dispatch; Dispatch; Leave 10]) =
  [(RApplied, [ECreate 0 10; ECreate 1 11]); (RSent 0 10, []); (RSent 1 11, []); (RSent 1 11, []);
   (RApplied, []); (RPut false, [EClose 0]); (RPut false, []); (RAlready, []); (RApplied, [ECreate 2 10]);
   (RApplied, []); (RSent 2 10, []); (RSent 2 10, []); (RApplied, [])].
Proof. vm_compute. reflexivity. Qed.
