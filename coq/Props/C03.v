From Scales Require Import Model.Base Model.Heap Model.Balancer.
Theorem C03_stub : True. Proof. exact I. Qed.
Print Assumptions C03_stub.
