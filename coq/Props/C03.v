(* C03 - Balancer sends each request to a least-loaded open member.
   Statements only; proofs are in Proofs/HeapP.v and Proofs/BalancerP.v.  Every theorem quantifies over all
   label sequences (Init/Join/Leave/Dispatch/Complete with any randint outcome/SetChan), i.e. over every
   history of dispatches, completions in any order, members going down and coming back, joining and
   leaving, and every outcome of the balancer's random choices; no bound on members or steps. *)
From Coq Require Import ZArith List Bool Lia.
From Scales Require Import Model.Base Model.Heap Model.Balancer Proofs.HeapP Proofs.BalancerP.
Import ListNotations.
Local Open Scope Z_scope.

(* requests dispatched to node n whose release (PutWrapper) has not run yet *)
Definition outstanding (s : state) (n : Z) : Z := out_of (reqs s) n.
(* the members the balancer is using: nodes in the heap *)
Definition member (s : state) (n : Z) : Prop := In n (map nid (heap s)).
Definition is_open (s : state) (n : Z) : Prop := lookup_chan s n = ST_OPEN.

(* The heap order load(parent) <= load(child), one node per channel, and load = Idle + outstanding
   (+ Penalty iff the node is on the down list) hold in every reachable state.  The proof of the first
   part needs the FixUp after FixDown in __Put/_RemoveSink (hole_fix_down / okl_remove): F3. *)
Theorem C03_heap_inv : forall s0 ls, let s := run (init_state s0) ls in
  ok load (to_fun dummy (heap s)) (length (heap s)) /\
  NoDup (map nid (heap s)) /\
  NoDup (downq s) /\
  (forall y, In y (heap s) ->
     load y = Idle + outstanding s (nid y) + (if memz (nid y) (downq s) then Penalty else 0)).
Proof.
  intros s0 ls s. destruct (inv_run ls _ (init_state_inv s0)) as [C _]. fold s in C.
  destruct (core_HS s C) as (H1 & H2 & H3 & H4). repeat split; assumption.
Qed.
Print Assumptions C03_heap_inv.

(* A dispatched request goes to a member, carries that member's endpoint, and - when some member's channel is
   open - that member is open and has the fewest outstanding requests among all open members. *)
Theorem C03_least_loaded : forall s0 ls s' n ep ev, let s := run (init_state s0) ls in
  step s Dispatch = (s', (RSent n ep, ev)) ->
  (forall m, member s m -> outstanding s m < Penalty) ->
  (exists y, In y (heap s) /\ nid y = n /\ nep y = ep) /\
  ((exists m, member s m /\ is_open s m) ->
   is_open s n /\ forall m, member s m -> is_open s m -> outstanding s n <= outstanding s m).
Proof.
  intros s0 ls s' n ep ev s D B. destruct (inv_run ls _ (init_state_inv s0)) as [C _]. fold s in C.
  cbn [step] in D. destruct (dispatch_choice s s' n ep ev C D) as (H1 & H2 & H3 & _).
  split; [exact H1|]. intros (m & Hm & Ho).
  destruct (Z.eq_dec (lookup_chan s n) ST_OPEN) as [E|E].
  - split; [exact E|]. intros m' Hm' Ho'. apply H2; assumption.
  - exfalso. pose proof (H3 E m Hm Ho). pose proof (B m Hm). unfold outstanding in *. lia.
Qed.
Print Assumptions C03_least_loaded.

(* A member whose channel is not open is chosen only when no member is open. *)
Theorem C03_down_only_if_all_down : forall s0 ls s' n ep ev, let s := run (init_state s0) ls in
  step s Dispatch = (s', (RSent n ep, ev)) ->
  (forall m, member s m -> outstanding s m < Penalty) ->
  ~ is_open s n -> forall m, member s m -> ~ is_open s m.
Proof.
  intros s0 ls s' n ep ev s D B Hn m Hm Ho. destruct (inv_run ls _ (init_state_inv s0)) as [C _]. fold s in C.
  cbn [step] in D. destruct (dispatch_choice s s' n ep ev C D) as (_ & _ & H3 & _).
  pose proof (H3 Hn m Hm Ho). pose proof (B m Hm). unfold outstanding in *. lia.
Qed.
Print Assumptions C03_down_only_if_all_down.

(* With no members at all the request fails immediately with NoMembersError and nothing changes;
   conversely that error is only ever produced by an empty balancer. *)
Theorem C03_no_members : forall s0 ls, let s := run (init_state s0) ls in
  init_done s = true ->
  (servers s = [] -> step s Dispatch = (s, (RNoMembers, []))) /\
  (forall s' ev, step s Dispatch = (s', (RNoMembers, ev)) -> servers s = [] /\ s' = s /\ ev = []).
Proof.
  intros s0 ls s I. destruct (inv_run ls _ (init_state_inv s0)) as [C _]. fold s in C.
  destruct (c_srv s C) as (_ & _ & S3). cbn [step]. unfold do_dispatch. rewrite I. cbn [negb]. split.
  - intros E. destruct (heap s) as [|h t] eqn:Eh; [reflexivity|].
    exfalso. assert (H : In (nep h) (servers s)) by (apply S3; left; reflexivity). rewrite E in H. destruct H.
  - intros s' ev D. destruct (heap s) as [|h t] eqn:Eh.
    + inversion D; subst. split; [|split; reflexivity].
      destruct (servers s) as [|e r]; [reflexivity|]. exfalso. assert (H : In e (@nil Z)) by (apply S3; left; reflexivity). destruct H.
    + destruct (get _ _ _ _) as [[[l1 dq1] ev1]|]; inversion D.
Qed.
Print Assumptions C03_no_members.

(* The __Get loop always returns (its fuel, size + 1 iterations, is never exhausted). *)
Theorem C03_get_terminates : forall s0 ls, let s := run (init_state s0) ls in
  fst (snd (step s Dispatch)) <> RStuck.
Proof.
  intros s0 ls s. destruct (inv_run ls _ (init_state_inv s0)) as [C _]. fold s in C.
  cbn [step]. apply dispatch_not_stuck. exact C.
Qed.
Print Assumptions C03_get_terminates.

(* Non-vacuity: three members, two loaded; one goes down, the idle one leaves, requests complete out of order;
   the next dispatch goes to the open member with fewer outstanding requests. *)
Example C03_example : exists ls s',
  let s := run (init_state 2) ls in
  (forall m, member s m -> outstanding s m < Penalty) /\
  (exists m, member s m /\ is_open s m) /\
  step s Dispatch = (s', (RSent 1 11, [])).
Proof.
  exists [Init [10; 11; 12]; Dispatch; Dispatch; Dispatch; Dispatch; SetChan 0 4; Complete 1 2; Leave 12; Dispatch].
  eexists. cbv zeta.
  remember (run (init_state 2) _) as s eqn:Es. vm_compute in Es. subst s.
  split; [|split].
  - intros m _. unfold outstanding. cbn [reqs]. eapply Z.le_lt_trans; [apply out_le_len|]. vm_compute. reflexivity.
  - exists 1. split; [vm_compute; auto|vm_compute; reflexivity].
  - vm_compute. reflexivity.
Qed.

(* Why the repair of F3 is needed (and why C03_heap_inv needs hole_fix_down + fix_up_ok): removing position 4 of
   this 7-element heap with Swap + FixDown only - the code before commit 4d58417 - leaves 4 below its parent 10. *)
Example C03_fixdown_alone_is_not_enough :
  let f := to_fun 0 [1; 10; 2; 11; 12; 3; 4] in
  ok (fun x : Z => x) f 7 /\
  ~ ok (fun x : Z => x) (fix_down (fun x : Z => x) 6 (swap f 4 7) 4 6) 6 /\
  ok (fun x : Z => x) (fix_up (fun x : Z => x) 4 (fix_down (fun x : Z => x) 6 (swap f 4 7) 4 6) 4) 6.
Proof.
  cbv zeta. split; [|split].
  - intros i Hi. assert (E : (i = 2 \/ i = 3 \/ i = 4 \/ i = 5 \/ i = 6 \/ i = 7)%nat) by lia.
    destruct E as [->|[->|[->|[->|[->| ->]]]]]; unfold le_at; vm_compute; discriminate.
  - intros H. specialize (H 4%nat ltac:(lia)). unfold le_at in H. vm_compute in H. apply H. reflexivity.
  - intros i Hi. assert (E : (i = 2 \/ i = 3 \/ i = 4 \/ i = 5 \/ i = 6)%nat) by lia.
    destruct E as [->|[->|[->|[->| ->]]]]; unfold le_at; vm_compute; discriminate.
Qed.
