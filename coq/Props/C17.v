(* C17 - Async combinators resolve correctly for every completion order.
   Only statements here; proofs are in Proofs/AsyncP.v.  Every theorem quantifies over
     - every number of inputs n, every success/failure assignment and value (the outcomes carried by the events),
     - every subset already complete at call time (`pre`, completed in any order before the call),
     - every completion order of the others and every placement of the points where the hub runs
       (`evs` is an arbitrary list of `Complete i o` / `Run` events),
     - every nesting depth (chains),
   under the only hypothesis that every input completes at most once (wf / uwf / cwf / mwf).
   `delivered n pre evs` is the list of completions the combinator's callback has received, in order:
   C17_schedule says it is the completion order, inputs complete at call time first in input-list order,
   cut at the last Run. *)
From Scales Require Import Model.Base.
From Scales Require Import Model.Async.
From Scales Require Import Proofs.AsyncP.
Local Open Scope nat_scope.

(* The machine (gevent links + hub queue) runs the combinator's callback over `delivered`, which is a
   prefix of "pre-completed inputs in list order, then the other inputs in completion order", and all of
   it once the hub has run after the last completion. *)
Theorem C17_schedule : forall n pre evs,
  (exists rest, pre_order n pre ++ completions evs = delivered n pre evs ++ rest) /\
  delivered n pre (evs ++ [Run]) = pre_order n pre ++ completions evs /\
  (wf n pre evs ->
   NoDup (map fst (delivered n pre evs)) /\
   comb (all_run n pre evs) = fold_left (cbf all_cb (fun pos => pos)) (delivered n pre evs) (all_new n)).
Proof.
  intros n pre evs. split; [apply sched_prefix|]. split; [apply sched_flush|].
  intros H. split; [apply (wf_delivered n pre evs H)|]. unfold all_run, all_run_on, all_call_on.
  rewrite !seq_length. now apply machine_delivers.
Qed.
Print Assumptions C17_schedule.

(* WhenAll. *)
Theorem C17_all : forall n pre evs, wf n pre evs ->
  let D := delivered n pre evs in
  let r := all_ret (all_run n pre evs) in
  (* successful exactly when all n inputs have been delivered and all succeeded; then with their values in input order *)
  (csucc r = true <-> all_ok D /\ length D = n) /\
  (all_ok D -> length D = n ->
     r = mkCell (Some (values_in_input_order n D)) None /\
     forall i, i < n -> exists v, In (i, Ok v) D /\ nth i (values_in_input_order n D) None = Some v) /\
  (* failed as soon as a failing completion is delivered (with the latest failure), no value *)
  (forall i e, In (i, Err e) D -> exists e', last_err D = Some e' /\ r = mkCell None (Some e')) /\
  (* not ready otherwise *)
  (all_ok D -> length D < n -> r = cempty) /\
  (* no inputs: complete at once with [] *)
  (n = 0 -> r = mkCell (Some []) None).
Proof.
  intros n pre evs H D r.
  pose proof (all_run_ret n pre evs H) as Hinv. fold D in Hinv. unfold all_inv in Hinv.
  destruct (wf_delivered n pre evs H) as [Hn Hb]. fold D in Hn, Hb.
  assert (length D <= n) as Hle by (rewrite <- (map_length fst); now apply NoDup_bounded_length).
  assert (forall i e, In (i, Err e) D -> exists e', last_err D = Some e' /\ r = mkCell None (Some e')) as Hfail.
  { intros i e Hin. destruct (last_err D) as [e'|] eqn:E.
    - exists e'. split; [reflexivity|exact Hinv].
    - exfalso. apply last_err_none in E. now apply (E i e). }
  assert (all_ok D -> length D = n ->
          r = mkCell (Some (values_in_input_order n D)) None /\
          forall i, i < n -> exists v, In (i, Ok v) D /\ nth i (values_in_input_order n D) None = Some v) as Hsucc.
  { intros Hok Hl. pose proof Hok as E. apply last_err_none in E. rewrite E in Hinv.
    destruct Hinv as (_ & Hlen & Hnth & Hret). rewrite Hl, Nat.eqb_refl in Hret.
    destruct (all_results_full n D _ Hn Hb Hl Hok Hlen Hnth) as [Hv Hex]. split.
    - unfold r, all_ret. now rewrite Hret, Hv.
    - intros i Hi. destruct (Hex i Hi) as (v & Hin & Hvo). exists v. split; [assumption|]. now rewrite values_nth. }
  assert (all_ok D -> length D < n -> r = cempty) as Hpend.
  { intros Hok Hl. apply last_err_none in Hok. rewrite Hok in Hinv. destruct Hinv as (_ & _ & _ & Hret).
    destruct (Nat.eqb_spec (length D) n); [lia|exact Hret]. }
  split; [|split; [exact Hsucc|split; [exact Hfail|split; [exact Hpend|]]]].
  - split.
    + intros Hs. destruct (last_err D) as [e'|] eqn:E.
      * unfold r, all_ret in Hs. rewrite Hinv in Hs. discriminate.
      * apply last_err_none in E. split; [assumption|].
        destruct (Nat.eq_dec (length D) n) as [|Hne]; [assumption|].
        rewrite (Hpend E) in Hs by lia. discriminate.
    + intros [Hok Hl]. destruct (Hsucc Hok Hl) as [-> _]. reflexivity.
  - intros ->. assert (D = []) as HD by (unfold D; now apply delivered_nil).
    destruct (Hsucc) as [-> _]; [rewrite HD; intros ? ? []|now rewrite HD|reflexivity].
Qed.
Print Assumptions C17_all.

(* ... and once a failure has been delivered the result is never successful again, whatever happens next. *)
Theorem C17_all_sticky : forall n pre evs evs' i e, wf n pre (evs ++ evs') ->
  In (i, Err e) (delivered n pre evs) ->
  let r := all_ret (all_run n pre (evs ++ evs')) in
  csucc r = false /\ cval r = None /\ exists e', cexc r = Some e'.
Proof.
  intros n pre evs evs' i e H Hin r.
  destruct (delivered_app n pre evs evs') as [q E].
  destruct (C17_all n pre (evs ++ evs') H) as (_ & _ & Hfail & _).
  destruct (Hfail i e) as (e' & _ & Hr); [rewrite E; apply in_or_app; now left|].
  unfold r. rewrite Hr. repeat split. now exists e'.
Qed.
Print Assumptions C17_all_sticky.

(* WhenAll on an input list `ars` in which the same result may sit at several positions (`ars` lists indices
   into a pool of results; Q = the results delivered so far): the value list is the inputs' values POSITION BY
   POSITION, for every list, every assignment, every pre-completed subset and every completion order. *)
Theorem C17_all_aliased : forall ars pre evs, awf ars pre evs ->
  let Q := delivered_on ars pre evs in
  let r := all_ret (all_run_on ars pre evs) in
  (forall a e, In (a, Err e) Q -> cval r = None /\ exists a' e', In (a', Err e') Q /\ cexc r = Some e') /\
  (all_ok Q -> (forall a, In a ars -> In a (map fst Q)) ->
     r = mkCell (Some (map (value_of Q) ars)) None /\
     forall a, In a ars -> exists v, In (a, Ok v) Q /\ value_of Q a = Some v) /\
  (all_ok Q -> (exists a, In a ars /\ ~ In a (map fst Q)) -> r = cempty) /\
  (csucc r = true -> all_ok Q /\ forall a, In a ars -> In a (map fst Q)).
Proof. exact all_alias_spec. Qed.
Print Assumptions C17_all_aliased.

(* WhenAny. *)
Theorem C17_any : forall n pre evs, wf n pre evs ->
  let P := pre_order n pre in
  let D := delivered n pre evs in
  let r := any_ret (any_run n pre evs) in
  y_bad (comb (any_run n pre evs)) = false /\
  (* an input that had already succeeded at call time (the first in list order): the result at once *)
  (forall v, first_ok P = Some v -> r = mkCell (Some v) None) /\
  (* otherwise the first success delivered *)
  (first_ok P = None -> forall v, first_ok D = Some v -> r = mkCell (Some v) None) /\
  (* failed only when all n inputs have been delivered and all failed: with the last failure *)
  (first_ok P = None -> all_err D -> length D = n -> 0 < n ->
     exists e, last_err D = Some e /\ r = mkCell None (Some e)) /\
  (forall e, cexc r = Some e -> first_ok P = None /\ all_err D /\ length D = n /\ last_err D = Some e) /\
  (* not ready otherwise (in particular never, when there is no input) *)
  (first_ok P = None -> all_err D -> length D < n \/ n = 0 -> r = cempty) /\
  (* a successful result carries no exception and its value is that of the first success in delivery
     order: inputs complete at call time first, in list order, then the others in completion order *)
  (csucc r = true -> cexc r = None /\ cval r = first_ok (P ++ completions evs)).
Proof.
  intros n pre evs H P D r.
  destruct (any_run_ret n pre evs H) as [Hr Hbad]. fold P D r in Hr.
  destruct (wf_delivered n pre evs H) as [Hn Hb]. fold D in Hn, Hb.
  assert (length D <= n) as Hle by (rewrite <- (map_length fst); now apply NoDup_bounded_length).
  split; [exact Hbad|]. unfold any_spec_ret in Hr.
  split; [intros v E; now rewrite E in Hr|].
  split; [intros E v E'; now rewrite E, E' in Hr|].
  split.
  { intros E Herr Hl Hpos. rewrite E in Hr. apply first_ok_none in Herr. rewrite Herr in Hr.
    rewrite Hl, Nat.eqb_refl in Hr. replace (0 <? n) with true in Hr by (symmetry; now apply Nat.ltb_lt).
    cbn in Hr. destruct (last_err D) as [e|] eqn:El.
    - exists e. split; [reflexivity|exact Hr].
    - exfalso. apply last_err_none in El. destruct D as [|[i [v|e]] D']; [cbn in Hl; lia| |].
      + cbn in Herr. discriminate.
      + apply (El i e). now left. }
  split.
  { intros e He. destruct (first_ok P) as [v|] eqn:E; [rewrite Hr in He; discriminate|].
    destruct (first_ok D) as [v|] eqn:E'; [rewrite Hr in He; discriminate|].
    destruct (0 <? length D) eqn:E0; destruct (Nat.eqb_spec (length D) n) as [El|El]; cbn in Hr;
      rewrite Hr in He; try discriminate.
    cbn in He. repeat split; try assumption. now apply first_ok_none. }
  split.
  { intros E Herr Hl. rewrite E in Hr. apply first_ok_none in Herr. rewrite Herr in Hr.
    destruct (Nat.ltb_spec 0 (length D)) as [Hp|Hp]; destruct (Nat.eqb_spec (length D) n) as [El|El]; cbn in Hr;
      try exact Hr; lia. }
  intros Hs. destruct (sched_prefix evs P) as [rest Erest]. fold (delivered n pre evs) in Erest. fold D in Erest.
  destruct (first_ok P) as [v|] eqn:E.
  - rewrite Hr. split; [reflexivity|]. cbn. symmetry. now apply first_ok_app_some.
  - destruct (first_ok D) as [v|] eqn:E'.
    + rewrite Hr. split; [reflexivity|]. cbn. rewrite Erest. symmetry. now apply first_ok_app_some.
    + exfalso. destruct ((0 <? length D) && (length D =? n)); rewrite Hr in Hs; discriminate.
Qed.
Print Assumptions C17_any.

(* ... and a successful result never changes again: in particular its exception stays None. *)
Theorem C17_any_sticky : forall n pre evs evs', wf n pre (evs ++ evs') ->
  csucc (any_ret (any_run n pre evs)) = true ->
  any_ret (any_run n pre (evs ++ evs')) = any_ret (any_run n pre evs) /\
  cexc (any_ret (any_run n pre (evs ++ evs'))) = None.
Proof.
  intros n pre evs evs' H Hs. pose proof (wf_prefix _ _ _ _ H) as H0.
  destruct (any_run_ret n pre evs H0) as [Hr _]. destruct (any_run_ret n pre (evs ++ evs') H) as [Hr' _].
  destruct (first_ok (pre_order n pre)) as [v|].
  - rewrite Hr, Hr'. split; reflexivity.
  - unfold any_spec_ret in *. destruct (first_ok (delivered n pre evs)) as [v|] eqn:E.
    + destruct (delivered_app n pre evs evs') as [q Eq]. rewrite Eq in Hr'.
      rewrite (first_ok_app_some _ _ _ E) in Hr'. rewrite Hr, Hr'. split; reflexivity.
    + exfalso. rewrite Hr in Hs. destruct (_ && _) in Hs; discriminate.
Qed.
Print Assumptions C17_any_sticky.

(* Unwrap of a chain of nested results of any depth whose innermost outcome is `term ch` (a plain value,
   or the first failure met): the unwrapped result is never anything else, is complete only when every
   level is, and is complete with that outcome once every level is complete and the hub has run. *)
Theorem C17_unwrap : forall ch pre evs, uwf ch pre evs ->
  let m := unwrap_run ch pre evs in
  u_bad (um_u m) = false /\
  (unwrap_ret m = cempty \/ (unwrap_ret m = cell_of (term ch) /\ all_levels ch (pre ++ u_done evs))) /\
  (uwf ch pre (evs ++ [URun]) -> all_levels ch (pre ++ u_done evs) ->
   unwrap_ret (unwrap_run ch pre (evs ++ [URun])) = cell_of (term ch)).
Proof.
  intros ch pre evs H m. destruct (unwrap_safe ch pre evs H) as [Hb Hs].
  split; [exact Hb|]. split; [exact Hs|]. intros H' Hall. now apply unwrap_live.
Qed.
Print Assumptions C17_unwrap.

(* ContinueWith, for every continuation fn (returns = Ok, raises = Err), on the hub or spawned: the
   continuation has run exactly once, with the completed input, iff the input is complete and the hub
   has run since, and then the returned result holds what it returned or raised; before that it has
   not run and the returned result is not ready. *)
Theorem C17_continue : forall fn on_hub pre evs, cwf (phase0 pre) evs ->
  let s := cont_run fn on_hub pre evs in
  match c_phase pre evs with
  | Delivered o => c_calls s = [cell_of o] /\ c_cw s = cell_of (fn (cell_of o))
  | _ => c_calls s = [] /\ c_cw s = cempty
  end.
Proof.
  intros fn on_hub pre evs H s. pose proof (cont_run_inv fn on_hub pre evs H) as Hi. fold s in Hi.
  destruct (c_phase pre evs); cbn in Hi; rewrite Hi; split; reflexivity.
Qed.
Print Assumptions C17_continue.

(* Map: fn is applied exactly when the input has succeeded (once, to its value, after delivery); a failed
   input's failure is propagated without calling fn; the mapped result is fn's value or raised exception,
   or - when fn returns a chain of results - its unwrapping. *)
Theorem C17_map : forall f ch pre_in pre_levels evs, mwf ch pre_in pre_levels evs ->
  let s := map_run f ch pre_in pre_levels evs in
  match m_phase pre_in evs with
  | Delivered (Err e) => m_calls s = [] /\ map_ret s = cell_of (Err e) /\ u_bad (m_u s) = false
  | Delivered (Ok v) =>
      m_calls s = [v] /\ u_bad (m_u s) = false /\
      match m_result f v with
      | Some r => map_ret s = cell_of r
      | None => map_ret s = cempty \/ (map_ret s = cell_of (term ch) /\ all_levels ch (pre_levels ++ m_done evs))
      end
  | _ => m_calls s = [] /\ map_ret s = cempty /\ u_bad (m_u s) = false
  end.
Proof.
  intros f ch pre_in pre_levels evs H s. pose proof (map_run_inv f ch pre_in pre_levels evs H) as [_ Hi]. fold s in Hi.
  unfold map_ret. destruct (m_phase pre_in evs) as [|o|[v|e]].
  - destruct Hi as (_ & _ & _ & _ & -> & ->). repeat split.
  - destruct Hi as (_ & _ & _ & _ & -> & ->). repeat split.
  - destruct Hi as (_ & _ & -> & Hu). split; [reflexivity|]. destruct (m_result f v) as [r|].
    + rewrite Hu. split; reflexivity.
    + destruct Hu as (Hb & [(w & _ & _ & _ & Ht & _)|(_ & _ & Hall & Ht)]); (split; [assumption|]); [left|right];
        [assumption|split; assumption].
  - destruct Hi as (_ & _ & -> & ->). repeat split.
Qed.
Print Assumptions C17_map.

Theorem C17_map_chain_live : forall f ch pre_in pre_levels evs v, mwf ch pre_in pre_levels (evs ++ [MRun]) ->
  m_phase pre_in (evs ++ [MRun]) = Delivered (Ok v) -> m_result f v = None ->
  all_levels ch (pre_levels ++ m_done evs) ->
  map_ret (map_run f ch pre_in pre_levels (evs ++ [MRun])) = cell_of (term ch).
Proof. exact map_live. Qed.
Print Assumptions C17_map_chain_live.

(* Run / RunInline (SafeLink): fn is called exactly once - at once when inline, else when the hub has run - and
   the result then holds what it returned or raised (any exception class); before that it is not ready. *)
Theorem C17_safelink : forall inline res runs,
  let s := runfn_run res runs (runfn_call inline res) in
  (inline = true \/ 0 < runs -> r_ar s = cell_of res /\ r_calls s = 1%Z) /\
  (inline = false -> runs = 0 -> r_ar s = cempty /\ r_calls s = 0%Z).
Proof.
  intros inline res runs s. unfold s. rewrite runfn_spec. split.
  - intros [->|H]; [cbn; split; reflexivity|].
    replace (0 <? runs) with true by (symmetry; now apply Nat.ltb_lt). rewrite orb_true_r. split; reflexivity.
  - intros -> ->. cbn. split; reflexivity.
Qed.
Print Assumptions C17_safelink.

(* Non-vacuity: well-formed histories exist and the results are the expected ones. Input 2 is complete at
   call time; 0 then 1 complete; everything succeeds / input 1 fails / WhenAny with a failed pre-completed input. *)
Example C17_example :
  wf 3 [(2, Ok 5%Z)] [Complete 0 (Ok 1%Z); Run; Complete 1 (Ok 7%Z); Run] /\
  all_ret (all_run 3 [(2, Ok 5%Z)] [Complete 0 (Ok 1%Z); Run; Complete 1 (Ok 7%Z); Run])
    = mkCell (Some [Some 1%Z; Some 7%Z; Some 5%Z]) None /\
  all_ret (all_run 3 [(2, Ok 5%Z)] [Complete 0 (Ok 1%Z); Run; Complete 1 (Err 9%Z); Run]) = mkCell None (Some 9%Z) /\
  any_ret (any_run 2 [(0, Err 8%Z)] [Complete 1 (Ok 7%Z); Run]) = mkCell (Some 7%Z) None /\
  uwf (mkChain 2 (Ok 4%Z)) [1] [UComplete 2; URun; UComplete 0; URun] /\
  unwrap_ret (unwrap_run (mkChain 2 (Ok 4%Z)) [1] [UComplete 2; URun; UComplete 0; URun]) = mkCell (Some 4%Z) None /\
  all_ret (all_run_on [0; 1; 0] [(1, Ok 7%Z)] [Complete 0 (Ok 5%Z); Run]) = mkCell (Some [Some 5%Z; Some 7%Z; Some 5%Z]) None /\
  mwf (mkChain 1 (Err 3%Z)) None [1] [MLevel 0; MIn (Ok 2%Z); MRun] /\
  map_ret (map_run MChain (mkChain 1 (Err 3%Z)) None [1] [MLevel 0; MIn (Ok 2%Z); MRun]) = mkCell None (Some 3%Z).
Proof.
  split; [|repeat split; try (vm_compute; reflexivity)].
  - split; cbn.
    + repeat constructor; cbn; intuition discriminate.
    + intros i [<-|[<-|[<-|[]]]]; lia.
  - repeat constructor; cbn; intuition discriminate.
  - cbn. intros j [<-|[<-|[<-|[]]]]; lia.
  - repeat constructor; cbn; intuition discriminate.
  - cbn. intros j [<-|[<-|[]]]; lia.
Qed.
