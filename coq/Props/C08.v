(* C08 - Transports fail in-flight requests once and report dead connections.
   Only statements here; proofs are in Proofs/TransportP.v (serial transport) and Proofs/TransportMuxP.v (ThriftMux).
   The models (Model/Transport.v) are transition systems whose labels carry the outcome of every I/O operation
   (ok / exception / end of stream), of every connect, the delivery of a gevent.Timeout, the order in which greenlets run
   and (Mux) the clock and the ping loop's random draws: "for all label sequences" = for every fault position, fault
   kind, in-flight set and schedule.  Serial.run also enforces the owner contract [Serial.usage_ok] (requests are issued
   after Open() completed; Open() is not called on a sink that carries a request; re-opening a closed sink is allowed). *)
From Scales Require Import Model.Base Model.Transport Proofs.TransportP Proofs.TransportMuxP.
Import Transport.
Local Open Scope Z_scope.

(* ------------------------------------------------------------------------------------------------- *)
(* Serial transport                                                                                    *)
(* ------------------------------------------------------------------------------------------------- *)
Import Serial SerialP.

(* Whatever happened before ([ls]), with call [c] in flight at stage [stg]: a write / header read / body read that
   raises or hits end of stream, or a re-open inside the time-out handler that fails, is always possible as the next
   step and then posts exactly one message to c's stack (the error, or TimeoutError on the handler path) and nothing to
   anybody else, clears _processing, leaves the socket closed and [state] = Closed, and raises on_faulted exactly when
   the transport did not already report Closed. *)
Theorem C08_serial_fail_once : forall ls s e0 c stg l,
  run init ls = Some (s, e0) -> proc s = Some (c, stg) -> fault_label stg l = true ->
  exists s' e, step s l = Some (s', e) /\
    posts e = [(c, fail_kind l)] /\ proc s' = None /\ reported s' = Closed /\ sk s' = SNone /\
    nfaults e = (match pre_reported s l with Closed => 0 | _ => 1 end).
Proof.
  intros ls s e0 c stg l R P F. pose proof (run_inv ls init s e0 inv_init R) as I.
  destruct (fail_once s c stg l I P F) as (s' & e & H1 & H2 & H3 & H4 & H5 & H6 & H7).
  exists s', e. repeat split; assumption.
Qed.
Print Assumptions C08_serial_fail_once.

(* A refused / failed / timed-out connect of Open(): the transport reports Closed (no handle is left behind: the F21
   position) and raises on_faulted - unless the owner had closed the sink before the connect ended. *)
Theorem C08_serial_open_fail : forall ls s e0,
  run init ls = Some (s, e0) -> opn s = Some OConn ->
  exists s' e, step s (LOConn false) = Some (s', e) /\ reported s' = Closed /\ sk s' = SNone /\ opn s' = None /\
    posts e = [] /\ (nfaults e = match cst s with Closed => 0 | _ => 1 end).
Proof.
  intros ls s e0 R O. apply open_fail; [exact (run_inv ls init s e0 inv_init R) | assumption].
Qed.
Print Assumptions C08_serial_open_fail.

(* Incarnations.  A closed or faulted transport may be opened again; whatever happened before,
   (a) a successful connect of Open() - the first one or a re-open - makes the transport report Open with _state = Open;
   (b) while _state = Open every failing operation with a call in flight (failing write / read, refused re-connect
       inside the time-out handler) raises on_faulted exactly once and leaves the transport Closed - the fault signal is
       per incarnation, not per object;
   (c) an established incarnation (_state = Open) ends only with on_faulted or with the owner's Close(). *)
Theorem C08_serial_incarnation : forall ls s e0,
  run init ls = Some (s, e0) ->
  (opn s = Some OConn ->
     exists s', step s (LOConn true) = Some (s', []) /\ cst s' = Open /\ sk s' = SConn /\ reported s' = Open) /\
  (cst s = Open -> forall c stg l, proc s = Some (c, stg) -> fault_label stg l = true ->
     exists s' e, step s l = Some (s', e) /\ nfaults e = 1 /\ reported s' = Closed /\ posts e = [(c, fail_kind l)]) /\
  (cst s = Open -> forall l s' e, step s l = Some (s', e) ->
     cst s' = Open \/ (cst s' = Closed /\ (nfaults e = 1 \/ is_close l = true))).
Proof.
  intros ls s e0 R. pose proof (run_inv ls init s e0 inv_init R) as I. split; [|split].
  - intros O. destruct (open_ok s O) as (s' & H1 & H2 & H3 & H4 & _). exists s'. repeat split; assumption.
  - intros C c stg l P F. destruct (fail_once s c stg l I P F) as (s' & e & H1 & H2 & H3 & H4 & H5 & H6 & H7).
    exists s', e. rewrite (established_reported s l C) in H5. repeat split; assumption.
  - intros C l s' e St. eapply established_ends; eassumption.
Qed.
Print Assumptions C08_serial_incarnation.

(* The pure time-out path: the Timeout is deliverable at every blocking stage, and when the re-open succeeds the call
   gets exactly one TimeoutError, _processing is cleared, no fault is raised and the transport is connected again. *)
Theorem C08_serial_timeout_reopen : forall s c stg,
  proc s = Some (c, stg) -> stg = Writing \/ stg = ReadHdr \/ stg = ReadBody ->
  exists s1 s2, step s LTimeout = Some (s1, [ConnBegin]) /\ proc s1 = Some (c, Reconn) /\
    step s1 (LReconn true) = Some (s2, [Post c KTimeout]) /\ proc s2 = None /\ sk s2 = SConn /\ reported s2 = Open.
Proof.
  intros s c stg P H. destruct (timeout_enters s c stg P H) as (s1 & H1 & P1).
  destruct (timeout_reopen_ok s1 c P1) as (s2 & H2 & P2 & K2 & R2 & _).
  exists s1, s2. repeat split; assumption.
Qed.
Print Assumptions C08_serial_timeout_reopen.

(* Over a whole history: no call ever gets two messages; the call in flight has got none yet; a call that was accepted
   and is no longer in flight got exactly one - unless the owner's Close() killed its greenlet. *)
Theorem C08_serial_exactly_once : forall ls s e c,
  run init ls = Some (s, e) ->
  (nposts c e <= 1)%nat /\
  (forall stg, proc s = Some (c, stg) -> nposts c e = O) /\
  (In (Accepted c) e -> (forall stg, proc s <> Some (c, stg)) ->
     (nposts c e = 1%nat /\ ~ In (Killed c) e) \/ (nposts c e = O /\ In (Killed c) e)).
Proof.
  intros ls s e c R. destruct (serial_once ls s e c R) as (H1 & H2 & H3). split; [assumption|]. split; [assumption|].
  intros A N. apply acc_in in A. destruct (H3 A N) as [[X Y]|[X Y]].
  - left. split; [assumption|]. intros K. apply kil_in in K. congruence.
  - right. split; [assumption|]. apply kil_in. assumption.
Qed.
Print Assumptions C08_serial_exactly_once.

(* on_faulted is raised at most once per connection: between two Faulted events of any history there is a new
   connection attempt. *)
Theorem C08_serial_fault_once_per_connection : forall ls s e,
  run init ls = Some (s, e) -> exists a, fscan true e = Some a.
Proof.
  intros ls s e R. destruct (run_K ls init s e true inv_init (fun X => ltac:(discriminate X)) R) as (a & F & _).
  exists a. assumption.
Qed.
Print Assumptions C08_serial_fault_once_per_connection.

(* A transport that reports Open with no request and no Open() in progress has a connected socket, and the next
   request is taken (never ChannelConcurrencyError), reaches the write and - the write succeeding - the wire. *)
Theorem C08_serial_open_means_usable : forall ls s e,
  run init ls = Some (s, e) -> reported s = Open -> proc s = None -> opn s = None ->
  sk s = SConn /\
  forall c, mem_z c (seen s) = false ->
    usage_ok s (LReq c) = true /\
    exists s1 s2 s3, step s (LReq c) = Some (s1, [Accepted c]) /\ step s1 (LStart false) = Some (s2, []) /\
                     step s2 (LWrite IoOk) = Some (s3, [Wire c]) /\ proc s3 = Some (c, ReadHdr).
Proof.
  intros ls s e R H1 H2 H3. apply usable; try assumption. exact (run_inv ls init s e inv_init R).
Qed.
Print Assumptions C08_serial_open_means_usable.

(* non-vacuity: a request times out, the re-open is refused (the F7 position); a later request finds the transport
   closed and is failed once without a second fault signal *)
Example C08_serial_example :
  run init [LOpen; LOStart; LOConn true; LReq 1; LStart false; LWrite IoOk; LTimeout; LReconn false;
            LReq 2; LStart false; LWrite IoExn] =
  Some ({| sk := SNone; wopen := false; cst := Closed; proc := None; openres := false; opn := None; seen := [2; 1] |},
        [ConnBegin; Accepted 1; Wire 1; ConnBegin; Faulted; Post 1 KTimeout; Accepted 2; Post 2 KErr]).
Proof. vm_compute. reflexivity. Qed.

(* non-vacuity for incarnations: Close(), successful re-open, time-out with refused re-connect: one fault signal in the
   second incarnation *)
Example C08_serial_reopen_example :
  exists s e, run init [LOpen; LOStart; LOConn true; LClose false; LOpen; LOStart; LOConn true; LReq 1; LStart false;
                        LWrite IoOk; LTimeout; LReconn false] = Some (s, e) /\
    nfaults e = 1 /\ posts e = [(1, KTimeout)] /\ reported s = Closed.
Proof. eexists. eexists. split; [vm_compute; reflexivity|]. cbn. repeat split. Qed.

(* ------------------------------------------------------------------------------------------------- *)
(* ThriftMux transport                                                                                 *)
(* ------------------------------------------------------------------------------------------------- *)
Import Mux MuxP MuxP2.

(* _Shutdown, reached from a failing write, a failing / ended read, a ping time-out, a failed connect (fault = true) or
   Close() (fault = false), in any reachable state that is not closed yet: exactly one ClientError to every call in
   _tag_map - whether its frame was written or still sits in the send queue -, nothing to anybody else; map and queue
   empty, state Closed, loops gone; on_faulted raised iff fault.  On the closed transport a further shutdown does
   nothing and a request is refused with "Sink not open". *)
Theorem C08_mux_fail_all_once : forall t0 ls s e0 l f,
  Mux.run (Mux.init t0) ls = Some (s, e0) -> Mux.cst s <> Mux.Closed -> shutdown_label s l = Some f ->
  exists s' e, Mux.step s l = Some (s', e) /\
    (forall c, MuxP.nposts c e = if mem_z c (tagmap s) then 1%nat else O) /\
    (forall c k, In (Mux.Post c k) e -> k = KClientErr) /\
    Mux.nfaults e = (if f then 1 else 0) /\
    tagmap s' = [] /\ queue s' = [] /\ Mux.cst s' = Mux.Closed /\ sndl s' = SDead /\ rcv s' = RDead /\
    (forall l2 f2, shutdown_label s' l2 = Some f2 ->
       exists s2, Mux.step s' l2 = Some (s2, []) /\ Mux.cst s2 = Mux.Closed /\ tagmap s2 = [] /\ queue s2 = []) /\
    (forall c, mem_z c (Mux.seen s') = false ->
       exists s2, Mux.step s' (MReq c) = Some (s2, [Mux.Post c KNotOpen]) /\ Mux.cst s2 = Mux.Closed /\ tagmap s2 = []).
Proof.
  intros t0 ls s e0 l f R C L. pose proof (MuxP.run_inv ls _ _ _ (MuxP.inv_init t0) R) as I.
  destruct (fail_all_once s l f C (m_nodup _ I) L) as (s' & e & St & P1 & P2 & P3 & P4 & P5 & P6 & P7 & P8 & P9 & P10).
  exists s', e. split; [assumption|]. repeat (split; [assumption|]). split.
  - intros l2 f2 L2. destruct (shutdown_again s' l2 f2 P7 L2) as (s2 & S2 & C2 & T2 & Q2).
    exists s2. repeat split; congruence.
  - intros c M. destruct (req_when_closed s' c P7 M) as (s2 & S2 & C2 & T2 & _). exists s2. repeat split; congruence.
Qed.
Print Assumptions C08_mux_fail_all_once.

(* Over a whole history: no call gets two messages; a call in _tag_map has got none; a call that was given a tag, is
   no longer in _tag_map and was not dropped from the send queue after its deadline got exactly one (a reply or the
   shutdown's ClientError); a closed transport has an empty _tag_map - so every request in flight when the connection
   failed was failed exactly once.  A request handed over while Open() is still in progress waits for the open result
   ([waiting]); it has got nothing yet, and once it is neither waiting nor tagged it got exactly one message ("Sink not
   open" when the open failed). *)
Theorem C08_mux_exactly_once : forall t0 ls s e c,
  Mux.run (Mux.init t0) ls = Some (s, e) ->
  (MuxP.nposts c e <= 1)%nat /\
  (In c (tagmap s) -> MuxP.nposts c e = O) /\
  (In c (waiting s) -> MuxP.nposts c e = O) /\
  (MuxP.acc c e = true -> ~ In c (tagmap s) -> rel c e = false -> MuxP.nposts c e = 1%nat) /\
  (mem_z c (Mux.seen s) = true -> ~ In c (waiting s) -> MuxP.acc c e = false -> MuxP.nposts c e = 1%nat) /\
  (Mux.cst s = Mux.Closed -> tagmap s = []).
Proof.
  intros t0 ls s e c R. destruct (mux_once t0 ls s e c R) as (H1 & H2 & H3 & H4 & H5 & H6).
  repeat split; try assumption; intros X; [apply H2 | apply H3]; assumption.
Qed.
Print Assumptions C08_mux_exactly_once.

(* Requests issued between the start of Open() and its completion: the caller blocks; whenever the transport is no
   longer Idle it can resume, and what it gets is decided then - exactly one "Sink not open" on a transport whose open
   failed (refused connect, peer hanging up or silent during the opening ping, Close()), a tag and a queued frame on an
   open one; while the transport is Idle with callers waiting an Open() is in progress, i.e. they are not forgotten. *)
Theorem C08_mux_blocked_request : forall t0 ls s e0 c,
  Mux.run (Mux.init t0) ls = Some (s, e0) -> In c (waiting s) ->
  MuxP.nposts c e0 = O /\
  (Mux.cst s = Mux.Idle -> opn s <> None) /\
  (Mux.cst s <> Mux.Idle ->
     exists s' e, Mux.step s (MResumeReq c) = Some (s', e) /\ ~ In c (waiting s') /\
       (Mux.cst s = Mux.Closed -> e = [Mux.Post c KNotOpen] /\ tagmap s' = tagmap s) /\
       (Mux.cst s = Mux.Open -> e = [Mux.Accepted c] /\ In c (tagmap s'))).
Proof.
  intros t0 ls s e0 c R W. pose proof (MuxP.run_inv ls _ _ _ (MuxP.inv_init t0) R) as I.
  destruct (mux_once t0 ls s e0 c R) as (_ & _ & H3 & _). split; [apply H3; assumption|]. split.
  - intros C. apply waiting_idle_opening; try assumption. intros X. rewrite X in W. destruct W.
  - intros C. apply blocked_resumes; assumption.
Qed.
Print Assumptions C08_mux_blocked_request.

(* A ping queued at time t (PingSent t in the history) that is still unanswered: its helper is due at exactly
   t + 5 s, the clock cannot pass that instant, before it the time-out cannot fire, at it the time-out fires and the
   transport is shut down (fault raised, every tagged call failed once); the ping stays outstanding until a Pong or a
   shutdown. *)
Theorem C08_ping_timeout : forall t0 ls s e d,
  Mux.run (Mux.init t0) ls = Some (s, e) -> ping_dl s = Some d ->
  d = lastping s + 5 * tps /\ In (PingSent (lastping s)) e /\ now s <= d /\
  (forall t s' e', Mux.step s (MTick t) = Some (s', e') -> t <= d) /\
  (now s < d -> Mux.step s MPingTimeout = None) /\
  (now s = d -> exists s' e', Mux.step s MPingTimeout = Some (s', e') /\ Mux.cst s' = Mux.Closed /\
     (Mux.cst s <> Mux.Closed ->
        Mux.nfaults e' = 1 /\ In (ShutdownAt d) e' /\ tagmap s' = [] /\ queue s' = [] /\
        forall c, MuxP.nposts c e' = if mem_z c (tagmap s) then 1%nat else O)) /\
  (forall l s' e', Mux.step s l = Some (s', e') -> ping_dl s' = Some d \/ In Pong e' \/ Mux.cst s' = Mux.Closed).
Proof.
  intros t0 ls s e d R D.
  destruct (run_ER ls _ _ _ [] (MuxP.inv_init t0) (ER_init t0) R) as (E & I). cbn in E.
  destruct (ping_timeout_step s d I D) as (H1 & H2 & H3 & H4 & H5).
  split; [exact H1|]. split; [apply (E d D)|]. split; [assumption|]. split.
  - intros t s' e' T. destruct (tick_bound _ _ _ _ T) as (_ & B & _). apply B. assumption.
  - split; [assumption|]. split; [assumption|]. intros l s' e' St. eapply ping_dl_persists; eassumption.
Qed.
Print Assumptions C08_ping_timeout.

(* The ping loop: while the transport is Open the loop exists; while it sleeps its wake-up time lies 30 to 40 s after
   its previous wake-up (or start), the clock cannot pass it and at that instant the wake-up step is enabled; a wake-up
   queues a ping (PingSent now) exactly 30..40 s after the previous one and arms the 5 s time-out. *)
Theorem C08_ping_interval : forall t0 ls s e,
  Mux.run (Mux.init t0) ls = Some (s, e) ->
  (Mux.cst s = Mux.Open -> pl s <> PNone) /\
  (forall p, pl s = PSleep p ->
     lastw s + 30 * tps <= p <= lastw s + 40 * tps /\ now s <= p /\
     (forall t s' e', Mux.step s (MTick t) = Some (s', e') -> t <= p) /\
     (now s = p -> forall d, 30 <= d <= 40 -> Mux.step s (MPingWake d) <> None)) /\
  (forall d s' e', Mux.step s (MPingWake d) = Some (s', e') ->
     e' = [PingSent (now s)] /\ 30 * tps <= now s - lastw s <= 40 * tps /\ lastw s' = now s /\
     ping_dl s' = Some (now s + 5 * tps) /\ queue s' = queue s ++ [IPing]).
Proof.
  intros t0 ls s e R. pose proof (MuxP.run_inv ls _ _ _ (MuxP.inv_init t0) R) as I.
  split; [apply (m_open_pl _ I)|]. split.
  - intros p P. destruct (m_sleep _ I p P) as (S1 & S2 & S3 & S4). split; [assumption|]. split; [assumption|]. split.
    + intros t s' e' T. destruct (tick_bound _ _ _ _ T) as (_ & _ & B). apply B. assumption.
    + intros N d D. eapply ping_wake_enabled; eassumption.
  - intros d s' e' St. destruct (ping_wake_step s d s' e' I St) as (H1 & H2 & H3 & H4 & H5 & H6 & _).
    repeat split; try assumption; lia.
Qed.
Print Assumptions C08_ping_interval.

(* A transport that reports Open has both loops alive, and on an idle transport the next request is tagged, taken by
   the send loop and - the write succeeding - written.  (Before the fix "a transport shut down while Open() waits for the
   first Rping does not become Open" this was refuted by the history race_history below; now _OpenImpl fails there.) *)
Definition race_history : list Mux.label :=
  [MOpen; MOStart; MOConn true; MTake; MWrote IoOk; MRead IoOk FOther; MRead IoOk FPing; MRead IoEof FOther;
   MProcess; MOResume].

Theorem C08_mux_open_means_usable : forall t0 ls s e,
  Mux.run (Mux.init t0) ls = Some (s, e) -> Mux.cst s = Mux.Open ->
  sndl s <> SDead /\ rcv s <> RDead /\
  (sndl s = SIdle -> queue s = [] -> forall c, mem_z c (Mux.seen s) = false ->
     exists s1 s2 s3, Mux.step s (MReq c) = Some (s1, [Mux.Accepted c]) /\ Mux.step s1 MTake = Some (s2, []) /\
                      Mux.step s2 (MWrote IoOk) = Some (s3, [Mux.Wire (IFrame c)]) /\ In c (tagmap s3)).
Proof.
  intros t0 ls s e R C. destruct (run_alive ls _ _ _ (MuxP.inv_init t0) (alive_init t0) R) as (I & A).
  apply usable; assumption.
Qed.
Print Assumptions C08_mux_open_means_usable.

(* on_faulted is raised at most once and the transport stays closed afterwards *)
Theorem C08_mux_fault_once : forall t0 ls s e,
  Mux.run (Mux.init t0) ls = Some (s, e) ->
  Mux.nfaults e = 0 \/ (Mux.nfaults e = 1 /\ Mux.cst s = Mux.Closed).
Proof.
  intros t0 ls s e R. destruct (run_faults ls _ _ _ R) as (_ & H). exact H.
Qed.
Print Assumptions C08_mux_fault_once.

Example C08_mux_race_history_closed :
  exists s e, Mux.run (Mux.init 0) race_history = Some (s, e) /\ Mux.cst s = Mux.Closed /\ Mux.nfaults e = 1 /\ opn s = None.
Proof. eexists. eexists. split; [vm_compute; reflexivity|]. cbn. repeat split. Qed.

(* A closed ThriftMux transport is closed for good: whatever is tried afterwards - requests, Close(), a second Open()
   (which runs a new _OpenImpl whose loops exit at once and whose opening ping can never be answered) - it never reports
   Open again, raises no further fault signal and posts nothing but "Sink not open" refusals. *)
Theorem C08_mux_closed_is_final : forall t0 ls s e l s' e',
  Mux.run (Mux.init t0) ls = Some (s, e) -> Mux.cst s = Mux.Closed -> Mux.step s l = Some (s', e') ->
  Mux.cst s' = Mux.Closed /\ Mux.nfaults e' = 0 /\ (forall c k, In (Mux.Post c k) e' -> k = KNotOpen).
Proof.
  intros t0 ls s e l s' e' R C St. pose proof (MuxP.run_inv ls _ _ _ (MuxP.inv_init t0) R) as I.
  split; [eapply step_stays_closed; eassumption|]. split.
  - destruct (step_faults _ _ _ _ St) as [F|(F & N & _)]; [assumption | contradiction].
  - intros c k P. eapply closed_posts_notopen; eassumption.
Qed.
Print Assumptions C08_mux_closed_is_final.

(* non-vacuity: a request issued while the connect is in progress; the connect is refused; the caller resumes and is
   refused exactly once *)
Example C08_mux_blocked_example :
  Mux.run (Mux.init 0) [MOpen; MOStart; MReq 1; MOConn false; MResumeReq 1] <> None /\
  (forall s e, Mux.run (Mux.init 0) [MOpen; MOStart; MReq 1; MOConn false; MResumeReq 1] = Some (s, e) ->
     Mux.posts e = [(1, KNotOpen)] /\ Mux.nfaults e = 1 /\ waiting s = []).
Proof.
  split; [vm_compute; discriminate|]. intros s e H. vm_compute in H. inversion H; subst. cbn. repeat split.
Qed.

(* non-vacuity: two calls, one written and one still queued behind a failing write, are both failed once *)
Example C08_mux_example :
  exists s e, Mux.run (Mux.init 0) [MOpen; MOStart; MOConn true; MTake; MWrote IoOk; MRead IoOk FOther; MRead IoOk FPing;
                                    MProcess; MOResume; MPingStart 33; MReq 1; MTake; MWrote IoOk; MReq 2; MReq 3; MTake;
                                    MWrote IoExn; MReq 4] = Some (s, e) /\
    Mux.posts e = [(1, KClientErr); (2, KClientErr); (3, KClientErr); (4, KNotOpen)] /\ Mux.nfaults e = 1 /\
    Mux.cst s = Mux.Closed.
Proof. eexists. eexists. split; [vm_compute; reflexivity|]. cbn. repeat split. Qed.
