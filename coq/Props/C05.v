(* C05 - Balancer membership equals the server set after any join/leave history.
   Statements only; proofs in Proofs/BalancerP.v.  The abstract server set (BalancerP.spec_step) is a finite set
   folded over the notification history: Join adds, Leave removes, notifications that arrive before the
   initial list is installed are queued and applied, in order, right after it.  All theorems hold for every
   label sequence (notifications interleaved with traffic, channel state changes and the open sequence). *)
From Coq Require Import ZArith List Bool Lia.
From Scales Require Import Model.Base Model.Heap Model.Balancer Proofs.HeapP Proofs.BalancerP.
Import ListNotations.
Local Open Scope Z_scope.

(* endpoints the balancer can dispatch to: those of the nodes in its heap *)
Definition eligible (s : state) (ep : Z) : Prop := In ep (map nep (heap s)).

(* In every reachable state the gate agrees with the abstract one, and once the initial list is installed
   the endpoints the balancer dispatches to are exactly the abstract server set - one node per member;
   this covers duplicate joins, leaves of unknown members and leave-while-loaded-then-rejoin (the departed
   node is not in the heap). *)
Theorem C05_membership : forall s0 ls,
  let s := run (init_state s0) ls in
  let m := spec_run spec0 ls in
  init_done s = sp_ready m /\
  blocked s = sp_pending m /\
  NoDup (map nep (heap s)) /\
  (init_done s = true -> forall ep, eligible s ep <-> In ep (sp_set m)) /\
  (init_done s = false -> heap s = []).
Proof.
  intros s0 ls s m.
  destruct (sim_run ls _ _ (sim_init s0)) as (S1 & S2 & S3). fold s m in S1, S2, S3.
  destruct (inv_run ls _ (init_state_inv s0)) as [C G]. fold s in C, G.
  destruct (c_srv s C) as (_ & N & E).
  split; [exact S1|]. split; [exact S2|]. split; [exact N|]. split.
  - intros I ep. unfold eligible. rewrite E. apply S3. congruence.
  - intros I. unfold Gate in G. rewrite I in G. apply G.
Qed.
Print Assumptions C05_membership.

(* A notification that arrives while the initial member list is still being loaded has no effect then
   (nothing is created, closed or made eligible) and is queued. *)
Theorem C05_blocked_before_init : forall s0 ls nt, let s := run (init_state s0) ls in
  init_done s = false ->
  let lb := match nt with NJoin ep => Join ep | NLeave ep => Leave ep end in
  snd (step s lb) = (RBlocked, []) /\
  heap (fst (step s lb)) = [] /\
  blocked (fst (step s lb)) = blocked s ++ [nt].
Proof.
  intros s0 ls nt s I lb.
  destruct (inv_run ls _ (init_state_inv s0)) as [_ G]. fold s in G. unfold Gate in G. rewrite I in G.
  destruct nt; cbn [lb step]; unfold do_notify; rewrite I; cbn [fst snd set_gate heap blocked];
    (split; [reflexivity|split; [apply G|reflexivity]]).
Qed.
Print Assumptions C05_blocked_before_init.

(* ... and takes effect when loading completes: after any Init-free prefix followed by Init, the eligible
   endpoints are the initial list with the queued notifications applied in arrival order. *)
Fixpoint notifs_of (ls : list label) : list notif :=
  match ls with
  | [] => []
  | Join ep :: r => NJoin ep :: notifs_of r
  | Leave ep :: r => NLeave ep :: notifs_of r
  | _ :: r => notifs_of r
  end.

Definition init_free (ls : list label) : Prop := forall snap, ~ In (Init snap) ls.

Lemma spec_run_init_free : forall ls m, init_free ls -> sp_ready m = false ->
  spec_run m ls = mkSpec false (sp_set m) (sp_pending m ++ notifs_of ls).
Proof.
  induction ls as [|lb r IH]; intros m Hf R; cbn [spec_run notifs_of].
  - rewrite app_nil_r. destruct m; cbn in *; congruence.
  - assert (Hr : init_free r) by (intros snap H; apply (Hf snap); right; exact H).
    destruct lb as [snap|ep|ep| |rid j|x st]; cbn [spec_step]; try (apply IH; assumption).
    + exfalso. apply (Hf snap). left. reflexivity.
    + rewrite R. rewrite IH by (try assumption; reflexivity). cbn [sp_set sp_pending]. rewrite <- app_assoc. reflexivity.
    + rewrite R. rewrite IH by (try assumption; reflexivity). cbn [sp_set sp_pending]. rewrite <- app_assoc. reflexivity.
Qed.

Theorem C05_deferred : forall s0 pre snap, init_free pre ->
  let s := run (init_state s0) (pre ++ [Init snap]) in
  init_done s = true /\ blocked s = [] /\
  forall ep, eligible s ep <-> In ep (fold_left set_apply (notifs_of pre) snap).
Proof.
  intros s0 pre snap Hf s.
  destruct (C05_membership s0 (pre ++ [Init snap])) as (M1 & M2 & _ & M4 & _). fold s in M1, M2, M4.
  assert (E : spec_run spec0 (pre ++ [Init snap]) = mkSpec true (fold_left set_apply (notifs_of pre) snap) []).
  { assert (A : forall l1 l2 m, spec_run m (l1 ++ l2) = spec_run (spec_run m l1) l2).
    { induction l1 as [|a l1 IHl]; intros l2 m; cbn [app spec_run]; [reflexivity|apply IHl]. }
    rewrite A. rewrite (spec_run_init_free pre spec0 Hf eq_refl). cbn. reflexivity. }
  rewrite E in M1, M2, M4. cbn [sp_ready sp_pending sp_set] in M1, M2, M4.
  split; [exact M1|]. split; [exact M2|]. apply M4. exact M1.
Qed.
Print Assumptions C05_deferred.

(* Every current member is eligible in the strong sense: it owns a node in the heap, and while its channel is
   open a dispatch passes it over only for an open member with no more outstanding requests - so under
   saturating load (no completions) every open member receives traffic; no departed member does
   (C04_removed_gets_nothing). *)
Theorem C05_eligible : forall s0 ls ep, let s := run (init_state s0) ls in
  init_done s = true -> In ep (sp_set (spec_run spec0 ls)) ->
  exists y, In y (heap s) /\ nep y = ep /\
    forall s' n e ev, step s Dispatch = (s', (RSent n e, ev)) ->
      (forall m, In m (map nid (heap s)) -> out_of (reqs s) m < Penalty) ->
      lookup_chan s (nid y) = ST_OPEN ->
      lookup_chan s n = ST_OPEN /\ out_of (reqs s) n <= out_of (reqs s) (nid y).
Proof.
  intros s0 ls ep s I Hep.
  destruct (C05_membership s0 ls) as (_ & _ & _ & M4 & _). fold s in M4.
  apply (M4 I) in Hep. unfold eligible in Hep. apply in_map_iff in Hep as (y & Ey & Hy).
  exists y. split; [exact Hy|]. split; [exact Ey|]. intros s' n e ev D B Ho.
  destruct (inv_run ls _ (init_state_inv s0)) as [C _]. fold s in C.
  cbn [step] in D. destruct (dispatch_choice s s' n e ev C D) as (_ & H2 & H3 & _).
  assert (Hm : In (nid y) (map nid (heap s))) by (apply in_map; exact Hy).
  destruct (Z.eq_dec (lookup_chan s n) ST_OPEN) as [E|E].
  - split; [exact E|]. apply H2; assumption.
  - exfalso. pose proof (H3 E _ Hm Ho). pose proof (B _ Hm). lia.
Qed.
Print Assumptions C05_eligible.

(* Non-vacuity: two notifications arrive before the initial list [10; 11; 10] (with a duplicate) is
   installed; afterwards a duplicate join, a leave of an unknown member, a leave and a re-join. *)
Example C05_example :
  let ls := [Join 12; Leave 11; Init [10; 11; 10]; Join 10; Leave 99; Dispatch; Leave 10; Join 10] in
  let s := run (init_state 2) ls in
  init_done s = true /\ map nep (heap s) = [12; 10] /\ map nid (heap s) = [2; 3] /\
  sp_set (spec_run spec0 ls) = [10; 12].
Proof. vm_compute. repeat split; reflexivity. Qed.
