(* C06 - Aperture keeps a partitioned, bounded, load-tracking active subset.
   Only statements here; proofs are in Proofs/ApertureP.v.  Every theorem quantifies over every configuration,
   every history of labels (joins, leaves, channel state changes, node-down hooks, get/put adjustments with
   arbitrary smoothed averages, open completions, jitter rounds), every random choice and every heap order
   (the contraction victim is any endpoint some heap order could yield).  No bound on sizes or lengths. *)
From Coq Require Import ZArith QArith List Bool Lia Lqa.
From Scales Require Import Model.Base Model.Ema Model.Aperture Proofs.ApertureP.
Import ListNotations.
Local Open Scope Z_scope.

(* Every current member is in exactly one of the active and idle sets (and in each at most once). *)
Theorem C06_partition : forall c ls s, run c init ls = Ok s ->
  NoDup (members s) /\ NoDup (eps_of (active s)) /\ NoDup (idle s) /\
  (forall e, In e (eps_of (active s)) -> ~ In e (idle s)) /\
  (forall e, In e (members s) <-> In e (eps_of (active s)) \/ In e (idle s)) /\
  length (members s) = (length (active s) + length (idle s))%nat.
Proof.
  intros c ls s H. pose proof (run_inv c ls init s inv_init H) as I. pose proof (inv_count s I) as Cnt.
  destruct I as [Im Ia Ii Id Ic]. repeat split; try assumption; apply Ic; assumption.
Qed.
Print Assumptions C06_partition.

(* No history makes the sink raise (the only raising statement is self._servers[new_endpoint]). *)
Theorem C06_no_crash : forall c ls, run c init ls <> Crash.
Proof. intros c ls. apply run_no_crash. exact inv_init. Qed.
Print Assumptions C06_no_crash.

(* A step other than the departure of a member makes the active set smaller only by contracting: exactly one
   non-pending active member moves to idle, more than min_size healthy members were active before and at least
   min_size (hence at least min(min_size, members)) members stay active.  A departure removes exactly the departed member. *)
Theorem C06_min_bound : forall c ls s l s', run c init ls = Ok s -> step c s l = Ok s' -> size s' < size s ->
  (exists ep, l = LLeave ep /\ In ep (eps_of (active s)) /\ size s' = size s - 1) \/
  (exists v, In v (eps_of (active s)) /\ ~ In v (pending s) /\
     active s' = remove_first v (active s) /\ idle s' = sadd v (idle s) /\ members s' = members s /\
     size s' = size s - 1 /\ min_size c < healthy s /\
     Z.min (min_size c) (Z.of_nat (length (members s'))) <= min_size c <= size s').
Proof.
  intros c ls s l s' _ H Hlt. destruct (step_shrink c s l s' H Hlt) as [(ep & L1 & L2 & L3 & _)|(v & H1 & H2 & H3 & H4 & H5 & H6 & H7 & H8)].
  - left. exists ep. auto.
  - right. exists v. repeat split; try assumption. lia.
Qed.
Print Assumptions C06_min_bound.

(* In fact no history at all (contraction, jitter, failures, departures) leaves fewer than min(min_size, members)
   members active - except inside ApertureBalancerSink._RemoveSink, between the removal of a departed active member
   and its replacement (control point [leaving]; only code called synchronously from the removed member's Close()
   can observe it), where it is short by at most that one replacement. *)
Theorem C06_min_invariant : forall c ls s, run c init ls = Ok s ->
  (leaving s = None -> Z.min (min_size c) (Z.of_nat (length (members s))) <= size s) /\
  Z.min (min_size c) (Z.of_nat (length (members s))) <= size s + 1.
Proof.
  intros c ls s H.
  assert (M : min_inv c s).
  { apply (run_min_inv c ls init s inv_init); [|exact H]. unfold min_inv, size, slack. cbn. lia. }
  unfold min_inv in M. pose proof (slack_range s). split; [|lia].
  intros El. unfold slack in M. rewrite El in M. lia.
Qed.
Print Assumptions C06_min_invariant.

(* Load-driven growth (a get/put adjustment) happens one member at a time and only below max_size. *)
Theorem C06_max_bound : forall c s amount sample w avg ch victim s',
  step c s (LAdjust amount sample w avg ch victim) = Ok s' -> size s < size s' ->
  size s < max_size c /\ size s' = size s + 1 /\ size s' <= max_size c.
Proof.
  intros c s amount sample w avg ch victim s' H G.
  destruct (adjust_growth _ _ _ _ _ _ _ _ _ H G) as (A & B & _). repeat split; lia.
Qed.
Print Assumptions C06_max_bound.

(* Rule up: smoothed load per active member >= max_load (or nobody active), an idle member exists, size < max_size
   => exactly the chosen idle member becomes active (and is marked pending). *)
Theorem C06_rule_up : forall c s amount sample w avg ch victim s',
  step c s (LAdjust amount sample w avg ch victim) = Ok s' ->
  (size s = 0 \/ (max_load c <= avg / inject_Z (size s))%Q) -> idle s <> [] -> size s < max_size c ->
  exists e, ch = Some e /\ victim = None /\ In e (idle s) /\ active s' = active s ++ [fresh e] /\
            idle s' = sdiscard e (idle s) /\ In e (pending s') /\ members s' = members s /\ size s' = size s + 1.
Proof.
  intros c s amount sample w avg ch victim s' H L I M. eapply rule_up; [exact H|].
  unfold up_cond. apply andb_true_iff. split; [apply andb_true_iff; split|apply Z.ltb_lt; exact M].
  - assert (0 <= size s) by (unfold size; lia). destruct L as [L|L].
    + unfold load_ge_max. rewrite L. cbn. apply Qle_bool_iff. apply Qle_refl.
    + destruct (Z.eq_dec (size s) 0) as [E|N].
      * unfold load_ge_max. rewrite E. cbn. apply Qle_bool_iff. apply Qle_refl.
      * apply load_ge_max_div; [lia|exact L].
  - destruct (idle s); [contradiction|reflexivity].
Qed.
Print Assumptions C06_rule_up.

(* Rule down: load <= min_load, the up rule does not apply, size > min_size, no open in progress and more than
   min_size healthy members active => exactly one active member becomes idle, a closed one if there is any. *)
Theorem C06_rule_down : forall c s amount sample w avg ch victim s',
  step c s (LAdjust amount sample w avg ch victim) = Ok s' -> 0 <= min_size c -> 0 < size s ->
  (avg / inject_Z (size s) <= min_load c)%Q ->
  ((avg / inject_Z (size s) < max_load c)%Q \/ idle s = [] \/ max_size c <= size s) ->
  min_size c < size s -> pending s = [] -> min_size c < healthy s ->
  exists v, victim = Some v /\ ch = None /\ In v (eps_of (active s)) /\ active s' = remove_first v (active s) /\
            idle s' = sadd v (idle s) /\ members s' = members s /\ size s' = size s - 1 /\
            ((exists m, In m (active s) /\ is_closed m = true) -> exists m, In m (active s) /\ m_ep m = v /\ is_closed m = true).
Proof.
  intros c s amount sample w avg ch victim s' H M0 Hpos Lmin Nup Hsz Hp Hh.
  eapply rule_down; try eassumption.
  - unfold up_cond. destruct Nup as [N|[N|N]].
    + assert (X : load_ge_max c s avg = false).
      { destruct (load_ge_max c s avg) eqn:E; [|reflexivity]. apply load_ge_max_div in E; [|exact Hpos].
        exfalso. apply (Qlt_not_le _ _ N). exact E. }
      rewrite X. reflexivity.
    + rewrite N. cbn. rewrite andb_false_r. reflexivity.
    + apply andb_false_iff. right. apply Z.ltb_ge. exact N.
  - unfold down_cond. apply andb_true_iff. split; [apply load_le_min_div; assumption|apply Z.ltb_lt; exact Hsz].
Qed.
Print Assumptions C06_rule_down.

(* Otherwise an adjustment leaves both sets alone: if it did not change the size (and someone is active) the load is
   strictly inside the band, or the size is pinned (no idle member / max_size reached, resp. min_size reached /
   an open still in progress / not more than min_size healthy members). *)
Theorem C06_rule_stay : forall c s amount sample w avg ch victim s',
  step c s (LAdjust amount sample w avg ch victim) = Ok s' -> 0 < size s ->
  let load := (avg / inject_Z (size s))%Q in
  (size s' = size s ->
     ((min_load c < load)%Q /\ (load < max_load c)%Q) \/
     ((max_load c <= load)%Q /\ (idle s = [] \/ max_size c <= size s)) \/
     ((load <= min_load c)%Q /\ (size s <= min_size c \/ pending s <> [] \/ healthy s <= min_size c))) /\
  ((min_load c < load)%Q /\ (load < max_load c)%Q ->
     active s' = active s /\ idle s' = idle s /\ pending s' = pending s /\ members s' = members s).
Proof.
  intros c s amount sample w avg ch victim s' H Hpos load. split.
  - intros E. eapply adjust_stay_settled; eassumption.
  - intros [L1 L2].
    assert (U : up_cond c s avg = false).
    { unfold up_cond. destruct (load_ge_max c s avg) eqn:E; [|reflexivity]. apply load_ge_max_div in E; [|exact Hpos].
      exfalso. apply (Qlt_not_le _ _ L2). exact E. }
    assert (D : down_cond c s avg = false).
    { unfold down_cond. destruct (load_le_min c s avg) eqn:E; [|reflexivity]. apply load_le_min_div in E; [|exact Hpos].
      exfalso. apply (Qlt_not_le _ _ L1). exact E. }
    destruct (rule_stay _ _ _ _ _ _ _ _ _ H U (or_introl D)) as (A & B & C & E & _). auto.
Qed.
Print Assumptions C06_rule_stay.

(* The rules are not vacuous: in every reachable state, for every value the EMA may return, some random choice /
   victim makes the adjustment go through. *)
Theorem C06_adjust_enabled : forall c ls s amount w avg, run c init ls = Ok s ->
  ema_ok s (total s + amount) w avg = true ->
  exists ch victim s', step c s (LAdjust amount (total s + amount) w avg ch victim) = Ok s'.
Proof. intros c ls s amount w avg H E. apply adjust_enabled; [exact (run_inv c ls init s inv_init H)|exact E]. Qed.
Print Assumptions C06_adjust_enabled.

(* The smoothed value stays between the previous value and the sample, moves towards the sample by the factor w,
   and under a constant sample approaches it monotonically. *)
Theorem C06_ema_between : forall v s w : Q, (0 <= w)%Q -> (w <= 1)%Q ->
  ((v <= s)%Q -> (v <= update v s w)%Q /\ (update v s w <= s)%Q) /\
  ((s <= v)%Q -> (s <= update v s w)%Q /\ (update v s w <= v)%Q) /\
  (update v s w - s == w * (v - s))%Q.
Proof.
  intros v s w H0 H1. destruct (ema_between v s w H0 H1) as [A B]. split; [exact A|]. split; [exact B|apply ema_dist].
Qed.
Print Assumptions C06_ema_between.

Theorem C06_ema_converges : forall ws v s, Forall (fun w => (0 <= w)%Q /\ (w <= 1)%Q) ws ->
  ((v <= s)%Q -> (v <= iterate v s ws)%Q /\ (iterate v s ws <= s)%Q) /\
  ((s <= v)%Q -> (s <= iterate v s ws)%Q /\ (iterate v s ws <= v)%Q) /\
  (iterate v s ws - s == fold_right Qmult 1%Q ws * (v - s))%Q.
Proof.
  intros ws v s F. destruct (iterate_between ws v s F) as [A B]. split; [exact A|]. split; [exact B|apply iterate_dist].
Qed.
Print Assumptions C06_ema_converges.

(* Settling.  With 1 <= min_size, 0 <= min_load and 2*min_load < max_load (the defaults 0.5 / 2.0), in any stretch
   of get/put adjustments that all see the same smoothed value a (interleaved with open completions), from ANY
   state, the size moves in one direction only: either it never shrinks and grows by at most the number of idle
   members, or it never grows and does not go below min_size.  Together with C06_rule_stay (an adjustment that
   leaves the size alone is in the band or pinned) this is "settles inside the band or the size is pinned":
   at most |idle| (resp. size - min_size) <= |members| adjustments change the size, all others find it settled. *)
Theorem C06_settles : forall c a ls s s', cfg_ok c -> Forall (quiet a) ls -> run c s ls = Ok s' ->
  (nondecr (size s) (sizes c s ls) /\ size s' - size s <= Z.of_nat (length (idle s))) \/
  (nonincr (size s) (sizes c s ls) /\ (size s' = size s \/ min_size c <= size s')).
Proof. exact settles. Qed.
Print Assumptions C06_settles.

(* --------------------------------------------------------------------------------------------- *)
(* non-vacuity and sharpness                                                                      *)
(* --------------------------------------------------------------------------------------------- *)
Definition dflt : config := {| min_size := 1; max_size := 2147483648; min_load := 1 # 2; max_load := 2 |}.

(* three members, one active; a constant smoothed load of 5 grows the aperture to all three and then stays *)
Example C06_settles_nonvacuous :
  exists s ls s', run dflt init [LJoin 0; LJoin 1; LJoin 2; LAdjust 1 1 0 1 None None; LAdjust 1 2 0 2 (Some 1) None;
                                 LAdjust 1 3 0 3 None None; LAdjust 1 4 0 4 (Some 2) None; LAdjust 1 5 0 5 None None] = Ok s /\
    cfg_ok dflt /\ Forall (quiet 5%Q) ls /\ run dflt s ls = Ok s' /\ sizes dflt s ls = [3; 3; 3] /\ idle s' = [].
Proof.
  eexists. exists [LAdjust 1 6 1 5 None None; LOpenDone 1; LAdjust (-1) 5 1 5 None None]. eexists.
  split; [vm_compute; reflexivity|]. split; [repeat split; cbn; try lia; try (unfold Qle, Qlt; cbn; lia)|].
  split; [repeat constructor|]. split; vm_compute; auto.
Qed.

(* sharpness of the band condition: with max_load = 2*min_load exactly the size oscillates 1 -> 2 -> 1 -> 2 under a
   constant smoothed load (so the side condition of C06_settles cannot be dropped) *)
Definition tight : config := {| min_size := 1; max_size := 2147483648; min_load := 1 # 2; max_load := 1 |}.
Example C06_settles_needs_band :
  exists s ls s', run tight init [LJoin 0; LJoin 1] = Ok s /\ Forall (quiet 1%Q) ls /\ run tight s ls = Ok s' /\
    sizes tight s ls = [2; 2; 1; 2].
Proof.
  eexists. exists [LAdjust 1 1 0 1 (Some 1) None; LOpenDone 1; LAdjust (-1) 0 1 1 None (Some 0); LAdjust 1 1 1 1 (Some 0) None]. eexists.
  split; [vm_compute; reflexivity|]. split; [repeat constructor|]. split; vm_compute; reflexivity.
Qed.

(* the partition theorem's hypothesis is satisfiable by a history with expansion, failure, departure, jitter, contraction *)
Example C06_history_nonvacuous :
  exists s, run dflt init [LJoin 0; LJoin 1; LJoin 2; LJoin 3; LChan 0 2; LAdjust 1 1 0 1 None None; LAdjust 1 2 0 2 (Some 2) None;
                           LChan 2 4; LNodeDown 2 4 (Some 1); LOpenDone 2; LLeave 0; LReplace 0 (Some 3); LJitterStart None;
                           LOpenDone 1; LOpenDone 3; LChan 1 2; LChan 3 2;
                           LAdjust (-1) 1 0 1 None (Some 2); LJoin 7; LJitterStart (Some 2); LJitterDone false (Some 1); LOpenDone 2] = Ok s
            /\ eps_of (active s) = [3; 2] /\ idle s = [7; 1].
Proof. eexists. vm_compute. auto. Qed.

(* re-entrancy: the departed member's Close() completes its in-flight request inline, so _OnPut runs between the two
   halves of the departure (here it finds nobody active, treats the load as max_load and pulls in the idle member;
   the second half then has nothing left to add) *)
Example C06_reentrant_nonvacuous :
  exists s, run dflt init [LJoin 0; LJoin 1; LAdjust 1 1 0 1 None None; LLeave 0; LAdjust (-1) 0 1 1 (Some 1) None;
                           LReplace 0 None] = Ok s
            /\ eps_of (active s) = [1] /\ idle s = [] /\ members s = [1] /\ leaving s = None /\ total s = 0.
Proof. eexists. vm_compute. auto 10. Qed.
