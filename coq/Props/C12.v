(* C12 - Timed-out calls are never transmitted afterwards; sent ones are discarded.
   Statements only; proofs in Proofs/PipelineP.v.  Model/Pipeline.v follows one call from the timeout sink to
   the wire; all hops above the transports are a single position the call may leave at any time, so the
   theorems hold wherever the request was waiting (balancer open gate, pool queue, connect, send queue) and
   for every interleaving of the timer with those hops. *)
From Scales Require Import Model.Base Model.Pipeline Proofs.PipelineP.
Local Open Scope Z_scope.

(* In every reachable state in which the caller has been handed TimeoutError, writing the request is disabled. *)
Theorem C12_no_write_after_timeout : forall t ls s,
  run (init t) ls = Some s -> handed s = true -> step s Write = None.
Proof. exact no_write_after_timeout. Qed.
Print Assumptions C12_no_write_after_timeout.

(* A request is written at most once. *)
Theorem C12_written_at_most_once : forall t ls s, run (init t) ls = Some s -> (length (writes s) <= 1)%nat.
Proof. exact written_at_most_once. Qed.
Print Assumptions C12_written_at_most_once.

(* If the timer fires after the request was written to a multiplexed connection that is still open and the
   peer has not answered, the notification (timeout_proc) queues a discard naming its tag ... *)
Theorem C12_discard_queued : forall s s1 s2 tag,
  p s = OnWire (Some tag) -> subscribed s = true -> tagkey s = true -> conn_open s = true ->
  step s Fire = Some s1 -> step s1 Notify = Some s2 -> owed s2 = Some tag /\ evt s2 = true.
Proof. exact fire_queues_discard. Qed.
Print Assumptions C12_discard_queued.

(* ... it stays queued until it is written or the connection is closed ... *)
Theorem C12_discard_persists : forall t ls s l s' g,
  run (init t) ls = Some s -> step s l = Some s' -> owed s = Some g ->
  owed s' = Some g \/ l = Discard g \/ l = ConnClosed.
Proof. intros t ls s l s' g H. exact (owed_persists s l s' g (run_inv ls _ _ (inv_init t) H)). Qed.
Print Assumptions C12_discard_persists.

(* ... and every discard written names the tag the request itself was written with. *)
Theorem C12_discard_names_own_tag : forall t ls s g,
  run (init t) ls = Some s -> In g (discards s) -> p s = OnWire (Some g).
Proof. exact discard_names_own_tag. Qed.
Print Assumptions C12_discard_names_own_tag.

(* A request that timed out while still in the send queue is dropped and never written afterwards. *)
Theorem C12_dropped_unsent : forall s s' tag, p s = InSendQ tag -> step s NoWrite = Some s' ->
  p s' = Gone /\ writes s' = writes s /\ forall ls s'', run s' ls = Some s'' -> writes s'' = writes s'.
Proof. exact dropped_unsent. Qed.
Print Assumptions C12_dropped_unsent.

(* Serial transport: the deadline timer is armed before the write, so the frame of a call arrives complete at the peer
   only while the deadline has not passed (a write blocked beyond it is aborted), and its arrival changes nothing. *)
Theorem C12_serial_write_done_by_deadline : forall s s', step s WriteDone = Some s' ->
  p s = OnWire None /\ now s <= deadline s /\ conn_open s = true /\ s' = s.
Proof. exact write_done_by_deadline. Qed.
Print Assumptions C12_serial_write_done_by_deadline.

(* Non-vacuity: mux call written at tick 3 with tag 5, timer at 10 -> discard 5; serial call reaching the
   transport exactly at its deadline is not written. *)
Example C12_example_mux :
  exists s, run (init 0) [Enter 10; ToSendQ 5; Tick 3; Write; Tick 10; Fire; TimedOut; Notify; Discard 5] = Some s
            /\ writes s = [3] /\ discards s = [5] /\ handed s = true /\ owed s = None.
Proof. eexists. split; [vm_compute; reflexivity|]. repeat split. Qed.
Example C12_example_serial :
  run (init 0) [Enter 10; Tick 10; Fire; TimedOut; ToSerial; Write] = None /\
  exists s, run (init 0) [Enter 10; Tick 10; Fire; TimedOut; ToSerial; NoWrite] = Some s /\ writes s = [].
Proof. split; [vm_compute; reflexivity|]. eexists. split; [vm_compute; reflexivity|reflexivity]. Qed.
(* the peer's answer racing the notification: no discard is owed *)
Example C12_example_answered :
  exists s, run (init 0) [Enter 10; ToSendQ 5; Write; Tick 10; Fire; TimedOut; Answered; Notify] = Some s /\ owed s = None /\ handed s = true.
Proof. eexists. split; [vm_compute; reflexivity|]. split; reflexivity. Qed.
