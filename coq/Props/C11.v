(* C11 - Multiplexed requests carry unique, unreserved tags that are recycled safely.
   Only statements here; proofs are in Proofs/MuxTagsP.v.  Every theorem quantifies over ALL label sequences
   [ls] from the initial state of a freshly opened transport (Model/MuxTags.v): new requests with/without
   deadline, send-loop iterations whose write succeeds or fails, deadlines firing and their notification greenlet
   running at any later point, ARBITRARY peer frames (any type, any tag: 0, 1, unknown, duplicate, premature),
   short frames, pings, shutdown, re-open on a new sink, Open() again on the closed sink; and over every outcome of set.pop().  [cf] is the transport
   configuration (TagPool size, ThriftMux or Kafka, and the high-water mark [base] the pool of every new connection
   starts from); the real one is [real_cfg]: max_tag = 2^24 - 1, base = 1.  The theorems hold for EVERY base >= 1,
   i.e. also from a pool that has already handed out the tags 2..base (the fast-forwarded pools of the
   correspondence runs around 2^16 and 2^24-2 are inside their scope). *)
From Scales Require Import Model.Base Model.MuxTags Proofs.MuxTagsP.
Local Open Scope Z_scope.

(* Every frame ever written: a request carries a tag in [2, max_tag - 1]; the reserved tags 0 and 1 are used by
   Tdiscarded and Tping frames only. *)
Theorem C11_range : forall cf ls k t x,
  1 <= base cf <= max_tag cf - 1 -> In (EWritten k t x) (trace cf (start cf) ls) ->
  match k with
  | KReq => 2 <= t <= max_tag cf - 1
  | KDiscard => t = 0
  | KPing => t = 1
  end.
Proof.
  intros cf ls k t x H Hin. pose proof (trace_frames cf ls (proj1 H) (start cf) _ (SInv_init cf (proj2 H)) Hin) as F.
  destruct k; exact F.
Qed.
Print Assumptions C11_range.

Corollary C11_range_real : forall kf ls t c,
  In (EWritten KReq t c) (trace (real_cfg kf) (start (real_cfg kf)) ls) -> 2 <= t <= 16777214.
Proof.
  intros kf ls t c H. apply (C11_range (real_cfg kf) ls KReq t c) in H; cbn in *; lia.
Qed.
Print Assumptions C11_range_real.

(* 0 and 1 (and anything above the high-water mark) are never in the free set, never a key of _tag_map and never the
   tag of a queued request, whatever the peer sent. *)
Theorem C11_reserved : forall cf ls t,
  1 <= base cf <= max_tag cf - 1 ->
  let s := exec cf (start cf) ls in
  In t (p_free (pl s)) \/ In t (keys (tmap s)) \/ (exists c, In (QReq t c) (sendq s)) ->
  2 <= base cf + 1 <= t /\ t <= p_next (pl s) /\ p_next (pl s) <= max_tag cf - 1.
Proof.
  intros cf ls t H s Hin. pose proof (SInv_reach cf ls (proj2 H)) as I. fold s in I.
  pose proof (i_next _ _ I) as Hn.
  assert (R : base cf + 1 <= t <= p_next (pl s)).
  { destruct Hin as [Hf|[Hk|(c & Hq)]].
    - apply (i_range _ _ I). apply in_or_app. left. assumption.
    - apply (i_range _ _ I). apply in_or_app. right. assumption.
    - apply (i_qrange _ _ I t c). unfold qreqs. apply in_flat_map. exists (QReq t c). split; [assumption | left; reflexivity]. }
  lia.
Qed.
Print Assumptions C11_reserved.

(* The free set and the keys of _tag_map are disjoint and duplicate-free; while the connection is up they are exactly
   the tags 2 .. _next, so |free| + |_tag_map| = _next - 1. *)
Theorem C11_unique : forall cf ls,
  1 <= base cf <= max_tag cf - 1 ->
  let s := exec cf (start cf) ls in
  NoDup (p_free (pl s) ++ keys (tmap s)) /\
  (closed s = false -> forall t, base cf + 1 <= t <= p_next (pl s) <-> In t (p_free (pl s) ++ keys (tmap s))) /\
  (closed s = false -> Z.of_nat (length (p_free (pl s)) + length (tmap s)) = p_next (pl s) - base cf).
Proof.
  intros cf ls H s. pose proof (SInv_reach cf ls (proj2 H)) as I. fold s in I. split; [apply (i_nodup _ _ I)|]. split.
  - intros Hc t. split; [apply (i_cover _ _ I Hc) | apply (i_range _ _ I)].
  - intros Hc. pose proof (i_count _ _ I Hc) as E. unfold L, keys in E. rewrite app_length, map_length in E. exact E.
Qed.
Print Assumptions C11_unique.

(* On the wire: the request frames that were written and whose call has received neither a reply nor an error
   ([unanswered] is computed from the observable events only) carry pairwise distinct tags, at every moment. *)
Theorem C11_unique_wire : forall cf ls,
  1 <= base cf <= max_tag cf - 1 -> NoDup (map fst (unanswered (trace cf (start cf) ls))).
Proof.
  intros cf ls H. exact (t_uniq _ _ _ (TInv_reach cf ls (proj2 H))).
Qed.
Print Assumptions C11_unique_wire.

(* ... and each of them is still the holder of its tag in _tag_map (so no later request can be given that tag). *)
Theorem C11_unanswered_hold : forall cf ls t c,
  1 <= base cf <= max_tag cf - 1 -> In (t, c) (unanswered (trace cf (start cf) ls)) -> In (t, c) (tmap (exec cf (start cf) ls)).
Proof.
  intros cf ls t c H. exact (t_out _ _ _ (TInv_reach cf ls (proj2 H)) t c).
Qed.
Print Assumptions C11_unanswered_hold.

(* A tag enters the free set only (a) in a Recv step naming it while it is a key of _tag_map, or (b) in a send-loop
   step that drops the request at the head of the queue because its deadline has fired; that request holds the tag
   and no frame of it has ever been written. *)
Theorem C11_release_points : forall cf ls l t,
  1 <= base cf <= max_tag cf - 1 ->
  let s := exec cf (start cf) ls in
  In t (p_free (pl (fst (step cf s l)))) -> ~ In t (p_free (pl s)) ->
  (exists mt, l = Recv mt t /\ In t (keys (tmap s))) \/
  (exists io c q, l = SendStep io /\ sendq s = QReq t c :: q /\ c_ev (get_call c s) = Fired /\
                  lookup t (tmap s) = Some c /\ snd (step cf s l) = [EDropped t c] /\
                  forall k t', ~ In (EWritten k t' c) (trace cf (start cf) ls) \/ k <> KReq).
Proof.
  intros cf ls l t H s Hin Hn. pose proof (SInv_reach cf ls (proj2 H)) as I. fold s in I.
  destruct (step_release_points cf s l t I Hin Hn) as [A|(io & c & q & E1 & E2 & E3 & E4 & E5)]; [left; exact A|].
  right. exists io, c, q. repeat split; try assumption.
  intros k t'. destruct k; try (right; discriminate). left. intros Hw.
  pose proof (TInv_reach cf ls (proj2 H)) as T. fold s in T.
  apply (t_qwr _ _ _ T t c); [rewrite E2, qreqs_req; left; reflexivity|].
  unfold written. apply in_flat_map. exists (EWritten KReq t' c). split; [assumption | left; reflexivity].
Qed.
Print Assumptions C11_release_points.

(* get() only moves the high-water mark when nothing is free, and then every tag 2 .. _next is in _tag_map. *)
Theorem C11_reuse : forall cf ls l,
  1 <= base cf <= max_tag cf - 1 ->
  let s := exec cf (start cf) ls in
  let s' := fst (step cf s l) in
  p_next (pl s') <> p_next (pl s) ->
  (p_free (pl s) = [] /\ p_next (pl s') = p_next (pl s) + 1 /\ Z.of_nat (length (tmap s')) = p_next (pl s') - base cf /\
   exists c dl pick, l = Req c dl pick) \/
  ((l = Reopen \/ l = OpenAgain) /\ p_next (pl s') = base cf).
Proof.
  intros cf ls l H s s' Hne. pose proof (SInv_reach cf (ls ++ [l]) (proj2 H)) as I'.
  rewrite exec_snoc in I'. fold s in I'. fold s' in I'.
  destruct (step_next cf s l) as [A|[(Ef & Ef' & _ & Ec' & En & Hl)|B]]; [contradiction| |right; exact B].
  left. repeat split; try assumption.
  pose proof (i_count _ _ I' Ec') as Hc. unfold L in Hc. fold s' in Ef'. rewrite Ef' in Hc. cbn [app] in Hc.
  unfold keys in Hc. rewrite map_length in Hc. exact Hc.
Qed.
Print Assumptions C11_reuse.

(* Hence the number of tags ever created on a connection is bounded by the largest number of simultaneously
   unanswered (queued, in flight, or timed out but not yet answered) requests. *)
Theorem C11_reuse_peak : forall cf ls,
  1 <= base cf <= max_tag cf - 1 -> p_next (pl (exec cf (start cf) ls)) - base cf <= peak cf (start cf) ls 0.
Proof.
  intros cf ls H. apply peak_next; [apply SInv_init, (proj2 H) | cbn; lia].
Qed.
Print Assumptions C11_reuse_peak.

(* With the last tag (max_tag - 1 = 2^24 - 2) handed out and nothing free, a new request is refused: the exception
   leaves AsyncProcessRequest, nothing is queued, no tag (in particular not max_tag) is created. *)
Theorem C11_exhaustion : forall cf s c dl pick,
  lookup c (calls s) = None -> closed s = false -> p_free (pl s) = [] -> p_next (pl s) = max_tag cf - 1 ->
  exists r, step cf s (Req c dl pick) = (set_calls s (calls s ++ [(c, r)]), [ERaise c]) /\ c_tagkey r = None.
Proof. exact req_exhausted. Qed.
Print Assumptions C11_exhaustion.

(* ... and it is refused only then: otherwise the request is queued with a recycled tag, or with _next + 1 when
   nothing is free. *)
Theorem C11_no_early_refusal : forall cf s c dl pick,
  lookup c (calls s) = None -> closed s = false ->
  (p_free (pl s) = [] -> p_next (pl s) <> max_tag cf - 1) ->
  (p_free (pl s) <> [] -> In pick (p_free (pl s))) ->
  exists t, snd (step cf s (Req c dl pick)) = [EEnq KReq t c] /\
            (p_free (pl s) = [] -> t = p_next (pl s) + 1) /\ (p_free (pl s) <> [] -> t = pick).
Proof. exact req_served. Qed.
Print Assumptions C11_no_early_refusal.

(* n consecutive get() on a new TagPool(mx): tags 2 .. min(n+1, mx-1); a call is refused iff n > mx - 2
   (the closed form used for the 16.7M-call exhaustion run of the correspondence). *)
Theorem C11_fill : forall mx n,
  2 <= mx ->
  iter_get mx n false pool_init = (negb (Z.of_nat n <=? mx - 2), {| p_free := []; p_next := Z.min (Z.of_nat n + 1) (mx - 1) |}).
Proof.
  intros mx n H. unfold pool_init, pool_at. rewrite get_many_spec by (cbn; first [reflexivity | lia]). unfold get_many. cbn [p_next orb].
  replace (mx - 1 - 1) with (mx - 2) by lia.
  destruct (Z.leb_spec (Z.of_nat n) (mx - 2)); cbn [snd negb]; f_equal; f_equal; lia.
Qed.
Print Assumptions C11_fill.

(* Non-vacuity.  (1) A run with a premature reply, a time-out before and after transmission, adversarial frames on
   tags 1, 0 and 9, and tag reuse: the written frames are as expected.  (2) Exhaustion is reachable. *)
Example C11_example_run :
  trace (real_cfg false) (start (real_cfg false))
    [Req 1 1 0; Req 2 1 0; SendStep true; Fire 1; Notify 1; Fire 2; SendStep true; SendStep true;
     Recv (-2) 1; Recv (-2) 9; Recv (-2) 0; Req 3 0 3; Recv (-2) 2; Req 4 0 2; SendStep true; SendStep true; Ping; SendStep true]
  = [EEnq KReq 2 1; EEnq KReq 3 2; EWritten KReq 2 1; EEnq KDiscard 0 2; EDropped 3 2; EWritten KDiscard 0 2;
     EEnq KReq 3 3; EDelivered 1; EEnq KReq 2 4; EWritten KReq 3 3; EWritten KReq 2 4; EEnq KPing 1 0; EWritten KPing 1 0].
Proof. vm_compute. reflexivity. Qed.

Example C11_example_exhaustion :
  let cf := {| max_tag := 4; kafka := false; base := 1 |} in
  let s := exec cf (start cf) [Req 1 0 0; Req 2 0 0] in
  closed s = false /\ p_free (pl s) = [] /\ p_next (pl s) = max_tag cf - 1 /\ lookup 3 (calls s) = None /\
  snd (step cf s (Req 3 0 0)) = [ERaise 3].
Proof. vm_compute. repeat split; reflexivity. Qed.

(* (3) The real configuration fast-forwarded to the top of the tag space: 2^24-2 is the last tag, then refusal. *)
Example C11_example_top :
  let cf := {| max_tag := 16777215; kafka := false; base := 16777212 |} in
  trace cf (start cf) [Req 1 0 0; Req 2 0 0; Req 3 0 0; SendStep true; SendStep true; Recv (-2) 16777213; Req 4 0 16777213; SendStep true]
  = [EEnq KReq 16777213 1; EEnq KReq 16777214 2; ERaise 3; EWritten KReq 16777213 1; EWritten KReq 16777214 2;
     EDelivered 1; EEnq KReq 16777213 4; EWritten KReq 16777213 4].
Proof. vm_compute. reflexivity. Qed.
