(* C19 - ZooKeeper server set reports exactly the membership changes that occurred.

   Statements about Model/ZkSet.v (ServerSet + the Kazoo watch recipes + the consumer), proofs in
   Proofs/ZkSetP.v.  Every theorem quantifies over the member filter and over ALL label sequences:
   creates/deletes of members, deletion / re-creation / touching of the watched path, delivery of
   the oldest pending watch callback at any later time, worker runs with any read order (hints),
   members vanishing between listing and reading, consumer callbacks that raise.  No bound on the
   number of members or steps.

   Alternation and callback isolation are proved at full strength.  The convergence statement is
   FALSE of the code as it is (the model is a faithful transcription and is compared with the code
   on every run): the file contains the full statement, machine-checked refutations with concrete
   histories (two schedule families, both listed as known findings), and the statement proved under
   explicit guards on the schedule:
     G2 guard_noflap  a member whose read was skipped because it had vanished is not created again
                      before a children notification has shown its absence;
     G3 guard_path    the watched path is not deleted or created while a data-watch notification
                      for it is still undelivered.
   (A third family, F22 - the all-members-left notification raised directly from the data-watch
   callback overtook batches queued or in progress in the worker - was repaired in /repo by d0a2403:
   the notification now goes through the worker queue, the model follows, and the former guard G1 is
   gone; C19_f22_regression replays the former counter-examples.) *)
From Scales Require Import Model.Base Model.ZkSet Proofs.ZkSetP.
Local Open Scope Z_scope.

(* ---------------------------------------------------------------------------------------------- *)
(* 1. convergence                                                                                  *)

(* Full statement: in every quiescent state (no undelivered watch callback, empty queue, idle
   worker) the set obtained by applying the delivered joins and leaves in order is exactly the set
   of (filtered) members present under the path, and empty while the path is absent. *)
Definition C19_converges_statement : Prop :=
  forall f ls, quiescent (run (init f) ls) ->
  forall n, In n (view (log (run (init f) ls))) <-> In n (tree_members (run (init f) ls)).

(* Proved for every history that respects G2 and G3. *)
Theorem C19_converges_partial : forall f ls,
  guarded guard_all (init f) ls = true ->
  quiescent (run (init f) ls) ->
  forall n, In n (view (log (run (init f) ls))) <-> In n (tree_members (run (init f) ls)).
Proof.
  intros f ls G Q n. destruct (invAB_run ls (init f) (invA_init f) (invB_init f) G) as (IA & IB).
  rewrite <- !mem_In. rewrite (converges_of_inv _ IA IB Q n). reflexivity.
Qed.
Print Assumptions C19_converges_partial.

(* The full statement is false.  First family (G2): member 0 is listed, vanishes before the worker reads it (skipped), and is
   created again before the children callback of the deletion runs; that callback sees the same
   child list as before, so nothing is queued: member 0 exists and is never announced. *)
Definition witness_g2 : list label :=
  [CreateParent; Start; Create 0; Deliver; Delete 0; WorkerStep (Some 0); WorkerStep None; Create 0;
   Deliver; WorkerStep None].

Theorem C19_converges_refuted_unseen_recreation :
  quiescent (run (init []) witness_g2) /\
  ~ In 0 (view (log (run (init []) witness_g2))) /\ In 0 (tree_members (run (init []) witness_g2)) /\
  guarded guard_path (init []) witness_g2 = true /\ guarded guard_noflap (init []) witness_g2 = false.
Proof.
  split; [repeat split; vm_compute; reflexivity|]. vm_compute. repeat split; auto; try (intros []).
Qed.
Print Assumptions C19_converges_refuted_unseen_recreation.

Theorem C19_converges_refuted : ~ C19_converges_statement.
Proof.
  intros H. destruct C19_converges_refuted_unseen_recreation as (Q & N & I & _).
  apply N. apply (H [] witness_g2 Q 0). exact I.
Qed.
Print Assumptions C19_converges_refuted.

(* Second family (G3): the path (with member 0 announced) is deleted and re-created between the two
   watch callbacks: the children watch sees no node and stops, the data watch then sees a node again
   (a new version, but _watching is still set) and does not start a new children watch.  The server
   set is deaf from then on: member 0 is held for ever, member 1 is never announced. *)
Definition witness_g3 : list label :=
  [CreateParent; Create 0; Start; WorkerStep (Some 0); WorkerStep None; DeleteParent; Deliver; CreateParent;
   Deliver; WorkerStep None; Create 1; Deliver; WorkerStep None].

Theorem C19_converges_refuted_path_flap :
  quiescent (run (init []) witness_g3) /\
  view (log (run (init []) witness_g3)) = [0] /\ tree_members (run (init []) witness_g3) = [1] /\
  guarded guard_noflap (init []) witness_g3 = true /\ guarded guard_path (init []) witness_g3 = false.
Proof. split; [repeat split; vm_compute; reflexivity|]. vm_compute. repeat split. Qed.
Print Assumptions C19_converges_refuted_path_flap.

(* ---------------------------------------------------------------------------------------------- *)
(* 2. alternation                                                                                  *)

(* Full strength: for every member filter, every history and every member, the delivered events,
   oldest first, are join, leave, join, ... : no member is reported joining twice or leaving twice
   without the opposite event in between, and the first event is a join. *)
Theorem C19_alternation : forall f ls n,
  alternating Join (kinds_of n (rev (log (run (init f) ls)))) = true.
Proof.
  intros f ls n. pose proof (invA_run ls (init f) (invA_init f)) as IA.
  exact (proj1 (wf_log_alternating _ (wi_wf _ (ia_wi _ IA)) n)).
Qed.
Print Assumptions C19_alternation.

(* Order inside one batch: applying a change batch (done = the new members whose data was read, rem =
   the removed names) delivers every leave before every join, and the joins in read order.  All
   notifications of the worker are produced by apply_batch (continue_batch / the all-members-left
   item), so a consumer that identifies members by something coarser than the node name - the load
   balancers key their servers by endpoint - is told that the old node of a restarted server left
   before it is told that the new node with the same endpoint joined.  (The lock-step comparison with
   the code checks the same order: Model/ZkSet.events_equiv compares the sequence of kinds.) *)
Theorem C19_batch_leaves_first : forall done rem s,
  exists js ls, log (apply_batch done rem s) = js ++ ls ++ log s /\      (* newest first *)
                Forall (fun e => ev_kind e = Join) js /\ Forall (fun e => ev_kind e = Leave) ls /\
                map ev_name (rev js) = done.
Proof. exact apply_batch_order. Qed.
Print Assumptions C19_batch_leaves_first.

(* F22 regression: the two histories on which the code failed before d0a2403 (a join batch in
   progress, resp. still queued, when the path is deleted) now end with the consumer in agreement. *)
Definition f22_stale : list label :=
  [CreateParent; Start; Create 1; Create 2; Deliver; WorkerStep (Some 1); WorkerStep (Some 2);
   DeleteParent; Deliver; Deliver; WorkerStep None; WorkerStep None].
Definition f22_double : list label :=
  [CreateParent; Start; Create 0; Deliver; DeleteParent; Deliver; Deliver; CreateParent; Create 0; Deliver;
   WorkerStep (Some 0); WorkerStep (Some 0); WorkerStep None; WorkerStep None].
Example C19_f22_regression :
  quiescentb (run (init []) f22_stale) = true /\
  kinds_of 1 (rev (log (run (init []) f22_stale))) = [Join; Leave] /\ view (log (run (init []) f22_stale)) = [] /\
  quiescentb (run (init []) f22_double) = true /\
  kinds_of 0 (rev (log (run (init []) f22_double))) = [Join; Leave; Join] /\
  view (log (run (init []) f22_double)) = [0] /\ tree_members (run (init []) f22_double) = [0] /\
  guarded guard_all (init []) f22_stale = true /\ guarded guard_all (init []) f22_double = true.
Proof. vm_compute. repeat split. Qed.

(* ---------------------------------------------------------------------------------------------- *)
(* 3. callback isolation (full strength)                                                           *)

(* A CallbackRaises step - for either class of error, an Exception or a gevent.Timeout - changes nothing but
   which notification is marked as having raised, and
   every other step commutes with forgetting those marks: *)
Theorem C19_callback_isolation_step : forall s,
  (forall c, erase (step s (CallbackRaises c)) = erase s) /\
  forall l, is_raise l = false -> erase (step s l) = step (erase s) l.
Proof. intros s. split; [intros c; apply erase_step_raise|intros l H; apply erase_step; exact H]. Qed.
Print Assumptions C19_callback_isolation_step.

(* so for every history: the run with raising callbacks and the run without them agree on
   everything (tree, watches, _nodes, _members, queue, worker, and the whole sequence of
   notifications) except the raised marks and the arming counter. *)
Theorem C19_callback_isolation : forall f ls,
  erase (run (init f) ls) = erase (run (init f) (filter (fun l => negb (is_raise l)) ls)).
Proof.
  intros f ls. rewrite !erase_run.
  replace (filter (fun l => negb (is_raise l)) (filter (fun l => negb (is_raise l)) ls))
    with (filter (fun l => negb (is_raise l)) ls); [reflexivity|].
  induction ls as [|l r IH]; [reflexivity|]. cbn [filter]. destruct (negb (is_raise l)) eqn:E; [|exact IH].
  cbn [filter]. rewrite E, <- IH. reflexivity.
Qed.
Print Assumptions C19_callback_isolation.

(* in particular the same notifications are delivered, in the same order *)
Corollary C19_callback_isolation_notifications : forall f ls,
  map (fun e => (ev_kind e, ev_name e)) (log (run (init f) ls)) =
  map (fun e => (ev_kind e, ev_name e)) (log (run (init f) (filter (fun l => negb (is_raise l)) ls))).
Proof.
  intros f ls. pose proof (f_equal log (C19_callback_isolation f ls)) as H.
  assert (L : forall s, log (erase s) = map erase_ev (log s)) by (intros s; destruct s; reflexivity).
  rewrite !L in H. apply (f_equal (map (fun e => (ev_kind e, ev_name e)))) in H.
  rewrite !map_map in H. exact H.
Qed.
Print Assumptions C19_callback_isolation_notifications.

(* ---------------------------------------------------------------------------------------------- *)
(* non-vacuity: a guarded history with path deletion, re-creation, a vanishing member, a filtered
   sibling and raising callbacks reaches quiescent states with a non-empty consumer set *)
Example C19_example :
  let ls := [CreateParent; Create 0; Create 1; Create 7; Start; WorkerStep (Some 1); Delete 0; WorkerStep (Some 0);
             WorkerStep None; Deliver; WorkerStep None; CallbackRaises RTimeout; DeleteParent; Deliver; Deliver;
             CreateParent; Deliver; Create 0; Deliver; WorkerStep (Some 0); WorkerStep None] in
  let s := run (init [7]) ls in
  guarded guard_all (init [7]) ls = true /\ quiescentb s = true /\ view (log s) = [0] /\ tree_members s = [0] /\
  map (fun e => (ev_kind e, ev_name e, ev_raised e)) (rev (log s)) =
    [(Join, 1, false); (Leave, 1, true); (Join, 0, false)].
Proof. vm_compute. repeat split. Qed.
