(* C02 - A call only ever receives the reply to its own request.
   Statements only; proofs in Proofs/RoutingP.v.  Model/Routing.v describes one connection incarnation of the
   serial and of the multiplexed transport with the peer's side of the connection; theorems hold for every
   interleaving of writes, peer answers (delayed, reordered for mux, never), reads, stray frames and closes.
   That the server decodes exactly the method name and arguments the caller passed is the codec half
   (C13, C14) plus the argument identity of the proxy (C20); it is checked end to end by this property's
   monitor. *)
From Scales Require Import Model.Base Model.Routing Proofs.RoutingP.
Local Open Scope Z_scope.

(* Serial connection: every reply read is delivered to the call whose request it answers. *)
Theorem C02_serial : forall ls s, Serial.run Serial.init ls = Some s ->
  forall c c', In (c, c') (Serial.delivered s) -> c = c'.
Proof. exact SerialP.own_reply. Qed.
Print Assumptions C02_serial.

(* ... and a request that was abandoned on an incarnation (timed out, failed, never answered) blocks every later
   write on that incarnation: the transport must close it before the next request, so a late reply dies with it. *)
Theorem C02_serial_abandoned : forall ls s c, Serial.run Serial.init ls = Some s -> Serial.closed s = false ->
  Serial.unanswered s ++ Serial.pipe s <> [] -> Serial.step s (Serial.Write c) = None.
Proof. exact SerialP.abandoned_blocks. Qed.
Print Assumptions C02_serial_abandoned.

(* Multiplexed connection: every reply is delivered to the call whose request it answers, for any order of
   answers, any number of never-answered requests and any stray frames on unused tags. *)
Theorem C02_mux : forall ls s, Mux.run Mux.init ls = Some s ->
  forall c c', In (c, c') (Mux.delivered s) -> c = c'.
Proof. exact MuxP.own_reply. Qed.
Print Assumptions C02_mux.

(* The tag of an unanswered request (also a timed-out or abandoned one) stays bound to that very request until
   the peer answers it, so its late reply can reach no other call. *)
Theorem C02_abandoned : forall ls s t c, Mux.run Mux.init ls = Some s -> Mux.closed s = false ->
  In (t, c) (Mux.unanswered s ++ MuxP.real (Mux.flying s)) -> Mux.lookup (Mux.tag_map s) t = Some c.
Proof. exact MuxP.tag_stays_bound. Qed.
Print Assumptions C02_abandoned.

(* Non-vacuity: two calls answered out of order with a stray frame in between; tag reuse after an answer. *)
Example C02_example_mux :
  exists s, Mux.run Mux.init [Mux.Write 10 2; Mux.Write 11 3; Mux.PeerReply 3 11; Mux.PeerStray 9; Mux.Recv; Mux.Recv;
                              Mux.Write 12 3; Mux.PeerReply 2 10; Mux.PeerReply 3 12; Mux.Recv; Mux.Recv] = Some s
            /\ Mux.delivered s = [(12, 12); (10, 10); (11, 11)].
Proof. eexists. split; [vm_compute; reflexivity|reflexivity]. Qed.
Example C02_example_serial :
  Serial.run Serial.init [Serial.Write 1; Serial.Write 2] = None /\
  exists s, Serial.run Serial.init [Serial.Write 1; Serial.PeerReply; Serial.Read 1; Serial.Write 2] = Some s
            /\ Serial.delivered s = [(1, 1)].
Proof. split; [reflexivity|]. eexists. split; [vm_compute; reflexivity|reflexivity]. Qed.
