(* C15 - Kafka produce requests and responses are well-formed for every input.
   Only statements here; proofs are in Proofs/KafkaCodecP.v.  Every theorem quantifies over all inputs: no bound on the
   topic, payload count, payload size, number of topics/partitions/brokers or the length of the send/reply history
   beyond what the wire format (and struct.pack, modelled by pack_s/pack_u returning None) can carry.
   parse_request / enc_produce_response / enc_metadata_response are written from the Kafka 0.8 protocol guide,
   independently of the code (Model/KafkaCodec.v sections 3 and 4); parse_request is strict: it succeeds only if every
   declared size (request size, message-set size, message size, string/bytes lengths, array counts) is exactly the
   number of bytes present, every message CRC-32 verifies and nothing is left over. *)
From Scales Require Import Model.Base Model.Bytes Model.Utf8 Model.Crc32 Model.KafkaCodec Proofs.BytesP Proofs.KafkaCodecP.
Local Open Scope Z_scope.

(* Whenever the library frames a Put (header ++ body, as put on the send queue), the independent strict v0 parser
   decodes it to: api key 0, version 0, the request's correlation id (= mux tag), the UTF-8 client id, the acks value,
   timeout 1000, exactly one topic with exactly one partition, and one message per payload (offset 0, magic 0,
   attributes 0, null key, value = payload, CRC verified) - for every topic, payload list (incl. [] and empty payloads)
   and field value; and the size prefix counts exactly the bytes that follow it.
   bytes_ok: payload elements are bytes (0..255). *)
Theorem C15_request_wf : forall cid tag acks partition topic payloads f,
  request_frame cid tag (CallPut acks partition topic payloads) = Some f ->
  Forall bytes_ok payloads ->
  exists cb, utf8 cid = Some cb /\
    parse_request f =
      Some (ReqProduce {| h_api_key := 0; h_version := 0; h_corr := tag; h_client := Some cb |}
                       acks 1000 [(topic, [(partition, map msg_of_payload payloads)])]) /\
    unbe (firstn 4 f) = len (skipn 4 f).
Proof.
  intros cid tag acks partition topic payloads f H Hp.
  destruct (request_frame_wf _ _ _ _ _ _ _ H Hp) as (cb & E & P & _ & L). exists cb. repeat split; assumption.
Qed.
Print Assumptions C15_request_wf.

(* ... and the library does frame every request the format can carry: any topic up to 32767 bytes, acks in int16,
   partition and correlation id in int32, any client id up to 32767 UTF-8 bytes, any payload list whose frame stays
   below 2^31 bytes (so C15_request_wf is not vacuous, and nothing in range is refused). *)
Theorem C15_request_total : forall cid cb tag acks partition topic payloads,
  utf8 cid = Some cb -> len cb < 32768 -> i32 tag -> i16 acks -> i32 partition -> len topic < 32768 ->
  38 + len cb + len topic + msg_set_len payloads < 2147483648 ->
  exists f, request_frame cid tag (CallPut acks partition topic payloads) = Some f.
Proof. exact request_frame_total. Qed.
Print Assumptions C15_request_total.

(* The two-step CRC of the code (header, then payload continued from it) is the CRC-32 of header ++ payload. *)
Theorem C15_crc_continuation : forall a b, crc32 (a ++ b) = crc32_cont (crc32 a) b.
Proof. exact crc32_app. Qed.
Print Assumptions C15_crc_continuation.

(* A produce response as a broker encodes it (any correlation id, any number of topics and partitions, any error code
   incl. negative, any offset) decodes to exactly its (topic, partition, error, offset) entries, in order. *)
Theorem C15_produce_resp : forall corr r rest,
  len corr = 4 -> ok_presp r ->
  deserialize T_produce (corr ++ enc_produce_response r ++ rest) = Some (RProduce (flat_presp r)).
Proof.
  intros corr r rest Hc Hr. unfold deserialize, py_read. change (4 <? 0) with false. cbn iota. cbn [snd].
  rewrite drop_app_len by (symmetry; exact Hc). change (T_produce =? T_metadata) with false. change (T_produce =? T_produce) with true.
  cbn iota. rewrite parse_produce_response_enc by exact Hr. reflexivity.
Qed.
Print Assumptions C15_produce_resp.

(* A metadata response as a broker encodes it decodes to the broker table keyed by node id and, per topic name, the
   partition table keyed by partition id with leader, replicas and isr (error codes are dropped by the client);
   dict_of is python's dict insertion: a repeated key keeps its first position and takes the last value. *)
Theorem C15_metadata_resp : forall corr r rest,
  len corr = 4 -> ok_mresp r ->
  deserialize T_metadata (corr ++ enc_metadata_response r ++ rest) = Some (RMetadata (view_mresp r)).
Proof.
  intros corr r rest Hc Hr. unfold deserialize, py_read. change (4 <? 0) with false. cbn iota. cbn [snd].
  rewrite drop_app_len by (symmetry; exact Hc). change (T_metadata =? T_metadata) with true. cbn iota.
  rewrite parse_metadata_response_enc by exact Hr. reflexivity.
Qed.
Print Assumptions C15_metadata_resp.

(* With distinct node ids, topic names and partition ids the decoded tables are exactly the encoded lists. *)
Theorem C15_metadata_resp_distinct : forall corr r rest,
  len corr = 4 -> ok_mresp r -> distinct_mresp r ->
  deserialize T_metadata (corr ++ enc_metadata_response r ++ rest) = Some (RMetadata (plain_mresp r)).
Proof.
  intros corr r rest Hc Hr Hd. rewrite C15_metadata_resp by assumption. now rewrite view_mresp_distinct.
Qed.
Print Assumptions C15_metadata_resp_distinct.

(* Routing, for every history of sends and replies (any tags the pool hands out, any reply bytes, unknown and
   repeated ids): a reply is handed to the caller of the pending request whose correlation id equals the reply's first
   four bytes - the most recent registered send with that tag that has not been answered since - decoded with that
   request's message type; with no such request it is dropped; with fewer than four bytes it raises. *)
Theorem C15_routing : forall cid hist s,
  rrun cid [] (hist ++ [RReply s]) =
  rrun cid [] hist ++
    [match reply_corr s with
     | None => OReplyRaise
     | Some t => match pending (rev hist) t with
                 | Some (stack, mt) => ODeliver stack (deserialize mt s)
                 | None => ODrop
                 end
     end].
Proof. exact rrun_reply. Qed.
Print Assumptions C15_routing.

(* ... in terms of the bytes on the wire: if a request was framed as f and since then nothing else was registered under
   or answered with its tag, a reply whose first four bytes equal the correlation-id field of f (bytes 8..11)
   is delivered to that request's caller. *)
Theorem C15_routing_request : forall cid pre stack tag c f mid s,
  request_frame cid tag c = Some f ->
  Forall (quiet tag) mid ->
  firstn 4 s = firstn 4 (skipn 8 f) ->
  exists mt body, serialize c = Some (mt, body) /\
    rrun cid [] ((pre ++ RSend stack tag c :: mid) ++ [RReply s]) =
    rrun cid [] (pre ++ RSend stack tag c :: mid) ++ [ODeliver stack (deserialize mt s)].
Proof. exact rrun_request_reply. Qed.
Print Assumptions C15_routing_request.

(* Routing with client-side timeouts (ClientTimeoutSink / _HandleTimeout / KafkaTransportSink._OnTimeout), for every
   history in which each timeout hits a request that was already written (Kafka cannot cancel it, the broker still
   owes the reply): timeouts leave the correlation-id table untouched, so a reply is still correlated exactly as in
   C15_routing on the history without the timeouts; if its request has already timed out nobody sees it. *)
Theorem C15_routing_timeouts : forall cid hist s, no_unsent hist ->
  trun cid ([], []) (hist ++ [TOp (RReply s)]) =
  trun cid ([], []) hist ++
    [hide (timed_out hist)
       (match reply_corr s with
        | None => OReplyRaise
        | Some t => match pending (rev (erase hist)) t with
                    | Some (stack, mt) => ODeliver stack (deserialize mt s)
                    | None => ODrop
                    end
        end)].
Proof. exact trun_reply. Qed.
Print Assumptions C15_routing_timeouts.

(* ... in particular the late reply to a request that timed out in flight is absorbed by that very request, whatever was
   sent since under other correlation ids: it can never reach a different, newer request. *)
Theorem C15_late_reply : forall cid pre stack tag c f mid s,
  request_frame cid tag c = Some f ->
  no_unsent (pre ++ TOp (RSend stack tag c) :: TTimeout stack :: mid) ->
  Forall (quiet tag) (erase mid) ->
  firstn 4 s = firstn 4 (skipn 8 f) ->
  trun cid ([], []) ((pre ++ TOp (RSend stack tag c) :: TTimeout stack :: mid) ++ [TOp (RReply s)]) =
  trun cid ([], []) (pre ++ TOp (RSend stack tag c) :: TTimeout stack :: mid) ++ [ODeadReply stack].
Proof. exact trun_late_reply. Qed.
Print Assumptions C15_late_reply.

(* The read loops' fuel (number of input bytes) never decides an outcome: any larger fuel gives the same result. *)
Theorem C15_fuel_irrelevant : forall (A : Type) (rd : bytes -> option (A * bytes)),
  (forall s x r, rd s = Some (x, r) -> (length r < length s)%nat) ->
  forall f1 n s f2, (length s <= f1)%nat -> (length s <= f2)%nat -> read_many rd f1 n s = read_many rd f2 n s.
Proof. exact @read_many_fuel_irrelevant. Qed.
Print Assumptions C15_fuel_irrelevant.

(* ---- non-vacuity: the repository's own test vectors (test/scales/kafka/test_protocol.py) ---- *)
Definition ex_topic : bytes := [116;101;115;116;95;116;111;112;105;99].                (* b'test_topic' *)
Definition ex_payload : bytes := [109;101;115;115;97;103;101;95;100;97;116;97].        (* b'message_data' *)
Definition ex_loghog : bytes := [108;111;103;104;111;103].

Example C15_example_request :
  serialize (CallPut 1 1 ex_topic [ex_payload]) =
    Some (0, [0;1;0;0;3;232;0;0;0;1;0;10;116;101;115;116;95;116;111;112;105;99;0;0;0;1;0;0;0;1;0;0;0;38;0;0;0;0;0;0;0;0;0;0;0;26;
              189;10;194;188;0;0;255;255;255;255;0;0;0;12;109;101;115;115;97;103;101;95;100;97;116;97])
  /\ exists f, request_frame [115;99;97;108;101;115] 2 (CallPut 1 1 ex_topic [ex_payload]) = Some f /\ len f = 92
  /\ option_map summarize (parse_request f) =
       Some (0, 0, 2, Some [115;99;97;108;101;115], Some (1, 1000, [(ex_topic, [(1, [(0, 0, 0, -1, 12)])])]), []).
Proof. split; [vm_compute; reflexivity|]. eexists. split; [vm_compute; reflexivity|]. split; vm_compute; reflexivity. Qed.

Example C15_example_produce_resp :
  ok_presp [(ex_loghog, [(0, 0, 939955)])] /\
  [0;0;0;2] ++ enc_produce_response [(ex_loghog, [(0, 0, 939955)])] =
    [0;0;0;2;0;0;0;1;0;6;108;111;103;104;111;103;0;0;0;1;0;0;0;0;0;0;0;0;0;0;0;14;87;179].
Proof.
  split; [|vm_compute; reflexivity].
  unfold ok_presp, ok_presp_topic, ok_presp_part, ok_count, ok_str, i16, i32, i64. cbn.
  repeat (first [apply Forall_nil | apply Forall_cons | split]); cbn; lia.
Qed.

Definition ex_mresp : mresp :=
  {| mr_brokers := [(1, [101;99;50;45;53;52;45;56;49;45;49;48;54;45;56;56;46;99;111;109;112;117;116;101;45;49;46;97;109;97;122;111;110;97;119;115;46;99;111;109], 15939);
                    (0, [101;99;50;45;53;52;45;49;53;57;45;49;49;48;45;49;57;50;46;99;111;109;112;117;116;101;45;49;46;97;109;97;122;111;110;97;119;115;46;99;111;109], 15063)];
     mr_topics := [{| mt_err := 0; mt_name := ex_loghog;
                      mt_parts := [{| mp_err := 9; mp_id := 0; mp_leader := 1; mp_replicas := [1; 0]; mp_isr := [0; 1] |}] |}] |}.

Example C15_example_metadata_resp :
  ok_mresp ex_mresp /\ distinct_mresp ex_mresp /\
  [0;0;0;2] ++ enc_metadata_response ex_mresp =
    [0;0;0;2;0;0;0;2;0;0;0;1;0;40;101;99;50;45;53;52;45;56;49;45;49;48;54;45;56;56;46;99;111;109;112;117;116;101;45;49;46;97;109;97;122;111;110;97;119;115;46;99;111;109;0;0;62;67;0;0;0;0;0;42;101;99;50;45;53;52;45;49;53;57;45;49;49;48;45;49;57;50;46;99;111;109;112;117;116;101;45;49;46;97;109;97;122;111;110;97;119;115;46;99;111;109;0;0;58;215;0;0;0;1;0;0;0;6;108;111;103;104;111;103;0;0;0;1;0;9;0;0;0;0;0;0;0;1;0;0;0;2;0;0;0;1;0;0;0;0;0;0;0;2;0;0;0;0;0;0;0;1].
Proof.
  split; [|split; [|vm_compute; reflexivity]].
  - unfold ok_mresp, ok_mtopic, ok_mpart, ok_broker, ok_i32s, ok_count, ok_str, i16, i32. cbn.
    repeat (first [apply Forall_nil | apply Forall_cons | split]); cbn; lia.
  - unfold distinct_mresp. cbn.
    repeat (first [apply Forall_nil | apply Forall_cons | apply NoDup_nil | apply NoDup_cons | split]); cbn;
      intuition (try discriminate; try lia).
Qed.

(* a history: two requests, the replies arrive in the opposite order, then a repeated and an unknown id *)
Example C15_example_routing :
  rrun [115;99;97;108;101;115] []
    [RSend 10 2 (CallPut 1 0 ex_topic [ex_payload]); RSend 11 3 (CallMetadata []);
     RReply ([0;0;0;3] ++ enc_metadata_response ex_mresp); RReply ([0;0;0;2] ++ enc_produce_response [(ex_topic, [(0, 0, 7)])]);
     RReply ([0;0;0;2] ++ enc_produce_response []); RReply [0;0;0;99]; RReply [1;2;3]] =
  match request_frame [115;99;97;108;101;115] 2 (CallPut 1 0 ex_topic [ex_payload]),
        request_frame [115;99;97;108;101;115] 3 (CallMetadata []) with
  | Some f1, Some f2 =>
      [OSent f1; OSent f2; ODeliver 11 (Some (RMetadata (plain_mresp ex_mresp)));
       ODeliver 10 (Some (RProduce [(ex_topic, 0, 0, 7)])); ODrop; ODrop; OReplyRaise]
  | _, _ => []
  end.
Proof. vm_compute. reflexivity. Qed.

(* request 1 times out in flight, request 2 is sent, the late reply to 1 arrives, then the reply to 2 *)
Example C15_example_timeout :
  map vis (trun [115;99;97;108;101;115] ([], [])
    [TOp (RSend 1 2 (CallPut 1 3 ex_topic [ex_payload])); TTimeout 1; TOp (RSend 2 3 (CallPut 1 3 ex_loghog []));
     TOp (RReply ([0;0;0;2] ++ enc_produce_response [(ex_topic, [(3, 0, 111)])]));
     TOp (RReply ([0;0;0;3] ++ enc_produce_response [(ex_loghog, [(3, 0, 222)])]))]) =
  match request_frame [115;99;97;108;101;115] 2 (CallPut 1 3 ex_topic [ex_payload]),
        request_frame [115;99;97;108;101;115] 3 (CallPut 1 3 ex_loghog []) with
  | Some f1, Some f2 => [VSent f1; VTimeout 1; VSent f2; VNothing; VDeliver 2 (Some (RProduce [(ex_loghog, 3, 0, 222)]))]
  | _, _ => []
  end.
Proof. vm_compute. reflexivity. Qed.
