(* C18 - Metrics are neither lost, duplicated nor split across equal sources.
   Only statements here; proofs are in Proofs/VarzP.v.  Every theorem quantifies over all update
   sequences (no bound on their length, on the number of sources or metrics), every key selector
   (any function source -> key), every reservoir capacity, every outcome of random.random() and every
   value of the low resolution clock (both are part of the labels), every percentile list in [0,1].
   Numbers are exact rationals (DESIGN.md 4.3); [==] is equality of rationals. *)
From Coq Require Import QArith Qround Lqa.
From Scales Require Import Model.Base Model.Varz Proofs.VarzP.
Local Open Scope Q_scope.

(* A metric that only receives increments (what a Counter / Rate / AggregateTimer VarzMetric does,
   VarzMetric.__init__) and is registered with a summing type: whatever else happens to other metrics,
   Aggregate reports for every key k exactly the sum of all increments recorded for sources whose key is
   k - none lost, none counted twice - and reports no key that received no increment. *)
Theorem C18_sum : forall cap sel pcts types ops m ty k out,
  alookup Z.eqb m types = Some ty -> is_sum_type ty = true -> inc_only m ops ->
  let st := exec cap init_state ops in
  aggregate sel (st_now st) pcts types (st_data st) = ROk out ->
  ((exists s a, In (Inc m s a) ops /\ sel s = k) ->
     exists per q n, alookup Z.eqb m out = Some per /\ alookup key_eqb k per = Some (TNum q, n) /\
                     q == inc_sum sel m k ops) /\
  ((forall s a, In (Inc m s a) ops -> sel s <> k) ->
     forall per, alookup Z.eqb m out = Some per -> alookup key_eqb k per = None).
Proof.
  intros cap sel pcts types ops m ty k out Hty Hsum Hinc st Hagg.
  destruct (exec_inc_sum cap sel k m ops init_state Hinc (Forall_nil _)) as [Hnum Hks].
  fold st in Hnum, Hks. rewrite init_series in Hks. cbn [key_sum] in Hks.
  pose proof (aggregate_lookup _ _ _ _ _ _ _ _ Hagg Hty) as L. unfold get_series in Hnum, Hks.
  split.
  - intros (s & a & Hin & Hk).
    pose proof (exec_inc_present cap m ops init_state s a Hinc (Forall_nil _) Hin) as Hp. fold st in Hp.
    unfold get_series in Hp. destruct (alookup Z.eqb m (st_data st)) as [srcs|]; [|destruct Hp].
    destruct L as (per & Hper & Lper). exists per.
    destruct (agg_metric_num _ _ _ _ _ _ k Hsum Hnum Hper) as [A _].
    destruct (A (ex_intro _ s (conj Hp Hk))) as (q & n & E & Hq & _). exists q, n.
    split; [exact Lper|]. split; [exact E|]. rewrite Hq, Hks. ring.
  - intros Hno per Hper. destruct (alookup Z.eqb m (st_data st)) as [srcs|] eqn:Ed; [|congruence].
    destruct L as (per' & Hper' & Lper). rewrite Lper in Hper. inversion Hper; subst per'.
    destruct (agg_metric_num _ _ _ _ _ _ k Hsum Hnum Hper') as [_ B]. apply B. intros s Hs.
    assert (Hu : In s (used m ops)).
    { destruct (exec_keys_incl cap ops init_state m s) as [[]|Hu]; [|exact Hu]. fold st. unfold get_series. rewrite Ed. exact Hs. }
    clear - Hu Hinc Hno. induction ops as [|l r IH]; [destruct Hu|]. inversion Hinc as [|l' r' Hl Hr]; subst.
    cbn in Hu. destruct (label_source l) as [s'|] eqn:Es.
    + destruct (on_metric l m) eqn:E.
      * destruct (Hl eq_refl) as (s2 & a & ->). cbn in Es. inversion Es; subst s2. destruct Hu as [->|Hu].
        -- apply (Hno s a). left. reflexivity.
        -- apply IH; [exact Hr|intros s3 a3 H3; apply (Hno s3 a3); right; exact H3|exact Hu].
      * apply IH; [exact Hr|intros s3 a3 H3; apply (Hno s3 a3); right; exact H3|exact Hu].
    + apply IH; [exact Hr|intros s3 a3 H3; apply (Hno s3 a3); right; exact H3|exact Hu].
Qed.
Print Assumptions C18_sum.

(* A gauge series holds exactly the last value set for that source (by any equal Source object). *)
Theorem C18_gauge : forall cap ops m s,
  set_only m ops ->
  alookup src_eqb s (get_series (exec cap init_state ops) m) = option_map Num (last_set m s ops None).
Proof.
  intros cap ops m s H. rewrite (exec_last_set cap m s ops init_state H). rewrite init_series. cbn.
  destruct (last_set m s ops None); reflexivity.
Qed.
Print Assumptions C18_gauge.

(* ... and Aggregate reports that value for a key selected by no other source of the metric. *)
Theorem C18_gauge_agg : forall cap sel pcts types ops m ty s v out,
  alookup Z.eqb m types = Some ty -> is_sum_type ty = true -> set_only m ops ->
  last_set m s ops None = Some v ->
  (forall s', In s' (used m ops) -> sel s' = sel s -> s' = s) ->
  let st := exec cap init_state ops in
  aggregate sel (st_now st) pcts types (st_data st) = ROk out ->
  exists per q n, alookup Z.eqb m out = Some per /\ alookup key_eqb (sel s) per = Some (TNum q, n) /\ q == v.
Proof.
  intros cap sel pcts types ops m ty s v out Hty Hsum Hset Hlast Hu st Hagg.
  pose proof (C18_gauge cap ops m s Hset) as Hc. rewrite Hlast in Hc. cbn in Hc. fold st in Hc.
  pose proof (exec_set_all_num cap m ops init_state Hset (Forall_nil _)) as Hnum. fold st in Hnum.
  pose proof (exec_nodup cap ops init_state m (NoDup_nil _)) as Hnd. fold st in Hnd.
  assert (Hu' : forall s', In s' (keys (get_series st m)) -> sel s' = sel s -> s' = s).
  { intros s' Hs'. apply Hu. destruct (exec_keys_incl cap ops init_state m s' Hs') as [[]|H]. exact H. }
  pose proof (key_sum_single sel s _ _ Hnd Hc Hu') as Hks. cbn in Hks.
  pose proof (alookup_some_in_keys _ src_eqb_spec _ _ _ Hc) as Hin.
  pose proof (aggregate_lookup _ _ _ _ _ _ _ _ Hagg Hty) as L. unfold get_series in *.
  destruct (alookup Z.eqb m (st_data st)) as [srcs|]; [|destruct Hin].
  destruct L as (per & Hper & Lper). exists per.
  destruct (agg_metric_num _ _ _ _ _ _ (sel s) Hsum Hnum Hper) as [A _].
  destruct (A (ex_intro _ s (conj Hin eq_refl))) as (q & n & E & Hq & _). exists q, n.
  split; [exact Lper|]. split; [exact E|]. rewrite Hq. exact Hks.
Qed.
Print Assumptions C18_gauge_agg.

(* Equal source tuples never split: the series of a metric carry pairwise different tuples, and their
   number is bounded by the number of distinct tuples ever used on that metric, however many updates are
   made and whatever their kind or outcome. *)
Theorem C18_series_bound : forall cap ops m,
  NoDup (map fst (get_series (exec cap init_state ops) m)) /\
  (length (get_series (exec cap init_state ops) m) <= length (nodup src_dec (used m ops)))%nat.
Proof. exact series_bound. Qed.
Print Assumptions C18_series_bound.

(* CalculatePercentile on the sorted samples, every p in [0,1]: between the smallest and the largest sample. *)
Theorem C18_pct_bounds : forall samples p lo hi,
  samples <> [] -> 0 <= p -> p <= 1 -> (forall x, In x samples -> lo <= x /\ x <= hi) ->
  exists v, percentile (sortQ samples) p = Some v /\ lo <= v /\ v <= hi.
Proof.
  intros samples p lo hi Hne H0 H1 Hb. apply percentile_bounds; try assumption.
  - apply sortQ_nonempty. exact Hne.
  - intros x Hx. apply Hb. apply sortQ_in. exact Hx.
Qed.
Print Assumptions C18_pct_bounds.

(* ... and non-decreasing in p. *)
Theorem C18_pct_mono : forall samples p p',
  samples <> [] -> 0 <= p -> p <= p' -> p' <= 1 ->
  exists v v', percentile (sortQ samples) p = Some v /\ percentile (sortQ samples) p' = Some v' /\ v <= v'.
Proof.
  intros samples p p' Hne H0 Hpp H1. apply percentile_mono; try assumption.
  - apply sortQ_sorted_nth.
  - apply sortQ_nonempty. exact Hne.
Qed.
Print Assumptions C18_pct_mono.

(* What Aggregate reports for a timer metric and a key selected by a single source, after any history
   of samples: the source holds a non-empty reservoir whose retained samples were all recorded for that
   source; if it is fresh, the reported list is [mean; percentiles...] of exactly those retained samples,
   every entry lies between any bounds of the retained samples, and the percentiles do not decrease as
   the percentile rises. *)
Theorem C18_pct_agg : forall cap sel pcts types ops m ty s out,
  (1 <= cap <= 2 ^ 53)%Z -> alookup Z.eqb m types = Some ty -> is_avg_type ty = true -> sample_only m ops ->
  Forall (fun p => 0 <= p /\ p <= 1) pcts ->
  let st := exec cap init_state ops in
  In s (map fst (get_series st m)) ->
  (forall s', In s' (used m ops) -> sel s' = sel s -> s' = s) ->
  aggregate sel (st_now st) pcts types (st_data st) = ROk out ->
  exists r per,
    alookup src_eqb s (get_series st m) = Some (Res r) /\ r_data r <> [] /\
    (forall x, In x (r_data r) -> In (s, x) (sampled m ops)) /\
    alookup Z.eqb m out = Some per /\
    ((st_now st - r_last r < MAX_AGG_AGE)%Z ->
       let vs := sortQ (r_data r) in
       alookup key_eqb (sel s) per = Some (TPcts (mean vs :: map (pval vs) pcts) (maxabs vs), 1%Z) /\
       (forall lo hi, (forall x, In x (r_data r) -> lo <= x /\ x <= hi) ->
                      Forall (fun v => lo <= v /\ v <= hi) (mean vs :: map (pval vs) pcts)) /\
       (forall p p', In p pcts -> In p' pcts -> p <= p' -> pval vs p <= pval vs p')).
Proof.
  intros cap sel pcts types ops m ty s out Hcap Hty Havg Hso Hp st Hin Hu Hagg.
  assert (Hrs : res_series cap (fun s x => False \/ In (s, x) (sampled m ops)) (get_series st m)).
  { apply exec_sample_inv; [lia|exact Hso|constructor]. }
  pose proof (res_series_lookup _ _ _ s Hrs) as Hl.
  destruct (in_keys_alookup _ src_eqb_spec s _ Hin) as [c Ec]. rewrite Ec in Hl.
  destruct Hl as (r & -> & Hinv & Hne & Hx). destruct Hinv as (I1 & I2 & I3).
  pose proof (exec_nodup cap ops init_state m (NoDup_nil _)) as Hnd. fold st in Hnd.
  assert (Hu' : forall s', In s' (keys (get_series st m)) -> sel s' = sel s -> s' = s).
  { intros s' Hs'. apply Hu. destruct (exec_keys_incl cap ops init_state m s' Hs') as [[]|H]. exact H. }
  pose proof (aggregate_lookup _ _ _ _ _ _ _ _ Hagg Hty) as L. unfold get_series in *.
  destruct (alookup Z.eqb m (st_data st)) as [srcs|]; [|destruct Hin].
  destruct L as (per & Hper & Lper). exists r, per.
  split; [exact Ec|]. split; [exact Hne|]. split; [intros x H; destruct (Hx x H) as [[]|H']; exact H'|].
  split; [exact Lper|]. intros Hfresh. set (vs := sortQ (r_data r)).
  assert (Hlen : (zlen (r_data r) <= 2 ^ 53)%Z) by lia.
  split; [exact (agg_metric_single _ _ _ _ _ _ s r Havg Hper Hnd Ec Hu' Hfresh Hne Hlen Hp)|].
  pose proof (sortQ_nonempty _ Hne) as Hvne. fold vs in Hvne.
  split.
  - intros lo hi Hb. assert (Hb' : forall x, In x vs -> lo <= x /\ x <= hi) by (intros x H; apply Hb; apply sortQ_in; exact H).
    constructor; [apply mean_bounds; assumption|]. rewrite Forall_forall. intros v Hv. apply in_map_iff in Hv.
    destruct Hv as (p & <- & Hpin). rewrite Forall_forall in Hp. destruct (Hp p Hpin) as [P0 P1].
    apply pval_bounds; assumption.
  - intros p p' Hpin Hpin' Hpp. rewrite Forall_forall in Hp. destruct (Hp p Hpin) as [P0 _]. destruct (Hp p' Hpin') as [_ P1].
    apply pval_mono; try assumption. apply sortQ_sorted_nth.
Qed.
Print Assumptions C18_pct_agg.

(* A history in which every registered metric only receives the kind of update its VarzType makes
   (VarzMetric.__init__) never raises: no update on a registered metric fails, and Aggregate returns. *)
Theorem C18_no_error : forall cap sel pcts types pre l post,
  typed types (pre ++ l :: post) -> Forall (fun p => 0 <= p /\ p <= 1) pcts ->
  (forall m ty, label_metric l = Some m -> alookup Z.eqb m types = Some ty ->
     snd (step cap (exec cap init_state pre) l) <> ErrType /\ snd (step cap (exec cap init_state pre) l) <> ErrAttr) /\
  (let st := exec cap init_state (pre ++ l :: post) in
   exists out, aggregate sel (st_now st) pcts types (st_data st) = ROk out).
Proof.
  intros cap sel pcts types pre l post Ht Hp. split.
  - unfold typed in Ht. apply Forall_app in Ht. destruct Ht as [Hpre Hl]. inversion Hl as [|x y Hx Hy]; subst.
    apply (step_typed cap types); [exact Hx|]. apply exec_typed; [exact Hpre|constructor].
  - intros st. apply aggregate_ok; [exact Hp|]. apply exec_typed; [exact Ht|constructor].
Qed.
Print Assumptions C18_no_error.

(* Aggregate is not atomic (one gevent.sleep(0) per registered metric; metric names are a snapshot taken at
   its start, a metric's sources a snapshot taken after its yield).  Whatever other greenlets record inside
   those yields - first values of new metrics and new sources included - every total reported for a counter
   metric is the exact sum of the increments of a PREFIX of the concurrent history: the history before
   Aggregate started plus the first j batches; nothing recorded up to that point is lost or counted twice. *)
Theorem C18_sum_concurrent : forall cap sel pcts types ops sched m ty k out st' per q n,
  alookup Z.eqb m types = Some ty -> is_sum_type ty = true -> inc_only m (ops ++ concat sched) ->
  let st := exec cap init_state ops in
  aggregate_il cap sel (st_now st) pcts types (map fst (st_data st)) st sched = (st', ROk out) ->
  alookup Z.eqb m out = Some per -> alookup key_eqb k per = Some (TNum q, n) ->
  exists j, (j <= length sched)%nat /\ q == inc_sum sel m k (ops ++ concat (firstn j sched)).
Proof.
  intros cap sel pcts types ops sched m ty k out st' per q n Hty Hsum Hinc st Hagg Hper Hk.
  destruct (aggregate_il_prefix _ _ _ _ _ _ _ _ _ _ _ _ _ Hagg Hty Hper) as (j & Hj & Hp).
  exists j. split; [exact Hj|]. unfold st in Hp. rewrite <- exec_app in Hp.
  assert (Hinc' : inc_only m (ops ++ concat (firstn j sched))).
  { unfold inc_only in *. rewrite Forall_app in *. destruct Hinc as [H1 H2]. split; [exact H1|].
    rewrite Forall_forall in *. intros l Hl. apply H2. rewrite <- (firstn_skipn j sched), concat_app, in_app_iff. left. exact Hl. }
  destruct (exec_inc_sum cap sel k m _ init_state Hinc' (Forall_nil _)) as [Hnum Hks].
  rewrite init_series in Hks. cbn [key_sum] in Hks.
  destruct (agg_metric_num _ _ _ _ _ _ k Hsum Hnum Hp) as [A B].
  destruct (key_present_dec sel k (get_series (exec cap init_state (ops ++ concat (firstn j sched))) m)) as [Hex|Hno].
  - destruct (A Hex) as (q' & n' & E & Hq & _). rewrite E in Hk. inversion Hk; subst q' n'. rewrite Hq, Hks. ring.
  - rewrite (B Hno) in Hk. discriminate.
Qed.
Print Assumptions C18_sum_concurrent.

(* ... and without concurrent updates it is the atomic Aggregate the other theorems speak about. *)
Theorem C18_aggregate_atomic : forall cap sel pcts types ops,
  let st := exec cap init_state ops in
  aggregate_il cap sel (st_now st) pcts types (map fst (st_data st)) st [] =
  (st, aggregate sel (st_now st) pcts types (st_data st)).
Proof.
  intros cap sel pcts types ops st. apply aggregate_il_nil. apply exec_data_nodup. constructor.
Qed.
Print Assumptions C18_aggregate_atomic.

(* ---- non-vacuity ------------------------------------------------------------------------------ *)
Definition ex_s : source := (Some 1%Z, Some 2%Z, None, None).
Definition ex_s' : source := (Some 7%Z, Some 2%Z, Some 3%Z, None).
Definition ex_types : list (Z * Z) := [(1%Z, T_Counter); (2%Z, T_Gauge); (3%Z, T_AverageTimer)].
Definition ex_ops : list label :=
  [Inc 1 ex_s 1; Sample 3 ex_s 4 None; Inc 1 ex_s' 5; SetV 2 ex_s 9; Inc 1 ex_s 1; Sample 3 ex_s 2 None;
   SetV 2 ex_s 6; Sample 3 ex_s 8 (Some (1 # 20)); Sample 3 ex_s 1 (Some (1 # 2)); Clock 7].

(* three increments through two distinct sources: two series, one key, total 7; the gauge reports 6; the
   timer of capacity 2 retains [2; 8] (4 evicted by the kept draw 0.05, 1 dropped by the draw 0.5) *)
Example C18_example :
  let st := exec 2 init_state ex_ops in
  map (fun ms => (fst ms, length (snd ms))) (st_data st) = [(1%Z, 2%nat); (3%Z, 1%nat); (2%Z, 1%nat)] /\
  (exists out, aggregate default_key_selector (st_now st) [1 # 2; 9 # 10] ex_types (st_data st) = ROk out /\
     agg_match out [(1%Z, [([Some 2%Z; None], (ONum 7, 2%Z))]);
                    (3%Z, [([Some 2%Z; None], (OPcts [5; 5; 37 # 5], 1%Z))]);
                    (2%Z, [([Some 2%Z; None], (ONum 6, 1%Z))])] = true) /\
  inc_only 1 ex_ops /\ set_only 2 ex_ops /\ sample_only 3 ex_ops /\ typed ex_types ex_ops /\
  inc_sum default_key_selector 1 [Some 2%Z; None] ex_ops == 7 /\
  last_set 2 ex_s ex_ops None = Some 6.
Proof.
  cbv zeta. split; [vm_compute; reflexivity|]. split; [eexists; split; [vm_compute; reflexivity|vm_compute; reflexivity]|].
  split; [|split; [|split; [|split]]].
  1-3: repeat constructor; unfold on_metric; cbn; intros; try discriminate; eauto.
  - repeat constructor.
  - split; vm_compute; reflexivity.
Qed.

(* one yield: another greenlet adds a new source to metric 1 and the first value of metric 4 while Aggregate
   is running: metric 1 reports 1 + 5, metric 4 (not in the snapshot of names) is not reported, nothing raises *)
Example C18_concurrent_example :
  let st := exec 2 init_state [Inc 1 ex_s 1] in
  exists st' out,
    aggregate_il 2 default_key_selector (st_now st) [] [(1%Z, T_Counter); (4%Z, T_Counter)] (map fst (st_data st)) st
                 [[Inc 1 ex_s' 5; Inc 4 ex_s 2]] = (st', ROk out) /\
    agg_match out [(1%Z, [([Some 2%Z; None], (ONum 6, 2%Z))])] = true /\
    map fst (st_data st') = [1%Z; 4%Z].
Proof. cbv zeta. do 2 eexists. split; [vm_compute; reflexivity|]. split; vm_compute; reflexivity. Qed.
