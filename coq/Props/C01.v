(* C01 - Every call completes exactly once, no later than its deadline.
   Statements only; proofs in Proofs/CallLifeP.v.  The model (Model/CallLife.v) is the life of one call above
   the balancer; every sink below the timeout sink, every connection, server and the server set are an
   arbitrary environment (labels Push / Pop), so each theorem holds "whatever the servers, the connections
   and the server set do".  Time is in integer ticks; r > 0 is the timer queue's resolution.
   A call issued while the client is still opening ("waited" call) is chained behind the open result AND
   bounded by a timer of its own that DispatchMethodCall arms at the call's deadline (label OFire).  When the
   open result completes that outer timer is cancelled and the call is dispatched - from then on the timeout
   sink's own timer bounds it like any other call - unless the outer timer already completed it, in which
   case it is not dispatched at all.  The caller's result is completed by whichever comes first, each guarded
   by ready().  All theorems below cover both kinds of call: there is no "issued on an open client"
   hypothesis any more. *)
From Scales Require Import Model.Base Model.CallLife Proofs.CallLifeP.
Local Open Scope Z_scope.

(* The caller's result is completed at most once, for every sequence of labels (fine-grained: any number of
   replies, faults, duplicates, partial drains, inner and outer timer firings, in any order). *)
Theorem C01_at_most_once : forall r t ls s, 0 < r ->
  run r (init t) ls = Some s -> (length (done s) <= 1)%nat.
Proof. exact at_most_once. Qed.
Print Assumptions C01_at_most_once.

(* A reply, fault or timer that arrives after completion has no further effect on the caller. *)
Theorem C01_late_arrivals_inert : forall r t ls ls' s s' x, 0 < r ->
  run r (init t) ls = Some s -> done s = [x] -> run r s ls' = Some s' -> done s' = [x].
Proof.
  intros r t ls ls' s s' x Hr H D H'.
  exact (run_done_inert r Hr ls' s s' x (run_inv r Hr ls _ _ (inv_init r t) H) H' D).
Qed.
Print Assumptions C01_late_arrivals_inert.

(* TimeoutError is never delivered before t0 + T (whichever path produced it: the timeout sink's timer, its
   expired-on-entry path, a transport's own timeout, or DispatchMethodCall's outer timer). *)
Theorem C01_timeout_not_early : forall r t ls s tc, 0 < r ->
  run r (init t) ls = Some s -> In (tc, MTimeout) (done s) -> t0 s + tmo s <= tc.
Proof. exact timeout_not_early. Qed.
Print Assumptions C01_timeout_not_early.

(* ... and the timer path is consistent with that guard: when the timer action runs, the deadline has passed. *)
Theorem C01_timer_fires_after_deadline : forall r t ls s s', 0 < r ->
  run r (init t) ls = Some s -> step r s Fire = Some s' -> t0 s' + tmo s' <= now s' /\ ph s' = Live.
Proof.
  intros r t ls s s' Hr H F. exact (fire_consistent r s s' Hr (run_inv r Hr ls _ _ (inv_init r t) H) F).
Qed.
Print Assumptions C01_timer_fires_after_deadline.

(* Deadline, for every issued call (on an open client or before the open completed), when responses are
   drained completely (no sink raises or swallows a response): once the clock has reached the rounded deadline
   and the timer queue has no due action left for this call (neither the timeout sink's timer nor
   DispatchMethodCall's), the call has completed - whatever else happened. *)
Theorem C01_deadline : forall r t cs s, 0 < r ->
  crun r (init t) cs = Some s -> ph s <> NotIssued ->
  ceil_r r (t0 s + tmo s) <= now s -> fire_enabled s = false -> ofire_enabled s = false -> done s <> [].
Proof. exact deadline_met. Qed.
Print Assumptions C01_deadline.

(* ... and if the timer queue serves due actions before the clock moves on (C10), every completion time is
   at most t0 + T rounded up to the resolution. *)
Theorem C01_completes_by_rounded_deadline : forall r t cs s tc m, 0 < r ->
  prompt r (init t) cs -> crun r (init t) cs = Some s -> In (tc, m) (done s) -> tc <= ceil_r r (t0 s + tmo s).
Proof. exact completes_on_time. Qed.
Print Assumptions C01_completes_by_rounded_deadline.

(* A call that already timed out while it waited for Open() is not dispatched when Open() completes: no frame
   is pushed, no timer is armed, the caller's result is untouched. *)
Theorem C01_no_dispatch_after_open_timeout : forall r t ls s s', 0 < r ->
  run r (init t) ls = Some s -> ph s = WaitOpen -> done s <> [] -> step r s OpenDone = Some s' ->
  stack s' = [] /\ tmr s' = TNone /\ done s' = done s.
Proof. intros r t ls s s' _ _ P D H. exact (opendone_no_dispatch r s s' P D H). Qed.
Print Assumptions C01_no_dispatch_after_open_timeout.

(* Coarse runs are runs of the fine-grained model, so the first four theorems apply to them as well. *)
Theorem C01_coarse_refines_fine : forall r cs s s', crun r s cs = Some s' -> run r s (expand_all r s cs) = Some s'.
Proof. exact crun_refines. Qed.
Print Assumptions C01_coarse_refines_fine.

(* The call issued before the client finished opening is now bounded because DispatchMethodCall arms a timer
   of its own.  T = 2 issued at 0 before the open completes: the outer timer completes the caller at 2; when
   the open completes at 100 the call is not dispatched (empty stack, no timer) and nothing changes for the
   caller.  The trace is prompt, and the hypotheses of C01_deadline hold in its final state. *)
Example C01_example_issued_before_open :
  exists s, crun 1 (init 0) [CIssue 2 false; CTick 2; COFire; CTick 100; COpenDone] = Some s
            /\ done s = [(2, MTimeout)] /\ otmr s = TFired /\ ph s = Live /\ stack s = [] /\ tmr s = TNone
            /\ fire_enabled s = false /\ ofire_enabled s = false
            /\ prompt 1 (init 0) [CIssue 2 false; CTick 2; COFire; CTick 100; COpenDone].
Proof.
  eexists. split; [vm_compute; reflexivity|]. repeat (split; [reflexivity|]).
  vm_compute. intuition discriminate.
Qed.
(* ... and one where the open completes first (cancelling the outer timer and dispatching the call) and the
   timeout sink's timer fires: the inner result completes the caller at the deadline. *)
Example C01_example_open_then_timeout :
  exists s1 s, crun 1 (init 0) [CIssue 8 false; CTick 3; COpenDone] = Some s1
            /\ otmr s1 = TCancelled /\ tmr s1 = TArmed 8 /\ stack s1 = [FTimeout; FResp]
            /\ crun 1 s1 [CPush; CTick 8; CFire] = Some s
            /\ done s = [(8, MTimeout)] /\ tmr s = TFired /\ otmr s = TCancelled /\ stack s = []
            /\ prompt 1 (init 0) [CIssue 8 false; CTick 3; COpenDone; CPush; CTick 8; CFire].
Proof.
  eexists. eexists. split; [vm_compute; reflexivity|]. do 3 (split; [reflexivity|]).
  split; [vm_compute; reflexivity|]. do 4 (split; [reflexivity|]).
  vm_compute. intuition discriminate.
Qed.

(* Non-vacuity: a call that times out through the timer with two lower frames on its stack, then gets a late
   reply; and one that completes with a value first. *)
Example C01_example_timeout :
  exists s, crun 4 (init 10) [CIssue 7 true; CPush; CPush; CTick 20; CFire; CDrain MValue; CTick 30] = Some s
            /\ done s = [(20, MTimeout)]
            /\ prompt 4 (init 10) [CIssue 7 true; CPush; CPush; CTick 20; CFire; CDrain MValue; CTick 30].
Proof.
  eexists. split; [vm_compute; reflexivity|]. split; [reflexivity|].
  vm_compute. intuition discriminate.
Qed.
Example C01_example_value :
  exists s, crun 1 (init 0) [CIssue 5 true; CPush; CTick 3; CDrain MValue; CTick 9] = Some s
            /\ done s = [(3, MValue)] /\ tmr s = TCancelled.
Proof. eexists. split; [vm_compute; reflexivity|]. split; reflexivity. Qed.
