(* C01 - Every call completes exactly once, no later than its deadline.
   Statements only; proofs in Proofs/CallLifeP.v.  The model (Model/CallLife.v) is the life of one call above
   the balancer; every sink below the timeout sink, every connection, server and the server set are an
   arbitrary environment (labels Push / Pop), so each theorem holds "whatever the servers, the connections
   and the server set do".  Time is in integer ticks; r > 0 is the timer queue's resolution. *)
From Scales Require Import Model.Base Model.CallLife Proofs.CallLifeP.
Local Open Scope Z_scope.

(* The caller's result is completed at most once, for every sequence of labels (fine-grained: any number of
   replies, faults, duplicates, partial drains, timer firings, in any order). *)
Theorem C01_at_most_once : forall r t ls s, 0 < r ->
  run r (init t) ls = Some s -> (length (done s) <= 1)%nat.
Proof. exact at_most_once. Qed.
Print Assumptions C01_at_most_once.

(* A reply, fault or timer that arrives after completion has no further effect on the caller. *)
Theorem C01_late_arrivals_inert : forall r t ls ls' s s' x, 0 < r ->
  run r (init t) ls = Some s -> done s = [x] -> run r s ls' = Some s' -> done s' = [x].
Proof.
  intros r t ls ls' s s' x Hr H D H'.
  exact (run_done_inert r Hr ls' s s' x (run_inv r Hr ls _ _ (inv_init r t) H) H' D).
Qed.
Print Assumptions C01_late_arrivals_inert.

(* TimeoutError is never delivered before t0 + T (whichever path produced it). *)
Theorem C01_timeout_not_early : forall r t ls s tc, 0 < r ->
  run r (init t) ls = Some s -> In (tc, MTimeout) (done s) -> t0 s + tmo s <= tc.
Proof. exact timeout_not_early. Qed.
Print Assumptions C01_timeout_not_early.

(* ... and the timer path is consistent with that guard: when the timer action runs, the deadline has passed. *)
Theorem C01_timer_fires_after_deadline : forall r t ls s s', 0 < r ->
  run r (init t) ls = Some s -> step r s Fire = Some s' -> t0 s' + tmo s' <= now s' /\ ph s' = Live.
Proof.
  intros r t ls s s' Hr H F. exact (fire_consistent r s s' Hr (run_inv r Hr ls _ _ (inv_init r t) H) F).
Qed.
Print Assumptions C01_timer_fires_after_deadline.

(* Deadline, for calls issued on an open client, when responses are drained completely (no sink raises or
   swallows a response): once the clock has reached the rounded deadline and the timer queue has no due action
   left for this call, the call has completed - whatever else happened. *)
Theorem C01_deadline_partial : forall r t cs s, 0 < r -> opened_only cs ->
  crun r (init t) cs = Some s -> ph s = Live ->
  ceil_r r (t0 s + tmo s) <= now s -> fire_enabled s = false -> done s <> [].
Proof. exact deadline_met. Qed.
Print Assumptions C01_deadline_partial.

(* ... and if the timer queue serves due actions before the clock moves on (C10), every completion time is
   at most t0 + T rounded up to the resolution. *)
Theorem C01_completes_by_rounded_deadline_partial : forall r t cs s tc m, 0 < r -> opened_only cs ->
  prompt r (init t) cs -> crun r (init t) cs = Some s -> In (tc, m) (done s) -> tc <= ceil_r r (t0 s + tmo s).
Proof. exact completes_on_time. Qed.
Print Assumptions C01_completes_by_rounded_deadline_partial.

(* Coarse runs are runs of the fine-grained model, so the first four theorems apply to them as well. *)
Theorem C01_coarse_refines_fine : forall r cs s s', crun r s cs = Some s' -> run r s (expand_all r s cs) = Some s'.
Proof. exact crun_refines. Qed.
Print Assumptions C01_coarse_refines_fine.

(* The full statement (without "issued on an open client") is FALSE of the faithful model, as it is of the
   code: a call issued while the client is still opening is chained behind the open result with no timer
   (dispatch.py DispatchMethodCall), so it is not bounded by t0 + T.  Witness: T = 2 issued at 0 before the
   open completes, clock at 100: still not completed, nothing due.  Replayed on the implementation this is
   known finding C01/late-completion/issued-before-open. *)
Theorem C01_deadline_refuted : exists cs s,
  crun 1 (init 0) cs = Some s /\ ph s <> NotIssued /\ ceil_r 1 (t0 s + tmo s) <= now s /\
  fire_enabled s = false /\ done s = [].
Proof.
  exists [CIssue 2 false; CTick 100]. eexists. split; [vm_compute; reflexivity|].
  repeat split; vm_compute; congruence.
Qed.
Print Assumptions C01_deadline_refuted.

(* Non-vacuity: a call that times out through the timer with two lower frames on its stack, then gets a late
   reply; and one that completes with a value first. *)
Example C01_example_timeout :
  exists s, crun 4 (init 10) [CIssue 7 true; CPush; CPush; CTick 20; CFire; CDrain MValue; CTick 30] = Some s
            /\ done s = [(20, MTimeout)] /\ opened_only [CIssue 7 true; CPush; CPush; CTick 20; CFire; CDrain MValue; CTick 30].
Proof.
  eexists. split; [vm_compute; reflexivity|]. split; [reflexivity|].
  intros c H. cbn in H. repeat (destruct H as [H|H]; [subst c; split; [intros T; discriminate|discriminate]|]). contradiction.
Qed.
Example C01_example_value :
  exists s, crun 1 (init 0) [CIssue 5 true; CPush; CTick 3; CDrain MValue; CTick 9] = Some s
            /\ done s = [(3, MValue)] /\ tmr s = TCancelled.
Proof. eexists. split; [vm_compute; reflexivity|]. split; reflexivity. Qed.
