(* C07 - Watermark pool bounds concurrency, queues FIFO and never leaks capacity.
   Only statements here; proofs are in Proofs/WatermarkP.v.  Every theorem quantifies over every configuration
   (min_watermark, max_watermark, max_queue_len) - the only hypotheses are the sign conditions written out -
   and over every label sequence `ls` (arrivals, completions of Open(), releases, time-outs of queued calls,
   runs of spawned _ProcessQueue greenlets in any order, connection state changes, pool Close/Open): no bound on
   length.  `reach cf ls = (st, tr)` : st is the model state after ls from the initial state, tr everything the
   pool did to its collaborators and callers.  Theorems about one `step` hold from every reachable state. *)
From Coq Require Import Sorted.
From Scales Require Import Model.Base Model.Watermark Proofs.WatermarkP.
Local Open Scope Z_scope.

(* The pool never controls more than max connections, and _current_size is exactly their number:
   held = lent ++ cached ++ being opened ++ waiting for a spawned hand-off. *)
Theorem C07_size : forall cf ls st tr,
  0 <= cmax cf -> reach cf ls = (st, tr) ->
  size st <= cmax cf /\ size st = zlen (held st) /\ zlen (held st) <= cmax cf.
Proof.
  intros cf ls st tr Hm H. destruct (reach_inv cf ls st tr Hm H) as [[A _ _ _ _] [R1 _ _ _ _ _]].
  cbn [app] in A. splits; auto. lia.
Qed.
Print Assumptions C07_size.

(* Every connection is in exactly one place (so it is lent to at most one call), no call holds two
   connections, and whenever the pool forwards a call on a connection, that connection was not lent before
   the step and is lent to exactly this call after it. *)
Theorem C07_exclusive : forall cf ls st tr,
  0 <= cmax cf -> reach cf ls = (st, tr) ->
  NoDup (held st) /\ NoDup (map fst (lent st)) /\ NoDup (map snd (lent st)) /\
  forall l st' ob c s, step cf st l = (st', ob) -> In (OForward c s) ob ->
    ~ In s (map fst (lent st)) /\ In (s, c) (lent st') /\ NoDup (map fst (lent st')).
Proof.
  intros cf ls st tr Hm H. pose proof (reach_inv cf ls st tr Hm H) as I. pose proof I as [[_ N _ _ _] _].
  cbn [app] in N. splits; auto.
  - unfold held in N. now apply nodup_app_l in N.
  - destruct (reach_calls cf ls st tr Hm H) as [K1 _].
    assert (Na : NoDup (active st)).
    { apply (NoDup_count_occ Z.eq_dec). intros c. specialize (K1 c). unfold cnt in K1. lia. }
    unfold active in Na. now apply nodup_app_l in Na.
  - intros l st' ob c s Hs Hi. destruct (forward_fresh _ _ _ _ _ _ _ _ I Hs Hi) as [F1 F2]. splits; auto.
    destruct (step_inv _ _ _ _ _ _ Hs I) as [[_ N' _ _ _] _]. cbn [app] in N'. unfold held in N'.
    now apply nodup_app_l in N'.
Qed.
Print Assumptions C07_exclusive.

(* At most max_queue_len calls are queued.  A request that finds no cached connection and all max
   connections in use is queued while there is room and otherwise fails at once, in the same step, with
   MaxWaitersError (expired waiters that no hand-off has passed yet still occupy their slot). *)
Theorem C07_queue : forall cf ls st tr,
  0 <= cmax cf -> 0 <= cmaxq cf -> reach cf ls = (st, tr) ->
  zlen (waiters st) <= cmaxq cf /\
  forall st' ob, cache st = [] -> cmax cf <= size st -> step cf st Req = (st', ob) ->
    (cmaxq cf <= zlen (waiters st) ->
       ob = [OError (ncall st) EMaxWaiters] /\ waiters st' = waiters st /\ lent st' = lent st /\ size st' = size st) /\
    (zlen (waiters st) < cmaxq cf ->
       ob = [] /\ waiters st' = waiters st ++ [(ncall st, true)] /\ lent st' = lent st /\ size st' = size st).
Proof.
  intros cf ls st tr Hm Hq H. destruct (reach_inv cf ls st tr Hm H) as [_ [_ _ R3 _ _ _]]. split; [lia|].
  intros st' ob Hc Hs Hst. split; intros Hw.
  - destruct (req_full_fails cf st st' ob Hc Hs ltac:(lia) Hst) as (E1 & E2 & E3 & E4 & _). auto.
  - destruct (req_room_enqueues cf st st' ob Hc Hs ltac:(lia) Hst) as (E1 & E2 & E3 & E4 & _). auto.
Qed.
Print Assumptions C07_queue.

(* The queue is kept in arrival order (call ids grow), later arrivals have larger ids than everybody queued,
   and a hand-off (a run of _ProcessQueue) starts exactly one call: the earliest waiter whose stack is still
   alive; everybody still queued afterwards arrived later. *)
Theorem C07_fifo : forall cf ls st tr,
  0 <= cmax cf -> reach cf ls = (st, tr) ->
  StronglySorted Z.lt (map fst (waiters st)) /\ Forall (fun c => c < ncall st) (map fst (waiters st)) /\
  forall k st' ob c s, step cf st (PQ k) = (st', ob) -> In (OForward c s) ob ->
    ob = [OForward c s] /\ In (c, true) (waiters st) /\
    (forall c', In (c', true) (waiters st) -> c <= c') /\ (forall w, In w (waiters st') -> c < fst w).
Proof.
  intros cf ls st tr Hm H. pose proof (reach_inv cf ls st tr Hm H) as I. pose proof I as [_ [_ _ _ R4 R5 _]].
  splits; auto. intros k st' ob c s Hs Hi. exact (fifo_step _ _ _ _ _ _ _ _ I Hs Hi).
Qed.
Print Assumptions C07_fifo.

(* Capacity is never leaked: _current_size counts exactly the connections that are lent, cached, being
   opened or pending in a hand-off; and in a pool that is not closed somebody waits (even an expired entry)
   only while all max connections are in use and none of them is idle in the cache. *)
Theorem C07_no_leak : forall cf ls st tr,
  0 <= cmax cf -> reach cf ls = (st, tr) ->
  size st = zlen (lent st) + zlen (cache st) + zlen (opening st) + zlen (pq st) /\
  (pstate st <> 4 -> waiters st <> [] -> size st = cmax cf /\ cache st = []).
Proof.
  intros cf ls st tr Hm H. destruct (reach_inv cf ls st tr Hm H) as [[A _ _ _ _] [_ _ _ _ _ R6]].
  cbn [app] in A. unfold held in A. rewrite !zlen_app, !zlen_map in A. split; [lia|exact R6].
Qed.
Print Assumptions C07_no_leak.

(* Hand-off (from any state, reachable or not):
   1. releasing a healthy connection of an open pool while the queue is non-empty spawns _ProcessQueue on it;
   2. that hand-off skips expired waiters and forwards the first live one on the released connection;
   3. if only expired waiters are left the connection is not lost: it is cached (size <= min) or closed and
      counted down, and the queue is emptied. *)
Theorem C07_handoff : forall cf st,
  (forall c s c' le' st' ob,
     extract (fun e : Z * Z => snd e =? c) (lent st) = Some ((s, c'), le') ->
     pstate st <> 4 -> sstate st s <> 4 -> waiters st <> [] -> step cf st (Resp c) = (st', ob) ->
     ob = [OSpawn s; ODone c] /\ pq st' = pq st ++ [s] /\ size st' = size st /\ waiters st' = waiters st) /\
  (forall k s pq' pre c post st' ob,
     extract_nth k (pq st) = Some (s, pq') -> waiters st = pre ++ (c, true) :: post -> Forall dead_w pre ->
     step cf st (PQ k) = (st', ob) ->
     ob = [OForward c s] /\ lent st' = lent st ++ [(s, c)] /\ waiters st' = post /\ size st' = size st /\ pq st' = pq') /\
  (forall k s pq' st' ob,
     extract_nth k (pq st) = Some (s, pq') -> Forall dead_w (waiters st) -> pstate st <> 4 -> sstate st s <> 4 ->
     step cf st (PQ k) = (st', ob) ->
     waiters st' = [] /\ pq st' = pq' /\
     (size st <= cmin cf -> ob = [] /\ cache st' = cache st ++ [s] /\ size st' = size st) /\
     (cmin cf < size st -> ob = [OClose s] /\ cache st' = cache st /\ size st' = size st - 1)).
Proof.
  intros cf st. splits.
  - intros c s c' le' st' ob Ex Hp Hs Hw Hst.
    destruct (release_spawns _ _ _ _ _ _ _ _ Ex Hp Hs Hw Hst) as (E1 & E2 & E3 & E4 & _). auto.
  - intros k s pq' pre c post st' ob Ex Ew F Hst.
    destruct (handoff_live _ _ _ _ _ _ _ _ _ _ Ex Ew F Hst) as (E1 & E2 & E3 & E4 & E5 & _). splits; auto.
  - intros k s pq' st' ob Ex F Hp Hs Hst.
    destruct (handoff_all_dead _ _ _ _ _ _ _ Ex F Hp Hs Hst) as (E1 & E2 & _ & E4 & E5). auto.
Qed.
Print Assumptions C07_handoff.

(* At most min connections are cached; when traffic has stopped (nothing lent, opening or pending) the pool
   retains exactly its cache, hence at most min connections; and every connection ever created is still held
   by the pool, was closed by it, or was `Dropped` (returned to an already closed pool or found dead on
   release: counted down without Close()). *)
Theorem C07_retention : forall cf ls st tr,
  0 <= cmax cf -> 0 <= cmin cf -> reach cf ls = (st, tr) ->
  zlen (cache st) <= cmin cf /\
  (lent st = [] -> opening st = [] -> pq st = [] -> held st = cache st /\ size st = zlen (cache st) /\ size st <= cmin cf) /\
  (forall s, In (OCreate s) tr -> In s (held st) \/ In (OClose s) tr \/ In (ODropped s) tr).
Proof.
  intros cf ls st tr Hm Hn H. destruct (reach_inv cf ls st tr Hm H) as [[A _ _ NN G] [_ R2 _ _ _ _]].
  cbn [app] in A, G. split; [lia|]. split.
  - intros E1 E2 E3. unfold held in *. rewrite E1, E2, E3 in *. cbn [map app] in *. rewrite app_nil_r in *.
    split; [reflexivity|]. split; lia.
  - intros s Hc. apply G. apply (run_created cf ls init [] st tr H); cbn; auto; try lia; intros x [].
Qed.
Print Assumptions C07_retention.

(* Every call is answered at most once (response, MaxWaitersError, ServiceClosedError or time-out), a call
   the pool still owes an answer (holding a connection, queued with a live stack, blocked in Open()) has not
   been answered yet, and no call is in two of those places. *)
Theorem C07_once : forall cf ls st tr,
  0 <= cmax cf -> reach cf ls = (st, tr) ->
  (forall c, (nterm c tr <= 1)%nat) /\ (forall c, In c (active st) -> nterm c tr = 0%nat) /\ NoDup (active st).
Proof.
  intros cf ls st tr Hm H. destruct (reach_calls cf ls st tr Hm H) as [K1 _]. splits.
  - intros c. specialize (K1 c). lia.
  - intros c Hi. specialize (K1 c). unfold cnt in K1.
    assert (count_occ Z.eq_dec (active st) c > 0)%nat by (now apply count_occ_In). lia.
  - apply (NoDup_count_occ Z.eq_dec). intros c. specialize (K1 c). unfold cnt in K1. lia.
Qed.
Print Assumptions C07_once.

(* A connection found dead when it is released closes the pool, and in that very step every waiter whose
   stack is still alive - and nobody else - is failed with ServiceClosedError, exactly once; all waiters are
   dead afterwards (with C07_once: never answered again), and closing a pool whose waiters are all dead
   fails nobody. *)
Theorem C07_dead_on_release : forall cf ls st tr c s c' le' st' ob,
  0 <= cmax cf -> reach cf ls = (st, tr) ->
  extract (fun e : Z * Z => snd e =? c) (lent st) = Some ((s, c'), le') ->
  pstate st <> 4 -> sstate st s = 4 -> step cf st (Resp c) = (st', ob) ->
  pstate st' = 4 /\ size st' = size st - 1 /\
  (forall w k, In (OError w k) ob <-> k = EServiceClosed /\ In (w, true) (waiters st)) /\
  (forall w, In (w, true) (waiters st) -> nterm w ob = 1%nat) /\
  Forall dead_w (waiters st') /\
  (forall st2 ob2, step cf st' ClosePool = (st2, ob2) -> forall w k, ~ In (OError w k) ob2).
Proof.
  intros cf ls st tr c s c' le' st' ob Hm H Ex Hp Hs Hst.
  destruct (dead_release_closes _ _ _ _ _ _ _ _ Ex Hp Hs Hst) as (E1 & E2 & E3 & E4 & _).
  destruct (extract_spec _ _ _ _ Ex) as (l1 & l2 & El & _ & Pc & _). cbn in Pc. apply Z.eqb_eq in Pc. subst c'.
  splits; auto.
  - intros w k. subst ob. split.
    + intros [Hi|Hi]; [discriminate|]. apply in_app_or in Hi as [Hi|[Hi|[]]]; [|discriminate].
      apply in_app_or in Hi as [Hi|Hi]; [apply in_map_iff in Hi as (x & E & _); discriminate|].
      now apply in_fail_obs in Hi.
    + intros Hi. right. apply in_or_app. left. apply in_or_app. right. now apply in_fail_obs.
  - intros w Hw. destruct (reach_calls cf ls st tr Hm H) as [K1 _]. specialize (K1 w).
    assert (L1 : (1 <= cnt w (live (waiters st)))%nat).
    { clear - Hw. induction (waiters st) as [|[x a] r IH]; [contradiction|]. destruct Hw as [E|Hw].
      - inversion E; subst. rewrite live_cons_true, cnt_cons. destruct (Z.eq_dec w w); [lia|congruence].
      - specialize (IH Hw). destruct a; [rewrite live_cons_true, cnt_cons; destruct (Z.eq_dec x w); lia|exact IH]. }
    unfold active in K1. rewrite El, map_app, !cnt_app in K1. cbn [map snd] in K1. rewrite cnt_cons in K1.
    subst ob. change (ODropped s :: (map OClose (cache st) ++ fail_obs (waiters st)) ++ [ODone c])
      with ([ODropped s] ++ (map OClose (cache st) ++ fail_obs (waiters st)) ++ [ODone c]).
    rewrite !nterm_app, nterm_close, nterm_fail, !nterm_one. cbn [is_term].
    destruct (Z.eq_dec c w); destruct (Z.eqb_spec c w); try congruence; lia.
  - rewrite E3. apply kill_dead.
  - intros st2 ob2 Hc w k Hi. cbn [step] in Hc. pose proof (close_pool_obs st') as Ho. rewrite Hc in Ho. cbn in Ho.
    subst ob2. rewrite E3, fail_obs_kill, app_nil_r in Hi. apply in_map_iff in Hi as (x & E & _). discriminate.
Qed.
Print Assumptions C07_dead_on_release.

(* Open() on a pool that is already Closed (its deferred _OpenImpl greenlet starts only after Close()) fails at once:
   no connection is created or opened, nothing is closed, and the pool's state is untouched - so a closed pool makes
   no connect attempt (the part of C09's "no reconnection attempts after close" that lives in the pool). *)
Theorem C07_closed_pool_open_inert : forall cf ls st tr,
  0 <= cmax cf -> reach cf ls = (st, tr) -> pstate st = 4 ->
  step cf st OpenPool = (st, [OOpenResult false]).
Proof. intros cf ls st tr _ _ Hc. cbn [step]. now rewrite Hc. Qed.
Print Assumptions C07_closed_pool_open_inert.

(* ---- non-vacuity: a concrete history exercising queueing, MaxWaitersError, a time-out while queued, the
   hand-off that skips the expired waiter, and (second example) a dead connection on release. *)
Definition cf112 : config := {| cmin := 1; cmax := 1; cmaxq := 2 |}.

Example C07_nonvacuous_handoff :
  snd (reach cf112 [Req; OpenDone 0; Req; Req; Req; Expire 1; Resp 0; PQ 0; Resp 2]) =
  [OCreate 0; OForward 0 0; OError 3 EMaxWaiters; OError 1 ETimeout; OSpawn 0; ODone 0; OForward 2 0; ODone 2]
  /\ cache (fst (reach cf112 [Req; OpenDone 0; Req; Req; Req; Expire 1; Resp 0; PQ 0; Resp 2])) = [0].
Proof. vm_compute. split; reflexivity. Qed.

Example C07_nonvacuous_dead_release :
  let st := fst (reach cf112 [Req; OpenDone 0; Req; Req; Expire 1; SinkState 0 4]) in
  extract (fun e : Z * Z => snd e =? 0) (lent st) = Some ((0, 0), []) /\ pstate st <> 4 /\ sstate st 0 = 4 /\
  snd (step cf112 st (Resp 0)) = [ODropped 0; OError 2 EServiceClosed; ODone 0].
Proof. vm_compute. splits; try reflexivity. discriminate. Qed.

Example C07_nonvacuous_open_after_close :
  snd (reach cf112 [ClosePool; OpenPool]) = [OOpenResult false] /\ nsink (fst (reach cf112 [ClosePool; OpenPool])) = 0.
Proof. vm_compute. split; reflexivity. Qed.
