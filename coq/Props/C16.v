(* C16 - Singleton pool and shared sinks keep one connection, opened and closed once.
   Only statements here; proofs are in Proofs/SingletonP.v.  `pre` is an arbitrary history (label
   sequence) from the initial state: every theorem holds after every history, for every next label and
   for every continuation; there is no bound on lengths, on the number of requests blocked at the same
   time, on the order in which they are resumed, or on where faults and closes fall. *)
From Scales Require Import Model.Base Model.RefCount Model.Shared Model.Singleton Proofs.SingletonP.

(* ---- SingletonPoolSink -------------------------------------------------------------------------- *)

(* At most one underlying sink is created-and-not-closed at any time; if there is one it is the pool's
   next_sink; and a sink is created only in a state where none is alive (it gets a fresh index). *)
Theorem C16_at_most_one : forall pre,
  let s := fst (run init pre) in
  (live_count s <= 1)%nat /\
  (forall n, live s n -> next s = Some n) /\
  (forall l m, In (Create m) (snd (step s l)) -> live_count s = 0%nat /\ m = length (sinks s)).
Proof.
  intros pre s. assert (I : inv s) by (apply run_inv, inv_init).
  split; [apply inv_live_count, I|]. split; [intros n; apply inv_live_next, I|].
  intros l m H. destruct (step_create _ _ _ I H) as (AC & E). split; [apply allclosed_count, AC | exact E].
Qed.
Print Assumptions C16_at_most_one.

(* Sharing, for every schedule: as long as sink n stays alive (from the state after `pre` to the end of
   any continuation `ls` - requests, pool opens/closes, late starts of Open's greenlet, resumes in any order...), no other sink is
   created and every request that is forwarded, at once or after having waited, is forwarded to n.
   In particular concurrent first requests all use the sink created by the first. *)
Theorem C16_share : forall pre ls n,
  let s := fst (run init pre) in
  live s n -> live (fst (run s ls)) n ->
  forall os o, In os (snd (run s ls)) -> In o os ->
    (forall m, o <> Create m) /\ (forall c m, o = Forward c m -> m = n).
Proof. intros pre ls n s. apply run_share. apply run_inv, inv_init. Qed.
Print Assumptions C16_share.

(* ... and requests are indeed served by it (in every state s, reachable or not): an open sink gets the
   request at once, also while it reports Busy (it is not replaced); while it is opening the request joins the same open (no Create) and waits; a
   waiting request whose open has completed is forwarded to the pool's sink when it is resumed. *)
Theorem C16_share_requests : forall s n f,
  next s = Some n ->
  (nth_error (sinks s) n = Some SOpen \/ nth_error (sinks s) n = Some SBusy ->
     step s (Req f) = (bump s, [Forward (ntask s) n])) /\
  (nth_error (sinks s) n = Some SIdle ->
     step s (Req f) = (set_waiting (bump s) (waiting s ++ [mkTask (ntask s) KReq n]), [OpenUnder n])) /\
  (forall t tk, find_task t (waiting s) = Some tk -> t_kind tk = KReq ->
     nth_error (sinks s) (t_sink tk) <> Some SIdle -> snd (step s (Resume t)) = [Forward t n]).
Proof.
  intros s n f Hn. split; [apply req_shares_open, Hn|]. split; [apply req_joins_opening, Hn|].
  intros t tk Hf Hk Hs. eapply resume_forwards; eauto.
Qed.
Print Assumptions C16_share_requests.

(* Replacement: when sink n is dead (closed by a fault, a failed open or Close), the next request
   (a) creates exactly one fresh sink L <> n, makes it the pool's sink and waits for its open - when n
       was the pool's sink or the pool had none;
   (b) in every case says nothing about n, and no later step of any continuation ever creates, opens,
       closes or forwards to n again: the dead sink is never used again. *)
Theorem C16_replace : forall pre n,
  let s := fst (run init pre) in
  closed s n ->
  (next s = Some n \/ next s = None ->
     let L := length (sinks s) in
     let s' := fst (step s (Req CIdle)) in
     snd (step s (Req CIdle)) = [Create L; OpenUnder L] /\ next s' = Some L /\ L <> n /\
     live s' L /\ In (mkTask (ntask s) KReq L) (waiting s')) /\
  (forall f o, In o (snd (step s (Req f))) -> obs_sink o <> Some n) /\
  (forall f ls os o, In os (snd (run (fst (step s (Req f))) ls)) -> In o os -> obs_sink o <> Some n).
Proof.
  intros pre n s Hc. split; [|split].
  - intros Hn. cbn zeta.
    assert (H : next s = None \/ exists k, next s = Some k /\ closed s k) by (destruct Hn; eauto).
    destruct (req_replaces s H) as (Eo & En & Es & Ew). cbn zeta in *.
    pose proof (nth_error_lt _ _ _ Hc) as Hlt.
    split; [exact Eo|]. split; [exact En|]. split; [lia|]. split.
    + exists SIdle. split; [|discriminate]. rewrite Es. apply nth_error_snoc_new.
    + rewrite Ew. apply in_app_iff. right. left. reflexivity.
  - intros f o. apply req_silent_closed, Hc.
  - intros f ls os o. apply run_retired_silent. apply req_retires, Hc.
Qed.
Print Assumptions C16_replace.

(* The pool's own holders: its count is the number of Open() calls minus the number of Close() calls of
   the history, and the pool closes its connection only inside a Close() call that leaves no more Opens
   than Closes: a connection is never closed while a holder that opened and has not closed is alive. *)
Theorem C16_pool_holders : forall pre l n,
  let s := fst (run init pre) in
  refc s = balance pre /\
  (In (CloseUnder n) (snd (step s l)) -> l = ClosePool /\ (balance (pre ++ [l]) <= 0)%Z /\ next s = Some n).
Proof.
  intros pre l n s. assert (R : refc s = balance pre) by (unfold s; rewrite run_refc; cbn; lia).
  split; [exact R|]. intros H. apply step_closeunder in H as (-> & Hle & Hn).
  split; [reflexivity|]. split; [|exact Hn].
  unfold balance in *. rewrite !filter_app, !app_length. cbn. lia.
Qed.
Print Assumptions C16_pool_holders.

(* ---- RefCountedSink ----------------------------------------------------------------------------- *)

(* After every history of Open/Close/requests by any holders and of state changes of the underlying sink
   (REnv: it faults, reports Closed, ... - Open/Close do not look at it), for every next call:
   the underlying Open is called exactly at the 0 -> 1 transition, the underlying Close exactly at the
   1 -> 0 transition, a Close at count 0 changes nothing and calls nothing, every Open returns the
   result of the underlying open in force, and over the whole history
   #Close_under <= #Open_under <= #Close_under + 1, the difference being 1 exactly while the count is > 0. *)
Theorem C16_refcount : forall pre l,
  let s := fst (rrun rinit pre) in
  let os := snd (rrun rinit pre) in
  (0 <= cnt s)%Z /\
  (forall a, In (UOpen a) (snd (rstep s l)) <-> (exists h, l = ROpen h) /\ cnt s = 0%Z /\ a = nopen s) /\
  (In UClose (snd (rstep s l)) <-> (exists h, l = RClose h) /\ cnt s = 1%Z) /\
  (forall h, cnt s = 0%Z -> rstep s (RClose h) = (s, [])) /\
  (forall h, exists a, In (URet (Some a)) (snd (rstep s (ROpen h))) /\
                       (cnt s = 0%Z -> a = nopen s) /\ ((0 < cnt s)%Z -> ar s = Some a)) /\
  (count_uclose os <= count_uopen os <= count_uclose os + 1)%Z /\
  (count_uopen os = count_uclose os + 1 <-> 0 < cnt s)%Z.
Proof.
  intros pre l s os. assert (I : rinv s) by (apply rrun_inv, rinv_init).
  pose proof (rrun_balance rinit pre rinv_init) as B. fold s os in B. unfold busy in B. cbn [rinit cnt] in B.
  destruct I as (H0 & Hz & Hp).
  split; [exact H0|]. split; [intros a; apply rstep_uopen|]. split; [apply rstep_uclose|].
  split; [intros h; apply rstep_surplus_close|]. split.
  - intros h. destruct (rstep_open_ret s h (conj H0 (conj Hz Hp))) as (a & Ha & _ & Hb & Hc). eauto.
  - change (0 <? 0)%Z with false in B. destruct (Z.ltb_spec 0 (cnt s)); split; lia.
Qed.
Print Assumptions C16_refcount.

(* Holders: when every holder closes only what it opened - except for surplus closes while nobody holds
   the sink - the count is the number of holders, the underlying sink is closed only by the close of the
   last holder and opened only by a holder arriving when there is none. *)
Theorem C16_refcount_holders : forall pre l,
  wellbehaved [] (pre ++ [l]) ->
  let s := fst (rrun rinit pre) in
  let held := hrun [] pre in
  cnt s = Z.of_nat (length held) /\
  (In UClose (snd (rstep s l)) -> exists h, l = RClose h /\ held = [h]) /\
  (forall a, In (UOpen a) (snd (rstep s l)) -> held = []) /\
  (held <> [] -> ar s <> None).
Proof.
  intros pre l W s held. apply wellbehaved_app in W as (W1 & W2).
  assert (I : rinv s) by (apply rrun_inv, rinv_init).
  assert (C : cnt s = Z.of_nat (length held)) by (apply hrun_cnt; [apply rinv_init | reflexivity | exact W1]).
  split; [exact C|]. split; [|split].
  - intros H. apply rstep_uclose in H as ((h & ->) & Hc). exists h. split; [reflexivity|].
    cbn [wellbehaved] in W2. fold held in W2. destruct W2 as ([Hin|Hnil] & _).
    + destruct held as [|x [|y r]]; cbn [length] in C; try lia. destruct Hin as [->|[]]. reflexivity.
    + rewrite Hnil in C. cbn in C. lia.
  - intros a H. apply rstep_uopen in H as (_ & Hc & _). destruct held; [reflexivity | cbn [length] in C; lia].
  - intros Hne. destruct I as (_ & _ & Hp). rewrite Hp; [discriminate|].
    destruct held; [contradiction | cbn [length] in C; lia].
Qed.
Print Assumptions C16_refcount_holders.

(* ---- SharedSinkProvider ------------------------------------------------------------------------- *)

(* After every history of CreateSink/DropHolder/SEnv (the underlying sinks fault, close, re-open: CreateSink
   does not look at their state): while any holder r of a (truthy) key is alive,
   CreateSink for that key returns the very sink r holds and creates no underlying sink; a holder stays
   alive until it is dropped itself; holders of different keys hold different sinks; and a key nobody
   holds (or a falsy key) gets a fresh underlying sink. *)
Theorem C16_same_key : forall pre,
  let s := fst (shrun shinit pre) in
  (forall r, In r (refs s) -> r_key r <> 0%Z ->
     snd (shstep s (SCreate (r_key r))) = [SRet (r_sink r) true]) /\
  (forall r l, In r (refs s) -> l <> SDrop (r_id r) -> In r (refs (fst (shstep s l)))) /\
  (forall r1 r2, In r1 (refs s) -> In r2 (refs s) -> r_key r1 <> 0%Z -> r_key r2 <> 0%Z ->
     r_sink r1 = r_sink r2 -> r_key r1 = r_key r2) /\
  (forall k, (forall r, In r (refs s) -> r_key r <> k) ->
     snd (shstep s (SCreate k)) = [SUnder (nsink s); SRet (nsink s) (negb (Z.eqb k 0))]).
Proof.
  intros pre s. assert (I : shinv s) by (apply shrun_inv, shinv_init).
  split; [intros r; apply shstep_same_key, I|]. split; [intros r l; apply shstep_keeps|].
  split; [intros r1 r2; apply shinv_keys_apart, I | intros k; apply shstep_fresh, I].
Qed.
Print Assumptions C16_same_key.

(* ---- non-vacuity -------------------------------------------------------------------------------- *)
(* three concurrent first requests, the open completes, they are resumed in the order 2,0,1, a fourth
   request follows: one Create, every Forward to sink 0; sink 0 is alive before and after (the
   hypotheses of C16_share are satisfiable) *)
Example C16_example_concurrent :
  snd (run init [Req CIdle; Req CIdle; Req CIdle; OpenDone 0 true; Resume 2; Resume 0; Resume 1; Req CIdle])
  = [[Create 0; OpenUnder 0]; [OpenUnder 0]; [OpenUnder 0]; []; [Forward 2 0]; [Forward 0 0]; [Forward 1 0]; [Forward 3 0]]
  /\ live (fst (run init [Req CIdle])) 0
  /\ live (fst (run (fst (run init [Req CIdle])) [Req CIdle; Req CIdle; OpenDone 0 true; Resume 2; Resume 0; Resume 1; Req CIdle])) 0.
Proof.
  split; [vm_compute; reflexivity|]. split; [exists SIdle | exists SOpen]; (split; [vm_compute; reflexivity | discriminate]).
Qed.

(* a Busy connection is healthy: requests keep going to it, no second connection *)
Example C16_example_busy :
  snd (run init [Req CIdle; OpenDone 0 true; Resume 0; SetBusy 0 true; Req CIdle; Req CIdle; SetBusy 0 false; Req CIdle])
  = [[Create 0; OpenUnder 0]; []; [Forward 0 0]; []; [Forward 1 0]; [Forward 2 0]; []; [Forward 3 0]].
Proof. vm_compute; reflexivity. Qed.

(* sinks whose Open() completes inside the call: no waiting; a synchronously failed one is replaced by the next request *)
Example C16_example_sync_open :
  snd (run init [Req COpenNow; Req CIdle; Fault 0; Req CFailNow; Req COpenNow; Req CFail])
  = [[Create 0; OpenUnder 0; Forward 0 0]; [Forward 1 0]; [PoolFault]; [Create 1; OpenUnder 1; Forward 2 1];
     [Create 2; OpenUnder 2; Forward 3 2]; [Forward 4 2]].
Proof. vm_compute; reflexivity. Qed.

(* pool.Open() whose greenlet starts only after a request has created the sink: it joins that open *)
Example C16_example_late_start :
  snd (run init [OpenPool; Req CIdle; Start 0 CIdle; OpenPool; OpenDone 0 true; Resume 0; Resume 1; ClosePool; ClosePool; Req CIdle])
  = [[]; [Create 0; OpenUnder 0]; [OpenUnder 0]; [OpenResult 2 true]; []; [OpenResult 0 true]; [Forward 1 0]; []; [CloseUnder 0];
     [Create 1; OpenUnder 1]].
Proof. vm_compute; reflexivity. Qed.

(* fault, replacement, the dead sink is left alone (hypothesis of C16_replace: sink 0 closed) *)
Example C16_example_replace :
  snd (run init [Req CIdle; OpenDone 0 true; Resume 0; Fault 0; Req CIdle; Req CIdle; OpenDone 1 true; Resume 2; Resume 1])
  = [[Create 0; OpenUnder 0]; []; [Forward 0 0]; [PoolFault]; [Create 1; OpenUnder 1]; [OpenUnder 1]; []; [Forward 2 1]; [Forward 1 1]]
  /\ closed (fst (run init [Req CIdle; OpenDone 0 true; Resume 0; Fault 0])) 0.
Proof. split; vm_compute; reflexivity. Qed.

(* ref counting with two holders, the connection failing while both hold it, and a surplus close
   (a well-behaved history) *)
Example C16_example_refcount :
  snd (rrun rinit [ROpen 1; ROpen 2; REnv 4; RClose 1; RClose 2; RClose 2; ROpen 3])
  = [[UOpen 0; URet (Some 0)]; [URet (Some 0)]; []; []; [UClose]; []; [UOpen 1; URet (Some 1)]]%Z
  /\ wellbehaved [] [ROpen 1; ROpen 2; REnv 4; RClose 1; RClose 2; RClose 2; ROpen 3]%Z.
Proof. split; [vm_compute; reflexivity | cbn; intuition]. Qed.

(* same key while a holder lives, a new sink after the last holder is gone *)
Example C16_example_shared :
  snd (shrun shinit [SCreate 7; SCreate 7; SDrop 0; SEnv 0 4; SCreate 7; SDrop 1; SDrop 2; SCreate 7; SCreate 0])
  = [[SUnder 0; SRet 0 true]; [SRet 0 true]; []; []; [SRet 0 true]; []; []; [SUnder 1; SRet 1 true]; [SUnder 2; SRet 2 false]].
Proof. vm_compute; reflexivity. Qed.
