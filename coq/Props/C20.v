(* C20 - Generated proxies and URI parsing are faithful for every interface.
   Only statements here; proofs are in Proofs/ProxyP.v and Proofs/UriP.v.  The models (Model/Proxy.v,
   Model/Uri.v) transcribe scales.core.ClientProxyBuilder._BuildServiceProxy and ScalesUriParser.Parse and
   are compared with the real code on every run (Model/ProxyUri.v is the case type of that comparison).
   Every theorem quantifies over all interfaces (any list of members, any names), all argument lists, all
   dispatcher behaviours, all endpoint lists and all URIs: no bound on sizes. *)
From Coq Require Import ZifyBool String.
From Scales Require Import Model.Base Model.Proxy Model.Uri Model.ProxyUri Proofs.ProxyP Proofs.UriP.
Local Open Scope Z_scope.

(* What the caller of a generated method must get, given what DispatchMethodCall did. *)
Definition blocking_outcome (d : disp) (r : ret) : Prop :=
  match d with
  | DRaise e => r = Raises e                       (* the dispatcher's own error propagates *)
  | DPending _ (SValue v) => r = RetValue v        (* the call's value *)
  | DPending _ (SError e) => r = Raises e          (* the call's error *)
  end.
Definition async_outcome (d : disp) (r : ret) (gets : Z) : Prop :=
  match d with
  | DRaise e => r = Raises e
  | DPending p _ => r = RetPending p /\ gets = 0   (* the pending result itself, untouched *)
  end.

(* The code's notion of a method to proxy: a function or (bound) method whose own name neither starts
   nor ends with two underscores. *)
Theorem C20_user_method : forall m,
  is_user_method m = true <->
  (m_kind m = KFunction \/ m_kind m = KMethod)
  /\ ~ (exists t, m_fname m = dunder ++ t) /\ ~ (exists t, m_fname m = t ++ dunder).
Proof. exact is_user_method_spec. Qed.
Print Assumptions C20_user_method.

(* For every interface and every user method m that is not itself spelt n ++ "_async" for another user
   method n (and is not __init__ / the proxy's own _dispatcher field): the client has m and m_async, each
   hands (m, args, kwargs) to the dispatcher unchanged; the blocking form returns the value / raises the
   error, the _async form returns the pending result itself. *)
Theorem C20_both_forms : forall ms m args kwargs d,
  In m (user_names ms) -> m <> init_name -> m <> dispatcher_field ->
  (forall n, In n (user_names ms) -> n ++ async_suffix <> m) ->
  exists cs ca,
    probe_model ms (Probe m args kwargs d) = PCall cs /\
    probe_model ms (Probe (m ++ async_suffix) args kwargs d) = PCall ca /\
    (co_method cs, co_args cs, co_kwargs cs) = (m, args, kwargs) /\
    (co_method ca, co_args ca, co_kwargs ca) = (m, args, kwargs) /\
    blocking_outcome d (co_ret cs) /\ async_outcome d (co_ret ca) (co_gets ca).
Proof.
  intros ms m args kwargs d H Ni Nf Nc.
  exists (invoke (m, Sync) args kwargs d), (invoke (m, Async) args kwargs d).
  unfold probe_model. cbn [p_name p_args p_kwargs p_disp].
  rewrite (resolve_sync ms m H Ni Nf Nc), (resolve_async ms m H).
  repeat split; destruct d as [e|p [v|e]]; cbn; auto.
Qed.
Print Assumptions C20_both_forms.

(* The collision of section 10: when the interface declares both m and m ++ "_async", the name
   m_async is the generated async form of m (the user's m_async is no longer reachable in blocking form);
   its own async form m_async_async is still generated. *)
Theorem C20_collision : forall ms m,
  In m (user_names ms) -> In (m ++ async_suffix) (user_names ms) ->
  resolve ms (m ++ async_suffix) = RForward (m, Async) /\
  resolve ms ((m ++ async_suffix) ++ async_suffix) = RForward (m ++ async_suffix, Async).
Proof. intros ms m H1 H2. split; apply resolve_async; assumption. Qed.
Print Assumptions C20_collision.

(* Nothing else is intercepted: every generated method is the blocking form of a user method of that name
   or the async form of a user method; __init__ is never replaced, so the client can always be built. *)
Theorem C20_exact : forall ms n e,
  resolve ms n = RForward e ->
  (exists m, In m (user_names ms) /\ n = m ++ async_suffix /\ e = (m, Async))
  \/ (In n (user_names ms) /\ n <> init_name /\ n <> dispatcher_field /\ e = (n, Sync)).
Proof. exact resolve_forward. Qed.
Print Assumptions C20_exact.

Theorem C20_constructible : forall ms, ctor_ok ms = true.
Proof. exact ctor_always_ok. Qed.
Print Assumptions C20_constructible.

(* tcp: the rendered list of host:port pairs comes back exactly, in order - for every non-empty list, hosts
   of printable ASCII other than , : / # ? [ ], ports any natural number, scheme in any letter case. *)
Theorem C20_tcp : forall e s eps,
  map lower s = tcp_scheme -> eps <> [] ->
  Forall (fun ep => forallb host_char (fst ep) = true /\ 0 <= snd ep) eps ->
  parse_uri e (render_tcp_as s eps) = UTcp eps.
Proof.
  intros e s eps Hl Ne F. apply parse_render_tcp_as; try assumption. apply lower_tcp_valid. assumption.
Qed.
Print Assumptions C20_tcp.

(* zk://hosts/path#name yields (hosts, path, Some name); without #name the endpoint name is None. *)
Theorem C20_zk : forall e s hosts path name,
  map lower s = zk_scheme -> forallb netloc_char hosts = true ->
  forallb path_char path = true -> (path = [] \/ exists p, path = 47 :: p) ->
  match name with Some n => n <> [] /\ forallb safe_char n = true | None => True end ->
  parse_uri e (render_zk s hosts path name) = UZk hosts path name.
Proof.
  intros e s hosts path name Hl Hh Hp Hs Hn. apply parse_render_zk; try assumption.
  split; [assumption|]. destruct Hs as [E|(p & E)]; subst; [exact I|reflexivity].
Qed.
Print Assumptions C20_zk.

(* Any other scheme is rejected - whatever follows the colon, whatever the environment says. *)
Theorem C20_scheme : forall e s rest,
  valid_scheme s = true -> map lower s <> tcp_scheme -> map lower s <> zk_scheme ->
  rejected (parse_uri e (s ++ 58 :: rest)).
Proof. exact other_scheme_rejected_text. Qed.
Print Assumptions C20_scheme.

(* ... stated on what urlsplit itself takes the scheme to be (covers text with no valid scheme at all). *)
Theorem C20_scheme_general : forall e uri,
  let sch := fst (split_scheme (remove_unsafe (lstrip_c0 uri))) in
  sch <> tcp_scheme -> sch <> zk_scheme -> rejected (parse_uri e uri).
Proof. exact other_scheme_rejected. Qed.
Print Assumptions C20_scheme_general.

(* ---- non-vacuity ------------------------------------------------------------------------------ *)
Definition ex_iface : list member :=
  [Mem (zs "ping"%string) KFunction (zs "ping"%string); Mem (zs "__repr__"%string) KFunction (zs "__repr__"%string);
   Mem (zs "_get"%string) KMethod (zs "_get"%string); Mem (zs "size"%string) KOther []; Mem (zs "ping_async"%string) KFunction (zs "ping_async"%string)].

Example ex_user_names : user_names ex_iface = [zs "ping"%string; zs "_get"%string; zs "ping_async"%string].
Proof. vm_compute. reflexivity. Qed.

Example ex_both_forms_hyps :
  In (zs "_get"%string) (user_names ex_iface) /\ zs "_get"%string <> init_name /\ zs "_get"%string <> dispatcher_field /\
  (forall n, In n (user_names ex_iface) -> n ++ async_suffix <> zs "_get"%string).
Proof.
  repeat split; try (vm_compute; intuition discriminate).
  intros n H. vm_compute in H. destruct H as [H|[H|[H|[]]]]; subst; vm_compute; discriminate.
Qed.

Example ex_collision :
  resolve ex_iface (zs "ping_async"%string) = RForward (zs "ping"%string, Async) /\
  resolve ex_iface (zs "ping_async_async"%string) = RForward (zs "ping_async"%string, Async) /\
  resolve ex_iface (zs "__repr__"%string) = ROwn /\ resolve ex_iface (zs "size"%string) = ROwn /\
  resolve ex_iface (zs "nope"%string) = RMissing.
Proof. vm_compute. repeat split; reflexivity. Qed.

Definition ex_env : env := const_env true true.
Example ex_tcp :
  render_tcp [(zs "localhost"%string, 8080); (zs "10.0.0.2"%string, 0)] = zs "tcp://localhost:8080,10.0.0.2:0"%string /\
  parse_uri ex_env (zs "tcp://localhost:8080,10.0.0.2:0"%string) = UTcp [(zs "localhost"%string, 8080); (zs "10.0.0.2"%string, 0)] /\
  parse_uri ex_env (zs "zk://zk1:2181,zk2:2181/svc/path#http"%string) = UZk (zs "zk1:2181,zk2:2181"%string) (zs "/svc/path"%string) (Some (zs "http"%string)) /\
  parse_uri ex_env (zs "http://localhost:80"%string) = UNoHandler (zs "http"%string) /\
  parse_uri ex_env (zs "tcp://localhost"%string) = UValueError.
Proof. vm_compute. repeat split; reflexivity. Qed.

Example ex_case :
  check_case (CUri (UTcpRendered (zs "TCP"%string) [(zs "a"%string, 1)] (zs "TCP://a:1"%string) true true (UTcp [(zs "a"%string, 1)]))) = true.
Proof. vm_compute. reflexivity. Qed.
