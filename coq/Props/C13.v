(* C13 - ThriftMux frames are byte-exact for every message, tag and context.
   Only statements here; proofs are in Proofs/MuxCodecP.v.  Every theorem quantifies over all inputs:
   no bound on context size, string length, payload length, tag or type beyond what the wire format
   (and struct.pack, modelled by pack_s returning None) can carry. *)
From Scales Require Import Model.Base Model.Bytes Model.Utf8 Model.MuxCodec Proofs.BytesP Proofs.MuxCodecP.
Local Open Scope Z_scope.

(* Every frame is a 4-byte big-endian length followed by exactly that many bytes:
   a signed type byte, a 24-bit tag and the body. *)
Theorem C13_length_exact : forall mtype tag body f,
  frame mtype tag body = Some f ->
  f = be 4 (4 + len body) ++ [mtype mod 256] ++ be 3 tag ++ body
  /\ -128 <= mtype <= 127
  /\ unbe (firstn 4 f) = len (skipn 4 f).
Proof.
  intros mtype tag body f H. pose proof (frame_some _ _ _ _ H) as (E & R & _).
  pose proof (frame_length_prefix _ _ _ _ H) as (L & _). repeat split; try assumption; lia.
Qed.
Print Assumptions C13_length_exact.

(* An independent decoder recovers exactly type, tag, contexts (dict-update order, UTF-8 bytes, each
   preceded by its exact byte length; a Deadline as two int64), empty dst/dtab and the payload. *)
Theorem C13_dispatch_roundtrip : forall tag props headers payload f,
  tdispatch_frame tag props headers payload = Some f -> 0 <= tag < 16777216 ->
  exists body ps,
    parse_frame f = Some (T_dispatch, tag, body) /\
    enc_ctx (dict_update (public props) headers) = Some ps /\
    parse_tdispatch body = Some {| td_ctx := ps; td_dst := []; td_dtab := []; td_payload := payload |}.
Proof.
  intros tag props headers payload f H Ht. unfold tdispatch_frame in H.
  apply obind_some in H as (body & Eb & Hf).
  destruct (marshal_tdispatch_parse _ _ _ _ Eb) as (ps & Eps & Pb).
  exists body, ps. split; [exact (parse_frame_frame _ _ _ _ Hf Ht)|]. split; assumption.
Qed.
Print Assumptions C13_dispatch_roundtrip.

(* A discard frame has type Tdiscarded, frame tag 0 and a body naming the discarded tag, then the reason. *)
Theorem C13_discard_roundtrip : forall which reason f,
  tdiscarded_frame which reason = Some f -> 0 <= which < 16777216 ->
  exists body rb,
    utf8 reason = Some rb /\
    parse_frame f = Some (T_discarded, 0, body) /\
    parse_tdiscarded body = Some (which, rb).
Proof.
  intros which reason f H Hw. unfold tdiscarded_frame in H.
  apply obind_some in H as (body & Eb & Hf).
  unfold marshal_tdiscarded in Eb. apply obind_some in Eb as (rb & Er & Eb). inversion Eb; subst; clear Eb.
  exists (enc_tag which ++ rb), rb. split; [assumption|]. split.
  - apply (parse_frame_frame _ _ _ _ Hf). lia.
  - unfold parse_tdiscarded. rewrite enc_tag_be.
    apply (parse_u_be 3 which rb). change (pow256 3) with 16777216. lia.
Qed.
Print Assumptions C13_discard_roundtrip.

(* The reply-header reader inverts the header writer for every type in [-128,127] and every 24-bit tag. *)
Theorem C13_header_inverse : forall tag mtype dl h rest,
  build_header tag mtype dl = Some h -> 0 <= tag < 16777216 ->
  read_header (skipn 4 h ++ rest) = Some (mtype, tag, rest).
Proof. exact read_header_build. Qed.
Print Assumptions C13_header_inverse.

(* ... and the writer accepts exactly the in-range fields (so the inverse is not vacuous). *)
Theorem C13_header_total : forall tag mtype dl,
  -128 <= mtype <= 127 -> -2147483648 <= 4 + dl < 2147483648 ->
  exists h, build_header tag mtype dl = Some h.
Proof.
  intros tag mtype dl Ht Hd. unfold build_header, pack_s.
  change (pow256 4 / 2) with 2147483648. change (pow256 1 / 2) with 128.
  replace ((- (2147483648) <=? 1 + 3 + dl) && (1 + 3 + dl <? 2147483648)) with true by lia.
  replace ((- (128) <=? mtype) && (mtype <? 128)) with true by lia.
  cbn [obind]. eauto.
Qed.
Print Assumptions C13_header_total.

(* The Rdispatch reader skips exactly the context section of any reply built by the reference encoder. *)
Theorem C13_rdispatch_skip : forall status ps rest,
  -128 <= status <= 127 -> Z.of_nat (length ps) < 32768 -> pairs_small ps ->
  unmarshal_rdispatch_prefix (ref_rdispatch status ps rest) = Some (status, rest).
Proof. exact unmarshal_rdispatch_ref. Qed.
Print Assumptions C13_rdispatch_skip.

(* Byte length vs character count: why a length in characters is wrong for non-ASCII text. *)
Theorem C13_utf8_len_ge : forall t b, utf8 t = Some b -> (length t <= length b)%nat.
Proof. exact utf8_len_ge. Qed.
Print Assumptions C13_utf8_len_ge.

(* The byte stream of a connection is self-delimiting: whatever frames were written back to back (each accepted by the
   independent frame decoder, in particular every frame built by `frame`), a reader that only follows the 4-byte sizes
   recovers exactly those frames, in order, with nothing left over - for every number and size of frames. If the last
   write was cut short (connection closed mid-write), the complete frames before it are still recovered and the cut
   tail is left unread. Two writers interleaving their bytes (a ping spliced into a half-written dispatch) break the
   premise "stream = concatenation of the written frames", which the correspondence check tests on the real socket. *)
Theorem C13_stream_self_delimiting : forall (ws : list bytes),
  Forall (fun f => exists x, parse_frame f = Some x) ws ->
  split_stream (S (length (concat ws))) (concat ws) = (ws, []).
Proof.
  intros ws H. assert (W : Forall well_framed ws).
  { eapply Forall_impl; [|exact H]. intros f [x Hx]. exact (parse_frame_well_framed f x Hx). }
  apply split_stream_concat; auto. pose proof (concat_length_ge ws W). lia.
Qed.
Print Assumptions C13_stream_self_delimiting.

Theorem C13_stream_cut_tail : forall (ws : list bytes) f p q,
  Forall (fun f => exists x, parse_frame f = Some x) ws -> (exists x, parse_frame f = Some x) ->
  f = p ++ q -> q <> [] ->
  split_stream (S (length (concat ws ++ p))) (concat ws ++ p) = (ws, p).
Proof.
  intros ws f p q H [x Hx] E Q. assert (W : Forall well_framed ws).
  { eapply Forall_impl; [|exact H]. intros g [y Hy]. exact (parse_frame_well_framed g y Hy). }
  apply (split_stream_concat_partial ws f p q W (parse_frame_well_framed f x Hx) E Q).
  pose proof (concat_length_ge ws W). rewrite app_length. lia.
Qed.
Print Assumptions C13_stream_cut_tail.

(* every frame the writer builds satisfies the premise above *)
Theorem C13_frames_are_well_formed : forall mtype tag body f,
  frame mtype tag body = Some f -> 0 <= tag < 16777216 -> exists x, parse_frame f = Some x.
Proof. intros mtype tag body f H Ht. eexists. exact (parse_frame_frame _ _ _ _ H Ht). Qed.
Print Assumptions C13_frames_are_well_formed.

Example C13_stream_example :
  stream_ok [[0;0;0;4;65;0;0;1]; [0;0;0;4;65;0;0;2]] [0;0;0;4;65;0;0;1;0;0;0;4;65;0;0;2] 2 = true
  /\ stream_ok [[0;0;0;4;65;0;0;1]; [0;0;0;4;65;0;0;2]] [0;0;0;4;65;0;0;1;0;0;0] 1 = true
  /\ stream_ok [[0;0;0;4;65;0;0;1]; [0;0;0;4;65;0;0;2]] [0;0;0;4;65;0;0;1;0;0;0] 2 = false
  /\ stream_ok [[0;0;0;4;65;0;0;1]; [0;0;0;4;65;0;0;2]] [0;0;0;4;0;0;0;4;65;0;0;2;65;0;0;1] 2 = false.
Proof. vm_compute. repeat split. Qed.

(* Non-vacuity: a non-ASCII context entry, a deadline, tag 2^24-2; the frame exists and decodes. *)
Example C13_example :
  exists f, tdispatch_frame 16777214
      [([107; 233; 121], VStr [118; 228; 108; 8364]); ([95; 95; 120], VStr [1])]
      [([68], VDeadline 1790000000000000000 (-5))] [128; 1; 0; 1] = Some f
    /\ len f = 54.
Proof. eexists. split; [vm_compute; reflexivity | reflexivity]. Qed.
