(* C14 - Framed Thrift calls and replies agree with the Thrift library's own codec.
   Only statements here; proofs are in Proofs/ThriftCodecP.v.  Every theorem quantifies over all values
   (arbitrarily nested lists and structs, any string, any integer the wire format carries), all method
   names, sequence ids, result specs and all chunkings of the reply stream: no size, depth or step bound.
   "Agrees with the Thrift *library*" is the correspondence half (harness/props/c14.py): the model below is
   compared with the real sink chain and the library's Processor/Client on every run. *)
From Scales Require Import Model.Base Model.Bytes Model.ThriftCodec Proofs.BytesP Proofs.ThriftCodecP.
Local Open Scope Z_scope.

(* The strict binary decoder inverts the encoder on every message the encoder accepts: name, type, seqid and
   the whole (nested) argument/result struct come back, and nothing is left over.  [wf] only asks lists to be
   homogeneous in their declared element type; ranges are what the encoder itself enforces (pack_s). *)
Theorem C14_roundtrip : forall name mtype seq fs b,
  enc_msg name mtype seq fs = Some b -> wf (VStruct fs) -> 0 <= mtype < 256 ->
  dec_msg b = Some (name, mtype, seq, VStruct fs).
Proof. exact dec_msg_enc. Qed.
Print Assumptions C14_roundtrip.

(* value level, with any continuation of the stream and any sufficient fuel *)
Theorem C14_roundtrip_value : forall v b rest fuel,
  wf v -> enc_val v = Some b -> (length b <= fuel)%nat ->
  dec_val fuel (ttag v) (b ++ rest) = Some (v, rest).
Proof.
  intros v b rest fuel Hwf He Hf. apply (dec_enc_val v Hwf b rest fuel He).
  pose proof (vsize_le_enc v b He). lia.
Qed.
Print Assumptions C14_roundtrip_value.

(* The frame is a 4-byte big-endian length followed by exactly that many bytes; it exists iff the payload
   is shorter than 2^31. *)
Theorem C14_frame : forall p,
  (forall f, frame4 p = Some f ->
     f = be 4 (len p) ++ p /\ unbe (firstn 4 f) = len (skipn 4 f) /\ skipn 4 f = p) /\
  (len p < 2147483648 -> frame4 p = Some (be 4 (len p) ++ p)) /\
  (frame4 p = None -> 2147483648 <= len p).
Proof.
  intros p. pose proof (len_nonneg p) as L0. repeat split.
  - now apply frame4_some in H.
  - apply frame4_some in H as [-> L].
    rewrite (firstn_app_exact (be 4 (len p))) by (now rewrite be_length).
    rewrite (skipn_app_exact (be 4 (len p))) by (now rewrite be_length).
    apply unbe_be. change (pow256 4) with 4294967296. lia.
  - apply frame4_some in H as [-> L]. apply (skipn_app_exact (be 4 (len p))). now rewrite be_length.
  - apply frame4_total.
  - intros H. destruct (Z.lt_ge_cases (len p) 2147483648) as [C|C]; [|assumption].
    rewrite (frame4_total p C) in H. discriminate.
Qed.
Print Assumptions C14_frame.

(* The call on the wire: frame of a CALL (ONEWAY when the method has no result class) message with seqid 0
   that decodes back to the method name and exactly the supplied arguments. *)
Theorem C14_call : forall name has_result args f,
  enc_call name has_result args = Some f -> wf (VStruct args) ->
  exists p, f = be 4 (len p) ++ p /\
    dec_msg p = Some (name, (if has_result then M_CALL else M_ONEWAY), 0, VStruct args).
Proof.
  intros name has_result args f H Hwf. unfold enc_call in H.
  apply obind_some in H as (p & Ep & Hf). apply frame4_some in Hf as [-> _].
  exists p. split; [reflexivity|].
  apply (dec_msg_enc _ _ _ _ _ Ep Hwf). destruct has_result; unfold M_CALL, M_ONEWAY; lia.
Qed.
Print Assumptions C14_call.

(* The ladder on replies built by the reference encoder. [rs] is the method's result thrift_spec. *)
Theorem C14_outcome : forall svc name seq rs, find_result svc name = Some rs ->
  (* a success field of the declared type is the return value *)
  (forall v b ty, success_slot rs = Some (0, ty) -> ttag v = ty -> wf v ->
     enc_msg name M_REPLY seq [(0, v)] = Some b ->
     wrap (classify svc b) = CReturn (Some v)) /\
  (* void method (no success slot), empty result: None - with or without declared exceptions, gaps included *)
  (forall b, success_slot rs = None -> enc_msg name M_REPLY seq [] = Some b ->
     wrap (classify svc b) = CReturn None) /\
  (* a declared exception comes back as ScalesError whose inner exception is that very struct *)
  (forall fid e b, In (Some (fid, T_STRUCT)) (tl rs) -> ttag e = T_STRUCT -> wf e ->
     (forall s, success_slot rs = Some s -> fst s <> fid) ->
     enc_msg name M_REPLY seq [(fid, e)] = Some b ->
     wrap (classify svc b) = CRaise true (XDeclared fid e)) /\
  (* a non-void method whose result carries nothing: MISSING_RESULT error, never a value *)
  (forall b s, success_slot rs = Some s -> enc_msg name M_REPLY seq [] = Some b ->
     wrap (classify svc b) = CRaise true (XApp (Some (missing_text name)) MISSING_RESULT)).
Proof.
  intros svc name seq rs Hr.
  assert (Ht : 0 <= M_REPLY < 256) by (unfold M_REPLY; lia).
  assert (Hx : M_REPLY <> M_EXCEPTION) by (unfold M_REPLY, M_EXCEPTION; lia).
  repeat split.
  - intros v b ty Hs Hty Hwf He.
    rewrite (classify_reply svc name M_REPLY seq [(0, v)] b rs He) by (try assumption; cbn; tauto).
    unfold ladder. rewrite Hs, lookup_single, Hty, !Z.eqb_refl. reflexivity.
  - intros b Hs He.
    rewrite (classify_reply svc name M_REPLY seq [] b rs He) by (try assumption; cbn; tauto).
    unfold ladder. rewrite Hs, first_exc_nil. reflexivity.
  - intros fid e b Hin Hty Hwf Hne He.
    rewrite (classify_reply svc name M_REPLY seq [(fid, e)] b rs He) by (try assumption; cbn; tauto).
    unfold ladder.
    assert (L : match success_slot rs with Some (f0, ty) => lookup f0 ty [(fid, e)] | None => None end = None).
    { destruct (success_slot rs) as [[f0 ty]|] eqn:Es; [|reflexivity].
      rewrite lookup_single. specialize (Hne _ eq_refl). cbn [fst] in Hne.
      replace (fid =? f0) with false by lia. reflexivity. }
    rewrite L, (first_exc_single _ fid e Hty Hin). reflexivity.
  - intros b s Hs He.
    rewrite (classify_reply svc name M_REPLY seq [] b rs He) by (try assumption; cbn; tauto).
    unfold ladder. rewrite Hs. destruct s as [f0 ty]. rewrite lookup_nil, first_exc_nil. reflexivity.
Qed.
Print Assumptions C14_outcome.

(* An EXCEPTION message is raised as ScalesError carrying the TApplicationException with the transmitted
   message and type, whatever the method (void or not) and whatever the service table. *)
Theorem C14_outcome_app : forall svc name seq m t b,
  (enc_msg name M_EXCEPTION seq [(1, VStr m); (2, VI32 t)] = Some b ->
     wrap (classify svc b) = CRaise true (XApp (Some m) t)) /\
  (enc_msg name M_EXCEPTION seq [(2, VI32 t)] = Some b ->
     wrap (classify svc b) = CRaise true (XApp None t)).
Proof.
  intros svc name seq m t b. split; intros He.
  - rewrite (classify_exception svc name seq _ b He) by (cbn; tauto). reflexivity.
  - rewrite (classify_exception svc name seq _ b He) by (cbn; tauto). reflexivity.
Qed.
Print Assumptions C14_outcome_app.

(* For EVERY payload (well-formed or not): if the caller gets a value, that value is literally the field of
   the reply's result struct sitting at the success slot of the method's spec, with the declared wire type, in
   a message that is not an EXCEPTION.  So an exception (a declared one lives at another field id, an
   application exception in an EXCEPTION message) is never handed to the caller as a return value. *)
Theorem C14_never_exception_value : forall svc p v,
  wrap (classify svc p) = CReturn (Some v) ->
  exists name mtype seq r rs fs rest fid ty,
    dec_header p = Some (name, mtype, seq, r) /\ mtype <> M_EXCEPTION /\
    find_result svc name = Some rs /\ dec_struct r = Some (fs, rest) /\
    success_slot rs = Some (fid, ty) /\ In (fid, v) fs /\ ttag v = ty.
Proof.
  intros svc p v H. apply wrap_return in H. apply classify_value_sound in H
    as (name & mtype & seq & r & rs & fs & rest & fid & ty & A & B & Cc & D & E & F).
  apply lookup_in in F as [F1 F2].
  exists name, mtype, seq, r, rs, fs, rest, fid, ty. repeat split; assumption.
Qed.
Print Assumptions C14_never_exception_value.

(* ... and every error outcome is raised, wrapped in ScalesError unless it is a timeout. *)
Theorem C14_errors_raise : forall e, wrap (OError e) = CRaise (match e with XTimeout => false | _ => true end) e.
Proof. destruct e; reflexivity. Qed.
Print Assumptions C14_errors_raise.

(* readAll(n) over any split of the stream into non-empty reads returns the first n bytes of the stream and
   leaves exactly the rest (the unsplit stream is the chunking [[s]]). *)
Theorem C14_chunking_read : forall cs n acc,
  Forall nonempty cs -> 0 <= n <= len (concat cs) ->
  exists cs', read_loop n acc cs = RDone (acc ++ take n (concat cs)) cs'
    /\ concat cs' = drop n (concat cs) /\ Forall nonempty cs'.
Proof.
  intros cs n acc HF Hn. rewrite <- total_len_concat in Hn.
  destruct (read_loop_spec cs [] n acc HF Hn) as (cs' & E & Cc & F).
  rewrite !app_nil_r in E. eauto.
Qed.
Print Assumptions C14_chunking_read.

(* readAll(4) then readAll(sz): every chunking of (frame ++ anything) yields the same payload as the unsplit
   stream and consumes exactly 4+sz bytes (what is left concatenates to the bytes behind the frame); both
   socket classes. *)
Theorem C14_chunking : forall varz p f extra cs,
  frame4 p = Some f -> Forall nonempty cs -> concat cs = f ++ extra ->
  exists cs' u', recv_frame varz cs = FPayload p cs' /\ recv_frame varz [f ++ extra] = FPayload p u'
    /\ concat cs' = extra /\ concat u' = extra /\ Forall nonempty cs'.
Proof.
  intros varz p f extra cs Hf HF Hc.
  destruct (recv_frame_chunked varz p f extra cs Hf HF Hc) as (cs' & E & Cc & F).
  assert (NE : Forall nonempty [f ++ extra]).
  { constructor; [|constructor]. unfold nonempty. intros H0.
    apply frame4_some in Hf as [-> _]. apply (f_equal (@length Z)) in H0.
    rewrite !app_length, be_length in H0. cbn in H0. lia. }
  destruct (recv_frame_chunked varz p f extra [f ++ extra] Hf NE ltac:(cbn; apply app_nil_r)) as (u' & Eu & Cu & _).
  exists cs', u'. repeat split; assumption.
Qed.
Print Assumptions C14_chunking.

(* A 0-byte read (or the end of the stream) strictly inside the frame - inside the length prefix included -
   is EOFError for every chunking of the bytes that did arrive; never a payload. *)
Theorem C14_chunking_eof : forall varz p f pre more post,
  frame4 p = Some f -> Forall nonempty pre -> concat pre ++ more = f -> more <> [] ->
  recv_frame varz (pre ++ [] :: post) = FEof /\ recv_frame varz pre = FEof /\
  fst (reply_result [] varz (pre ++ [] :: post)) = CRaise true XEof.
Proof.
  intros varz p f pre more post Hf HF Hc Hm.
  destruct (recv_frame_eof varz p f pre more post Hf HF Hc Hm) as [A B].
  repeat split; try assumption. unfold reply_result. rewrite A. reflexivity.
Qed.
Print Assumptions C14_chunking_eof.

(* Hence the caller-visible outcome of a reply does not depend on how its bytes are split across reads: it is
   the ladder applied to the payload, and the bytes behind the frame stay in the socket. *)
Theorem C14_outcome_chunking_independent : forall svc varz p f extra cs,
  frame4 p = Some f -> Forall nonempty cs -> concat cs = f ++ extra ->
  reply_result svc varz cs = (wrap (classify svc p), len extra).
Proof.
  intros svc varz p f extra cs Hf HF Hc.
  destruct (recv_frame_chunked varz p f extra cs Hf HF Hc) as (cs' & E & Cc & F).
  unfold reply_result. rewrite E, total_len_concat, Cc. reflexivity.
Qed.
Print Assumptions C14_outcome_chunking_independent.

(* Non-vacuity: a nested value (struct in list in struct, non-ASCII bytes, edge integers) is accepted by the
   encoder, well-formed, framed, and a void reply / declared exception / application exception exist. *)
Example C14_example :
  let args := [(1, VStruct [(1, VStruct [(1, VStr [104; 195; 169]); (2, VI32 (-2147483648))]);
                            (2, VList T_STRUCT [VStruct []; VStruct [(4, VBool true)]]);
                            (3, VList T_LIST [VList T_I32 [VI32 1; VI32 (-1)]; VList T_I32 []]);
                            (5, VI64 9223372036854775807); (7, VI16 (-32768))])] in
  wf (VStruct args) /\
  (exists f, enc_call [119; 114; 97; 112] true args = Some f /\ len f = 102) /\
  (exists b, enc_msg [112; 105; 110; 103] M_REPLY 0 [] = Some b) /\
  (exists b, enc_msg [103; 97; 112] M_REPLY 0 [(3, VStruct [(1, VStr [109])])] = Some b) /\
  (exists b, enc_msg [103; 97; 112] M_EXCEPTION 0 [(1, VStr [120]); (2, VI32 6)] = Some b).
Proof.
  cbv zeta. split; [cbn; tauto|].
  split; [eexists; split; [vm_compute; reflexivity|reflexivity]|].
  repeat split; eexists; vm_compute; reflexivity.
Qed.
