(* Kafka v0 wire format (C15): transcription of
     scales/kafka/protocol.py  KafkaProtocol.SerializeMessage/_SerializeProduceRequest/_SerializeMetadataRequest/
                               _GetMessageHeader, DeserializeMessage/_DeserializeMetadataResponse/_DeserializeProduceResponse
     scales/binary.py          BinaryWriter.WriteString/WriteInt32/WriteStruct/WriteRaw,
                               BinaryReader.ReadString/ReadInt16/ReadInt32/ReadInt64/ReadInt32Array/Unpack
     scales/kafka/sink.py      KafkaTransportSink._BuildHeader/_ProcessReply, KafkaSerializerSink.AsyncProcessRequest/
                               AsyncProcessResponse (which context is pushed, which exceptions are caught)
     scales/mux/sink.py        MuxSocketTransportSink.AsyncProcessRequest (tag_map[tag] = ..., header ++ body),
                               _ProcessTaggedReply/_ReleaseTag (tag_map.pop, seek(0), forward the stream)
   plus, written from the Kafka 0.8 protocol guide and NOT by inverting the code: a strict v0 request parser
   (parse_request) and reference response encoders (enc_produce_response, enc_metadata_response), used by the theorems. *)
From Scales Require Import Model.Base Model.Bytes Model.Utf8 Model.Crc32.
Local Open Scope Z_scope.

(* ================================================================================================ *)
(* 1. The writers, as written in the code                                                          *)
(* ================================================================================================ *)

(* BinaryWriter.WriteString: Int16.pack(len(val)) then the raw bytes *)
Definition write_string (s : bytes) : option bytes :=
  olet h := pack_s 2 (len s) in Some (h ++ s).

(* _GetMessageHeader: MSG_STRUCT = '!BBii' packed with (0, 0, -1, len(payload)): magic, attributes, null key, value size *)
Definition message_header (p : bytes) : option bytes :=
  olet a := pack_u 1 0 in
  olet b := pack_u 1 0 in
  olet c := pack_s 4 (-1) in
  olet d := pack_s 4 (len p) in
  Some (a ++ b ++ c ++ d).

(* loop body of _SerializeProduceRequest: crc = crc32(header); crc = crc32(p, crc);
   MSG_HEADER = '!qiI' packed with (0, len(header) + len(p) + 4, crc & 0xffffffff); header; p *)
Definition write_message (p : bytes) : option bytes :=
  olet header := message_header p in
  let crc := crc32_cont (crc32 header) p in
  olet o := pack_s 8 0 in
  olet sz := pack_s 4 (len header + len p + 4) in
  olet c := pack_u 4 (Z.land crc 4294967295) in
  Some (o ++ sz ++ c ++ header ++ p).

Fixpoint write_messages (ps : list bytes) : option bytes :=
  match ps with
  | [] => Some []
  | p :: r => olet a := write_message p in olet b := write_messages r in Some (a ++ b)
  end.

(* sum([8 + 4 + 4 + len(p) + 10 for p in payloads]) *)
Fixpoint msg_set_len (ps : list bytes) : Z :=
  match ps with [] => 0 | p :: r => (8 + 4 + 4 + len p + 10) + msg_set_len r end.

(* _SerializeProduceRequest: PRODUCE_HEADER '!hii' (acks, 1000, 1); topic string; int32 1; int32 partition;
   int32 message-set length; messages *)
Definition produce_request (acks partition : Z) (topic : bytes) (payloads : list bytes) : option bytes :=
  olet a := pack_s 2 acks in
  olet t := pack_s 4 1000 in
  olet n := pack_s 4 1 in
  olet ts := write_string topic in
  olet one := pack_s 4 1 in
  olet part := pack_s 4 partition in
  olet msl := pack_s 4 (msg_set_len payloads) in
  olet ms := write_messages payloads in
  Some (a ++ t ++ n ++ ts ++ one ++ part ++ msl ++ ms).

(* _SerializeMetadataRequest: pack('!i', len(args)); for topic in args: buf.write(pack('!h'), len(topic)) --
   pack('!h') without a value raises struct.error, so only the empty topic list (the only use in the
   library: MethodCallMessage(None, '__metadata', [], {})) can be serialised. *)
Definition metadata_request (topics : list bytes) : option bytes :=
  olet n := pack_s 4 (Z.of_nat (length topics)) in
  match topics with [] => Some n | _ :: _ => None end.

Definition T_produce : Z := 0.
Definition T_metadata : Z := 3.

Inductive call :=
| CallPut (acks partition : Z) (topic : bytes) (payloads : list bytes)
| CallMetadata (topics : list bytes)
| CallOther.                                   (* any other method: NotImplementedError *)

(* SerializeMessage: returns the message type (also stored in headers[MessageType]) and fills the buffer *)
Definition serialize (c : call) : option (Z * bytes) :=
  match c with
  | CallPut acks partition topic payloads =>
      olet b := produce_request acks partition topic payloads in Some (T_produce, b)
  | CallMetadata topics => olet b := metadata_request topics in Some (T_metadata, b)
  | CallOther => None
  end.

(* KafkaTransportSink._BuildHeader: client_id = CLIENT_ID.encode('utf-8');
   pack('!ihhih%ds' % len(client_id), 2 + 2 + 4 + 2 + len(client_id) + data_len, msg_type, 0, tag, len(client_id), client_id) *)
Definition request_header (cid : text) (tag mtype data_len : Z) : option bytes :=
  olet cb := utf8 cid in
  olet sz := pack_s 4 (2 + 2 + 4 + 2 + len cb + data_len) in
  olet k := pack_s 2 mtype in
  olet v := pack_s 2 0 in
  olet c := pack_s 4 tag in
  olet l := pack_s 2 (len cb) in
  Some (sz ++ k ++ v ++ c ++ l ++ cb).

(* MuxSocketTransportSink.AsyncProcessRequest: header = _BuildHeader(tag, headers[MessageType], stream.tell());
   payload = header + stream.getvalue() *)
Definition request_frame (cid : text) (tag : Z) (c : call) : option bytes :=
  olet (mt, body) := serialize c in
  olet h := request_header cid tag mt (len body) in
  Some (h ++ body).

(* ================================================================================================ *)
(* 2. The readers, as written in the code                                                          *)
(* ================================================================================================ *)

(* BytesIO.read(n): everything that is left when n < 0, at most n bytes otherwise (never an error) *)
Definition py_read (n : Z) (s : bytes) : bytes * bytes :=
  if n <? 0 then (s, []) else (take n s, drop n s).

(* Structs.IntXX.unpack(buf.read(k)): struct.error unless k bytes were there *)
Definition read_int (k : nat) (s : bytes) : option (Z * bytes) :=
  olet (h, r) := read_n (Z.of_nat k) s in Some (unpack_s k h, r).

(* BinaryReader.ReadString *)
Definition read_string (s : bytes) : option (bytes * bytes) :=
  olet (n, r) := read_int 2 s in Some (py_read n r).

(* unpack('!%di' % n, data) with len(data) = 4 n *)
Fixpoint ints32 (d : bytes) : list Z :=
  match d with
  | a :: b :: c :: e :: r => unpack_s 4 [a; b; c; e] :: ints32 r
  | _ => []
  end.

(* BinaryReader.ReadInt32Array: a negative count gives the format '!-1i' (struct.error); a short read too *)
Definition read_i32_array (s : bytes) : option (list Z * bytes) :=
  olet (n, r) := read_int 4 s in
  if n <? 0 then None else
  olet (d, r2) := read_n (4 * n) r in
  Some (ints32 d, r2).

(* `for i in range(n): <read one item>`: n <= 0 reads nothing.  Every item reader below starts with an
   unconditional fixed-size read, so at most length(s) iterations can succeed; the fuel is the number of
   bytes available and running out of it is the failed read of the next iteration (lemma
   read_many_fuel_irrelevant in Proofs/KafkaCodecP.v: any fuel >= length s gives the same result).
   This keeps counts like 2^31-1 in a corrupt reply from being expanded into a unary number. *)
Fixpoint read_many {A} (rd : bytes -> option (A * bytes)) (fuel : nat) (n : Z) (s : bytes)
  : option (list A * bytes) :=
  if n <=? 0 then Some ([], s) else
  match fuel with
  | O => None
  | S f =>
      olet (x, r) := rd s in
      olet (xs, r2) := read_many rd f (n - 1) r in
      Some (x :: xs, r2)
  end.

Definition read_loop {A} (rd : bytes -> option (A * bytes)) (n : Z) (s : bytes) := read_many rd (length s) n s.

(* python dict: d[k] = v replaces the value of an existing key in place, else appends *)
Fixpoint dict_set {K V} (eqb : K -> K -> bool) (d : list (K * V)) (k : K) (v : V) : list (K * V) :=
  match d with
  | [] => [(k, v)]
  | (k', v') :: r => if eqb k' k then (k', v) :: r else (k', v') :: dict_set eqb r k v
  end.
Definition dict_of {K V} (eqb : K -> K -> bool) (l : list (K * V)) : list (K * V) :=
  fold_left (fun acc kv => dict_set eqb acc (fst kv) (snd kv)) l [].
Fixpoint dict_get {K V} (eqb : K -> K -> bool) (d : list (K * V)) (k : K) : option V :=
  match d with
  | [] => None
  | (k', v) :: r => if eqb k' k then Some v else dict_get eqb r k
  end.
Definition dict_remove {K V} (eqb : K -> K -> bool) (d : list (K * V)) (k : K) : list (K * V) :=
  filter (fun kv => negb (eqb (fst kv) k)) d.

(* ---- produce response ---- *)
Definition presp := (bytes * Z * Z * Z)%type.        (* ProduceResponse(topic, partition, error, offset) *)

Definition read_presp_partition (topic : bytes) (s : bytes) : option (presp * bytes) :=
  olet (p, r) := read_int 4 s in
  olet (e, r1) := read_int 2 r in
  olet (o, r2) := read_int 8 r1 in
  Some ((topic, p, e, o), r2).

Definition read_presp_topic (s : bytes) : option (list presp * bytes) :=
  olet (t, r) := read_string s in
  olet (np, r1) := read_int 4 r in
  read_loop (read_presp_partition t) np r1.

Definition parse_produce_response (s : bytes) : option (list presp * bytes) :=
  olet (nt, r) := read_int 4 s in
  olet (ls, r1) := read_loop read_presp_topic nt r in
  Some (concat ls, r1).

(* ---- metadata response ---- *)
Definition broker := (Z * bytes * Z)%type.                         (* BrokerMetadata(nodeId, host, port) *)
Definition pmeta := (bytes * Z * Z * list Z * list Z)%type.        (* PartitionMetadata(topic_name, partition_id, leader, replicas, isr) *)
Definition metadata := (list (Z * broker) * list (bytes * list (Z * pmeta)))%type.   (* the two dicts, in insertion order *)

Definition read_broker (s : bytes) : option ((Z * broker) * bytes) :=
  olet (nid, r) := read_int 4 s in
  olet (host, r1) := read_string r in
  olet (port, r2) := read_int 4 r1 in
  Some ((nid, (nid, host, port)), r2).

(* reader.Unpack('!hii') reads 10 bytes at once: error code (unused), partition id, leader *)
Definition read_partition (topic : bytes) (s : bytes) : option ((Z * pmeta) * bytes) :=
  olet (h, r) := read_n 10 s in
  let pid := unpack_s 4 (take 4 (drop 2 h)) in
  let leader := unpack_s 4 (drop 6 h) in
  olet (reps, r1) := read_i32_array r in
  olet (isr, r2) := read_i32_array r1 in
  Some ((pid, (topic, pid, leader, reps, isr)), r2).

Definition read_topic (s : bytes) : option ((bytes * list (Z * pmeta)) * bytes) :=
  olet (terr, r) := read_int 2 s in                (* topic_error_code: unused *)
  olet (name, r1) := read_string r in
  olet (np, r2) := read_int 4 r1 in
  olet (ps, r3) := read_loop (read_partition name) np r2 in
  Some ((name, dict_of Z.eqb ps), r3).

Definition parse_metadata_response (s : bytes) : option (metadata * bytes) :=
  olet (nb, r) := read_int 4 s in
  olet (bs, r1) := read_loop read_broker nb r in
  olet (nt, r2) := read_int 4 r1 in
  olet (ts, r3) := read_loop read_topic nt r2 in
  Some ((dict_of Z.eqb bs, dict_of zlist_eqb ts), r3).

(* DeserializeMessage: buf.read(4) skips the correlation id (no error when fewer bytes are there); dispatch on the
   context pushed by the serializer sink; any other context falls off the end and returns python None *)
Inductive reply :=
| RMetadata (m : metadata)
| RProduce (l : list presp)
| RNoValue.

Definition deserialize (mtype : Z) (s : bytes) : option reply :=
  let r := snd (py_read 4 s) in
  if mtype =? T_metadata then olet (m, _) := parse_metadata_response r in Some (RMetadata m)
  else if mtype =? T_produce then olet (l, _) := parse_produce_response r in Some (RProduce l)
  else Some RNoValue.

(* ================================================================================================ *)
(* 3. Independent v0 request parser (Kafka 0.8 protocol guide)                                     *)
(*    RequestMessage => Size:int32 ApiKey:int16 ApiVersion:int16 CorrelationId:int32 ClientId:string Body
      ProduceRequest => RequiredAcks:int16 Timeout:int32 [TopicName:string [Partition:int32 MessageSetSize:int32 MessageSet]]
      MessageSet     => (Offset:int64 MessageSize:int32 Message)*        -- no count, fills MessageSetSize bytes
      Message        => Crc:uint32 MagicByte:int8 Attributes:int8 Key:bytes Value:bytes   -- Crc over Magic..Value
      MetadataRequest => [TopicName:string]
      string = int16 length (-1 null) + bytes; bytes = int32 length (-1 null) + bytes; array = int32 count + items.
      The parser is strict: every declared size must be exactly the bytes present and nothing may be left over. *)
(* ================================================================================================ *)
Definition signed (k : nat) (u : Z) : Z := if u <? pow256 k / 2 then u else u - pow256 k.

Definition parse_u (k : nat) (s : bytes) : option (Z * bytes) :=
  olet (h, r) := read_n (Z.of_nat k) s in Some (unbe h, r).
Definition parse_i (k : nat) (s : bytes) : option (Z * bytes) :=
  olet (u, r) := parse_u k s in Some (signed k u, r).

(* nullable length-prefixed data with a k-byte length *)
Definition parse_lp (k : nat) (s : bytes) : option (option bytes * bytes) :=
  olet (n, r) := parse_i k s in
  if n =? -1 then Some (None, r) else
  if n <? 0 then None else
  olet (b, r1) := read_n n r in Some (Some b, r1).

Definition parse_name (s : bytes) : option (bytes * bytes) :=      (* a string that must not be null *)
  olet (o, r) := parse_lp 2 s in match o with Some b => Some (b, r) | None => None end.

Definition parse_array {A} (p : bytes -> option (A * bytes)) (s : bytes) : option (list A * bytes) :=
  olet (n, r) := parse_i 4 s in
  if n <? 0 then None else read_many p (length r) n r.

Record message := { m_offset : Z; m_magic : Z; m_attrs : Z; m_key : option bytes; m_value : option bytes }.

(* mb = exactly the MessageSize bytes *)
Definition parse_message (off : Z) (mb : bytes) : option message :=
  olet (crc, r) := parse_u 4 mb in
  if negb (crc =? crc32 r) then None else
  olet (magic, r1) := parse_i 1 r in
  olet (attrs, r2) := parse_i 1 r1 in
  olet (key, r3) := parse_lp 4 r2 in
  olet (val, r4) := parse_lp 4 r3 in
  match r4 with
  | [] => Some {| m_offset := off; m_magic := magic; m_attrs := attrs; m_key := key; m_value := val |}
  | _ :: _ => None
  end.

(* s = exactly the MessageSetSize bytes; every message takes at least 12 of them *)
Fixpoint parse_message_set (fuel : nat) (s : bytes) : option (list message) :=
  match s with
  | [] => Some []
  | _ :: _ =>
      match fuel with
      | O => None
      | S f =>
          olet (off, r) := parse_i 8 s in
          olet (sz, r1) := parse_i 4 r in
          olet (mb, r2) := read_n sz r1 in
          olet m := parse_message off mb in
          olet ms := parse_message_set f r2 in
          Some (m :: ms)
      end
  end.

Definition parse_partition (s : bytes) : option ((Z * list message) * bytes) :=
  olet (p, r) := parse_i 4 s in
  olet (mss, r1) := parse_i 4 r in
  olet (msb, r2) := read_n mss r1 in
  olet ms := parse_message_set (length msb) msb in
  Some ((p, ms), r2).

Definition parse_topic (s : bytes) : option ((bytes * list (Z * list message)) * bytes) :=
  olet (name, r) := parse_name s in
  olet (ps, r1) := parse_array parse_partition r in
  Some ((name, ps), r1).

Record req_header := { h_api_key : Z; h_version : Z; h_corr : Z; h_client : option bytes }.

Inductive request :=
| ReqProduce (h : req_header) (acks timeout : Z) (topics : list (bytes * list (Z * list message)))
| ReqMetadata (h : req_header) (topics : list bytes).

Definition parse_request (f : bytes) : option request :=
  olet (sz, r) := parse_i 4 f in
  if negb (sz =? len r) then None else
  olet (key, r1) := parse_i 2 r in
  olet (ver, r2) := parse_i 2 r1 in
  olet (corr, r3) := parse_i 4 r2 in
  olet (cid, r4) := parse_lp 2 r3 in
  let h := {| h_api_key := key; h_version := ver; h_corr := corr; h_client := cid |} in
  if key =? 0 then
    olet (acks, b1) := parse_i 2 r4 in
    olet (timeout, b2) := parse_i 4 b1 in
    olet (topics, b3) := parse_array parse_topic b2 in
    match b3 with [] => Some (ReqProduce h acks timeout topics) | _ :: _ => None end
  else if key =? 3 then
    olet (topics, b1) := parse_array parse_name r4 in
    match b1 with [] => Some (ReqMetadata h topics) | _ :: _ => None end
  else None.

(* what a produce request made by the library must decode to *)
Definition msg_of_payload (p : bytes) : message :=
  {| m_offset := 0; m_magic := 0; m_attrs := 0; m_key := None; m_value := Some p |}.

(* ================================================================================================ *)
(* 4. Reference response encoders (Kafka 0.8 protocol guide)                                       *)
(*    Response         => Size CorrelationId:int32 Body     (the transport strips Size)
      ProduceResponse  => [TopicName:string [Partition:int32 ErrorCode:int16 Offset:int64]]
      MetadataResponse => [Broker] [TopicMetadata]
      Broker           => NodeId:int32 Host:string Port:int32
      TopicMetadata    => TopicErrorCode:int16 TopicName:string [PartitionMetadata]
      PartitionMetadata => PartitionErrorCode:int16 PartitionId:int32 Leader:int32 Replicas:[int32] Isr:[int32] *)
(* ================================================================================================ *)
Definition enc_str (s : bytes) : bytes := be 2 (len s) ++ s.
Definition enc_array {A} (e : A -> bytes) (l : list A) : bytes := be 4 (Z.of_nat (length l)) ++ concat (map e l).

Definition presp_part := (Z * Z * Z)%type.                         (* partition, error, offset *)
Definition presp_topic := (bytes * list presp_part)%type.

Definition enc_presp_part (x : presp_part) : bytes :=
  let '(p, e, o) := x in be 4 p ++ be 2 e ++ be 8 o.
Definition enc_presp_topic (t : presp_topic) : bytes :=
  enc_str (fst t) ++ enc_array enc_presp_part (snd t).
Definition enc_produce_response (r : list presp_topic) : bytes := enc_array enc_presp_topic r.

Definition flat_presp_topic (t : presp_topic) : list presp :=
  map (fun x : presp_part => let '(p, e, o) := x in (fst t, p, e, o)) (snd t).
Definition flat_presp (r : list presp_topic) : list presp := concat (map flat_presp_topic r).

Record mpart := { mp_err : Z; mp_id : Z; mp_leader : Z; mp_replicas : list Z; mp_isr : list Z }.
Record mtopic := { mt_err : Z; mt_name : bytes; mt_parts : list mpart }.
Record mresp := { mr_brokers : list broker; mr_topics : list mtopic }.

Definition enc_broker (b : broker) : bytes :=
  let '(nid, host, port) := b in be 4 nid ++ enc_str host ++ be 4 port.
Definition enc_mpart (p : mpart) : bytes :=
  be 2 (mp_err p) ++ be 4 (mp_id p) ++ be 4 (mp_leader p) ++
  enc_array (be 4) (mp_replicas p) ++ enc_array (be 4) (mp_isr p).
Definition enc_mtopic (t : mtopic) : bytes :=
  be 2 (mt_err t) ++ enc_str (mt_name t) ++ enc_array enc_mpart (mt_parts t).
Definition enc_metadata_response (r : mresp) : bytes :=
  enc_array enc_broker (mr_brokers r) ++ enc_array enc_mtopic (mr_topics r).

(* what the client keeps of a metadata response: the error codes are dropped, entries are keyed *)
Definition view_broker (b : broker) : Z * broker := (fst (fst b), b).
Definition view_mpart (name : bytes) (p : mpart) : Z * pmeta :=
  (mp_id p, (name, mp_id p, mp_leader p, mp_replicas p, mp_isr p)).
Definition view_mtopic (t : mtopic) : bytes * list (Z * pmeta) :=
  (mt_name t, dict_of Z.eqb (map (view_mpart (mt_name t)) (mt_parts t))).
Definition view_mresp (r : mresp) : metadata :=
  (dict_of Z.eqb (map view_broker (mr_brokers r)), dict_of zlist_eqb (map view_mtopic (mr_topics r))).
(* ... and without the dict folding, for responses whose keys are distinct *)
Definition plain_mtopic (t : mtopic) : bytes * list (Z * pmeta) :=
  (mt_name t, map (view_mpart (mt_name t)) (mt_parts t)).
Definition plain_mresp (r : mresp) : metadata :=
  (map view_broker (mr_brokers r), map plain_mtopic (mr_topics r)).

(* what can be carried by the wire format ("encodable"): integer widths, non-null strings below 2^15 bytes,
   non-null arrays below 2^31 items *)
Definition i16 (x : Z) : Prop := -32768 <= x < 32768.
Definition i32 (x : Z) : Prop := -2147483648 <= x < 2147483648.
Definition i64 (x : Z) : Prop := -9223372036854775808 <= x < 9223372036854775808.
Definition bytes_ok (s : bytes) : Prop := Forall (fun b => 0 <= b < 256) s.
Definition ok_str (s : bytes) : Prop := len s < 32768.
Definition ok_count {A} (l : list A) : Prop := Z.of_nat (length l) < 2147483648.
Definition ok_presp_part (x : presp_part) : Prop := let '(p, e, o) := x in i32 p /\ i16 e /\ i64 o.
Definition ok_presp_topic (t : presp_topic) : Prop :=
  ok_str (fst t) /\ ok_count (snd t) /\ Forall ok_presp_part (snd t).
Definition ok_presp (r : list presp_topic) : Prop := ok_count r /\ Forall ok_presp_topic r.
Definition ok_i32s (l : list Z) : Prop := ok_count l /\ Forall i32 l.
Definition ok_broker (b : broker) : Prop := let '(n, h, p) := b in i32 n /\ ok_str h /\ i32 p.
Definition ok_mpart (p : mpart) : Prop :=
  i16 (mp_err p) /\ i32 (mp_id p) /\ i32 (mp_leader p) /\ ok_i32s (mp_replicas p) /\ ok_i32s (mp_isr p).
Definition ok_mtopic (t : mtopic) : Prop :=
  i16 (mt_err t) /\ ok_str (mt_name t) /\ ok_count (mt_parts t) /\ Forall ok_mpart (mt_parts t).
Definition ok_mresp (r : mresp) : Prop :=
  ok_count (mr_brokers r) /\ Forall ok_broker (mr_brokers r) /\ ok_count (mr_topics r) /\ Forall ok_mtopic (mr_topics r).
(* distinct keys: then the dictionaries are exactly the encoded lists *)
Definition distinct_mresp (r : mresp) : Prop :=
  NoDup (map (fun b : broker => fst (fst b)) (mr_brokers r)) /\
  NoDup (map mt_name (mr_topics r)) /\
  Forall (fun t => NoDup (map mp_id (mt_parts t))) (mr_topics r).

(* ================================================================================================ *)
(* 5. Correlation-id routing (the part of MuxSocketTransportSink used by KafkaTransportSink)       *)
(* ================================================================================================ *)
(* RSend: a caller (identified by its sink stack) sends `c`; `tag` is what TagPool.get() returned (environment).
   RReply: the receive loop hands one complete reply to _ProcessReply. *)
Inductive rop :=
| RSend (stack tag : Z) (c : call)
| RReply (s : bytes).

Inductive robs :=
| OSent (frame : bytes)                   (* put on the send queue *)
| OSerError (stack : Z)                   (* serialisation raised: KafkaSerializerSink answers the caller with the error *)
| OSendRaise                              (* _BuildHeader raised out of AsyncProcessRequest (tag_map entry stays) *)
| ODeliver (stack : Z) (r : option reply) (* stream forwarded to that caller; what its serializer sink decodes (None = it raised -> error message) *)
| ODrop                                   (* no pending request with that correlation id: ignored *)
| OReplyRaise.                            (* fewer than 4 bytes: struct.error in _ProcessReply *)

Definition rstate := list (Z * (Z * Z)).  (* _tag_map: tag -> (sink stack, context pushed by the serializer sink) *)

Definition rstep (cid : text) (st : rstate) (op : rop) : rstate * robs :=
  match op with
  | RSend stack tag c =>
      match serialize c with
      | None => (st, OSerError stack)
      | Some (mt, body) =>
          let st' := dict_set Z.eqb st tag (stack, mt) in
          match request_header cid tag mt (len body) with
          | None => (st', OSendRaise)
          | Some h => (st', OSent (h ++ body))
          end
      end
  | RReply s =>
      match read_n 4 s with
      | None => (st, OReplyRaise)
      | Some (h, _) =>
          let tag := unpack_s 4 h in
          match dict_get Z.eqb st tag with
          | None => (st, ODrop)
          | Some (stack, mt) => (dict_remove Z.eqb st tag, ODeliver stack (deserialize mt s))
          end
      end
  end.

Fixpoint rrun (cid : text) (st : rstate) (ops : list rop) : list robs :=
  match ops with
  | [] => []
  | op :: r => let '(st', o) := rstep cid st op in o :: rrun cid st' r
  end.

Definition rstate_after (cid : text) (ops : list rop) : rstate :=
  fold_left (fun st op => fst (rstep cid st op)) ops [].

(* the correlation id a reply carries *)
Definition reply_corr (s : bytes) : option Z :=
  olet (h, _) := read_n 4 s in Some (unpack_s 4 h).

(* specification of "the pending request with correlation id t", directly on the history (newest first):
   the most recent registered send with that tag, unless a reply with that id came after it *)
Definition registers (c : call) : option Z := olet (mt, _) := serialize c in Some mt.
Fixpoint pending (newest_first : list rop) (t : Z) : option (Z * Z) :=
  match newest_first with
  | [] => None
  | RSend stack tag c :: older =>
      match registers c with
      | Some mt => if tag =? t then Some (stack, mt) else pending older t
      | None => pending older t
      end
  | RReply s :: older =>
      match reply_corr s with
      | Some t' => if t' =? t then None else pending older t
      | None => pending older t
      end
  end.

(* ---- client-side timeouts on top of the routing (ClientTimeoutSink + MuxSocketTransportSink._HandleTimeout +
        KafkaTransportSink._OnTimeout) ----
   TTimeout k: the deadline of caller k's request fired after the request had been written: the caller gets
     TimeoutError, its sink stack is consumed, timeout_proc calls KafkaTransportSink._OnTimeout(tag), which does
     nothing: Kafka cannot cancel an in-flight request, the broker still owes a reply, so the tag stays in the map.
     (Also: a deadline already in the past when the call is made: TimeoutError at once, nothing is sent.)
   TUnsent k tag: the deadline fired while the frame was still in the send queue: _HandleTimeout drops the frame
     and releases the tag (the broker never sees the request).
   A reply routed to a caller whose stack was already consumed by its timeout is forwarded to an empty sink stack:
     nothing is visible (ODeadReply). *)
Inductive top :=
| TOp (op : rop)
| TTimeout (stack : Z)
| TUnsent (stack tag : Z).

Inductive tobs :=
| TO (o : robs)
| OTimedOut (stack : Z)
| ODeadReply (stack : Z).

Definition tstate := (rstate * list Z)%type.      (* tag map, callers that already got their TimeoutError *)

Definition is_dead (dead : list Z) (k : Z) : bool := existsb (Z.eqb k) dead.

Definition hide (dead : list Z) (o : robs) : tobs :=
  match o with
  | ODeliver k r => if is_dead dead k then ODeadReply k else TO o
  | _ => TO o
  end.

Definition tstep (cid : text) (st : tstate) (op : top) : tstate * tobs :=
  let '(m, dead) := st in
  match op with
  | TOp o => let '(m', ob) := rstep cid m o in ((m', dead), hide dead ob)
  | TTimeout k => ((m, k :: dead), OTimedOut k)
  | TUnsent k tag => ((dict_remove Z.eqb m tag, k :: dead), OTimedOut k)
  end.

Fixpoint trun (cid : text) (st : tstate) (ops : list top) : list tobs :=
  match ops with
  | [] => []
  | op :: r => let '(st', o) := tstep cid st op in o :: trun cid st' r
  end.

Definition tstate_after (cid : text) (ops : list top) : tstate :=
  fold_left (fun st op => fst (tstep cid st op)) ops ([], []).

(* admissibility of the recorded tag choices: TagPool.get() never hands out a tag that is still in the tag map *)
Fixpoint tags_fresh (cid : text) (st : tstate) (ops : list top) : bool :=
  match ops with
  | [] => true
  | op :: r =>
      match op with
      | TOp (RSend _ tag c) =>
          match registers c, dict_get Z.eqb (fst st) tag with
          | Some _, Some _ => false
          | _, _ => true
          end
      | _ => true
      end && tags_fresh cid (fst (tstep cid st op)) r
  end.

(* the history as the tag map sees it: timeouts of written requests leave no trace *)
Fixpoint erase (ops : list top) : list rop :=
  match ops with
  | [] => []
  | TOp o :: r => o :: erase r
  | TTimeout _ :: r => erase r
  | TUnsent _ _ :: r => erase r
  end.
Fixpoint timed_out (ops : list top) : list Z :=       (* newest first *)
  match ops with
  | [] => []
  | TOp _ :: r => timed_out r
  | TTimeout k :: r => timed_out r ++ [k]
  | TUnsent k _ :: r => timed_out r ++ [k]
  end.
Definition no_unsent (ops : list top) : Prop :=
  Forall (fun op => match op with TUnsent _ _ => False | _ => True end) ops.

(* what a caller can see *)
Inductive visible :=
| VSent (f : bytes) | VSerError (k : Z) | VRaise | VDeliver (k : Z) (r : option reply) | VTimeout (k : Z) | VNothing.
Definition vis (o : tobs) : visible :=
  match o with
  | TO (OSent f) => VSent f
  | TO (OSerError k) => VSerError k
  | TO OSendRaise => VRaise
  | TO (ODeliver k r) => VDeliver k r
  | TO ODrop => VNothing
  | TO OReplyRaise => VRaise
  | OTimedOut k => VTimeout k
  | ODeadReply _ => VNothing
  end.

(* an operation that neither registers a request under correlation id t nor answers t *)
Definition quiet (t : Z) (op : rop) : Prop :=
  match op with
  | RSend _ tag c => tag <> t \/ registers c = None
  | RReply s => reply_corr s <> Some t
  end.

(* ================================================================================================ *)
(* 6. Correspondence cases (generated by harness/props/c15.py)                                     *)
(* ================================================================================================ *)
Definition obytes_eqb : option bytes -> option bytes -> bool := option_eqb zlist_eqb.

Definition presp_eqb (a b : presp) : bool :=
  let '(t, p, e, o) := a in let '(t', p', e', o') := b in
  zlist_eqb t t' && (p =? p') && (e =? e') && (o =? o').
Definition broker_eqb (a b : broker) : bool :=
  let '(n, h, p) := a in let '(n', h', p') := b in (n =? n') && zlist_eqb h h' && (p =? p').
Definition pmeta_eqb (a b : pmeta) : bool :=
  let '(t, i, l, r, s) := a in let '(t', i', l', r', s') := b in
  zlist_eqb t t' && (i =? i') && (l =? l') && zlist_eqb r r' && zlist_eqb s s'.
Definition metadata_eqb (a b : metadata) : bool :=
  list_eqb (pair_eqb Z.eqb broker_eqb) (fst a) (fst b) &&
  list_eqb (pair_eqb zlist_eqb (list_eqb (pair_eqb Z.eqb pmeta_eqb))) (snd a) (snd b).
Definition reply_eqb (a b : reply) : bool :=
  match a, b with
  | RMetadata x, RMetadata y => metadata_eqb x y
  | RProduce x, RProduce y => list_eqb presp_eqb x y
  | RNoValue, RNoValue => true
  | _, _ => false
  end.
Definition robs_eqb (a b : robs) : bool :=
  match a, b with
  | OSent x, OSent y => zlist_eqb x y
  | OSerError x, OSerError y => x =? y
  | OSendRaise, OSendRaise => true
  | ODeliver k r, ODeliver k' r' => (k =? k') && option_eqb reply_eqb r r'
  | ODrop, ODrop => true
  | OReplyRaise, OReplyRaise => true
  | _, _ => false
  end.

(* summary of a parsed request, as the harness's own Python v0 parser reports it:
   per message (offset, magic, attributes, key length or -1, value length or -1) *)
Definition msum := (Z * Z * Z * Z * Z)%type.
Definition rsum := (Z * Z * Z * option bytes * option (Z * Z * list (bytes * list (Z * list msum))) * list bytes)%type.
Definition olen (o : option bytes) : Z := match o with Some b => len b | None => -1 end.
Definition sum_msg (m : message) : msum := (m_offset m, m_magic m, m_attrs m, olen (m_key m), olen (m_value m)).
Definition summarize (r : request) : rsum :=
  match r with
  | ReqProduce h acks timeout topics =>
      (h_api_key h, h_version h, h_corr h, h_client h,
       Some (acks, timeout, map (fun t => (fst t, map (fun p => (fst p, map sum_msg (snd p))) (snd t))) topics), [])
  | ReqMetadata h topics => (h_api_key h, h_version h, h_corr h, h_client h, None, topics)
  end.
Definition msum_eqb (a b : msum) : bool :=
  let '(o, m, t, k, v) := a in let '(o', m', t', k', v') := b in
  (o =? o') && (m =? m') && (t =? t') && (k =? k') && (v =? v').
Definition visible_eqb (a b : visible) : bool :=
  match a, b with
  | VSent x, VSent y => zlist_eqb x y
  | VSerError x, VSerError y => x =? y
  | VRaise, VRaise => true
  | VDeliver k r, VDeliver k' r' => (k =? k') && option_eqb reply_eqb r r'
  | VTimeout x, VTimeout y => x =? y
  | VNothing, VNothing => true
  | _, _ => false
  end.
Definition rsum_eqb (a b : rsum) : bool :=
  let '(k, v, c, cl, p, mt) := a in let '(k', v', c', cl', p', mt') := b in
  (k =? k') && (v =? v') && (c =? c') && obytes_eqb cl cl' &&
  option_eqb (fun x y : Z * Z * list (bytes * list (Z * list msum)) =>
                let '(a1, t1, l1) := x in let '(a2, t2, l2) := y in
                (a1 =? a2) && (t1 =? t2) &&
                list_eqb (pair_eqb zlist_eqb (list_eqb (pair_eqb Z.eqb (list_eqb msum_eqb)))) l1 l2) p p' &&
  list_eqb zlist_eqb mt mt'.

Inductive case :=
(* real SerializeMessage + _BuildHeader: body (message type, bytes) or exception; header or exception;
   and what the harness's Python parser makes of header ++ body (None: rejected / nothing to parse) *)
| CRequest (cid : text) (tag : Z) (c : call) (body : option (Z * bytes)) (header : option bytes) (py : option rsum)
(* _BuildHeader alone on arbitrary arguments *)
| CHeader (cid : text) (tag mtype data_len : Z) (expect : option bytes)
(* both independent parsers (Coq / Python) on arbitrary, mostly corrupted, frames *)
| CParse (f : bytes) (py : option rsum)
(* zlib.crc32(a), zlib.crc32(b, zlib.crc32(a)) *)
| CCrc (a b : bytes) (ca cab : Z)
(* the harness's Python encoder vs the reference encoder, and DeserializeMessage on corr ++ raw *)
| CProduceResp (r : option (list presp_topic)) (corr raw : bytes) (mtype : Z) (expect : option reply)
| CMetadataResp (r : option mresp) (corr raw : bytes) (mtype : Z) (expect : option reply)
(* KafkaSerializerSink -> KafkaTransportSink pipeline driven with sends and replies *)
| CRoute (cid : text) (ops : list rop) (expect : list robs)
(* ClientTimeoutSink -> KafkaSerializerSink -> KafkaTransportSink with its real send/receive loops, a fake broker and a
   virtual clock: what every caller saw after each step *)
| CTransport (cid : text) (ops : list top) (expect : list visible).

Definition check_case (c : case) : bool :=
  match c with
  | CRequest cid tag c body header py =>
      option_eqb (pair_eqb Z.eqb zlist_eqb) (serialize c) body &&
      match body with
      | Some (mt, b) =>
          obytes_eqb (request_header cid tag mt (len b)) header &&
          match header with
          | Some h => obytes_eqb (request_frame cid tag c) (Some (h ++ b)) &&
                      option_eqb rsum_eqb (option_map summarize (parse_request (h ++ b))) py
          | None => true
          end
      | None => true
      end
  | CHeader cid tag mtype dl e => obytes_eqb (request_header cid tag mtype dl) e
  | CParse f py => option_eqb rsum_eqb (option_map summarize (parse_request f)) py
  | CCrc a b ca cab => (crc32 a =? ca) && (crc32_cont ca b =? cab) && (crc32 (a ++ b) =? cab)
  | CProduceResp r corr raw mtype e =>
      match r with Some x => zlist_eqb (enc_produce_response x) raw | None => true end &&
      option_eqb reply_eqb (deserialize mtype (corr ++ raw)) e
  | CMetadataResp r corr raw mtype e =>
      match r with Some x => zlist_eqb (enc_metadata_response x) raw | None => true end &&
      option_eqb reply_eqb (deserialize mtype (corr ++ raw)) e
  | CRoute cid ops e => list_eqb robs_eqb (rrun cid [] ops) e
  | CTransport cid ops e => tags_fresh cid ([], []) ops && list_eqb visible_eqb (map vis (trun cid ([], []) ops)) e
  end.

(* what the model computes, for the replay file *)
Inductive explanation :=
| XRequest (body : option (Z * bytes)) (frame : option bytes) (parsed : option rsum)
| XBytes (b : option bytes)
| XParse (p : option rsum)
| XCrc (ca cab cwhole : Z)
| XReply (enc : option bytes) (r : option reply)
| XRoute (o : list robs)
| XTransport (o : list tobs).

Definition explain_case (c : case) : explanation :=
  match c with
  | CRequest cid tag c _ _ _ =>
      XRequest (serialize c) (request_frame cid tag c)
               (match request_frame cid tag c with Some f => option_map summarize (parse_request f) | None => None end)
  | CHeader cid tag mtype dl _ => XBytes (request_header cid tag mtype dl)
  | CParse f _ => XParse (option_map summarize (parse_request f))
  | CCrc a b _ _ => XCrc (crc32 a) (crc32_cont (crc32 a) b) (crc32 (a ++ b))
  | CProduceResp r corr raw mtype _ => XReply (option_map enc_produce_response r) (deserialize mtype (corr ++ raw))
  | CMetadataResp r corr raw mtype _ => XReply (option_map enc_metadata_response r) (deserialize mtype (corr ++ raw))
  | CRoute cid ops _ => XRoute (rrun cid [] ops)
  | CTransport cid ops _ => XTransport (trun cid ([], []) ops)
  end.
