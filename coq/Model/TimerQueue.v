(* Small-step model of scales/timer_queue.py : TimerQueue (Schedule, cancel closure, _TimerWorker).

   Time is in integer ticks (the harness uses 1 tick = 1/256 s and dyadic resolutions, so the float
   arithmetic of the code on times is exact and equals the integer arithmetic here).

   State
     q        the heap `_queue` as the list of its entries sorted by (deadline, seq).  heapq compares
              [deadline, seq, cancelled, action] lists; seq is unique so only (deadline, seq) is ever
              compared and queue[0] / heappop give the lexicographic minimum = the head of the sorted
              list.  cancel() flips the third component in place, which does not move the entry.
     ev       `_event` flag.
     seq      `_seq` (number of Schedule calls so far).  The k-th Schedule call creates entry k; an
              action *instance* is identified with k (so the same callable scheduled twice gives two
              instances).
     now      the clock (`time_source()`), moved only by `Tick`.
     pc       where the worker greenlet is parked: Top (spawned, not started yet), IdleWait (in
              `self._event.wait()`), Sleep0 (in `gevent.sleep(0)` after `clear()`), TimedWait exp (in
              `self._event.wait(to_wait)`, the time-out elapses at clock value exp), Crashed (the
              greenlet died with IndexError from `_PeekNext`/`heappop` on an empty queue).
     spawned  FIFO of the greenlets created by `gevent.spawn(action)` that have not run yet.
     ran      run log (instance, clock value at which the action greenlet ran), oldest first.
     reqs, cancels   history variables: log of the Schedule calls (k, requested deadline) and of the
              cancel calls (k, clock value).  They are written, never read, by `step`.

   Labels = atomic segments between gevent yield points (DESIGN 4.1): a Schedule call, a call of the
   cancel closure of instance s, a clock advance, ONE segment of the worker (from the blocking point it
   is parked at to the next blocking point), the body of the oldest spawned action greenlet.
   `Worker byEvent`: byEvent says whether the wait was ended by set() (wait returns True) or by the
   time-out (returns False); when both are possible both labels are enabled (both orders occur in gevent).
   `step` returns None when the label is not enabled. *)
From Scales Require Import Model.Base.
Local Open Scope Z_scope.

Record entry := mkE { e_dl : Z; e_seq : Z; e_canc : bool }.

Inductive pcT := Top | IdleWait | Sleep0 | TimedWait (exp : Z) | Crashed.

Record state := mkS {
  q : list entry; ev : bool; seq : Z; now : Z; pc : pcT;
  spawned : list Z; ran : list (Z * Z);
  reqs : list (Z * Z); cancels : list (Z * Z) }.

Inductive label := Sched (d : Z) | Cancel (s : Z) | Tick (t : Z) | Worker (byEvent : bool) | Run.

(* `int(math.ceil(float(deadline) / resolution)) * resolution`, skipped when the resolution is falsy *)
Definition ceilr (r d : Z) : Z := if r =? 0 then d else ((d + r - 1) / r) * r.

(* heap order on entries: (deadline, seq) lexicographic *)
Definition key_ltb (a b : entry) : bool :=
  (e_dl a <? e_dl b) || ((e_dl a =? e_dl b) && (e_seq a <? e_seq b)).

Fixpoint insert (e : entry) (l : list entry) : list entry :=
  match l with
  | [] => [e]
  | x :: l' => if key_ltb e x then e :: l else x :: insert e l'
  end.

Definition init : state := mkS [] false 0 0 Top [] [] [] [].

(* result of one worker segment: new queue, new event flag, where it parks, newly spawned instances *)
Record wout := mkW { w_q : list entry; w_ev : bool; w_pc : pcT; w_new : list Z }.

(* The loop body from `while True:` (line 62) when the event flag is ev.  Nobody else runs inside a
   segment, so once ev is false it stays false and the loop can only go round by popping an entry:
   structural recursion on the queue.
     62-65  if not q: wait()        -> returns at once if the flag is set, else parks (IdleWait)
     67-72  if is_set(): clear(); sleep(0)            -> parks (Sleep0)
     75-79  peek; cancelled head: heappop; continue
     83-90  to_wait = at - now; > 0: wait(to_wait) parks (TimedWait at) [flag is clear here]; else timed out
     92-103 heappop; not cancelled: spawn *)
Fixpoint top (nw : Z) (l : list entry) (e : bool) (sp : list Z) : wout :=
  match l with
  | [] => if e then mkW [] false Sleep0 sp else mkW [] false IdleWait sp
  | x :: l' =>
      if e then mkW l false Sleep0 sp
      else if e_canc x then top nw l' false sp
      else if nw <? e_dl x then mkW l false (TimedWait (e_dl x)) sp
      else top nw l' false (sp ++ [e_seq x])
  end.

(* Resuming after sleep(0) (line 75 onwards); the flag may have been set again meanwhile, in which case
   wait(to_wait) returns True at once without yielding ("a newer item came in": re-loop). *)
Definition peek (nw : Z) (l : list entry) (e : bool) (sp : list Z) : wout :=
  match l with
  | [] => mkW [] e Crashed sp                       (* self._queue[0] : IndexError *)
  | x :: l' =>
      if e_canc x then top nw l' e sp
      else if nw <? e_dl x then (if e then top nw l e sp else mkW l false (TimedWait (e_dl x)) sp)
      else top nw l' e (sp ++ [e_seq x])
  end.

(* Resuming after wait() on the empty queue returned (line 67 onwards): the queue is NOT re-tested. *)
Definition after_idle (nw : Z) (l : list entry) (e : bool) (sp : list Z) : wout :=
  if e then mkW l false Sleep0 sp else peek nw l e sp.

(* wait(to_wait) returned False: line 94 pops whatever is the head now and re-reads its cancelled flag *)
Definition pop_timeout (nw : Z) (l : list entry) (e : bool) (sp : list Z) : wout :=
  match l with
  | [] => mkW [] e Crashed sp                       (* heappop on empty heap : IndexError *)
  | x :: l' => top nw l' e (if e_canc x then sp else sp ++ [e_seq x])
  end.

Definition worker_seg (st : state) (byEvent : bool) : option wout :=
  match pc st with
  | Top => if byEvent then None else Some (top (now st) (q st) (ev st) [])
  | IdleWait => if byEvent && ev st then Some (after_idle (now st) (q st) (ev st) []) else None
  | Sleep0 => if byEvent then None else Some (peek (now st) (q st) (ev st) [])
  | TimedWait ex =>
      if byEvent then (if ev st then Some (top (now st) (q st) (ev st) []) else None)
      else (if ex <=? now st then Some (pop_timeout (now st) (q st) (ev st) []) else None)
  | Crashed => None
  end.

Definition set_canc (s : Z) (e : entry) : entry :=
  if e_seq e =? s then mkE (e_dl e) (e_seq e) true else e.

Definition head_dl_is (l : list entry) (dl : Z) : bool :=
  match l with [] => false | x :: _ => e_dl x =? dl end.

Definition step (r : Z) (st : state) (l : label) : option state :=
  match l with
  | Sched d =>
      let dl := ceilr r d in
      let s := seq st + 1 in
      let q' := insert (mkE dl s false) (q st) in
      Some (mkS q' (ev st || head_dl_is q' dl) s (now st) (pc st) (spawned st) (ran st)
                (reqs st ++ [(s, d)]) (cancels st))
  | Cancel s =>
      if (1 <=? s) && (s <=? seq st)
      then Some (mkS (map (set_canc s) (q st)) (ev st) (seq st) (now st) (pc st) (spawned st) (ran st)
                     (reqs st) (cancels st ++ [(s, now st)]))
      else None                                      (* no such closure exists yet *)
  | Tick t =>
      if now st <=? t
      then Some (mkS (q st) (ev st) (seq st) t (pc st) (spawned st) (ran st) (reqs st) (cancels st))
      else None
  | Worker b =>
      match worker_seg st b with
      | None => None
      | Some w => Some (mkS (w_q w) (w_ev w) (seq st) (now st) (w_pc w) (spawned st ++ w_new w) (ran st)
                            (reqs st) (cancels st))
      end
  | Run =>
      match spawned st with
      | [] => None
      | s :: sp => Some (mkS (q st) (ev st) (seq st) (now st) (pc st) sp (ran st ++ [(s, now st)])
                             (reqs st) (cancels st))
      end
  end.

Fixpoint exec (r : Z) (st : state) (ls : list label) : option state :=
  match ls with
  | [] => Some st
  | l :: ls' => match step r st l with None => None | Some st' => exec r st' ls' end
  end.

Definition reachable (r : Z) (st : state) : Prop := exists ls, exec r init ls = Some st.

Definition enabled (r : Z) (st : state) (l : label) : bool :=
  match step r st l with Some _ => true | None => false end.

(* nothing can happen without a further Schedule call or clock advance *)
Definition quiescent (r : Z) (st : state) : Prop :=
  enabled r st (Worker true) = false /\ enabled r st (Worker false) = false /\ spawned st = [].

(* The history variables are functions of the label sequence alone (Proofs: exec_reqs, exec_cancels):
   the k-th Sched label of the sequence creates instance k with the deadline it carries; a Cancel label is
   logged with the clock value set by the last Tick before it. *)
Fixpoint sched_log (n : Z) (ls : list label) : list (Z * Z) :=
  match ls with
  | [] => []
  | Sched d :: t => (n + 1, d) :: sched_log (n + 1) t
  | _ :: t => sched_log n t
  end.

Fixpoint cancel_log (nw : Z) (ls : list label) : list (Z * Z) :=
  match ls with
  | [] => []
  | Cancel s :: t => (s, nw) :: cancel_log nw t
  | Tick t' :: t => cancel_log t' t
  | _ :: t => cancel_log nw t
  end.

(* labels that need no new Schedule call and no clock advance *)
Definition internal (l : label) : bool :=
  match l with Worker _ | Run | Cancel _ => true | _ => false end.

Fixpoint wr_count (ls : list label) : Z :=
  match ls with
  | [] => 0
  | (Worker _ | Run) :: t => 1 + wr_count t
  | _ :: t => wr_count t
  end.

(* termination measure of the worker + action greenlets *)
Definition mu (st : state) : Z :=
  2 * Z.of_nat (length (q st)) + Z.of_nat (length (spawned st)) + (if ev st then 2 else 0)
  + match pc st with Top | Sleep0 => 1 | _ => 0 end.

(* ------------------------------------------------------------------------------------------------ *)
(* Correspondence: the recorded label sequence of a run of the real TimerQueue is replayed through   *)
(* `step`; after every label the implementation's observable state is compared.                      *)
(* ------------------------------------------------------------------------------------------------ *)
Record obs := mkO {
  o_pc : Z * Z;                          (* 0 Top, 1 IdleWait, 2 Sleep0, 3 TimedWait exp, 4 dead *)
  o_ev : bool;
  o_en : bool * bool;                    (* worker resumable by the event / by the time-out *)
  o_qlen : Z;
  o_q : option (list (Z * Z * bool));    (* sorted snapshot of _queue (after Worker labels and at the end) *)
  o_sp : list Z;                         (* spawned, not yet run *)
  o_ranlen : Z;
  o_ran : option (list (Z * Z)) }.       (* full run log (after Run labels and at the end) *)

Record case := mkCase { c_r : Z; c_steps : list (label * obs) }.

Definition pc_code (p : pcT) : Z * Z :=
  match p with Top => (0, 0) | IdleWait => (1, 0) | Sleep0 => (2, 0) | TimedWait ex => (3, ex) | Crashed => (4, 0) end.

Definition zz_eqb (a b : Z * Z) : bool := (fst a =? fst b) && (snd a =? snd b).
Definition snap (l : list entry) : list (Z * Z * bool) := map (fun e => (e_dl e, e_seq e, e_canc e)) l.
Definition zzb_eqb (a b : Z * Z * bool) : bool :=
  zz_eqb (fst a) (fst b) && Bool.eqb (snd a) (snd b).

Definition obs_ok (r : Z) (st : state) (o : obs) : bool :=
  zz_eqb (pc_code (pc st)) (o_pc o)
  && Bool.eqb (ev st) (o_ev o)
  && Bool.eqb (enabled r st (Worker true)) (fst (o_en o))
  && Bool.eqb (enabled r st (Worker false)) (snd (o_en o))
  && (Z.of_nat (length (q st)) =? o_qlen o)
  && match o_q o with None => true | Some l => list_eqb zzb_eqb (snap (q st)) l end
  && list_eqb Z.eqb (spawned st) (o_sp o)
  && (Z.of_nat (length (ran st)) =? o_ranlen o)
  && match o_ran o with None => true | Some l => list_eqb zz_eqb (ran st) l end.

Fixpoint replay (r : Z) (st : state) (steps : list (label * obs)) : bool :=
  match steps with
  | [] => true
  | (l, o) :: rest =>
      match step r st l with
      | None => false
      | Some st' => obs_ok r st' o && replay r st' rest
      end
  end.

Definition check_case (c : case) : bool := (0 <=? c_r c) && replay (c_r c) init (c_steps c).

(* index of the first diverging step and the model state there (for diagnostics) *)
Fixpoint explain_from (r : Z) (st : state) (steps : list (label * obs)) (i : Z) : option (Z * option state) :=
  match steps with
  | [] => None
  | (l, o) :: rest =>
      match step r st l with
      | None => Some (i, None)
      | Some st' => if obs_ok r st' o then explain_from r st' rest (i + 1) else Some (i, Some st')
      end
  end.
Definition explain_case (c : case) := explain_from (c_r c) init (c_steps c) 0.

(* short names used by the generated case files *)
Module Short.
  Definition LS := Sched.
  Definition LC := Cancel.
  Definition LT := Tick.
  Definition LW := Worker.
  Definition LR := Run.
  Definition Ob := mkO.
End Short.
