(* Tag management of the multiplexed transports (C11): transcription of
     scales/mux/sink.py        TagPool.get / release,
                               MuxSocketTransportSink.AsyncProcessRequest, _SendLoop (one iteration),
                               _HandleTimeout (+ its timeout_proc closure), _ProcessTaggedReply,
                               _ReleaseTag, _Shutdown
     scales/thriftmux/sink.py  SocketTransportSink._ProcessReply, _OnTimeout/_CreateDiscardMessage,
                               _SendPingMessage (frame on the reserved tag 1)
     scales/kafka/sink.py      KafkaTransportSink._ProcessReply, _OnTimeout (a no-op)
     scales/observable.py      Observable.Set (value visible at once, callbacks run later on their own greenlet)
   Everything the environment decides is part of the label: which element set.pop() returned, whether a
   socket write failed, the peer's frames (any type, any tag), when a deadline fires and when the
   notification greenlet of that deadline gets to run, shutdown, re-open. *)
From Scales Require Import Model.Base.
Local Open Scope Z_scope.

(* ---- association lists --------------------------------------------------------------------------- *)
Definition memz (x : Z) (l : list Z) : bool := existsb (Z.eqb x) l.

Fixpoint remz (x : Z) (l : list Z) : list Z :=
  match l with
  | [] => []
  | y :: r => if x =? y then r else y :: remz x r
  end.

Fixpoint lookup {A : Type} (k : Z) (m : list (Z * A)) : option A :=
  match m with
  | [] => None
  | (k', v) :: r => if k =? k' then Some v else lookup k r
  end.

(* dict.pop(k): the first (only) binding of k is removed, the other bindings keep their order *)
Fixpoint remove_key {A : Type} (k : Z) (m : list (Z * A)) : list (Z * A) :=
  match m with
  | [] => []
  | (k', v) :: r => if k =? k' then r else (k', v) :: remove_key k r
  end.

Definition keys {A : Type} (m : list (Z * A)) : list Z := map fst m.

(* ---- TagPool ------------------------------------------------------------------------------------- *)
Record pool := { p_free : list Z;      (* TagPool._set *)
                 p_next : Z }.         (* TagPool._next *)

Definition pool_at (b : Z) : pool := {| p_free := []; p_next := b |}.
Definition pool_init : pool := pool_at 1.

Inductive get_res :=
| GotTag (t : Z) (p : pool)
| Exhausted                      (* raise Exception("No tags left in pool.") ; pool unchanged *)
| BadPick.                       (* the label names an element set.pop() cannot have returned *)

(* TagPool.get.  [pick] is what set.pop() returned in the implementation (only looked at when the
   set is not empty; the model accepts any member of the set). *)
Definition pool_get (max_tag pick : Z) (p : pool) : get_res :=
  match p_free p with
  | [] =>
      if p_next p =? max_tag - 1 then Exhausted
      else GotTag (p_next p + 1) {| p_free := []; p_next := p_next p + 1 |}
  | _ :: _ =>
      if memz pick (p_free p)
      then GotTag pick {| p_free := remz pick (p_free p); p_next := p_next p |}
      else BadPick
  end.

(* TagPool.release: set.add; the boolean is the "returned more than once" warning *)
Definition pool_release (t : Z) (p : pool) : bool * pool :=
  if memz t (p_free p) then (true, p)
  else (false, {| p_free := t :: p_free p; p_next := p_next p |}).

(* ---- transport state ----------------------------------------------------------------------------- *)
Inductive evstate :=
| NoEv            (* no Deadline.EVENT_KEY property: the call never times out *)
| Pending         (* Observable exists, Get() is None *)
| Fired.          (* Observable.Set(True) happened: Get() is True *)

Record call := {
  c_ev : evstate;
  c_tagkey : option Z;   (* msg.properties[Tag.KEY]: Some t after acquisition; None once popped by a time-out
                            handler or overwritten with None by _ProcessTaggedReply (both read back as a
                            false value by pop(Tag.KEY, 0), and None is never a key of _tag_map) *)
  c_sub : bool;          (* timeout_proc is subscribed (one shot) to the event *)
  c_notify : bool;       (* a greenlet running Observable.__Notify is spawned and has not run yet *)
  c_conn : Z }.          (* the connection (sink object) the call was given to *)

Inductive qentry :=
| QReq (tag c : Z)       (* a request frame of call c, header carries [tag], dct = the call's properties *)
| QDiscard (which : Z)   (* Tdiscarded naming [which]; frame tag 0; fresh properties (no deadline) *)
| QPing.                 (* Tping on tag 1; dct = _EMPTY_DCT *)

Record cfg := { max_tag : Z;     (* TagPool(max_tag): 2^24 - 1 in _Init *)
                kafka : bool;    (* KafkaTransportSink instead of the ThriftMux SocketTransportSink *)
                base : Z }.      (* high-water mark every new connection's pool starts from: 1 for the real TagPool;
                                    b > 1 = the pool has already handed out the tags 2..b to holders outside the run
                                    (what b-1 calls of get() leave behind, see C11_fill) *)

Record state := {
  pl : pool;
  tmap : list (Z * Z);           (* _tag_map: tag -> call (insertion ordered like a dict) *)
  sendq : list qentry;           (* _send_queue, head first *)
  calls : list (Z * call);
  closed : bool;                 (* _state == Closed *)
  conn : Z }.

Definition start (cf : cfg) : state :=
  {| pl := pool_at (base cf); tmap := []; sendq := []; calls := []; closed := false; conn := 0 |}.

Inductive label :=
| Req (c dl pick : Z)      (* AsyncProcessRequest for a new call c; dl: 0 no deadline, 1 event pending, otherwise the
                              event was already set before the request reached the transport; pick: see pool_get *)
| SendStep (io_ok : bool)  (* one iteration of _SendLoop; io_ok = false: socket.write raises *)
| Fire (c : Z)             (* the deadline of c expires: ClientTimeoutSink does evt.Set(True) *)
| Notify (c : Z)           (* the greenlet spawned by that Set runs the subscribed callbacks *)
| Recv (mtype tag : Z)     (* a frame from the peer with a complete header: ANY type, ANY tag *)
| RecvJunk                 (* a frame too short to carry a header *)
| Ping                     (* _SendPingMessage *)
| Shutdown                 (* Close(), or the receive loop failing *)
| Reopen                   (* the closed sink is replaced by a new one on a new connection *)
| OpenAgain.               (* the first Open() call on the SAME sink object after it was shut down *)

Inductive kind := KReq | KDiscard | KPing.

Inductive event :=
| EEnq (k : kind) (tag x : Z)      (* _send_queue.put: x = call for KReq, the discarded tag for KDiscard, 0 for KPing *)
| EWritten (k : kind) (tag x : Z)  (* socket.write of that frame *)
| EDropped (tag c : Z)             (* taken from the queue and not written *)
| EDelivered (c : Z)               (* the call's sink stack got the reply stream *)
| EError (c how : Z)               (* the call's sink stack got an error message: 0 'Sink not open.', 1 shutdown *)
| ERaise (c : Z)                   (* AsyncProcessRequest raised (tag pool exhausted) *)
| EClosed                          (* socket.close() *)
| EBadPick.

(* ---- helpers ------------------------------------------------------------------------------------- *)
Definition default_call : call :=
  {| c_ev := NoEv; c_tagkey := None; c_sub := false; c_notify := false; c_conn := -1 |}.

Definition get_call (c : Z) (s : state) : call :=
  match lookup c (calls s) with Some r => r | None => default_call end.

Fixpoint upd_call (c : Z) (f : call -> call) (m : list (Z * call)) : list (Z * call) :=
  match m with
  | [] => []
  | (k, v) :: r => (k, if c =? k then f v else v) :: upd_call c f r
  end.

Definition set_calls (s : state) (m : list (Z * call)) : state :=
  {| pl := pl s; tmap := tmap s; sendq := sendq s; calls := m; closed := closed s; conn := conn s |}.
Definition set_sendq (s : state) (q : list qentry) : state :=
  {| pl := pl s; tmap := tmap s; sendq := q; calls := calls s; closed := closed s; conn := conn s |}.

(* the four ways a call record changes *)
Definition clear_tagkey (r : call) : call :=
  {| c_ev := c_ev r; c_tagkey := None; c_sub := c_sub r; c_notify := c_notify r; c_conn := c_conn r |}.
Definition mark_sub (r : call) : call :=         (* timeout_event.Subscribe(timeout_proc, one_shot) *)
  {| c_ev := c_ev r; c_tagkey := c_tagkey r; c_sub := true; c_notify := c_notify r; c_conn := c_conn r |}.
Definition mark_fired (r : call) : call :=       (* Observable.Set(True): value set, __Notify spawned *)
  {| c_ev := Fired; c_tagkey := c_tagkey r; c_sub := c_sub r; c_notify := true; c_conn := c_conn r |}.
Definition mark_notified (r : call) : call :=    (* __Notify ran: the one-shot callbacks are gone *)
  {| c_ev := c_ev r; c_tagkey := c_tagkey r; c_sub := false; c_notify := false; c_conn := c_conn r |}.

(* _ReleaseTag: tup = _tag_map.pop(tag, None); if tup is not None: _tag_pool.release(tag); return tup *)
Definition release_tag (t : Z) (s : state) : option Z * state :=
  match lookup t (tmap s) with
  | Some c =>
      (Some c, {| pl := snd (pool_release t (pl s)); tmap := remove_key t (tmap s); sendq := sendq s;
                  calls := calls s; closed := closed s; conn := conn s |})
  | None => (None, s)
  end.

(* _Shutdown when active: state = Closed, socket.close(), every _tag_map value gets a ClientError (dict
   order), _tag_map = {}, _send_queue = Queue().  The TagPool is left as it is. *)
Definition do_shutdown (s : state) : state * list event :=
  if closed s then (s, [])
  else ({| pl := pl s; tmap := []; sendq := []; calls := calls s; closed := true; conn := conn s |},
        EClosed :: map (fun tc => EError (snd tc) 1) (tmap s)).

(* AsyncProcessRequest(sink_stack, msg, ...) for a new two-way call *)
Definition do_req (cf : cfg) (c dl pick : Z) (s : state) : state * list event :=
  match lookup c (calls s) with
  | Some _ => (s, [])                                  (* not a new call: label not applicable *)
  | None =>
      let ev := if dl =? 0 then NoEv else if dl =? 1 then Pending else Fired in
      let mk k := {| c_ev := ev; c_tagkey := k; c_sub := false; c_notify := negb (dl =? 0) && negb (dl =? 1);
                     c_conn := conn s |} in
      if closed s then (set_calls s (calls s ++ [(c, mk None)]), [EError c 0])
      else
        match pool_get (max_tag cf) pick (pl s) with
        | Exhausted => (set_calls s (calls s ++ [(c, mk None)]), [ERaise c])
        | BadPick => (s, [EBadPick])
        | GotTag t p' =>
            ({| pl := p'; tmap := tmap s ++ [(t, c)]; sendq := sendq s ++ [QReq t c];
                calls := calls s ++ [(c, mk (Some t))]; closed := false; conn := conn s |},
             [EEnq KReq t c])
        end
  end.

(* the write at the end of a _SendLoop iteration *)
Definition do_write (io_ok : bool) (s : state) (e : event) : state * list event :=
  if io_ok then (s, [e]) else do_shutdown s.

(* one iteration of _SendLoop: payload, dct = queue.get(); if _HandleTimeout(dct): continue; socket.write(payload) *)
Definition do_send (io_ok : bool) (s : state) : state * list event :=
  if closed s then (s, []) else
  match sendq s with
  | [] => (s, [])
  | QReq t c :: q =>
      let s1 := set_sendq s q in
      let r := get_call c s1 in
      match c_ev r with
      | Fired =>
          (* tag = dct.pop(Tag.KEY, 0); if tag != 0: _ReleaseTag(tag); return True *)
          let s2 := set_calls s1 (upd_call c clear_tagkey (calls s1)) in
          match c_tagkey r with
          | Some t' => if t' =? 0 then (s2, [EDropped t c]) else (snd (release_tag t' s2), [EDropped t c])
          | None => (s2, [EDropped t c])
          end
      | Pending =>
          let s2 := set_calls s1 (upd_call c mark_sub (calls s1)) in
          do_write io_ok s2 (EWritten KReq t c)
      | NoEv => do_write io_ok s1 (EWritten KReq t c)
      end
  | QDiscard w :: q => do_write io_ok (set_sendq s q) (EWritten KDiscard 0 w)
  | QPing :: q => do_write io_ok (set_sendq s q) (EWritten KPing 1 0)
  end.

Definition do_fire (c : Z) (s : state) : state * list event :=
  match lookup c (calls s) with
  | Some r =>
      if (c_conn r =? conn s) && (match c_ev r with Pending => true | _ => false end)
      then (set_calls s (upd_call c mark_fired (calls s)), [])
      else (s, [])
  | None => (s, [])
  end.

(* Observable.__Notify running the one-shot callbacks; the only subscriber is timeout_proc:
     timeout_tag = dct.pop(Tag.KEY, 0); if timeout_tag: self._OnTimeout(timeout_tag)
   ThriftMux _OnTimeout: if tag: AsyncProcessRequest(None, Tdiscarded(tag)) -- one way, frame tag 0, queued even
   when the sink is closed (the 'Sink not open.' branch needs a sink stack).  Kafka _OnTimeout: pass. *)
Definition do_notify (cf : cfg) (c : Z) (s : state) : state * list event :=
  match lookup c (calls s) with
  | Some r =>
      if (c_conn r =? conn s) && c_notify r then
        let s1 := set_calls s (upd_call c mark_notified (calls s)) in
        if c_sub r then
          let s2 := set_calls s1 (upd_call c clear_tagkey (calls s1)) in
          match c_tagkey r with
          | Some t =>
              if (t =? 0) || kafka cf then (s2, [])
              else (set_sendq s2 (sendq s2 ++ [QDiscard t]), [EEnq KDiscard 0 t])
          | None => (s2, [])
          end
        else (s1, [])
      else (s, [])
  | None => (s, [])
  end.

(* _ProcessTaggedReply(tag, stream) *)
Definition tagged_reply (tag : Z) (s : state) : state * list event :=
  match release_tag tag s with
  | (Some c, s1) => (set_calls s1 (upd_call c clear_tagkey (calls s1)), [EDelivered c])
  | (None, s1) => (s1, [])
  end.

Definition R_ping : Z := -65.

(* _ProcessReply.  ThriftMux: tag 1 with type Rping is the ping answer; any other frame with tag != 0 is a
   tagged reply; tag 0 is logged.  Kafka: every frame is a tagged reply. *)
Definition do_recv (cf : cfg) (mtype tag : Z) (s : state) : state * list event :=
  if kafka cf then tagged_reply tag s
  else if (tag =? 1) && (mtype =? R_ping) then (s, [])
  else if negb (tag =? 0) then tagged_reply tag s
  else (s, []).

Definition do_ping (cf : cfg) (s : state) : state * list event :=
  if closed s || kafka cf then (s, [])
  else (set_sendq s (sendq s ++ [QPing]), [EEnq KPing 1 0]).

Definition do_reopen (cf : cfg) (s : state) : state * list event :=
  if closed s
  then ({| pl := pool_at (base cf); tmap := []; sendq := []; calls := calls s; closed := false; conn := conn s + 1 |}, [])
  else (s, []).

(* Open() on a sink that was shut down: _open_result is None again, so _Init() builds a new TagPool, _tag_map and queue
   and _OpenImpl runs; but _state stays Closed, the loops leave at once, nothing can be leased (AsyncProcessRequest
   answers 'Sink not open.').  ThriftMux queues its Tping (never sent) and waits for the answer; Kafka's open fails. *)
Definition do_openagain (cf : cfg) (s : state) : state * list event :=
  if closed s
  then ({| pl := pool_at (base cf); tmap := []; sendq := if kafka cf then [] else [QPing]; calls := calls s;
           closed := true; conn := conn s |},
        if kafka cf then [] else [EEnq KPing 1 0])
  else (s, []).

Definition step (cf : cfg) (s : state) (l : label) : state * list event :=
  match l with
  | Req c dl pick => do_req cf c dl pick s
  | SendStep io_ok => do_send io_ok s
  | Fire c => do_fire c s
  | Notify c => do_notify cf c s
  | Recv mtype tag => do_recv cf mtype tag s
  | RecvJunk => (s, [])
  | Ping => do_ping cf s
  | Shutdown => do_shutdown s
  | Reopen => do_reopen cf s
  | OpenAgain => do_openagain cf s
  end.

(* final state / per-step events / whole trace of a label sequence *)
Fixpoint exec (cf : cfg) (s : state) (ls : list label) : state :=
  match ls with [] => s | l :: r => exec cf (fst (step cf s l)) r end.

Fixpoint run (cf : cfg) (s : state) (ls : list label) : list (list event) :=
  match ls with [] => [] | l :: r => snd (step cf s l) :: run cf (fst (step cf s l)) r end.

Definition trace (cf : cfg) (s : state) (ls : list label) : list event := concat (run cf s ls).

(* one harness operation may stand for several labels (a segment with several frames, a callback that re-enters the
   sink, requests that were waiting for Open()): the events of a group are compared as one list *)
Fixpoint run_groups (cf : cfg) (s : state) (gs : list (list label)) : list (list event) :=
  match gs with [] => [] | g :: r => trace cf s g :: run_groups cf (exec cf s g) r end.

(* largest size of _tag_map seen along the run (after each step), starting from p *)
Fixpoint peak (cf : cfg) (s : state) (ls : list label) (p : Z) : Z :=
  match ls with
  | [] => p
  | l :: r => let s' := fst (step cf s l) in peak cf s' r (Z.max p (Z.of_nat (length (tmap s'))))
  end.

(* ---- bookkeeping reconstructed from the observable events alone (used by C11_unique) --------------
   out  : (tag, call) of the request frames that were written and whose call has had no answer yet
   done : calls whose sink stack has received a reply or an error *)
Definition track (acc : list (Z * Z) * list Z) (e : event) : list (Z * Z) * list Z :=
  let (out, done) := acc in
  match e with
  | EWritten KReq t c => if memz c done then acc else (out ++ [(t, c)], done)
  | EDelivered c | EError c _ => (filter (fun p => negb (snd p =? c)) out, c :: done)
  | _ => acc
  end.

Definition track_all (acc : list (Z * Z) * list Z) (evs : list event) : list (Z * Z) * list Z :=
  fold_left track evs acc.

Definition unanswered (evs : list event) : list (Z * Z) := fst (track_all ([], []) evs).

(* the configuration of the real transports *)
Definition real_cfg (k : bool) : cfg := {| max_tag := 16777215; kafka := k; base := 1 |}.

(* ---- correspondence cases (generated by harness/props/c11.py) ----------------------------------- *)
Inductive pool_op := PGet (pick : Z) | PRel (t : Z).
Inductive pool_obs := OTag (t : Z) | OExhausted | OReleased (warned : bool) | OBadPick.

Fixpoint run_pool (mx : Z) (p : pool) (ops : list pool_op) : list pool_obs :=
  match ops with
  | [] => []
  | PGet pick :: r =>
      match pool_get mx pick p with
      | GotTag t p' => OTag t :: run_pool mx p' r
      | Exhausted => OExhausted :: run_pool mx p r
      | BadPick => [OBadPick]
      end
  | PRel t :: r => let (w, p') := pool_release t p in OReleased w :: run_pool mx p' r
  end.

(* n consecutive get() on a pool whose free set is empty: the tags next+1 .. next+n, the last one refused when the
   pool runs out.  Closed form used for the long exhaustion run on the real TagPool(2^24-1); related to pool_get
   by get_many_spec in Proofs/MuxTagsP.v. *)
Definition get_many (mx n : Z) (p : pool) : bool * pool :=      (* (was a call refused?, pool); the last tag handed out is p_next *)
  let room := mx - 1 - p_next p in
  if n <=? room then (false, {| p_free := []; p_next := p_next p + n |})
  else (true, {| p_free := []; p_next := mx - 1 |}).

Fixpoint iter_get (mx : Z) (n : nat) (refused : bool) (p : pool) : bool * pool :=
  match n with
  | O => (refused, p)
  | S k => match pool_get mx 0 p with
           | GotTag _ p' => iter_get mx k refused p'
           | _ => iter_get mx k true p
           end
  end.

Definition pool_obs_eqb (a b : pool_obs) : bool :=
  match a, b with
  | OTag x, OTag y => x =? y
  | OExhausted, OExhausted => true
  | OReleased x, OReleased y => Bool.eqb x y
  | _, _ => false
  end.

Definition kind_eqb (a b : kind) : bool :=
  match a, b with KReq, KReq | KDiscard, KDiscard | KPing, KPing => true | _, _ => false end.

Definition event_eqb (a b : event) : bool :=
  match a, b with
  | EEnq k t x, EEnq k' t' x' => kind_eqb k k' && (t =? t') && (x =? x')
  | EWritten k t x, EWritten k' t' x' => kind_eqb k k' && (t =? t') && (x =? x')
  | EDropped t c, EDropped t' c' => (t =? t') && (c =? c')
  | EDelivered c, EDelivered c' => c =? c'
  | EError c h, EError c' h' => (c =? c') && (h =? h')
  | ERaise c, ERaise c' => c =? c'
  | EClosed, EClosed => true
  | _, _ => false
  end.

Inductive case :=
| CPool (mx : Z) (ops : list pool_op) (expected : list pool_obs)
| CFill (mx n : Z) (last : Z) (refused : bool) (next_tag_after : option Z)
    (* n get() calls on a new TagPool(mx): last tag handed out, whether the last call was refused, and what one more
       get() returns (None = refused) *)
| CMux (cf : cfg) (ops : list (list label)) (expected : list (list event))
| CMux2 (cf : cfg) (opsA : list (list label)) (expectedA : list (list event))
        (opsB : list (list label)) (expectedB : list (list event)).
    (* two sink instances living in the same process, driven alternately: each must behave as if it were alone *)

Definition check_case (c : case) : bool :=
  match c with
  | CPool mx ops e => list_eqb pool_obs_eqb (run_pool mx pool_init ops) e
  | CFill mx n last refused after =>
      let (r, p) := get_many mx n pool_init in
      (p_next p =? last) && Bool.eqb r refused &&
      option_eqb Z.eqb (match pool_get mx 0 p with GotTag t _ => Some t | _ => None end) after
  | CMux cf ops e => list_eqb (list_eqb event_eqb) (run_groups cf (start cf) ops) e
  | CMux2 cf a ea b eb =>
      list_eqb (list_eqb event_eqb) (run_groups cf (start cf) a) ea && list_eqb (list_eqb event_eqb) (run_groups cf (start cf) b) eb
  end.

(* what the model computes, for the replay file *)
Definition explain_case (c : case) : list pool_obs * list (list event) :=
  match c with
  | CPool mx ops _ => (run_pool mx pool_init ops, [])
  | CFill mx n _ _ _ => let (r, p) := get_many mx n pool_init in ([OTag (p_next p); if r then OExhausted else OTag (p_next p)], [])
  | CMux cf ops _ => ([], run_groups cf (start cf) ops)
  | CMux2 cf a _ b _ => ([], run_groups cf (start cf) a ++ [[EBadPick]] ++ run_groups cf (start cf) b)
  end.
