(* SharedSinkProvider (C16): transcription of scales/sink.py SharedSinkProvider.CreateSink

     key = self._key_selector(properties)
     if key:
       sink = self._cache.get(key)                     # WeakValueDictionary
       if not sink:
         new_sink = self.next_provider.CreateSink(properties)
         sink = RefCountedSink(new_sink); self._cache[key] = sink
       return sink
     else:
       return self.next_provider.CreateSink(properties)

   over an explicit liveness set: every CreateSink hands a reference to a new holder (refs); a cache
   entry lives exactly as long as some holder still has a reference to its value (this is the
   behaviour of CPython weak references that the model takes as given: DropHolder purges the entries
   whose value nobody references any more).  Key 0 stands for a falsy key (None, '', 0). *)
From Scales Require Import Model.Base.
Local Open Scope nat_scope.

Record href := mkRef { r_id : nat; r_key : Z; r_sink : nat }.

Record shst := mkSh {
  cache : list (Z * nat);     (* key -> wrapper (named by the underlying sink it wraps) *)
  refs : list href;           (* live references handed out and not yet dropped *)
  nsink : nat;                (* environment: sinks created by next_provider so far *)
  nref : nat                  (* references handed out so far *)
}.

Definition shinit : shst := mkSh [] [] 0 0.

Inductive shlabel :=
| SCreate (k : Z)             (* CreateSink with properties whose key is k; the result is kept by a new holder *)
| SDrop (r : nat)             (* holder r drops its reference (and the garbage collector runs) *)
| SEnv (n : nat) (state : Z). (* environment: underlying sink n now reports this ChannelState (fault, close, open...);
                                 CreateSink does not look at it: a held key keeps yielding the same sink *)

Inductive shobs :=
| SUnder (n : nat)                   (* next_provider.CreateSink called: underlying sink n created *)
| SRet (n : nat) (wrapped : bool).   (* returned: the RefCountedSink around n (true) or n itself (false) *)

Definition lookup (k : Z) (c : list (Z * nat)) : option nat :=
  match find (fun e => Z.eqb (fst e) k) c with Some e => Some (snd e) | None => None end.

Definition referenced (rs : list href) (n : nat) : bool := existsb (fun r => Nat.eqb (r_sink r) n) rs.

Definition shstep (s : shst) (l : shlabel) : shst * list shobs :=
  match l with
  | SCreate k =>
      if Z.eqb k 0 then
        let n := nsink s in
        (mkSh (cache s) (refs s ++ [mkRef (nref s) k n]) (S n) (S (nref s)), [SUnder n; SRet n false])
      else
        match lookup k (cache s) with
        | Some n => (mkSh (cache s) (refs s ++ [mkRef (nref s) k n]) (nsink s) (S (nref s)), [SRet n true])
        | None =>
            let n := nsink s in
            (mkSh (cache s ++ [(k, n)]) (refs s ++ [mkRef (nref s) k n]) (S n) (S (nref s)),
             [SUnder n; SRet n true])
        end
  | SDrop r =>
      let rs := filter (fun x => negb (Nat.eqb (r_id x) r)) (refs s) in
      (mkSh (filter (fun e => referenced rs (snd e)) (cache s)) rs (nsink s) (nref s), [])
  | SEnv _ _ => (s, [])
  end.

Fixpoint shrun (s : shst) (ls : list shlabel) : shst * list (list shobs) :=
  match ls with
  | [] => (s, [])
  | l :: r => let '(s1, o) := shstep s l in let '(s2, os) := shrun s1 r in (s2, o :: os)
  end.

Definition shobs_eqb (a b : shobs) : bool :=
  match a, b with
  | SUnder x, SUnder y => Nat.eqb x y
  | SRet x b1, SRet y b2 => Nat.eqb x y && Bool.eqb b1 b2
  | _, _ => false
  end.

Definition shcheck (ls : list shlabel) (expected : list (list shobs)) : bool :=
  list_eqb (list_eqb shobs_eqb) (snd (shrun shinit ls)) expected.
