(* Model of scales/resurrector.py (ResurrectorSink) as a labelled transition system, parametric in the
   sink underneath (Thrift stack: WatermarkPoolSink; ThriftMux stack: the mux transport).

   State = the fields of ResurrectorSink (next_sink, _down_on, the _TryResurrect greenlet and its local
   wait_interval) + whether _OnSinkFaulted is currently subscribed to a sink's on_faulted + the clock +
   two ghosts (ids of the sinks created so far, the sleeps of the current outage).

   Labels = what the collaborators do to the sink:
     LOpen          the balancer calls Open()                                   resurrector.py:98-102
     LFault         the subscribed underlying sink's on_faulted fires           resurrector.py:59-66
     LReq           the balancer calls AsyncProcessRequest                      resurrector.py:47-54
     LWake          gevent.sleep(wait_interval) returned: CreateSink + Open     resurrector.py:76-84
     LOpenDone ok   sink.Open().get() returned (ok) or raised (not ok)          resurrector.py:84-96
     LClose         Close()                                                     resurrector.py:104-111
     LTick t        the clock advances to t (never past a pending wake-up; an Open takes at most odur)
   Outputs = what the sink calls on its collaborators (factory, underlying sink, response path).

   Everything numeric is an integer number of an arbitrary time unit.  The back-off function
   `next` (code: w => min(w ** backoff_exponent, max_wait_interval)), the clock's addition `tplus`
   (code: the simulation clock / time.time() are doubles: now + seconds is a rounded sum), the initial wait
   `w0` and the bound `odur` on how long an underlying Open may take are parameters. *)
From Scales Require Import Model.Base.
Local Open Scope Z_scope.

Inductive pc :=
| NoGreenlet                               (* self._resurrector is None / finished / killed *)
| Sleeping (start wait : Z)                (* in gevent.sleep(wait) entered at `start` *)
| Opening (since wait sid : Z).            (* in sink.Open().get() of sink `sid`, entered at `since` *)

Record state := mk {
  next_sink : option Z;      (* id of the sink in self.next_sink *)
  subscribed : bool;         (* _OnSinkFaulted is in some sink's on_faulted callbacks *)
  down_on : option Z;        (* self._down_on *)
  gl : pc;
  now : Z;
  nsinks : Z;                (* ghost: sinks created so far; the k-th created sink has id k *)
  hist : list Z              (* ghost: wait intervals slept/being slept in the current outage, newest first *)
}.

Inductive label := LOpen | LFault | LReq | LWake | LOpenDone (ok : bool) | LClose | LTick (t : Z).

Inductive out :=
| OCreate (sid : Z)          (* self._next_factory.CreateSink(...) *)
| OOpenUnder (sid : Z)       (* sink.Open() *)
| OCloseUnder (sid : Z)      (* sink.Close() *)
| OForward (sid : Z)         (* self.next_sink.AsyncProcessRequest(...) *)
| OFailFast.                 (* response FailedFastError() *)

Definition init (t0 : Z) : state := mk None false None NoGreenlet t0 0 [].

Definition is_down (s : state) : bool := match down_on s with Some _ => true | None => false end.

(* the `state` property: 0 = Closed, 1 = Idle, 2 = whatever the underlying sink reports *)
Definition obs_state (s : state) : Z :=
  if is_down s then 0 else match next_sink s with None => 1 | Some _ => 2 end.

Section Params.
Variable next : Z -> Z.
Variable tplus : Z -> Z -> Z.
Variable w0 : Z.
Variable odur : Z.

Definition step (s : state) (l : label) : option (state * list out) :=
  match l with
  | LOpen =>
      match next_sink s with
      | None => let sid := nsinks s + 1 in
                Some (mk (Some sid) true (down_on s) (gl s) (now s) sid (hist s), [OCreate sid; OOpenUnder sid])
      | Some sid => Some (s, [OOpenUnder sid])
      end
  | LFault =>
      (* only a sink we are subscribed to can notify us *)
      if negb (subscribed s) then None else
      match down_on s with
      | None =>
          match next_sink s with
          | None => None           (* sink.Close() on None: AttributeError *)
          | Some sid =>
              (* first fault: remember when, drop + close + unsubscribe the sink, spawn _TryResurrect which
                 enters gevent.sleep(initial_wait_interval) at once *)
              Some (mk None false (Some (now s)) (Sleeping (now s) w0) (now s) (nsinks s) [w0], [OCloseUnder sid])
          end
      | Some _ => Some (s, [])     (* already down: only re-signals on_faulted *)
      end
  | LReq =>
      match next_sink s with
      | None => Some (s, [OFailFast])
      | Some sid => Some (s, [OForward sid])
      end
  | LWake =>
      match gl s with
      | Sleeping st w =>
          if now s =? tplus st w then
            let sid := nsinks s + 1 in
            Some (mk (next_sink s) (subscribed s) (down_on s) (Opening (now s) w sid) (now s) sid (hist s),
                  [OCreate sid; OOpenUnder sid])
          else None
      | _ => None
      end
  | LOpenDone ok =>
      match gl s with
      | Opening st w sid =>
          if ok then
            Some (mk (Some sid) true None NoGreenlet (now s) (nsinks s) (hist s), [])
          else
            Some (mk (next_sink s) (subscribed s) (down_on s) (Sleeping (now s) (next w)) (now s) (nsinks s)
                     (next w :: hist s), [OCloseUnder sid])
      | _ => None
      end
  | LClose =>
      (* kill the greenlet (if any), forget _down_on, unsubscribe from and close next_sink (if any);
         next_sink itself is kept *)
      match next_sink s with
      | None => Some (mk None (subscribed s) None NoGreenlet (now s) (nsinks s) (hist s), [])
      | Some sid => Some (mk (Some sid) false None NoGreenlet (now s) (nsinks s) (hist s), [OCloseUnder sid])
      end
  | LTick t =>
      if (now s <=? t) &&
         match gl s with
         | NoGreenlet => true
         | Sleeping st w => t <=? tplus st w
         | Opening st _ _ => t <=? st + odur
         end
      then Some (mk (next_sink s) (subscribed s) (down_on s) (gl s) t (nsinks s) (hist s), [])
      else None
  end.

Fixpoint run (s : state) (ls : list label) : option state :=
  match ls with
  | [] => Some s
  | l :: r => match step s l with Some (s', _) => run s' r | None => None end
  end.

(* the same, collecting the outputs *)
Fixpoint exec (s : state) (ls : list label) : option (state * list out) :=
  match ls with
  | [] => Some (s, [])
  | l :: r => match step s l with
              | Some (s', o) => match exec s' r with Some (s'', o') => Some (s'', o ++ o') | None => None end
              | None => None
              end
  end.

End Params.

(* ---- environment assumptions used by the theorems ------------------------------------------------ *)

(* Each resurrector is opened once, before anything else happens to it (heap.py: _OpenNode is applied to
   freshly added nodes only, _OpenInitialChannels runs once). *)
Definition label_eqb (a b : label) : bool :=
  match a, b with
  | LOpen, LOpen | LFault, LFault | LReq, LReq | LWake, LWake | LClose, LClose => true
  | LOpenDone x, LOpenDone y => Bool.eqb x y
  | LTick x, LTick y => x =? y
  | _, _ => false
  end.
Definition wf_trace (tr : list label) : Prop := ~ In LOpen (tl tr).

(* ---- the doubles the simulation clock is made of -------------------------------------------------- *)
(* round-to-nearest-even of a non-negative integer to 53 significant bits: with times as whole numbers of
   2^-52 s this is exactly IEEE-754 binary64 addition `now + seconds` for the magnitudes that occur *)
Definition round53 (x : Z) : Z :=
  if x <? 2 ^ 53 then x else
  let s := Z.log2 x - 52 in
  let p := 2 ^ s in
  let q := x / p in
  let r := x mod p in
  let h := p / 2 in
  let q' := if r <? h then q else if h <? r then q + 1 else if Z.even q then q else q + 1 in
  q' * p.
Definition fl_add (t w : Z) : Z := round53 (t + w).

(* ---- correspondence -------------------------------------------------------------------------------- *)
Definition out_eqb (a b : out) : bool :=
  match a, b with
  | OCreate x, OCreate y | OOpenUnder x, OOpenUnder y | OCloseUnder x, OCloseUnder y | OForward x, OForward y => x =? y
  | OFailFast, OFailFast => true
  | _, _ => false
  end.

(* the back-off function as a table of the doubles that occur (computed by the harness with Python's
   float arithmetic from the configured exponent and maximum) *)
Fixpoint next_tab (tab : list (Z * Z)) (w : Z) : Z :=
  match tab with
  | [] => -1
  | (a, b) :: r => if a =? w then b else next_tab r w
  end.

(* one observed step: the label, what the implementation called on its collaborators while handling it,
   (o_conn, for the Open of an attempt: Some true = the endpoint was reachable during the whole attempt,
   Some false = it was unreachable (or no connect was made) when the attempt started, None = reachable at the
   start but not throughout: honest_open then allows either outcome),
   the value of the `state` property right afterwards (when recorded; 0 = Closed, 1 = Idle, 2 = other;
   compared when the model's answer does not depend on the sink underneath), and - for LOpen and LOpenDone - the
   outcome of the connect attempt the underlying Open made on the (fake) network *)
Record ostep := { o_label : label; o_outs : list out; o_state : option Z; o_conn : option bool }.

(* abbreviations used by the generated case files (most steps are clock advances and requests) *)
Definition tick_units : Z := 2 ^ 46.                                   (* 1/64 s in units of 2^-52 s *)
Definition sK (n : Z) : ostep := Build_ostep (LTick (n * tick_units)) [] None None.   (* clock at a whole tick *)
Definition sT (t : Z) : ostep := Build_ostep (LTick t) [] None None.
Definition sF (sid : Z) : ostep := Build_ostep LReq [OForward sid] None None.
Definition sX : ostep := Build_ostep LReq [OFailFast] None None.
Definition sG (l : label) (outs : list out) (st : option Z) (conn : option bool) : ostep := Build_ostep l outs st conn.

Record case := {
  c_one : Z;                   (* one second in time units *)
  c_w0 : Z; c_wmax : Z; c_odur : Z; c_t0 : Z;
  c_tab : list (Z * Z);
  c_steps : list ostep
}.

(* H1 and H2 on the doubles that occur *)
Definition tab_ok (c : case) : bool :=
  forallb (fun p => (negb (c_one c <=? fst p) || negb (fst p <=? c_wmax c) || (fst p <=? snd p)) && (snd p <=? c_wmax c)) (c_tab c)
  && (c_one c <=? c_w0 c) && (c_w0 c <=? c_wmax c).

(* replays the observed steps; `pend` = Some d: the connect of the first Open failed and has not been signalled
   as a fault yet (honest_open for the first Open: it must be, by the time d = start + c_odur at which the
   failure of that Open is known - a refused connect at once, one that times out after c_odur);
   the result is the number of steps replayed successfully and the final state *)
Fixpoint replay (c : case) (s : state) (pend : option Z) (os : list ostep) (n : Z) : Z * state * bool :=
  match os with
  | [] => (n, s, true)
  | o :: r =>
      match step (next_tab (c_tab c)) fl_add (c_w0 c) (c_odur c) s (o_label o) with
      | None => (n, s, false)
      | Some (s', outs) =>
          let outs_ok := list_eqb out_eqb outs (o_outs o) in
          let st_ok := match o_state o with None => true | Some z => (obs_state s' =? 2) || (z =? obs_state s') end in
          (* interface contract of the underlying sink (honest_open) on this step *)
          let honest := match o_label o, o_conn o with
                        | LOpenDone ok, Some reach => Bool.eqb ok reach
                        | LOpenDone _, None => true
                        | LTick t, _ => match pend with Some d => t <=? d | None => true end
                        | _, _ => true
                        end in
          let pend' := match o_label o, o_conn o with
                       | LOpen, Some false => Some (now s + c_odur c)
                       | LFault, _ | LClose, _ => None
                       | _, _ => pend
                       end in
          if outs_ok && st_ok && honest then replay c s' pend' r (n + 1) else (n, s, false)
      end
  end.

Definition check_case (c : case) : bool :=
  tab_ok c && snd (replay c (init (c_t0 c)) None (c_steps c) 0).

(* (number of steps that agreed, model state reached, outputs the model produces for the next label) *)
Definition explain_case (c : case) :=
  let '(n, s, ok) := replay c (init (c_t0 c)) None (c_steps c) 0 in
  (tab_ok c, n, ok, s,
   match nth_error (c_steps c) (Z.to_nat n) with
   | Some o => Some (o_label o, step (next_tab (c_tab c)) fl_add (c_w0 c) (c_odur c) s (o_label o))
   | None => None
   end).
