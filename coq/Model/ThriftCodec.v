(* Framed Thrift calls and replies (C14): transcription of
     scales/thrift/serializer.py   MessageSerializer.SerializeThriftCall / DeserializeThriftCall (the decision ladder)
     scales/thrift/sink.py         SocketTransportSink.AsyncProcessRequest (pack('!i', len) ++ payload),
                                   _AsyncProcessTransaction (readAll(4), unpack('!i'), readAll(sz)),
                                   ThriftSerializerSink.AsyncProcessResponse (any exception becomes the error)
     scales/varz.py                VarzSocketWrapper.readAll (bytearray(sz); recv_into loop)
     scales/scales_socket.py       ScalesSocket.readAll (recv loop)
     scales/dispatch.py            _AsyncResponseSink._WrapException / AsyncProcessResponse
   and of the strict binary protocol of the Thrift library (TBinaryProtocol: writeMessageBegin, generated
   <method>_args.write / <method>_result.read over a value universe), which the correspondence check compares
   with the library itself (the library is the oracle, see harness/props/c14.py). *)
From Scales Require Import Model.Base Model.Bytes.
Local Open Scope Z_scope.

(* ---- value universe ----------------------------------------------------------------------------- *)
Inductive tval :=
| VBool (b : bool)
| VI16 (n : Z)
| VI32 (n : Z)
| VI64 (n : Z)
| VStr (s : bytes)                        (* string (already UTF-8) and binary: same wire type 11 *)
| VList (et : Z) (vs : list tval)         (* et: declared element type tag *)
| VStruct (fs : list (Z * tval)).         (* (field id, value) in the order written *)

Definition T_STOP := 0.
Definition T_BOOL := 2.
Definition T_I16 := 6.
Definition T_I32 := 8.
Definition T_I64 := 10.
Definition T_STRING := 11.
Definition T_STRUCT := 12.
Definition T_LIST := 15.

Definition ttag (v : tval) : Z :=
  match v with
  | VBool _ => T_BOOL | VI16 _ => T_I16 | VI32 _ => T_I32 | VI64 _ => T_I64
  | VStr _ => T_STRING | VList _ _ => T_LIST | VStruct _ => T_STRUCT
  end.

(* ---- encoder (TBinaryProtocol write*, generated write methods) ---------------------------------- *)
Section EncAux.
  Variable enc : tval -> option bytes.
  Fixpoint enc_elems (vs : list tval) : option bytes :=
    match vs with
    | [] => Some []
    | v :: r => olet a := enc v in olet b := enc_elems r in Some (a ++ b)
    end.
  (* writeFieldBegin(type, id) value ... writeFieldStop *)
  Fixpoint enc_fields (fs : list (Z * tval)) : option bytes :=
    match fs with
    | [] => Some [T_STOP]
    | (fid, v) :: r =>
        olet i := pack_s 2 fid in olet a := enc v in olet b := enc_fields r in Some (ttag v :: i ++ a ++ b)
    end.
End EncAux.

Fixpoint enc_val (v : tval) : option bytes :=
  match v with
  | VBool b => Some [if b then 1 else 0]
  | VI16 n => pack_s 2 n
  | VI32 n => pack_s 4 n
  | VI64 n => pack_s 8 n
  | VStr s => olet h := pack_s 4 (len s) in Some (h ++ s)
  | VList et vs =>
      olet e := pack_s 1 et in
      olet h := pack_s 4 (Z.of_nat (length vs)) in
      olet b := enc_elems enc_val vs in Some (e ++ h ++ b)
  | VStruct fs => enc_fields enc_val fs
  end.

Definition enc_struct (fs : list (Z * tval)) : option bytes := enc_fields enc_val fs.

Definition VERSION_1 : Z := -2147418112.     (* 0x80010000 as a signed 32-bit value *)
Definition VERSION_MASK : Z := -65536.
Definition M_CALL := 1.
Definition M_REPLY := 2.
Definition M_EXCEPTION := 3.
Definition M_ONEWAY := 4.

(* strictWrite: writeI32(VERSION_1 | type); writeString(name); writeI32(seqid); then the struct *)
Definition enc_msg (name : bytes) (mtype seq : Z) (fs : list (Z * tval)) : option bytes :=
  olet v := pack_s 4 (Z.lor VERSION_1 mtype) in
  olet n := pack_s 4 (len name) in
  olet s := pack_s 4 seq in
  olet b := enc_struct fs in
  Some (v ++ n ++ name ++ s ++ b).

(* SocketTransportSink.AsyncProcessRequest: pack('!i', len(payload)) + payload *)
Definition frame4 (p : bytes) : option bytes :=
  olet h := pack_s 4 (len p) in Some (h ++ p).

(* SerializeThriftCall + framing: ONEWAY iff there is no <method>_result class; seqid is always 0 *)
Definition enc_call (name : bytes) (has_result : bool) (args : list (Z * tval)) : option bytes :=
  olet p := enc_msg name (if has_result then M_CALL else M_ONEWAY) 0 args in frame4 p.

(* ---- decoder (TBinaryProtocol read*, by wire type tag) ------------------------------------------- *)
Section DecAux.
  Variable dec : Z -> bytes -> option (tval * bytes).
  Fixpoint dec_elems (n : nat) (ty cnt : Z) (s : bytes) : option (list tval * bytes) :=
    if cnt <=? 0 then Some ([], s) else
    match n with
    | O => None
    | S n' =>
        olet (v, r) := dec ty s in
        olet (vs, r') := dec_elems n' ty (cnt - 1) r in Some (v :: vs, r')
    end.
  Fixpoint dec_fields (n : nat) (s : bytes) : option (list (Z * tval) * bytes) :=
    match n with
    | O => None
    | S n' =>
        olet (t, r) := read_n 1 s in
        let ty := unpack_s 1 t in
        if ty =? T_STOP then Some ([], r) else
        olet (i, r1) := read_n 2 r in
        olet (v, r2) := dec ty r1 in
        olet (fs, r3) := dec_fields n' r2 in Some ((unpack_s 2 i, v) :: fs, r3)
    end.
End DecAux.

(* fuel bounds the nesting depth and the number of elements; [length s] always suffices (ThriftCodecP) *)
Fixpoint dec_val (fuel : nat) (ty : Z) (s : bytes) : option (tval * bytes) :=
  match fuel with
  | O => None
  | S f =>
      if ty =? T_BOOL then olet (h, r) := read_n 1 s in Some (VBool (negb (unpack_s 1 h =? 0)), r)
      else if ty =? T_I16 then olet (h, r) := read_n 2 s in Some (VI16 (unpack_s 2 h), r)
      else if ty =? T_I32 then olet (h, r) := read_n 4 s in Some (VI32 (unpack_s 4 h), r)
      else if ty =? T_I64 then olet (h, r) := read_n 8 s in Some (VI64 (unpack_s 8 h), r)
      else if ty =? T_STRING then
        olet (h, r) := read_n 4 s in olet (b, r1) := read_n (unpack_s 4 h) r in Some (VStr b, r1)
      else if ty =? T_LIST then
        olet (e, r) := read_n 1 s in
        olet (h, r1) := read_n 4 r in
        olet (vs, r2) := dec_elems (dec_val f) f (unpack_s 1 e) (unpack_s 4 h) r1 in
        Some (VList (unpack_s 1 e) vs, r2)
      else if ty =? T_STRUCT then
        olet (fs, r) := dec_fields (dec_val f) (S f) s in Some (VStruct fs, r)
      else None                       (* a wire type outside the universe: not modelled *)
  end.

Definition dec_struct (s : bytes) : option (list (Z * tval) * bytes) :=
  match dec_val (S (length s)) T_STRUCT s with
  | Some (VStruct fs, r) => Some (fs, r)
  | _ => None
  end.

(* readMessageBegin with strictRead = False (what TBinaryProtocolAcceleratedFactory.getProtocol builds):
   a negative first word must carry VERSION_1 (else BAD_VERSION); a non-negative one is the old
   unversioned header name-length, name, type byte, seqid. *)
Definition dec_header (s : bytes) : option (bytes * Z * Z * bytes) :=
  olet (h, r) := read_n 4 s in
  let sz := unpack_s 4 h in
  if sz <? 0 then
    if Z.land sz VERSION_MASK =? VERSION_1 then
      olet (l, r1) := read_n 4 r in
      olet (name, r2) := read_n (unpack_s 4 l) r1 in
      olet (q, r3) := read_n 4 r2 in
      Some (name, Z.land sz 255, unpack_s 4 q, r3)
    else None
  else
    olet (name, r1) := read_n sz r in
    olet (t, r2) := read_n 1 r1 in
    olet (q, r3) := read_n 4 r2 in
    Some (name, unpack_s 1 t, unpack_s 4 q, r3).

(* whole message; the bytes after the struct are returned (the code ignores them) *)
Definition dec_msg_rest (s : bytes) : option (bytes * Z * Z * tval * bytes) :=
  olet (hd, r) := dec_header s in
  let '(name, mtype, seq) := hd in
  olet (fs, rest) := dec_struct r in
  Some (name, mtype, seq, VStruct fs, rest).

Definition dec_msg (s : bytes) : option (bytes * Z * Z * tval) :=
  match dec_msg_rest s with
  | Some (name, mtype, seq, v, []) => Some (name, mtype, seq, v)
  | _ => None
  end.

(* ---- socket reads: one list element = what one recv / recv_into call can deliver at most --------- *)
Inductive rd :=
| RDone (data : bytes) (rest : list bytes)
| REof                                   (* a 0-byte read (peer closed / script exhausted): EOFError *)
| RBadSize.                              (* bytearray(negative): ValueError *)

(* `while have < sz: chunk = recv(sz - have); have += len(chunk); if len(chunk) == 0: raise EOFError()`.
   A recv of at most [need] bytes takes the whole head chunk when it fits, else its first [need] bytes
   (the remainder stays in the socket buffer). One iteration of the Python loop = one step here. *)
Fixpoint read_loop (need : Z) (acc : bytes) (cs : list bytes) : rd :=
  match cs with
  | [] => if need <=? 0 then RDone acc [] else REof
  | c :: r =>
      if need <=? 0 then RDone acc cs
      else if len c =? 0 then REof
      else if len c <=? need then read_loop (need - len c) (acc ++ c) r
      else RDone (acc ++ take need c) (drop need c :: r)
  end.

(* varz = true: VarzSocketWrapper.readAll (allocates bytearray(sz) first); false: ScalesSocket.readAll *)
Definition read_all (varz : bool) (sz : Z) (cs : list bytes) : rd :=
  if varz && (sz <? 0) then RBadSize else read_loop sz [] cs.

Inductive frame_result :=
| FPayload (p : bytes) (rest : list bytes)
| FEof
| FBadSize.

(* sz, = unpack('!i', readAll(4)); buf = BytesIO(readAll(sz)) *)
Definition recv_frame (varz : bool) (cs : list bytes) : frame_result :=
  match read_all varz 4 cs with
  | RDone h cs1 =>
      match read_all varz (unpack_s 4 h) cs1 with
      | RDone p cs2 => FPayload p cs2
      | REof => FEof
      | RBadSize => FBadSize
      end
  | REof => FEof
  | RBadSize => FBadSize
  end.

(* the scripted stream: successive deliveries of the given sizes (0 = a 0-byte read) *)
Fixpoint chunks_of (sizes : list Z) (s : bytes) : list bytes :=
  match sizes with
  | [] => []
  | n :: r => take n s :: chunks_of r (drop n s)
  end.

(* ---- DeserializeThriftCall: the decision ladder --------------------------------------------------- *)
(* <method>_result.thrift_spec as the tuple the compiler emits: index 0 is `success` (None for void),
   the rest are the declared exceptions by field id, with None padding for unused ids. *)
Definition rspec := list (option (Z * Z)).          (* (field id, wire type) *)
Definition service := list (bytes * rspec).         (* method name -> result spec; one-way methods are absent *)

Definition bytes_eqb : bytes -> bytes -> bool := list_eqb Z.eqb.

Fixpoint find_result (svc : service) (name : bytes) : option rspec :=
  match svc with
  | [] => None
  | (n, rs) :: r => if bytes_eqb n name then Some rs else find_result r name
  end.

(* generated read(): a field is stored when id and wire type match the spec (else skipped); the last one wins *)
Fixpoint lookup (fid ty : Z) (fs : list (Z * tval)) : option tval :=
  match fs with
  | [] => None
  | (i, v) :: r =>
      match lookup fid ty r with
      | Some x => Some x
      | None => if (i =? fid) && (ttag v =? ty) then Some v else None
      end
  end.

Inductive exn :=
| XDeclared (fid : Z) (e : tval)           (* the declared exception struct read from the result *)
| XApp (msg : option bytes) (ty : Z)       (* TApplicationException(type, message) *)
| XEof                                     (* EOFError from readAll *)
| XBadSize                                 (* ValueError from bytearray(negative) *)
| XDecode                                  (* the protocol reader raised *)
| XTimeout                                 (* scales.message.TimeoutError *)
| XOther.                                  (* any other exception class: never produced by the model *)

Inductive outcome :=
| OValue (v : tval)
| OVoid
| OError (e : exn).

Inductive fe := FFound (fid : Z) (e : tval) | FNone.

(* for e in result_spec[1:]: if e is None: continue; attr_val = getattr(result, e[2], None);
   if attr_val is not None: return error *)
Fixpoint first_exc (excs : list (option (Z * Z))) (fs : list (Z * tval)) : fe :=
  match excs with
  | [] => FNone
  | None :: r => first_exc r fs
  | Some (fid, ty) :: r =>
      match lookup fid ty fs with
      | Some e => FFound fid e
      | None => first_exc r fs
      end
  end.

Definition success_slot (rs : rspec) : option (Z * Z) :=
  match rs with Some s :: _ => Some s | _ => None end.

Definition missing_text (name : bytes) : bytes :=
  name ++ [32;102;97;105;108;101;100;58;32;117;110;107;110;111;119;110;32;114;101;115;117;108;116].
  (* "%s failed: unknown result" *)

Definition MISSING_RESULT := 5.

Definition ladder (rs : rspec) (name : bytes) (fs : list (Z * tval)) : outcome :=
  match (match success_slot rs with Some (fid, ty) => lookup fid ty fs | None => None end) with
  | Some v => OValue v                                          (* result.success is not None *)
  | None =>
      match first_exc (tl rs) fs with                           (* `if result_spec:` - tl [] = [] *)
      | FFound fid e => OError (XDeclared fid e)
      | FNone =>
          match success_slot rs with
          | None => OVoid                                       (* not hasattr(result, 'success') *)
          | Some _ => OError (XApp (Some (missing_text name)) MISSING_RESULT)
          end
      end
  end.

(* TApplicationException.read: 1: string message (default None), 2: i32 type (default UNKNOWN = 0) *)
Definition app_of (fs : list (Z * tval)) : exn :=
  XApp (match lookup 1 T_STRING fs with Some (VStr m) => Some m | _ => None end)
       (match lookup 2 T_I32 fs with Some (VI32 t) => t | _ => 0 end).

Definition classify (svc : service) (p : bytes) : outcome :=
  match dec_header p with
  | None => OError XDecode
  | Some (name, mtype, _, r) =>
      if mtype =? M_EXCEPTION then
        match dec_struct r with
        | None => OError XDecode
        | Some (fs, _) => OError (app_of fs)
        end
      else
        match find_result svc name with
        | None => OVoid                               (* no result class: result = None -> MethodReturnMessage() *)
        | Some rs =>
            match dec_struct r with
            | None => OError XDecode
            | Some (fs, _) => ladder rs name fs
            end
        end
  end.

(* ---- what the caller of the proxy sees ------------------------------------------------------------ *)
Inductive caller :=
| CReturn (v : option tval)                (* AsyncResult value; None = Python None *)
| CRaise (wrapped : bool) (e : exn).       (* wrapped: ScalesError with inner_exception = e *)

(* _WrapException: timeouts are not wrapped; everything else (a MethodReturnMessage with an error always
   carries a stack) is wrapped in ScalesError(inner_exception = error) *)
Definition wrap_exn (e : exn) : caller :=
  match e with
  | XTimeout => CRaise false e
  | _ => CRaise true e
  end.

Definition wrap (o : outcome) : caller :=
  match o with
  | OValue v => CReturn (Some v)
  | OVoid => CReturn None
  | OError e => wrap_exn e
  end.

Definition total_len (cs : list bytes) : Z := fold_right (fun c a => len c + a) 0 cs.

(* one transaction's reply side: returns the caller-visible result and the bytes left unread *)
Definition reply_result (svc : service) (varz : bool) (cs : list bytes) : caller * Z :=
  match recv_frame varz cs with
  | FPayload p rest => (wrap (classify svc p), total_len rest)
  | FEof => (wrap_exn XEof, 0)
  | FBadSize => (wrap_exn XBadSize, total_len (match read_all varz 4 cs with RDone _ r => r | _ => [] end))
  end.

(* ---- equality tests for the correspondence ---------------------------------------------------------- *)
Section EqAux.
  Variable eqb : tval -> tval -> bool.
  Fixpoint elems_eqb (a b : list tval) : bool :=
    match a, b with
    | [], [] => true
    | x :: a', y :: b' => eqb x y && elems_eqb a' b'
    | _, _ => false
    end.
  Fixpoint fields_eqb (a b : list (Z * tval)) : bool :=
    match a, b with
    | [], [] => true
    | (i, x) :: a', (j, y) :: b' => (i =? j) && eqb x y && fields_eqb a' b'
    | _, _ => false
    end.
End EqAux.

Fixpoint tval_eqb (a b : tval) : bool :=
  match a, b with
  | VBool x, VBool y => Bool.eqb x y
  | VI16 x, VI16 y => x =? y
  | VI32 x, VI32 y => x =? y
  | VI64 x, VI64 y => x =? y
  | VStr x, VStr y => bytes_eqb x y
  | VList e x, VList f y => (e =? f) && elems_eqb tval_eqb x y
  | VStruct x, VStruct y => fields_eqb tval_eqb x y
  | _, _ => false
  end.

Definition exn_eqb (a b : exn) : bool :=
  match a, b with
  | XDeclared i x, XDeclared j y => (i =? j) && tval_eqb x y
  | XApp m t, XApp n u => option_eqb bytes_eqb m n && (t =? u)
  | XEof, XEof | XBadSize, XBadSize | XDecode, XDecode | XTimeout, XTimeout => true
  | _, _ => false
  end.

Definition caller_eqb (a b : caller) : bool :=
  match a, b with
  | CReturn x, CReturn y => option_eqb tval_eqb x y
  | CRaise w x, CRaise v y => Bool.eqb w v && exn_eqb x y
  | _, _ => false
  end.

(* ---- correspondence cases (generated by harness/props/c14.py) ---------------------------------------- *)
(* one run of the reply path: the sizes the reply stream was delivered in, what the caller saw and how many
   bytes were left unread in the socket *)
Record run := { r_sizes : list Z; r_caller : caller; r_left : Z }.

Inductive case :=
| CRpc (svc : service) (name : bytes) (has_result : bool) (args : list (Z * tval))
       (sent : option bytes)            (* bytes written to the socket; None: the serializer raised *)
       (varz : bool)                    (* socket class under the transport sink *)
       (stream : bytes)                 (* what the peer sends back (reply frame and whatever follows it) *)
       (runs : list run)                (* the same call repeated under different deliveries of [stream] *)
| CTimeout (observed : caller).         (* a call whose deadline has passed *)

Definition check_run (svc : service) (varz : bool) (stream : bytes) (r : run) : bool :=
  let '(c, unread) := reply_result svc varz (chunks_of (r_sizes r) stream) in
  caller_eqb c (r_caller r) && (unread =? r_left r).

Definition check_case (c : case) : bool :=
  match c with
  | CRpc svc name has_result args sent varz stream runs =>
      option_eqb bytes_eqb (enc_call name has_result args) sent
      && match sent with
         | Some f =>                    (* the model's own decoder reads the frame back (instance of C14_roundtrip) *)
             match dec_msg (drop 4 f) with
             | Some (n, t, s, VStruct fs) =>
                 bytes_eqb n name && (t =? (if has_result then M_CALL else M_ONEWAY)) && (s =? 0)
                 && fields_eqb tval_eqb fs args && (unbe (take 4 f) =? len (drop 4 f))
             | _ => false
             end
         | None => true
         end
      && forallb (check_run svc varz stream) runs
  | CTimeout observed => caller_eqb (wrap_exn XTimeout) observed
  end.

(* what the model computes, for the replay file *)
Definition explain_case (c : case) : option bytes * list (caller * Z) :=
  match c with
  | CRpc svc name has_result args _ varz stream runs =>
      (enc_call name has_result args,
       map (fun r => reply_result svc varz (chunks_of (r_sizes r) stream)) runs)
  | CTimeout _ => (None, [(wrap_exn XTimeout, 0)])
  end.
