(* C20 - the case type of the correspondence check: proxy cases (Model/Proxy.v) and URI cases (Model/Uri.v). *)
From Scales Require Import Model.Base Model.Proxy Model.Uri.

Inductive case :=
| CProxy (c : pcase)
| CUri (c : ucase).

Definition check_case (c : case) : bool :=
  match c with
  | CProxy p => check_pcase p
  | CUri u => check_ucase u
  end.

Definition explain_case (c : case) : option (bool * list pobs) * option uri_result * option str :=
  match c with
  | CProxy p => (Some (explain_pcase p), None, None)
  | CUri (UParse uri i n _) => (None, Some (parse_uri (const_env i n) uri), None)
  | CUri (UTcpRendered sch eps _ i n _) =>
      (None, Some (parse_uri (const_env i n) (render_tcp_as sch eps)), Some (render_tcp_as sch eps))
  end.
