(* CRC-32 as computed by zlib.crc32 (IEEE 802.3, reflected, polynomial 0xEDB88320), bit by bit, no table.
   zlib.crc32(data)        = crc32 data
   zlib.crc32(data, start) = crc32_cont start data
   The definition is cross-checked against zlib.crc32 on every run by the C15 correspondence
   (harness/props/c15.py, case kinds produce/crc). *)
From Scales Require Import Model.Base Model.Bytes.
Local Open Scope Z_scope.

Definition POLY : Z := 3988292384.      (* 0xEDB88320 *)
Definition MASK32 : Z := 4294967295.    (* 0xFFFFFFFF *)

(* one shift of the reflected register *)
Definition crc_bit (c : Z) : Z :=
  if Z.odd c then Z.lxor (Z.shiftr c 1) POLY else Z.shiftr c 1.

(* feed one byte: xor into the low 8 bits, eight shifts *)
Definition crc_byte (c b : Z) : Z :=
  crc_bit (crc_bit (crc_bit (crc_bit (crc_bit (crc_bit (crc_bit (crc_bit (Z.lxor c b)))))))).

Definition crc_raw (c : Z) (bs : bytes) : Z := fold_left crc_byte bs c.

(* continue a finished checksum over more data (pre- and post-conditioning with 0xFFFFFFFF) *)
Definition crc32_cont (crc : Z) (bs : bytes) : Z := Z.lxor (crc_raw (Z.lxor crc MASK32) bs) MASK32.

Definition crc32 (bs : bytes) : Z := crc32_cont 0 bs.
